(** C01 / C15 — executable model of the ordered symbol tables of moorara/algo:
    symboltable/bst.go, symboltable/avl.go (after the fix: commit 56e1513 that makes
    [_deleteMax] refresh the cached height), symboltable/red_black.go.

    One node type serves the three trees: [sz] is the cached [size] field of all three,
    [ht] the cached [height] field of [avlNode] (0 in the other trees), [red] the [color]
    field of [rbNode] ([false] in the other trees).  Go [int] is [Z].  The comparator
    [cmp : K -> K -> Z] is a parameter (only its sign is inspected, as in the Go code).

    Failure is a value: a dereference that Go performs on a possibly-nil pointer
    ([n.left.left], [n.right.left], [r.left] inside a rotation, [min.key] ...) yields
    [Panic] when the pointer is nil; the red-black delete family recurses into a
    restructured node, so it runs on fuel and fuel exhaustion is [Hang].
    No proofs in this file. *)
From Coq Require Export List ZArith Bool.
Export ListNotations.
Open Scope Z_scope.

Inductive res (A : Type) : Type := Ok (a : A) | Panic | Hang.
Arguments Ok {A} a.
Arguments Panic {A}.
Arguments Hang {A}.

Definition bind {A B : Type} (x : res A) (f : A -> res B) : res B :=
  match x with Ok a => f a | Panic => Panic | Hang => Hang end.

Notation "'do' x <- e ;; f" := (bind e (fun x => f))
  (at level 200, x pattern, e at level 100, f at level 200, right associativity).

(** generic.TraverseOrder; [OtherOrder] stands for any other integer (the [default:] case). *)
Inductive order := VLR | VRL | LVR | RVL | LRV | RLV | Ascending | Descending | OtherOrder.

Inductive impl := BST | AVL | RB.

Section Trees.
  Variables K V : Type.
  Variable cmp : K -> K -> Z.
  Variable eqv : V -> V -> bool.       (* the eqVal argument of the constructors *)

  Inductive tree : Type :=
  | Leaf
  | Node (l : tree) (k : K) (v : V) (sz : Z) (ht : Z) (red : bool) (r : tree).

  (** [_size], AVL [_height] (cached), [isRed]; total accessors for positions where Go's
      short-circuit evaluation protects the dereference. *)
  Definition size (n : tree) : Z := match n with Leaf => 0 | Node _ _ _ s _ _ _ => s end.
  Definition cheight (n : tree) : Z := match n with Leaf => 0 | Node _ _ _ _ h _ _ => h end.
  Definition isRed (n : tree) : bool := match n with Leaf => false | Node _ _ _ _ _ c _ => c end.
  Definition tl (n : tree) : tree := match n with Leaf => Leaf | Node l _ _ _ _ _ _ => l end.
  Definition tr (n : tree) : tree := match n with Leaf => Leaf | Node _ _ _ _ _ _ r => r end.
  Definition is_leaf (n : tree) : bool := match n with Leaf => true | _ => false end.
  (** unprotected dereferences *)
  Definition lft (n : tree) : res tree := match n with Leaf => Panic | Node l _ _ _ _ _ _ => Ok l end.
  Definition rgt (n : tree) : res tree := match n with Leaf => Panic | Node _ _ _ _ _ _ r => Ok r end.

  (** BST / red-black [_height]: recomputed from the shape. *)
  Fixpoint height (n : tree) : Z :=
    match n with Leaf => 0 | Node l _ _ _ _ _ r => 1 + Z.max (height l) (height r) end.

  Fixpoint nodes (n : tree) : nat :=
    match n with Leaf => O | Node l _ _ _ _ _ r => S (nodes l + nodes r) end.

  (** [n.size = 1 + t._size(n.left) + t._size(n.right)] *)
  Definition set_size (n : tree) : res tree :=
    match n with
    | Leaf => Panic
    | Node l k v _ h c r => Ok (Node l k v (1 + size l + size r) h c r)
    end.

  (** ** Queries: the code is textually the same in the three files. *)

  Fixpoint get (n : tree) (key : K) : option V :=
    match n with
    | Leaf => None
    | Node l k v _ _ _ r =>
        let c := cmp key k in
        if c <? 0 then get l key else if 0 <? c then get r key else Some v
    end.

  (** [_min] / [_max] return the node; only its key and value are ever used. *)
  Fixpoint min_node (n : tree) : res (K * V) :=
    match n with
    | Leaf => Panic
    | Node l k v _ _ _ _ => match l with Leaf => Ok (k, v) | _ => min_node l end
    end.

  Fixpoint max_node (n : tree) : res (K * V) :=
    match n with
    | Leaf => Panic
    | Node _ k v _ _ _ r => match r with Leaf => Ok (k, v) | _ => max_node r end
    end.

  Fixpoint floor (n : tree) (key : K) : option (K * V) :=
    match n with
    | Leaf => None
    | Node l k v _ _ _ r =>
        let c := cmp key k in
        if c =? 0 then Some (k, v)
        else if c <? 0 then floor l key
        else match floor r key with Some m => Some m | None => Some (k, v) end
    end.

  Fixpoint ceiling (n : tree) (key : K) : option (K * V) :=
    match n with
    | Leaf => None
    | Node l k v _ _ _ r =>
        let c := cmp key k in
        if c =? 0 then Some (k, v)
        else if 0 <? c then ceiling r key
        else match ceiling l key with Some m => Some m | None => Some (k, v) end
    end.

  Fixpoint select (n : tree) (rank : Z) : option (K * V) :=
    match n with
    | Leaf => None
    | Node l k v _ _ _ r =>
        let s := size l in
        if rank <? s then select l rank
        else if s <? rank then select r (rank - s - 1)
        else Some (k, v)
    end.

  Fixpoint rank (n : tree) (key : K) : Z :=
    match n with
    | Leaf => 0
    | Node l k v _ _ _ r =>
        let c := cmp key k in
        if c <? 0 then rank l key
        else if 0 <? c then 1 + size l + rank r key
        else size l
    end.

  (** [_range] appends to [*kvs] and returns the number of appended entries; here it returns
      the appended segment together with that count. *)
  Fixpoint range_go (n : tree) (lo hi : K) : list (K * V) * Z :=
    match n with
    | Leaf => ([], 0)
    | Node l k v _ _ _ r =>
        let cmpLo := cmp lo k in
        let cmpHi := cmp hi k in
        let '(a1, n1) := if cmpLo <? 0 then range_go l lo hi else ([], 0) in
        let '(a2, n2) := if (cmpLo <=? 0) && (0 <=? cmpHi) then ([(k, v)], 1) else ([], 0) in
        let '(a3, n3) := if 0 <? cmpHi then range_go r lo hi else ([], 0) in
        (a1 ++ a2 ++ a3, n1 + n2 + n3)
    end.

  (** ** [_traverse]: a visitor with early exit, threaded through a state. *)
  Section Traverse.
    Variable S : Type.
    Variable visit : K -> V -> S -> S * bool.

    Definition andthen (f g : S -> S * bool) (s : S) : S * bool :=
      let '(s1, b) := f s in if b then g s1 else (s1, false).

    Fixpoint traverse (o : order) (n : tree) : S -> S * bool :=
      match n with
      | Leaf => fun s => (s, true)
      | Node l k v _ _ _ r =>
          let L := traverse o l in
          let R := traverse o r in
          let N := visit k v in
          match o with
          | VLR => andthen N (andthen L R)
          | VRL => andthen N (andthen R L)
          | LVR | Ascending => andthen L (andthen N R)
          | RVL | Descending => andthen R (andthen N L)
          | LRV => andthen L (andthen R N)
          | RLV => andthen R (andthen L N)
          | OtherOrder => fun s => (s, false)
          end
      end.
  End Traverse.

  (** [Traverse(order, visit)] with a visitor that collects everything and never stops;
      [All()] consumed to the end is the [Ascending] instance. *)
  Definition trav_list (o : order) (n : tree) : list (K * V) :=
    rev (fst (traverse (list (K * V)) (fun k v acc => ((k, v) :: acc, true)) o n [])).

  (** A visitor that stops after [j] visits (early exit observable through the API). *)
  Definition trav_stop (o : order) (j : nat) (n : tree) : list (K * V) :=
    rev (snd (fst (traverse (nat * list (K * V))
      (fun k v '(c, acc) => match c with O => ((O, acc), false) | S c' => ((c', (k, v) :: acc), true) end)
      o n (j, [])))).

  (** how many times that visitor is called: [j] accepted visits and the one that says stop *)
  Definition trav_stop_calls (o : order) (j : nat) (n : tree) : nat :=
    snd (fst (traverse (nat * nat)
      (fun k v '(c, calls) => match c with O => ((O, S calls), false) | S c' => ((c', S calls), true) end)
      o n (j, O))).

  Definition any_match (p : K -> V -> bool) (n : tree) : bool :=
    negb (snd (traverse unit (fun k v s => (s, negb (p k v))) VLR n tt)).
  Definition all_match (p : K -> V -> bool) (n : tree) : bool :=
    snd (traverse unit (fun k v s => (s, p k v)) VLR n tt).
  Definition first_match (p : K -> V -> bool) (n : tree) : option (K * V) :=
    fst (traverse (option (K * V))
           (fun k v s => if p k v then (Some (k, v), false) else (s, true)) VLR n None).

  (** ** BST mutators (bst.go) *)

  Fixpoint bst_put (n : tree) (key : K) (val : V) : tree :=
    match n with
    | Leaf => Node Leaf key val 1 0 false Leaf
    | Node l k v s h c r =>
        let cm := cmp key k in
        if cm <? 0 then
          let l' := bst_put l key val in Node l' k v (1 + size l' + size r) h c r
        else if 0 <? cm then
          let r' := bst_put r key val in Node l k v (1 + size l + size r') h c r'
        else Node l k val (1 + size l + size r) h c r
    end.

  Fixpoint bst_deleteMin (n : tree) : res (tree * (K * V)) :=
    match n with
    | Leaf => Panic
    | Node l k v s h c r =>
        match l with
        | Leaf => Ok (r, (k, v))
        | _ => do (l', m) <- bst_deleteMin l ;;
               Ok (Node l' k v (1 + size l' + size r) h c r, m)
        end
    end.

  Fixpoint bst_deleteMax (n : tree) : res (tree * (K * V)) :=
    match n with
    | Leaf => Panic
    | Node l k v s h c r =>
        match r with
        | Leaf => Ok (l, (k, v))
        | _ => do (r', m) <- bst_deleteMax r ;;
               Ok (Node l k v (1 + size l + size r') h c r', m)
        end
    end.

  Fixpoint bst_delete (n : tree) (key : K) : res (tree * option V) :=
    match n with
    | Leaf => Ok (Leaf, None)
    | Node l k v s h c r =>
        let cm := cmp key k in
        if cm <? 0 then
          do (l', o) <- bst_delete l key ;;
          Ok (Node l' k v (1 + size l' + size r) h c r, o)
        else if 0 <? cm then
          do (r', o) <- bst_delete r key ;;
          Ok (Node l k v (1 + size l + size r') h c r', o)
        else
          match l, r with
          | Leaf, _ => Ok (r, Some v)
          | _, Leaf => Ok (l, Some v)
          | _, _ =>
              (* n = _min(m.right); n.right, _ = _deleteMin(m.right); n.left = m.left *)
              do (mk, mv) <- min_node r ;;
              do (r', _) <- bst_deleteMin r ;;
              Ok (Node l mk mv (1 + size l + size r') h c r', Some v)
          end
    end.

  (** ** AVL (avl.go) *)

  Definition avl_bf (n : tree) : res Z :=
    match n with Leaf => Panic | Node l _ _ _ _ _ r => Ok (cheight l - cheight r) end.

  Definition avl_rotateLeft (n : tree) : res tree :=
    match n with
    | Node nl nk nv ns nh nc (Node rl rk rv rs rh rc rr) =>
        let n' := Node nl nk nv (1 + size nl + size rl) (1 + Z.max (cheight nl) (cheight rl)) nc rl in
        Ok (Node n' rk rv ns (1 + Z.max (cheight n') (cheight rr)) rc rr)
    | _ => Panic
    end.

  Definition avl_rotateRight (n : tree) : res tree :=
    match n with
    | Node (Node ll lk lv ls lh lc lr) nk nv ns nh nc nr =>
        let n' := Node lr nk nv (1 + size lr + size nr) (1 + Z.max (cheight lr) (cheight nr)) nc nr in
        Ok (Node ll lk lv ns (1 + Z.max (cheight ll) (cheight n')) lc n')
    | _ => Panic
    end.

  Definition avl_balance (n : tree) : res tree :=
    do bf <- avl_bf n ;;
    if bf =? 2 then
      match n with
      | Leaf => Panic
      | Node l k v s h c r =>
          do bfl <- avl_bf l ;;
          do l' <- (if bfl =? -1 then avl_rotateLeft l else Ok l) ;;
          avl_rotateRight (Node l' k v s h c r)
      end
    else if bf =? -2 then
      match n with
      | Leaf => Panic
      | Node l k v s h c r =>
          do bfr <- avl_bf r ;;
          do r' <- (if bfr =? 1 then avl_rotateRight r else Ok r) ;;
          avl_rotateLeft (Node l k v s h c r')
      end
    else Ok n.

  (** size and height refresh followed by [balance] — the common tail of the unwinding paths *)
  Definition avl_fix (l : tree) (k : K) (v : V) (c : bool) (r : tree) : res tree :=
    avl_balance (Node l k v (1 + size l + size r) (1 + Z.max (cheight l) (cheight r)) c r).

  Fixpoint avl_put (n : tree) (key : K) (val : V) : res tree :=
    match n with
    | Leaf => Ok (Node Leaf key val 1 1 false Leaf)
    | Node l k v s h c r =>
        let cm := cmp key k in
        if cm <? 0 then do l' <- avl_put l key val ;; avl_fix l' k v c r
        else if 0 <? cm then do r' <- avl_put r key val ;; avl_fix l k v c r'
        else Ok (Node l k val s h c r)          (* n.val = val; return n *)
    end.

  Fixpoint avl_deleteMin (n : tree) : res (tree * (K * V)) :=
    match n with
    | Leaf => Panic
    | Node l k v s h c r =>
        match l with
        | Leaf => Ok (r, (k, v))
        | _ => do (l', m) <- avl_deleteMin l ;;
               do n' <- avl_fix l' k v c r ;; Ok (n', m)
        end
    end.

  (** with the height refresh added by the fix: commit *)
  Fixpoint avl_deleteMax (n : tree) : res (tree * (K * V)) :=
    match n with
    | Leaf => Panic
    | Node l k v s h c r =>
        match r with
        | Leaf => Ok (l, (k, v))
        | _ => do (r', m) <- avl_deleteMax r ;;
               do n' <- avl_fix l k v c r' ;; Ok (n', m)
        end
    end.

  Fixpoint avl_delete (n : tree) (key : K) : res (tree * option V) :=
    match n with
    | Leaf => Ok (Leaf, None)
    | Node l k v s h c r =>
        let cm := cmp key k in
        if cm <? 0 then
          do (l', o) <- avl_delete l key ;;
          do n' <- avl_fix l' k v c r ;; Ok (n', o)
        else if 0 <? cm then
          do (r', o) <- avl_delete r key ;;
          do n' <- avl_fix l k v c r' ;; Ok (n', o)
        else
          match l, r with
          | Leaf, _ => Ok (r, Some v)
          | _, Leaf => Ok (l, Some v)
          | _, _ =>
              do (mk, mv) <- min_node r ;;
              do (r', _) <- avl_deleteMin r ;;
              (* the node reused is the old minimum of the right subtree: its colour field is
                 unused in AVL (always false), size and height are refreshed below *)
              do n' <- avl_fix l mk mv false r' ;; Ok (n', Some v)
          end
    end.

  (** ** Left-leaning red-black tree (red_black.go) *)

  Definition rb_rotateLeft (n : tree) : res tree :=
    match n with
    | Node nl nk nv ns nh nc (Node rl rk rv rs rh rc rr) =>
        (* r.color = r.left.color (= n.color); r.left.color = red; r.size = n.size; n.size = ... *)
        Ok (Node (Node nl nk nv (1 + size nl + size rl) nh true rl) rk rv ns rh nc rr)
    | _ => Panic
    end.

  Definition rb_rotateRight (n : tree) : res tree :=
    match n with
    | Node (Node ll lk lv ls lh lc lr) nk nv ns nh nc nr =>
        Ok (Node ll lk lv ns lh nc (Node lr nk nv (1 + size lr + size nr) nh true nr))
    | _ => Panic
    end.

  Definition rb_flip (n : tree) : res tree :=
    match n with
    | Node (Node ll lk lv ls lh lc lr) k v s h c (Node rl rk rv rs rh rc rr) =>
        Ok (Node (Node ll lk lv ls lh (negb lc) lr) k v s h (negb c) (Node rl rk rv rs rh (negb rc) rr))
    | _ => Panic
    end.

  Definition rb_moveRedLeft (n : tree) : res tree :=
    do n1 <- rb_flip n ;;
    match n1 with
    | Leaf => Panic
    | Node l k v s h c r =>
        if isRed (tl r) then
          do r' <- rb_rotateRight r ;;
          do n2 <- rb_rotateLeft (Node l k v s h c r') ;;
          rb_flip n2
        else Ok n1
    end.

  Definition rb_moveRedRight (n : tree) : res tree :=
    do n1 <- rb_flip n ;;
    if isRed (tl (tl n1)) then
      do n2 <- rb_rotateRight n1 ;; rb_flip n2
    else Ok n1.

  Definition rb_balance (n : tree) : res tree :=
    match n with
    | Leaf => Panic
    | _ =>
        do n1 <- (if isRed (tr n) then rb_rotateLeft n else Ok n) ;;
        do n2 <- (if isRed (tl n1) && isRed (tl (tl n1)) then rb_rotateRight n1 else Ok n1) ;;
        do n3 <- (if isRed (tl n2) && isRed (tr n2) then rb_flip n2 else Ok n2) ;;
        set_size n3
    end.

  (** the fix-up of right-leaning links at the end of [_put], followed by the size refresh *)
  Definition rb_put_fix (n0 : tree) : res tree :=
    do n1 <- (if isRed (tr n0) && negb (isRed (tl n0)) then rb_rotateLeft n0 else Ok n0) ;;
    do n2 <- (if isRed (tl n1) && isRed (tl (tl n1)) then rb_rotateRight n1 else Ok n1) ;;
    do n3 <- (if isRed (tl n2) && isRed (tr n2) then rb_flip n2 else Ok n2) ;;
    set_size n3.

  Fixpoint rb_put (n : tree) (key : K) (val : V) : res tree :=
    match n with
    | Leaf => Ok (Node Leaf key val 1 0 true Leaf)
    | Node l k v s h c r =>
        let cm := cmp key k in
        do n0 <- (if cm <? 0 then do l' <- rb_put l key val ;; Ok (Node l' k v s h c r)
                  else if 0 <? cm then do r' <- rb_put r key val ;; Ok (Node l k v s h c r')
                  else Ok (Node l k val s h c r)) ;;
        rb_put_fix n0
    end.

  Definition set_color (c : bool) (n : tree) : tree :=
    match n with Leaf => Leaf | Node l k v s h _ r => Node l k v s h c r end.

  (** [if !isRed(n.left) && !isRed(n.left.left)] — the second operand dereferences n.left *)
  Definition both_black_left (n : tree) : res bool :=
    do l <- lft n ;;
    if negb (isRed l) then (do ll <- lft l ;; Ok (negb (isRed ll))) else Ok false.

  Definition both_black_right (n : tree) : res bool :=
    do r <- rgt n ;;
    if negb (isRed r) then (do rl <- lft r ;; Ok (negb (isRed rl))) else Ok false.

  Fixpoint rb_deleteMin (fuel : nat) (n : tree) : res (tree * (K * V)) :=
    match fuel with
    | O => Hang
    | S f =>
        match n with
        | Leaf => Panic
        | Node l k v s h c r =>
            if is_leaf l then Ok (r, (k, v))
            else
              do b <- both_black_left n ;;
              do n1 <- (if b then rb_moveRedLeft n else Ok n) ;;
              match n1 with
              | Leaf => Panic
              | Node l1 k1 v1 s1 h1 c1 r1 =>
                  do (l', m) <- rb_deleteMin f l1 ;;
                  do n2 <- rb_balance (Node l' k1 v1 s1 h1 c1 r1) ;;
                  Ok (n2, m)
              end
        end
    end.

  Fixpoint rb_deleteMax (fuel : nat) (n : tree) : res (tree * (K * V)) :=
    match fuel with
    | O => Hang
    | S f =>
        match n with
        | Leaf => Panic
        | _ =>
            do n0 <- (if isRed (tl n) then rb_rotateRight n else Ok n) ;;
            match n0 with
            | Leaf => Panic
            | Node l0 k0 v0 s0 h0 c0 r0 =>
                if is_leaf r0 then Ok (l0, (k0, v0))
                else
                  do b <- both_black_right n0 ;;
                  do n1 <- (if b then rb_moveRedRight n0 else Ok n0) ;;
                  match n1 with
                  | Leaf => Panic
                  | Node l1 k1 v1 s1 h1 c1 r1 =>
                      do (r', m) <- rb_deleteMax f r1 ;;
                      do n2 <- rb_balance (Node l1 k1 v1 s1 h1 c1 r') ;;
                      Ok (n2, m)
                  end
            end
        end
    end.

  Fixpoint rb_delete (fuel : nat) (n : tree) (key : K) : res (tree * option V) :=
    match fuel with
    | O => Hang
    | S f =>
        match n with
        | Leaf => Panic                                      (* n.key *)
        | Node l k v s h c r =>
            if cmp key k <? 0 then
              do b <- both_black_left n ;;
              do n1 <- (if b then rb_moveRedLeft n else Ok n) ;;
              match n1 with
              | Leaf => Panic
              | Node l1 k1 v1 s1 h1 c1 r1 =>
                  do (l', o) <- rb_delete f l1 key ;;
                  do n2 <- rb_balance (Node l' k1 v1 s1 h1 c1 r1) ;;
                  Ok (n2, o)
              end
            else
              do n0 <- (if isRed l then rb_rotateRight n else Ok n) ;;
              match n0 with
              | Leaf => Panic
              | Node l0 k0 v0 s0 h0 c0 r0 =>
                  if (cmp key k0 =? 0) && is_leaf r0 then Ok (Leaf, Some v0)
                  else
                    do b <- both_black_right n0 ;;
                    do n1 <- (if b then rb_moveRedRight n0 else Ok n0) ;;
                    match n1 with
                    | Leaf => Panic
                    | Node l1 k1 v1 s1 h1 c1 r1 =>
                        if cmp key k1 =? 0 then
                          do (r', (mk, mv)) <- rb_deleteMin f r1 ;;
                          do n2 <- rb_balance (Node l1 mk mv s1 h1 c1 r') ;;
                          Ok (n2, Some v1)
                        else
                          do (r', o) <- rb_delete f r1 key ;;
                          do n2 <- rb_balance (Node l1 k1 v1 s1 h1 c1 r') ;;
                          Ok (n2, o)
                    end
              end
        end
    end.

  (** [if !isRed(root.left) && !isRed(root.right) { root.color = red }] *)
  Definition rb_redden_root (n : tree) : tree :=
    if negb (isRed (tl n)) && negb (isRed (tr n)) then set_color true n else n.

  (** ** The exported methods, by implementation. *)

  Definition Put (i : impl) (n : tree) (key : K) (val : V) : res tree :=
    match i with
    | BST => Ok (bst_put n key val)
    | AVL => avl_put n key val
    | RB => do n' <- rb_put n key val ;;
            match n' with Leaf => Panic | _ => Ok (set_color false n') end   (* t.root.color = black *)
    end.

  Definition Delete (i : impl) (n : tree) (key : K) : res (tree * option V) :=
    match i with
    | BST => bst_delete n key
    | AVL => avl_delete n key
    | RB =>
        if is_leaf n then Ok (n, None)
        else match get n key with
             | None => Ok (n, None)
             | Some _ =>
                 do (n', o) <- rb_delete (S (nodes n)) (rb_redden_root n) key ;;
                 Ok (set_color false n', o)
             end
    end.

  Definition DeleteMin (i : impl) (n : tree) : res (tree * option (K * V)) :=
    if is_leaf n then Ok (n, None)
    else
      do (n', m) <- match i with
                     | BST => bst_deleteMin n
                     | AVL => avl_deleteMin n
                     | RB => do (n', m) <- rb_deleteMin (S (nodes n)) (rb_redden_root n) ;;
                             Ok (set_color false n', m)
                     end ;;
      Ok (n', Some m).

  Definition DeleteMax (i : impl) (n : tree) : res (tree * option (K * V)) :=
    if is_leaf n then Ok (n, None)
    else
      do (n', m) <- match i with
                     | BST => bst_deleteMax n
                     | AVL => avl_deleteMax n
                     | RB => do (n', m) <- rb_deleteMax (S (nodes n)) (rb_redden_root n) ;;
                             Ok (set_color false n', m)
                     end ;;
      Ok (n', Some m).

  Definition Height (i : impl) (n : tree) : Z :=
    match i with AVL => cheight n | _ => height n end.

  Definition Min (n : tree) : res (option (K * V)) :=
    if is_leaf n then Ok None else do m <- min_node n ;; Ok (Some m).
  Definition Max (n : tree) : res (option (K * V)) :=
    if is_leaf n then Ok None else do m <- max_node n ;; Ok (Some m).

  (** [n := t._select(t.root, rank); return n.key, n.val, true] dereferences the result *)
  Definition Select (n : tree) (rk : Z) : res (option (K * V)) :=
    if (rk <? 0) || (size n <=? rk) then Ok None
    else match select n rk with Some m => Ok (Some m) | None => Panic end.

  Definition Range (n : tree) (lo hi : K) : list (K * V) :=
    let '(kvs, len) := range_go n lo hi in firstn (Z.to_nat len) kvs.

  Definition RangeSize (n : tree) (lo hi : K) : Z :=
    if 0 <? cmp lo hi then 0
    else match get n hi with
         | Some _ => 1 + rank n hi - rank n lo
         | None => rank n hi - rank n lo
         end.

  (** [Equal]: t ⊂ t2 and t2 ⊂ t, both by an ascending traversal with early exit.
      (A right-hand side of another implementation answers [false] by type assertion; the
      model compares tables of the same implementation.) *)
  Definition Equal (n n2 : tree) : bool :=
    snd (traverse unit (fun k v s => (s, match get n2 k with Some v2 => eqv v v2 | None => false end))
           Ascending n tt)
    && snd (traverse unit (fun k v s => (s, match get n k with Some v1 => eqv v v1 | None => false end))
              Ascending n2 tt).

  (** [SelectMatch] / [PartitionMatch]: new tables of the same type filled by [Put] in pre-order. *)
  Definition SelectMatch (i : impl) (p : K -> V -> bool) (n : tree) : res tree :=
    fst (traverse (res tree)
           (fun k v s => ((if p k v then (do t <- s ;; Put i t k v) else s), true)) VLR n (Ok Leaf)).

  Definition PartitionMatch (i : impl) (p : K -> V -> bool) (n : tree) : res tree * res tree :=
    fst (traverse (res tree * res tree)
           (fun k v '(m, u) => ((if p k v then ((do t <- m ;; Put i t k v), u)
                                 else (m, (do t <- u ;; Put i t k v))), true)) VLR n (Ok Leaf, Ok Leaf)).

  (** ** Histories *)

  Inductive mut := MPut (k : K) (v : V) | MDelete (k : K) | MDeleteMin | MDeleteMax | MDeleteAll.

  Inductive query :=
  | QSize | QIsEmpty | QGet (k : K) | QMin | QMax | QFloor (k : K) | QCeiling (k : K)
  | QSelect (i : Z) | QRank (k : K) | QRange (lo hi : K) | QRangeSize (lo hi : K)
  | QAll | QTraverse (o : order) | QEqual (h : list mut)
  | QAnyMatch (p : K -> V -> bool) | QAllMatch (p : K -> V -> bool)
  | QSelectMatch (p : K -> V -> bool) | QPartitionMatch (p : K -> V -> bool)
  (* determined by the shape, not by the abstract map: *)
  | QHeight | QFirstMatch (p : K -> V -> bool) | QTraverseStop (o : order) (j : nat).

  Inductive op := M (m : mut) | Q (q : query).

  Inductive out :=
  | OUnit | OBool (b : bool) | OInt (z : Z) | OVal (o : option V) | OKV (o : option (K * V))
  | OList (l : list (K * V)) | OLists (l1 l2 : list (K * V))
  | OListN (l : list (K * V)) (calls : nat).     (* visited pairs and number of visitor calls *)

  Definition inorder (n : tree) : list (K * V) := trav_list Ascending n.

  Definition mutate (i : impl) (n : tree) (m : mut) : res (tree * out) :=
    match m with
    | MPut k v => do n' <- Put i n k v ;; Ok (n', OUnit)
    | MDelete k => do (n', o) <- Delete i n k ;; Ok (n', OVal o)
    | MDeleteMin => do (n', o) <- DeleteMin i n ;; Ok (n', OKV o)
    | MDeleteMax => do (n', o) <- DeleteMax i n ;; Ok (n', OKV o)
    | MDeleteAll => Ok (Leaf, OUnit)
    end.

  (** the table reached from the empty one by a history of mutators *)
  Fixpoint build_from (i : impl) (n : tree) (h : list mut) : res tree :=
    match h with
    | [] => Ok n
    | m :: h' => do (n', _) <- mutate i n m ;; build_from i n' h'
    end.
  Definition build (i : impl) (h : list mut) : res tree := build_from i Leaf h.

  Definition ask (i : impl) (n : tree) (q : query) : res out :=
    match q with
    | QSize => Ok (OInt (size n))
    | QIsEmpty => Ok (OBool (is_leaf n))
    | QGet k => Ok (OVal (get n k))
    | QMin => do m <- Min n ;; Ok (OKV m)
    | QMax => do m <- Max n ;; Ok (OKV m)
    | QFloor k => Ok (OKV (floor n k))
    | QCeiling k => Ok (OKV (ceiling n k))
    | QSelect j => do m <- Select n j ;; Ok (OKV m)
    | QRank k => Ok (OInt (rank n k))
    | QRange lo hi => Ok (OList (Range n lo hi))
    | QRangeSize lo hi => Ok (OInt (RangeSize n lo hi))
    | QAll => Ok (OList (trav_list Ascending n))
    | QTraverse o => Ok (OList (trav_list o n))
    | QEqual h => do n2 <- build i h ;; Ok (OBool (Equal n n2))
    | QAnyMatch p => Ok (OBool (any_match p n))
    | QAllMatch p => Ok (OBool (all_match p n))
    | QSelectMatch p => do t <- SelectMatch i p n ;; Ok (OList (inorder t))
    | QPartitionMatch p =>
        let '(a, b) := PartitionMatch i p n in
        do ta <- a ;; do tb <- b ;; Ok (OLists (inorder ta) (inorder tb))
    | QHeight => Ok (OInt (Height i n))
    | QFirstMatch p => Ok (OKV (first_match p n))
    | QTraverseStop o j => Ok (OListN (trav_stop o j n) (trav_stop_calls o j n))
    end.

  Definition step (i : impl) (n : tree) (o : op) : res (tree * out) :=
    match o with
    | M m => mutate i n m
    | Q q => do x <- ask i n q ;; Ok (n, x)
    end.

  (** outputs of a history; a panic or hang ends it *)
  Fixpoint run_from (i : impl) (n : tree) (ops : list op) : list (res out) :=
    match ops with
    | [] => []
    | o :: rest =>
        match step i n o with
        | Ok (n', x) => Ok x :: run_from i n' rest
        | Panic => [Panic]
        | Hang => [Hang]
        end
    end.
  Definition run (i : impl) (ops : list op) : list (res out) := run_from i Leaf ops.

  (** ** The shape revealed by the pre-order and in-order traversals (C15). *)
  Inductive shape := SLeaf | SNode (l : shape) (k : K) (r : shape).

  Fixpoint shape_of (n : tree) : shape :=
    match n with Leaf => SLeaf | Node l k _ _ _ _ r => SNode (shape_of l) k (shape_of r) end.

  Fixpoint shape_height (s : shape) : Z :=
    match s with SLeaf => 0 | SNode l _ r => 1 + Z.max (shape_height l) (shape_height r) end.

  (** split the in-order list at the first key equivalent to [x] *)
  Fixpoint split_at (x : K) (ino : list K) : option (list K * list K) :=
    match ino with
    | [] => None
    | y :: t => if cmp x y =? 0 then Some ([], t)
                else match split_at x t with Some (a, b) => Some (y :: a, b) | None => None end
    end.

  (** rebuild the shape from pre-order and in-order key lists; [None] if they are inconsistent *)
  Fixpoint rebuild (fuel : nat) (pre ino : list K) : option shape :=
    match fuel with
    | O => match pre with [] => Some SLeaf | _ => None end
    | S f =>
        match pre with
        | [] => match ino with [] => Some SLeaf | _ => None end
        | x :: pre' =>
            match split_at x ino with
            | None => None
            | Some (il, ir) =>
                let pl := firstn (length il) pre' in
                let pr := skipn (length il) pre' in
                match rebuild f pl il, rebuild f pr ir with
                | Some l, Some r => Some (SNode l x r)
                | _, _ => None
                end
            end
        end
    end.

  Definition shape_from_traversals (pre ino : list (K * V)) : option shape :=
    rebuild (length pre) (map fst pre) (map fst ino).

  (** real-height balance of a shape (AVL) *)
  Fixpoint shape_balanced (s : shape) : bool :=
    match s with
    | SLeaf => true
    | SNode l _ r =>
        let d := shape_height l - shape_height r in
        (-1 <=? d) && (d <=? 1) && shape_balanced l && shape_balanced r
    end.

  (** ** Invariant checkers used by the correspondence (and stated as theorems in C15). *)

  (** cached heights are the real heights and balance factors are in -1..1 *)
  Fixpoint avl_check (n : tree) : bool :=
    match n with
    | Leaf => true
    | Node l _ _ _ h _ r =>
        (h =? 1 + Z.max (height l) (height r)) &&
        (-1 <=? height l - height r) && (height l - height r <=? 1) && avl_check l && avl_check r
    end.

  (** black height of every path, [None] when two paths differ *)
  Fixpoint black_height (n : tree) : option Z :=
    match n with
    | Leaf => Some 0
    | Node l _ _ _ _ c r =>
        match black_height l, black_height r with
        | Some a, Some b => if a =? b then Some (if c then a else a + 1) else None
        | _, _ => None
        end
    end.

  (** no right-leaning red link, no two red links in a row *)
  Fixpoint rb_colors_ok (n : tree) : bool :=
    match n with
    | Leaf => true
    | Node l _ _ _ _ c r =>
        negb (isRed r) && negb (c && isRed l) && rb_colors_ok l && rb_colors_ok r
    end.

  Definition rb_check (n : tree) : bool :=
    negb (isRed n) && rb_colors_ok n && match black_height n with Some _ => true | None => false end.

  Fixpoint sizes_check (n : tree) : bool :=
    match n with
    | Leaf => true
    | Node l _ _ s _ _ r => (s =? 1 + size l + size r) && sizes_check l && sizes_check r
    end.

End Trees.

Arguments Leaf {K V}.
Arguments Node {K V} l k v sz ht red r.
Arguments SLeaf {K}.
Arguments SNode {K} l k r.
Arguments MPut {K V} k v.
Arguments MDelete {K V} k.
Arguments MDeleteMin {K V}.
Arguments MDeleteMax {K V}.
Arguments MDeleteAll {K V}.
Arguments OUnit {K V}.
Arguments OBool {K V} b.
Arguments OInt {K V} z.
Arguments OVal {K V} o.
Arguments OKV {K V} o.
Arguments OList {K V} l.
Arguments OLists {K V} l1 l2.
Arguments OListN {K V} l calls.
Arguments M {K V} m.
Arguments Q {K V} q.

Arguments QSize {K V}.
Arguments QIsEmpty {K V}.
Arguments QGet {K V}.
Arguments QMin {K V}.
Arguments QMax {K V}.
Arguments QFloor {K V}.
Arguments QCeiling {K V}.
Arguments QSelect {K V}.
Arguments QRank {K V}.
Arguments QRange {K V}.
Arguments QRangeSize {K V}.
Arguments QAll {K V}.
Arguments QTraverse {K V}.
Arguments QEqual {K V}.
Arguments QAnyMatch {K V}.
Arguments QAllMatch {K V}.
Arguments QSelectMatch {K V}.
Arguments QPartitionMatch {K V}.
Arguments QHeight {K V}.
Arguments QFirstMatch {K V}.
Arguments QTraverseStop {K V}.
Arguments size {K V}.
Arguments cheight {K V}.
Arguments isRed {K V}.
Arguments tl {K V}.
Arguments tr {K V}.
Arguments is_leaf {K V}.
Arguments lft {K V}.
Arguments rgt {K V}.
Arguments height {K V}.
Arguments nodes {K V}.
Arguments set_size {K V}.
Arguments get {K V}.
Arguments min_node {K V}.
Arguments max_node {K V}.
Arguments floor {K V}.
Arguments ceiling {K V}.
Arguments select {K V}.
Arguments rank {K V}.
Arguments range_go {K V}.
Arguments traverse {K V}.
Arguments trav_list {K V}.
Arguments trav_stop {K V}.
Arguments trav_stop_calls {K V}.
Arguments any_match {K V}.
Arguments all_match {K V}.
Arguments first_match {K V}.
Arguments bst_put {K V}.
Arguments bst_deleteMin {K V}.
Arguments bst_deleteMax {K V}.
Arguments bst_delete {K V}.
Arguments avl_bf {K V}.
Arguments avl_rotateLeft {K V}.
Arguments avl_rotateRight {K V}.
Arguments avl_balance {K V}.
Arguments avl_fix {K V}.
Arguments avl_put {K V}.
Arguments avl_deleteMin {K V}.
Arguments avl_deleteMax {K V}.
Arguments avl_delete {K V}.
Arguments rb_rotateLeft {K V}.
Arguments rb_rotateRight {K V}.
Arguments rb_flip {K V}.
Arguments rb_moveRedLeft {K V}.
Arguments rb_moveRedRight {K V}.
Arguments rb_balance {K V}.
Arguments rb_put_fix {K V}.
Arguments rb_put {K V}.
Arguments set_color {K V}.
Arguments both_black_left {K V}.
Arguments both_black_right {K V}.
Arguments rb_deleteMin {K V}.
Arguments rb_deleteMax {K V}.
Arguments rb_delete {K V}.
Arguments rb_redden_root {K V}.
Arguments Put {K V}.
Arguments Delete {K V}.
Arguments DeleteMin {K V}.
Arguments DeleteMax {K V}.
Arguments Height {K V}.
Arguments Min {K V}.
Arguments Max {K V}.
Arguments Select {K V}.
Arguments Range {K V}.
Arguments RangeSize {K V}.
Arguments Equal {K V}.
Arguments SelectMatch {K V}.
Arguments PartitionMatch {K V}.
Arguments inorder {K V}.
Arguments mutate {K V}.
Arguments build_from {K V}.
Arguments build {K V}.
Arguments ask {K V}.
Arguments step {K V}.
Arguments run_from {K V}.
Arguments run {K V}.
Arguments shape_of {K V}.
Arguments shape_height {K}.
Arguments split_at {K}.
Arguments rebuild {K}.
Arguments shape_from_traversals {K V}.
Arguments shape_balanced {K}.
Arguments avl_check {K V}.
Arguments black_height {K V}.
Arguments rb_colors_ok {K V}.
Arguments rb_check {K V}.
Arguments sizes_check {K V}.

(** Comparators used by the harness (instances of the parameter [cmp]). *)
Definition cmp_asc (a b : Z) : Z := match a ?= b with Lt => -1 | Eq => 0 | Gt => 1 end.
Definition cmp_desc (a b : Z) : Z := match a ?= b with Lt => 1 | Eq => 0 | Gt => -1 end.
(** a comparator that returns magnitudes other than 1 *)
Definition cmp_diff (a b : Z) : Z := a - b.
(** reversed difference and a scaled difference: comparators whose results are never +-1 on
    distinct even keys (the contract is negative / zero / positive, only the sign may be used) *)
Definition cmp_rdiff (a b : Z) : Z := b - a.
Definition cmp_diff3 (a b : Z) : Z := 3 * (a - b).
(** a total preorder that is not antisymmetric: keys are compared by their half *)
Definition cmp_half (a b : Z) : Z := cmp_asc (a / 2) (b / 2).

(** floor(log2 (n+1)) * 2 — the red-black height bound, computed for the driver *)
Definition rb_height_bound (n : Z) : Z := 2 * Z.log2 (n + 1).
