(** C01 — specification: the abstract sorted map is a strictly [cmp]-sorted association list.
    Every operation of the ordered-symbol-table interface has an obvious list definition here
    (no trees, no sizes).  [spec_run] is the abstract counterpart of [Model.run].

    Comparator laws ([TotalOrder]): a total preorder given through the sign of [cmp a b].
    Antisymmetry up to Leibniz equality is NOT required: keys that compare equal are the same
    key of the map (as in the Go code, which keeps the key stored first and replaces the value). *)
From Algo.C01 Require Import Model.
From Coq Require Import Lia.
Open Scope Z_scope.

Section Spec.
  Variables K V : Type.
  Variable cmp : K -> K -> Z.
  Variable eqv : V -> V -> bool.

  Record TotalOrder : Prop := {
    cmp_refl : forall a, cmp a a = 0;
    cmp_antisym : forall a b, cmp a b < 0 <-> 0 < cmp b a;
    cmp_trans : forall a b c, cmp a b <= 0 -> cmp b c <= 0 -> cmp a c <= 0
  }.

  Definition amap := list (K * V).

  (** strictly sorted: every entry is below all later ones *)
  Fixpoint sorted (l : amap) : Prop :=
    match l with
    | [] => True
    | a :: t => Forall (fun b => cmp (fst a) (fst b) < 0) t /\ sorted t
    end.

  Fixpoint s_put (k : K) (v : V) (l : amap) : amap :=
    match l with
    | [] => [(k, v)]
    | (k', v') :: t =>
        let c := cmp k k' in
        if c <? 0 then (k, v) :: l
        else if 0 <? c then (k', v') :: s_put k v t
        else (k', v) :: t
    end.

  Fixpoint s_get (k : K) (l : amap) : option V :=
    match l with
    | [] => None
    | (k', v') :: t => if cmp k k' =? 0 then Some v' else s_get k t
    end.

  Fixpoint s_delete (k : K) (l : amap) : amap * option V :=
    match l with
    | [] => ([], None)
    | (k', v') :: t =>
        if cmp k k' =? 0 then (t, Some v')
        else let '(t', o) := s_delete k t in ((k', v') :: t', o)
    end.

  Definition last_error (l : amap) : option (K * V) := hd_error (rev l).

  Definition s_min (l : amap) : option (K * V) := hd_error l.
  Definition s_max (l : amap) : option (K * V) := last_error l.
  (** largest key <= k / smallest key >= k *)
  Definition s_floor (k : K) (l : amap) : option (K * V) :=
    last_error (filter (fun e => 0 <=? cmp k (fst e)) l).
  Definition s_ceiling (k : K) (l : amap) : option (K * V) :=
    hd_error (filter (fun e => cmp k (fst e) <=? 0) l).
  Definition s_deleteMin (l : amap) : amap * option (K * V) :=
    match l with [] => ([], None) | a :: t => (t, Some a) end.
  Definition s_deleteMax (l : amap) : amap * option (K * V) :=
    match rev l with [] => ([], None) | a :: t => (rev t, Some a) end.
  Definition s_select (i : Z) (l : amap) : option (K * V) :=
    if i <? 0 then None else nth_error l (Z.to_nat i).
  (** number of keys strictly below k *)
  Definition s_rank (k : K) (l : amap) : Z :=
    Z.of_nat (length (filter (fun e => 0 <? cmp k (fst e)) l)).
  Definition s_range (lo hi : K) (l : amap) : amap :=
    filter (fun e => (cmp lo (fst e) <=? 0) && (0 <=? cmp hi (fst e))) l.
  Definition s_rangeSize (lo hi : K) (l : amap) : Z := Z.of_nat (length (s_range lo hi l)).
  Definition s_sub (l1 l2 : amap) : bool :=
    forallb (fun e => match s_get (fst e) l2 with Some v2 => eqv (snd e) v2 | None => false end) l1.
  Definition s_equal (l1 l2 : amap) : bool := s_sub l1 l2 && s_sub l2 l1.
  Definition holds (p : K -> V -> bool) (e : K * V) : bool := p (fst e) (snd e).

  (** the traversal orders that the abstract map determines *)
  Definition abstract_order (o : order) : bool :=
    match o with LVR | RVL | Ascending | Descending | OtherOrder => true | _ => false end.
  Definition s_traverse (o : order) (l : amap) : amap :=
    match o with
    | LVR | Ascending => l
    | RVL | Descending => rev l
    | _ => []
    end.

  Definition s_mutate (l : amap) (m : mut K V) : amap * out K V :=
    match m with
    | MPut k v => (s_put k v l, OUnit)
    | MDelete k => let '(l', o) := s_delete k l in (l', OVal o)
    | MDeleteMin => let '(l', o) := s_deleteMin l in (l', OKV o)
    | MDeleteMax => let '(l', o) := s_deleteMax l in (l', OKV o)
    | MDeleteAll => ([], OUnit)
    end.

  Definition s_build_from (l : amap) (h : list (mut K V)) : amap :=
    fold_left (fun l m => fst (s_mutate l m)) h l.
  Definition s_build (h : list (mut K V)) : amap := s_build_from [] h.

  (** queries whose answer is a function of the abstract map *)
  Definition abstract_query (q : query K V) : bool :=
    match q with
    | QHeight | QFirstMatch _ => false
    | QTraverse o | QTraverseStop o _ => abstract_order o
    | _ => true
    end.
  Definition abstract_op (o : op K V) : bool :=
    match o with M _ => true | Q q => abstract_query q end.

  Definition s_ask (l : amap) (q : query K V) : out K V :=
    match q with
    | QSize => OInt (Z.of_nat (length l))
    | QIsEmpty => OBool (match l with [] => true | _ => false end)
    | QGet k => OVal (s_get k l)
    | QMin => OKV (s_min l)
    | QMax => OKV (s_max l)
    | QFloor k => OKV (s_floor k l)
    | QCeiling k => OKV (s_ceiling k l)
    | QSelect i => OKV (s_select i l)
    | QRank k => OInt (s_rank k l)
    | QRange lo hi => OList (s_range lo hi l)
    | QRangeSize lo hi => OInt (s_rangeSize lo hi l)
    | QAll => OList l
    | QTraverse o => OList (s_traverse o l)
    | QEqual h => OBool (s_equal l (s_build h))
    | QAnyMatch p => OBool (existsb (holds p) l)
    | QAllMatch p => OBool (forallb (holds p) l)
    | QSelectMatch p => OList (filter (holds p) l)
    | QPartitionMatch p => OLists (filter (holds p) l) (filter (fun e => negb (holds p e)) l)
    | QTraverseStop o j => OListN (firstn j (s_traverse o l)) (Nat.min (S j) (length (s_traverse o l)))
    | QHeight | QFirstMatch _ => OUnit          (* not determined by the abstract map *)
    end.

  Definition s_step (l : amap) (o : op K V) : amap * out K V :=
    match o with
    | M m => s_mutate l m
    | Q q => (l, s_ask l q)
    end.

  Fixpoint s_run_from (l : amap) (ops : list (op K V)) : list (out K V) :=
    match ops with
    | [] => []
    | o :: rest => let '(l', x) := s_step l o in x :: s_run_from l' rest
    end.
  Definition spec_run (ops : list (op K V)) : list (out K V) := s_run_from [] ops.

End Spec.

Arguments sorted {K V} cmp l.
Arguments TotalOrder {K} cmp.
Arguments s_put {K V}. Arguments s_get {K V}. Arguments s_delete {K V}. Arguments s_min {K V}. Arguments s_max {K V}.
Arguments last_error {K V}. Arguments s_floor {K V}. Arguments s_ceiling {K V}. Arguments s_deleteMin {K V}. Arguments s_deleteMax {K V}.
Arguments s_select {K V}. Arguments s_rank {K V}. Arguments s_range {K V}. Arguments s_rangeSize {K V}. Arguments s_sub {K V}. Arguments s_equal {K V}.
Arguments holds {K V}. Arguments s_traverse {K V}. Arguments s_mutate {K V}. Arguments s_build_from {K V}. Arguments s_build {K V}.
Arguments abstract_query {K V}. Arguments abstract_op {K V}. Arguments s_ask {K V}. Arguments s_step {K V}. Arguments s_run_from {K V}. Arguments spec_run {K V}.
Arguments cmp_refl {K cmp}.
Arguments cmp_antisym {K cmp}.
Arguments cmp_trans {K cmp}.
