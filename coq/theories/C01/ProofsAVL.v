(** C01 / C15 — AVL: the invariant (exact cached sizes and heights, balance factors in -1..1),
    its preservation by every mutator, refinement of the abstract operations, no panic. *)
From Algo.C01 Require Import Model Spec SpecFacts ProofsQuery ProofsRun ProofsBST.
From Coq Require Import Lia.
Open Scope Z_scope.
Arguments inorder {K V} n : simpl never.

Section AVL.
  Context {K V : Type}.
  Variable cmp : K -> K -> Z.
  Hypothesis TO : TotalOrder cmp.

  Notation tree := (tree K V).

  Fixpoint avl_inv (t : tree) : Prop :=
    match t with
    | Leaf => True
    | Node l _ _ s h _ r =>
        s = 1 + size l + size r /\ h = 1 + Z.max (cheight l) (cheight r) /\
        -1 <= cheight l - cheight r <= 1 /\ avl_inv l /\ avl_inv r
    end.

  Lemma cheight_nonneg (t : tree) : avl_inv t -> 0 <= cheight t.
  Proof.
    induction t as [|l IHl k v s h c r IHr]; cbn [avl_inv cheight]; [lia|].
    intros (_ & -> & _ & Hl & Hr). specialize (IHl Hl). specialize (IHr Hr). lia.
  Qed.

  Lemma cheight_height (t : tree) : avl_inv t -> cheight t = height t.
  Proof.
    induction t as [|l IHl k v s h c r IHr]; cbn [avl_inv cheight height]; [reflexivity|].
    intros (_ & -> & _ & Hl & Hr). now rewrite IHl, IHr.
  Qed.

  Lemma avl_inv_sizes (t : tree) : avl_inv t -> sizes_ok t.
  Proof.
    induction t as [|l IHl k v s h c r IHr]; cbn [avl_inv sizes_ok]; [auto|].
    intros (-> & _ & _ & Hl & Hr). auto.
  Qed.

  Lemma avl_inv_check (t : tree) : avl_inv t -> avl_check t = true.
  Proof.
    induction t as [|l IHl k v s h c r IHr]; cbn [avl_inv avl_check]; [reflexivity|].
    intros (_ & -> & Hb & Hl & Hr). rewrite IHl, IHr by auto.
    rewrite <- !cheight_height by auto.
    rewrite Z.eqb_refl. cbn [andb].
    destruct (Z.leb_spec (-1) (cheight l - cheight r)); [|lia].
    destruct (Z.leb_spec (cheight l - cheight r) 1); [reflexivity|lia].
  Qed.

  Ltac inv_split :=
    repeat match goal with
           | H : _ /\ _ |- _ => destruct H
           end.

  Ltac inorder_tac :=
    rewrite ?inorder_node; repeat (rewrite <- app_assoc; cbn [app]); reflexivity.

  (** the common tail of every unwinding path: refresh size and height, then [balance] *)
  Lemma avl_fix_ok (l : tree) k v c (r : tree) :
    avl_inv l -> avl_inv r -> -2 <= cheight l - cheight r <= 2 ->
    exists n', avl_fix l k v c r = Ok n' /\
      inorder n' = inorder l ++ (k, v) :: inorder r /\ avl_inv n' /\
      (cheight n' = 1 + Z.max (cheight l) (cheight r) \/ cheight n' = Z.max (cheight l) (cheight r)) /\
      (-1 <= cheight l - cheight r <= 1 -> cheight n' = 1 + Z.max (cheight l) (cheight r)).
  Proof.
    intros Hl Hr Hb.
    pose proof (cheight_nonneg l Hl) as Nl. pose proof (cheight_nonneg r Hr) as Nr.
    unfold avl_fix, avl_balance. cbn [avl_bf bind cheight].
    destruct (Z.eqb_spec (cheight l - cheight r) 2) as [E2|E2].
    - destruct l as [|ll lk lv ls lh lc lr]; [cbn [cheight] in *; lia|].
      cbn [avl_bf bind]. cbn [avl_inv] in Hl. inv_split.
      pose proof (cheight_nonneg ll ltac:(assumption)). pose proof (cheight_nonneg lr ltac:(assumption)).
      destruct (Z.eqb_spec (cheight ll - cheight lr) (-1)) as [E1|E1].
      + destruct lr as [|lrl lrk lrv lrs lrh lrc lrr]; [cbn [cheight] in *; lia|].
        cbn [avl_inv] in *. inv_split.
        pose proof (cheight_nonneg lrl ltac:(assumption)). pose proof (cheight_nonneg lrr ltac:(assumption)).
        cbn [avl_rotateLeft bind avl_rotateRight cheight size] in *.
        eexists. split; [reflexivity|]. split; [inorder_tac|].
        cbn [avl_inv cheight size]. subst. repeat split; try assumption; try lia.
      + cbn [bind avl_rotateRight cheight size] in *.
        eexists. split; [reflexivity|]. split; [inorder_tac|].
        cbn [avl_inv cheight size]. subst. repeat split; try assumption; try lia.
    - destruct (Z.eqb_spec (cheight l - cheight r) (-2)) as [E3|E3].
      + destruct r as [|rl rk rv rs rh rc rr]; [cbn [cheight] in *; lia|].
        cbn [avl_bf bind]. cbn [avl_inv] in Hr. inv_split.
        pose proof (cheight_nonneg rl ltac:(assumption)). pose proof (cheight_nonneg rr ltac:(assumption)).
        destruct (Z.eqb_spec (cheight rl - cheight rr) 1) as [E1|E1].
        * destruct rl as [|rll rlk rlv rls rlh rlc rlr]; [cbn [cheight] in *; lia|].
          cbn [avl_inv] in *. inv_split.
          pose proof (cheight_nonneg rll ltac:(assumption)). pose proof (cheight_nonneg rlr ltac:(assumption)).
          cbn [avl_rotateLeft bind avl_rotateRight cheight size] in *.
          eexists. split; [reflexivity|]. split; [inorder_tac|].
          cbn [avl_inv cheight size]. subst. repeat split; try assumption; try lia.
        * cbn [bind avl_rotateLeft cheight size] in *.
          eexists. split; [reflexivity|]. split; [inorder_tac|].
          cbn [avl_inv cheight size]. subst. repeat split; try assumption; try lia.
      + eexists. split; [reflexivity|]. split; [inorder_tac|].
        cbn [avl_inv cheight]. repeat split; try assumption; try lia.
  Qed.
  Lemma avl_put_ok (t : tree) x w :
    sorted cmp (inorder t) -> avl_inv t ->
    exists t', avl_put cmp t x w = Ok t' /\ inorder t' = s_put cmp x w (inorder t) /\ avl_inv t' /\
               (cheight t' = cheight t \/ cheight t' = cheight t + 1).
  Proof.
    induction t as [|l IHl k v s h c r IHr]; intros HS HI.
    - eexists. split; [reflexivity|]. split; [reflexivity|]. cbn [avl_inv cheight size]. repeat split; lia.
    - destruct (sorted_node cmp TO _ _ _ _ _ _ _ HS) as [Sl Sr].
      rewrite inorder_node in HS. rewrite inorder_node, (s_put_mid cmp TO _ _ _ _ HS). cbn [avl_put].
      cbn [avl_inv] in HI. destruct HI as (Hs & Hh & Hb & Hl & Hr).
      destruct (cmp x k <? 0); [|destruct (0 <? cmp x k)].
      + destruct (IHl Sl Hl) as [l' [E1 [E2 [I1 Hc]]]]. rewrite E1. cbn [bind].
        destruct (avl_fix_ok l' k v c r I1 Hr ltac:(lia)) as [n' [F1 [F2 [F3 [F4 F5]]]]].
        exists n'. split; [exact F1|]. split; [now rewrite F2, E2|]. split; [exact F3|].
        cbn [cheight]. lia.
      + destruct (IHr Sr Hr) as [r' [E1 [E2 [I1 Hc]]]]. rewrite E1. cbn [bind].
        destruct (avl_fix_ok l k v c r' Hl I1 ltac:(lia)) as [n' [F1 [F2 [F3 [F4 F5]]]]].
        exists n'. split; [exact F1|]. split; [now rewrite F2, E2|]. split; [exact F3|].
        cbn [cheight]. lia.
      + eexists. split; [reflexivity|]. split; [now rewrite inorder_node|].
        cbn [avl_inv cheight]. repeat split; try assumption; lia.
  Qed.

  Lemma avl_deleteMin_ok (t : tree) :
    t <> Leaf -> avl_inv t ->
    exists t' m, avl_deleteMin t = Ok (t', m) /\ inorder t = m :: inorder t' /\ avl_inv t' /\
                 (cheight t' = cheight t \/ cheight t' = cheight t - 1).
  Proof.
    induction t as [|l IHl k v s h c r _]; [congruence|]. intros _ HI.
    cbn [avl_inv] in HI. destruct HI as (Hs & Hh & Hb & Hl & Hr).
    pose proof (cheight_nonneg r Hr).
    destruct l as [|ll lk lv ls lh lc lr].
    - exists r, (k, v). cbn [avl_deleteMin]. rewrite inorder_node. cbn [cheight] in *.
      repeat split; auto. lia.
    - destruct IHl as [l' [m [E1 [E2 [I1 Hc]]]]]; [discriminate|assumption|].
      cbn [avl_deleteMin] in *. rewrite E1. cbn [bind].
      destruct (avl_fix_ok l' k v c r I1 Hr ltac:(lia)) as [n' [F1 [F2 [F3 [F4 F5]]]]].
      rewrite F1. cbn [bind]. exists n', m. split; [reflexivity|].
      split; [rewrite (inorder_node _ k v), E2, F2; reflexivity|]. split; [exact F3|].
      cbn [cheight] in *. lia.
  Qed.

  Lemma avl_deleteMax_ok (t : tree) :
    t <> Leaf -> avl_inv t ->
    exists t' m, avl_deleteMax t = Ok (t', m) /\ inorder t = inorder t' ++ [m] /\ avl_inv t' /\
                 (cheight t' = cheight t \/ cheight t' = cheight t - 1).
  Proof.
    induction t as [|l _ k v s h c r IHr]; [congruence|]. intros _ HI.
    cbn [avl_inv] in HI. destruct HI as (Hs & Hh & Hb & Hl & Hr).
    pose proof (cheight_nonneg l Hl).
    destruct r as [|rl rk rv rs rh rc rr].
    - exists l, (k, v). cbn [avl_deleteMax]. rewrite inorder_node. cbn [cheight] in *.
      repeat split; auto. lia.
    - destruct IHr as [r' [m [E1 [E2 [I1 Hc]]]]]; [discriminate|assumption|].
      cbn [avl_deleteMax] in *. rewrite E1. cbn [bind].
      destruct (avl_fix_ok l k v c r' Hl I1 ltac:(lia)) as [n' [F1 [F2 [F3 [F4 F5]]]]].
      rewrite F1. cbn [bind]. exists n', m. split; [reflexivity|].
      split; [rewrite (inorder_node l k v), E2, F2, <- app_assoc; reflexivity|]. split; [exact F3|].
      cbn [cheight] in *. lia.
  Qed.

  Lemma avl_delete_ok (t : tree) x :
    sorted cmp (inorder t) -> avl_inv t ->
    exists t', avl_delete cmp t x = Ok (t', snd (s_delete cmp x (inorder t))) /\
               inorder t' = fst (s_delete cmp x (inorder t)) /\ avl_inv t' /\
               (cheight t' = cheight t \/ cheight t' = cheight t - 1).
  Proof.
    induction t as [|l IHl k v s h c r IHr]; intros HS HI.
    - exists Leaf. repeat split; auto.
    - destruct (sorted_node cmp TO _ _ _ _ _ _ _ HS) as [Sl Sr].
      rewrite inorder_node in HS. rewrite inorder_node, (s_delete_mid cmp TO _ _ _ _ HS). cbn [avl_delete].
      cbn [avl_inv] in HI. destruct HI as (Hs & Hh & Hb & Hl & Hr).
      pose proof (cheight_nonneg l Hl). pose proof (cheight_nonneg r Hr).
      destruct (cmp x k <? 0); [|destruct (0 <? cmp x k)].
      + destruct (IHl Sl Hl) as [l' [E1 [E2 [I1 Hc]]]]. rewrite E1. cbn [bind].
        destruct (s_delete cmp x (inorder l)) as [L' o]. cbn [fst snd] in *.
        destruct (avl_fix_ok l' k v c r I1 Hr ltac:(lia)) as [n' [F1 [F2 [F3 [F4 F5]]]]].
        rewrite F1. cbn [bind]. exists n'. split; [reflexivity|]. split; [now rewrite F2, E2|].
        split; [exact F3|]. cbn [cheight]. lia.
      + destruct (IHr Sr Hr) as [r' [E1 [E2 [I1 Hc]]]]. rewrite E1. cbn [bind].
        destruct (s_delete cmp x (inorder r)) as [R' o]. cbn [fst snd] in *.
        destruct (avl_fix_ok l k v c r' Hl I1 ltac:(lia)) as [n' [F1 [F2 [F3 [F4 F5]]]]].
        rewrite F1. cbn [bind]. exists n'. split; [reflexivity|]. split; [now rewrite F2, E2|].
        split; [exact F3|]. cbn [cheight]. lia.
      + cbn [fst snd]. destruct l as [|ll lk lv ls lh lc lr].
        * exists r. cbn [cheight] in *. split; [reflexivity|]. split; [reflexivity|]. split; [assumption|lia].
        * destruct r as [|rl rk rv rs rh rc rr].
          { eexists. split; [reflexivity|]. rewrite (inorder_leaf (K:=K) (V:=V)), app_nil_r.
            cbn [cheight] in *. split; [reflexivity|]. split; [assumption|lia]. }
          destruct (min_node_ok (Node rl rk rv rs rh rc rr)) as [m [M1 M2]]; [discriminate|].
          destruct (avl_deleteMin_ok (Node rl rk rv rs rh rc rr)) as [r' [m' [D1 [D2 [D3 D4]]]]]; [discriminate|assumption|].
          rewrite M1, D1. destruct m as [mk mv]. cbn [bind].
          rewrite D2 in M2. cbn in M2. inversion M2; subst m'.
          destruct (avl_fix_ok (Node ll lk lv ls lh lc lr) mk mv false r' Hl D3 ltac:(lia)) as [n' [F1 [F2 [F3 [F4 F5]]]]].
          rewrite F1. cbn [bind]. exists n'. split; [reflexivity|]. split; [now rewrite F2, D2|].
          split; [exact F3|]. cbn [cheight] in *. lia.
  Qed.

  Definition avl_ok (t : tree) : Prop := sorted cmp (inorder t) /\ avl_inv t.

  Lemma avl_refines : Refines cmp AVL avl_ok (fun _ => true).
  Proof.
    constructor.
    - split; exact I.
    - intros t [H _]; exact H.
    - intros t [_ H]. now apply avl_inv_sizes.
    - reflexivity.
    - intros t m [HS HI] _. destruct m as [k v|k| | |]; unfold mutate, s_mutate, Put, Delete, DeleteMin, DeleteMax; cbn [bind].
      + destruct (avl_put_ok t k v HS HI) as [t' [E1 [E2 [I1 _]]]]. rewrite E1. cbn [bind fst snd].
        eexists. split; [reflexivity|]. split; [exact E2|]. split; [rewrite E2; now apply s_put_sorted|exact I1].
      + destruct (avl_delete_ok t k HS HI) as [t' [E1 [E2 [I1 _]]]]. rewrite E1. cbn [bind].
        pose proof (s_delete_sorted cmp k (inorder t) HS) as HS'.
        destruct (s_delete cmp k (inorder t)) as [l' o]. cbn [fst snd] in *.
        eexists. split; [reflexivity|]. split; [exact E2|]. split; [now rewrite E2|auto].
      + destruct t as [|l k v s h c r].
        * exists Leaf. cbn. repeat split; exact I.
        * cbn [is_leaf]. destruct (avl_deleteMin_ok (Node l k v s h c r)) as [t' [m [E1 [E2 [I1 _]]]]]; [discriminate|assumption|].
          rewrite E1. cbn [bind]. rewrite E2, s_deleteMin_cons. cbn [fst snd].
          eexists. split; [reflexivity|]. split; [reflexivity|]. split; [|auto].
          rewrite E2 in HS. eapply sorted_tail; eauto.
      + destruct t as [|l k v s h c r].
        * exists Leaf. cbn. repeat split; exact I.
        * cbn [is_leaf]. destruct (avl_deleteMax_ok (Node l k v s h c r)) as [t' [m [E1 [E2 [I1 _]]]]]; [discriminate|assumption|].
          rewrite E1. cbn [bind]. rewrite E2, s_deleteMax_snoc. cbn [fst snd].
          eexists. split; [reflexivity|]. split; [reflexivity|]. split; [|auto].
          rewrite E2 in HS. eapply sorted_app_l; eauto.
      + exists Leaf. cbn. repeat split; exact I.
  Qed.
End AVL.
