(** C01 — facts about the comparator laws and about the list-level specification:
    how every abstract operation decomposes over [L ++ (k,v) :: R] when that list is sorted.
    These are the only places where order reasoning happens; the tree proofs just rewrite. *)
From Algo.C01 Require Import Model Spec.
From Coq Require Import Lia Permutation.
Open Scope Z_scope.

Section Facts.
  Context {K V : Type}.
  Variable cmp : K -> K -> Z.
  Hypothesis TO : TotalOrder cmp.

  Notation amap := (list (K * V)).

  Lemma cmp_gt_lt a b : 0 < cmp a b <-> cmp b a < 0.
  Proof. symmetry. apply (cmp_antisym TO). Qed.

  Lemma cmp_eq_sym a b : cmp a b = 0 -> cmp b a = 0.
  Proof.
    intros H. pose proof (cmp_antisym TO a b). pose proof (cmp_antisym TO b a). lia.
  Qed.

  Lemma cmp_le_ge a b : cmp a b <= 0 <-> 0 <= cmp b a.
  Proof. pose proof (cmp_antisym TO a b). pose proof (cmp_antisym TO b a). lia. Qed.

  Lemma le_lt_trans a b c : cmp a b <= 0 -> cmp b c < 0 -> cmp a c < 0.
  Proof.
    intros H1 H2.
    assert (H3 : cmp a c <= 0) by (apply (cmp_trans TO a b c); lia).
    destruct (Z.eq_dec (cmp a c) 0) as [E|]; [|lia].
    apply cmp_eq_sym in E.
    assert (cmp c b <= 0) by (apply (cmp_trans TO c a b); lia).
    apply (cmp_antisym TO) in H2. lia.
  Qed.

  Lemma lt_le_trans a b c : cmp a b < 0 -> cmp b c <= 0 -> cmp a c < 0.
  Proof.
    intros H1 H2.
    assert (H3 : cmp a c <= 0) by (apply (cmp_trans TO a b c); lia).
    destruct (Z.eq_dec (cmp a c) 0) as [E|]; [|lia].
    apply cmp_eq_sym in E.
    assert (cmp b a <= 0) by (apply (cmp_trans TO b c a); lia).
    apply (cmp_antisym TO) in H1. lia.
  Qed.

  Lemma lt_trans a b c : cmp a b < 0 -> cmp b c < 0 -> cmp a c < 0.
  Proof. intros; eapply le_lt_trans; [|eassumption]; lia. Qed.

  (** ** sorted lists *)

  Lemma sorted_app (l r : amap) :
    sorted cmp (l ++ r) <->
    sorted cmp l /\ sorted cmp r /\
    Forall (fun a => Forall (fun b => cmp (fst a) (fst b) < 0) r) l.
  Proof.
    induction l as [|a l IH]; simpl.
    - intuition.
    - rewrite Forall_app, IH. split.
      + intros [[H1 H2] [H3 [H4 H5]]]. repeat split; auto.
      + intros [[H1 H2] [H3 H4]]. inversion H4; subst. repeat split; auto.
  Qed.

  Lemma sorted_mid (l r : amap) k v :
    sorted cmp (l ++ (k, v) :: r) <->
    sorted cmp l /\ sorted cmp r /\
    Forall (fun e => cmp (fst e) k < 0) l /\ Forall (fun e => cmp k (fst e) < 0) r.
  Proof.
    rewrite sorted_app. simpl. split.
    - intros [Hl [[Hk Hr] Hall]]. repeat split; auto.
      rewrite Forall_forall in *. intros e He. specialize (Hall e He). now inversion Hall.
    - intros [Hl [Hr [Hlk Hkr]]]. repeat split; auto.
      rewrite Forall_forall in *. intros e He. constructor; [apply Hlk; auto|].
      rewrite Forall_forall. intros b Hb. eapply lt_trans; [apply Hlk; auto|apply Hkr; auto].
  Qed.

  (** [x <= k < r]  and  [l < k <= x] *)
  Lemma right_above x k (r : amap) :
    cmp x k <= 0 -> Forall (fun e => cmp k (fst e) < 0) r -> Forall (fun e => cmp x (fst e) < 0) r.
  Proof.
    intros Hx. apply Forall_impl. intros e He. eapply le_lt_trans; eauto.
  Qed.

  Lemma left_below x k (l : amap) :
    0 <= cmp x k -> Forall (fun e => cmp (fst e) k < 0) l -> Forall (fun e => 0 < cmp x (fst e)) l.
  Proof.
    intros Hx. apply Forall_impl. intros e He. apply cmp_gt_lt.
    eapply lt_le_trans; eauto. now apply cmp_le_ge.
  Qed.

  (** ** generic list facts *)

  Lemma filter_all {A} (f : A -> bool) l : Forall (fun e => f e = true) l -> filter f l = l.
  Proof. induction 1; simpl; [auto|]. now rewrite H, IHForall. Qed.

  Lemma filter_none {A} (f : A -> bool) l : Forall (fun e => f e = false) l -> filter f l = [].
  Proof. induction 1; simpl; [auto|]. now rewrite H. Qed.

  Lemma hd_error_app {A} (a b : list A) :
    hd_error (a ++ b) = match a with [] => hd_error b | x :: _ => Some x end.
  Proof. destruct a; reflexivity. Qed.

  Lemma last_error_app (a b : amap) :
    last_error (a ++ b) = match b with [] => last_error a | _ => last_error b end.
  Proof.
    unfold last_error. rewrite rev_app_distr. destruct b as [|x b]; simpl; [reflexivity|].
    destruct (rev b ++ [x]) eqn:E; [destruct (rev b); discriminate|reflexivity].
  Qed.

  Lemma last_error_cons (a : K * V) (l : amap) :
    last_error (a :: l) = match l with [] => Some a | _ => last_error l end.
  Proof. change (a :: l) with ([a] ++ l). rewrite last_error_app. destruct l; reflexivity. Qed.

  Lemma last_error_cons' (a : K * V) (l : amap) :
    last_error (a :: l) = match last_error l with Some m => Some m | None => Some a end.
  Proof.
    unfold last_error. simpl. destruct (rev l); reflexivity.
  Qed.

  Lemma last_error_nil_iff (l : amap) : last_error l = None <-> l = [].
  Proof.
    unfold last_error. split; [|intros ->; reflexivity].
    destruct l as [|a l]; [auto|]. simpl. destruct (rev l); discriminate.
  Qed.

  (** ** get *)

  Lemma s_get_app x (a b : amap) :
    s_get cmp x (a ++ b) = match s_get cmp x a with Some v => Some v | None => s_get cmp x b end.
  Proof.
    induction a as [|[k v] a IH]; simpl; [reflexivity|]. destruct (cmp x k =? 0); auto.
  Qed.

  Lemma s_get_none x (l : amap) : Forall (fun e => cmp x (fst e) <> 0) l -> s_get cmp x l = None.
  Proof.
    induction 1 as [|[k v] l H _ IH]; simpl; [reflexivity|].
    simpl in H. destruct (Z.eqb_spec (cmp x k) 0); [contradiction|auto].
  Qed.

  Lemma Forall_lt_ne x (l : amap) : Forall (fun e => cmp x (fst e) < 0) l -> Forall (fun e => cmp x (fst e) <> 0) l.
  Proof. apply Forall_impl; intros; lia. Qed.
  Lemma Forall_gt_ne x (l : amap) : Forall (fun e => 0 < cmp x (fst e)) l -> Forall (fun e => cmp x (fst e) <> 0) l.
  Proof. apply Forall_impl; intros; lia. Qed.

  Lemma s_delete_absent x (l : amap) :
    Forall (fun e => cmp x (fst e) <> 0) l -> s_delete cmp x l = (l, None).
  Proof.
    induction 1 as [|[a b] l Ha _ IH]; simpl; [reflexivity|]. simpl in Ha.
    destruct (Z.eqb_spec (cmp x a) 0); [contradiction|]. now rewrite IH.
  Qed.

  Section Mid.
    Variables (L R : amap) (k : K) (v : V).
    Hypothesis HS : sorted cmp (L ++ (k, v) :: R).

    Let HL : Forall (fun e => cmp (fst e) k < 0) L.
    Proof. apply sorted_mid in HS; tauto. Qed.
    Let HR : Forall (fun e => cmp k (fst e) < 0) R.
    Proof. apply sorted_mid in HS; tauto. Qed.

    Lemma s_get_mid x :
      s_get cmp x (L ++ (k, v) :: R) =
      if cmp x k <? 0 then s_get cmp x L else if 0 <? cmp x k then s_get cmp x R else Some v.
    Proof.
      rewrite s_get_app. simpl.
      destruct (Z.ltb_spec (cmp x k) 0) as [H|H].
      - destruct (Z.eqb_spec (cmp x k) 0); [lia|].
        rewrite (s_get_none x R); [destruct (s_get cmp x L); auto|].
        apply Forall_lt_ne, right_above with k; auto; lia.
      - rewrite (s_get_none x L) by (apply Forall_gt_ne, left_below with k; auto).
        destruct (Z.ltb_spec 0 (cmp x k)), (Z.eqb_spec (cmp x k) 0); auto; lia.
    Qed.

    (** ** put *)
    Lemma s_put_mid x w :
      s_put cmp x w (L ++ (k, v) :: R) =
      if cmp x k <? 0 then s_put cmp x w L ++ (k, v) :: R
      else if 0 <? cmp x k then L ++ (k, v) :: s_put cmp x w R
      else L ++ (k, w) :: R.
    Proof.
      clear HR. induction L as [|[k' v'] L' IH]; simpl.
      - destruct (cmp x k <? 0); [reflexivity|]. destruct (0 <? cmp x k); reflexivity.
      - simpl in HS. destruct HS as [Hk' HS'].
        inversion HL as [|? ? Hk'k HL']; subst. simpl in Hk'k.
        assert (IH' := IH HS' HL'). clear IH.
        destruct (Z.ltb_spec (cmp x k') 0) as [H1|H1].
        + assert (cmp x k < 0) by (eapply lt_trans; eauto).
          destruct (Z.ltb_spec (cmp x k) 0); [reflexivity|lia].
        + destruct (Z.ltb_spec 0 (cmp x k')) as [H2|H2].
          * rewrite IH'. destruct (cmp x k <? 0); [reflexivity|]. destruct (0 <? cmp x k); reflexivity.
          * assert (E : cmp x k' = 0) by lia.
            assert (cmp x k < 0) by (eapply le_lt_trans; eauto; lia).
            destruct (Z.ltb_spec (cmp x k) 0); [reflexivity|lia].
    Qed.

    (** ** delete *)
    Lemma s_delete_mid x :
      s_delete cmp x (L ++ (k, v) :: R) =
      if cmp x k <? 0 then (let '(L', o) := s_delete cmp x L in (L' ++ (k, v) :: R, o))
      else if 0 <? cmp x k then (let '(R', o) := s_delete cmp x R in (L ++ (k, v) :: R', o))
      else (L ++ R, Some v).
    Proof.
      clear HR. induction L as [|[k' v'] L' IH]; simpl.
      - assert (HRk : Forall (fun e => cmp k (fst e) < 0) R) by (apply (sorted_mid []) in HS; tauto).
        destruct (Z.ltb_spec (cmp x k) 0) as [Hlt|Hlt].
        + destruct (Z.eqb_spec (cmp x k) 0); [lia|].
          assert (Hn : Forall (fun e => cmp x (fst e) < 0) R) by (apply right_above with k; auto; lia).
          rewrite s_delete_absent by (now apply Forall_lt_ne). reflexivity.
        + destruct (Z.ltb_spec 0 (cmp x k)), (Z.eqb_spec (cmp x k) 0); try lia; try reflexivity.
      - simpl in HS. destruct HS as [Hk' HS'].
        inversion HL as [|? ? Hk'k HL']; subst. simpl in Hk'k.
        assert (IH' := IH HS' HL'). clear IH. rewrite IH'.
        destruct (Z.eqb_spec (cmp x k') 0) as [E|E].
        + assert (cmp x k < 0) by (eapply le_lt_trans; eauto; lia).
          destruct (Z.ltb_spec (cmp x k) 0); [reflexivity|lia].
        + destruct (cmp x k <? 0).
          * destruct (s_delete cmp x L'); reflexivity.
          * destruct (0 <? cmp x k); [destruct (s_delete cmp x R)|]; reflexivity.
    Qed.

    (** ** filters determined by the sign of [cmp x _] *)
    Lemma filter_mid (f : K * V -> bool) :
      filter f (L ++ (k, v) :: R) = filter f L ++ (if f (k, v) then [(k, v)] else []) ++ filter f R.
    Proof. rewrite filter_app. simpl. destruct (f (k, v)); reflexivity. Qed.

    Lemma above_R x : cmp x k <= 0 -> Forall (fun e => cmp x (fst e) < 0) R.
    Proof. intros; eapply right_above; eauto. Qed.
    Lemma below_L x : 0 <= cmp x k -> Forall (fun e => 0 < cmp x (fst e)) L.
    Proof. intros; eapply left_below; eauto. Qed.

    Lemma s_rank_mid x :
      s_rank cmp x (L ++ (k, v) :: R) =
      if cmp x k <? 0 then s_rank cmp x L
      else if 0 <? cmp x k then 1 + Z.of_nat (length L) + s_rank cmp x R
      else Z.of_nat (length L).
    Proof.
      unfold s_rank. rewrite filter_mid, !app_length. simpl fst.
      destruct (Z.ltb_spec (cmp x k) 0) as [H|H].
      - rewrite (filter_none _ R).
        + destruct (Z.ltb_spec 0 (cmp x k)); [lia|]. simpl length. lia.
        + eapply Forall_impl; [|apply (above_R x); lia]. simpl. intros e He.
          destruct (Z.ltb_spec 0 (cmp x (fst e))); auto; lia.
      - rewrite (filter_all _ L).
        2:{ eapply Forall_impl; [|apply (below_L x); lia]. simpl. intros e He.
            destruct (Z.ltb_spec 0 (cmp x (fst e))); auto; lia. }
        destruct (Z.ltb_spec 0 (cmp x k)) as [H2|H2].
        + simpl length. lia.
        + rewrite (filter_none _ R).
          * simpl length. lia.
          * eapply Forall_impl; [|apply (above_R x); lia]. simpl. intros e He.
            destruct (Z.ltb_spec 0 (cmp x (fst e))); auto; lia.
    Qed.

    Lemma s_floor_mid x :
      s_floor cmp x (L ++ (k, v) :: R) =
      if cmp x k =? 0 then Some (k, v)
      else if cmp x k <? 0 then s_floor cmp x L
      else match s_floor cmp x R with Some m => Some m | None => Some (k, v) end.
    Proof.
      unfold s_floor. rewrite filter_mid. simpl fst.
      destruct (Z.eqb_spec (cmp x k) 0) as [E|E].
      - rewrite (filter_none _ R).
        + destruct (Z.leb_spec 0 (cmp x k)); [|lia]. rewrite app_nil_r, last_error_app. reflexivity.
        + eapply Forall_impl; [|apply (above_R x); lia]. simpl. intros e He.
          destruct (Z.leb_spec 0 (cmp x (fst e))); auto; lia.
      - destruct (Z.ltb_spec (cmp x k) 0) as [H|H].
        + rewrite (filter_none _ R).
          * destruct (Z.leb_spec 0 (cmp x k)); [lia|]. now rewrite !app_nil_r.
          * eapply Forall_impl; [|apply (above_R x); lia]. simpl. intros e He.
            destruct (Z.leb_spec 0 (cmp x (fst e))); auto; lia.
        + destruct (Z.leb_spec 0 (cmp x k)); [|lia].
          rewrite last_error_app. simpl app. apply last_error_cons'.
    Qed.

    Lemma s_ceiling_mid x :
      s_ceiling cmp x (L ++ (k, v) :: R) =
      if cmp x k =? 0 then Some (k, v)
      else if 0 <? cmp x k then s_ceiling cmp x R
      else match s_ceiling cmp x L with Some m => Some m | None => Some (k, v) end.
    Proof.
      unfold s_ceiling. rewrite filter_mid. simpl fst.
      destruct (Z.eqb_spec (cmp x k) 0) as [E|E].
      - rewrite (filter_none _ L).
        + destruct (Z.leb_spec (cmp x k) 0); [|lia]. reflexivity.
        + eapply Forall_impl; [|apply (below_L x); lia]. simpl. intros e He.
          destruct (Z.leb_spec (cmp x (fst e)) 0); auto; lia.
      - destruct (Z.ltb_spec 0 (cmp x k)) as [H|H].
        + rewrite (filter_none _ L).
          * destruct (Z.leb_spec (cmp x k) 0); [lia|]. reflexivity.
          * eapply Forall_impl; [|apply (below_L x); lia]. simpl. intros e He.
            destruct (Z.leb_spec (cmp x (fst e)) 0); auto; lia.
        + destruct (Z.leb_spec (cmp x k) 0); [|lia].
          rewrite hd_error_app. destruct (filter _ L); reflexivity.
    Qed.

    Lemma s_range_mid lo hi :
      s_range cmp lo hi (L ++ (k, v) :: R) =
      (if cmp lo k <? 0 then s_range cmp lo hi L else []) ++
      (if (cmp lo k <=? 0) && (0 <=? cmp hi k) then [(k, v)] else []) ++
      (if 0 <? cmp hi k then s_range cmp lo hi R else []).
    Proof.
      unfold s_range. rewrite filter_mid. simpl fst. f_equal; [|f_equal].
      - destruct (Z.ltb_spec (cmp lo k) 0); [reflexivity|].
        apply filter_none. eapply Forall_impl; [|apply (below_L lo); lia]. simpl. intros e He.
        destruct (Z.leb_spec (cmp lo (fst e)) 0); [lia|reflexivity].
      - destruct (Z.ltb_spec 0 (cmp hi k)); [reflexivity|].
        apply filter_none. eapply Forall_impl; [|apply (above_R hi); lia]. simpl. intros e He.
        destruct (Z.leb_spec 0 (cmp hi (fst e))); [lia|]. apply andb_false_r.
    Qed.
  End Mid.

  (** ** the abstract operations preserve sortedness *)

  Lemma s_put_keys x w (l : amap) (P : K -> Prop) :
    P x -> Forall (fun e => P (fst e)) l -> Forall (fun e => P (fst e)) (s_put cmp x w l).
  Proof.
    intros Hx. induction 1 as [|[k v] l Hk Hl IH]; simpl.
    - constructor; auto.
    - destruct (cmp x k <? 0); [constructor; auto|].
      destruct (0 <? cmp x k); constructor; auto.
  Qed.

  Lemma s_put_sorted x w (l : amap) : sorted cmp l -> sorted cmp (s_put cmp x w l).
  Proof.
    induction l as [|[k v] l IH]; simpl; [intros; split; auto|].
    intros [Hk Hl].
    destruct (Z.ltb_spec (cmp x k) 0) as [H1|H1].
    - simpl. split; [|split; auto]. constructor; [auto|]. simpl.
      eapply Forall_impl; [|exact Hk]. simpl. intros e He. eapply lt_trans; eauto.
    - destruct (Z.ltb_spec 0 (cmp x k)) as [H2|H2]; simpl; split; auto.
      + apply (s_put_keys x w l (fun y => cmp k y < 0)); auto. now apply cmp_gt_lt.
  Qed.

  Lemma s_delete_keys x (l : amap) (P : K * V -> Prop) :
    Forall P l -> Forall P (fst (s_delete cmp x l)).
  Proof.
    induction 1 as [|[k v] l Hk Hl IH]; simpl; [constructor|].
    destruct (cmp x k =? 0); [auto|].
    destruct (s_delete cmp x l); simpl in *. constructor; auto.
  Qed.

  Lemma s_delete_sorted x (l : amap) : sorted cmp l -> sorted cmp (fst (s_delete cmp x l)).
  Proof.
    induction l as [|[k v] l IH]; simpl; [auto|].
    intros [Hk Hl]. destruct (cmp x k =? 0); [auto|].
    specialize (IH Hl). pose proof (s_delete_keys x l _ Hk).
    destruct (s_delete cmp x l); simpl in *. split; auto.
  Qed.

  Lemma sorted_tail a (l : amap) : sorted cmp (a :: l) -> sorted cmp l.
  Proof. simpl; tauto. Qed.

  Lemma sorted_app_l (a b : amap) : sorted cmp (a ++ b) -> sorted cmp a.
  Proof. rewrite sorted_app; tauto. Qed.
  Lemma sorted_app_r (a b : amap) : sorted cmp (a ++ b) -> sorted cmp b.
  Proof. rewrite sorted_app; tauto. Qed.

  Lemma s_deleteMax_sorted (l : amap) : sorted cmp l -> sorted cmp (fst (s_deleteMax l)).
  Proof.
    unfold s_deleteMax. intros H. destruct (rev l) as [|a t] eqn:E; [exact I|]. simpl.
    assert (l = rev t ++ [a]) by (rewrite <- (rev_involutive l), E; reflexivity).
    subst l. eapply sorted_app_l; eauto.
  Qed.

  Lemma s_mutate_sorted (l : amap) m : sorted cmp l -> sorted cmp (fst (s_mutate cmp l m)).
  Proof.
    intros H. destruct m; simpl.
    - now apply s_put_sorted.
    - pose proof (s_delete_sorted k l H). destruct (s_delete cmp k l); auto.
    - destruct l; simpl in *; tauto.
    - pose proof (s_deleteMax_sorted l H). destruct (s_deleteMax l); auto.
    - exact I.
  Qed.

  Lemma s_build_from_sorted h (l : amap) : sorted cmp l -> sorted cmp (s_build_from cmp l h).
  Proof.
    revert l. induction h as [|m h IH]; simpl; intros l H; [auto|].
    apply IH. now apply s_mutate_sorted.
  Qed.

  (** ** inserting pairwise distinct keys in any order yields the sorted list of them
      (SelectMatch / PartitionMatch fill a fresh table by Put in pre-order) *)

  Definition s_put_all (es acc : amap) : amap :=
    fold_left (fun a e => s_put cmp (fst e) (snd e) a) es acc.

  Definition ne (a b : K * V) : Prop := cmp (fst a) (fst b) <> 0.

  Fixpoint pairwise_ne (l : amap) : Prop :=
    match l with [] => True | a :: t => Forall (ne a) t /\ pairwise_ne t end.

  Lemma ne_sym a b : ne a b -> ne b a.
  Proof. unfold ne. intros H E. apply H. now apply cmp_eq_sym. Qed.

  Lemma sorted_pairwise_ne (l : amap) : sorted cmp l -> pairwise_ne l.
  Proof.
    induction l as [|a l IH]; simpl; [auto|]. intros [H1 H2]. split; auto.
    eapply Forall_impl; [|exact H1]. unfold ne. simpl. intros; lia.
  Qed.

  Lemma pairwise_ne_perm (l l' : amap) : Permutation l l' -> pairwise_ne l -> pairwise_ne l'.
  Proof.
    induction 1 as [|x l l' HP IH|x y l|l l' l'' HP1 IH1 HP2 IH2]; simpl; auto.
    - intros [H1 H2]. split; auto. eapply Permutation_Forall; eauto.
    - intros [H1 [H2 H3]]. inversion H1; subst. repeat split; auto. constructor; auto. now apply ne_sym.
  Qed.

  Lemma pairwise_ne_filter f (l : amap) : pairwise_ne l -> pairwise_ne (filter f l).
  Proof.
    induction l as [|a l IH]; simpl; [auto|]. intros [H1 H2]. destruct (f a); simpl; auto.
    split; auto. rewrite Forall_forall in *. intros e He. apply filter_In in He. apply H1. tauto.
  Qed.

  Lemma sorted_filter f (l : amap) : sorted cmp l -> sorted cmp (filter f l).
  Proof.
    induction l as [|a l IH]; simpl; [auto|]. intros [H1 H2]. destruct (f a); simpl; auto.
    split; auto. rewrite Forall_forall in *. intros e He. apply filter_In in He. apply H1. tauto.
  Qed.

  Lemma s_put_In_fresh x w (l : amap) e :
    Forall (ne (x, w)) l -> (In e (s_put cmp x w l) <-> e = (x, w) \/ In e l).
  Proof.
    induction l as [|[k v] l IH]; simpl; [intuition|].
    intros HF. inversion HF as [|? ? Hk Hl]; subst. unfold ne in Hk. simpl in Hk.
    destruct (Z.ltb_spec (cmp x k) 0); [simpl; intuition|].
    destruct (Z.ltb_spec 0 (cmp x k)); [|lia]. simpl. rewrite IH by auto. intuition.
  Qed.

  Lemma s_put_all_spec (es : amap) : forall acc,
    pairwise_ne es -> Forall (fun b => Forall (ne b) acc) es -> sorted cmp acc ->
    sorted cmp (s_put_all es acc) /\ forall e, In e (s_put_all es acc) <-> In e es \/ In e acc.
  Proof.
    induction es as [|[x w] es IH]; intros acc HP HF HS; simpl.
    - split; [auto|intuition].
    - destruct HP as [HP1 HP2]. inversion HF as [|? ? Hx HF']; subst.
      destruct (IH (s_put cmp x w acc)) as [I1 I2]; auto.
      + apply Forall_forall. intros b Hb. apply Forall_forall. intros e He.
        apply (s_put_In_fresh x w acc e Hx) in He. destruct He as [->|He].
        * apply ne_sym. rewrite Forall_forall in HP1. apply HP1; auto.
        * rewrite Forall_forall in HF'. specialize (HF' b Hb). rewrite Forall_forall in HF'. auto.
      + now apply s_put_sorted.
      + split; [exact I1|]. intros e. rewrite I2. rewrite (s_put_In_fresh x w acc e Hx). intuition.
  Qed.

  (** sorted lists with the same entries are equal *)
  Lemma sorted_unique (l1 : amap) : forall l2,
    sorted cmp l1 -> sorted cmp l2 -> (forall e, In e l1 <-> In e l2) -> l1 = l2.
  Proof.
    induction l1 as [|a t1 IH]; intros [|b t2] H1 H2 HE; auto.
    - destruct (proj2 (HE b)); simpl; auto.
    - destruct (proj1 (HE a)); simpl; auto.
    - simpl in H1, H2. destruct H1 as [Ha H1], H2 as [Hb H2]. rewrite Forall_forall in Ha, Hb.
      assert (irr : forall x, cmp x x < 0 -> False) by (intros x Hx; rewrite (cmp_refl TO) in Hx; lia).
      assert (E : a = b).
      { destruct (proj1 (HE a) (or_introl eq_refl)) as [E|Ha2]; [auto|].
        destruct (proj2 (HE b) (or_introl eq_refl)) as [E|Hb1]; [auto|].
        exfalso. specialize (Ha _ Hb1). specialize (Hb _ Ha2).
        apply (cmp_antisym TO) in Ha. lia. }
      subst b. f_equal. apply IH; auto. intros e. split; intros He.
      + destruct (proj1 (HE e) (or_intror He)) as [E|]; [|auto]. subst e. exfalso. eapply irr, Ha, He.
      + destruct (proj2 (HE e) (or_intror He)) as [E|]; [|auto]. subst e. exfalso. eapply irr, Hb, He.
  Qed.

  Lemma s_put_all_filter f (es l : amap) :
    sorted cmp l -> Permutation es l -> s_put_all (filter f es) [] = filter f l.
  Proof.
    intros HS HP.
    destruct (s_put_all_spec (filter f es) []) as [H1 H2].
    - apply pairwise_ne_filter. eapply pairwise_ne_perm; [symmetry; exact HP|]. now apply sorted_pairwise_ne.
    - apply Forall_forall. intros; constructor.
    - exact I.
    - apply sorted_unique; auto; [now apply sorted_filter|].
      intros e. rewrite H2, !filter_In. simpl. split.
      + intros [[He Hf]|[]]. split; auto. eapply Permutation_in; eauto.
      + intros [He Hf]. left. split; auto. eapply Permutation_in; [symmetry|]; eauto.
  Qed.

End Facts.
