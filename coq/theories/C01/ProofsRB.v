(** C01 / C15 — left-leaning red-black tree: shape lemmas (rotations and colour flips keep the
    in-order listing and the cached sizes of the children), the colour invariant, Put. *)
From Algo.C01 Require Import Model Spec SpecFacts ProofsQuery ProofsRun ProofsBST.
From Coq Require Import Lia.
Open Scope Z_scope.
Arguments inorder {K V} n : simpl never.
Local Opaque Z.add Z.sub.

Section RB.
  Context {K V : Type}.
  Variable cmp : K -> K -> Z.
  Hypothesis TO : TotalOrder cmp.

  Notation tree := (tree K V).

  (** ** shape: listing and sizes *)

  (** cached sizes of the two children are exact (the node's own size may be stale) *)
  Definition csizes (t : tree) : Prop :=
    match t with Leaf => True | Node l _ _ _ _ _ r => sizes_ok l /\ sizes_ok r end.

  Lemma sizes_csizes (t : tree) : sizes_ok t -> csizes t.
  Proof. destruct t; cbn; tauto. Qed.

  Ltac inorder_tac :=
    rewrite ?inorder_node; repeat (rewrite <- app_assoc; cbn [app]); reflexivity.

  Lemma rotL_shape (n n' : tree) :
    rb_rotateLeft n = Ok n' -> inorder n' = inorder n /\ (csizes n -> csizes n') /\ nodes n' = nodes n.
  Proof.
    destruct n as [|nl nk nv ns nh nc [|rl rk rv rs rh rc rr]]; cbn [rb_rotateLeft]; try discriminate.
    intros [= <-]. split; [inorder_tac|]. split.
    - cbn [csizes sizes_ok]. intros [Hl [_ [Hrl Hrr]]]. repeat split; auto.
    - cbn [nodes]. lia.
  Qed.

  Lemma rotR_shape (n n' : tree) :
    rb_rotateRight n = Ok n' -> inorder n' = inorder n /\ (csizes n -> csizes n') /\ nodes n' = nodes n.
  Proof.
    destruct n as [|[|ll lk lv ls lh lc lr] nk nv ns nh nc nr]; cbn [rb_rotateRight]; try discriminate.
    intros [= <-]. split; [inorder_tac|]. split.
    - cbn [csizes sizes_ok]. intros [[_ [Hll Hlr]] Hr]. repeat split; auto.
    - cbn [nodes]. lia.
  Qed.

  Lemma rotR_sizes (n n' : tree) : rb_rotateRight n = Ok n' -> sizes_ok n -> sizes_ok n'.
  Proof.
    destruct n as [|[|ll lk lv ls lh lc lr] nk nv ns nh nc nr]; cbn [rb_rotateRight]; try discriminate.
    intros [= <-]. cbn [sizes_ok size]. intros (-> & (-> & Hll & Hlr) & Hr).
    repeat split; auto. lia.
  Qed.

  Lemma rotL_sizes (n n' : tree) : rb_rotateLeft n = Ok n' -> sizes_ok n -> sizes_ok n'.
  Proof.
    destruct n as [|nl nk nv ns nh nc [|rl rk rv rs rh rc rr]]; cbn [rb_rotateLeft]; try discriminate.
    intros [= <-]. cbn [sizes_ok size]. intros (-> & Hl & (-> & Hrl & Hrr)).
    repeat split; auto. lia.
  Qed.

  Lemma flip_shape (n n' : tree) :
    rb_flip n = Ok n' -> inorder n' = inorder n /\ (csizes n -> csizes n') /\ nodes n' = nodes n /\ size n' = size n.
  Proof.
    destruct n as [|[|ll lk lv ls lh lc lr] nk nv ns nh nc [|rl rk rv rs rh rc rr]]; cbn [rb_flip]; try discriminate.
    intros [= <-]. split; [inorder_tac|]. split; [|split; reflexivity].
    cbn [csizes sizes_ok]. tauto.
  Qed.

  Lemma set_size_shape (n n' : tree) :
    set_size n = Ok n' -> inorder n' = inorder n /\ (csizes n -> sizes_ok n') /\ nodes n' = nodes n.
  Proof.
    destruct n as [|l k v s h c r]; cbn [set_size]; try discriminate.
    intros [= <-]. split; [inorder_tac|]. split; [|reflexivity].
    cbn [csizes sizes_ok]. tauto.
  Qed.

  (** a conditional step that is either a shape-preserving operation or the identity *)
  Lemma cond_shape (b : bool) (f : tree -> res tree) (n n' : tree) :
    (forall a a', f a = Ok a' -> inorder a' = inorder a /\ (csizes a -> csizes a') /\ nodes a' = nodes a) ->
    (if b then f n else Ok n) = Ok n' ->
    inorder n' = inorder n /\ (csizes n -> csizes n') /\ nodes n' = nodes n.
  Proof.
    intros Hf. destruct b; [apply Hf|]. intros E; inversion E; subst. auto.
  Qed.

  Lemma flip_shape' (a a' : tree) :
    rb_flip a = Ok a' -> inorder a' = inorder a /\ (csizes a -> csizes a') /\ nodes a' = nodes a.
  Proof. intros E. destruct (flip_shape _ _ E) as (?&?&?&?). auto. Qed.

  Lemma put_fix_shape (n n' : tree) :
    rb_put_fix n = Ok n' -> inorder n' = inorder n /\ (csizes n -> sizes_ok n') /\ nodes n' = nodes n.
  Proof.
    unfold rb_put_fix. intros E.
    destruct (if isRed (tr n) && negb (isRed (tl n)) then rb_rotateLeft n else Ok n) as [n1| |] eqn:E1; try discriminate.
    cbn [bind] in E.
    destruct (if isRed (tl n1) && isRed (tl (tl n1)) then rb_rotateRight n1 else Ok n1) as [n2| |] eqn:E2; try discriminate.
    cbn [bind] in E.
    destruct (if isRed (tl n2) && isRed (tr n2) then rb_flip n2 else Ok n2) as [n3| |] eqn:E3; try discriminate.
    cbn [bind] in E.
    apply (cond_shape _ _ _ _ rotL_shape) in E1. apply (cond_shape _ _ _ _ rotR_shape) in E2.
    apply (cond_shape _ _ _ _ flip_shape') in E3. apply set_size_shape in E.
    destruct E1 as (?&?&?), E2 as (?&?&?), E3 as (?&?&?), E as (?&?&?).
    repeat split; try congruence; auto.
  Qed.

  Lemma balance_shape (n n' : tree) :
    rb_balance n = Ok n' -> inorder n' = inorder n /\ (csizes n -> sizes_ok n') /\ nodes n' = nodes n.
  Proof.
    unfold rb_balance. destruct n as [|l k v s h c r]; [discriminate|]. intros E.
    set (n := Node l k v s h c r) in *.
    destruct (if isRed (tr n) then rb_rotateLeft n else Ok n) as [n1| |] eqn:E1; try discriminate.
    cbn [bind] in E.
    destruct (if isRed (tl n1) && isRed (tl (tl n1)) then rb_rotateRight n1 else Ok n1) as [n2| |] eqn:E2; try discriminate.
    cbn [bind] in E.
    destruct (if isRed (tl n2) && isRed (tr n2) then rb_flip n2 else Ok n2) as [n3| |] eqn:E3; try discriminate.
    cbn [bind] in E.
    apply (cond_shape _ _ _ _ rotL_shape) in E1. apply (cond_shape _ _ _ _ rotR_shape) in E2.
    apply (cond_shape _ _ _ _ flip_shape') in E3. apply set_size_shape in E.
    destruct E1 as (?&?&?), E2 as (?&?&?), E3 as (?&?&?), E as (?&?&?).
    repeat split; try congruence; auto.
  Qed.

  Lemma moveRedLeft_shape (n n' : tree) :
    rb_moveRedLeft n = Ok n' -> inorder n' = inorder n /\ (csizes n -> csizes n') /\ nodes n' = nodes n.
  Proof.
    unfold rb_moveRedLeft. intros E.
    destruct (rb_flip n) as [n1| |] eqn:E1; try discriminate. cbn [bind] in E.
    apply flip_shape' in E1. destruct E1 as (I1 & S1 & N1).
    destruct n1 as [|l k v s h c r]; [discriminate|].
    destruct (isRed (tl r)).
    - destruct (rb_rotateRight r) as [r'| |] eqn:E2; try discriminate. cbn [bind] in E.
      destruct (rb_rotateLeft (Node l k v s h c r')) as [n2| |] eqn:E3; try discriminate. cbn [bind] in E.
      pose proof (rotR_sizes _ _ E2) as Z2.
      apply rotR_shape in E2. apply rotL_shape in E3. apply flip_shape' in E.
      destruct E2 as (I2 & S2 & N2), E3 as (I3 & S3 & N3), E as (I4 & S4 & N4).
      split; [|split].
      + rewrite I4, I3, <- I1, !inorder_node, I2. reflexivity.
      + intros HC. apply S4, S3. specialize (S1 HC). cbn [csizes] in *. destruct S1 as [Sl Sr].
        split; [exact Sl|]. auto.
      + rewrite N4, N3, <- N1. cbn [nodes]. lia.
    - inversion E; subst. auto.
  Qed.
  (** ** the colour invariant *)

  (** [rbt t n]: every path has [n] black links, no right-leaning red link, no two red links in a
      row (the root itself may be red) *)
  Inductive rbt : tree -> Z -> Prop :=
  | rbt_leaf : rbt Leaf 0
  | rbt_red l k v s h r n :
      rbt l n -> rbt r n -> isRed l = false -> isRed r = false -> rbt (Node l k v s h true r) n
  | rbt_black l k v s h r n :
      rbt l n -> rbt r n -> isRed r = false -> rbt (Node l k v s h false r) (n + 1).

  (** a red node whose left child may be red as well (the transient state inside [_put]) *)
  Definition almost (t : tree) (n : Z) : Prop :=
    match t with
    | Node l _ _ _ _ true r => rbt l n /\ rbt r n /\ isRed r = false
    | _ => False
    end.

  Lemma rbt_red_inv l k v s h (r : tree) n :
    rbt (Node l k v s h true r) n -> rbt l n /\ rbt r n /\ isRed l = false /\ isRed r = false.
  Proof. inversion 1; subst; auto. Qed.

  Lemma rbt_black_inv l k v s h (r : tree) n :
    rbt (Node l k v s h false r) n -> exists m, n = m + 1 /\ rbt l m /\ rbt r m /\ isRed r = false.
  Proof. inversion 1; subst; eauto. Qed.

  Lemma rbt_nonneg (t : tree) n : rbt t n -> 0 <= n.
  Proof. induction 1; lia. Qed.

  Lemma rbt_red_almost (t : tree) n : rbt t n -> isRed t = true -> almost t n.
  Proof. destruct 1; cbn; try discriminate; auto. Qed.

  Ltac rb_eval :=
    repeat (cbn [tl tr isRed negb andb bind rb_rotateLeft rb_rotateRight rb_flip set_size];
            try match goal with
                | H : isRed ?x = _ |- context [isRed ?x] => rewrite H
                end).

  Ltac rbt_inv :=
    repeat match goal with
           | H : rbt Leaf _ |- _ => inversion H; subst; clear H
           | H : rbt (Node _ _ _ _ _ _ _) _ |- _ => inversion H; subst; clear H
           | H : almost (Node _ _ _ _ _ true _) _ |- _ => destruct H as (? & ? & ?)
           | H : almost (Node _ _ _ _ _ false _) _ |- _ => destruct H
           | H : almost Leaf _ |- _ => destruct H
           | H : isRed (Node _ _ _ _ _ _ _) = _ |- _ => cbn [isRed] in H; try discriminate H
           end.

  Ltac bh_norm :=
    repeat match goal with
           | H : rbt _ ?n |- _ =>
               lazymatch goal with
               | _ : 0 <= n |- _ => fail
               | _ => pose proof (rbt_nonneg _ _ H)
               end
           end;
    repeat match goal with
           | H : ?a + 1 = ?b + 1 |- _ => assert (a = b) by lia; clear H; subst
           | H : ?a + 1 = 0 |- _ => exfalso; lia
           | H : 0 = ?a + 1 |- _ => exfalso; lia
           end.

  Ltac rbt_build := repeat (first [assumption | reflexivity | econstructor]).

  (** after an insertion into the left subtree of a black node *)
  Lemma put_fix_black_left (l : tree) k v s h (r : tree) n :
    rbt l n \/ almost l n -> rbt r n -> isRed r = false ->
    exists t', rb_put_fix (Node l k v s h false r) = Ok t' /\ rbt t' (n + 1).
  Proof.
    intros Hl Hr Rr. unfold rb_put_fix.
    destruct l as [|[|lll llk llv lls llh [] llr] lk lv ls lh [] lr]; rb_eval;
      (eexists; split; [reflexivity|]); destruct Hl as [Hl|Hl]; rbt_inv; bh_norm; rbt_build.
  Qed.
  (** after an insertion into the right subtree of a black node (the new right child may be red) *)
  Lemma put_fix_black_right (l : tree) k v s h (r : tree) n :
    rbt l n -> rbt r n ->
    exists t', rb_put_fix (Node l k v s h false r) = Ok t' /\ rbt t' (n + 1).
  Proof.
    intros Hl Hr. unfold rb_put_fix.
    destruct r as [|rl rk rv rs rh [] rr];
      destruct l as [|[|lll llk llv lls llh [] llr] lk lv ls lh [] lr]; rbt_inv; bh_norm; rb_eval;
      (eexists; split; [reflexivity|]); rbt_build.
  Qed.

  (** below a red node nothing is rotated or flipped on the left *)
  Lemma put_fix_red_left (l : tree) k v s h (r : tree) n :
    rbt l n -> rbt r n -> isRed r = false ->
    exists t', rb_put_fix (Node l k v s h true r) = Ok t' /\ almost t' n.
  Proof.
    intros Hl Hr Rr. unfold rb_put_fix.
    destruct l as [|[|lll llk llv lls llh [] llr] lk lv ls lh [] lr]; rbt_inv; bh_norm; rb_eval;
      (eexists; split; [reflexivity|]); cbn [almost]; repeat split; rbt_build.
  Qed.

  Lemma put_fix_red_right (l : tree) k v s h (r : tree) n :
    rbt l n -> isRed l = false -> rbt r n ->
    exists t', rb_put_fix (Node l k v s h true r) = Ok t' /\ almost t' n.
  Proof.
    intros Hl Rl Hr. unfold rb_put_fix.
    destruct r as [|rl rk rv rs rh [] rr];
      destruct l as [|ll lk lv ls lh [] lr]; try discriminate; rbt_inv; bh_norm; rb_eval;
      (eexists; split; [reflexivity|]); cbn [almost]; repeat split; rbt_build.
  Qed.

  (** ** Put *)
  Lemma rb_put_ok (t : tree) x w : forall n,
    sorted cmp (inorder t) -> sizes_ok t -> rbt t n ->
    exists t', rb_put cmp t x w = Ok t' /\ inorder t' = s_put cmp x w (inorder t) /\ sizes_ok t' /\
               (if isRed t then almost t' n else rbt t' n) /\ t' <> Leaf.
  Proof.
    induction t as [|l IHl k v s h c r IHr]; intros n HS HZ HR.
    - inversion HR; subst. eexists. split; [reflexivity|]. split; [reflexivity|].
      split; [cbn [sizes_ok size]; repeat split; lia|]. split; [|discriminate]. cbn [isRed]. rbt_build.
    - destruct (sorted_node cmp TO _ _ _ _ _ _ _ HS) as [Sl Sr].
      rewrite inorder_node in HS. rewrite inorder_node, (s_put_mid cmp TO _ _ _ _ HS). cbn [rb_put].
      cbn [sizes_ok] in HZ. destruct HZ as (_ & Zl & Zr).
      assert (Hfin : forall n0 t', rb_put_fix n0 = Ok t' -> csizes n0 ->
                inorder t' = inorder n0 /\ sizes_ok t' /\ t' <> Leaf).
      { intros n0 t' E C. destruct (put_fix_shape _ _ E) as (I1 & I2 & I3). repeat split; auto.
        intros ->. unfold rb_put_fix in E. destruct n0; cbn in E; [discriminate|].
        clear - E. revert E.
        repeat match goal with |- context [if ?b then _ else _] => destruct b end;
          repeat match goal with |- context [bind ?x _] => destruct x as [[]| |]; cbn [bind] end;
          try discriminate. }
      destruct c.
      { (* red node: both children are black-rooted *)
        apply rbt_red_inv in HR. destruct HR as (Rl & Rr & Bl & Br). cbn [isRed].
        destruct (cmp x k <? 0); [|destruct (0 <? cmp x k)].
        - destruct (IHl _ Sl Zl Rl) as [l' [E1 [E2 [Z1 [C1 N1]]]]]. rewrite E1. cbn [bind].
          rewrite Bl in C1.
          destruct (put_fix_red_left l' k v s h r n C1 Rr Br) as [t' [F1 F2]].
          destruct (Hfin _ _ F1 (conj Z1 Zr)) as (I1 & I2 & I3).
          exists t'. split; [exact F1|]. split; [rewrite I1, inorder_node, E2; reflexivity|]. auto.
        - destruct (IHr _ Sr Zr Rr) as [r' [E1 [E2 [Z1 [C1 N1]]]]]. rewrite E1. cbn [bind].
          rewrite Br in C1.
          destruct (put_fix_red_right l k v s h r' n Rl Bl C1) as [t' [F1 F2]].
          destruct (Hfin _ _ F1 (conj Zl Z1)) as (I1 & I2 & I3).
          exists t'. split; [exact F1|]. split; [rewrite I1, inorder_node, E2; reflexivity|]. auto.
        - cbn [bind].
          destruct (put_fix_red_left l k w s h r n Rl Rr Br) as [t' [F1 F2]].
          destruct (Hfin _ _ F1 (conj Zl Zr)) as (I1 & I2 & I3).
          exists t'. split; [exact F1|]. split; [rewrite I1, inorder_node; reflexivity|]. auto. }
      apply rbt_black_inv in HR. destruct HR as (m & -> & Rl & Rr & Br). cbn [isRed].
      destruct (cmp x k <? 0); [|destruct (0 <? cmp x k)].
      + destruct (IHl _ Sl Zl Rl) as [l' [E1 [E2 [Z1 [C1 N1]]]]]. rewrite E1. cbn [bind].
        assert (HL : rbt l' m \/ almost l' m) by (destruct (isRed l); auto).
        destruct (put_fix_black_left l' k v s h r m HL Rr Br) as [t' [F1 F2]].
        destruct (Hfin _ _ F1 (conj Z1 Zr)) as (I1 & I2 & I3).
        exists t'. split; [exact F1|]. split; [rewrite I1, inorder_node, E2; reflexivity|]. auto.
      + destruct (IHr _ Sr Zr Rr) as [r' [E1 [E2 [Z1 [C1 N1]]]]]. rewrite E1. cbn [bind].
        rewrite Br in C1.
        destruct (put_fix_black_right l k v s h r' m Rl C1) as [t' [F1 F2]].
        destruct (Hfin _ _ F1 (conj Zl Z1)) as (I1 & I2 & I3).
        exists t'. split; [exact F1|]. split; [rewrite I1, inorder_node, E2; reflexivity|]. auto.
      + cbn [bind].
        destruct (put_fix_black_left l k w s h r m (or_introl Rl) Rr Br) as [t' [F1 F2]].
        destruct (Hfin _ _ F1 (conj Zl Zr)) as (I1 & I2 & I3).
        exists t'. split; [exact F1|]. split; [rewrite I1, inorder_node; reflexivity|]. auto.
  Qed.
  (** ** the table-level invariant and the Put-only refinement *)

  Definition rb_ok (t : tree) : Prop :=
    sorted cmp (inorder t) /\ sizes_ok t /\ isRed t = false /\ exists n, rbt t n.

  Lemma set_color_shape c (t : tree) :
    inorder (set_color c t) = inorder t /\ (sizes_ok t -> sizes_ok (set_color c t)) /\ nodes (set_color c t) = nodes t.
  Proof. destruct t; cbn [set_color]; [auto|]. rewrite !inorder_node. cbn [sizes_ok nodes]. auto. Qed.

  Lemma blacken_rbt (t : tree) n : rbt t n -> exists m, rbt (set_color false t) m.
  Proof.
    destruct 1; cbn [set_color].
    - eexists; constructor.
    - eexists. apply rbt_black; eauto.
    - eexists. apply rbt_black; eauto.
  Qed.

  Lemma blacken_almost (t : tree) n : almost t n -> exists m, rbt (set_color false t) m.
  Proof.
    destruct t as [|l k v s h [] r]; cbn [almost set_color]; try tauto.
    intros (Hl & Hr & Br). eexists. apply rbt_black; eauto.
  Qed.

  Lemma isRed_blacken (t : tree) : isRed (set_color false t) = false.
  Proof. destruct t; reflexivity. Qed.

  Definition put_only (m : mut K V) : bool :=
    match m with MPut _ _ | MDeleteAll => true | _ => false end.

  Lemma rb_ok_leaf : rb_ok Leaf.
  Proof. split; [exact I|]. split; [exact I|]. split; [reflexivity|]. exists 0. constructor. Qed.

  Lemma rb_Put_ok (t : tree) k v :
    rb_ok t ->
    exists t', Put cmp RB t k v = Ok t' /\ inorder t' = s_put cmp k v (inorder t) /\ rb_ok t'.
  Proof.
    intros (HS & HZ & HB & n & HR). unfold Put.
    destruct (rb_put_ok t k v n HS HZ HR) as [t1 [E1 [E2 [Z1 [C1 N1]]]]]. rewrite E1. cbn [bind].
    rewrite HB in C1. destruct t1 as [|l1 k1 v1 s1 h1 c1 r1]; [congruence|].
    eexists. split; [reflexivity|].
    destruct (set_color_shape false (Node l1 k1 v1 s1 h1 c1 r1)) as (I1 & I2 & _).
    split; [now rewrite I1|]. split; [rewrite I1, E2; now apply s_put_sorted|].
    split; [auto|]. split; [apply isRed_blacken|]. eapply blacken_rbt; eauto.
  Qed.

  Lemma rb_refines_put : Refines cmp RB rb_ok put_only.
  Proof.
    constructor.
    - apply rb_ok_leaf.
    - intros t H; apply H.
    - intros t H; apply H.
    - reflexivity.
    - intros t m HI Hm. destruct m as [k v|k| | |]; try discriminate; unfold mutate, s_mutate.
      + destruct (rb_Put_ok t k v HI) as [t' [E1 [E2 I1]]]. rewrite E1. cbn [bind fst snd]. eauto.
      + exists Leaf. split; [reflexivity|]. split; [reflexivity|]. apply rb_ok_leaf.
  Qed.
End RB.
