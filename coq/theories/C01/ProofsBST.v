(** C01 — the BST mutators refine the abstract operations on the in-order listing and keep
    the cached sizes exact. *)
From Algo.C01 Require Import Model Spec SpecFacts ProofsQuery ProofsRun.
From Coq Require Import Lia.
Open Scope Z_scope.
Arguments inorder {K V} n : simpl never.

Section BST.
  Context {K V : Type}.
  Variable cmp : K -> K -> Z.
  Hypothesis TO : TotalOrder cmp.

  Notation tree := (tree K V).

  Lemma bst_put_inorder (t : tree) x w :
    sorted cmp (inorder t) -> inorder (bst_put cmp t x w) = s_put cmp x w (inorder t).
  Proof.
    induction t as [|l IHl k v s h c r IHr]; [reflexivity|].
    intros HS. destruct (sorted_node cmp TO _ _ _ _ _ _ _ HS) as [Hl Hr].
    rewrite inorder_node in HS. rewrite inorder_node, (s_put_mid cmp TO _ _ _ _ HS). cbn [bst_put].
    destruct (cmp x k <? 0); [|destruct (0 <? cmp x k)]; rewrite inorder_node; rewrite ?IHl, ?IHr by auto; reflexivity.
  Qed.

  Lemma bst_put_sizes (t : tree) x w : sizes_ok t -> sizes_ok (bst_put cmp t x w).
  Proof.
    induction t as [|l IHl k v s h c r IHr]; cbn [bst_put sizes_ok].
    - intros _. cbn [size]. repeat split; lia.
    - intros [_ [Hl Hr]].
      destruct (cmp x k <? 0); [|destruct (0 <? cmp x k)]; cbn [sizes_ok]; repeat split; auto.
  Qed.

  Lemma bst_deleteMin_ok (t : tree) :
    t <> Leaf ->
    exists t' m, bst_deleteMin t = Ok (t', m) /\ inorder t = m :: inorder t' /\ (sizes_ok t -> sizes_ok t').
  Proof.
    induction t as [|l IHl k v s h c r _]; [congruence|]. intros _.
    destruct l as [|ll lk lv ls lh lc lr].
    - exists r, (k, v). cbn [bst_deleteMin sizes_ok]. rewrite inorder_node. repeat split; tauto.
    - destruct IHl as [l' [m [H1 [H2 H3]]]]; [discriminate|].
      cbn [bst_deleteMin] in *. rewrite H1. cbn [bind].
      eexists _, m. split; [reflexivity|]. rewrite (inorder_node _ k v), H2, (inorder_node l').
      split; [reflexivity|]. cbn [sizes_ok]. intros [_ [Hl Hr]]. repeat split; auto.
  Qed.

  Lemma bst_deleteMax_ok (t : tree) :
    t <> Leaf ->
    exists t' m, bst_deleteMax t = Ok (t', m) /\ inorder t = inorder t' ++ [m] /\ (sizes_ok t -> sizes_ok t').
  Proof.
    induction t as [|l _ k v s h c r IHr]; [congruence|]. intros _.
    destruct r as [|rl rk rv rs rh rc rr].
    - exists l, (k, v). cbn [bst_deleteMax sizes_ok]. rewrite inorder_node. repeat split; tauto.
    - destruct IHr as [r' [m [H1 [H2 H3]]]]; [discriminate|].
      cbn [bst_deleteMax] in *. rewrite H1. cbn [bind].
      eexists _, m. split; [reflexivity|]. rewrite (inorder_node l), H2, (inorder_node l).
      split; [now rewrite <- app_assoc|]. cbn [sizes_ok]. intros [_ [Hl Hr]]. repeat split; auto.
  Qed.

  Lemma bst_delete_ok (t : tree) x :
    sorted cmp (inorder t) ->
    exists t', bst_delete cmp t x = Ok (t', snd (s_delete cmp x (inorder t))) /\
               inorder t' = fst (s_delete cmp x (inorder t)) /\ (sizes_ok t -> sizes_ok t').
  Proof.
    induction t as [|l IHl k v s h c r IHr].
    - intros _. exists Leaf. repeat split; auto.
    - intros HS. destruct (sorted_node cmp TO _ _ _ _ _ _ _ HS) as [Hl Hr].
      rewrite inorder_node in HS. rewrite inorder_node, (s_delete_mid cmp TO _ _ _ _ HS). cbn [bst_delete].
      destruct (cmp x k <? 0); [|destruct (0 <? cmp x k)].
      + destruct (IHl Hl) as [l' [H1 [H2 H3]]]. rewrite H1. cbn [bind].
        destruct (s_delete cmp x (inorder l)) as [L' o]. cbn [fst snd] in *.
        eexists. split; [reflexivity|]. rewrite inorder_node, H2. split; [reflexivity|].
        cbn [sizes_ok]. intros [_ [Sl Sr]]. repeat split; auto.
      + destruct (IHr Hr) as [r' [H1 [H2 H3]]]. rewrite H1. cbn [bind].
        destruct (s_delete cmp x (inorder r)) as [R' o]. cbn [fst snd] in *.
        eexists. split; [reflexivity|]. rewrite inorder_node, H2. split; [reflexivity|].
        cbn [sizes_ok]. intros [_ [Sl Sr]]. repeat split; auto.
      + cbn [fst snd]. destruct l as [|ll lk lv ls lh lc lr].
        * exists r. cbn [sizes_ok]. repeat split; tauto.
        * destruct r as [|rl rk rv rs rh rc rr].
          { eexists. split; [reflexivity|]. rewrite (inorder_leaf (K:=K) (V:=V)), app_nil_r.
            cbn [sizes_ok]. repeat split; tauto. }
          destruct (min_node_ok (Node rl rk rv rs rh rc rr)) as [m [M1 M2]]; [discriminate|].
          destruct (bst_deleteMin_ok (Node rl rk rv rs rh rc rr)) as [r' [m' [D1 [D2 D3]]]]; [discriminate|].
          rewrite M1, D1. destruct m as [mk mv]. cbn [bind].
          eexists. split; [reflexivity|]. rewrite inorder_node.
          rewrite D2 in M2. cbn in M2. inversion M2; subst m'. rewrite D2. split; [reflexivity|].
          cbn [sizes_ok]. intros [_ [Sl Sr]]. repeat split; auto; tauto.
  Qed.
  (** list-level shapes of DeleteMin / DeleteMax, shared by the three implementations *)
  Lemma s_deleteMin_cons (m : K * V) l : s_deleteMin (m :: l) = (l, Some m).
  Proof. reflexivity. Qed.
  Lemma s_deleteMax_snoc (m : K * V) l : s_deleteMax (l ++ [m]) = (l, Some m).
  Proof. unfold s_deleteMax. rewrite rev_app_distr. simpl. now rewrite rev_involutive. Qed.

  Definition bst_inv (t : tree) : Prop := sorted cmp (inorder t) /\ sizes_ok t.

  Lemma bst_refines : Refines cmp BST bst_inv (fun _ => true).
  Proof.
    constructor.
    - split; exact I.
    - intros t [H _]; exact H.
    - intros t [_ H]; exact H.
    - reflexivity.
    - intros t m [HS HZ] _. destruct m as [k v|k| | |]; unfold mutate, s_mutate, Put, Delete, DeleteMin, DeleteMax; cbn [bind].
      + eexists. split; [reflexivity|]. cbn [fst snd]. split; [now apply bst_put_inorder|].
        split; [rewrite bst_put_inorder by auto; now apply s_put_sorted|now apply bst_put_sizes].
      + destruct (bst_delete_ok t k HS) as [t' [E1 [E2 E3]]]. rewrite E1. cbn [bind].
        pose proof (s_delete_sorted cmp k (inorder t) HS) as HS'.
        destruct (s_delete cmp k (inorder t)) as [l' o]. cbn [fst snd] in *.
        eexists. split; [reflexivity|]. split; [exact E2|]. split; [now rewrite E2|auto].
      + destruct t as [|l k v s h c r].
        * exists Leaf. cbn. repeat split; exact I.
        * cbn [is_leaf]. destruct (bst_deleteMin_ok (Node l k v s h c r)) as [t' [m [E1 [E2 E3]]]]; [discriminate|].
          rewrite E1. cbn [bind]. rewrite E2, s_deleteMin_cons. cbn [fst snd].
          eexists. split; [reflexivity|]. split; [reflexivity|]. split; [|auto].
          rewrite E2 in HS. eapply sorted_tail; eauto.
      + destruct t as [|l k v s h c r].
        * exists Leaf. cbn. repeat split; exact I.
        * cbn [is_leaf]. destruct (bst_deleteMax_ok (Node l k v s h c r)) as [t' [m [E1 [E2 E3]]]]; [discriminate|].
          rewrite E1. cbn [bind]. rewrite E2, s_deleteMax_snoc. cbn [fst snd].
          eexists. split; [reflexivity|]. split; [reflexivity|]. split; [|auto].
          rewrite E2 in HS. eapply sorted_app_l; eauto.
      + exists Leaf. cbn. repeat split; exact I.
  Qed.
End BST.
