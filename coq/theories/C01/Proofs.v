(** C01 — the theorems that Properties/C01.v states, per implementation. *)
From Algo.C01 Require Import Model Spec SpecFacts ProofsQuery ProofsRun ProofsBST ProofsAVL ProofsRB ProofsRBDel.
From Coq Require Import Lia Permutation.
Open Scope Z_scope.
Arguments inorder {K V} n : simpl never.

Section All.
  Context {K V : Type}.
  Variable cmp : K -> K -> Z.
  Variable eqv : V -> V -> bool.
  Hypothesis TO : TotalOrder cmp.

  Lemma forallb_true {A} (l : list A) : forallb (fun _ => true) l = true.
  Proof. induction l; simpl; auto. Qed.

  Lemma all_allowed (ops : list (op K V)) : forallb (op_allowed (fun _ => true)) ops = true.
  Proof.
    induction ops as [|o ops IH]; simpl; [reflexivity|]. rewrite IH, andb_true_r.
    destruct o as [m|q]; [reflexivity|]. destruct q; try reflexivity. apply forallb_true.
  Qed.

  (** shape-dependent observables, for any implementation with a refinement invariant *)
  Section Generic.
    Variable i : impl.
    Variable Inv : tree K V -> Prop.
    Variable allowed : mut K V -> bool.
    Hypothesis R : Refines cmp i Inv allowed.

    Lemma firstmatch_generic h p :
      forallb allowed h = true ->
      exists t, build cmp i h = Ok t /\
        match first_match p t with
        | Some e => In e (s_build cmp h) /\ holds p e = true
        | None => forall e, In e (s_build cmp h) -> holds p e = false
        end.
    Proof.
      intros HA. destruct (build_ok cmp i Inv allowed R h HA) as [t [E1 [E2 _]]].
      exists t. split; [exact E1|]. rewrite <- E2. apply first_match_ok.
    Qed.

    Lemma traversal_generic h o :
      forallb allowed h = true -> o <> OtherOrder ->
      exists t, build cmp i h = Ok t /\ Permutation (trav_list o t) (s_build cmp h).
    Proof.
      intros HA Ho. destruct (build_ok cmp i Inv allowed R h HA) as [t [E1 [E2 _]]].
      exists t. split; [exact E1|]. rewrite <- E2, trav_list_olist. now apply olist_perm.
    Qed.
  End Generic.

  Theorem bst_run_ok (ops : list (op K V)) :
    forallb abstract_op ops = true -> run cmp eqv BST ops = map Ok (spec_run cmp eqv ops).
  Proof.
    intros HA. eapply run_ok; eauto using bst_refines. apply all_allowed.
  Qed.

  Theorem bst_firstmatch (h : list (mut K V)) p :
    exists t, build cmp BST h = Ok t /\
      match first_match p t with
      | Some e => In e (s_build cmp h) /\ holds p e = true
      | None => forall e, In e (s_build cmp h) -> holds p e = false
      end.
  Proof. eapply firstmatch_generic; [apply (bst_refines cmp TO)|apply forallb_true]. Qed.

  Theorem bst_traversal (h : list (mut K V)) o :
    o <> OtherOrder ->
    exists t, build cmp BST h = Ok t /\ Permutation (trav_list o t) (s_build cmp h).
  Proof. intros. eapply traversal_generic; [apply (bst_refines cmp TO)|apply forallb_true|auto]. Qed.

  Theorem avl_run_ok (ops : list (op K V)) :
    forallb abstract_op ops = true -> run cmp eqv AVL ops = map Ok (spec_run cmp eqv ops).
  Proof.
    intros HA. eapply run_ok; eauto using avl_refines. apply all_allowed.
  Qed.

  Theorem avl_firstmatch (h : list (mut K V)) p :
    exists t, build cmp AVL h = Ok t /\
      match first_match p t with
      | Some e => In e (s_build cmp h) /\ holds p e = true
      | None => forall e, In e (s_build cmp h) -> holds p e = false
      end.
  Proof. eapply firstmatch_generic; [apply (avl_refines cmp TO)|apply forallb_true]. Qed.

  Theorem avl_traversal (h : list (mut K V)) o :
    o <> OtherOrder ->
    exists t, build cmp AVL h = Ok t /\ Permutation (trav_list o t) (s_build cmp h).
  Proof. intros. eapply traversal_generic; [apply (avl_refines cmp TO)|apply forallb_true|auto]. Qed.

  (** the AVL invariant holds after every history *)
  Theorem avl_build_inv (h : list (mut K V)) :
    exists t, build cmp AVL h = Ok t /\ inorder t = s_build cmp h /\ avl_inv t.
  Proof.
    destruct (build_ok cmp AVL _ _ (avl_refines cmp TO) h (forallb_true h)) as [t [E1 [E2 [_ I]]]].
    exists t. auto.
  Qed.

  (** red-black, histories whose mutators are Put and DeleteAll *)
  Theorem rb_run_ok_put (ops : list (op K V)) :
    forallb abstract_op ops = true -> forallb (op_allowed put_only) ops = true ->
    run cmp eqv RB ops = map Ok (spec_run cmp eqv ops).
  Proof. intros HA HO. eapply run_ok; eauto using rb_refines_put. Qed.

  Theorem rb_build_inv_put (h : list (mut K V)) :
    forallb put_only h = true ->
    exists t, build cmp RB h = Ok t /\ inorder t = s_build cmp h /\ rb_ok cmp t.
  Proof. intros HA. exact (build_ok cmp RB _ _ (rb_refines_put cmp TO) h HA). Qed.

  (** red-black, every history *)
  Theorem rb_run_ok (ops : list (op K V)) :
    forallb abstract_op ops = true -> run cmp eqv RB ops = map Ok (spec_run cmp eqv ops).
  Proof.
    intros HA. eapply run_ok; eauto using rb_refines. apply all_allowed.
  Qed.

  Theorem rb_build_inv (h : list (mut K V)) :
    exists t, build cmp RB h = Ok t /\ inorder t = s_build cmp h /\ rb_ok cmp t.
  Proof. exact (build_ok cmp RB _ _ (rb_refines cmp TO) h (forallb_true h)). Qed.

  (** the three implementations at once *)
  Definition inv_of (i : impl) : tree K V -> Prop :=
    match i with BST => bst_inv cmp | AVL => avl_ok cmp | RB => rb_ok cmp end.

  Lemma refines_all (i : impl) : Refines cmp i (inv_of i) (fun _ => true).
  Proof. destruct i; [apply bst_refines|apply avl_refines|apply rb_refines]; exact TO. Qed.

  Theorem run_ok_all (i : impl) (ops : list (op K V)) :
    forallb abstract_op ops = true -> run cmp eqv i ops = map Ok (spec_run cmp eqv ops).
  Proof. intros HA. eapply run_ok; eauto using refines_all. apply all_allowed. Qed.

  Theorem firstmatch_all (i : impl) (h : list (mut K V)) p :
    exists t, build cmp i h = Ok t /\
      match first_match p t with
      | Some e => In e (s_build cmp h) /\ holds p e = true
      | None => forall e, In e (s_build cmp h) -> holds p e = false
      end.
  Proof. eapply firstmatch_generic; [apply refines_all|apply forallb_true]. Qed.

  Theorem traversal_all (i : impl) (h : list (mut K V)) o :
    o <> OtherOrder ->
    exists t, build cmp i h = Ok t /\ Permutation (trav_list o t) (s_build cmp h).
  Proof. intros. eapply traversal_generic; [apply refines_all|apply forallb_true|auto]. Qed.

  (** the history continues on a SelectMatch / PartitionMatch result: same refinement *)
  Theorem selection_all (i : impl) (h : list (mut K V)) p (h2 : list (mut K V)) (ops : list (op K V)) :
    forallb abstract_op ops = true ->
    exists t t' t'', build cmp i h = Ok t /\ SelectMatch cmp i p t = Ok t' /\
      build_from cmp i t' h2 = Ok t'' /\ inv_of i t'' /\
      inorder t'' = s_build_from cmp (filter (holds p) (s_build cmp h)) h2 /\
      run_from cmp eqv i t'' ops = map Ok (s_run_from cmp eqv (inorder t'') ops).
  Proof.
    intros HA. apply (selection_continues cmp eqv TO i _ _ (refines_all i)); auto using forallb_true, all_allowed.
  Qed.

  Theorem partition_all (i : impl) (h : list (mut K V)) p (second : bool) (h2 : list (mut K V)) (ops : list (op K V)) :
    forallb abstract_op ops = true ->
    exists t ta tb t'', build cmp i h = Ok t /\ PartitionMatch cmp i p t = (Ok ta, Ok tb) /\
      build_from cmp i (if second then tb else ta) h2 = Ok t'' /\ inv_of i t'' /\
      inorder t'' = s_build_from cmp (filter (fun e => if second then negb (holds p e) else holds p e) (s_build cmp h)) h2 /\
      run_from cmp eqv i t'' ops = map Ok (s_run_from cmp eqv (inorder t'') ops).
  Proof.
    intros HA. apply (partition_continues cmp eqv TO i _ _ (refines_all i)); auto using forallb_true, all_allowed.
  Qed.

  Theorem build_all (i : impl) (h : list (mut K V)) :
    exists t, build cmp i h = Ok t /\ inorder t = s_build cmp h /\ sorted cmp (inorder t) /\ sizes_ok t.
  Proof.
    destruct (build_ok cmp i _ _ (refines_all i) h (forallb_true h)) as [t [E1 [E2 I]]].
    exists t. split; [exact E1|]. split; [exact E2|].
    split; [exact (inv_sorted _ _ _ _ (refines_all i) t I)|exact (inv_sizes _ _ _ _ (refines_all i) t I)].
  Qed.

End All.

(** ** the comparators of the harness satisfy the laws *)
Lemma cmp_asc_total : TotalOrder cmp_asc.
Proof.
  constructor; unfold cmp_asc; intros.
  - now rewrite Z.compare_refl.
  - rewrite (Z.compare_antisym a b). destruct (a ?= b); simpl; lia.
  - destruct (Z.compare_spec a b), (Z.compare_spec b c), (Z.compare_spec a c); lia.
Qed.

Lemma cmp_desc_total : TotalOrder cmp_desc.
Proof.
  constructor; unfold cmp_desc; intros.
  - now rewrite Z.compare_refl.
  - rewrite (Z.compare_antisym a b). destruct (a ?= b); simpl; lia.
  - destruct (Z.compare_spec a b), (Z.compare_spec b c), (Z.compare_spec a c); lia.
Qed.

Lemma cmp_diff_total : TotalOrder cmp_diff.
Proof. constructor; unfold cmp_diff; intros; lia. Qed.

Lemma cmp_rdiff_total : TotalOrder cmp_rdiff.
Proof. constructor; unfold cmp_rdiff; intros; lia. Qed.

Lemma cmp_diff3_total : TotalOrder cmp_diff3.
Proof. constructor; unfold cmp_diff3; intros; lia. Qed.

Lemma cmp_half_total : TotalOrder cmp_half.
Proof.
  constructor; unfold cmp_half; intros.
  - apply (cmp_refl cmp_asc_total).
  - apply (cmp_antisym cmp_asc_total).
  - eapply (cmp_trans cmp_asc_total); eauto.
Qed.
