(** C01 — the queries shared by the three trees compute the list-level specification on the
    in-order listing, for every tree whose listing is sorted and whose cached sizes are exact. *)
From Algo.C01 Require Import Model Spec SpecFacts.
From Coq Require Import Lia Permutation.
Open Scope Z_scope.
Arguments inorder {K V} n : simpl never.

Section Q.
  Context {K V : Type}.
  Variable cmp : K -> K -> Z.
  Hypothesis TO : TotalOrder cmp.

  Notation tree := (tree K V).
  Notation amap := (list (K * V)).

  (** ** traversals as plain lists *)
  Fixpoint olist (o : order) (t : tree) : amap :=
    match t with
    | Leaf => []
    | Node l k v _ _ _ r =>
        match o with
        | VLR => (k, v) :: olist o l ++ olist o r
        | VRL => (k, v) :: olist o r ++ olist o l
        | LVR | Ascending => olist o l ++ (k, v) :: olist o r
        | RVL | Descending => olist o r ++ (k, v) :: olist o l
        | LRV => olist o l ++ olist o r ++ [(k, v)]
        | RLV => olist o r ++ olist o l ++ [(k, v)]
        | OtherOrder => []
        end
    end.

  Section VF.
    Variable S : Type.
    Variable visit : K -> V -> S -> S * bool.

    Fixpoint vfold (l : amap) (s : S) : S * bool :=
      match l with
      | [] => (s, true)
      | (k, v) :: t => let '(s1, b) := visit k v s in if b then vfold t s1 else (s1, false)
      end.

    Lemma vfold_app a b s : vfold (a ++ b) s = andthen S (vfold a) (vfold b) s.
    Proof.
      revert s. induction a as [|[k v] a IH]; intros s; simpl.
      - unfold andthen. simpl. reflexivity.
      - unfold andthen in *. simpl. destruct (visit k v s) as [s1 [|]]; [apply IH|reflexivity].
    Qed.

    Lemma vfold_one k v s : vfold [(k, v)] s = visit k v s.
    Proof. simpl. destruct (visit k v s) as [s1 [|]]; reflexivity. Qed.

    Lemma andthen_ext f f' g g' s :
      (forall s, f s = f' s) -> (forall s, g s = g' s) -> andthen S f g s = andthen S f' g' s.
    Proof. intros Hf Hg. unfold andthen. rewrite Hf. destruct (f' s) as [s1 [|]]; auto. Qed.

    Lemma traverse_vfold o t s : o <> OtherOrder -> traverse S visit o t s = vfold (olist o t) s.
    Proof.
      intros Ho. revert s. induction t as [|l IHl k v sz ht c r IHr]; intros s; [reflexivity|].
      destruct o; try congruence; cbn [traverse olist].
      - change ((k, v) :: olist VLR l ++ olist VLR r) with ([(k, v)] ++ olist VLR l ++ olist VLR r).
        rewrite vfold_app. apply andthen_ext; [intros; now rewrite vfold_one|].
        intros s'. rewrite vfold_app. apply andthen_ext; auto.
      - change ((k, v) :: olist VRL r ++ olist VRL l) with ([(k, v)] ++ olist VRL r ++ olist VRL l).
        rewrite vfold_app. apply andthen_ext; [intros; now rewrite vfold_one|].
        intros s'. rewrite vfold_app. apply andthen_ext; auto.
      - rewrite vfold_app. apply andthen_ext; auto. intros s'.
        change ((k, v) :: olist LVR r) with ([(k, v)] ++ olist LVR r).
        rewrite vfold_app. apply andthen_ext; auto. intros; now rewrite vfold_one.
      - rewrite vfold_app. apply andthen_ext; auto. intros s'.
        change ((k, v) :: olist RVL l) with ([(k, v)] ++ olist RVL l).
        rewrite vfold_app. apply andthen_ext; auto. intros; now rewrite vfold_one.
      - rewrite vfold_app. apply andthen_ext; auto. intros s'.
        rewrite vfold_app. apply andthen_ext; auto. intros; now rewrite vfold_one.
      - rewrite vfold_app. apply andthen_ext; auto. intros s'.
        rewrite vfold_app. apply andthen_ext; auto. intros; now rewrite vfold_one.
      - rewrite vfold_app. apply andthen_ext; auto. intros s'.
        change ((k, v) :: olist Ascending r) with ([(k, v)] ++ olist Ascending r).
        rewrite vfold_app. apply andthen_ext; auto. intros; now rewrite vfold_one.
      - rewrite vfold_app. apply andthen_ext; auto. intros s'.
        change ((k, v) :: olist Descending l) with ([(k, v)] ++ olist Descending l).
        rewrite vfold_app. apply andthen_ext; auto. intros; now rewrite vfold_one.
    Qed.
  End VF.

  Definition other_dec (o : order) : {o = OtherOrder} + {o <> OtherOrder}.
  Proof. destruct o; (left; reflexivity) || (right; discriminate). Defined.

  Lemma vfold_collect (l acc : amap) :
    vfold _ (fun k v acc => ((k, v) :: acc, true)) l acc = (rev l ++ acc, true).
  Proof.
    revert acc. induction l as [|[k v] l IH]; intros acc; simpl; [reflexivity|].
    rewrite IH. now rewrite <- app_assoc.
  Qed.

  Lemma trav_list_olist o (t : tree) : trav_list o t = olist o t.
  Proof.
    unfold trav_list. destruct (other_dec o) as [->|Ho].
    - destruct t; reflexivity.
    - rewrite traverse_vfold by auto. rewrite vfold_collect. simpl.
      now rewrite app_nil_r, rev_involutive.
  Qed.

  Lemma inorder_leaf : inorder (@Leaf K V) = [].
  Proof. reflexivity. Qed.

  Lemma inorder_node l k v s h c (r : tree) :
    inorder (Node l k v s h c r) = inorder l ++ (k, v) :: inorder r.
  Proof. unfold inorder. now rewrite !trav_list_olist. Qed.

  Lemma olist_LVR t : olist LVR t = olist Ascending t.
  Proof. induction t; simpl; congruence. Qed.
  Lemma olist_Desc t : olist Descending t = rev (olist Ascending t).
  Proof.
    induction t as [|l IHl k v s h c r IHr]; simpl; [reflexivity|].
    rewrite rev_app_distr. simpl. rewrite <- app_assoc. simpl. congruence.
  Qed.
  Lemma olist_RVL t : olist RVL t = olist Descending t.
  Proof. induction t; simpl; congruence. Qed.

  Lemma inorder_olist (t : tree) : inorder t = olist Ascending t.
  Proof. apply trav_list_olist. Qed.

  Lemma s_traverse_ok o (t : tree) :
    abstract_order o = true -> trav_list o t = s_traverse o (inorder t).
  Proof.
    rewrite trav_list_olist, inorder_olist.
    destruct o; simpl; try discriminate; intros _.
    - apply olist_LVR.
    - now rewrite olist_RVL, olist_Desc.
    - reflexivity.
    - apply olist_Desc.
    - destruct t; reflexivity.
  Qed.

  (** every traversal order lists the same entries *)
  Lemma olist_perm o (t : tree) : o <> OtherOrder -> Permutation (olist o t) (inorder t).
  Proof.
    intros Ho. rewrite inorder_olist.
    induction t as [|l IHl k v s h c r IHr]; [destruct o; constructor|].
    destruct o; try congruence; cbn [olist]; rewrite ?IHl, ?IHr.
    - apply Permutation_middle.
    - rewrite (Permutation_app_comm (olist Ascending r)). apply Permutation_middle.
    - reflexivity.
    - etransitivity; [apply Permutation_app_comm|]. simpl. apply Permutation_middle.
    - apply Permutation_app_head. apply Permutation_sym, Permutation_cons_append.
    - etransitivity; [apply Permutation_app_comm|]. rewrite <- app_assoc. reflexivity.
    - reflexivity.
    - etransitivity; [apply Permutation_app_comm|]. simpl. apply Permutation_middle.
  Qed.

  (** ** cached sizes *)
  Fixpoint sizes_ok (t : tree) : Prop :=
    match t with
    | Leaf => True
    | Node l _ _ s _ _ r => s = 1 + size l + size r /\ sizes_ok l /\ sizes_ok r
    end.

  Lemma size_length (t : tree) : sizes_ok t -> size t = Z.of_nat (length (inorder t)).
  Proof.
    induction t as [|l IHl k v s h c r IHr]; cbn [sizes_ok size]; [reflexivity|].
    intros [-> [Hl Hr]]. rewrite inorder_node, app_length. cbn [length].
    rewrite IHl, IHr by auto. lia.
  Qed.

  Lemma is_leaf_inorder (t : tree) : is_leaf t = match inorder t with [] => true | _ => false end.
  Proof.
    destruct t as [|l k v s h c r]; [reflexivity|]. rewrite inorder_node. simpl.
    destruct (inorder l); reflexivity.
  Qed.

  (** the two halves of a sorted node *)
  Lemma sorted_node l k v s h c (r : tree) :
    sorted cmp (inorder (Node l k v s h c r)) -> sorted cmp (inorder l) /\ sorted cmp (inorder r).
  Proof. rewrite inorder_node. intros H. apply (sorted_mid cmp TO) in H. tauto. Qed.

  (** ** Get *)
  Lemma get_ok (t : tree) x : sorted cmp (inorder t) -> get cmp t x = s_get cmp x (inorder t).
  Proof.
    induction t as [|l IHl k v s h c r IHr]; [reflexivity|].
    intros HS. destruct (sorted_node _ _ _ _ _ _ _ HS) as [Hl Hr].
    rewrite inorder_node in *. rewrite (s_get_mid cmp TO _ _ _ _ HS). simpl.
    rewrite IHl, IHr by auto. reflexivity.
  Qed.

  (** ** Min / Max *)
  Lemma min_node_ok (t : tree) :
    t <> Leaf -> exists m, min_node t = Ok m /\ s_min (inorder t) = Some m.
  Proof.
    induction t as [|l IHl k v s h c r _]; [congruence|]. intros _.
    rewrite inorder_node. destruct l as [|ll lk lv ls lh lc lr].
    - exists (k, v). split; reflexivity.
    - destruct IHl as [m [H1 H2]]; [discriminate|]. exists m. split; [exact H1|].
      unfold s_min in *. rewrite hd_error_app.
      destruct (inorder (Node ll lk lv ls lh lc lr)); [discriminate|exact H2].
  Qed.

  Lemma max_node_ok (t : tree) :
    t <> Leaf -> exists m, max_node t = Ok m /\ s_max (inorder t) = Some m.
  Proof.
    induction t as [|l _ k v s h c r IHr]; [congruence|]. intros _.
    rewrite inorder_node. unfold s_max. rewrite last_error_app.
    destruct r as [|rl rk rv rs rh rc rr].
    - exists (k, v). split; reflexivity.
    - destruct IHr as [m [H1 H2]]; [discriminate|]. exists m. split; [exact H1|].
      rewrite last_error_cons. unfold s_max in H2.
      destruct (inorder (Node rl rk rv rs rh rc rr)); [discriminate|exact H2].
  Qed.

  Lemma Min_ok (t : tree) : Min t = Ok (s_min (inorder t)).
  Proof.
    unfold Min. destruct t as [|l k v s h c r]; [reflexivity|]. cbn [is_leaf].
    destruct (min_node_ok (Node l k v s h c r)) as [m [H1 H2]]; [discriminate|].
    rewrite H1, H2. reflexivity.
  Qed.

  Lemma Max_ok (t : tree) : Max t = Ok (s_max (inorder t)).
  Proof.
    unfold Max. destruct t as [|l k v s h c r]; [reflexivity|]. cbn [is_leaf].
    destruct (max_node_ok (Node l k v s h c r)) as [m [H1 H2]]; [discriminate|].
    rewrite H1, H2. reflexivity.
  Qed.

  (** ** Floor / Ceiling *)
  Lemma floor_ok (t : tree) x : sorted cmp (inorder t) -> floor cmp t x = s_floor cmp x (inorder t).
  Proof.
    induction t as [|l IHl k v s h c r IHr]; [reflexivity|].
    intros HS. destruct (sorted_node _ _ _ _ _ _ _ HS) as [Hl Hr].
    rewrite inorder_node in *. rewrite (s_floor_mid cmp TO _ _ _ _ HS). simpl.
    rewrite IHl, IHr by auto. reflexivity.
  Qed.

  Lemma ceiling_ok (t : tree) x : sorted cmp (inorder t) -> ceiling cmp t x = s_ceiling cmp x (inorder t).
  Proof.
    induction t as [|l IHl k v s h c r IHr]; [reflexivity|].
    intros HS. destruct (sorted_node _ _ _ _ _ _ _ HS) as [Hl Hr].
    rewrite inorder_node in *. rewrite (s_ceiling_mid cmp TO _ _ _ _ HS). simpl.
    rewrite IHl, IHr by auto. reflexivity.
  Qed.

  (** ** Rank / Select *)
  Lemma rank_ok (t : tree) x :
    sorted cmp (inorder t) -> sizes_ok t -> rank cmp t x = s_rank cmp x (inorder t).
  Proof.
    induction t as [|l IHl k v s h c r IHr]; [reflexivity|].
    intros HS [_ [Sl Sr]]. destruct (sorted_node _ _ _ _ _ _ _ HS) as [Hl Hr].
    rewrite inorder_node in *. rewrite (s_rank_mid cmp TO _ _ _ _ HS). simpl.
    rewrite IHl, IHr by auto. rewrite (size_length l) by auto. reflexivity.
  Qed.

  Lemma select_ok (t : tree) i : sizes_ok t -> select t i = s_select i (inorder t).
  Proof.
    revert i. induction t as [|l IHl k v s h c r IHr]; intros i.
    - intros _. unfold s_select. simpl. destruct (i <? 0); [reflexivity|]. now destruct (Z.to_nat i).
    - intros [_ [Sl Sr]]. rewrite inorder_node. simpl.
      rewrite (size_length l) by auto. rewrite IHl, IHr by auto. unfold s_select.
      set (n := length (inorder l)).
      destruct (Z.ltb_spec i (Z.of_nat n)) as [H|H].
      + destruct (Z.ltb_spec i 0); [reflexivity|].
        rewrite nth_error_app1 by (unfold n in *; lia). reflexivity.
      + destruct (Z.ltb_spec i 0); [lia|].
        destruct (Z.ltb_spec (Z.of_nat n) i) as [H2|H2].
        * destruct (Z.ltb_spec (i - Z.of_nat n - 1) 0); [lia|].
          rewrite nth_error_app2 by (unfold n in *; lia).
          replace (Z.to_nat i - length (inorder l))%nat with (S (Z.to_nat (i - Z.of_nat n - 1))) by (unfold n; lia).
          reflexivity.
        * rewrite nth_error_app2 by (unfold n in *; lia).
          replace (Z.to_nat i - length (inorder l))%nat with O by (unfold n in *; lia). reflexivity.
  Qed.

  Lemma Select_ok (t : tree) i : sizes_ok t -> Select t i = Ok (s_select i (inorder t)).
  Proof.
    intros HS. unfold Select. rewrite select_ok by auto. rewrite (size_length t) by auto.
    unfold s_select. destruct (Z.ltb_spec i 0); [reflexivity|]. simpl.
    destruct (Z.leb_spec (Z.of_nat (length (inorder t))) i) as [H1|H1].
    - replace (nth_error (inorder t) (Z.to_nat i)) with (@None (K * V)); [reflexivity|].
      symmetry. apply nth_error_None. lia.
    - destruct (nth_error (inorder t) (Z.to_nat i)) eqn:E; [reflexivity|].
      apply nth_error_None in E. lia.
  Qed.

  (** ** Range / RangeSize *)
  Lemma range_go_ok (t : tree) lo hi :
    sorted cmp (inorder t) ->
    range_go cmp t lo hi = (s_range cmp lo hi (inorder t), Z.of_nat (length (s_range cmp lo hi (inorder t)))).
  Proof.
    induction t as [|l IHl k v s h c r IHr]; [reflexivity|].
    intros HS. destruct (sorted_node _ _ _ _ _ _ _ HS) as [Hl Hr].
    rewrite inorder_node in *. rewrite (s_range_mid cmp TO _ _ _ _ HS). simpl.
    rewrite IHl, IHr by auto.
    destruct (cmp lo k <? 0), ((cmp lo k <=? 0) && (0 <=? cmp hi k)), (0 <? cmp hi k);
      f_equal; rewrite ?app_length; simpl length; lia.
  Qed.

  Lemma Range_ok (t : tree) lo hi : sorted cmp (inorder t) -> Range cmp t lo hi = s_range cmp lo hi (inorder t).
  Proof.
    intros HS. unfold Range. rewrite range_go_ok by auto. rewrite Nat2Z.id. apply firstn_all.
  Qed.

  (** counting on sorted lists: |lo..hi| = rank hi - rank lo (+1 when hi is present) *)
  Lemma count_le_split (l : amap) lo hi :
    cmp lo hi <= 0 ->
    Z.of_nat (length (s_range cmp lo hi l)) =
    Z.of_nat (length (filter (fun e => 0 <=? cmp hi (fst e)) l)) - s_rank cmp lo l.
  Proof.
    intros Hlh. unfold s_range, s_rank. induction l as [|[k v] l IH]; [reflexivity|]. simpl fst in *. simpl filter.
    destruct (Z.leb_spec (cmp lo k) 0) as [H1|H1]; destruct (Z.leb_spec 0 (cmp hi k)) as [H2|H2];
      destruct (Z.ltb_spec 0 (cmp lo k)) as [H3|H3]; try lia; simpl andb; cbv iota; simpl length; try lia.
    exfalso.
    (* lo > k and hi < k contradict lo <= hi *)
    assert (cmp k lo < 0) by (now apply (cmp_gt_lt cmp TO)).
    assert (cmp hi k < 0) by lia.
    assert (cmp hi lo < 0) by (eapply (lt_trans cmp TO); eauto).
    apply (cmp_antisym TO) in H4. lia.
  Qed.

  Lemma count_le_lt (l : amap) x :
    sorted cmp l ->
    Z.of_nat (length (filter (fun e => 0 <=? cmp x (fst e)) l)) =
    s_rank cmp x l + match s_get cmp x l with Some _ => 1 | None => 0 end.
  Proof.
    unfold s_rank. induction l as [|[k v] l IH]; [reflexivity|]. intros [Hk Hl]. simpl fst in *. simpl.
    destruct (Z.eqb_spec (cmp x k) 0) as [E|E].
    - destruct (Z.leb_spec 0 (cmp x k)); [|lia]. destruct (Z.ltb_spec 0 (cmp x k)); [lia|].
      assert (Hn : Forall (fun e => cmp x (fst e) < 0) l).
      { eapply Forall_impl; [|exact Hk]. simpl. intros e He. eapply (le_lt_trans cmp TO); eauto. }
      rewrite (filter_none _ l), (filter_none _ l); [simpl; lia| |];
        (eapply Forall_impl; [|exact Hn]; simpl; intros e He).
      + destruct (Z.ltb_spec 0 (cmp x (fst e))); auto; lia.
      + destruct (Z.leb_spec 0 (cmp x (fst e))); auto; lia.
    - specialize (IH Hl).
      destruct (Z.leb_spec 0 (cmp x k)), (Z.ltb_spec 0 (cmp x k)); try lia; simpl length; lia.
  Qed.

  Lemma range_empty (l : amap) lo hi : 0 < cmp lo hi -> s_range cmp lo hi l = [].
  Proof.
    intros H. unfold s_range. apply filter_none. apply Forall_forall. intros [k v] _. simpl.
    destruct (Z.leb_spec (cmp lo k) 0) as [H1|H1]; [|reflexivity].
    destruct (Z.leb_spec 0 (cmp hi k)) as [H2|H2]; [|reflexivity]. exfalso.
    assert (cmp k hi <= 0) by (now apply (cmp_le_ge cmp TO)).
    assert (cmp lo hi <= 0) by (eapply (cmp_trans TO); eauto). lia.
  Qed.

  Lemma RangeSize_ok (t : tree) lo hi :
    sorted cmp (inorder t) -> sizes_ok t -> RangeSize cmp t lo hi = s_rangeSize cmp lo hi (inorder t).
  Proof.
    intros HS HZ. unfold RangeSize, s_rangeSize.
    destruct (Z.ltb_spec 0 (cmp lo hi)) as [H|H].
    - now rewrite range_empty.
    - rewrite count_le_split by lia. rewrite count_le_lt by auto.
      rewrite get_ok, !rank_ok by auto. destruct (s_get cmp hi (inorder t)); lia.
  Qed.

  (** ** predicates over the entries: AnyMatch / AllMatch / FirstMatch / Equal / early exit *)
  Lemma vfold_test (f : K -> V -> bool) (l : amap) :
    vfold unit (fun k v s => (s, f k v)) l tt = (tt, forallb (fun e => f (fst e) (snd e)) l).
  Proof.
    induction l as [|[k v] l IH]; simpl; [reflexivity|]. destruct (f k v); [exact IH|reflexivity].
  Qed.

  Lemma forallb_perm {A} (f : A -> bool) l l' : Permutation l l' -> forallb f l = forallb f l'.
  Proof.
    induction 1; simpl; auto.
    - now rewrite IHPermutation.
    - destruct (f x), (f y); reflexivity.
    - congruence.
  Qed.

  Lemma forallb_eq {A} (f g : A -> bool) l : (forall a, f a = g a) -> forallb f l = forallb g l.
  Proof. intros H. induction l; simpl; [auto|]. now rewrite H, IHl. Qed.

  Lemma negb_forallb_negb {A} (f : A -> bool) l : negb (forallb (fun a => negb (f a)) l) = existsb f l.
  Proof. induction l; simpl; [reflexivity|]. rewrite negb_andb, negb_involutive. now rewrite IHl. Qed.

  Lemma all_match_ok (p : K -> V -> bool) (t : tree) : all_match p t = forallb (holds p) (inorder t).
  Proof.
    unfold all_match. rewrite traverse_vfold by discriminate. rewrite vfold_test. simpl.
    apply forallb_perm, olist_perm. discriminate.
  Qed.

  Lemma any_match_ok (p : K -> V -> bool) (t : tree) : any_match p t = existsb (holds p) (inorder t).
  Proof.
    unfold any_match. rewrite traverse_vfold by discriminate. rewrite vfold_test. simpl.
    assert (HP : Permutation (olist VLR t) (inorder t)) by (apply olist_perm; discriminate).
    rewrite (forallb_perm _ _ _ HP).
    apply (negb_forallb_negb (holds p)).
  Qed.

  Lemma vfold_find (p : K -> V -> bool) (l : amap) :
    fst (vfold (option (K * V)) (fun k v s => if p k v then (Some (k, v), false) else (s, true)) l None)
    = find (holds p) l.
  Proof.
    induction l as [|[k v] l IH]; simpl; [reflexivity|]. unfold holds at 1. simpl.
    destruct (p k v); [reflexivity|exact IH].
  Qed.

  Lemma first_match_olist (p : K -> V -> bool) (t : tree) : first_match p t = find (holds p) (olist VLR t).
  Proof. unfold first_match. rewrite traverse_vfold by discriminate. apply vfold_find. Qed.

  (** FirstMatch: a held pair satisfying the predicate iff one exists *)
  Lemma first_match_ok (p : K -> V -> bool) (t : tree) :
    match first_match p t with
    | Some e => In e (inorder t) /\ holds p e = true
    | None => forall e, In e (inorder t) -> holds p e = false
    end.
  Proof.
    rewrite first_match_olist.
    assert (HP : Permutation (olist VLR t) (inorder t)) by (apply olist_perm; discriminate).
    destruct (find (holds p) (olist VLR t)) as [e|] eqn:E.
    - apply find_some in E. destruct E as [E1 E2]. split; [|exact E2]. eapply Permutation_in; eauto.
    - intros e He. eapply find_none in E; [exact E|]. eapply Permutation_in; [symmetry; exact HP|exact He].
  Qed.

  Lemma vfold_stop (l : amap) c acc :
    snd (fst (vfold (nat * amap)
      (fun k v '(c, acc) => match c with O => ((O, acc), false) | S c' => ((c', (k, v) :: acc), true) end)
      l (c, acc))) = rev (firstn c l) ++ acc.
  Proof.
    revert c acc. induction l as [|[k v] l IH]; intros c acc; simpl.
    - now rewrite firstn_nil.
    - destruct c as [|c']; [reflexivity|]. rewrite IH. simpl. now rewrite <- app_assoc.
  Qed.

  Lemma trav_stop_ok o j (t : tree) :
    abstract_order o = true -> trav_stop o j t = firstn j (s_traverse o (inorder t)).
  Proof.
    intros Ho. rewrite <- s_traverse_ok by auto. rewrite trav_list_olist. unfold trav_stop.
    destruct (other_dec o) as [->|Hn].
    - destruct t; simpl; now rewrite ?firstn_nil.
    - rewrite traverse_vfold by auto. rewrite vfold_stop. now rewrite app_nil_r, rev_involutive.
  Qed.

  Lemma Equal_ok (eqv : V -> V -> bool) (t t2 : tree) :
    sorted cmp (inorder t) -> sorted cmp (inorder t2) ->
    Equal cmp eqv t t2 = s_equal cmp eqv (inorder t) (inorder t2).
  Proof.
    intros H1 H2. unfold Equal, s_equal, s_sub.
    rewrite !traverse_vfold by discriminate. rewrite !vfold_test. simpl. rewrite <- !inorder_olist.
    f_equal; apply forallb_eq; intros e; now rewrite get_ok.
  Qed.

  Lemma vfold_calls (l : amap) c calls :
    snd (fst (vfold (nat * nat)
      (fun k v '(c, calls) => match c with O => ((O, S calls), false) | S c' => ((c', S calls), true) end)
      l (c, calls))) = (calls + Nat.min (S c) (length l))%nat.
  Proof.
    revert c calls. induction l as [|[k v] l IH]; intros c calls; simpl.
    - lia.
    - destruct c as [|c']; [simpl; lia|]. rewrite IH. simpl. lia.
  Qed.

  (** the visitor is called once per accepted pair and once more to say stop (if anything is left) *)
  Lemma trav_stop_calls_ok o j (t : tree) :
    trav_stop_calls o j t = Nat.min (S j) (length (trav_list o t)).
  Proof.
    rewrite trav_list_olist. unfold trav_stop_calls. destruct (other_dec o) as [->|Hn].
    - destruct t; reflexivity.
    - rewrite traverse_vfold by auto. now rewrite vfold_calls.
  Qed.

  (** early exit in any traversal order: the visitor sees a prefix of the full listing *)
  Lemma trav_stop_prefix o j (t : tree) : trav_stop o j t = firstn j (trav_list o t).
  Proof.
    rewrite trav_list_olist. unfold trav_stop. destruct (other_dec o) as [->|Hn].
    - destruct t; simpl; now rewrite ?firstn_nil.
    - rewrite traverse_vfold by auto. rewrite vfold_stop. now rewrite app_nil_r, rev_involutive.
  Qed.

  (** ** what Equal means when values are compared by Leibniz equality and the order is antisymmetric *)
  Lemma s_get_In x (l : amap) w : s_get cmp x l = Some w -> exists k', In (k', w) l /\ cmp x k' = 0.
  Proof.
    induction l as [|[k v] l IH]; cbn [s_get]; [discriminate|].
    destruct (Z.eqb_spec (cmp x k) 0) as [E|E].
    - intros [= <-]. exists k. split; [left; reflexivity|exact E].
    - intros H. destruct (IH H) as [k' [H1 H2]]. exists k'. split; [right; exact H1|exact H2].
  Qed.

  Lemma s_get_self (l : amap) k v : sorted cmp l -> In (k, v) l -> s_get cmp k l = Some v.
  Proof.
    induction l as [|[k0 v0] l IH]; cbn [s_get sorted]; [intros _ []|]. intros [H1 H2] [E|Hin].
    - inversion E; subst. now rewrite (cmp_refl TO), Z.eqb_refl.
    - rewrite Forall_forall in H1. specialize (H1 _ Hin). cbn [fst] in H1.
      destruct (Z.eqb_spec (cmp k k0) 0) as [E|E]; [|auto].
      apply (cmp_eq_sym cmp TO) in E. lia.
  Qed.

  Lemma s_equal_iff (eqv : V -> V -> bool) (l1 l2 : amap) :
    (forall a b, eqv a b = true <-> a = b) -> (forall a b, cmp a b = 0 -> a = b) ->
    sorted cmp l1 -> sorted cmp l2 ->
    (s_equal cmp eqv l1 l2 = true <-> l1 = l2).
  Proof.
    intros He Ha S1 S2. split.
    - unfold s_equal, s_sub. intros H. apply andb_true_iff in H. destruct H as [H1 H2].
      rewrite forallb_forall in H1, H2.
      assert (sub : forall la lb, (forall x, In x la ->
                  match s_get cmp (fst x) lb with Some v2 => eqv (snd x) v2 | None => false end = true) ->
                forall e, In e la -> In e lb).
      { intros la lb H [k v] Hin. specialize (H _ Hin). cbn [fst snd] in H.
        destruct (s_get cmp k lb) as [w|] eqn:E; [|discriminate]. apply He in H. subst w.
        destruct (s_get_In _ _ _ E) as [k' [I1 I2]]. apply Ha in I2. now subst k'. }
      apply (sorted_unique cmp TO); auto. intros e. split; [apply (sub l1 l2 H1)|apply (sub l2 l1 H2)].
    - intros <-. unfold s_equal, s_sub.
      assert (forallb (fun e => match s_get cmp (fst e) l1 with Some v2 => eqv (snd e) v2 | None => false end) l1 = true).
      { apply forallb_forall. intros [k v] Hin. cbn [fst snd]. rewrite (s_get_self l1 k v S1 Hin). now apply He. }
      now rewrite H.
  Qed.

End Q.
