(** C01 — from mutator lemmas to whole histories: if the mutators of an implementation keep an
    invariant (which implies a sorted listing and exact sizes) and refine the abstract
    mutators, then every history of mutators and abstract queries produces exactly the outputs
    of the sorted association list. *)
From Algo.C01 Require Import Model Spec SpecFacts ProofsQuery.
From Coq Require Import Lia Permutation.
Open Scope Z_scope.
Arguments inorder {K V} n : simpl never.

Section Run.
  Context {K V : Type}.
  Variable cmp : K -> K -> Z.
  Variable eqv : V -> V -> bool.
  Hypothesis TO : TotalOrder cmp.
  Variable i : impl.
  Variable Inv : tree K V -> Prop.
  Variable allowed : mut K V -> bool.

  Notation tree := (tree K V).
  Notation amap := (list (K * V)).

  Record Refines : Prop := {
    inv_leaf : Inv Leaf;
    inv_sorted : forall t, Inv t -> sorted cmp (inorder t);
    inv_sizes : forall t, Inv t -> sizes_ok t;
    put_allowed : forall k v, allowed (MPut k v) = true;
    mut_ok : forall t m, Inv t -> allowed m = true ->
      exists t', mutate cmp i t m = Ok (t', snd (s_mutate cmp (inorder t) m)) /\
                 inorder t' = fst (s_mutate cmp (inorder t) m) /\ Inv t'
  }.
  Hypothesis R : Refines.

  Definition query_allowed (q : query K V) : bool :=
    match q with QEqual h => forallb allowed h | _ => true end.
  Definition op_allowed (o : op K V) : bool :=
    match o with M m => allowed m | Q q => query_allowed q end.

  Lemma build_from_ok h : forall t,
    Inv t -> forallb allowed h = true ->
    exists t', build_from cmp i t h = Ok t' /\ inorder t' = s_build_from cmp (inorder t) h /\ Inv t'.
  Proof.
    induction h as [|m h IH]; intros t HI HA; simpl.
    - exists t. auto.
    - apply andb_true_iff in HA. destruct HA as [Hm Hh].
      destruct (mut_ok R t m HI Hm) as [t1 [E1 [E2 I1]]]. rewrite E1. cbn [bind].
      destruct (IH t1 I1 Hh) as [t' [E3 [E4 I2]]]. exists t'. rewrite E3, E4, E2. auto.
  Qed.

  (** SelectMatch / PartitionMatch: a fold of Put over the pre-order listing *)
  Lemma put_fold (f : K * V -> bool) (es : amap) : forall t0,
    Inv t0 ->
    exists t', fold_left (fun (s : res tree) e => if f e then (do t <- s ;; Put cmp i t (fst e) (snd e)) else s)
                         es (Ok t0) = Ok t' /\
               inorder t' = s_put_all cmp (filter f es) (inorder t0) /\ Inv t'.
  Proof.
    induction es as [|[k v] es IH]; intros t0 HI; simpl.
    - exists t0. auto.
    - destruct (f (k, v)) eqn:Ef.
      + destruct (mut_ok R t0 (MPut k v) HI (put_allowed R k v)) as [t1 [E1 [E2 I1]]].
        cbn [mutate s_mutate fst snd] in *.
        destruct (Put cmp i t0 k v) as [t1'| |] eqn:EP; cbn [bind] in E1; try discriminate.
        inversion E1; subst t1'. cbn [bind fst snd].
        destruct (IH t1 I1) as [t' [E3 [E4 I2]]]. exists t'. rewrite E3, E4, E2. auto.
      + apply IH. exact HI.
  Qed.

  Lemma vfold_select (p : K -> V -> bool) (es : amap) (s : res tree) :
    vfold (res tree) (fun k v s => ((if p k v then (do t <- s ;; Put cmp i t k v) else s), true)) es s =
    (fold_left (fun (s : res tree) e => if holds p e then (do t <- s ;; Put cmp i t (fst e) (snd e)) else s) es s, true).
  Proof.
    revert s. induction es as [|[k v] es IH]; intros s; simpl; [reflexivity|]. now rewrite IH.
  Qed.

  (** the selection is a table of its own: it satisfies the invariant, too *)
  Lemma SelectMatch_inv p (t : tree) :
    Inv t -> exists t', SelectMatch cmp i p t = Ok t' /\ inorder t' = filter (holds p) (inorder t) /\ Inv t'.
  Proof.
    intros HI. unfold SelectMatch. rewrite traverse_vfold by discriminate. rewrite vfold_select. cbn [fst].
    destruct (put_fold (holds p) (olist VLR t) Leaf (inv_leaf R)) as [t' [E1 [E2 I2]]].
    exists t'. split; [exact E1|]. split; [|exact I2]. rewrite E2. rewrite inorder_leaf.
    apply (s_put_all_filter cmp TO); [now apply (inv_sorted R)|]. apply olist_perm. discriminate.
  Qed.

  Lemma SelectMatch_ok p (t : tree) :
    Inv t -> exists t', SelectMatch cmp i p t = Ok t' /\ inorder t' = filter (holds p) (inorder t).
  Proof. intros HI. destruct (SelectMatch_inv p t HI) as [t' [E1 [E2 _]]]. eauto. Qed.

  Lemma vfold_partition (p : K -> V -> bool) (es : amap) (a b : res tree) :
    vfold (res tree * res tree)
      (fun k v '(m, u) => ((if p k v then ((do t <- m ;; Put cmp i t k v), u)
                            else (m, (do t <- u ;; Put cmp i t k v))), true)) es (a, b) =
    ((fold_left (fun (s : res tree) e => if holds p e then (do t <- s ;; Put cmp i t (fst e) (snd e)) else s) es a,
      fold_left (fun (s : res tree) e => if negb (holds p e) then (do t <- s ;; Put cmp i t (fst e) (snd e)) else s) es b), true).
  Proof.
    revert a b. induction es as [|[k v] es IH]; intros a b; simpl; [reflexivity|].
    change (holds p (k, v)) with (p k v). destruct (p k v); cbn [negb]; now rewrite IH.
  Qed.

  Lemma PartitionMatch_inv p (t : tree) :
    Inv t -> exists ta tb, PartitionMatch cmp i p t = (Ok ta, Ok tb) /\
                           inorder ta = filter (holds p) (inorder t) /\
                           inorder tb = filter (fun e => negb (holds p e)) (inorder t) /\ Inv ta /\ Inv tb.
  Proof.
    intros HI. unfold PartitionMatch. rewrite traverse_vfold by discriminate. rewrite vfold_partition. cbn [fst].
    destruct (put_fold (holds p) (olist VLR t) Leaf (inv_leaf R)) as [ta [A1 [A2 A3]]].
    destruct (put_fold (fun e => negb (holds p e)) (olist VLR t) Leaf (inv_leaf R)) as [tb [B1 [B2 B3]]].
    exists ta, tb. rewrite A1, B1. split; [reflexivity|]. rewrite A2, B2, inorder_leaf.
    split; [|split; [|auto]]; apply (s_put_all_filter cmp TO); try (now apply (inv_sorted R)); apply olist_perm; discriminate.
  Qed.

  Lemma PartitionMatch_ok p (t : tree) :
    Inv t -> exists ta tb, PartitionMatch cmp i p t = (Ok ta, Ok tb) /\
                           inorder ta = filter (holds p) (inorder t) /\
                           inorder tb = filter (fun e => negb (holds p e)) (inorder t).
  Proof. intros HI. destruct (PartitionMatch_inv p t HI) as (ta & tb & E1 & E2 & E3 & _). eauto. Qed.

  Lemma ask_ok (t : tree) q :
    Inv t -> abstract_query q = true -> query_allowed q = true ->
    ask cmp eqv i t q = Ok (s_ask cmp eqv (inorder t) q).
  Proof.
    intros HI HA HQ. pose proof (inv_sorted R t HI) as HS. pose proof (inv_sizes R t HI) as HZ.
    destruct q; cbn [ask s_ask]; try discriminate.
    - now rewrite (size_length t HZ).
    - now rewrite is_leaf_inorder.
    - now rewrite (get_ok cmp TO).
    - now rewrite Min_ok.
    - now rewrite Max_ok.
    - now rewrite (floor_ok cmp TO).
    - now rewrite (ceiling_ok cmp TO).
    - now rewrite Select_ok.
    - now rewrite (rank_ok cmp TO).
    - now rewrite (Range_ok cmp TO).
    - now rewrite (RangeSize_ok cmp TO).
    - reflexivity.
    - cbn [abstract_query] in HA. now rewrite s_traverse_ok.
    - cbn [query_allowed] in HQ. unfold build.
      destruct (build_from_ok h Leaf (inv_leaf R) HQ) as [t2 [E1 [E2 I2]]]. rewrite E1. cbn [bind].
      rewrite (Equal_ok cmp TO) by (auto; now apply (inv_sorted R)). now rewrite E2.
    - now rewrite any_match_ok.
    - now rewrite all_match_ok.
    - destruct (SelectMatch_ok p t HI) as [t' [E1 E2]]. rewrite E1. cbn [bind]. now rewrite E2.
    - destruct (PartitionMatch_ok p t HI) as [ta [tb [E1 [E2 E3]]]]. rewrite E1. cbn [bind]. now rewrite E2, E3.
    - cbn [abstract_query] in HA. rewrite trav_stop_ok, trav_stop_calls_ok, s_traverse_ok by auto. reflexivity.
  Qed.

  Lemma run_from_ok ops : forall t,
    Inv t -> forallb abstract_op ops = true -> forallb op_allowed ops = true ->
    run_from cmp eqv i t ops = map Ok (s_run_from cmp eqv (inorder t) ops).
  Proof.
    induction ops as [|o ops IH]; intros t HI HA HO; [reflexivity|].
    cbn [forallb] in HA, HO. apply andb_true_iff in HA, HO. destruct HA as [Ha HA], HO as [Ho HO].
    cbn [run_from s_run_from]. destruct o as [m|q]; cbn [step s_step].
    - destruct (mut_ok R t m HI Ho) as [t' [E1 [E2 I1]]]. rewrite E1.
      destruct (s_mutate cmp (inorder t) m) as [l' x]. cbn [fst snd map] in *. rewrite IH by auto. now rewrite E2.
    - rewrite ask_ok by auto. cbn [bind map]. now rewrite IH.
  Qed.

  Theorem run_ok ops :
    forallb abstract_op ops = true -> forallb op_allowed ops = true ->
    run cmp eqv i ops = map Ok (spec_run cmp eqv ops).
  Proof. intros. unfold run, spec_run. rewrite run_from_ok; auto. apply (inv_leaf R). Qed.

  (** the history continues ON the table returned by SelectMatch / PartitionMatch *)
  Theorem selection_continues h p h2 ops :
    forallb allowed h = true -> forallb allowed h2 = true ->
    forallb abstract_op ops = true -> forallb op_allowed ops = true ->
    exists t t' t'', build cmp i h = Ok t /\ SelectMatch cmp i p t = Ok t' /\
      build_from cmp i t' h2 = Ok t'' /\ Inv t'' /\
      inorder t'' = s_build_from cmp (filter (holds p) (s_build cmp h)) h2 /\
      run_from cmp eqv i t'' ops = map Ok (s_run_from cmp eqv (inorder t'') ops).
  Proof.
    intros H1 H2 H3 H4.
    destruct (build_from_ok h Leaf (inv_leaf R) H1) as [t [E1 [E2 I1]]].
    destruct (SelectMatch_inv p t I1) as [t' [F1 [F2 I2]]].
    destruct (build_from_ok h2 t' I2 H2) as [t'' [G1 [G2 I3]]].
    exists t, t', t''. split; [exact E1|]. split; [exact F1|]. split; [exact G1|]. split; [exact I3|].
    split; [rewrite G2, F2, E2; reflexivity|]. now apply run_from_ok.
  Qed.

  Theorem partition_continues h p (second : bool) h2 ops :
    forallb allowed h = true -> forallb allowed h2 = true ->
    forallb abstract_op ops = true -> forallb op_allowed ops = true ->
    exists t ta tb t'', build cmp i h = Ok t /\ PartitionMatch cmp i p t = (Ok ta, Ok tb) /\
      build_from cmp i (if second then tb else ta) h2 = Ok t'' /\ Inv t'' /\
      inorder t'' = s_build_from cmp (filter (fun e => if second then negb (holds p e) else holds p e) (s_build cmp h)) h2 /\
      run_from cmp eqv i t'' ops = map Ok (s_run_from cmp eqv (inorder t'') ops).
  Proof.
    intros H1 H2 H3 H4.
    destruct (build_from_ok h Leaf (inv_leaf R) H1) as [t [E1 [E2 I1]]].
    destruct (PartitionMatch_inv p t I1) as (ta & tb & F1 & F2 & F3 & Ia & Ib).
    assert (Ix : Inv (if second then tb else ta)) by (destruct second; assumption).
    destruct (build_from_ok h2 _ Ix H2) as [t'' [G1 [G2 I3]]].
    exists t, ta, tb, t''. split; [exact E1|]. split; [exact F1|]. split; [exact G1|]. split; [exact I3|].
    split; [|now apply run_from_ok].
    rewrite G2. destruct second; [rewrite F3|rewrite F2]; rewrite E2; reflexivity.
  Qed.

  (** the table reached by a history of mutators *)
  Theorem build_ok h :
    forallb allowed h = true ->
    exists t, build cmp i h = Ok t /\ inorder t = s_build cmp h /\ Inv t.
  Proof. intros. apply (build_from_ok h Leaf); auto. apply (inv_leaf R). Qed.

End Run.
