(** C01 / C15 — left-leaning red-black tree: Delete, DeleteMin, DeleteMax.
    Invariant of the descent: the current node is red, or its left child is red (or, on the
    right descent only, it is black with a red right child produced by moveRedRight). *)
From Algo.C01 Require Import Model Spec SpecFacts ProofsQuery ProofsRun ProofsBST ProofsRB.
From Coq Require Import Lia.
Open Scope Z_scope.
Arguments inorder {K V} n : simpl never.
Local Opaque Z.add Z.sub.

Section RBDel.
  Context {K V : Type}.
  Variable cmp : K -> K -> Z.
  Hypothesis TO : TotalOrder cmp.

  Notation tree := (tree K V).

  Ltac rb_eval :=
    repeat (cbn [tl tr isRed negb andb bind rb_rotateLeft rb_rotateRight rb_flip set_size];
            try match goal with
                | H : isRed ?x = _ |- context [isRed ?x] => rewrite H
                end).

  Ltac rbt_inv :=
    repeat match goal with
           | H : rbt Leaf _ |- _ => inversion H; subst; clear H
           | H : rbt (Node _ _ _ _ _ _ _) _ |- _ => inversion H; subst; clear H
           | H : isRed (Node _ _ _ _ _ _ _) = _ |- _ => cbn [isRed] in H; try discriminate H
           end.

  Ltac bh_norm :=
    repeat match goal with
           | H : rbt _ ?n |- _ =>
               lazymatch goal with
               | _ : 0 <= n |- _ => fail
               | _ => pose proof (rbt_nonneg _ _ H)
               end
           end;
    repeat match goal with
           | H : ?a + 1 = ?b + 1 |- _ => assert (a = b) by lia; clear H; subst
           | H : ?a + 1 = 0 |- _ => exfalso; lia
           | H : 0 = ?a + 1 |- _ => exfalso; lia
           end.

  Ltac rbt_build := repeat (first [assumption | reflexivity | econstructor]).

  (** ** [balance] in the two kinds of context *)

  (** black node, children of equal black height and any colours *)
  Lemma balance_black (l : tree) k v s h (r : tree) m :
    rbt l m -> rbt r m ->
    exists t', rb_balance (Node l k v s h false r) = Ok t' /\ rbt t' (m + 1) /\
               (isRed l = false \/ isRed r = false -> isRed t' = false).
  Proof.
    intros Hl Hr. unfold rb_balance.
    destruct r as [|rl rk rv rs rh [] rr];
      destruct l as [|[|lll llk llv lls llh [] llr] lk lv ls lh [] lr]; rbt_inv; bh_norm; rb_eval;
      (eexists; split; [reflexivity|]); (split; [rbt_build|]); cbn [isRed]; intuition congruence.
  Qed.

  (** red node with black-rooted children: nothing moves *)
  Lemma balance_red (l : tree) k v s h (r : tree) n :
    rbt l n -> isRed l = false -> rbt r n -> isRed r = false ->
    exists t', rb_balance (Node l k v s h true r) = Ok t' /\ rbt t' n.
  Proof.
    intros Hl Bl Hr Br. unfold rb_balance.
    destruct l as [|ll lk lv ls lh [] lr]; try discriminate; rb_eval;
      (eexists; split; [reflexivity|]); rbt_build.
  Qed.
  (** ** preconditions of the descents *)
  Definition leftpre (t : tree) (n : Z) : Prop := rbt t n /\ (isRed t = true \/ isRed (tl t) = true).

  (** black node with a black-rooted left child and a red right child (made by moveRedRight) *)
  Definition cform (t : tree) (n : Z) : Prop :=
    match t with
    | Node l _ _ _ _ false r => exists m, n = m + 1 /\ rbt l m /\ isRed l = false /\ rbt r m /\ isRed r = true
    | _ => False
    end.

  Definition rightpre (t : tree) (n : Z) : Prop := leftpre t n \/ cform t n.

  (** what the caller may plug back into the hole, and what [balance] then yields *)
  Definition closes (t : tree) (n : Z) (hole : tree) (m1 : Z) (plug : tree -> tree) : Prop :=
    forall x, rbt x m1 -> (isRed hole = false -> isRed x = false) ->
      exists t', rb_balance (plug x) = Ok t' /\ rbt t' n /\ (isRed t = false -> isRed t' = false).

  Lemma In_inorder_node e l k v s h c (r : tree) :
    In e (inorder (Node l k v s h c r)) <-> In e (inorder l) \/ e = (k, v) \/ In e (inorder r).
  Proof. rewrite inorder_node, in_app_iff. simpl. intuition. Qed.

  (** the prelude of the left descent: [if !isRed(n.left) && !isRed(n.left.left) { n = moveRedLeft(n) }] *)
  Lemma left_prelude l k v s h c (r : tree) n :
    let t := Node l k v s h c r in
    leftpre t n -> l <> Leaf ->
    exists b l1 k1 v1 s1 h1 c1 r1 m1,
      both_black_left t = Ok b /\
      (if b then rb_moveRedLeft t else Ok t) = Ok (Node l1 k1 v1 s1 h1 c1 r1) /\
      leftpre l1 m1 /\ l1 <> Leaf /\
      closes t n l1 m1 (fun x => Node x k1 v1 s1 h1 c1 r1) /\
      In (k1, v1) ((k, v) :: inorder r).
  Proof.
    intros t [HR HC] Hl. subst t. destruct c.
    - (* red node: both children are black nodes or leaves *)
      clear HC. apply rbt_red_inv in HR. destruct HR as (Rl & Rr & Bl & Br).
      destruct l as [|ll lk lv ls lh [] lr]; [congruence|discriminate|].
      apply rbt_black_inv in Rl. destruct Rl as (m & -> & Rll & Rlr & Blr).
      pose proof (rbt_nonneg _ _ Rll) as Nm.
      unfold both_black_left. cbn [lft bind isRed negb].
      destruct (isRed ll) eqn:Bll; cbn [negb].
      + (* left-left is red: no move, descend into the black left child *)
        exists false. do 7 eexists. exists (m + 1).
        split; [reflexivity|]. split; [reflexivity|].
        split; [split; [apply rbt_black; auto|right; exact Bll]|]. split; [discriminate|].
        split; [|left; reflexivity].
        intros x Hx Bx. destruct (balance_red x k v s h r (m + 1) Hx (Bx eq_refl) Rr Br) as [t' [E1 E2]].
        exists t'. split; [exact E1|]. split; [exact E2|]. discriminate.
      + (* moveRedLeft *)
        destruct r as [|rl rk rv rs rh [] rr]; [inversion Rr; lia|discriminate|].
        apply rbt_black_inv in Rr. destruct Rr as (m' & Em & Rrl & Rrr & Brr).
        assert (m' = m) by lia. subst m'. clear Em.
        exists true. unfold rb_moveRedLeft. cbn [rb_flip bind negb tl].
        destruct (isRed rl) eqn:Brl.
        * (* right-left is red: two rotations and a flip *)
          destruct rl as [|rll rlk rlv rls rlh [] rlr]; try discriminate.
          apply rbt_red_inv in Rrl. destruct Rrl as (Rrll & Rrlr & Brll & Brlr).
          cbn [rb_rotateRight bind rb_rotateLeft rb_flip negb].
          do 7 eexists. exists (m + 1).
          split; [reflexivity|]. split; [reflexivity|].
          split; [split; [apply rbt_black; auto; apply rbt_red; auto|right; reflexivity]|]. split; [discriminate|].
          split.
          -- intros x Hx Bx.
             destruct (balance_red x rlk rlv s rlh (Node rlr rk rv (1 + size rlr + size rr) rh false rr) (m + 1))
               as [t' [E1 E2]]; auto; [apply rbt_black; auto|].
             exists t'. split; [exact E1|]. split; [exact E2|]. discriminate.
          -- right. apply In_inorder_node. left. apply In_inorder_node. right. left. reflexivity.
        * (* plain colour flip *)
          do 7 eexists. exists m.
          split; [reflexivity|]. split; [reflexivity|].
          split; [split; [apply rbt_red; auto|left; reflexivity]|]. split; [discriminate|].
          split; [|left; reflexivity].
          intros x Hx Bx.
          destruct (balance_black x k v s h (Node rl rk rv rs rh true rr) m Hx) as [t' [E1 [E2 E3]]];
            [apply rbt_red; auto|].
          exists t'. split; [exact E1|]. split; [exact E2|]. discriminate.
    - (* black node with a red left child *)
      destruct HC as [HC|HC]; [discriminate|]. cbn [tl] in HC.
      apply rbt_black_inv in HR. destruct HR as (m & -> & Rl & Rr & Br).
      destruct l as [|ll lk lv ls lh [] lr]; try discriminate.
      unfold both_black_left. cbn [lft bind isRed negb].
      exists false. do 7 eexists. exists m.
      split; [reflexivity|]. split; [reflexivity|].
      split; [split; [exact Rl|left; reflexivity]|]. split; [discriminate|].
      split; [|left; reflexivity].
      intros x Hx Bx. destruct (balance_black x k v s h r m Hx Rr) as [t' [E1 [E2 E3]]].
      exists t'. split; [exact E1|]. split; [exact E2|]. intros _. apply E3. right. exact Br.
  Qed.
  Lemma cond_move_shape (b : bool) (f : tree -> res tree) (t n1 : tree) :
    (forall a a', f a = Ok a' -> inorder a' = inorder a /\ (csizes a -> csizes a') /\ nodes a' = nodes a) ->
    (if b then f t else Ok t) = Ok n1 ->
    inorder n1 = inorder t /\ (csizes t -> csizes n1) /\ nodes n1 = nodes t.
  Proof. intros Hf. destruct b; [apply Hf|]. intros [= <-]. auto. Qed.

  (** ** DeleteMin *)
  Lemma rb_deleteMin_ok : forall fuel (t : tree) n,
    (nodes t < fuel)%nat -> leftpre t n -> t <> Leaf -> sizes_ok t ->
    exists t' m, rb_deleteMin fuel t = Ok (t', m) /\ inorder t = m :: inorder t' /\
                 rbt t' n /\ (isRed t = false -> isRed t' = false) /\ sizes_ok t'.
  Proof.
    induction fuel as [|f IH]; intros t n HF HP HN HZ; [lia|].
    destruct t as [|l k v s h c r]; [congruence|]. cbn [rb_deleteMin].
    destruct l as [|ll lk lv ls lh lc lr].
    - (* the minimum is here *)
      cbn [is_leaf]. destruct HP as [HR [HC|HC]]; [|discriminate]. cbn [isRed] in HC. subst c.
      apply rbt_red_inv in HR. destruct HR as (Rl & Rr & Bl & Br).
      exists r, (k, v). split; [reflexivity|]. rewrite inorder_node, inorder_leaf. split; [reflexivity|].
      split; [exact Rr|]. split; [discriminate|]. apply HZ.
    - cbn [is_leaf]. set (l := Node ll lk lv ls lh lc lr) in *.
      destruct (left_prelude l k v s h c r n HP ltac:(discriminate))
        as (b & l1 & k1 & v1 & s1 & h1 & c1 & r1 & m1 & E1 & E2 & P1 & N1 & CL & _).
      rewrite E1. cbn [bind]. rewrite E2. cbn [bind].
      destruct (cond_move_shape _ _ _ _ moveRedLeft_shape E2) as (I1 & S1 & D1).
      specialize (S1 (sizes_csizes _ HZ)). cbn [csizes] in S1. destruct S1 as [Zl1 Zr1].
      cbn [nodes] in D1, HF.
      destruct (IH l1 m1 ltac:(lia) P1 N1 Zl1) as (l1' & m & F1 & F2 & F3 & F4 & F5).
      rewrite F1. cbn [bind].
      destruct (CL l1' F3 F4) as (t' & B1 & B2 & B3). rewrite B1. cbn [bind].
      destruct (balance_shape _ _ B1) as (J1 & J2 & J3).
      exists t', m. split; [reflexivity|].
      split; [rewrite J1, <- I1, !inorder_node, F2; reflexivity|].
      split; [exact B2|]. split; [exact B3|]. apply J2. split; assumption.
  Qed.
  Lemma rbt0_leaf (x : tree) : rbt x 0 -> isRed x = false -> x = Leaf.
  Proof.
    intros H B. inversion H as [|l k v s h r n Hl Hr|l k v s h r n Hl Hr E]; subst; auto; [discriminate|].
    pose proof (rbt_nonneg _ _ Hl). lia.
  Qed.

  (** the prelude of the right descent:
      [if isRed(n.left) { n = rotateRight(n) }] ... [if !isRed(n.right) && !isRed(n.right.left) { n = moveRedRight(n) }] *)
  Lemma right_prelude l k v s h c (r : tree) n :
    let t := Node l k v s h c r in
    rightpre t n ->
    exists l0 k0 v0 s0 h0 c0 r0,
      (if isRed l then rb_rotateRight t else Ok t) = Ok (Node l0 k0 v0 s0 h0 c0 r0) /\
      ((r0 = Leaf /\ Node l0 k0 v0 s0 h0 c0 r0 = t /\ c = true /\ n = 0 /\ l = Leaf) \/
       (r0 <> Leaf /\
        exists b l1 k1 v1 s1 h1 c1 r1 m1,
          both_black_right (Node l0 k0 v0 s0 h0 c0 r0) = Ok b /\
          (if b then rb_moveRedRight (Node l0 k0 v0 s0 h0 c0 r0) else Ok (Node l0 k0 v0 s0 h0 c0 r0))
            = Ok (Node l1 k1 v1 s1 h1 c1 r1) /\
          rightpre r1 m1 /\ r1 <> Leaf /\
          (forall k' v' x, rbt x m1 -> (isRed r1 = false -> isRed x = false) ->
             exists t', rb_balance (Node l1 k' v' s1 h1 c1 x) = Ok t' /\ rbt t' n /\
                        (isRed t = false -> isRed t' = false)) /\
          In (k1, v1) (inorder l ++ [(k, v)]) /\
          (cform r1 m1 -> In (k1, v1) (inorder l) /\ exists a s' h' b', r1 = Node a k v s' h' false b'))).
  Proof.
    intros t HP. subst t. destruct HP as [[HR HC]|HC].
    - destruct c.
      + (* red node *)
        clear HC. apply rbt_red_inv in HR. destruct HR as (Rl & Rr & Bl & Br). rewrite Bl.
        do 7 eexists. split; [reflexivity|].
        destruct r as [|rl rk rv rs rh [] rr]; [left|discriminate|right].
        { inversion Rr; subst. repeat split; auto. now apply rbt0_leaf. }
        split; [discriminate|].
        apply rbt_black_inv in Rr. destruct Rr as (m & -> & Rrl & Rrr & Brr).
        pose proof (rbt_nonneg _ _ Rrl) as Nm.
        destruct l as [|ll lk lv ls lh [] lr]; [inversion Rl; lia|discriminate|].
        apply rbt_black_inv in Rl. destruct Rl as (m' & Em & Rll & Rlr & Blr).
        assert (m' = m) by lia. subst m'. clear Em.
        unfold both_black_right. cbn [rgt lft bind isRed negb].
        destruct (isRed rl) eqn:Brl; cbn [negb].
        * (* right-left is red: no move, descend into the black right child *)
          exists false. do 7 eexists. exists (m + 1).
          split; [reflexivity|]. split; [reflexivity|].
          split; [left; split; [apply rbt_black; auto|right; exact Brl]|]. split; [discriminate|].
          split; [|split].
          -- intros k' v' x Hx Bx.
             destruct (balance_red (Node ll lk lv ls lh false lr) k' v' s h x (m + 1)) as [t' [E1 E2]]; auto;
               [apply rbt_black; auto|].
             exists t'. split; [exact E1|]. split; [exact E2|]. discriminate.
          -- apply in_app_iff. right. left. reflexivity.
          -- cbn [cform]. intros (m0 & _ & _ & Habs & _ & _). rewrite Brl in Habs. discriminate.
        * (* moveRedRight *)
          exists true. unfold rb_moveRedRight. cbn [rb_flip bind negb tl].
          destruct (isRed ll) eqn:Bll.
          -- (* left-left is red: rotate right and flip back *)
             destruct ll as [|lll llk llv lls llh [] llr]; try discriminate.
             apply rbt_red_inv in Rll. destruct Rll as (Rlll & Rllr & Blll & Bllr).
             cbn [rb_rotateRight bind rb_flip negb].
             do 7 eexists. exists (m + 1).
             split; [reflexivity|]. split; [reflexivity|].
             split; [right; cbn [cform]; exists m; repeat split; auto; apply rbt_red; auto|].
             split; [discriminate|]. split; [|split].
             ++ intros k' v' x Hx Bx.
                destruct (balance_red (Node lll llk llv lls llh false llr) k' v' s lh x (m + 1)) as [t' [E1 E2]]; auto;
                  [apply rbt_black; auto|].
                exists t'. split; [exact E1|]. split; [exact E2|]. discriminate.
             ++ apply in_app_iff. left. apply In_inorder_node. right. left. reflexivity.
             ++ intros _. split; [apply In_inorder_node; right; left; reflexivity|]. do 4 eexists. reflexivity.
          -- (* plain colour flip *)
             do 7 eexists. exists m.
             split; [reflexivity|]. split; [reflexivity|].
             split; [left; split; [apply rbt_red; auto|left; reflexivity]|]. split; [discriminate|].
             split; [|split].
             ++ intros k' v' x Hx Bx.
                destruct (balance_black (Node ll lk lv ls lh true lr) k' v' s h x m) as [t' [E1 [E2 E3]]]; auto;
                  [apply rbt_red; auto|].
                exists t'. split; [exact E1|]. split; [exact E2|]. discriminate.
             ++ apply in_app_iff. right. left. reflexivity.
             ++ cbn [cform]. tauto.
      + (* black node with a red left child: rotate right first *)
        destruct HC as [HC|HC]; [discriminate|]. cbn [tl] in HC. rewrite HC.
        apply rbt_black_inv in HR. destruct HR as (m & -> & Rl & Rr & Br).
        destruct l as [|ll lk lv ls lh [] lr]; try discriminate.
        apply rbt_red_inv in Rl. destruct Rl as (Rll & Rlr & Bll & Blr).
        cbn [rb_rotateRight]. do 7 eexists. split; [reflexivity|]. right. split; [discriminate|].
        unfold both_black_right. cbn [rgt lft bind isRed negb].
        exists false. do 7 eexists. exists m.
        split; [reflexivity|]. split; [reflexivity|].
        split; [left; split; [apply rbt_red; auto|left; reflexivity]|]. split; [discriminate|].
        split; [|split].
        * intros k' v' x Hx Bx.
          destruct (balance_black ll k' v' s lh x m Rll Hx) as [t' [E1 [E2 E3]]].
          exists t'. split; [exact E1|]. split; [exact E2|]. intros _. apply E3. left. exact Bll.
        * apply in_app_iff. left. apply In_inorder_node. right. left. reflexivity.
        * cbn [cform]. tauto.
    - (* black node with a black-rooted left child and a red right child *)
      destruct c; cbn [cform] in HC; [tauto|]. destruct HC as (m & -> & Rl & Bl & Rr & Br). rewrite Bl.
      destruct r as [|rl rk rv rs rh [] rr]; try discriminate.
      do 7 eexists. split; [reflexivity|]. right. split; [discriminate|].
      unfold both_black_right. cbn [rgt lft bind isRed negb].
      exists false. do 7 eexists. exists m.
      split; [reflexivity|]. split; [reflexivity|].
      split; [left; split; [exact Rr|left; reflexivity]|]. split; [discriminate|].
      split; [|split].
      + intros k' v' x Hx Bx.
        destruct (balance_black l k' v' s h x m Rl Hx) as [t' [E1 [E2 E3]]].
        exists t'. split; [exact E1|]. split; [exact E2|]. intros _. apply E3. left. exact Bl.
      + apply in_app_iff. right. left. reflexivity.
      + cbn [cform]. tauto.
  Qed.
  Lemma moveRedRight_shape (n n' : tree) :
    rb_moveRedRight n = Ok n' -> inorder n' = inorder n /\ (csizes n -> csizes n') /\ nodes n' = nodes n.
  Proof.
    unfold rb_moveRedRight. intros E.
    destruct (rb_flip n) as [n1| |] eqn:E1; try discriminate. cbn [bind] in E.
    apply flip_shape' in E1. destruct E1 as (I1 & S1 & N1).
    destruct (isRed (tl (tl n1))).
    - destruct (rb_rotateRight n1) as [n2| |] eqn:E2; try discriminate. cbn [bind] in E.
      apply rotR_shape in E2. apply flip_shape' in E.
      destruct E2 as (I2 & S2 & N2), E as (I3 & S3 & N3).
      repeat split; try congruence; auto.
    - inversion E; subst. auto.
  Qed.

  (** ** DeleteMax *)
  Lemma rb_deleteMax_ok : forall fuel (t : tree) n,
    (nodes t < fuel)%nat -> rightpre t n -> t <> Leaf -> sizes_ok t ->
    exists t' m, rb_deleteMax fuel t = Ok (t', m) /\ inorder t = inorder t' ++ [m] /\
                 rbt t' n /\ (isRed t = false -> isRed t' = false) /\ sizes_ok t'.
  Proof.
    induction fuel as [|f IH]; intros t n HF HP HN HZ; [lia|].
    destruct t as [|l k v s h c r]; [congruence|]. cbn [rb_deleteMax tl].
    destruct (right_prelude l k v s h c r n HP) as (l0 & k0 & v0 & s0 & h0 & c0 & r0 & E0 & Hcase).
    rewrite E0. cbn [bind].
    destruct (cond_move_shape _ _ _ _ rotR_shape E0) as (I0 & S0 & D0).
    destruct Hcase as [(-> & Et & -> & -> & ->)|(Hr0 & b & l1 & k1 & v1 & s1 & h1 & c1 & r1 & m1 & E1 & E2 & P1 & N1 & CL & _)].
    - (* the maximum is here *)
      inversion Et; subst. cbn [is_leaf].
      exists Leaf, (k, v). split; [reflexivity|]. rewrite inorder_node, inorder_leaf. split; [reflexivity|].
      split; [constructor|]. split; [discriminate|]. exact I.
    - destruct r0 as [|r0l r0k r0v r0s r0h r0c r0r]; [congruence|]. cbn [is_leaf].
      rewrite E1. cbn [bind]. rewrite E2. cbn [bind].
      destruct (cond_move_shape _ _ _ _ moveRedRight_shape E2) as (I1 & S1 & D1).
      specialize (S1 (S0 (sizes_csizes _ HZ))). cbn [csizes] in S1. destruct S1 as [Zl1 Zr1].
      rewrite D0 in D1. cbn [nodes] in D1, HF.
      destruct (IH r1 m1 ltac:(lia) P1 N1 Zr1) as (r1' & m & F1 & F2 & F3 & F4 & F5).
      rewrite F1. cbn [bind].
      destruct (CL k1 v1 r1' F3 F4) as (t' & B1 & B2 & B3). rewrite B1. cbn [bind].
      destruct (balance_shape _ _ B1) as (J1 & J2 & J3).
      exists t', m. split; [reflexivity|].
      split; [rewrite J1, <- I0, <- I1, !inorder_node, F2, <- app_assoc; reflexivity|].
      split; [exact B2|]. split; [exact B3|]. apply J2. split; assumption.
  Qed.
  Lemma rbt_not_cform (t : tree) n n' : rbt t n -> cform t n' -> False.
  Proof.
    destruct t as [|l k v s h [] r]; cbn [cform]; try tauto.
    intros HR (m & _ & _ & _ & _ & Br). apply rbt_black_inv in HR. destruct HR as (m' & _ & _ & _ & Br').
    congruence.
  Qed.

  Definition root_ge (key : K) (t : tree) : Prop :=
    match t with Leaf => True | Node _ k _ _ _ _ _ => 0 <= cmp key k end.

  Lemma s_get_nil_none (key : K) (t : tree) : s_get cmp key (inorder t) <> None -> t <> Leaf.
  Proof. intros H ->. apply H. reflexivity. Qed.

  (** ** Delete (the key is present: the caller checked with Get) *)
  Lemma rb_delete_ok : forall fuel (t : tree) n key,
    (nodes t < fuel)%nat -> rightpre t n -> (cform t n -> root_ge key t) -> sizes_ok t ->
    sorted cmp (inorder t) -> s_get cmp key (inorder t) <> None ->
    exists t', rb_delete cmp fuel t key = Ok (t', snd (s_delete cmp key (inorder t))) /\
               inorder t' = fst (s_delete cmp key (inorder t)) /\
               rbt t' n /\ (isRed t = false -> isRed t' = false) /\ sizes_ok t'.
  Proof.
    induction fuel as [|f IH]; intros t n key HF HP HC HZ HS HG; [lia|].
    destruct t as [|l k v s h c r]; [exfalso; apply HG; reflexivity|].
    cbn [rb_delete].
    pose proof HS as HS0. rewrite inorder_node in HS0.
    destruct (proj1 (sorted_mid cmp TO _ _ _ _) HS0) as (SL & SR & FL & FR).
    rewrite Forall_forall in FL, FR.
    destruct (Z.ltb_spec (cmp key k) 0) as [Hlt|Hge].
    - (* go left *)
      assert (HPl : leftpre (Node l k v s h c r) n).
      { destruct HP as [HP|HP]; [exact HP|]. specialize (HC HP). cbn [root_ge] in HC. lia. }
      assert (Hl : l <> Leaf).
      { apply (s_get_nil_none key). rewrite inorder_node, (s_get_mid cmp TO _ _ _ _ HS0) in HG.
        destruct (Z.ltb_spec (cmp key k) 0); [exact HG|lia]. }
      destruct (left_prelude l k v s h c r n HPl Hl)
        as (b & l1 & k1 & v1 & s1 & h1 & c1 & r1 & m1 & E1 & E2 & P1 & N1 & CL & Ein).
      rewrite E1. cbn [bind]. rewrite E2. cbn [bind].
      destruct (cond_move_shape _ _ _ _ moveRedLeft_shape E2) as (I1 & S1 & D1).
      specialize (S1 (sizes_csizes _ HZ)). cbn [csizes] in S1. destruct S1 as [Zl1 Zr1].
      cbn [nodes] in D1, HF.
      assert (Hk1 : cmp key k1 < 0).
      { destruct Ein as [Ein|Ein]; [inversion Ein; subst; exact Hlt|].
        specialize (FR _ Ein). cbn [fst] in FR. eapply (lt_trans cmp TO); eauto. }
      assert (HS1 : sorted cmp (inorder l1 ++ (k1, v1) :: inorder r1)) by (rewrite <- (inorder_node l1 k1 v1 s1 h1 c1 r1), I1; exact HS).
      destruct (proj1 (sorted_mid cmp TO _ _ _ _) HS1) as (SL1 & SR1 & _ & _).
      assert (HG1 : s_get cmp key (inorder l1) <> None).
      { rewrite <- I1, inorder_node, (s_get_mid cmp TO _ _ _ _ HS1) in HG.
        destruct (Z.ltb_spec (cmp key k1) 0); [exact HG|lia]. }
      destruct (IH l1 m1 key ltac:(lia) (or_introl P1)
                  ltac:(intros Hc; exfalso; eapply rbt_not_cform; [apply P1|exact Hc]) Zl1 SL1 HG1)
        as (l1' & F1 & F2 & F3 & F4 & F5).
      rewrite F1. cbn [bind].
      destruct (CL l1' F3 F4) as (t' & B1 & B2 & B3). rewrite B1. cbn [bind].
      destruct (balance_shape _ _ B1) as (J1 & J2 & J3).
      rewrite <- I1, inorder_node, (s_delete_mid cmp TO _ _ _ _ HS1).
      destruct (Z.ltb_spec (cmp key k1) 0); [|lia].
      destruct (s_delete cmp key (inorder l1)) as [L' o]. cbn [fst snd] in *.
      exists t'. split; [reflexivity|]. split; [rewrite J1, inorder_node, F2; reflexivity|].
      split; [exact B2|]. split; [exact B3|]. apply J2. split; assumption.
    - (* here or to the right *)
      destruct (right_prelude l k v s h c r n HP) as (l0 & k0 & v0 & s0 & h0 & c0 & r0 & E0 & Hcase).
      cbn [tl] in *. rewrite E0. cbn [bind].
      destruct (cond_move_shape _ _ _ _ rotR_shape E0) as (I0 & S0 & D0).
      destruct Hcase as [(-> & Et & -> & -> & ->)|(Hr0 & b & l1 & k1 & v1 & s1 & h1 & c1 & r1 & m1 & E1 & E2 & P1 & N1 & CL & Ea & Eb)].
      + (* a red leaf node: it must be the key *)
        inversion Et; subst. cbn [is_leaf]. rewrite andb_true_r.
        rewrite inorder_node, inorder_leaf in *. cbn [app s_get s_delete] in *.
        destruct (Z.eqb_spec (cmp key k) 0); [|congruence].
        exists Leaf. split; [reflexivity|]. split; [reflexivity|].
        split; [constructor|]. split; [discriminate|]. exact I.
      + destruct r0 as [|r0l r0k r0v r0s r0h r0c r0r]; [congruence|]. cbn [is_leaf]. rewrite andb_false_r.
        rewrite E1. cbn [bind]. rewrite E2. cbn [bind].
        destruct (cond_move_shape _ _ _ _ moveRedRight_shape E2) as (I1 & S1 & D1).
        specialize (S1 (S0 (sizes_csizes _ HZ))). cbn [csizes] in S1. destruct S1 as [Zl1 Zr1].
        rewrite D0 in D1. cbn [nodes] in D1, HF.
        assert (HS1 : sorted cmp (inorder l1 ++ (k1, v1) :: inorder r1)) by (rewrite <- (inorder_node l1 k1 v1 s1 h1 c1 r1), I1, I0; exact HS).
        destruct (proj1 (sorted_mid cmp TO _ _ _ _) HS1) as (SL1 & SR1 & _ & _).
        assert (Hk1k : cmp k1 k <= 0).
        { apply in_app_iff in Ea. destruct Ea as [Ea|[Ea|[]]].
          - specialize (FL _ Ea). cbn [fst] in FL. lia.
          - inversion Ea; subst. rewrite (cmp_refl TO). lia. }
        assert (Hk1 : 0 <= cmp key k1).
        { apply (cmp_le_ge cmp TO). eapply (cmp_trans TO); [exact Hk1k|]. now apply (cmp_le_ge cmp TO). }
        rewrite <- I0, <- I1, inorder_node, (s_delete_mid cmp TO _ _ _ _ HS1).
        destruct (Z.ltb_spec (cmp key k1) 0); [lia|].
        destruct (Z.eqb_spec (cmp key k1) 0) as [Heq|Hne].
        * (* the key is at this node: replace it by the minimum of the right subtree *)
          destruct (Z.ltb_spec 0 (cmp key k1)); [lia|].
          assert (PL : leftpre r1 m1).
          { destruct P1 as [P1|P1]; [exact P1|]. destruct (Eb P1) as [Ein _].
            specialize (FL _ Ein). cbn [fst] in FL. exfalso.
            assert (Hc1 : cmp k1 key < 0) by (eapply (lt_le_trans cmp TO); [exact FL|now apply (cmp_le_ge cmp TO)]).
            apply (cmp_antisym TO) in Hc1. lia. }
          destruct (rb_deleteMin_ok f r1 m1 ltac:(lia) PL N1 Zr1) as (r1' & [mk mv] & F1 & F2 & F3 & F4 & F5).
          rewrite F1. cbn [bind].
          destruct (CL mk mv r1' F3 F4) as (t' & B1 & B2 & B3). rewrite B1. cbn [bind].
          destruct (balance_shape _ _ B1) as (J1 & J2 & J3).
          cbn [fst snd].
          exists t'. split; [reflexivity|]. split; [rewrite J1, inorder_node, F2; reflexivity|].
          split; [exact B2|]. split; [exact B3|]. apply J2. split; assumption.
        * destruct (Z.ltb_spec 0 (cmp key k1)); [|lia].
          assert (HG1 : s_get cmp key (inorder r1) <> None).
          { rewrite <- I0, <- I1, inorder_node, (s_get_mid cmp TO _ _ _ _ HS1) in HG.
            destruct (Z.ltb_spec (cmp key k1) 0); [lia|]. destruct (Z.ltb_spec 0 (cmp key k1)); [exact HG|lia]. }
          assert (HC1 : cform r1 m1 -> root_ge key r1).
          { intros Hc. destruct (Eb Hc) as [_ (a & s' & h' & b' & ->)]. cbn [root_ge]. exact Hge. }
          destruct (IH r1 m1 key ltac:(lia) P1 HC1 Zr1 SR1 HG1) as (r1' & F1 & F2 & F3 & F4 & F5).
          rewrite F1. cbn [bind].
          destruct (CL k1 v1 r1' F3 F4) as (t' & B1 & B2 & B3). rewrite B1. cbn [bind].
          destruct (balance_shape _ _ B1) as (J1 & J2 & J3).
          destruct (s_delete cmp key (inorder r1)) as [R' o]. cbn [fst snd] in *.
          exists t'. split; [reflexivity|]. split; [rewrite J1, inorder_node, F2; reflexivity|].
          split; [exact B2|]. split; [exact B3|]. apply J2. split; assumption.
  Qed.
  (** ** the exported methods *)

  Lemma redden_pre (t : tree) n :
    rbt t n -> isRed t = false -> t <> Leaf ->
    exists n', leftpre (rb_redden_root t) n' /\ rb_redden_root t <> Leaf /\
               inorder (rb_redden_root t) = inorder t /\ (sizes_ok t -> sizes_ok (rb_redden_root t)) /\
               nodes (rb_redden_root t) = nodes t.
  Proof.
    intros HR HB HN. destruct t as [|l k v s h [] r]; [congruence|discriminate|].
    apply rbt_black_inv in HR. destruct HR as (m & -> & Rl & Rr & Br).
    unfold rb_redden_root. cbn [tl tr]. rewrite Br. cbn [negb]. rewrite andb_true_r.
    destruct (isRed l) eqn:Bl; cbn [negb].
    - exists (m + 1). split; [split; [apply rbt_black; auto|right; exact Bl]|]. split; [discriminate|]. auto.
    - exists m. cbn [set_color]. split; [split; [apply rbt_red; auto|left; reflexivity]|]. split; [discriminate|].
      rewrite !inorder_node. cbn [sizes_ok nodes]. auto.
  Qed.

  Lemma s_delete_none key (l : list (K * V)) : s_get cmp key l = None -> s_delete cmp key l = (l, None).
  Proof.
    induction l as [|[k v] l IH]; cbn [s_get s_delete]; [reflexivity|].
    destruct (cmp key k =? 0); [discriminate|]. intros H. now rewrite IH.
  Qed.

  Lemma rb_finish (t' : tree) n (l' : list (K * V)) :
    rbt t' n -> sizes_ok t' -> inorder t' = l' -> sorted cmp l' -> rb_ok cmp (set_color false t') /\
    inorder (set_color false t') = l'.
  Proof.
    intros HR HZ HI HS. destruct (set_color_shape false t') as (I1 & I2 & _).
    split; [|congruence]. split; [rewrite I1, HI; exact HS|]. split; [auto|].
    split; [apply isRed_blacken|]. eapply blacken_rbt; eauto.
  Qed.

  Lemma rb_refines : Refines cmp RB (rb_ok cmp) (fun _ : mut K V => true).
  Proof.
    constructor.
    - apply rb_ok_leaf.
    - intros t H; apply H.
    - intros t H; apply H.
    - reflexivity.
    - intros t m HI _. pose proof HI as (HS & HZ & HB & n & HR).
      destruct m as [k v|k| | |]; unfold mutate, s_mutate.
      + destruct (rb_Put_ok cmp TO t k v HI) as [t' [E1 [E2 I1]]]. rewrite E1. cbn [bind fst snd]. eauto.
      + (* Delete *)
        unfold Delete. destruct t as [|l0 k0 v0 s0 h0 c0 r0].
        * cbn [is_leaf bind]. exists Leaf. split; [reflexivity|]. split; [reflexivity|]. exact HI.
        * cbn [is_leaf]. set (t := Node l0 k0 v0 s0 h0 c0 r0) in *.
          rewrite (get_ok cmp TO t k HS).
          destruct (s_get cmp k (inorder t)) as [w|] eqn:EG.
          -- destruct (redden_pre t n HR HB ltac:(discriminate)) as (n' & P & N & I1 & Z1 & D1).
             destruct (rb_delete_ok (S (nodes t)) (rb_redden_root t) n' k) as (t' & F1 & F2 & F3 & F4 & F5).
             { rewrite D1. lia. }
             { left. exact P. }
             { intros Hc. exfalso. eapply rbt_not_cform; [apply P|exact Hc]. }
             { auto. }
             { rewrite I1. exact HS. }
             { rewrite I1, EG. discriminate. }
             rewrite F1. cbn [bind]. rewrite I1 in *.
             pose proof (s_delete_sorted cmp k (inorder t) HS) as HS'.
             destruct (s_delete cmp k (inorder t)) as [l' o]. cbn [fst snd] in *.
             destruct (rb_finish t' n' l' F3 F5 F2 HS') as [R1 R2].
             eexists. split; [reflexivity|]. split; [exact R2|exact R1].
          -- cbn [bind]. rewrite (s_delete_none k _ EG). cbn [fst snd].
             exists t. split; [reflexivity|]. split; [reflexivity|]. exact HI.
      + (* DeleteMin *)
        unfold DeleteMin. destruct t as [|l0 k0 v0 s0 h0 c0 r0].
        * cbn [is_leaf bind]. exists Leaf. split; [reflexivity|]. split; [reflexivity|]. exact HI.
        * cbn [is_leaf]. set (t := Node l0 k0 v0 s0 h0 c0 r0) in *.
          destruct (redden_pre t n HR HB ltac:(discriminate)) as (n' & P & N & I1 & Z1 & D1).
          destruct (rb_deleteMin_ok (S (nodes t)) (rb_redden_root t) n') as (t' & e & F1 & F2 & F3 & F4 & F5);
            [rewrite D1; lia|exact P|exact N|auto|].
          rewrite F1. cbn [bind]. rewrite I1 in F2. rewrite F2, s_deleteMin_cons. cbn [fst snd].
          assert (HS' : sorted cmp (inorder t')) by (rewrite F2 in HS; eapply sorted_tail; eauto).
          destruct (rb_finish t' n' _ F3 F5 eq_refl HS') as [R1 R2].
          eexists. split; [reflexivity|]. split; [exact R2|exact R1].
      + (* DeleteMax *)
        unfold DeleteMax. destruct t as [|l0 k0 v0 s0 h0 c0 r0].
        * cbn [is_leaf bind]. exists Leaf. split; [reflexivity|]. split; [reflexivity|]. exact HI.
        * cbn [is_leaf]. set (t := Node l0 k0 v0 s0 h0 c0 r0) in *.
          destruct (redden_pre t n HR HB ltac:(discriminate)) as (n' & P & N & I1 & Z1 & D1).
          destruct (rb_deleteMax_ok (S (nodes t)) (rb_redden_root t) n') as (t' & e & F1 & F2 & F3 & F4 & F5);
            [rewrite D1; lia|left; exact P|exact N|auto|].
          rewrite F1. cbn [bind]. rewrite I1 in F2. rewrite F2, s_deleteMax_snoc. cbn [fst snd].
          assert (HS' : sorted cmp (inorder t')) by (rewrite F2 in HS; eapply sorted_app_l; eauto).
          destruct (rb_finish t' n' _ F3 F5 eq_refl HS') as [R1 R2].
          eexists. split; [reflexivity|]. split; [exact R2|exact R1].
      + exists Leaf. split; [reflexivity|]. split; [reflexivity|]. apply rb_ok_leaf.
  Qed.
End RBDel.
