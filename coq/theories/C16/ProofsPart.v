(** C16 — Partitions: for every oracle the result has Bell(n) members, each a partition of the
    operand (non-empty, pairwise disjoint, covering blocks), pairwise different, and every
    partition of the operand occurs. *)
From Coq Require Import Lia Permutation Sorted.
From Algo.C16 Require Import Model Spec ProofsList ProofsSet ProofsPower.
Local Open Scope Z_scope.

Section Part.
  Variable T : Type.
  Variable eqb : T -> T -> bool.
  Variable cmp : nat -> T -> T -> Z.
  Variable draw : nat -> nat.
  Hypothesis eqb_spec : forall x y, eqb x y = true <-> x = y.
  Hypothesis cmp_eq : forall c x y, cmp c x y = 0 <-> x = y.
  Hypothesis cmp_anti : forall c x y, cmp c x y < 0 <-> 0 < cmp c y x.
  Hypothesis cmp_trans : forall c x y z, cmp c x y < 0 -> cmp c y z < 0 -> cmp c x z < 0.

  Notation set0 := (vset T).
  Notation set1 := (vset (vset T)).
  Notation inv := (inv T cmp).
  Notation set_equiv := (set_equiv T).
  Notation set_eq := (set_eq T eqb cmp).
  Notation part_eq := (part_eq T eqb cmp).
  Notation s_rem := (s_rem T eqb).
  Notation same := (same T).
  Notation distinct := (distinct T).

  (** ** blocks *)
  (** every block of [P] is (the same set as) a block of [Q] *)
  Definition bincl (P Q : list set0) : Prop := forall b, In b P -> exists b', In b' Q /\ same b b'.

  Lemma bincl_refl : forall P, bincl P P.
  Proof. intros P b Hb. exists b. split; [exact Hb|apply same_refl]. Qed.

  Lemma bincl_trans : forall P Q R, bincl P Q -> bincl Q R -> bincl P R.
  Proof.
    intros P Q R H1 H2 b Hb. destruct (H1 b Hb) as (b1 & Hb1 & S1). destruct (H2 b1 Hb1) as (b2 & Hb2 & S2).
    exists b2. split; [exact Hb2|eapply same_trans; eauto].
  Qed.

  Lemma bincl_perm_l : forall P P' Q, Permutation P P' -> bincl P Q -> bincl P' Q.
  Proof. intros P P' Q HP H b Hb. apply H. eapply Permutation_in; [symmetry; exact HP|exact Hb]. Qed.

  Lemma bincl_perm_r : forall P Q Q', Permutation Q Q' -> bincl P Q -> bincl P Q'.
  Proof.
    intros P Q Q' HP H b Hb. destruct (H b Hb) as (b' & Hb' & S). exists b'. split; [|exact S].
    eapply Permutation_in; eauto.
  Qed.

  (** pairwise disjoint *)
  Inductive disj : list set0 -> Prop :=
  | dj_nil : disj []
  | dj_cons : forall a l, (forall b x, In b l -> In x (vm a) -> ~ In x (vm b)) -> disj l -> disj (a :: l).

  Lemma disj_inv : forall a l, disj (a :: l) -> (forall b x, In b l -> In x (vm a) -> ~ In x (vm b)) /\ disj l.
  Proof. intros a l D. inversion D; auto. Qed.

  Lemma disj_perm : forall l l', Permutation l l' -> disj l -> disj l'.
  Proof.
    induction 1; intros D.
    - exact D.
    - inversion D; subst. constructor; [|auto]. intros b y Hb. apply H2. eapply Permutation_in; [symmetry; eauto|exact Hb].
    - inversion D as [|? ? Hy D1]; subst. inversion D1 as [|? ? Hx D2]; subst.
      constructor; [|constructor; [|exact D2]].
      + intros b z [<-|Hb] Hz; [intros Hc; exact (Hy x z (or_introl eq_refl) Hc Hz)|now apply Hx].
      + intros b z Hb. apply Hy. now right.
    - auto.
  Qed.

  Lemma disj_common : forall l a b x, disj l -> In a l -> In b l -> In x (vm a) -> In x (vm b) -> a = b.
  Proof.
    induction 1 as [|c l Hc D IH]; intros Ha Hb Hxa Hxb; [destruct Ha|].
    destruct Ha as [<-|Ha]; destruct Hb as [<-|Hb]; auto.
    - exfalso. exact (Hc b x Hb Hxa Hxb).
    - exfalso. exact (Hc a x Ha Hxb Hxa).
  Qed.

  Lemma disj_app_inv : forall l1 l2, disj (l1 ++ l2) -> disj l1 /\ disj l2 /\
    (forall a b x, In a l1 -> In b l2 -> In x (vm a) -> ~ In x (vm b)).
  Proof.
    induction l1 as [|c l1 IH]; intros l2 D; simpl in *.
    - split; [constructor|]. split; [exact D|]. intros a b x [].
    - inversion D as [|? ? Hc D']; subst. destruct (IH l2 D') as (D1 & D2 & H12).
      split; [constructor; [|exact D1]|split; [exact D2|]].
      + intros b x Hb. apply Hc. apply in_or_app. now left.
      + intros a b x [<-|Ha] Hb; [apply Hc; apply in_or_app; now right|now apply H12].
  Qed.

  (** [P] is a partition of the set [S] into blocks of kind [k] *)
  Definition okblock (k : kind) (b : set0) : Prop := inv b /\ vk b = k /\ vm b <> [].

  Definition is_part (k : kind) (S : list T) (P : list set0) : Prop :=
    Forall (okblock k) P /\ disj P /\ (forall x, In x S <-> exists b, In b P /\ In x (vm b)).

  Lemma is_part_perm : forall k S P P', Permutation P P' -> is_part k S P -> is_part k S P'.
  Proof.
    intros k S P P' HP (F & D & C). split; [|split].
    - eapply Permutation_Forall; eauto.
    - eapply disj_perm; eauto.
    - intros x. rewrite (C x). split; intros (b & Hb & Hx); exists b; (split; [|exact Hx]).
      + eapply Permutation_in; eauto.
      + eapply Permutation_in; [symmetry; eauto|exact Hb].
  Qed.

  Lemma is_part_equiv : forall k S S' P, (forall x, In x S <-> In x S') -> is_part k S P -> is_part k S' P.
  Proof. intros k S S' P H (F & D & C). split; [exact F|]. split; [exact D|]. intros x. rewrite <- (H x). apply C. Qed.

  Lemma nonempty_in : forall l : list T, l <> [] -> exists x, In x l.
  Proof. intros [|x l] H; [congruence|]. exists x. now left. Qed.

  (** among partitions of one set, inclusion of blocks is symmetric *)
  Lemma bincl_sym : forall k S P Q, is_part k S P -> is_part k S Q -> bincl P Q -> bincl Q P.
  Proof.
    intros k S P Q (FP & DP & CP) (FQ & DQ & CQ) H b Hb.
    rewrite Forall_forall in FQ. destruct (FQ b Hb) as (_ & _ & Hne).
    destruct (nonempty_in _ Hne) as (x & Hxb).
    assert (HxS : In x S) by (apply CQ; exists b; auto).
    destruct (proj1 (CP x) HxS) as (b1 & Hb1 & Hx1).
    destruct (H b1 Hb1) as (b2 & Hb2 & S12).
    assert (b2 = b) by (eapply (disj_common Q b2 b x); eauto; now apply S12). subst b2.
    exists b1. split; [exact Hb1|]. now apply same_sym.
  Qed.

  Lemma is_part_distinct : forall k S P, is_part k S P -> distinct P.
  Proof.
    intros k S P (F & D & _). induction D as [|a l Ha D IH]; [constructor|].
    inversion F as [|? ? (_ & _ & Hne) F']; subst. constructor; [|now apply IH].
    intros b Hb Hs. destruct (nonempty_in _ Hne) as (x & Hx).
    apply (Ha b x Hb Hx). now apply Hs.
  Qed.

  (** ** sets of blocks created by New(setEqFunc) *)
  Definition inv1 (Q : set1) : Prop := vk Q = Unordered /\ Forall inv (vm Q).

  Lemma part_eq_bincl : forall P Q : set1, inv1 P -> inv1 Q -> part_eq P Q = true -> bincl (vm Q) (vm Q) -> bincl (vm P) (vm Q).
  Proof.
    intros [kp lp] [kq lq] [Kp Ip] [Kq Iq] H _. simpl in *. subst kp kq.
    unfold Model.part_eq, vequal in H. simpl in H.
    destruct (negb (Nat.eqb (vsize set0 (mkv Unordered lp)) (vsize set0 (mkv Unordered lq)))); [discriminate|].
    rewrite all_in_hasb in H. simpl in H. rewrite forallb_forall in H.
    intros b Hb. specialize (H b Hb). rewrite hasb_linear in H by exact I.
    unfold Spec.memb in H. apply existsb_exists in H. destruct H as (m & Hm & He).
    rewrite Forall_forall in Ip, Iq.
    apply (set_eq_spec T eqb cmp eqb_spec cmp_eq cmp_anti cmp_trans) in He; auto.
    exists m. split; [exact Hm|]. now apply same_sym.
  Qed.

  Lemma not_memb1 : forall (L : list set1) (Q : set1), inv1 Q -> Forall inv1 L ->
    (forall M, In M L -> ~ bincl (vm M) (vm Q)) -> existsb (fun M => part_eq M Q) L = false.
  Proof.
    intros L Q HQ HL Hn. destruct (existsb (fun M => part_eq M Q) L) eqn:E; [|reflexivity].
    apply existsb_exists in E. destruct E as (M & HM & He). rewrite Forall_forall in HL.
    exfalso. apply (Hn M HM). apply part_eq_bincl; auto. apply bincl_refl.
  Qed.

  (** adding pairwise different blocks to a New(setEqFunc) set appends them *)
  Lemma vadd_blocks : forall bs acc, Forall inv (acc ++ bs) -> distinct (acc ++ bs) ->
    vadd set0 set_eq (@nocmp set0) (mkv Unordered acc) bs = Ok (mkv Unordered (acc ++ bs)).
  Proof.
    induction bs as [|b bs IH]; intros acc HI HD; simpl; [now rewrite app_nil_r|].
    rewrite vadd1_unordered.
    assert (E : existsb (fun m => set_eq m b) acc = false).
    { apply (not_memb T eqb cmp eqb_spec cmp_eq cmp_anti cmp_trans).
      - rewrite Forall_forall in HI. apply HI. apply in_or_app. right. now left.
      - apply Forall_app in HI. tauto.
      - intros a Ha Hs. clear - HD Ha Hs. induction acc as [|c acc IHa]; [destruct Ha|].
        simpl in HD. inversion HD as [|? ? Hc HD']; subst. destruct Ha as [<-|Ha].
        + apply (Hc b); [apply in_or_app; right; now left|exact Hs].
        + now apply IHa. }
    rewrite E. simpl. rewrite (IH (acc ++ [b])); rewrite <- app_assoc; simpl; auto.
  Qed.
  (** ** abstract partitions: blocks given as lists *)
  Inductive mdisj : list (list T) -> Prop :=
  | md_nil : mdisj []
  | md_cons : forall B R, (forall C x, In C R -> In x B -> ~ In x C) -> mdisj R -> mdisj (B :: R).

  Definition mpart (S : list T) (R : list (list T)) : Prop :=
    Forall (fun B => B <> []) R /\ mdisj R /\ (forall x, In x S <-> exists B, In B R /\ In x B).

  (** the blocks of [P] are, as sets, exactly the blocks of [R] *)
  Definition matches (P : list set0) (R : list (list T)) : Prop :=
    (forall b, In b P -> exists B, In B R /\ set_equiv (vm b) B) /\
    (forall B, In B R -> exists b, In b P /\ set_equiv (vm b) B).

  Definition complete (S : list T) (L : list set1) : Prop :=
    forall R, mpart S R -> exists P, In P L /\ matches (vm P) R.

  Lemma mdisj_common : forall R B C x, mdisj R -> In B R -> In C R -> In x B -> In x C -> B = C.
  Proof.
    induction 1 as [|D R HD M IH]; intros HB HC HxB HxC; [destruct HB|].
    destruct HB as [<-|HB]; destruct HC as [<-|HC]; auto.
    - exfalso. exact (HD C x HC HxB HxC).
    - exfalso. exact (HD B x HB HxC HxB).
  Qed.

  Lemma mdisj_shrink : forall (f : list T -> bool) (g : list T -> list T) R,
    (forall B x, In x (g B) -> In x B) -> mdisj R -> mdisj (filter f (map g R)).
  Proof.
    intros f g R Hg. induction 1 as [|B R HB M IH]; simpl; [constructor|].
    destruct (f (g B)); [|exact IH]. constructor; [|exact IH].
    intros C x HC Hx. apply filter_In in HC. destruct HC as [HC _]. apply in_map_iff in HC. destruct HC as (C0 & <- & HC0).
    intros Hc. apply (HB C0 x HC0); [now apply Hg|now apply Hg].
  Qed.

  Lemma mpart_equiv : forall S S' R, (forall x, In x S <-> In x S') -> mpart S R -> mpart S' R.
  Proof. intros S S' R H (F & D & C). split; [exact F|]. split; [exact D|]. intros x. rewrite <- (H x). apply C. Qed.

  Lemma matches_perm : forall P P' R, Permutation P P' -> matches P R -> matches P' R.
  Proof.
    intros P P' R HP (M1 & M2). split.
    - intros b Hb. apply M1. eapply Permutation_in; [symmetry; exact HP|exact Hb].
    - intros B HB. destruct (M2 B HB) as (b & Hb & Hs). exists b. split; [eapply Permutation_in; eauto|exact Hs].
  Qed.

  (** ** extending a partition of [rest] by a new element [m0] *)
  Section Ext.
    Variable k : kind.
    Variable m0 : T.
    Variable rest : list T.
    Hypothesis Nm0 : ~ In m0 rest.

    Definition isunion (u b : set0) : Prop := inv u /\ vk u = k /\ forall x, In x (vm u) <-> x = m0 \/ In x (vm b).
    Definition ishead (hd : set0) : Prop := inv hd /\ vk hd = k /\ forall x, In x (vm hd) <-> x = m0.

    Inductive ext (Pm : list set0) : list set0 -> Prop :=
    | ext_new : forall hd, ishead hd -> ext Pm (hd :: Pm)
    | ext_at : forall pre b post u, Pm = pre ++ b :: post -> isunion u b -> ext Pm (pre ++ u :: post).

    Lemma part_no_m0 : forall Pm b, is_part k rest Pm -> In b Pm -> ~ In m0 (vm b).
    Proof. intros Pm b (_ & _ & C) Hb Hm. apply Nm0. apply C. exists b. auto. Qed.

    Lemma rem_block : forall Pm b, is_part k rest Pm -> In b Pm -> s_rem m0 (vm b) = vm b.
    Proof. intros. apply (s_rem_notin T eqb eqb_spec). eapply part_no_m0; eauto. Qed.

    Lemma rem_union' : forall u b, ~ In m0 (vm b) -> isunion u b -> set_equiv (s_rem m0 (vm u)) (vm b).
    Proof. intros u b Hn (_ & _ & Hu). now apply (rem_union T eqb eqb_spec). Qed.

    Lemma rem_head : forall hd x, ishead hd -> ~ In x (s_rem m0 (vm hd)).
    Proof. intros hd x (_ & _ & Hh) Hx. apply (s_rem_In T eqb eqb_spec) in Hx. destruct Hx as [Hx Hne]. apply Hh in Hx. congruence. Qed.

    Lemma ext_is_part : forall Pm Q, is_part k rest Pm -> ext Pm Q -> is_part k (m0 :: rest) Q.
    Proof.
      intros Pm Q HP HE. pose proof HP as (F & D & C). destruct HE as [hd (Ih & Kh & Hh)|pre b post u -> (Iu & Ku & Hu)].
      - split; [|split].
        + constructor; [|exact F]. split; [exact Ih|]. split; [exact Kh|]. intros E. assert (In m0 (vm hd)) by now apply Hh. rewrite E in H. destruct H.
        + constructor; [|exact D]. intros b x Hb Hx. apply Hh in Hx. subst x. eapply part_no_m0; eauto.
        + intros x. simpl. rewrite (C x). split.
          * intros [<-|(b & Hb & Hx)]; [exists hd; split; [now left|now apply Hh]|exists b; split; [now right|exact Hx]].
          * intros (b & [<-|Hb] & Hx); [left; symmetry; now apply Hh|right; exists b; auto].
      - assert (HPm : Permutation (pre ++ b :: post) (b :: pre ++ post)) by (symmetry; apply Permutation_middle).
        assert (HQ : Permutation (u :: pre ++ post) (pre ++ u :: post)) by apply Permutation_middle.
        pose proof (is_part_perm _ _ _ _ HPm HP) as (F' & D' & C').
        pose proof (Forall_inv_tail F') as F''. destruct (disj_inv _ _ D') as [Db D''].
        assert (Nmb : forall a, In a (b :: pre ++ post) -> ~ In m0 (vm a)).
        { intros a Ha. apply (part_no_m0 _ a HP). eapply Permutation_in; [symmetry; exact HPm|exact Ha]. }
        apply (is_part_perm _ _ _ _ HQ). split; [|split].
        + constructor; [|exact F'']. split; [exact Iu|]. split; [exact Ku|]. intros E. assert (In m0 (vm u)) by (apply Hu; now left). rewrite E in H. destruct H.
        + constructor; [|exact D'']. intros a x Ha Hx. apply Hu in Hx. destruct Hx as [->|Hx]; [apply Nmb; now right|now apply Db].
        + intros x. simpl. rewrite (C' x). split.
          * intros [<-|(a & [<-|Ha] & Hx)].
            -- exists u. split; [now left|apply Hu; now left].
            -- exists u. split; [now left|apply Hu; now right].
            -- exists a. split; [now right|exact Hx].
          * intros (a & [<-|Ha] & Hx).
            -- apply Hu in Hx. destruct Hx as [->|Hx]; [now left|right; exists b; split; [now left|exact Hx]].
            -- right. exists a. split; [now right|exact Hx].
    Qed.

    (** stripping [m0] from the blocks of an extension gives back the original blocks *)
    Lemma ext_strip_in : forall Pm Q b, is_part k rest Pm -> ext Pm Q -> In b Pm ->
      exists c, In c Q /\ set_equiv (s_rem m0 (vm c)) (vm b).
    Proof.
      intros Pm Q b HP HE Hb. destruct HE as [hd Hh|pre b0 post u -> Hu].
      - exists b. split; [now right|]. rewrite (rem_block _ _ HP Hb). intros x; tauto.
      - apply in_app_or in Hb. destruct Hb as [Hb|[<-|Hb]].
        + exists b. split; [apply in_or_app; now left|]. rewrite (rem_block _ b HP) by (apply in_or_app; now left). intros x; tauto.
        + exists u. split; [apply in_or_app; right; now left|]. apply rem_union'; [|exact Hu].
          apply (part_no_m0 _ _ HP). apply in_or_app. right. now left.
        + exists b. split; [apply in_or_app; right; now right|]. rewrite (rem_block _ b HP) by (apply in_or_app; right; now right). intros x; tauto.
    Qed.

    Lemma ext_strip_of : forall Pm Q c, is_part k rest Pm -> ext Pm Q -> In c Q ->
      (forall x, ~ In x (s_rem m0 (vm c))) \/ exists b, In b Pm /\ set_equiv (s_rem m0 (vm c)) (vm b).
    Proof.
      intros Pm Q c HP HE Hc. destruct HE as [hd Hh|pre b0 post u -> Hu].
      - destruct Hc as [<-|Hc]; [left; intros x; now apply rem_head|].
        right. exists c. split; [exact Hc|]. rewrite (rem_block _ _ HP Hc). intros x; tauto.
      - right. apply in_app_or in Hc. destruct Hc as [Hc|[<-|Hc]].
        + exists c. split; [apply in_or_app; now left|]. rewrite (rem_block _ c HP) by (apply in_or_app; now left). intros x; tauto.
        + exists b0. split; [apply in_or_app; right; now left|]. apply rem_union'; [|exact Hu].
          apply (part_no_m0 _ _ HP). apply in_or_app. right. now left.
        + exists c. split; [apply in_or_app; right; now right|]. rewrite (rem_block _ c HP) by (apply in_or_app; right; now right). intros x; tauto.
    Qed.

    Lemma ext_bincl : forall Pm Pm' Q Q', is_part k rest Pm -> is_part k rest Pm' -> ext Pm Q -> ext Pm' Q' ->
      bincl Q Q' -> bincl Pm Pm'.
    Proof.
      intros Pm Pm' Q Q' HP HP' HE HE' H b Hb.
      destruct (ext_strip_in Pm Q b HP HE Hb) as (c & Hc & Sc).
      destruct (H c Hc) as (c' & Hc' & Scc).
      pose proof (same_rem T eqb eqb_spec m0 _ _ Scc) as Sr.
      destruct (ext_strip_of Pm' Q' c' HP' HE' Hc') as [Hempty|(b' & Hb' & Sb')].
      - exfalso. destruct HP as (F & _ & _). rewrite Forall_forall in F. destruct (F b Hb) as (_ & _ & Hne).
        destruct (nonempty_in _ Hne) as (x & Hx). apply (Hempty x). apply Sr. now apply Sc.
      - exists b'. split; [exact Hb'|]. intros x. rewrite <- (Sc x), (Sr x). apply Sb'.
    Qed.

    (** the block of an extension that holds [m0], without [m0] *)
    Definition m0rem (Q : list set0) (R : list T) : Prop :=
      exists c, In c Q /\ In m0 (vm c) /\ set_equiv (s_rem m0 (vm c)) R.

    Lemma m0rem_bincl : forall Q Q' R R', is_part k (m0 :: rest) Q' -> bincl Q Q' -> m0rem Q R -> m0rem Q' R' -> set_equiv R R'.
    Proof.
      intros Q Q' R R' (_ & D' & _) H (c & Hc & Hm & Sc) (c' & Hc' & Hm' & Sc').
      destruct (H c Hc) as (c1 & Hc1 & S1).
      assert (c1 = c') by (eapply (disj_common Q' c1 c' m0); eauto; now apply S1). subst c1.
      intros x. rewrite <- (Sc x), <- (Sc' x). apply (same_rem T eqb eqb_spec). exact S1.
    Qed.

    Lemma m0rem_new : forall Pm hd, ishead hd -> m0rem (hd :: Pm) [].
    Proof.
      intros Pm hd Hh. exists hd. split; [now left|]. destruct Hh as (_ & _ & Hh). split; [now apply Hh|].
      intros x. split; [|intros []]. intros Hx. apply (s_rem_In T eqb eqb_spec) in Hx. destruct Hx as [Hx Hne]. apply Hh in Hx. congruence.
    Qed.

    Lemma m0rem_at : forall pre b post u, ~ In m0 (vm b) -> isunion u b -> m0rem (pre ++ u :: post) (vm b).
    Proof.
      intros pre b post u Hn Hu. exists u. split; [apply in_or_app; right; now left|]. split.
      - destruct Hu as (_ & _ & Hu). apply Hu. now left.
      - now apply rem_union'.
    Qed.

    Lemma distinct_position : forall (l : list set0) pre b post pre' b' post', distinct l ->
      l = pre ++ b :: post -> l = pre' ++ b' :: post' -> same b b' -> length pre = length pre'.
    Proof.
      intros l pre. revert l. induction pre as [|a pre IH]; intros l b post pre' b' post' D E1 E2 Hs.
      - destruct pre' as [|a' pre']; [reflexivity|]. exfalso. subst l. simpl in E2. inversion E2; subst.
        inversion D as [|? ? Hd _]; subst. apply (Hd b'); [apply in_or_app; right; now left|exact Hs].
      - destruct pre' as [|a' pre'].
        + exfalso. subst l. simpl in E2. inversion E2; subst.
          inversion D as [|? ? Hd _]; subst. apply (Hd b); [apply in_or_app; right; now left|now apply same_sym].
        + subst l. simpl in E2. inversion E2; subst. inversion D as [|? ? _ D']; subst. simpl. f_equal.
          eapply IH; eauto.
    Qed.
    (** ** the loops *)
    (** pairwise different partitions *)
    Inductive pdistinct : list set1 -> Prop :=
    | pd_nil : pdistinct []
    | pd_cons : forall a l, (forall b, In b l -> ~ bincl (vm a) (vm b) /\ ~ bincl (vm b) (vm a)) ->
                            pdistinct l -> pdistinct (a :: l).

    Lemma pdistinct_snoc : forall l Q, pdistinct l ->
      (forall M, In M l -> ~ bincl (vm M) (vm Q) /\ ~ bincl (vm Q) (vm M)) -> pdistinct (l ++ [Q]).
    Proof.
      induction 1 as [|a l Ha D IH]; intros H; simpl.
      - constructor; [intros b []|constructor].
      - constructor; [|apply IH; intros M HM; apply H; now right].
        intros b Hb. apply in_app_or in Hb. destruct Hb as [Hb|[<-|[]]]; [now apply Ha|].
        apply H. now left.
    Qed.

    Notation full := (m0 :: rest).
    Notation head := (mkv k [m0]).

    Definition okmem (M : set1) : Prop := inv1 M /\ is_part k full (vm M).
    Definition okPs (Ps : vset set1) : Prop := vk Ps = Unordered /\ Forall okmem (vm Ps) /\ pdistinct (vm Ps).

    Lemma okmem_ext : forall Pm Q, is_part k rest Pm -> ext Pm Q -> okmem (mkv Unordered Q).
    Proof.
      intros Pm Q HP HE. pose proof (ext_is_part Pm Q HP HE) as HQ. split; [|exact HQ].
      split; [reflexivity|]. simpl. destruct HQ as (F & _ & _). eapply Forall_impl; [|exact F]. intros a (Ia & _). exact Ia.
    Qed.

    (** adding a new partition [Q] that no member's blocks are included in *)
    Lemma add_partition : forall (Ps : vset set1) Q, okPs Ps -> okmem (mkv Unordered Q) ->
      (forall M, In M (vm Ps) -> ~ bincl (vm M) Q) ->
      vadd1 set1 part_eq (@nocmp set1) Ps (mkv Unordered Q) = Ok (mkv Unordered (vm Ps ++ [mkv Unordered Q])) /\
      okPs (mkv Unordered (vm Ps ++ [mkv Unordered Q])).
    Proof.
      intros [kp lp] Q (K & F & D) HQ Hn. simpl in *. subst kp. rewrite vadd1_unordered.
      assert (E : existsb (fun M => part_eq M (mkv Unordered Q)) lp = false).
      { apply not_memb1; [apply HQ| |exact Hn]. eapply Forall_impl; [|exact F]. intros a (Ia & _). exact Ia. }
      rewrite E. split; [reflexivity|]. split; [reflexivity|]. simpl. split.
      - apply Forall_app. split; [exact F|]. constructor; [exact HQ|constructor].
      - apply pdistinct_snoc; [exact D|]. intros M HM. split; [now apply Hn|]. simpl.
        intros Hc. apply (Hn M HM). rewrite Forall_forall in F. destruct (F M HM) as (_ & PM). destruct HQ as (_ & PQ).
        simpl in PQ. eapply bincl_sym; eauto.
    Qed.

    Lemma distinct_app_l : forall l1 l2 : list set0, distinct (l1 ++ l2) -> distinct l1.
    Proof.
      induction l1 as [|a l1 IH]; intros l2 D; [constructor|]. simpl in D. inversion D as [|? ? Ha D']; subst.
      constructor; [|eapply IH; eauto]. intros b Hb. apply Ha. apply in_or_app. now left.
    Qed.

    Lemma union_block : forall b t, inv head -> inv b ->
      exists u t', vunion T eqb cmp draw head [b] t = Ok (u, t') /\ isunion u b.
    Proof.
      intros b t Hh Ib.
      destruct (vunion_spec T eqb cmp draw eqb_spec cmp_eq cmp_anti cmp_trans head [b] t Hh
                  (Forall_cons _ Ib (Forall_nil _))) as (u & t1 & Hu & Iu & Ku & Inu & _).
      exists u, t1. split; [exact Hu|]. split; [exact Iu|]. split; [exact Ku|].
      intros x. rewrite (Inu x). simpl. split.
      - intros [[<-|[]]|(r & [<-|[]] & Hr)]; auto.
      - intros [->|H]; [left; now left|right; exists b; split; [now left|exact H]].
    Qed.

    (** what the inner loop appends for the blocks [post] after [pre] *)
    Inductive pin : list set0 -> list set0 -> list set1 -> Prop :=
    | pin_nil : forall pre, pin pre [] []
    | pin_cons : forall pre b post u r, isunion u b -> pin (pre ++ [b]) post r ->
                 pin pre (b :: post) (mkv Unordered (pre ++ u :: post) :: r).

    Lemma part_inner_spec : forall post pre (Ps : vset set1) t Pm,
      Pm = pre ++ post -> is_part k rest Pm -> inv head -> okPs Ps ->
      (forall M pre' b' post' u', In M (vm Ps) -> Pm = pre' ++ b' :: post' -> (length pre <= length pre')%nat ->
         isunion u' b' -> ~ bincl (vm M) (pre' ++ u' :: post')) ->
      exists r t', part_inner T eqb cmp draw head Ps pre post t = Ok (mkv Unordered (vm Ps ++ r), t') /\
        pin pre post r /\ okPs (mkv Unordered (vm Ps ++ r)).
    Proof.
      induction post as [|b post IH]; intros pre Ps t Pm EPm HP Hh HPs Hsep; simpl.
      - exists [], t. rewrite app_nil_r. destruct Ps as [kp lp]. destruct HPs as (K & F & D). simpl in *. subst kp.
        split; [reflexivity|]. split; [constructor|]. split; auto.
      - assert (Hb : In b Pm) by (subst Pm; apply in_or_app; right; now left).
        pose proof HP as (FP & DP & CP). rewrite Forall_forall in FP. destruct (FP b Hb) as (Ib & Kb & Nb).
        destruct (union_block b t Hh Ib) as (u & t1 & Hu & HU).
        assert (HE : ext Pm (pre ++ u :: post)) by (eapply ext_at; eauto).
        pose proof (ext_is_part Pm _ HP HE) as HQ.
        pose proof (is_part_distinct _ _ _ HQ) as DQ.
        assert (FQ : Forall inv (pre ++ u :: post)).
        { destruct HQ as (F & _ & _). eapply Forall_impl; [|exact F]. intros a (Ia & _). exact Ia. }
        (* Q.Add(Pmembers[0:i]...) *)
        unfold vnew. rewrite (vadd_blocks pre []); cbn [app].
        2:{ apply Forall_app in FQ. tauto. }
        2:{ eapply distinct_app_l; eauto. }
        cbn [rbind]. rewrite Hu. cbn [rbind].
        (* Q.Add(head.Union(Pmembers[i])) *)
        change (rbind (vadd1 set0 set_eq (@nocmp set0) (mkv Unordered pre) u) (fun s' => Ok s'))
          with (vadd set0 set_eq (@nocmp set0) (mkv Unordered pre) [u]).
        rewrite (vadd_blocks [u] pre).
        2:{ replace (pre ++ u :: post) with ((pre ++ [u]) ++ post) in FQ by (rewrite <- app_assoc; reflexivity). apply Forall_app in FQ. tauto. }
        2:{ replace (pre ++ u :: post) with ((pre ++ [u]) ++ post) in DQ by (rewrite <- app_assoc; reflexivity). eapply distinct_app_l; eauto. }
        cbn [rbind].
        (* Q.Add(Pmembers[i+1:]...) *)
        rewrite (vadd_blocks post (pre ++ [u])).
        2:{ rewrite <- app_assoc. exact FQ. }
        2:{ rewrite <- app_assoc. exact DQ. }
        cbn [rbind]. replace ((pre ++ [u]) ++ post) with (pre ++ u :: post) by (rewrite <- app_assoc; reflexivity).
        (* Ps.Add(Q) *)
        destruct (add_partition Ps (pre ++ u :: post) HPs (okmem_ext Pm _ HP HE)) as (Hadd & HPs').
        { intros M HM. apply (Hsep M pre b post u HM EPm (le_n _) HU). }
        rewrite Hadd. cbn [rbind].
        destruct (IH (pre ++ [b]) (mkv Unordered (vm Ps ++ [mkv Unordered (pre ++ u :: post)])) t1 Pm
                    ltac:(rewrite <- app_assoc; exact EPm) HP Hh HPs') as (r & t' & Hr & Hpin & HPs'').
        + simpl. intros M pre' b' post' u' HM EPm' Hlen HU'.
          apply in_app_or in HM. destruct HM as [HM|[<-|[]]].
          * apply (Hsep M pre' b' post' u' HM EPm'); [|exact HU']. rewrite app_length in Hlen. simpl in Hlen. lia.
          * simpl. intros Hc.
            assert (Hb' : In b' Pm) by (rewrite EPm'; apply in_or_app; right; now left).
            assert (HE' : ext Pm (pre' ++ u' :: post')) by (eapply ext_at; eauto).
            pose proof (m0rem_bincl _ _ _ _ (ext_is_part Pm _ HP HE') Hc
                          (m0rem_at pre b post u (part_no_m0 Pm b HP Hb) HU)
                          (m0rem_at pre' b' post' u' (part_no_m0 Pm b' HP Hb') HU')) as Hs.
            pose proof (distinct_position Pm pre b post pre' b' post' (is_part_distinct _ _ _ HP) EPm EPm' Hs) as Hl.
            rewrite app_length in Hlen. simpl in Hlen. lia.
        + simpl in Hr. exists (mkv Unordered (pre ++ u :: post) :: r), t'.
          rewrite Hr. split; [f_equal; f_equal; rewrite <- app_assoc; reflexivity|].
          split; [now constructor|]. simpl in HPs''. rewrite <- app_assoc in HPs''. exact HPs''.
    Qed.
    Lemma pin_ext : forall pre post r, pin pre post r ->
      forall M, In M r -> vk M = Unordered /\ ext (pre ++ post) (vm M) /\ length (vm M) = length (pre ++ post).
    Proof.
      induction 1 as [pre|pre b post u r HU Hpin IH]; intros M HM; [destruct HM|].
      destruct HM as [<-|HM].
      - split; [reflexivity|]. simpl. split; [eapply ext_at; eauto|]. rewrite !app_length. reflexivity.
      - rewrite <- app_assoc in IH. simpl in IH. now apply IH.
    Qed.

    Lemma pin_length : forall pre post r, pin pre post r -> length r = length post.
    Proof. induction 1; simpl; auto. Qed.

    Definition okpart (P : set1) : Prop := inv1 P /\ is_part k rest (vm P).

    (** what the outer loop appends for the partitions [parts] of [rest] *)
    Inductive pl : list set1 -> list set1 -> Prop :=
    | pl_nil : pl [] []
    | pl_cons : forall P parts Pm hd r1 r, Permutation Pm (vm P) -> ishead hd -> pin [] Pm r1 -> pl parts r ->
        pl (P :: parts) ((mkv Unordered (hd :: Pm) :: r1) ++ r).

    Lemma ishead_head : inv head -> ishead (vclone T head).
    Proof. intros Hh. split; [exact Hh|]. split; [reflexivity|]. intros x. simpl. intuition. Qed.

    Lemma part_loop_spec : forall parts (Ps : vset set1) t,
      inv head -> okPs Ps -> Forall okpart parts -> pdistinct parts ->
      (forall M P Pm Q, In M (vm Ps) -> In P parts -> Permutation Pm (vm P) -> ext Pm Q -> ~ bincl (vm M) Q) ->
      exists r t', part_loop T eqb cmp draw head Ps parts t = Ok (mkv Unordered (vm Ps ++ r), t') /\
        pl parts r /\ okPs (mkv Unordered (vm Ps ++ r)).
    Proof.
      induction parts as [|P parts IH]; intros Ps t Hh HPs Hok Hpd Hsep.
      - exists [], t. rewrite app_nil_r. destruct Ps as [kp lp]. destruct HPs as (K & F & D). simpl in *. subst kp.
        split; [reflexivity|]. split; [constructor|]. split; auto.
      - pose proof (Forall_inv Hok) as ((KP & IP) & HPP). pose proof (Forall_inv_tail Hok) as Hok'.
        inversion Hpd as [|? ? HdP Hpd']; subst.
        destruct P as [kP lP]. simpl in KP, IP, HPP. subst kP.
        cbn [part_loop]. unfold vall. simpl vk. simpl vm.
        destruct (all_spec set0 draw Unordered lP t) as (Pm & t1 & Hall & PPm & _). rewrite Hall. cbn [rbind].
        assert (HPm : is_part k rest Pm) by (eapply is_part_perm; [symmetry; exact PPm|exact HPP]).
        set (hd := vclone T head).
        pose proof (ishead_head Hh) as Hhd. fold hd in Hhd.
        assert (HE1 : ext Pm (hd :: Pm)) by (constructor; exact Hhd).
        pose proof (ext_is_part Pm _ HPm HE1) as HQ1.
        pose proof (is_part_distinct _ _ _ HQ1) as DQ1.
        assert (FQ1 : Forall inv (hd :: Pm)).
        { destruct HQ1 as (F & _ & _). eapply Forall_impl; [|exact F]. intros a (Ia & _). exact Ia. }
        unfold vnew. rewrite (vadd_blocks [hd] []); cbn [app].
        2:{ constructor; [apply Hhd|constructor]. }
        2:{ constructor; [intros b []|constructor]. }
        cbn [rbind]. rewrite (vadd_blocks Pm [hd]); [|exact FQ1|exact DQ1]. cbn [rbind app].
        destruct (add_partition Ps (hd :: Pm) HPs (okmem_ext Pm _ HPm HE1)) as (Hadd & HPs1).
        { intros M HM. apply (Hsep M _ Pm (hd :: Pm) HM (or_introl eq_refl) PPm HE1). }
        rewrite Hadd. cbn [rbind].
        destruct (part_inner_spec Pm [] (mkv Unordered (vm Ps ++ [mkv Unordered (hd :: Pm)])) t1 Pm eq_refl HPm Hh HPs1)
          as (r1 & t2 & Hr1 & Hpin & HPs2).
        { simpl. intros M pre' b' post' u' HM EPm' _ HU'.
          assert (Hb' : In b' Pm) by (rewrite EPm'; apply in_or_app; right; now left).
          assert (HE' : ext Pm (pre' ++ u' :: post')) by (eapply ext_at; eauto).
          apply in_app_or in HM. destruct HM as [HM|[<-|[]]].
          - apply (Hsep M _ Pm _ HM (or_introl eq_refl) PPm HE').
          - simpl. intros Hc.
            pose proof (m0rem_bincl _ _ _ _ (ext_is_part Pm _ HPm HE') Hc (m0rem_new Pm hd Hhd)
                          (m0rem_at pre' b' post' u' (part_no_m0 Pm b' HPm Hb') HU')) as Hs.
            destruct HPm as (F & _ & _). rewrite Forall_forall in F. destruct (F b' Hb') as (_ & _ & Hne).
            destruct (nonempty_in _ Hne) as (x & Hx). apply (Hs x) in Hx. destruct Hx. }
        rewrite Hr1. cbn [rbind].
        simpl vm in Hr1, HPs2.
        destruct (IH (mkv Unordered ((vm Ps ++ [mkv Unordered (hd :: Pm)]) ++ r1)) t2 Hh HPs2 Hok' Hpd') as (r & t' & Hr & Hpl & HPs3).
        + simpl. intros M P'' Pm'' Q'' HM HP'' PPm'' HE''.
          assert (HokP'' : okpart P'') by (rewrite Forall_forall in Hok'; now apply Hok').
          assert (HPm'' : is_part k rest Pm'') by (eapply is_part_perm; [symmetry; exact PPm''|apply HokP'']).
          assert (Hmine : forall M0, vk M0 = Unordered /\ ext Pm (vm M0) -> ~ bincl (vm M0) Q'').
          { intros M0 (_ & HE0) Hc. pose proof (ext_bincl Pm Pm'' _ _ HPm HPm'' HE0 HE'' Hc) as Hb.
            destruct (HdP P'' HP'') as [Hn _]. apply Hn. simpl.
            eapply bincl_perm_l; [exact PPm|]. eapply bincl_perm_r; [exact PPm''|exact Hb]. }
          apply in_app_or in HM. destruct HM as [HM|HM]; [apply in_app_or in HM; destruct HM as [HM|[<-|[]]]|].
          * apply (Hsep M P'' Pm'' Q'' HM (or_intror HP'') PPm'' HE'').
          * apply Hmine. split; [reflexivity|exact HE1].
          * apply Hmine. destruct (pin_ext _ _ _ Hpin M HM) as (K1 & E1 & _). split; [exact K1|exact E1].
        + exists ((mkv Unordered (hd :: Pm) :: r1) ++ r), t'. simpl vm in Hr. simpl vm. rewrite Hr.
          split; [f_equal; f_equal; rewrite <- !app_assoc; reflexivity|].
          split; [econstructor; eauto|]. simpl vm in HPs3. rewrite <- !app_assoc in HPs3. exact HPs3.
    Qed.
    (** counting by number of blocks *)
    Definition cnt (j : nat) (L : list set1) : nat := length (filter (fun P => Nat.eqb (length (vm P)) j) L).

    Lemma cnt_app : forall j L1 L2, cnt j (L1 ++ L2) = (cnt j L1 + cnt j L2)%nat.
    Proof. intros. unfold cnt. rewrite filter_app, app_length. reflexivity. Qed.

    Lemma cnt_uniform : forall j n L, Forall (fun M => length (vm M) = n) L ->
      cnt j L = if Nat.eqb n j then length L else 0%nat.
    Proof.
      intros j n L H. induction H as [|M L HM H IH]; simpl; [now destruct (Nat.eqb n j)|].
      unfold cnt in *. simpl. rewrite HM. destruct (Nat.eqb n j); simpl; lia.
    Qed.

    Lemma pl_cnt : forall parts r, pl parts r -> forall j,
      cnt j r = (match j with O => 0 | S j' => cnt j' parts end + j * cnt j parts)%nat.
    Proof.
      induction 1 as [|P parts Pm hd r1 r PPm Hhd Hpin Hpl IH]; intros j.
      - destruct j; simpl; unfold cnt; simpl; lia.
      - rewrite cnt_app, (IH j). change (mkv Unordered (hd :: Pm) :: r1) with ([mkv Unordered (hd :: Pm)] ++ r1).
        rewrite cnt_app.
        assert (Hu : Forall (fun M => length (vm M) = length Pm) r1).
        { apply Forall_forall. intros M HM. destruct (pin_ext _ _ _ Hpin M HM) as (_ & _ & L). exact L. }
        rewrite (cnt_uniform j (length Pm) r1 Hu), (pin_length _ _ _ Hpin).
        pose proof (Permutation_length PPm) as LP.
        unfold cnt at 1. simpl filter. unfold cnt at 3 4. simpl filter. rewrite <- LP.
        destruct j as [|j'].
        + simpl. destruct (Nat.eqb (length Pm) 0) eqn:E; [apply Nat.eqb_eq in E; rewrite E|]; simpl; lia.
        + change (Nat.eqb (length (hd :: Pm)) (S j')) with (Nat.eqb (length Pm) j').
          destruct (Nat.eqb (length Pm) j') eqn:E1; destruct (Nat.eqb (length Pm) (S j')) eqn:E2; simpl;
            try (apply Nat.eqb_eq in E1); try (apply Nat.eqb_eq in E2); try lia; unfold cnt; nia.
    Qed.

    Lemma pl_blocks : forall parts r n, pl parts r -> Forall (fun P => (length (vm P) <= n)%nat) parts ->
      Forall (fun M => (length (vm M) <= S n)%nat) r.
    Proof.
      induction 1 as [|P parts Pm hd r1 r PPm Hhd Hpin Hpl IH]; intros HF; [constructor|].
      pose proof (Forall_inv HF) as HP. pose proof (Forall_inv_tail HF) as HF'. simpl in HP.
      pose proof (Permutation_length PPm) as LP.
      apply Forall_app. split; [|now apply IH]. constructor; [simpl; lia|].
      apply Forall_forall. intros M HM. destruct (pin_ext _ _ _ Hpin M HM) as (_ & _ & L). simpl in L. lia.
    Qed.
    (** ** completeness *)
    Lemma pin_complete : forall pre post r, pin pre post r -> forall b, In b post ->
      exists pre' post' u, pre ++ post = pre' ++ b :: post' /\ isunion u b /\ In (mkv Unordered (pre' ++ u :: post')) r.
    Proof.
      induction 1 as [pre|pre b0 post u r HU Hpin IH]; intros b Hb; [destruct Hb|].
      destruct Hb as [<-|Hb].
      - exists pre, post, u. split; [reflexivity|]. split; [exact HU|now left].
      - destruct (IH b Hb) as (pre' & post' & u' & E & HU' & Hin). exists pre', post', u'.
        split; [rewrite <- E, <- app_assoc; reflexivity|]. split; [exact HU'|now right].
    Qed.

    Lemma pl_in : forall parts r P, pl parts r -> In P parts ->
      exists Pm hd r1, Permutation Pm (vm P) /\ ishead hd /\ pin [] Pm r1 /\
        In (mkv Unordered (hd :: Pm)) r /\ (forall M, In M r1 -> In M r).
    Proof.
      induction 1 as [|P0 parts Pm hd r1 r PPm Hhd Hpin Hpl IH]; intros HP; [destruct HP|].
      destruct HP as [<-|HP].
      - exists Pm, hd, r1. split; [exact PPm|]. split; [exact Hhd|]. split; [exact Hpin|]. split; [now left|].
        intros M HM. apply in_or_app. left. now right.
      - destruct (IH HP) as (Pm' & hd' & r1' & A & B & C & D & E). exists Pm', hd', r1'.
        split; [exact A|]. split; [exact B|]. split; [exact C|]. split; [apply in_or_app; now right|].
        intros M HM. apply in_or_app. right. now apply E.
    Qed.

    Definition nonemptyb (B : list T) : bool := match B with [] => false | _ => true end.
    Definition strip_all (R : list (list T)) : list (list T) := filter nonemptyb (map (s_rem m0) R).

    Lemma eq_dec_T : forall x y : T, {x = y} + {x <> y}.
    Proof. intros x y. destruct (eqb x y) eqn:E; [left; now apply eqb_spec|right; intros H; apply eqb_spec in H; congruence]. Qed.

    Lemma strip_all_in : forall R C, In C (strip_all R) <-> exists B, In B R /\ C = s_rem m0 B /\ C <> [].
    Proof.
      intros R C. unfold strip_all. rewrite filter_In, in_map_iff. split.
      - intros ((B & <- & HB) & Hne). exists B. split; [exact HB|]. split; [reflexivity|]. destruct (s_rem m0 B); [discriminate|congruence].
      - intros (B & HB & -> & Hne). split; [exists B; auto|]. destruct (s_rem m0 B); [congruence|reflexivity].
    Qed.

    Lemma strip_all_mpart : forall R, mpart full R -> mpart rest (strip_all R).
    Proof.
      intros R (F & D & C). split; [|split].
      - apply Forall_forall. intros B HB. apply strip_all_in in HB. destruct HB as (_ & _ & _ & Hne). exact Hne.
      - apply mdisj_shrink; [|exact D]. intros B x Hx. apply (s_rem_In T eqb eqb_spec) in Hx. tauto.
      - intros x. split.
        + intros Hx. destruct (proj1 (C x) (or_intror Hx)) as (B & HB & HxB).
          assert (Hxr : In x (s_rem m0 B)).
          { apply (s_rem_In T eqb eqb_spec). split; [exact HxB|]. intros ->. contradiction. }
          exists (s_rem m0 B). split; [|exact Hxr]. apply strip_all_in. exists B. split; [exact HB|]. split; [reflexivity|].
          intros E. rewrite E in Hxr. destruct Hxr.
        + intros (C0 & HC0 & Hx). apply strip_all_in in HC0. destruct HC0 as (B & HB & -> & _).
          apply (s_rem_In T eqb eqb_spec) in Hx. destruct Hx as [HxB Hne].
          assert (In x full) by (apply C; exists B; auto). destruct H as [<-|H]; [congruence|exact H].
    Qed.

    Lemma disj_not_twice : forall pre b post, disj (pre ++ b :: post) -> vm b <> [] -> ~ In b pre /\ ~ In b post.
    Proof.
      intros pre b post D Hne. destruct (nonempty_in _ Hne) as (x & Hx).
      assert (Dp : disj (b :: pre ++ post)) by (eapply disj_perm; [symmetry; apply Permutation_middle|exact D]).
      destruct (disj_inv _ _ Dp) as [Hb _].
      split; intros Hc; apply (Hb b x); auto; apply in_or_app; [now left|now right].
    Qed.

    Lemma ext_complete : forall parts r, pl parts r -> Forall okpart parts -> complete rest parts -> complete full r.
    Proof.
      intros parts r Hpl Hok Hc R HR.
      destruct (Hc (strip_all R) (strip_all_mpart R HR)) as (P & HP & (MP1 & MP2)).
      rewrite Forall_forall in Hok. destruct (Hok P HP) as (_ & HPP).
      destruct (pl_in parts r P Hpl HP) as (Pm & hd & r1 & PPm & Hhd & Hpin & HQ1 & Hr1).
      assert (HPm : is_part k rest Pm) by (eapply is_part_perm; [symmetry; exact PPm|exact HPP]).
      pose proof HR as (FR & DR & CR).
      destruct (proj1 (CR m0) (or_introl eq_refl)) as (B0 & HB0 & Hm0).
      assert (Hother : forall B, In B R -> ~ In m0 B -> s_rem m0 B = B /\ In B (strip_all R)).
      { intros B HB Hn. assert (E : s_rem m0 B = B) by (now apply (s_rem_notin T eqb eqb_spec)).
        split; [exact E|]. apply strip_all_in. exists B. split; [exact HB|]. split; [now symmetry|].
        rewrite Forall_forall in FR. now apply FR. }
      assert (Hm0B : forall B, In B R -> In m0 B -> B = B0).
      { intros B HB Hm. eapply (mdisj_common R B B0 m0); eauto. }
      assert (MPm1 : forall b, In b Pm -> exists C, In C (strip_all R) /\ set_equiv (vm b) C).
      { intros b Hb. apply MP1. eapply Permutation_in; eauto. }
      assert (MPm2 : forall C, In C (strip_all R) -> exists b, In b Pm /\ set_equiv (vm b) C).
      { intros C HC. destruct (MP2 C HC) as (b & Hb & Hs). exists b. split; [|exact Hs]. eapply Permutation_in; [symmetry; exact PPm|exact Hb]. }
      destruct (s_rem m0 B0) as [|y B0'] eqn:EB0.
      - (* the block of m0 is {m0}: the partition that starts with head *)
        exists (mkv Unordered (hd :: Pm)). split; [exact HQ1|]. simpl vm.
        assert (HB0eq : forall x, In x B0 <-> x = m0).
        { intros x. split; [|intros ->; exact Hm0]. intros Hx. destruct (eq_dec_T x m0) as [E|E]; [exact E|].
          assert (In x (s_rem m0 B0)) by (apply (s_rem_In T eqb eqb_spec); auto). rewrite EB0 in H. destruct H. }
        split.
        + intros b [<-|Hb].
          * exists B0. split; [exact HB0|]. intros x. destruct Hhd as (_ & _ & Hh). rewrite (Hh x), (HB0eq x). tauto.
          * destruct (MPm1 b Hb) as (C & HC & Hs). apply strip_all_in in HC. destruct HC as (B & HB & -> & Hne).
            exists B. split; [exact HB|].
            destruct (in_dec eq_dec_T m0 B) as [Hm|Hm].
            -- exfalso. rewrite (Hm0B B HB Hm), EB0 in Hne. congruence.
            -- rewrite (proj1 (Hother B HB Hm)) in Hs. exact Hs.
        + intros B HB. destruct (in_dec eq_dec_T m0 B) as [Hm|Hm].
          * rewrite (Hm0B B HB Hm). exists hd. split; [now left|]. intros x. destruct Hhd as (_ & _ & Hh). rewrite (Hh x), (HB0eq x). tauto.
          * destruct (Hother B HB Hm) as [_ Hin]. destruct (MPm2 B Hin) as (b & Hb & Hs). exists b. split; [now right|exact Hs].
      - (* the block of m0 has other members: they form a block b of P; take the partition that joins m0 to b *)
        assert (HB0' : In (y :: B0') (strip_all R)).
        { apply strip_all_in. exists B0. split; [exact HB0|]. split; [now symmetry|discriminate]. }
        destruct (MPm2 _ HB0') as (b & Hb & Hsb).
        destruct (pin_complete _ _ _ Hpin b Hb) as (pre & post & u & EPm & HU & HQ). simpl in EPm.
        exists (mkv Unordered (pre ++ u :: post)). split; [now apply Hr1|]. simpl vm.
        assert (HuB0 : set_equiv (vm u) B0).
        { intros x. destruct HU as (_ & _ & Hu). rewrite (Hu x), (Hsb x), <- EB0, (s_rem_In T eqb eqb_spec). split.
          - intros [->|[H _]]; auto.
          - intros Hx. destruct (eq_dec_T x m0); auto. }
        pose proof HPm as (FPm & DPm & _). rewrite EPm in DPm.
        assert (Hbne : vm b <> []).
        { rewrite Forall_forall in FPm. now destruct (FPm b Hb) as (_ & _ & ?). }
        destruct (disj_not_twice pre b post DPm Hbne) as [Nbpre Nbpost].
        assert (Hrest : forall c, In c pre \/ In c post -> In c Pm /\ c <> b).
        { intros c Hc'. split; [rewrite EPm; apply in_or_app; destruct Hc'; [now left|right; now right]|].
          intros ->. tauto. }
        split.
        + intros c Hc'. apply in_app_or in Hc'. destruct Hc' as [Hc'|[<-|Hc']]; [|exists B0; auto|].
          1,2: (destruct (Hrest c) as [HcPm Hcb]; [tauto|]);
               destruct (MPm1 c HcPm) as (C & HC & Hs); apply strip_all_in in HC; destruct HC as (B & HB & -> & Hne);
               exists B; (split; [exact HB|]);
               (destruct (in_dec eq_dec_T m0 B) as [Hm|Hm]; [|now rewrite (proj1 (Hother B HB Hm)) in Hs]);
               exfalso; apply Hcb; rewrite (Hm0B B HB Hm), EB0 in Hs;
               rewrite Forall_forall in FPm; destruct (FPm c HcPm) as (_ & _ & Hcne); destruct (nonempty_in _ Hcne) as (x & Hx);
               rewrite <- EPm in DPm; apply (disj_common Pm c b x DPm HcPm Hb Hx); apply Hsb, Hs, Hx.
        + intros B HB. destruct (in_dec eq_dec_T m0 B) as [Hm|Hm].
          * rewrite (Hm0B B HB Hm). exists u. split; [apply in_or_app; right; now left|exact HuB0].
          * destruct (Hother B HB Hm) as [_ Hin]. destruct (MPm2 B Hin) as (c & Hc' & Hs).
            exists c. split; [|exact Hs]. rewrite EPm in Hc'. apply in_app_or in Hc'. destruct Hc' as [Hc'|[<-|Hc']].
            -- apply in_or_app. now left.
            -- exfalso. rewrite Forall_forall in FR. destruct (nonempty_in _ (FR B HB)) as (x & Hx).
               assert (HxB0 : In x B0).
               { assert (In x (s_rem m0 B0)) by (rewrite EB0; apply Hsb, Hs, Hx). apply (s_rem_In T eqb eqb_spec) in H. tauto. }
               apply Hm. rewrite (mdisj_common R B B0 x DR HB HB0 Hx HxB0). exact Hm0.
            -- apply in_or_app. right. now right.
    Qed.
  End Ext.
  Lemma pdistinct_perm : forall l l', Permutation l l' -> pdistinct l -> pdistinct l'.
  Proof.
    induction 1; intros D.
    - exact D.
    - inversion D; subst. constructor; [|auto]. intros b Hb. apply H2. eapply Permutation_in; [symmetry; eauto|exact Hb].
    - inversion D as [|? ? Hy D1]; subst. inversion D1 as [|? ? Hx D2]; subst.
      constructor; [|constructor; [|exact D2]].
      + intros b [<-|Hb]; [destruct (Hy x (or_introl eq_refl)); tauto|now apply Hx].
      + intros b Hb. apply Hy. now right.
    - auto.
  Qed.

  Lemma cnt_perm : forall j L L', Permutation L L' -> cnt j L = cnt j L'.
  Proof.
    intros j L L' HP. unfold cnt. apply Permutation_length.
    induction HP; simpl; auto.
    - destruct (Nat.eqb (length (vm x)) j); auto.
    - destruct (Nat.eqb (length (vm x)) j), (Nat.eqb (length (vm y)) j); auto. apply perm_swap.
    - etransitivity; eauto.
  Qed.

  Definition goodpart (k : kind) (S : list T) (P : set1) : Prop := inv1 P /\ is_part k S (vm P).

  Theorem partitions_spec : forall fuel (s : set0) t, inv s -> (length (vm s) < fuel)%nat ->
    exists Ps t', partitions T eqb cmp draw fuel s t = Ok (Ps, t') /\ vk Ps = Unordered /\
      Forall (goodpart (vk s) (vm s)) (vm Ps) /\
      pdistinct (vm Ps) /\
      (forall j, cnt j (vm Ps) = stirling2 (length (vm s)) j) /\
      Forall (fun P => (length (vm P) <= length (vm s))%nat) (vm Ps) /\
      complete (vm s) (vm Ps).
  Proof.
    induction fuel as [|f IH]; intros s t Hs Hf; [lia|].
    destruct s as [k l]. simpl in Hf. cbn [partitions]. unfold vsize. simpl vm. simpl vk.
    destruct l as [|x0 l0] eqn:El.
    - (* the empty set: the single partition without blocks *)
      simpl Nat.eqb. cbn iota. unfold vnew. cbn [vadd]. rewrite vadd1_unordered. simpl existsb. cbn [rbind app].
      exists (mkv Unordered [mkv Unordered []]), t. split; [reflexivity|]. split; [reflexivity|]. simpl vm.
      split; [|split; [|split; [|split]]].
      + constructor; [|constructor]. split; [split; [reflexivity|constructor]|].
        split; [constructor|]. split; [constructor|]. intros y. simpl. split; [tauto|]. intros (b & [] & _).
      + constructor; [intros b []|constructor].
      + intros [|j]; reflexivity.
      + constructor; [simpl; lia|constructor].
      + intros R (FR & _ & CR). exists (mkv Unordered []). split; [now left|]. split; [intros b []|].
        intros B HB. exfalso. rewrite Forall_forall in FR. destruct (nonempty_in _ (FR B HB)) as (x & Hx).
        apply (CR x). exists B. auto.
    - rewrite <- El in *. assert (Hlen : length l <> 0%nat) by (subst l; simpl; lia).
      replace (Nat.eqb (length l) 0) with false by (symmetry; apply Nat.eqb_neq; exact Hlen).
      destruct (vall_repr T cmp draw k l l t Hs) as (members & t1 & Ha & Hp & _).
      rewrite Ha. cbn [rbind].
      assert (Hlm : length members = length l) by (apply Permutation_length; exact Hp).
      destruct members as [|m0 rest0]; [simpl in Hlm; lia|].
      assert (NDm : NoDup (m0 :: rest0)).
      { eapply Permutation_NoDup; [symmetry; exact Hp|]. eapply repr_NoDup; eauto. }
      destruct (proj1 (NoDup_cons_iff m0 rest0) NDm) as [Nm0 NDrest].
      destruct (vadd_repr T eqb cmp eqb_spec cmp_eq cmp_anti cmp_trans [m0] k [] [] (repr_nil T cmp k)) as (lh & Hh & Rh).
      unfold vcloneEmpty. simpl vk. rewrite Hh. cbn [rbind].
      assert (Elh : lh = [m0]).
      { simpl in Rh. unfold Spec.s_add in Rh. simpl in Rh. pose proof (repr_perm T cmp _ _ _ Rh) as P.
        apply Permutation_sym, Permutation_length_1_inv in P. exact P. }
      subst lh.
      destruct (vadd_repr T eqb cmp eqb_spec cmp_eq cmp_anti cmp_trans rest0 k [] [] (repr_nil T cmp k)) as (lt0 & Ht & Rt).
      rewrite Ht. cbn [rbind].
      rewrite (s_adds_fresh T eqb eqb_spec rest0 [] NDrest) in Rt. simpl in Rt.
      pose proof (repr_inv T cmp _ _ _ Rt) as Itail.
      pose proof (repr_perm T cmp _ _ _ Rt) as Ptail.
      assert (Ltail : length lt0 = length rest0) by (apply Permutation_length; exact Ptail).
      destruct (IH (mkv k lt0) t1 Itail ltac:(simpl in *; lia)) as (PsT & t2 & HPsT & KPsT & FPsT & DPsT & CPsT & BPsT & ComT).
      rewrite HPsT. cbn [rbind]. destruct PsT as [kpt lpt]. simpl in KPsT, FPsT, DPsT, CPsT, BPsT, ComT. subst kpt.
      destruct (all_spec set1 draw Unordered lpt t2) as (parts & t3 & Hparts & Pparts & _).
      unfold vall. simpl vk. simpl vm. rewrite Hparts. cbn [rbind].
      assert (Nm0' : ~ In m0 lt0) by (intros Hc; apply Nm0; eapply Permutation_in; eauto).
      assert (Hok : Forall (okpart k lt0) parts).
      { apply Forall_forall. intros P HP. rewrite Forall_forall in FPsT. apply (FPsT P). eapply Permutation_in; eauto. }
      assert (Hpd : pdistinct parts) by (eapply pdistinct_perm; [symmetry; exact Pparts|exact DPsT]).
      destruct (part_loop_spec k m0 lt0 Nm0' parts (mkv Unordered []) t3 (repr_inv T cmp _ _ _ Rh)) as (r & t' & Hr & Hpl & HPs);
        [split; [reflexivity|split; constructor]|exact Hok|exact Hpd|intros M P Pm Q []|].
      unfold vnew. rewrite Hr. simpl app.
      exists (mkv Unordered r), t'. split; [reflexivity|]. split; [reflexivity|]. simpl vm.
      destruct HPs as (_ & FPs & DPs). simpl in FPs, DPs.
      assert (Hms : forall y, In y (m0 :: lt0) <-> In y l).
      { intros y. split.
        - intros [<-|Hy]; [apply (Permutation_in _ Hp); now left|apply (Permutation_in _ Hp); right; eapply Permutation_in; eauto].
        - intros Hy. apply (Permutation_in _ (Permutation_sym Hp)) in Hy. destruct Hy as [<-|Hy]; [now left|right].
          eapply Permutation_in; [symmetry; exact Ptail|exact Hy]. }
      split; [|split; [|split; [|split]]].
      + eapply Forall_impl; [|exact FPs]. intros M (IM & PM). split; [exact IM|]. eapply is_part_equiv; eauto.
      + exact DPs.
      + intros j. rewrite (pl_cnt k m0 parts r Hpl j). rewrite <- Hlm. simpl length.
        rewrite (cnt_perm j parts lpt Pparts), (CPsT j), Ltail.
        destruct j as [|j'].
        * simpl. lia.
        * rewrite (cnt_perm j' parts lpt Pparts), (CPsT j'), Ltail. simpl stirling2. lia.
      + rewrite <- Hlm. simpl length. rewrite <- Ltail. apply (pl_blocks k m0 parts r (length lt0) Hpl).
        eapply Permutation_Forall; [symmetry; exact Pparts|exact BPsT].
      + intros R HR. apply (ext_complete k m0 lt0 Nm0' parts r Hpl Hok).
        * intros R' HR'. destruct (ComT R' HR') as (P & HP & HM). exists P. split; [|exact HM].
          eapply Permutation_in; [symmetry; exact Pparts|exact HP].
        * eapply mpart_equiv; [|exact HR]. intros y. symmetry. apply Hms.
  Qed.

  Local Open Scope nat_scope.
  Lemma sum_cnt : forall L m, Forall (fun P : set1 => (length (vm P) < m)%nat) L ->
    length L = fold_right plus 0%nat (map (fun j => cnt j L) (seq 0 m)).
  Proof.
    induction L as [|P L IH]; intros m H.
    - simpl. induction (seq 0 m); simpl; auto.
    - pose proof (Forall_inv H) as HP. pose proof (Forall_inv_tail H) as HL. simpl in HP.
      simpl length. rewrite (IH m HL).
      assert (Hc : forall j, cnt j (P :: L) = ((if Nat.eqb (length (vm P)) j then 1%nat else 0%nat) + cnt j L)%nat).
      { intros j. unfold cnt. simpl. destruct (Nat.eqb (length (vm P)) j); reflexivity. }
      assert (Hsum : forall a n, fold_right plus 0%nat (map (fun j => cnt j (P :: L)) (seq a n)) =
                (fold_right plus 0%nat (map (fun j => if Nat.eqb (length (vm P)) j then 1%nat else 0%nat) (seq a n)) +
                 fold_right plus 0%nat (map (fun j => cnt j L) (seq a n)))%nat).
      { intros a n. revert a. induction n as [|n IHn]; intros a; simpl; [reflexivity|]. rewrite IHn, Hc. lia. }
      rewrite Hsum.
      assert (Hone : forall n a, fold_right plus 0%nat (map (fun j => if Nat.eqb (length (vm P)) j then 1%nat else 0%nat) (seq a n)) =
                if (a <=? length (vm P)) && (length (vm P) <? a + n) then 1%nat else 0%nat).
      { set (p := length (vm P)). induction n as [|n IHn]; intros a; cbn [seq map fold_right].
        - destruct (Nat.leb_spec a p); destruct (Nat.ltb_spec p (a + 0)); simpl; try reflexivity; lia.
        - rewrite IHn.
          destruct (Nat.eqb_spec p a); destruct (Nat.leb_spec (S a) p); destruct (Nat.ltb_spec p (S a + n));
            destruct (Nat.leb_spec a p); destruct (Nat.ltb_spec p (a + S n)); simpl; try reflexivity; lia. }
      rewrite Hone. destruct (Nat.leb_spec 0 (length (vm P))); destruct (Nat.ltb_spec (length (vm P)) (0 + m)); simpl; try reflexivity; lia.
  Qed.

  Corollary partitions_count : forall fuel (s : set0) t Ps t', inv s -> (length (vm s) < fuel)%nat ->
    partitions T eqb cmp draw fuel s t = Ok (Ps, t') -> length (vm Ps) = bell (length (vm s)).
  Proof.
    intros fuel s t Ps t' Hs Hf HP.
    destruct (partitions_spec fuel s t Hs Hf) as (Ps0 & t0 & H0 & _ & _ & _ & Hc & Hb & _).
    rewrite HP in H0. inversion H0; subst Ps0 t0.
    unfold bell. rewrite (sum_cnt (vm Ps) (S (length (vm s)))).
    - f_equal. apply map_ext. intros j. apply Hc.
    - eapply Forall_impl; [|exact Hb]. intros P HPl. simpl in *. lia.
  Qed.
End Part.
