(** C16 — specification vocabulary: mathematical finite sets as duplicate-free lists, what it
    means for a member sequence to represent one, histories of mutators, programs over several
    set objects.  Definitions only. *)
From Coq Require Import Permutation Sorted.
From Algo.C16 Require Import Model.
Local Open Scope Z_scope.

Section Spec.
  Variable A : Type.
  Variable eqb : A -> A -> bool.
  Variable cmp : A -> A -> Z.

  Definition memb (l : list A) (v : A) : bool := existsb (fun m => eqb m v) l.

  (** the order the comparator induces *)
  Definition lt (x y : A) : Prop := cmp x y < 0.

  (** a mathematical set: a duplicate-free list (elements in order of insertion);
      two of them denote the same set when they have the same elements *)
  Definition s_add (v : A) (S : list A) : list A := if memb S v then S else S ++ [v].
  Definition s_rem (v : A) (S : list A) : list A := filter (fun x => negb (eqb x v)) S.
  Definition s_adds (vs : list A) (S : list A) : list A := fold_left (fun S v => s_add v S) vs S.
  Definition s_rems (vs : list A) (S : list A) : list A := fold_left (fun S v => s_rem v S) vs S.
  Definition set_equiv (S1 S2 : list A) : Prop := forall x, In x S1 <-> In x S2.

  (** [repr k S l]: the member sequence [l] of a set of kind [k] represents the set [S]:
      insertion order for the unordered (slot order) and the stable set, the comparator-sorted
      permutation for the sorted set. *)
  Definition repr (k : kind) (S l : list A) : Prop :=
    NoDup S /\ match k with Sorted => StronglySorted lt l /\ Permutation l S | _ => l = S end.

  (** well-formed set value: duplicate-free, and sorted when its kind says so *)
  Definition inv (s : vset A) : Prop := repr (vk s) (vm s) (vm s).

  (** histories of mutators on one set *)
  Inductive mut := MAdd (vs : list A) | MRemove (vs : list A) | MRemoveAll.

  Definition vstep (s : vset A) (m : mut) : res (vset A) :=
    match m with
    | MAdd vs => vadd A eqb cmp s vs
    | MRemove vs => vremove A eqb cmp s vs
    | MRemoveAll => Ok (vremoveAll A s)
    end.

  Fixpoint vrun_hist (s : vset A) (h : list mut) : res (vset A) :=
    match h with [] => Ok s | m :: h' => s' <- vstep s m ;; vrun_hist s' h' end.

  Definition s_step (S : list A) (m : mut) : list A :=
    match m with MAdd vs => s_adds vs S | MRemove vs => s_rems vs S | MRemoveAll => [] end.

  Definition s_run (h : list mut) : list A := fold_left s_step h [].
End Spec.
