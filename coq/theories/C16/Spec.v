(** C16 — specification vocabulary: mathematical finite sets as duplicate-free lists, what it
    means for a member sequence to represent one, histories of mutators, programs over several
    set objects.  Definitions only. *)
From Coq Require Import Permutation Sorted.
From Algo.C16 Require Import Model.
Local Open Scope Z_scope.

(** the strict order a comparator induces *)
Definition ltc {A : Type} (cmp : A -> A -> Z) (x y : A) : Prop := cmp x y < 0.

Section Spec.
  Variable A : Type.
  Variable eqb : A -> A -> bool.
  Variable cmp : nat -> A -> A -> Z.    (* the comparator of each sorted set, by index *)

  Definition memb (l : list A) (v : A) : bool := existsb (fun m => eqb m v) l.

  (** kinds whose member sequence is the insertion order *)
  Definition linear (k : kind) : Prop := match k with Sorted _ => False | _ => True end.

  (** a mathematical set: a duplicate-free list (elements in order of insertion);
      two of them denote the same set when they have the same elements *)
  Definition s_add (v : A) (S : list A) : list A := if memb S v then S else S ++ [v].
  Definition s_rem (v : A) (S : list A) : list A := filter (fun x => negb (eqb x v)) S.
  Definition s_adds (vs : list A) (S : list A) : list A := fold_left (fun S v => s_add v S) vs S.
  Definition s_rems (vs : list A) (S : list A) : list A := fold_left (fun S v => s_rem v S) vs S.
  Definition set_equiv (S1 S2 : list A) : Prop := forall x, In x S1 <-> In x S2.

  (** [repr k S l]: the member sequence [l] of a set of kind [k] represents the set [S]:
      insertion order for the unordered (slot order) and the stable set, the permutation sorted
      by the set's own comparator for a sorted set. *)
  Definition repr (k : kind) (S l : list A) : Prop :=
    NoDup S /\ match k with Sorted c => StronglySorted (ltc (cmp c)) l /\ Permutation l S | _ => l = S end.

  (** well-formed set value: duplicate-free, and sorted when its kind says so *)
  Definition inv (s : vset A) : Prop := repr (vk s) (vm s) (vm s).

  (** histories of mutators on one set *)
  Inductive mut := MAdd (vs : list A) | MRemove (vs : list A) | MRemoveAll.

  Definition vstep (s : vset A) (m : mut) : res (vset A) :=
    match m with
    | MAdd vs => vadd A eqb cmp s vs
    | MRemove vs => vremove A eqb cmp s vs
    | MRemoveAll => Ok (vremoveAll A s)
    end.

  Fixpoint vrun_hist (s : vset A) (h : list mut) : res (vset A) :=
    match h with [] => Ok s | m :: h' => s' <- vstep s m ;; vrun_hist s' h' end.

  Definition s_step (S : list A) (m : mut) : list A :=
    match m with MAdd vs => s_adds vs S | MRemove vs => s_rems vs S | MRemoveAll => [] end.

  Definition s_run (h : list mut) : list A := fold_left s_step h [].
End Spec.

(** * Programs over several set objects: the same command language interpreted on the heap
    layer ([hexec]) and on the value layer ([vexec]: a state is the list of set values, an
    operand is looked up, never changed; only mutators replace the entry of their receiver). *)
Section Programs.
  Variable T : Type.
  Variable zero : T.
  Variable grow : nat -> nat -> nat.
  Variable eqb : T -> T -> bool.
  Variable cmp : nat -> T -> T -> Z.
  Variable draw : nat -> nat.

  Inductive cmd :=
  | CNew (k : kind)
  | CAdd (r : nat) (vs : list T) | CRemove (r : nat) (vs : list T) | CRemoveAll (r : nat)
  | CContains (r : nat) (vs : list T) | CSize (r : nat) | CIsEmpty (r : nat) | CAll (r : nat)
  | CEqual (a b : nat) | CIsSubset (a b : nat) | CIsSuperset (a b : nat)
  | CClone (r : nat) | CCloneEmpty (r : nat)
  | CUnion (r : nat) (rs : list nat) | CIntersection (r : nat) (rs : list nat) | CDifference (r : nat) (rs : list nat)
  | CAnyMatch (r : nat) (p : T -> bool) | CAllMatch (r : nat) (p : T -> bool) | CFirstMatch (r : nat) (p : T -> bool)
  | CSelectMatch (r : nat) (p : T -> bool) | CPartitionMatch (r : nat) (p : T -> bool).

  Inductive out :=
  | OUnit | OBool (b : bool) | ONat (n : nat) | OList (l : list T) | OOpt (o : option T)
  | ORef (r : nat) | ORefs (a b : nat).

  (** the object a command is entitled to change *)
  Definition target (c : cmd) : option nat :=
    match c with CAdd r _ | CRemove r _ | CRemoveAll r => Some r | _ => None end.

  Record vstate := mkvs { vobjs : list (vset T); vtick : nat }.

  Definition vget (st : vstate) (r : nat) : res (vset T) :=
    match nth_error (vobjs st) r with Some s => Ok s | None => Panic BadRef end.

  Fixpoint vgets (st : vstate) (rs : list nat) : res (list (vset T)) :=
    match rs with
    | [] => Ok []
    | r :: rs' => s <- vget st r ;; ss <- vgets st rs' ;; Ok (s :: ss)
    end.

  Definition vput (st : vstate) (r : nat) (s : vset T) : vstate := mkvs (set_nth (vobjs st) r s) (vtick st).
  Definition vpush (st : vstate) (s : vset T) (t : nat) : vstate := mkvs (vobjs st ++ [s]) t.

  Definition vexec (st : vstate) (c : cmd) : res (out * vstate) :=
    let n := length (vobjs st) in
    match c with
    | CNew k => Ok (ORef n, vpush st (vnew T k) (vtick st))
    | CAdd r vs => s <- vget st r ;; s' <- vadd T eqb cmp s vs ;; Ok (OUnit, vput st r s')
    | CRemove r vs => s <- vget st r ;; s' <- vremove T eqb cmp s vs ;; Ok (OUnit, vput st r s')
    | CRemoveAll r => s <- vget st r ;; Ok (OUnit, vput st r (vremoveAll T s))
    | CContains r vs => s <- vget st r ;; b <- vcontains T eqb cmp s vs ;; Ok (OBool b, st)
    | CSize r => s <- vget st r ;; Ok (ONat (vsize T s), st)
    | CIsEmpty r => s <- vget st r ;; Ok (OBool (visEmpty T s), st)
    | CAll r => s <- vget st r ;; '(ms, t) <- vall T draw s (vtick st) ;; Ok (OList ms, mkvs (vobjs st) t)
    | CEqual a b => sa <- vget st a ;; sb <- vget st b ;; r <- vequal T eqb cmp sa sb ;; Ok (OBool r, st)
    | CIsSubset a b => sa <- vget st a ;; sb <- vget st b ;;
                       '(r, t) <- visSubset T eqb cmp draw sa sb (vtick st) ;; Ok (OBool r, mkvs (vobjs st) t)
    | CIsSuperset a b => sa <- vget st a ;; sb <- vget st b ;;
                         '(r, t) <- visSuperset T eqb cmp draw sa sb (vtick st) ;; Ok (OBool r, mkvs (vobjs st) t)
    | CClone r => s <- vget st r ;; Ok (ORef n, vpush st (vclone T s) (vtick st))
    | CCloneEmpty r => s <- vget st r ;; Ok (ORef n, vpush st (vcloneEmpty T s) (vtick st))
    | CUnion r rs => s <- vget st r ;; ss <- vgets st rs ;;
                     '(u, t) <- vunion T eqb cmp draw s ss (vtick st) ;; Ok (ORef n, vpush st u t)
    | CIntersection r rs => s <- vget st r ;; ss <- vgets st rs ;;
                            u <- vintersection T eqb cmp s ss ;; Ok (ORef n, vpush st u (vtick st))
    | CDifference r rs => s <- vget st r ;; ss <- vgets st rs ;;
                          '(u, t) <- vdifference T eqb cmp draw s ss (vtick st) ;; Ok (ORef n, vpush st u t)
    | CAnyMatch r p => s <- vget st r ;; Ok (OBool (vanyMatch T s p), st)
    | CAllMatch r p => s <- vget st r ;; Ok (OBool (vallMatch T s p), st)
    | CFirstMatch r p => s <- vget st r ;; Ok (OOpt (vfirstMatch T s p), st)
    | CSelectMatch r p => s <- vget st r ;; u <- vselectMatch T eqb cmp s p ;; Ok (ORef n, vpush st u (vtick st))
    | CPartitionMatch r p => s <- vget st r ;; '(a, b) <- vpartitionMatch T eqb cmp s p ;;
                             Ok (ORefs n (S n), mkvs (vobjs st ++ [a; b]) (vtick st))
    end.


  Definition hexec (h : heap T) (c : cmd) : res (out * heap T) :=
    match c with
    | CNew k => let '(r, h') := h_new T zero h k in Ok (ORef r, h')
    | CAdd r vs => h' <- h_add T zero grow eqb cmp h r vs ;; Ok (OUnit, h')
    | CRemove r vs => h' <- h_remove T zero grow eqb cmp h r vs ;; Ok (OUnit, h')
    | CRemoveAll r => h' <- h_removeAll T zero h r ;; Ok (OUnit, h')
    | CContains r vs => b <- h_contains T eqb cmp h r vs ;; Ok (OBool b, h)
    | CSize r => n <- h_size T h r ;; Ok (ONat n, h)
    | CIsEmpty r => b <- h_isEmpty T h r ;; Ok (OBool b, h)
    | CAll r => '(ms, h') <- h_all T draw h r ;; Ok (OList ms, h')
    | CEqual a b => r <- h_equal T eqb cmp h a b ;; Ok (OBool r, h)
    | CIsSubset a b => '(r, h') <- h_isSubset T eqb cmp draw h a b ;; Ok (OBool r, h')
    | CIsSuperset a b => '(r, h') <- h_isSuperset T eqb cmp draw h a b ;; Ok (OBool r, h')
    | CClone r => '(c, h') <- h_clone T zero h r ;; Ok (ORef c, h')
    | CCloneEmpty r => '(c, h') <- h_cloneEmpty T zero h r ;; Ok (ORef c, h')
    | CUnion r rs => '(c, h') <- h_union T zero grow eqb cmp draw h r rs ;; Ok (ORef c, h')
    | CIntersection r rs => '(c, h') <- h_intersection T zero grow eqb cmp h r rs ;; Ok (ORef c, h')
    | CDifference r rs => '(c, h') <- h_difference T zero grow eqb cmp draw h r rs ;; Ok (ORef c, h')
    | CAnyMatch r p => b <- h_anyMatch T h r p ;; Ok (OBool b, h)
    | CAllMatch r p => b <- h_allMatch T h r p ;; Ok (OBool b, h)
    | CFirstMatch r p => o <- h_firstMatch T h r p ;; Ok (OOpt o, h)
    | CSelectMatch r p => '(c, h') <- h_selectMatch T zero grow eqb cmp h r p ;; Ok (ORef c, h')
    | CPartitionMatch r p => '(a, b, h') <- h_partitionMatch T zero grow eqb cmp h r p ;; Ok (ORefs a b, h')
    end.

  Fixpoint vrun (st : vstate) (cs : list cmd) : res (list out * vstate) :=
    match cs with
    | [] => Ok ([], st)
    | c :: cs' => '(o, st1) <- vexec st c ;; '(os, st2) <- vrun st1 cs' ;; Ok (o :: os, st2)
    end.

  Fixpoint hrun (h : heap T) (cs : list cmd) : res (list out * heap T) :=
    match cs with
    | [] => Ok ([], h)
    | c :: cs' => '(o, h1) <- hexec h c ;; '(os, h2) <- hrun h1 cs' ;; Ok (o :: os, h2)
    end.

  (** every object reference of a command denotes an existing object *)
  Definition refs (c : cmd) : list nat :=
    match c with
    | CNew _ => []
    | CAdd r _ | CRemove r _ | CRemoveAll r | CContains r _ | CSize r | CIsEmpty r | CAll r
    | CClone r | CCloneEmpty r | CAnyMatch r _ | CAllMatch r _ | CFirstMatch r _
    | CSelectMatch r _ | CPartitionMatch r _ => [r]
    | CEqual a b | CIsSubset a b | CIsSuperset a b => [a; b]
    | CUnion r rs | CIntersection r rs | CDifference r rs => r :: rs
    end.
End Programs.
