(** C16 — the heap layer simulates the value layer, for every growth policy of [append].

    [abs h] reads every object of the heap [h] as a set value.  Each heap operation, run on a
    well-formed heap, succeeds whenever the value-layer operation does, returns the same
    result, changes the abstraction only at the object it is entitled to change (or appends
    the abstraction of the new object), and keeps the heap well-formed.  Well-formedness
    contains the ownership discipline that makes this true: distinct objects never share a
    backing array.  No law about the equality function or the comparator is needed. *)
From Coq Require Import Lia.
From Algo.C16 Require Import Model Spec ProofsList ProofsSet.

Arguments arrs {T} h.
Arguments objs {T} h.
Arguments tick {T} h.
Arguments mkheap {T} arrs objs tick.

Section HeapProofs.
  Variable T : Type.
  Variable zero : T.
  Variable grow : nat -> nat -> nat.
  Variable eqb : T -> T -> bool.
  Variable cmp : nat -> T -> T -> Z.
  Variable draw : nat -> nat.
  Hypothesis grow_ok : forall c n, n <= grow c n.

  Notation store := (store T).
  Notation heap := (heap T).
  Notation vset := (vset T).

  (** ** lists by index *)
  Lemma list_ext : forall (l1 l2 : list T), (forall k, nth_error l1 k = nth_error l2 k) -> l1 = l2.
  Proof.
    induction l1 as [|a l1 IH]; intros [|b l2] H; auto.
    - specialize (H 0). discriminate.
    - specialize (H 0). discriminate.
    - f_equal; [specialize (H 0); now inversion H|]. apply IH. intros k. exact (H (S k)).
  Qed.

  Lemma nth_error_firstn' : forall (l : list T) n k,
    nth_error (firstn n l) k = if k <? n then nth_error l k else None.
  Proof.
    induction l as [|a l IH]; intros [|n] [|k]; try reflexivity.
    - change (S k <? S n) with (k <? n). simpl. now destruct (k <? n).
    - change (S k <? S n) with (k <? n). simpl. apply IH.
  Qed.

  Lemma nth_error_skipn' : forall (l : list T) i k, nth_error (skipn i l) k = nth_error l (i + k).
  Proof.
    induction l as [|a l IH]; intros [|i] k; simpl; auto. now destruct k.
  Qed.

  Lemma nth_error_app' : forall (l1 l2 : list T) k,
    nth_error (l1 ++ l2) k = if k <? length l1 then nth_error l1 k else nth_error l2 (k - length l1).
  Proof.
    intros l1 l2 k. destruct (k <? length l1) eqn:E.
    - apply Nat.ltb_lt in E. now apply nth_error_app1.
    - apply Nat.ltb_ge in E. now apply nth_error_app2.
  Qed.

  Lemma nth_error_repeat' : forall (x : T) n k, nth_error (repeat x n) k = if k <? n then Some x else None.
  Proof.
    induction n as [|n IH]; intros [|k]; try reflexivity.
    change (S k <? S n) with (k <? n). simpl. apply IH.
  Qed.

  Definition sub (a : list T) (i n : nat) : list T := firstn n (skipn i a).

  Lemma nth_error_sub : forall a i n k,
    nth_error (sub a i n) k = if k <? n then nth_error a (i + k) else None.
  Proof. intros. unfold sub. rewrite nth_error_firstn', nth_error_skipn'. reflexivity. Qed.

  Lemma sub_length : forall a i n, i + n <= length a -> length (sub a i n) = n.
  Proof. intros. unfold sub. rewrite firstn_length, skipn_length. lia. Qed.

  Lemma nth_error_put_range : forall (a : list T) i vs k, i + length vs <= length a ->
    nth_error (put_range T a i vs) k =
      if k <? i then nth_error a k
      else if k <? i + length vs then nth_error vs (k - i) else nth_error a k.
  Proof.
    intros a i vs k H. unfold put_range.
    rewrite nth_error_app', firstn_length, Nat.min_l by lia.
    destruct (k <? i) eqn:E1.
    - rewrite nth_error_firstn', E1. reflexivity.
    - apply Nat.ltb_ge in E1. rewrite nth_error_app'.
      destruct (k - i <? length vs) eqn:E2.
      + apply Nat.ltb_lt in E2. replace (k <? i + length vs) with true by (symmetry; apply Nat.ltb_lt; lia). reflexivity.
      + apply Nat.ltb_ge in E2. replace (k <? i + length vs) with false by (symmetry; apply Nat.ltb_ge; lia).
        rewrite nth_error_skipn'. f_equal. lia.
  Qed.

  Lemma put_range_length : forall (a : list T) i vs, i + length vs <= length a ->
    length (put_range T a i vs) = length a.
  Proof.
    intros a i vs H. unfold put_range. rewrite !app_length, firstn_length, skipn_length. lia.
  Qed.

  Lemma nth_error_None' : forall (l : list T) k, length l <= k -> nth_error l k = None.
  Proof. intros. now apply nth_error_None. Qed.

  Ltac cases :=
    repeat match goal with
    | |- context [?a <? ?b] =>
        let E := fresh "E" in destruct (a <? b) eqn:E; [apply Nat.ltb_lt in E|apply Nat.ltb_ge in E]
    end.

  (** ** slice headers on a store *)
  Definition wf_hdr (st : store) (m : hdr) : Prop :=
    exists a, nth_error st (arr m) = Some a /\ off m + cap m <= length a /\ len m <= cap m.

  Definition rd (st : store) (m : hdr) : list T :=
    match nth_error st (arr m) with Some a => sub a (off m) (len m) | None => [] end.

  Lemma sl_array_wf : forall st m, wf_hdr st m ->
    exists a, nth_error st (arr m) = Some a /\ sl_array T st m = Ok a /\ off m + cap m <= length a /\ len m <= cap m.
  Proof.
    intros st m (a & H1 & H2 & H3). exists a. unfold sl_array. rewrite H1.
    replace (off m + cap m <=? length a) with true by (symmetry; apply Nat.leb_le; lia).
    replace (len m <=? cap m) with true by (symmetry; apply Nat.leb_le; lia). auto.
  Qed.

  Lemma sl_read_wf : forall st m, wf_hdr st m -> sl_read T st m = Ok (rd st m).
  Proof.
    intros st m H. destruct (sl_array_wf st m H) as (a & H1 & H2 & _).
    unfold sl_read, rd. rewrite H2, H1. reflexivity.
  Qed.

  Lemma rd_length : forall st m, wf_hdr st m -> length (rd st m) = len m.
  Proof.
    intros st m (a & H1 & H2 & H3). unfold rd. rewrite H1. apply sub_length. lia.
  Qed.

  (** [sframe a st st']: going from [st] to [st'] only array [a] and freshly allocated arrays
      may differ, and no array changes its length *)
  Definition sframe (a : nat) (st st' : store) : Prop :=
    length st <= length st' /\
    (forall b x, nth_error st b = Some x -> b <> a -> nth_error st' b = Some x) /\
    (forall x, nth_error st a = Some x -> exists x', nth_error st' a = Some x' /\ length x' = length x).

  Lemma sframe_refl : forall a st, sframe a st st.
  Proof. intros. split; [lia|]. split; eauto. Qed.

  Lemma sframe_trans : forall a b st0 st1 st2,
    sframe a st0 st1 -> sframe b st1 st2 -> (b = a \/ length st0 <= b) -> sframe a st0 st2.
  Proof.
    intros a b st0 st1 st2 (L1 & F1 & S1) (L2 & F2 & S2) Hb. split; [lia|]. split.
    - intros c x Hc Hne. apply F2; [now apply F1|].
      assert (c < length st0) by (apply nth_error_Some; congruence). destruct Hb; lia.
    - intros x Hx. destruct (S1 x Hx) as (x1 & Hx1 & Hl1).
      destruct (Nat.eq_dec b a) as [->|Hne].
      + destruct (S2 x1 Hx1) as (x2 & Hx2 & Hl2). exists x2. split; [exact Hx2|lia].
      + exists x1. split; [apply F2; auto|exact Hl1].
  Qed.

  Lemma sframe_weaken : forall a b st st', sframe b st st' -> length st <= b -> sframe a st st'.
  Proof.
    intros a b st st' (L & F & S) Hb. split; [exact L|]. split.
    - intros c x Hc _. apply F; [exact Hc|]. assert (c < length st) by (apply nth_error_Some; congruence). lia.
    - intros x Hx. exists x. split; [|reflexivity]. apply F; [exact Hx|].
      assert (a < length st) by (apply nth_error_Some; congruence). lia.
  Qed.

  Lemma sframe_app : forall a st x, sframe a st (st ++ [x]).
  Proof.
    intros a st x. split; [rewrite app_length; lia|]. split.
    - intros b y Hb _. rewrite nth_error_app1; [exact Hb|]. apply nth_error_Some. congruence.
    - intros y Hy. exists y. split; [|reflexivity]. rewrite nth_error_app1; [exact Hy|]. apply nth_error_Some. congruence.
  Qed.

  Lemma sframe_set : forall (st : store) a x x', nth_error st a = Some x -> length x' = length x ->
    sframe a st (set_nth st a x').
  Proof.
    intros st a x x' Hx Hl. split; [rewrite set_nth_length; lia|]. split.
    - intros b y Hb Hne. rewrite nth_error_set_nth_neq by congruence. exact Hb.
    - intros y Hy. exists x'. split; [|congruence]. apply nth_error_set_nth_eq. apply nth_error_Some. congruence.
  Qed.

  Lemma wf_frame : forall a st st' m, sframe a st st' -> wf_hdr st m -> wf_hdr st' m.
  Proof.
    intros a st st' m (L & F & S) (x & H1 & H2 & H3).
    destruct (Nat.eq_dec (arr m) a) as [E|E].
    - subst a. destruct (S x H1) as (x' & Hx' & Hl). exists x'. split; [exact Hx'|]. split; lia.
    - exists x. split; [now apply F|]. split; lia.
  Qed.

  Lemma rd_frame : forall a st st' m, sframe a st st' -> wf_hdr st m -> arr m <> a -> rd st' m = rd st m.
  Proof.
    intros a st st' m (L & F & S) (x & H1 & H2 & H3) Hne. unfold rd. rewrite H1, (F _ _ H1 Hne). reflexivity.
  Qed.

  (** make *)
  Lemma sl_make_spec : forall st n c, n <= c ->
    let st' := fst (sl_make T zero st n c) in let m := snd (sl_make T zero st n c) in
    st' = st ++ [repeat zero c] /\ arr m = length st /\ len m = n /\ wf_hdr st' m /\ rd st' m = repeat zero n.
  Proof.
    intros st n c H. simpl. split; [reflexivity|]. split; [reflexivity|]. split; [reflexivity|]. split.
    - exists (repeat zero c). simpl. rewrite nth_error_app2, Nat.sub_diag by lia. simpl.
      rewrite repeat_length. split; [reflexivity|lia].
    - unfold rd. simpl. rewrite nth_error_app2, Nat.sub_diag by lia. simpl.
      apply list_ext. intros k. rewrite nth_error_sub, !nth_error_repeat'. simpl. cases; auto; lia.
  Qed.

  (** write *)
  Lemma sl_write_spec : forall st m pos vs, wf_hdr st m -> pos + length vs <= cap m ->
    exists st' a, sl_write T st m pos vs = Ok st' /\ sframe (arr m) st st' /\
      nth_error st (arr m) = Some a /\ nth_error st' (arr m) = Some (put_range T a (off m + pos) vs).
  Proof.
    intros st m pos vs H Hp. destruct (sl_array_wf st m H) as (a & H1 & H2 & H3 & H4).
    unfold sl_write. rewrite H2. simpl.
    replace (pos + length vs <=? cap m) with true by (symmetry; apply Nat.leb_le; lia).
    eexists; exists a. split; [reflexivity|]. split; [|split; [exact H1|]].
    - apply (sframe_set st (arr m) a); [exact H1|]. apply put_range_length. lia.
    - apply nth_error_set_nth_eq. apply nth_error_Some. congruence.
  Qed.

  (** re-slicing *)
  Lemma sl_reslice_spec : forall st m lo hi, wf_hdr st m -> lo <= hi -> hi <= cap m ->
    exists m', sl_reslice m lo hi = Ok m' /\ arr m' = arr m /\ off m' = off m + lo /\
      len m' = hi - lo /\ cap m' = cap m - lo /\ wf_hdr st m'.
  Proof.
    intros st m lo hi (a & H1 & H2 & H3) Hl Hh. unfold sl_reslice.
    replace (lo <=? hi) with true by (symmetry; apply Nat.leb_le; lia).
    replace (hi <=? cap m) with true by (symmetry; apply Nat.leb_le; lia). simpl.
    eexists; split; [reflexivity|]. simpl. repeat (split; [reflexivity|]).
    exists a. simpl. split; [exact H1|]. split; lia.
  Qed.

  Lemma rd_reslice : forall st m m' lo hi, wf_hdr st m -> hi <= len m -> lo <= hi ->
    arr m' = arr m -> off m' = off m + lo -> len m' = hi - lo ->
    rd st m' = firstn (hi - lo) (skipn lo (rd st m)).
  Proof.
    intros st m m' lo hi (a & H1 & H2 & H3) Hh Hl Ea Eo El. unfold rd. rewrite Ea, H1, Eo, El.
    apply list_ext. intros k. rewrite nth_error_firstn', nth_error_skipn', !nth_error_sub.
    cases; auto; try lia. f_equal. lia.
  Qed.

  (** append *)
  Lemma sl_append_spec : forall st m vs, wf_hdr st m ->
    exists st' m', sl_append T zero grow st m vs = Ok (st', m') /\ sframe (arr m) st st' /\ wf_hdr st' m' /\
      (arr m' = arr m \/ (arr m' = length st /\ length st < length st')) /\
      rd st' m' = rd st m ++ vs /\ len m' = len m + length vs.
  Proof.
    intros st m vs H. unfold sl_append.
    destruct (len m + length vs <=? cap m) eqn:E.
    - apply Nat.leb_le in E.
      destruct (sl_write_spec st m (len m) vs H E) as (st' & a & Hw & Hf & Ha & Ha').
      rewrite Hw. simpl. eexists; eexists; split; [reflexivity|]. split; [exact Hf|].
      destruct H as (a0 & H1 & H2 & H3). assert (a0 = a) by congruence. subst a0.
      split; [|split; [now left|split; [|reflexivity]]].
      + exists (put_range T a (off m + len m) vs). simpl. split; [exact Ha'|].
        rewrite put_range_length by lia. lia.
      + unfold rd. simpl. rewrite Ha', Ha. apply list_ext. intros k.
        rewrite nth_error_sub, nth_error_put_range, nth_error_app', sub_length, nth_error_sub by lia.
        cases; auto; try lia; try (f_equal; lia). symmetry. apply nth_error_None'. lia.
    - apply Nat.leb_gt in E. rewrite (sl_read_wf st m H). simpl.
      pose proof (rd_length st m H) as Hl.
      set (need := len m + length vs) in *.
      pose proof (grow_ok (cap m) need) as Hg.
      eexists; eexists; split; [reflexivity|]. split; [apply sframe_app|].
      split; [|split; [right; simpl; rewrite app_length; simpl; lia|split; [|reflexivity]]].
      + eexists. simpl. rewrite nth_error_app2, Nat.sub_diag by lia. simpl. split; [reflexivity|].
        rewrite !app_length, repeat_length, Hl. lia.
      + unfold rd at 1. simpl. rewrite nth_error_app2, Nat.sub_diag by lia. simpl.
        apply list_ext. intros k. rewrite nth_error_sub. simpl.
        rewrite (app_assoc (rd st m) vs). rewrite (nth_error_app' (rd st m ++ vs)), app_length, Hl.
        fold need. cases; auto; try lia. symmetry. apply nth_error_None'. rewrite app_length. lia.
  Qed.

  (** ** heaps *)
  Definition den (st : store) (o : obj) : vset := mkv (okind o) (rd st (omem o)).
  Definition abs (h : heap) : list vset := map (den (arrs h)) (objs h).

  Definition wfh (h : heap) : Prop :=
    (forall r o, nth_error (objs h) r = Some o -> wf_hdr (arrs h) (omem o)) /\
    (forall r1 r2 o1 o2, nth_error (objs h) r1 = Some o1 -> nth_error (objs h) r2 = Some o2 ->
       r1 <> r2 -> arr (omem o1) <> arr (omem o2)).

  Lemma wf_arr_lt : forall st m, wf_hdr st m -> arr m < length st.
  Proof. intros st m (a & H & _). apply nth_error_Some. congruence. Qed.

  Lemma abs_nth : forall h r, nth_error (abs h) r = option_map (den (arrs h)) (nth_error (objs h) r).
  Proof. intros. unfold abs. apply nth_error_map. Qed.

  Lemma abs_obj : forall h r s, nth_error (abs h) r = Some s ->
    exists o, nth_error (objs h) r = Some o /\ getobj T h r = Ok o /\ okind o = vk s /\ rd (arrs h) (omem o) = vm s.
  Proof.
    intros h r s H. rewrite abs_nth in H. unfold getobj. destruct (nth_error (objs h) r) as [o|]; [|discriminate].
    simpl in H. inversion H. exists o. auto.
  Qed.

  Lemma wfh_empty : wfh (empty_heap T).
  Proof. split; intros; destruct r || destruct r1; discriminate. Qed.

  Lemma map_set_nth : forall (X Y : Type) (f : X -> Y) l i x, map f (set_nth l i x) = set_nth (map f l) i (f x).
  Proof. induction l; destruct i; simpl; intros; auto. f_equal. auto. Qed.

  Lemma set_nth_ext : forall (l : list vset) l' i x, length l = length l' ->
    (forall j, j <> i -> nth_error l j = nth_error l' j) -> nth_error l i = Some x -> l = set_nth l' i x.
  Proof.
    induction l as [|a l IH]; intros [|b l'] i x Hl Hj Hi; simpl in *; try discriminate; [destruct i; discriminate|].
    destruct i as [|i]; simpl in *.
    - inversion Hi; subst. f_equal.
      clear IH. revert l' Hl Hj. induction l as [|c l IHl]; intros [|d l'] Hl Hj; simpl in *; try discriminate; auto.
      f_equal; [specialize (Hj 1 ltac:(lia)); now inversion Hj|].
      apply IHl; [lia|]. intros [|j] Hne; [lia|]. exact (Hj (S (S j)) ltac:(lia)).
    - f_equal; [specialize (Hj 0 ltac:(lia)); now inversion Hj|].
      apply IH; [lia| |exact Hi]. intros j Hne. exact (Hj (S j) ltac:(lia)).
  Qed.

  (** updating the members of object [r] *)
  Lemma update_sim : forall h r o st' m',
    wfh h -> nth_error (objs h) r = Some o ->
    sframe (arr (omem o)) (arrs h) st' -> wf_hdr st' m' ->
    (arr m' = arr (omem o) \/ length (arrs h) <= arr m') ->
    wfh (setmem T h r (okind o) st' m') /\
    abs (setmem T h r (okind o) st' m') = set_nth (abs h) r (mkv (okind o) (rd st' m')) /\
    tick (setmem T h r (okind o) st' m') = tick h /\
    length (objs (setmem T h r (okind o) st' m')) = length (objs h).
  Proof.
    intros h r o st' m' [W1 W2] Hr Hf Hm Harr.
    assert (Hrl : r < length (objs h)) by (apply nth_error_Some; congruence).
    split; [split|split; [|split; [reflexivity|simpl; apply set_nth_length]]].
    - intros r2 o2 H2. simpl in *. destruct (Nat.eq_dec r2 r) as [->|Hne].
      + rewrite nth_error_set_nth_eq in H2 by exact Hrl. inversion H2; subst. exact Hm.
      + rewrite nth_error_set_nth_neq in H2 by congruence. eapply wf_frame; eauto.
    - intros r1 r2 o1 o2 H1 H2 Hne. simpl in *.
      assert (Hother : forall r' o', r' <> r -> nth_error (objs h) r' = Some o' -> arr (omem o') <> arr m').
      { intros r' o' Hn Ho'. pose proof (wf_arr_lt _ _ (W1 _ _ Ho')) as Hlt.
        destruct Harr as [->|Hge]; [eapply W2; eauto|lia]. }
      destruct (Nat.eq_dec r1 r) as [->|Hn1]; destruct (Nat.eq_dec r2 r) as [->|Hn2]; try congruence.
      + rewrite nth_error_set_nth_eq in H1 by exact Hrl. rewrite nth_error_set_nth_neq in H2 by congruence.
        inversion H1; subst. simpl. intros Hc. eapply Hother; eauto.
      + rewrite nth_error_set_nth_neq in H1 by congruence. rewrite nth_error_set_nth_eq in H2 by exact Hrl.
        inversion H2; subst. simpl. eapply Hother; eauto.
      + rewrite nth_error_set_nth_neq in H1, H2 by congruence. eapply W2; eauto.
    - unfold abs. simpl. rewrite map_set_nth. unfold den at 2. simpl.
      apply set_nth_ext.
      + rewrite set_nth_length, !map_length. reflexivity.
      + intros j Hj. rewrite nth_error_set_nth_neq by congruence. rewrite !nth_error_map.
        destruct (nth_error (objs h) j) as [oj|] eqn:Ej; simpl; [|reflexivity].
        unfold den. f_equal. f_equal. eapply rd_frame; eauto.
      + apply nth_error_set_nth_eq. now rewrite map_length.
  Qed.

  (** allocating a new object on a fresh array *)
  Lemma alloc_sim : forall h k st' m' a,
    wfh h -> sframe a (arrs h) st' -> length (arrs h) <= a -> wf_hdr st' m' -> length (arrs h) <= arr m' ->
    let r := fst (alloc_obj T h k st' m') in let h' := snd (alloc_obj T h k st' m') in
    r = length (objs h) /\ wfh h' /\ abs h' = abs h ++ [mkv k (rd st' m')] /\ tick h' = tick h.
  Proof.
    intros h k st' m' a [W1 W2] Hf Ha Hm Harr. simpl. split; [reflexivity|].
    assert (Hf' : forall b, sframe b (arrs h) st') by (intros b; eapply sframe_weaken; eauto).
    split; [split|split; [|reflexivity]].
    - intros r o Ho. simpl in *. destruct (Nat.lt_ge_cases r (length (objs h))) as [Hlt|Hge].
      + rewrite nth_error_app1 in Ho by exact Hlt. eapply wf_frame; eauto.
      + rewrite nth_error_app2 in Ho by exact Hge. destruct (r - length (objs h)) as [|x]; simpl in Ho; [|destruct x; discriminate].
        inversion Ho; subst. exact Hm.
    - intros r1 r2 o1 o2 H1 H2 Hne. simpl in *.
      assert (Hnew : forall r o, nth_error (objs h ++ [mkobj k m']) r = Some o -> length (objs h) <= r -> r = length (objs h) /\ o = mkobj k m').
      { intros r o Ho Hge. rewrite nth_error_app2 in Ho by exact Hge.
        destruct (r - length (objs h)) as [|x] eqn:Ex; simpl in Ho; [|destruct x; discriminate]. inversion Ho. split; [lia|reflexivity]. }
      destruct (Nat.lt_ge_cases r1 (length (objs h))) as [L1|G1]; destruct (Nat.lt_ge_cases r2 (length (objs h))) as [L2|G2].
      + rewrite nth_error_app1 in H1, H2 by assumption. eapply W2; eauto.
      + rewrite nth_error_app1 in H1 by assumption. destruct (Hnew _ _ H2 G2) as [_ ->]. simpl.
        pose proof (wf_arr_lt _ _ (W1 _ _ H1)). lia.
      + rewrite nth_error_app1 in H2 by assumption. destruct (Hnew _ _ H1 G1) as [_ ->]. simpl.
        pose proof (wf_arr_lt _ _ (W1 _ _ H2)). lia.
      + destruct (Hnew _ _ H1 G1), (Hnew _ _ H2 G2). lia.
    - unfold abs. simpl. rewrite map_app. simpl. f_equal.
      apply map_ext_in. intros o Ho. unfold den. f_equal.
      apply In_nth_error in Ho. destruct Ho as (r & Hr).
      pose proof (W1 _ _ Hr) as Hw. eapply (rd_frame (length (arrs h))); eauto.
      pose proof (wf_arr_lt _ _ Hw). lia.
  Qed.
  (** ** operations *)
  Lemma h_new_sim : forall h k, wfh h ->
    let r := fst (h_new T zero h k) in let h' := snd (h_new T zero h k) in
    r = length (objs h) /\ wfh h' /\ abs h' = abs h ++ [vnew T k] /\ tick h' = tick h.
  Proof.
    intros h k W. unfold h_new.
    destruct (sl_make_spec (arrs h) 0 0 ltac:(lia)) as (E1 & E2 & E3 & E4 & E5).
    destruct (sl_make T zero (arrs h) 0 0) as [st m] eqn:Em. simpl in E1, E2, E3, E4, E5.
    destruct (alloc_sim h k st m (length (arrs h)) W) as (R1 & R2 & R3 & R4); try lia; auto.
    { rewrite E1. apply sframe_app. }
    rewrite E5 in R3. simpl in R3. auto.
  Qed.

  Lemma set_nth_same' : forall (l : list vset) i x, nth_error l i = Some x -> l = set_nth l i x.
  Proof. intros. symmetry. now apply set_nth_same. Qed.

  Lemma h_add1_sim : forall h r v s s', wfh h -> nth_error (abs h) r = Some s ->
    vadd1 T eqb cmp s v = Ok s' ->
    exists h', h_add1 T zero grow eqb cmp h r v = Ok h' /\ wfh h' /\ abs h' = set_nth (abs h) r s' /\
      tick h' = tick h /\ length (objs h') = length (objs h).
  Proof.
    intros h r v s s' W Hs Hv.
    destruct (abs_obj h r s Hs) as (o & Ho & Hg & Hk & Hrd).
    pose proof (proj1 W r o Ho) as Hwf.
    unfold h_add1. rewrite Hg. simpl. rewrite (sl_read_wf _ _ Hwf). simpl. rewrite Hrd, Hk.
    unfold vadd1 in Hv.
    destruct (add_plan_total T eqb cmp (vk s) (vm s) v) as (p & Hp & Hbound). rewrite Hp in *. simpl in *.
    destruct p as [pos|].
    2:{ inversion Hv; subst. exists h. split; [reflexivity|]. split; [exact W|]. split; [now apply set_nth_same'|auto]. }
    specialize (Hbound pos eq_refl). inversion Hv; subst s'. clear Hv.
    pose proof (rd_length _ _ Hwf) as Hlen. rewrite Hrd in Hlen.
    pose proof (wf_arr_lt _ _ Hwf) as Halt.
    destruct (vk s) eqn:Ek.
    1,2: rewrite add_plan_linear in Hp by exact I;
         destruct (memb T eqb (vm s) v); inversion Hp; subst pos;
         destruct (sl_append_spec (arrs h) (omem o) [v] Hwf) as (st' & m' & Ha & Hf & Hw' & Harr & Hr' & _);
         rewrite Ha; simpl;
         (destruct (update_sim h r o st' m' W Ho Hf Hw') as (U1 & U2 & U3 & U4); [destruct Harr as [->|[-> _]]; [now left|right; lia]|]);
         rewrite Hk in *; eexists; (split; [reflexivity|]); (split; [exact U1|]);
         (split; [rewrite U2, Hr', Hrd, ins_at_end; reflexivity|auto]).
    (* sorted: append(s.members[:low], append([]T{val}, s.members[low:]...)...) *)
    set (st0 := arrs h) in *. set (mo := omem o) in *.
    cbn [sl_make fst snd].
    set (st1 := st0 ++ [repeat zero 1]). set (lit := mkhdr (length st0) 0 1 1).
    assert (F01 : forall a, sframe a st0 st1) by (intros; apply sframe_app).
    assert (Wlit1 : wf_hdr st1 lit).
    { exists (repeat zero 1). unfold st1, lit; simpl. rewrite nth_error_app2, Nat.sub_diag by lia. simpl. auto. }
    destruct (sl_write_spec st1 lit 0 [v] Wlit1 ltac:(simpl; lia)) as (st2 & a1 & Hw2 & F12 & Ha1 & Ha2).
    change (st0 ++ [[zero]]) with st1. rewrite Hw2. simpl.
    assert (a1 = [zero]).
    { unfold st1, lit in Ha1; simpl in Ha1. rewrite nth_error_app2, Nat.sub_diag in Ha1 by lia. simpl in Ha1. congruence. }
    subst a1. simpl in Ha2. change (arr lit) with (length st0) in *.
    assert (F02 : sframe (length st0) st0 st2).
    { eapply sframe_trans; [apply F01|exact F12|now left]. }
    assert (Wmo2 : wf_hdr st2 mo) by (apply (wf_frame _ _ _ _ F02 Hwf)).
    destruct (sl_reslice_spec st2 mo pos (len mo) Wmo2 ltac:(lia) ltac:(destruct Hwf as (? & ? & ? & ?); lia))
      as (tl & Htl & Tarr & Toff & Tlen & Tcap & Wtl2).
    rewrite Htl. simpl. rewrite (sl_read_wf _ _ Wtl2). simpl.
    assert (Rtl : rd st2 tl = skipn pos (vm s)).
    { rewrite (rd_reslice st2 mo tl pos (len mo) Wmo2 ltac:(lia) ltac:(lia) Tarr Toff Tlen).
      rewrite (rd_frame _ _ _ mo F02 Hwf ltac:(lia)). fold st0 in Hrd. rewrite Hrd.
      apply firstn_all2. rewrite skipn_length. lia. }
    rewrite Rtl.
    assert (Wlit2 : wf_hdr st2 lit) by (apply (wf_frame _ _ _ _ F12 Wlit1)).
    destruct (sl_append_spec st2 lit (skipn pos (vm s)) Wlit2) as (st3 & inner & Ha3 & F23 & Winner & Iarr & Rinner & _).
    rewrite Ha3. simpl.
    assert (Rlit : rd st2 lit = [v]) by (unfold rd; change (arr lit) with (length st0); rewrite Ha2; reflexivity).
    rewrite Rlit in Rinner.
    assert (F03 : sframe (length st0) st0 st3).
    { eapply sframe_trans; [exact F02|exact F23|now left]. }
    assert (Wmo3 : wf_hdr st3 mo) by (apply (wf_frame _ _ _ _ F03 Hwf)).
    destruct (sl_reslice_spec st3 mo 0 pos Wmo3 ltac:(lia) ltac:(destruct Hwf as (? & ? & ? & ?); lia))
      as (pre & Hpre & Parr & Poff & Plen & Pcap & Wpre3).
    rewrite Hpre. simpl. rewrite (sl_read_wf _ _ Winner). simpl. rewrite Rinner.
    destruct (sl_append_spec st3 pre ([v] ++ skipn pos (vm s)) Wpre3) as (st4 & m' & Ha4 & F34 & Wm' & Marr & Rm' & _).
    rewrite Ha4. simpl.
    assert (Rpre : rd st3 pre = firstn pos (vm s)).
    { rewrite (rd_reslice st3 mo pre 0 pos Wmo3 ltac:(lia) ltac:(lia) Parr Poff ltac:(lia)).
      rewrite (rd_frame _ _ _ mo F03 Hwf ltac:(lia)). fold st0 in Hrd. rewrite Hrd. rewrite Nat.sub_0_r. reflexivity. }
    assert (F04 : sframe (arr mo) st0 st4).
    { eapply (sframe_trans _ (arr pre)); [|exact F34|left; exact Parr].
      destruct F03 as (L & Fa & Fb). split; [exact L|]. split.
      - intros b x Hb _. apply Fa; [exact Hb|]. assert (b < length st0) by (apply nth_error_Some; congruence). lia.
      - intros x Hx. exists x. split; [apply Fa; [exact Hx|lia]|reflexivity]. }
    destruct (update_sim h r o st4 m' W Ho F04 Wm') as (U1 & U2 & U3 & U4).
    { destruct Marr as [->|[-> _]]; [left; exact Parr|right]. destruct F03 as (L & _). fold st0. lia. }
    rewrite Hk in *. eexists; split; [reflexivity|]. split; [exact U1|]. split; [|auto].
    rewrite U2, Rm', Rpre. reflexivity.
  Qed.
  Lemma h_remove1_sim : forall h r v s s', wfh h -> nth_error (abs h) r = Some s ->
    vremove1 T eqb cmp s v = Ok s' ->
    exists h', h_remove1 T zero grow eqb cmp h r v = Ok h' /\ wfh h' /\ abs h' = set_nth (abs h) r s' /\
      tick h' = tick h /\ length (objs h') = length (objs h).
  Proof.
    intros h r v s s' W Hs Hv.
    destruct (abs_obj h r s Hs) as (o & Ho & Hg & Hk & Hrd).
    pose proof (proj1 W r o Ho) as Hwf.
    unfold h_remove1. rewrite Hg. simpl. rewrite (sl_read_wf _ _ Hwf). simpl. rewrite Hrd, Hk.
    unfold vremove1 in Hv.
    destruct (remove_plan_total T eqb cmp (vk s) (vm s) v) as (p & Hp & Hbound). rewrite Hp in *. simpl in *.
    destruct p as [i|].
    2:{ inversion Hv; subst. exists h. split; [reflexivity|]. split; [exact W|]. split; [now apply set_nth_same'|auto]. }
    specialize (Hbound i eq_refl). inversion Hv; subst s'. clear Hv.
    pose proof (rd_length _ _ Hwf) as Hlen. rewrite Hrd in Hlen.
    set (st0 := arrs h) in *. set (mo := omem o) in *.
    assert (Hcap : len mo <= cap mo) by (destruct Hwf as (? & ? & ? & ?); lia).
    destruct (sl_reslice_spec st0 mo 0 i Hwf ltac:(lia) ltac:(lia)) as (pre & Hpre & Parr & Poff & Plen & Pcap & Wpre).
    rewrite Hpre. simpl.
    destruct (sl_reslice_spec st0 mo (S i) (len mo) Hwf ltac:(lia) ltac:(lia)) as (post & Hpost & Qarr & Qoff & Qlen & Qcap & Wpost).
    rewrite Hpost. simpl. rewrite (sl_read_wf _ _ Wpost). simpl.
    destruct (sl_append_spec st0 pre (rd st0 post) Wpre) as (st' & m' & Ha & Hf & Wm' & Marr & Rm' & _).
    rewrite Ha. simpl. rewrite Parr in Hf.
    destruct (update_sim h r o st' m' W Ho Hf Wm') as (U1 & U2 & U3 & U4).
    { destruct Marr as [->|[-> _]]; [left; exact Parr|right; fold st0; lia]. }
    eexists; split; [reflexivity|]. rewrite Hk in *. split; [exact U1|]. split; [|auto].
    rewrite U2, Rm'. f_equal. f_equal. unfold del_at.
    rewrite (rd_reslice st0 mo pre 0 i Hwf ltac:(lia) ltac:(lia) Parr Poff ltac:(lia)).
    rewrite (rd_reslice st0 mo post (S i) (len mo) Hwf ltac:(lia) ltac:(lia) Qarr Qoff Qlen).
    rewrite Hrd, Nat.sub_0_r. change (skipn 0 (vm s)) with (vm s). f_equal.
    apply firstn_all2. rewrite skipn_length. lia.
  Qed.

  Lemma set_nth_set_nth : forall (l : list vset) i x y, set_nth (set_nth l i x) i y = set_nth l i y.
  Proof. induction l; destruct i; simpl; intros; auto. f_equal. auto. Qed.

  Lemma nth_error_set_nth_eq' : forall (l : list vset) i x s, nth_error l i = Some s -> nth_error (set_nth l i x) i = Some x.
  Proof. intros. apply nth_error_set_nth_eq. apply nth_error_Some. congruence. Qed.

  Lemma h_add_sim : forall vs h r s s', wfh h -> nth_error (abs h) r = Some s ->
    vadd T eqb cmp s vs = Ok s' ->
    exists h', h_add T zero grow eqb cmp h r vs = Ok h' /\ wfh h' /\ abs h' = set_nth (abs h) r s' /\
      tick h' = tick h /\ length (objs h') = length (objs h).
  Proof.
    induction vs as [|v vs IH]; intros h r s s' W Hs Hv; simpl in *.
    - inversion Hv; subst. exists h. split; [reflexivity|]. split; [exact W|]. split; [now apply set_nth_same'|auto].
    - destruct (vadd1 T eqb cmp s v) as [s1| |] eqn:E1; simpl in Hv; try discriminate.
      destruct (h_add1_sim h r v s s1 W Hs E1) as (h1 & H1 & W1 & A1 & T1 & L1). rewrite H1. simpl.
      assert (Hs1 : nth_error (abs h1) r = Some s1) by (rewrite A1; eapply nth_error_set_nth_eq'; eauto).
      destruct (IH h1 r s1 s' W1 Hs1 Hv) as (h2 & H2 & W2 & A2 & T2 & L2).
      exists h2. split; [exact H2|]. split; [exact W2|]. split; [|split; congruence].
      rewrite A2, A1. apply set_nth_set_nth.
  Qed.

  Lemma h_remove_sim : forall vs h r s s', wfh h -> nth_error (abs h) r = Some s ->
    vremove T eqb cmp s vs = Ok s' ->
    exists h', h_remove T zero grow eqb cmp h r vs = Ok h' /\ wfh h' /\ abs h' = set_nth (abs h) r s' /\
      tick h' = tick h /\ length (objs h') = length (objs h).
  Proof.
    induction vs as [|v vs IH]; intros h r s s' W Hs Hv; simpl in *.
    - inversion Hv; subst. exists h. split; [reflexivity|]. split; [exact W|]. split; [now apply set_nth_same'|auto].
    - destruct (vremove1 T eqb cmp s v) as [s1| |] eqn:E1; simpl in Hv; try discriminate.
      destruct (h_remove1_sim h r v s s1 W Hs E1) as (h1 & H1 & W1 & A1 & T1 & L1). rewrite H1. simpl.
      assert (Hs1 : nth_error (abs h1) r = Some s1) by (rewrite A1; eapply nth_error_set_nth_eq'; eauto).
      destruct (IH h1 r s1 s' W1 Hs1 Hv) as (h2 & H2 & W2 & A2 & T2 & L2).
      exists h2. split; [exact H2|]. split; [exact W2|]. split; [|split; congruence].
      rewrite A2, A1. apply set_nth_set_nth.
  Qed.

  Lemma h_removeAll_sim : forall h r s, wfh h -> nth_error (abs h) r = Some s ->
    exists h', h_removeAll T zero h r = Ok h' /\ wfh h' /\ abs h' = set_nth (abs h) r (vremoveAll T s) /\
      tick h' = tick h /\ length (objs h') = length (objs h).
  Proof.
    intros h r s W Hs. destruct (abs_obj h r s Hs) as (o & Ho & Hg & Hk & Hrd).
    unfold h_removeAll. rewrite Hg. simpl.
    destruct (sl_make_spec (arrs h) 0 0 ltac:(lia)) as (E1 & E2 & E3 & E4 & E5).
    simpl in E1, E2, E3, E4, E5.
    set (st := arrs h ++ [[]]) in *. set (m := mkhdr (length (arrs h)) 0 0 0) in *.
    destruct (update_sim h r o st m W Ho) as (U1 & U2 & U3 & U4);
      [apply sframe_app|exact E4|right; simpl; lia|].
    eexists; split; [reflexivity|]. split; [exact U1|]. split; [|auto].
    rewrite U2, E5, Hk. reflexivity.
  Qed.

  (** queries read the abstraction *)
  Lemma h_members_sim : forall h r s, wfh h -> nth_error (abs h) r = Some s ->
    h_members T h r = Ok (vm s) /\ h_kind T h r = Ok (vk s).
  Proof.
    intros h r s W Hs. destruct (abs_obj h r s Hs) as (o & Ho & Hg & Hk & Hrd).
    unfold h_members, h_kind. rewrite Hg. simpl. rewrite (sl_read_wf _ _ (proj1 W r o Ho)), Hrd, Hk. auto.
  Qed.

  Lemma h_contains_sim : forall h r s vs, wfh h -> nth_error (abs h) r = Some s ->
    h_contains T eqb cmp h r vs = vcontains T eqb cmp s vs.
  Proof.
    intros h r s vs W Hs. destruct (abs_obj h r s Hs) as (o & Ho & Hg & Hk & Hrd).
    unfold h_contains, vcontains. rewrite Hg. simpl. rewrite (sl_read_wf _ _ (proj1 W r o Ho)), Hrd, Hk. reflexivity.
  Qed.

  Lemma h_size_sim : forall h r s, wfh h -> nth_error (abs h) r = Some s ->
    h_size T h r = Ok (vsize T s) /\ h_isEmpty T h r = Ok (visEmpty T s).
  Proof.
    intros h r s W Hs. destruct (abs_obj h r s Hs) as (o & Ho & Hg & Hk & Hrd).
    unfold h_size, h_isEmpty, vsize, visEmpty. rewrite Hg. simpl.
    rewrite <- Hrd, (rd_length _ _ (proj1 W r o Ho)). auto.
  Qed.

  Definition with_tick (h : heap) (t : nat) : heap := mkheap (arrs h) (objs h) t.

  Lemma with_tick_wf : forall h t, wfh h -> wfh (with_tick h t) /\ abs (with_tick h t) = abs h.
  Proof. intros h t W. split; [exact W|reflexivity]. Qed.

  Lemma h_all_sim : forall h r s ms t', wfh h -> nth_error (abs h) r = Some s ->
    vall T draw s (tick h) = Ok (ms, t') -> h_all T draw h r = Ok (ms, with_tick h t').
  Proof.
    intros h r s ms t' W Hs Hv. destruct (abs_obj h r s Hs) as (o & Ho & Hg & Hk & Hrd).
    unfold h_all, vall in *. rewrite Hg. simpl. rewrite (sl_read_wf _ _ (proj1 W r o Ho)), Hrd, Hk. simpl.
    rewrite Hv. reflexivity.
  Qed.

  Lemma h_all_in_sim : forall ms h c s, wfh h -> nth_error (abs h) c = Some s ->
    h_all_in T eqb cmp h c ms = all_in T eqb cmp s ms.
  Proof.
    induction ms as [|m ms IH]; intros h c s W Hs; simpl; [reflexivity|].
    rewrite (h_contains_sim h c s [m] W Hs). destruct (vcontains T eqb cmp s [m]) as [[|]| |]; simpl; auto.
  Qed.

  Lemma h_equal_sim : forall h a b sa sb, wfh h -> nth_error (abs h) a = Some sa -> nth_error (abs h) b = Some sb ->
    h_equal T eqb cmp h a b = vequal T eqb cmp sa sb.
  Proof.
    intros h a b sa sb W Ha Hb. unfold h_equal, vequal.
    rewrite (proj1 (h_size_sim h a sa W Ha)), (proj1 (h_size_sim h b sb W Hb)). simpl.
    destruct (negb (Nat.eqb (vsize T sa) (vsize T sb))); [reflexivity|].
    rewrite (proj1 (h_members_sim h a sa W Ha)). simpl. now apply h_all_in_sim.
  Qed.

  Lemma h_isSubset_sim : forall h a b sa sb r t', wfh h -> nth_error (abs h) a = Some sa -> nth_error (abs h) b = Some sb ->
    visSubset T eqb cmp draw sa sb (tick h) = Ok (r, t') ->
    h_isSubset T eqb cmp draw h a b = Ok (r, with_tick h t').
  Proof.
    intros h a b sa sb r t' W Ha Hb Hv. unfold h_isSubset, visSubset in *.
    destruct (vall T draw sa (tick h)) as [[ms t1]| |] eqn:E; simpl in Hv; try discriminate.
    rewrite (h_all_sim h a sa ms t1 W Ha E). simpl.
    rewrite (h_all_in_sim ms (with_tick h t1) b sb W Hb).
    destruct (all_in T eqb cmp sb ms); simpl in *; try discriminate. inversion Hv; subst. reflexivity.
  Qed.

  Lemma h_isSuperset_sim : forall h a b sa sb r t', wfh h -> nth_error (abs h) a = Some sa -> nth_error (abs h) b = Some sb ->
    visSuperset T eqb cmp draw sa sb (tick h) = Ok (r, t') ->
    h_isSuperset T eqb cmp draw h a b = Ok (r, with_tick h t').
  Proof.
    intros h a b sa sb r t' W Ha Hb Hv. unfold h_isSuperset, visSuperset in *.
    destruct (vall T draw sb (tick h)) as [[ms t1]| |] eqn:E; simpl in Hv; try discriminate.
    rewrite (h_all_sim h b sb ms t1 W Hb E). simpl.
    rewrite (h_all_in_sim ms (with_tick h t1) a sa W Ha).
    destruct (all_in T eqb cmp sa ms); simpl in *; try discriminate. inversion Hv; subst. reflexivity.
  Qed.

  Lemma h_matches_sim : forall h r s p, wfh h -> nth_error (abs h) r = Some s ->
    h_anyMatch T h r p = Ok (vanyMatch T s p) /\ h_allMatch T h r p = Ok (vallMatch T s p) /\
    h_firstMatch T h r p = Ok (vfirstMatch T s p).
  Proof.
    intros h r s p W Hs. unfold h_anyMatch, h_allMatch, h_firstMatch.
    rewrite (proj1 (h_members_sim h r s W Hs)). auto.
  Qed.
  (** Clone: make + copy onto a fresh array *)
  Lemma h_clone_sim : forall h r s, wfh h -> nth_error (abs h) r = Some s ->
    exists h', h_clone T zero h r = Ok (length (objs h), h') /\ wfh h' /\
      abs h' = abs h ++ [vclone T s] /\ tick h' = tick h.
  Proof.
    intros h r s W Hs. destruct (abs_obj h r s Hs) as (o & Ho & Hg & Hk & Hrd).
    pose proof (proj1 W r o Ho) as Hwf. pose proof (wf_arr_lt _ _ Hwf) as Halt.
    pose proof (rd_length _ _ Hwf) as Hlen.
    unfold h_clone. rewrite Hg. simpl.
    set (st0 := arrs h) in *. set (n := len (omem o)) in *.
    set (st1 := st0 ++ [repeat zero n]). set (m := mkhdr (length st0) 0 n n).
    assert (Wm1 : wf_hdr st1 m).
    { exists (repeat zero n). unfold st1, m; simpl. rewrite nth_error_app2, Nat.sub_diag by lia. simpl.
      rewrite repeat_length. auto. }
    assert (F01 : forall a, sframe a st0 st1) by (intros; apply sframe_app).
    unfold sl_copy.
    assert (Wo1 : wf_hdr st1 (omem o)) by (apply (wf_frame _ _ _ _ (F01 0) Hwf)).
    rewrite (sl_read_wf _ _ Wo1). simpl.
    rewrite (rd_frame _ _ _ _ (F01 (length st0)) Hwf ltac:(lia)).
    rewrite firstn_all2 by (change (len m) with n; lia).
    destruct (sl_write_spec st1 m 0 (rd st0 (omem o)) Wm1 ltac:(simpl; lia)) as (st2 & a1 & Hw & F12 & Ha1 & Ha2).
    rewrite Hw. simpl.
    assert (a1 = repeat zero n).
    { unfold st1, m in Ha1; simpl in Ha1. rewrite nth_error_app2, Nat.sub_diag in Ha1 by lia. simpl in Ha1. congruence. }
    subst a1. change (arr m) with (length st0) in *.
    assert (F02 : sframe (length st0) st0 st2) by (eapply sframe_trans; [apply F01|exact F12|now left]).
    assert (Wm2 : wf_hdr st2 m) by (apply (wf_frame _ _ _ _ F12 Wm1)).
    destruct (alloc_sim h (okind o) st2 m (length st0) W F02 ltac:(fold st0; lia) Wm2 ltac:(simpl; fold st0; lia)) as (R1 & R2 & R3 & R4).
    simpl in R2, R3, R4.
    eexists; split; [reflexivity|]. split; [exact R2|]. split; [|exact R4].
    rewrite R3. f_equal. unfold vclone. rewrite Hk. f_equal. f_equal.
    unfold rd. change (arr m) with (length st0). rewrite Ha2. change (off m + 0) with 0. change (len m) with n. change (off m) with 0.
    rewrite <- Hrd. apply list_ext. intros k.
    rewrite nth_error_sub, nth_error_put_range by (rewrite repeat_length; lia).
    simpl. rewrite Hlen.
    destruct (k <? n) eqn:E; [rewrite Nat.sub_0_r; reflexivity|].
    apply Nat.ltb_ge in E. symmetry. apply nth_error_None'. lia.
  Qed.

  Lemma h_cloneEmpty_sim : forall h r s, wfh h -> nth_error (abs h) r = Some s ->
    exists h', h_cloneEmpty T zero h r = Ok (length (objs h), h') /\ wfh h' /\
      abs h' = abs h ++ [vcloneEmpty T s] /\ tick h' = tick h.
  Proof.
    intros h r s W Hs. destruct (abs_obj h r s Hs) as (o & Ho & Hg & Hk & Hrd).
    unfold h_cloneEmpty. rewrite Hg. simpl.
    destruct (h_new_sim h (okind o) W) as (R1 & R2 & R3 & R4). unfold h_new in *. simpl in *.
    eexists; split; [reflexivity|]. split; [exact R2|]. split; [|exact R4]. rewrite R3, Hk. reflexivity.
  Qed.
  (** ** loops of the set algebra *)
  Definition reads (h : heap) (sets : list nat) (vsets : list vset) : Prop :=
    Forall2 (fun x sx => nth_error (abs h) x = Some sx) sets vsets.

  Lemma reads_other : forall h h' t acc sets vsets, reads h sets vsets -> ~ In t sets ->
    abs h' = set_nth (abs h) t acc -> reads h' sets vsets.
  Proof.
    intros h h' t acc sets vsets HR Hn Ha. unfold reads in *. induction HR as [|x sx sets vsets Hx HR IH]; constructor.
    - rewrite Ha, nth_error_set_nth_neq; [exact Hx|]. intros ->. apply Hn. now left.
    - apply IH. intros Hc. apply Hn. now right.
  Qed.

  Lemma reads_lt : forall h sets vsets x, reads h sets vsets -> In x sets -> x < length (objs h).
  Proof.
    intros h sets vsets x HR Hx. induction HR as [|y sy sets vsets Hy HR IH]; [destruct Hx|].
    destruct Hx as [->|Hx]; [|now apply IH].
    assert (x < length (abs h)) by (apply nth_error_Some; congruence). unfold abs in H. now rewrite map_length in H.
  Qed.

  Lemma reads_app : forall h h' sets vsets extra, reads h sets vsets -> abs h' = abs h ++ extra -> reads h' sets vsets.
  Proof.
    intros h h' sets vsets extra HR Ha. unfold reads in *. induction HR; constructor; auto.
    rewrite Ha, nth_error_app1; [assumption|]. apply nth_error_Some. congruence.
  Qed.

  Lemma set_nth_app_last : forall (l : list vset) x y, set_nth (l ++ [x]) (length l) y = l ++ [y].
  Proof. induction l; simpl; intros; auto. f_equal. auto. Qed.

  Lemma nth_error_app_last : forall (l : list vset) x, nth_error (l ++ [x]) (length l) = Some x.
  Proof. intros. rewrite nth_error_app2, Nat.sub_diag by lia. reflexivity. Qed.

  Lemma abs_length : forall h, length (abs h) = length (objs h).
  Proof. intros. unfold abs. apply map_length. Qed.

  Lemma h_union_loop_sim : forall sets vsets h t acc acc' t', wfh h -> nth_error (abs h) t = Some acc ->
    ~ In t sets -> reads h sets vsets ->
    vunion_loop T eqb cmp draw acc vsets (tick h) = Ok (acc', t') ->
    exists h', h_union_loop T zero grow eqb cmp draw h t sets = Ok h' /\ wfh h' /\
      abs h' = set_nth (abs h) t acc' /\ tick h' = t' /\ length (objs h') = length (objs h).
  Proof.
    induction sets as [|x sets IH]; intros vsets h t acc acc' t' W Ht Hn HR Hv; inversion HR as [|? sx ? vsets' Hx HR']; subst; simpl in *.
    - inversion Hv; subst. exists h. split; [reflexivity|]. split; [exact W|]. split; [now apply set_nth_same'|auto].
    - destruct (vall T draw sx (tick h)) as [[ms t1]| |] eqn:Ea; simpl in Hv; try discriminate.
      destruct (vadd T eqb cmp acc ms) as [acc1| |] eqn:Eadd; simpl in Hv; try discriminate.
      rewrite (h_all_sim h x sx ms t1 W Hx Ea). simpl.
      destruct (h_add_sim ms (with_tick h t1) t acc acc1 W Ht Eadd) as (h2 & H2 & W2 & A2 & T2 & L2).
      rewrite H2. simpl.
      assert (Ht2 : nth_error (abs h2) t = Some acc1) by (rewrite A2; eapply nth_error_set_nth_eq'; eauto).
      assert (HR2 : reads h2 sets vsets') by (eapply (reads_other (with_tick h t1)); eauto).
      simpl in T2. rewrite <- T2 in Hv.
      destruct (IH vsets' h2 t acc1 acc' t' W2 Ht2 ltac:(tauto) HR2 Hv) as (h3 & H3 & W3 & A3 & T3 & L3).
      exists h3. split; [exact H3|]. split; [exact W3|]. split; [|split; [exact T3|simpl in L2; congruence]].
      rewrite A3, A2. apply set_nth_set_nth.
  Qed.

  Lemma h_diff_loop_sim : forall sets vsets h t acc acc' t', wfh h -> nth_error (abs h) t = Some acc ->
    ~ In t sets -> reads h sets vsets ->
    vdiff_loop T eqb cmp draw acc vsets (tick h) = Ok (acc', t') ->
    exists h', h_diff_loop T zero grow eqb cmp draw h t sets = Ok h' /\ wfh h' /\
      abs h' = set_nth (abs h) t acc' /\ tick h' = t' /\ length (objs h') = length (objs h).
  Proof.
    induction sets as [|x sets IH]; intros vsets h t acc acc' t' W Ht Hn HR Hv; inversion HR as [|? sx ? vsets' Hx HR']; subst; simpl in *.
    - inversion Hv; subst. exists h. split; [reflexivity|]. split; [exact W|]. split; [now apply set_nth_same'|auto].
    - destruct (vall T draw sx (tick h)) as [[ms t1]| |] eqn:Ea; simpl in Hv; try discriminate.
      destruct (vremove T eqb cmp acc ms) as [acc1| |] eqn:Eadd; simpl in Hv; try discriminate.
      rewrite (h_all_sim h x sx ms t1 W Hx Ea). simpl.
      destruct (h_remove_sim ms (with_tick h t1) t acc acc1 W Ht Eadd) as (h2 & H2 & W2 & A2 & T2 & L2).
      rewrite H2. simpl.
      assert (Ht2 : nth_error (abs h2) t = Some acc1) by (rewrite A2; eapply nth_error_set_nth_eq'; eauto).
      assert (HR2 : reads h2 sets vsets') by (eapply (reads_other (with_tick h t1)); eauto).
      simpl in T2. rewrite <- T2 in Hv.
      destruct (IH vsets' h2 t acc1 acc' t' W2 Ht2 ltac:(tauto) HR2 Hv) as (h3 & H3 & W3 & A3 & T3 & L3).
      exists h3. split; [exact H3|]. split; [exact W3|]. split; [|split; [exact T3|simpl in L2; congruence]].
      rewrite A3, A2. apply set_nth_set_nth.
  Qed.

  Lemma not_in_fresh : forall h sets vsets, reads h sets vsets -> ~ In (length (objs h)) sets.
  Proof. intros h sets vsets HR Hc. pose proof (reads_lt h sets vsets _ HR Hc). lia. Qed.

  Theorem h_union_sim : forall h s sets ss vsets u t', wfh h -> nth_error (abs h) s = Some ss ->
    reads h sets vsets -> vunion T eqb cmp draw ss vsets (tick h) = Ok (u, t') ->
    exists h', h_union T zero grow eqb cmp draw h s sets = Ok (length (objs h), h') /\ wfh h' /\
      abs h' = abs h ++ [u] /\ tick h' = t'.
  Proof.
    intros h s sets ss vsets u t' W Hs HR Hv. unfold h_union, vunion in *.
    destruct (h_clone_sim h s ss W Hs) as (h1 & H1 & W1 & A1 & T1). rewrite H1. simpl.
    assert (Ht : nth_error (abs h1) (length (objs h)) = Some (vclone T ss)).
    { rewrite A1, <- abs_length. apply nth_error_app_last. }
    rewrite <- T1 in Hv.
    destruct (h_union_loop_sim sets vsets h1 (length (objs h)) _ u t' W1 Ht (not_in_fresh h sets vsets HR)
                (reads_app h h1 sets vsets _ HR A1) Hv) as (h2 & H2 & W2 & A2 & T2 & L2).
    rewrite H2. simpl. eexists; split; [reflexivity|]. split; [exact W2|]. split; [|exact T2].
    rewrite A2, A1, <- abs_length. apply set_nth_app_last.
  Qed.

  Theorem h_difference_sim : forall h s sets ss vsets u t', wfh h -> nth_error (abs h) s = Some ss ->
    reads h sets vsets -> vdifference T eqb cmp draw ss vsets (tick h) = Ok (u, t') ->
    exists h', h_difference T zero grow eqb cmp draw h s sets = Ok (length (objs h), h') /\ wfh h' /\
      abs h' = abs h ++ [u] /\ tick h' = t'.
  Proof.
    intros h s sets ss vsets u t' W Hs HR Hv. unfold h_difference, vdifference in *.
    destruct (h_clone_sim h s ss W Hs) as (h1 & H1 & W1 & A1 & T1). rewrite H1. simpl.
    assert (Ht : nth_error (abs h1) (length (objs h)) = Some (vclone T ss)).
    { rewrite A1, <- abs_length. apply nth_error_app_last. }
    rewrite <- T1 in Hv.
    destruct (h_diff_loop_sim sets vsets h1 (length (objs h)) _ u t' W1 Ht (not_in_fresh h sets vsets HR)
                (reads_app h h1 sets vsets _ HR A1) Hv) as (h2 & H2 & W2 & A2 & T2 & L2).
    rewrite H2. simpl. eexists; split; [reflexivity|]. split; [exact W2|]. split; [|exact T2].
    rewrite A2, A1, <- abs_length. apply set_nth_app_last.
  Qed.

  Lemma h_in_all_sim : forall sets vsets h m, wfh h -> reads h sets vsets ->
    h_in_all T eqb cmp h sets m = in_all T eqb cmp vsets m.
  Proof.
    induction sets as [|x sets IH]; intros vsets h m W HR; inversion HR as [|? sx ? vsets' Hx HR']; subst; simpl; [reflexivity|].
    rewrite (h_contains_sim h x sx [m] W Hx). destruct (vcontains T eqb cmp sx [m]) as [[|]| |]; simpl; auto.
  Qed.

  Lemma h_inter_loop_sim : forall ms sets vsets h t acc acc', wfh h -> nth_error (abs h) t = Some acc ->
    ~ In t sets -> reads h sets vsets ->
    vinter_loop T eqb cmp acc ms vsets = Ok acc' ->
    exists h', h_inter_loop T zero grow eqb cmp h t ms sets = Ok h' /\ wfh h' /\
      abs h' = set_nth (abs h) t acc' /\ tick h' = tick h /\ length (objs h') = length (objs h).
  Proof.
    induction ms as [|m ms IH]; intros sets vsets h t acc acc' W Ht Hn HR Hv; simpl in *.
    - inversion Hv; subst. exists h. split; [reflexivity|]. split; [exact W|]. split; [now apply set_nth_same'|auto].
    - rewrite (h_in_all_sim sets vsets h m W HR).
      destruct (in_all T eqb cmp vsets m) as [b| |]; simpl in *; try discriminate.
      destruct b.
      + destruct (vadd1 T eqb cmp acc m) as [acc1| |] eqn:E1; simpl in Hv; try discriminate.
        destruct (h_add1_sim h t m acc acc1 W Ht E1) as (h1 & H1 & W1 & A1 & T1 & L1). rewrite H1. simpl.
        assert (Ht1 : nth_error (abs h1) t = Some acc1) by (rewrite A1; eapply nth_error_set_nth_eq'; eauto).
        destruct (IH sets vsets h1 t acc1 acc' W1 Ht1 Hn (reads_other h h1 t acc1 sets vsets HR Hn A1) Hv)
          as (h2 & H2 & W2 & A2 & T2 & L2).
        exists h2. split; [exact H2|]. split; [exact W2|]. split; [|split; congruence].
        rewrite A2, A1. apply set_nth_set_nth.
      + apply (IH sets vsets h t acc acc' W Ht Hn HR Hv).
  Qed.

  Theorem h_intersection_sim : forall h s sets ss vsets u, wfh h -> nth_error (abs h) s = Some ss ->
    reads h sets vsets -> vintersection T eqb cmp ss vsets = Ok u ->
    exists h', h_intersection T zero grow eqb cmp h s sets = Ok (length (objs h), h') /\ wfh h' /\
      abs h' = abs h ++ [u] /\ tick h' = tick h.
  Proof.
    intros h s sets ss vsets u W Hs HR Hv. unfold h_intersection, vintersection in *.
    destruct (h_cloneEmpty_sim h s ss W Hs) as (h1 & H1 & W1 & A1 & T1). rewrite H1. simpl.
    assert (Ht : nth_error (abs h1) (length (objs h)) = Some (vcloneEmpty T ss)).
    { rewrite A1, <- abs_length. apply nth_error_app_last. }
    assert (Hs1 : nth_error (abs h1) s = Some ss).
    { rewrite A1, nth_error_app1; [exact Hs|]. apply nth_error_Some. congruence. }
    rewrite (proj1 (h_members_sim h1 s ss W1 Hs1)). simpl.
    destruct (h_inter_loop_sim (vm ss) sets vsets h1 (length (objs h)) _ u W1 Ht (not_in_fresh h sets vsets HR)
                (reads_app h h1 sets vsets _ HR A1) Hv) as (h2 & H2 & W2 & A2 & T2 & L2).
    rewrite H2. simpl. eexists; split; [reflexivity|]. split; [exact W2|]. split; [|congruence].
    rewrite A2, A1, <- abs_length. apply set_nth_app_last.
  Qed.

  Theorem h_selectMatch_sim : forall h s ss p u, wfh h -> nth_error (abs h) s = Some ss ->
    vselectMatch T eqb cmp ss p = Ok u ->
    exists h', h_selectMatch T zero grow eqb cmp h s p = Ok (length (objs h), h') /\ wfh h' /\
      abs h' = abs h ++ [u] /\ tick h' = tick h.
  Proof.
    intros h s ss p u W Hs Hv. unfold h_selectMatch, vselectMatch in *.
    destruct (h_cloneEmpty_sim h s ss W Hs) as (h1 & H1 & W1 & A1 & T1). rewrite H1. simpl.
    assert (Ht : nth_error (abs h1) (length (objs h)) = Some (vcloneEmpty T ss)).
    { rewrite A1, <- abs_length. apply nth_error_app_last. }
    assert (Hs1 : nth_error (abs h1) s = Some ss).
    { rewrite A1, nth_error_app1; [exact Hs|]. apply nth_error_Some. congruence. }
    rewrite (proj1 (h_members_sim h1 s ss W1 Hs1)). simpl.
    destruct (h_add_sim (filter p (vm ss)) h1 (length (objs h)) _ u W1 Ht Hv) as (h2 & H2 & W2 & A2 & T2 & L2).
    rewrite H2. simpl. eexists; split; [reflexivity|]. split; [exact W2|]. split; [|congruence].
    rewrite A2, A1, <- abs_length. apply set_nth_app_last.
  Qed.

  Lemma set_nth_comm : forall (l : list vset) i j x y, i <> j ->
    set_nth (set_nth l i x) j y = set_nth (set_nth l j y) i x.
  Proof.
    induction l as [|a l IH]; intros [|i] [|j] x y H; simpl; auto; try congruence. f_equal. apply IH. congruence.
  Qed.

  Lemma h_part_loop_sim : forall ms h a b p sa sb sa' sb', wfh h -> a <> b ->
    nth_error (abs h) a = Some sa -> nth_error (abs h) b = Some sb ->
    vadd T eqb cmp sa (filter p ms) = Ok sa' ->
    vadd T eqb cmp sb (filter (fun x => negb (p x)) ms) = Ok sb' ->
    exists h', h_part_loop T zero grow eqb cmp h a b p ms = Ok h' /\ wfh h' /\
      abs h' = set_nth (set_nth (abs h) a sa') b sb' /\ tick h' = tick h /\ length (objs h') = length (objs h).
  Proof.
    induction ms as [|m ms IH]; intros h a b p sa sb sa' sb' W Hab Ha Hb Hva Hvb; simpl in *.
    - inversion Hva; inversion Hvb; subst. exists h. split; [reflexivity|]. split; [exact W|]. split; [|auto].
      rewrite (set_nth_same _ (abs h) a sa' Ha). now apply set_nth_same'.
    - destruct (p m) eqn:Ep; simpl in *.
      + destruct (vadd1 T eqb cmp sa m) as [sa1| |] eqn:E1; simpl in Hva; try discriminate.
        destruct (h_add1_sim h a m sa sa1 W Ha E1) as (h1 & H1 & W1 & A1 & T1 & L1). rewrite H1. simpl.
        assert (Ha1 : nth_error (abs h1) a = Some sa1) by (rewrite A1; eapply nth_error_set_nth_eq'; eauto).
        assert (Hb1 : nth_error (abs h1) b = Some sb) by (rewrite A1, nth_error_set_nth_neq by congruence; exact Hb).
        destruct (IH h1 a b p sa1 sb sa' sb' W1 Hab Ha1 Hb1 Hva Hvb) as (h2 & H2 & W2 & A2 & T2 & L2).
        exists h2. split; [exact H2|]. split; [exact W2|]. split; [|split; congruence].
        rewrite A2, A1, set_nth_set_nth. reflexivity.
      + destruct (vadd1 T eqb cmp sb m) as [sb1| |] eqn:E1; simpl in Hvb; try discriminate.
        destruct (h_add1_sim h b m sb sb1 W Hb E1) as (h1 & H1 & W1 & A1 & T1 & L1). rewrite H1. simpl.
        assert (Hb1 : nth_error (abs h1) b = Some sb1) by (rewrite A1; eapply nth_error_set_nth_eq'; eauto).
        assert (Ha1 : nth_error (abs h1) a = Some sa) by (rewrite A1, nth_error_set_nth_neq by congruence; exact Ha).
        destruct (IH h1 a b p sa sb1 sa' sb' W1 Hab Ha1 Hb1 Hva Hvb) as (h2 & H2 & W2 & A2 & T2 & L2).
        exists h2. split; [exact H2|]. split; [exact W2|]. split; [|split; congruence].
        rewrite A2, A1. rewrite (set_nth_comm (abs h) b a sb1 sa') by congruence. now rewrite set_nth_set_nth.
  Qed.

  Theorem h_partitionMatch_sim : forall h s ss p ua ub, wfh h -> nth_error (abs h) s = Some ss ->
    vpartitionMatch T eqb cmp ss p = Ok (ua, ub) ->
    exists h', h_partitionMatch T zero grow eqb cmp h s p = Ok (length (objs h), S (length (objs h)), h') /\ wfh h' /\
      abs h' = abs h ++ [ua; ub] /\ tick h' = tick h.
  Proof.
    intros h s ss p ua ub W Hs Hv. unfold h_partitionMatch, vpartitionMatch in *.
    destruct (vadd T eqb cmp (vcloneEmpty T ss) (filter p (vm ss))) as [xa| |] eqn:Ea; simpl in Hv; try discriminate.
    destruct (vadd T eqb cmp (vcloneEmpty T ss) (filter (fun x => negb (p x)) (vm ss))) as [xb| |] eqn:Eb; simpl in Hv; try discriminate.
    inversion Hv; subst xa xb. clear Hv.
    destruct (h_cloneEmpty_sim h s ss W Hs) as (h1 & H1 & W1 & A1 & T1). rewrite H1. simpl.
    assert (Hs1 : nth_error (abs h1) s = Some ss).
    { rewrite A1, nth_error_app1; [exact Hs|]. apply nth_error_Some. congruence. }
    destruct (h_cloneEmpty_sim h1 s ss W1 Hs1) as (h2 & H2 & W2 & A2 & T2). rewrite H2. simpl.
    assert (L1 : length (objs h1) = S (length (objs h))).
    { rewrite <- !abs_length, A1, app_length. simpl. lia. }
    rewrite L1 in *.
    assert (Hs2 : nth_error (abs h2) s = Some ss).
    { rewrite A2, nth_error_app1; [exact Hs1|]. apply nth_error_Some. congruence. }
    rewrite (proj1 (h_members_sim h2 s ss W2 Hs2)). simpl.
    assert (Ha2 : nth_error (abs h2) (length (objs h)) = Some (vcloneEmpty T ss)).
    { rewrite A2, A1, <- app_assoc, <- abs_length. simpl. rewrite nth_error_app2, Nat.sub_diag by lia. reflexivity. }
    assert (Hb2 : nth_error (abs h2) (S (length (objs h))) = Some (vcloneEmpty T ss)).
    { rewrite A2, A1, <- abs_length. rewrite nth_error_app2 by (rewrite app_length; simpl; lia).
      rewrite app_length. cbn [length]. replace (S (length (abs h)) - (length (abs h) + 1)) with 0 by lia. reflexivity. }
    destruct (h_part_loop_sim (vm ss) h2 (length (objs h)) (S (length (objs h))) p _ _ ua ub W2 ltac:(lia) Ha2 Hb2 Ea Eb)
      as (h3 & H3 & W3 & A3 & T3 & L3).
    rewrite H3. simpl. eexists; split; [reflexivity|]. split; [exact W3|]. split; [|congruence].
    rewrite A3, A2, A1, <- app_assoc, <- abs_length. simpl.
    clear. induction (abs h) as [|x l IH]; simpl; [reflexivity|]. f_equal. exact IH.
  Qed.
End HeapProofs.
