(** C16 — Powerset: for every oracle, the result has 2^n members, each a well-formed subset of
    the operand, pairwise different as sets, and every subset of the operand occurs. *)
From Coq Require Import Lia Permutation Sorted.
From Algo.C16 Require Import Model Spec ProofsList ProofsSet.
Local Open Scope Z_scope.

(** law-free facts about sets created by New(equal): the unordered kind with any equality *)
Section Generic.
  Variable X : Type.
  Variable e : X -> X -> bool.
  Variable c : nat -> X -> X -> Z.

  Lemma vadd1_unordered : forall l x,
    vadd1 X e c (mkv Unordered l) x = Ok (mkv Unordered (if existsb (fun m => e m x) l then l else l ++ [x])).
  Proof.
    intros l x. unfold vadd1. simpl vk. simpl vm. rewrite add_plan_linear by exact I. simpl.
    unfold Spec.memb. destruct (existsb (fun m => e m x) l); [reflexivity|].
    now rewrite ins_at_end.
  Qed.
End Generic.

Section Power.
  Variable T : Type.
  Variable eqb : T -> T -> bool.
  Variable cmp : nat -> T -> T -> Z.
  Variable draw : nat -> nat.
  Hypothesis eqb_spec : forall x y, eqb x y = true <-> x = y.
  Hypothesis cmp_eq : forall c x y, cmp c x y = 0 <-> x = y.
  Hypothesis cmp_anti : forall c x y, cmp c x y < 0 <-> 0 < cmp c y x.
  Hypothesis cmp_trans : forall c x y z, cmp c x y < 0 -> cmp c y z < 0 -> cmp c x z < 0.

  Notation set0 := (vset T).
  Notation inv := (inv T cmp).
  Notation set_equiv := (set_equiv T).
  Notation set_eq := (set_eq T eqb cmp).
  Notation s_rem := (s_rem T eqb).

  (** two sets are the same mathematical set *)
  Definition same (a b : set0) : Prop := set_equiv (vm a) (vm b).

  Lemma same_refl : forall a, same a a.
  Proof. intros a x. tauto. Qed.
  Lemma same_sym : forall a b, same a b -> same b a.
  Proof. intros a b H x. symmetry. apply H. Qed.
  Lemma same_trans : forall a b c, same a b -> same b c -> same a c.
  Proof. intros a b c H1 H2 x. rewrite (H1 x). apply H2. Qed.

  Lemma set_eq_spec : forall a b, inv a -> inv b -> (set_eq a b = true <-> same a b).
  Proof.
    intros [ka la] [kb lb] Ha Hb. unfold Model.set_eq.
    destruct (vequal_repr T eqb cmp eqb_spec cmp_eq cmp_anti cmp_trans ka la la kb lb lb Ha Hb) as (r & Hr & Hiff).
    rewrite Hr. exact Hiff.
  Qed.

  Lemma not_memb : forall (l : list set0) x, inv x -> Forall inv l ->
    (forall a, In a l -> ~ same a x) -> existsb (fun m => set_eq m x) l = false.
  Proof.
    intros l x Hx Hl Hn. destruct (existsb (fun m => set_eq m x) l) eqn:E; [|reflexivity].
    apply existsb_exists in E. destruct E as (a & Ha & He). rewrite Forall_forall in Hl.
    apply set_eq_spec in He; auto. exfalso. exact (Hn a Ha He).
  Qed.

  (** pairwise different as sets *)
  Inductive distinct : list set0 -> Prop :=
  | d_nil : distinct []
  | d_cons : forall a l, (forall b, In b l -> ~ same a b) -> distinct l -> distinct (a :: l).

  Lemma distinct_perm : forall l l', Permutation l l' -> distinct l -> distinct l'.
  Proof.
    induction 1; intros D.
    - exact D.
    - inversion D; subst. constructor; [|auto]. intros b Hb. apply H2. eapply Permutation_in; [symmetry; eauto|exact Hb].
    - inversion D as [|? ? Hy D1]; subst. inversion D1 as [|? ? Hx D2]; subst.
      constructor; [|constructor; [|exact D2]].
      + intros b [<-|Hb]; [intros Hs; apply (Hy x (or_introl eq_refl)), same_sym, Hs|now apply Hx].
      + intros b Hb. apply Hy. now right.
    - auto.
  Qed.

  (** removing an element from both sides *)
  Lemma same_rem : forall m (a b : list T), set_equiv a b -> set_equiv (s_rem m a) (s_rem m b).
  Proof.
    intros m a b H x. rewrite !(s_rem_In T eqb eqb_spec). rewrite (H x). tauto.
  Qed.

  Lemma rem_notin : forall m (a : list T), ~ In m a -> s_rem m a = a.
  Proof. intros. now apply (s_rem_notin T eqb eqb_spec). Qed.

  Section Loop.
    Variable k : kind.
    Variable m0 : T.

    (** what the loop appends for the subsets [subs]: each subset followed by its union with {m0} *)
    Inductive pw : list set0 -> list set0 -> Prop :=
    | pw_nil : pw [] []
    | pw_cons : forall sub u subs r, inv u -> vk u = k ->
        (forall x, In x (vm u) <-> x = m0 \/ In x (vm sub)) -> pw subs r -> pw (sub :: subs) (sub :: u :: r).

    Definition oksub (a : set0) : Prop := inv a /\ vk a = k /\ ~ In m0 (vm a).

    Lemma rem_union : forall (u sub : set0), ~ In m0 (vm sub) ->
      (forall x, In x (vm u) <-> x = m0 \/ In x (vm sub)) -> set_equiv (s_rem m0 (vm u)) (vm sub).
    Proof.
      intros u sub Hn Hu x. rewrite (s_rem_In T eqb eqb_spec), (Hu x). split.
      - intros [[->|H] Hne]; [congruence|exact H].
      - intros H. split; [now right|]. intros ->. contradiction.
    Qed.

    Lemma pow_loop_spec : forall subs (PS : vset set0) t,
      inv (mkv k [m0]) -> vk PS = Unordered ->
      Forall oksub subs -> distinct subs -> Forall inv (vm PS) ->
      (forall a sub, In a (vm PS) -> In sub subs -> ~ set_equiv (s_rem m0 (vm a)) (vm sub)) ->
      exists r t', pow_loop T eqb cmp draw (mkv k [m0]) PS subs t = Ok (mkv Unordered (vm PS ++ r), t') /\ pw subs r.
    Proof.
      induction subs as [|sub subs IH]; intros PS t Hh HkPS Hok Hd HiPS Hsep; simpl.
      - exists [], t. rewrite app_nil_r. destruct PS as [kp lp]; simpl in *; subst. split; [reflexivity|constructor].
      - inversion Hok as [|? ? [Isub [Ksub Nsub]] Hok']; subst. inversion Hd as [|? ? Hdsub Hd']; subst.
        destruct PS as [kp lp]; simpl in HkPS, HiPS, Hsep |- *; subst kp.
        rewrite vadd1_unordered.
        assert (E1 : existsb (fun m => set_eq m sub) lp = false).
        { apply not_memb; auto. intros a Ha Hs. apply (Hsep a sub Ha (or_introl eq_refl)).
          intros x. rewrite <- (Hs x). rewrite (s_rem_In T eqb eqb_spec). split; [tauto|].
          intros Hx. split; [exact Hx|]. intros ->. apply Nsub. now apply Hs. }
        rewrite E1. simpl.
        destruct (vunion_spec T eqb cmp draw eqb_spec cmp_eq cmp_anti cmp_trans (mkv k [m0]) [sub] t Hh
                    (Forall_cons _ Isub (Forall_nil _))) as (u & t1 & Hu & Iu & Ku & Inu & _).
        rewrite Hu. simpl. simpl in Ku.
        assert (Hu' : forall x, In x (vm u) <-> x = m0 \/ In x (vm sub)).
        { intros x. rewrite (Inu x). simpl. split.
          - intros [[<-|[]]|(r & [<-|[]] & Hr)]; auto.
          - intros [->|H]; [left; now left|right; exists sub; split; [now left|exact H]]. }
        rewrite vadd1_unordered.
        assert (E2 : existsb (fun m => set_eq m u) (lp ++ [sub]) = false).
        { apply not_memb; auto.
          - apply Forall_app. split; [exact HiPS|]. constructor; [exact Isub|constructor].
          - intros a Ha Hs. apply in_app_or in Ha. destruct Ha as [Ha|[<-|[]]].
            + apply (Hsep a sub Ha (or_introl eq_refl)).
              intros x. etransitivity; [apply (same_rem m0 (vm a) (vm u) Hs x)|apply (rem_union u sub Nsub Hu' x)].
            + apply Nsub. apply Hs. apply Hu'. now left. }
        rewrite E2. simpl.
        destruct (IH (mkv Unordered ((lp ++ [sub]) ++ [u])) t1 Hh eq_refl Hok' Hd') as (r & t' & Hr & Hpw).
        + simpl. apply Forall_app. split; [|constructor; [exact Iu|constructor]].
          apply Forall_app. split; [exact HiPS|]. constructor; [exact Isub|constructor].
        + simpl. intros a sub' Ha Hsub' Hs.
          apply in_app_or in Ha. destruct Ha as [Ha|[<-|[]]]; [apply in_app_or in Ha; destruct Ha as [Ha|[<-|[]]]|].
          * apply (Hsep a sub' Ha (or_intror Hsub') Hs).
          * rewrite rem_notin in Hs by exact Nsub. exact (Hdsub sub' Hsub' Hs).
          * apply (Hdsub sub' Hsub'). intros x. rewrite <- (Hs x). symmetry. apply rem_union; auto.
        + exists (sub :: u :: r), t'. simpl in Hr. rewrite Hr. split.
          * f_equal. f_equal. rewrite <- !app_assoc. reflexivity.
          * constructor; auto.
    Qed.

    Lemma pw_length : forall subs r, pw subs r -> length r = (2 * length subs)%nat.
    Proof. induction 1; simpl; lia. Qed.

    Lemma pw_in : forall subs r b, pw subs r -> In b r ->
      exists sub, In sub subs /\ (b = sub \/ (inv b /\ vk b = k /\ forall x, In x (vm b) <-> x = m0 \/ In x (vm sub))).
    Proof.
      induction 1 as [|sub u subs r Iu Ku Hu Hpw IH]; intros Hb; [destruct Hb|].
      destruct Hb as [<-|[<-|Hb]].
      - exists sub. split; [now left|now left].
      - exists sub. split; [now left|right; auto].
      - destruct (IH Hb) as (s' & Hs' & Hc). exists s'. split; [now right|exact Hc].
    Qed.

    Lemma pw_distinct : forall subs r, pw subs r -> Forall oksub subs -> distinct subs -> distinct r.
    Proof.
      induction 1 as [|sub u subs r Iu Ku Hu Hpw IH]; intros Hok Hd; [constructor|].
      inversion Hok as [|? ? [Isub [Ksub Nsub]] Hok']; subst. inversion Hd as [|? ? Hdsub Hd']; subst.
      pose proof (IH Hok' Hd') as Dr.
      rewrite Forall_forall in Hok'.
      constructor; [|constructor; [|exact Dr]].
      - intros b [<-|Hb] Hs.
        + apply Nsub. apply Hs, Hu. now left.
        + destruct (pw_in _ _ _ Hpw Hb) as (s' & Hs' & [->|(_ & _ & Hb')]).
          * exact (Hdsub s' Hs' Hs).
          * apply Nsub. apply Hs, Hb'. now left.
      - intros b Hb Hs. destruct (pw_in _ _ _ Hpw Hb) as (s' & Hs' & [->|(_ & _ & Hb')]).
        + destruct (Hok' s' Hs') as (_ & _ & Ns'). apply Ns'. apply Hs, Hu. now left.
        + destruct (Hok' s' Hs') as (_ & _ & Ns'). apply (Hdsub s' Hs'). intros x. split; intros Hx.
          * assert (In x (vm b)) by (apply Hs, Hu; now right). apply Hb' in H. destruct H as [->|H]; [contradiction|exact H].
          * assert (In x (vm u)) by (apply Hs, Hb'; now right). apply Hu in H. destruct H as [->|H]; [contradiction|exact H].
    Qed.
  End Loop.

  (** ** the theorem *)
  Definition subset_of (s : set0) (a : set0) : Prop := inv a /\ vk a = vk s /\ incl (vm a) (vm s).

  Theorem powerset_spec : forall fuel (s : set0) t, inv s -> (length (vm s) < fuel)%nat ->
    exists PS t', powerset T eqb cmp draw fuel s t = Ok (PS, t') /\ vk PS = Unordered /\
      length (vm PS) = (2 ^ length (vm s))%nat /\
      Forall (subset_of s) (vm PS) /\
      distinct (vm PS) /\
      (forall l, NoDup l -> incl l (vm s) -> exists a, In a (vm PS) /\ set_equiv (vm a) l).
  Proof.
    induction fuel as [|f IH]; intros s t Hs Hf; [lia|].
    destruct s as [k l]. simpl in Hf. cbn [powerset]. unfold vsize. simpl vm.
    destruct l as [|x0 l0] eqn:El.
    - (* the empty set *)
      simpl. exists (mkv Unordered [mkv k []]), t. split; [reflexivity|]. split; [reflexivity|]. split; [reflexivity|].
      split; [|split].
      + constructor; [|constructor]. split; [apply repr_nil|]. split; [reflexivity|]. intros y [].
      + constructor; [intros b []|constructor].
      + intros l' _ Hi. exists (mkv k []). split; [now left|]. intros y. simpl. split; [tauto|]. intros Hy. apply (Hi y Hy).
    - rewrite <- El in *. assert (Hlen : length l <> 0%nat) by (subst l; simpl; lia).
      replace (Nat.eqb (length l) 0) with false by (symmetry; apply Nat.eqb_neq; exact Hlen).
      destruct (vall_repr T cmp draw k l l t Hs) as (members & t1 & Ha & Hp & _).
      rewrite Ha. cbn [rbind].
      assert (Hlm : length members = length l) by (apply Permutation_length; exact Hp).
      destruct members as [|m0 rest]; [simpl in Hlm; lia|].
      assert (NDm : NoDup (m0 :: rest)).
      { eapply Permutation_NoDup; [symmetry; exact Hp|]. eapply repr_NoDup; eauto. }
      destruct (proj1 (NoDup_cons_iff m0 rest) NDm) as [Nm0 NDrest].
      (* head and tail *)
      destruct (vadd_repr T eqb cmp eqb_spec cmp_eq cmp_anti cmp_trans [m0] k [] [] (repr_nil T cmp k)) as (lh & Hh & Rh).
      unfold vcloneEmpty. simpl vk. rewrite Hh. cbn [rbind].
      assert (Elh : lh = [m0]).
      { simpl in Rh. unfold Spec.s_add in Rh. simpl in Rh. pose proof (repr_perm T cmp _ _ _ Rh) as P.
        apply Permutation_sym, Permutation_length_1_inv in P. exact P. }
      subst lh.
      destruct (vadd_repr T eqb cmp eqb_spec cmp_eq cmp_anti cmp_trans rest k [] [] (repr_nil T cmp k)) as (lt0 & Ht & Rt).
      rewrite Ht. cbn [rbind].
      rewrite (s_adds_fresh T eqb eqb_spec rest [] NDrest) in Rt. simpl in Rt.
      pose proof (repr_inv T cmp _ _ _ Rt) as Itail.
      pose proof (repr_perm T cmp _ _ _ Rt) as Ptail.
      assert (Ltail : length lt0 = length rest) by (apply Permutation_length; exact Ptail).
      destruct (IH (mkv k lt0) t1 Itail ltac:(simpl in *; lia)) as (PT & t2 & HPT & KPT & LPT & FPT & DPT & CPT).
      rewrite HPT. cbn [rbind]. destruct PT as [kpt lpt]. simpl in KPT, LPT, FPT, DPT, CPT. subst kpt.
      destruct (all_spec (vset T) draw Unordered lpt t2) as (subs & t3 & Hsubs & Psubs & _).
      unfold vall. simpl vk. simpl vm. rewrite Hsubs. cbn [rbind].
      assert (Hok : Forall (oksub k m0) subs).
      { apply Forall_forall. intros a Ha'. rewrite Forall_forall in FPT.
        destruct (FPT a (Permutation_in _ Psubs Ha')) as (I1 & K1 & Inc). simpl in K1, Inc.
        split; [exact I1|]. split; [exact K1|]. intros Hc. apply Nm0.
        apply (Permutation_in _ Ptail). now apply Inc. }
      assert (Hd : distinct subs) by (eapply distinct_perm; [symmetry; exact Psubs|exact DPT]).
      destruct (pow_loop_spec k m0 subs (mkv Unordered []) t3 (repr_inv T cmp _ _ _ Rh) eq_refl Hok Hd
                  (Forall_nil _) ltac:(intros a sub' [])) as (r & t' & Hr & Hpw).
      unfold vnew. rewrite Hr. simpl app.
      exists (mkv Unordered r), t'. split; [reflexivity|]. split; [reflexivity|].
      assert (Hms : forall y, In y l <-> y = m0 \/ In y rest).
      { intros y. split.
        - intros Hy. apply (Permutation_in _ (Permutation_sym Hp)) in Hy. destruct Hy; auto.
        - intros Hy. apply (Permutation_in _ Hp). destruct Hy as [->|Hy]; [now left|now right]. }
      split; [|split; [|split]].
      + simpl. rewrite (pw_length k m0 _ _ Hpw), (Permutation_length Psubs), LPT, Ltail.
        rewrite <- Hlm. simpl. lia.
      + simpl. apply Forall_forall. intros b Hb.
        destruct (pw_in k m0 _ _ _ Hpw Hb) as (sub & Hsub & Hc).
        rewrite Forall_forall in FPT. destruct (FPT sub (Permutation_in _ Psubs Hsub)) as (I1 & K1 & Inc).
        simpl in K1, Inc.
        destruct Hc as [->|(Ib & Kb & Hb')].
        * split; [exact I1|]. split; [exact K1|]. intros y Hy. simpl. apply Hms. right.
          apply (Permutation_in _ Ptail). now apply Inc.
        * split; [exact Ib|]. split; [exact Kb|]. intros y Hy. simpl. apply Hms. apply Hb' in Hy.
          destruct Hy as [->|Hy]; [now left|right]. apply (Permutation_in _ Ptail). now apply Inc.
      + simpl. eapply pw_distinct; eauto.
      + simpl. intros l' ND' Hi'.
        assert (Hl'' : NoDup (s_rem m0 l') /\ incl (s_rem m0 l') lt0).
        { split; [now apply (s_rem_NoDup T eqb)|]. intros y Hy. apply (s_rem_In T eqb eqb_spec) in Hy.
          destruct Hy as [Hy Hne]. apply (Permutation_in _ (Permutation_sym Ptail)).
          specialize (Hi' y Hy). simpl in Hi'. apply Hms in Hi'. destruct Hi'; [congruence|assumption]. }
        destruct (CPT (s_rem m0 l') (proj1 Hl'') (proj2 Hl'')) as (a & Ha' & Hsa).
        assert (Hasub : In a subs) by (apply (Permutation_in _ (Permutation_sym Psubs)); exact Ha').
        clear - Hpw Hasub Hsa eqb_spec Hok.
        assert (Hgen : forall subs r, pw k m0 subs r -> In a subs -> Forall (oksub k m0) subs ->
                  exists b, In b r /\ set_equiv (vm b) l').
        { induction 1 as [|sub u subs0 r0 Iu Ku Hu Hpw0 IHp]; intros Hin Hok0; [destruct Hin|].
          inversion Hok0 as [|? ? [_ [_ Nsub]] Hok0']; subst.
          destruct Hin as [->|Hin].
          - destruct (in_dec (fun x y => Bool.reflect_dec _ _ (Bool.iff_reflect _ _ (iff_sym (eqb_spec x y)))) m0 l') as [Hm|Hm].
            + exists u. split; [right; now left|]. intros y. rewrite (Hu y), (Hsa y), (s_rem_In T eqb eqb_spec).
              split; [intros [->|[H _]]; auto|]. intros Hy.
              destruct (Bool.reflect_dec _ _ (Bool.iff_reflect _ _ (iff_sym (eqb_spec y m0)))) as [->|Hne]; [now left|right; auto].
            + exists a. split; [now left|]. intros y. rewrite (Hsa y), (s_rem_In T eqb eqb_spec).
              split; [tauto|]. intros Hy. split; [exact Hy|]. intros ->. contradiction.
          - destruct (IHp Hin Hok0') as (b & Hb & Hsb). exists b. split; [right; now right|exact Hsb]. }
        exact (Hgen subs r Hpw Hasub Hok).
  Qed.
End Power.
