(** C16 — whole programs: the heap layer simulates the value layer on every sequence of
    commands, for every growth policy; frame property; backing arrays are never shared. *)
From Coq Require Import Lia.
From Algo.C16 Require Import Model Spec ProofsList ProofsSet ProofsHeap.

Arguments arrs {T} h.
Arguments objs {T} h.
Arguments tick {T} h.
Arguments vobjs {T} v.
Arguments vtick {T} v.

Section Prog.
  Variable T : Type.
  Variable zero : T.
  Variable grow : nat -> nat -> nat.
  Variable eqb : T -> T -> bool.
  Variable cmp : nat -> T -> T -> Z.
  Variable draw : nat -> nat.
  Hypothesis grow_ok : forall c n, n <= grow c n.

  Notation heap := (heap T).
  Notation vstate := (vstate T).
  Notation abs := (abs T).
  Notation wfh := (wfh T).
  Notation vexec := (vexec T eqb cmp draw).
  Notation hexec := (hexec T zero grow eqb cmp draw).
  Notation vrun := (vrun T eqb cmp draw).
  Notation hrun := (hrun T zero grow eqb cmp draw).

  Definition rel (h : heap) (st : vstate) : Prop :=
    wfh h /\ abs h = vobjs st /\ tick h = vtick st.

  Lemma vget_abs : forall h st r s, rel h st -> vget T st r = Ok s -> nth_error (abs h) r = Some s.
  Proof.
    intros h st r s (_ & A & _) H. unfold vget in H. rewrite A.
    destruct (nth_error (vobjs st) r); inversion H. reflexivity.
  Qed.

  Lemma vgets_reads : forall h st rs ss, rel h st -> vgets T st rs = Ok ss -> reads T h rs ss.
  Proof.
    intros h st rs. induction rs as [|r rs IH]; intros ss R H; simpl in H.
    - inversion H. constructor.
    - destruct (vget T st r) as [s| |] eqn:E; simpl in H; try discriminate.
      destruct (vgets T st rs) as [ss'| |] eqn:E2; simpl in H; try discriminate.
      inversion H; subst. constructor; [eapply vget_abs; eauto|now apply IH].
  Qed.

  Lemma rel_length : forall h st, rel h st -> length (objs h) = length (vobjs st).
  Proof. intros h st (_ & A & _). rewrite <- A. symmetry. apply abs_length. Qed.

  Ltac dres H :=
    match type of H with
    | context [rbind ?x _] => let E := fresh "E" in destruct x eqn:E; simpl in H; try discriminate
    end.

  Theorem exec_sim : forall c h st o st', rel h st -> vexec st c = Ok (o, st') ->
    exists h', hexec h c = Ok (o, h') /\ rel h' st'.
  Proof.
    intros c h st o st' R Hv. pose proof R as (W & A & Tk). pose proof (rel_length h st R) as Len.
    destruct c; simpl in Hv.
    - (* New *) inversion Hv; subst. destruct (h_new_sim T zero h k W) as (R1 & R2 & R3 & R4).
      simpl in R1, R2, R3, R4. eexists. simpl. rewrite Len.
      split; [reflexivity|]. split; [exact R2|]. split; [rewrite R3, A; reflexivity|simpl in *; congruence].
    - (* Add *) dres Hv. dres Hv. inversion Hv; subst.
      destruct (h_add_sim T zero grow eqb cmp grow_ok vs h r x x0 W (vget_abs _ _ _ _ R E) E0) as (h' & H1 & W' & A' & T' & _).
      exists h'. simpl. rewrite H1. simpl. split; [reflexivity|]. split; [exact W'|]. split; [rewrite A', A; reflexivity|simpl; congruence].
    - (* Remove *) dres Hv. dres Hv. inversion Hv; subst.
      destruct (h_remove_sim T zero grow eqb cmp grow_ok vs h r x x0 W (vget_abs _ _ _ _ R E) E0) as (h' & H1 & W' & A' & T' & _).
      exists h'. simpl. rewrite H1. simpl. split; [reflexivity|]. split; [exact W'|]. split; [rewrite A', A; reflexivity|simpl; congruence].
    - (* RemoveAll *) dres Hv. inversion Hv; subst.
      destruct (h_removeAll_sim T zero h r x W (vget_abs _ _ _ _ R E)) as (h' & H1 & W' & A' & T' & _).
      exists h'. simpl. rewrite H1. simpl. split; [reflexivity|]. split; [exact W'|]. split; [rewrite A', A; reflexivity|simpl; congruence].
    - (* Contains *) dres Hv. dres Hv. inversion Hv; subst.
      exists h. simpl. rewrite (h_contains_sim T eqb cmp h r x vs W (vget_abs _ _ _ _ R E)), E0. simpl. auto.
    - (* Size *) dres Hv. inversion Hv; subst.
      exists h. simpl. rewrite (proj1 (h_size_sim T h r x W (vget_abs _ _ _ _ R E))). simpl. auto.
    - (* IsEmpty *) dres Hv. inversion Hv; subst.
      exists h. simpl. rewrite (proj2 (h_size_sim T h r x W (vget_abs _ _ _ _ R E))). simpl. auto.
    - (* All *) dres Hv. dres Hv. destruct x0 as [ms t]. inversion Hv; subst.
      rewrite <- Tk in E0.
      exists (with_tick T h t). simpl. rewrite (h_all_sim T draw h r x ms t W (vget_abs _ _ _ _ R E) E0). simpl.
      split; [reflexivity|]. split; [exact W|]. split; [exact A|reflexivity].
    - (* Equal *) dres Hv. dres Hv. dres Hv. inversion Hv; subst.
      exists h. simpl. rewrite (h_equal_sim T eqb cmp h a b x x0 W (vget_abs _ _ _ _ R E) (vget_abs _ _ _ _ R E0)), E1. simpl. auto.
    - (* IsSubset *) dres Hv. dres Hv. dres Hv. destruct x1 as [b0 t]. inversion Hv; subst.
      rewrite <- Tk in E1.
      exists (with_tick T h t). simpl.
      rewrite (h_isSubset_sim T eqb cmp draw h a b x x0 b0 t W (vget_abs _ _ _ _ R E) (vget_abs _ _ _ _ R E0) E1). simpl.
      split; [reflexivity|]. split; [exact W|]. split; [exact A|reflexivity].
    - (* IsSuperset *) dres Hv. dres Hv. dres Hv. destruct x1 as [b0 t]. inversion Hv; subst.
      rewrite <- Tk in E1.
      exists (with_tick T h t). simpl.
      rewrite (h_isSuperset_sim T eqb cmp draw h a b x x0 b0 t W (vget_abs _ _ _ _ R E) (vget_abs _ _ _ _ R E0) E1). simpl.
      split; [reflexivity|]. split; [exact W|]. split; [exact A|reflexivity].
    - (* Clone *) dres Hv. inversion Hv; subst.
      destruct (h_clone_sim T zero h r x W (vget_abs _ _ _ _ R E)) as (h' & H1 & W' & A' & T').
      exists h'. simpl. rewrite H1. simpl. rewrite Len. split; [reflexivity|]. split; [exact W'|]. split; [rewrite A', A; reflexivity|simpl; congruence].
    - (* CloneEmpty *) dres Hv. inversion Hv; subst.
      destruct (h_cloneEmpty_sim T zero h r x W (vget_abs _ _ _ _ R E)) as (h' & H1 & W' & A' & T').
      exists h'. simpl. rewrite H1. simpl. rewrite Len. split; [reflexivity|]. split; [exact W'|]. split; [rewrite A', A; reflexivity|simpl; congruence].
    - (* Union *) dres Hv. dres Hv. dres Hv. destruct x1 as [u t]. inversion Hv; subst.
      rewrite <- Tk in E1.
      destruct (h_union_sim T zero grow eqb cmp draw grow_ok h r rs x x0 u t W (vget_abs _ _ _ _ R E) (vgets_reads _ _ _ _ R E0) E1)
        as (h' & H1 & W' & A' & T').
      exists h'. simpl. rewrite H1. simpl. rewrite Len. split; [reflexivity|]. split; [exact W'|]. split; [rewrite A', A; reflexivity|exact T'].
    - (* Intersection *) dres Hv. dres Hv. dres Hv. inversion Hv; subst.
      destruct (h_intersection_sim T zero grow eqb cmp grow_ok h r rs x x0 x1 W (vget_abs _ _ _ _ R E) (vgets_reads _ _ _ _ R E0) E1)
        as (h' & H1 & W' & A' & T').
      exists h'. simpl. rewrite H1. simpl. rewrite Len. split; [reflexivity|]. split; [exact W'|]. split; [rewrite A', A; reflexivity|simpl; congruence].
    - (* Difference *) dres Hv. dres Hv. dres Hv. destruct x1 as [u t]. inversion Hv; subst.
      rewrite <- Tk in E1.
      destruct (h_difference_sim T zero grow eqb cmp draw grow_ok h r rs x x0 u t W (vget_abs _ _ _ _ R E) (vgets_reads _ _ _ _ R E0) E1)
        as (h' & H1 & W' & A' & T').
      exists h'. simpl. rewrite H1. simpl. rewrite Len. split; [reflexivity|]. split; [exact W'|]. split; [rewrite A', A; reflexivity|exact T'].
    - (* AnyMatch *) dres Hv. inversion Hv; subst.
      exists h. simpl. rewrite (proj1 (h_matches_sim T h r x p W (vget_abs _ _ _ _ R E))). simpl. auto.
    - (* AllMatch *) dres Hv. inversion Hv; subst.
      exists h. simpl. rewrite (proj1 (proj2 (h_matches_sim T h r x p W (vget_abs _ _ _ _ R E)))). simpl. auto.
    - (* FirstMatch *) dres Hv. inversion Hv; subst.
      exists h. simpl. rewrite (proj2 (proj2 (h_matches_sim T h r x p W (vget_abs _ _ _ _ R E)))). simpl. auto.
    - (* SelectMatch *) dres Hv. dres Hv. inversion Hv; subst.
      destruct (h_selectMatch_sim T zero grow eqb cmp grow_ok h r x p x0 W (vget_abs _ _ _ _ R E) E0) as (h' & H1 & W' & A' & T').
      exists h'. simpl. rewrite H1. simpl. rewrite Len. split; [reflexivity|]. split; [exact W'|]. split; [rewrite A', A; reflexivity|simpl; congruence].
    - (* PartitionMatch *) dres Hv. dres Hv. destruct x0 as [ua ub]. inversion Hv; subst.
      destruct (h_partitionMatch_sim T zero grow eqb cmp grow_ok h r x p ua ub W (vget_abs _ _ _ _ R E) E0) as (h' & H1 & W' & A' & T').
      exists h'. simpl. rewrite H1. simpl. rewrite Len. split; [reflexivity|]. split; [exact W'|]. split; [rewrite A', A; reflexivity|simpl; congruence].
  Qed.

  Theorem run_sim : forall cs h st outs st', rel h st -> vrun st cs = Ok (outs, st') ->
    exists h', hrun h cs = Ok (outs, h') /\ rel h' st'.
  Proof.
    induction cs as [|c cs IH]; intros h st outs st' R Hv; simpl in Hv.
    - inversion Hv; subst. exists h. auto.
    - destruct (vexec st c) as [[o st1]| |] eqn:E; simpl in Hv; try discriminate.
      destruct (vrun st1 cs) as [[os st2]| |] eqn:E2; simpl in Hv; try discriminate.
      inversion Hv; subst.
      destruct (exec_sim c h st o st1 R E) as (h1 & H1 & R1).
      destruct (IH h1 st1 os st' R1 E2) as (h2 & H2 & R2).
      exists h2. simpl. rewrite H1. simpl. rewrite H2. simpl. auto.
  Qed.

  Lemma rel_empty : rel (empty_heap T) (mkvs T [] 0).
  Proof. split; [apply wfh_empty|]. split; reflexivity. Qed.
  (** ** the value layer never fails on existing objects (no laws needed) *)
  Lemma vadd1_total : forall s v, exists s', vadd1 T eqb cmp s v = Ok s' /\ vk s' = vk s.
  Proof.
    intros s v. unfold vadd1. destruct (add_plan_total T eqb cmp (vk s) (vm s) v) as (p & Hp & _). rewrite Hp. simpl.
    destruct p; eexists; split; reflexivity.
  Qed.

  Lemma vadd_total : forall vs s, exists s', vadd T eqb cmp s vs = Ok s' /\ vk s' = vk s.
  Proof.
    induction vs as [|v vs IH]; intros s; simpl; [eauto|].
    destruct (vadd1_total s v) as (s1 & H1 & K1). rewrite H1. simpl.
    destruct (IH s1) as (s2 & H2 & K2). exists s2. split; [exact H2|congruence].
  Qed.

  Lemma vremove1_total : forall s v, exists s', vremove1 T eqb cmp s v = Ok s' /\ vk s' = vk s.
  Proof.
    intros s v. unfold vremove1. destruct (remove_plan_total T eqb cmp (vk s) (vm s) v) as (p & Hp & _). rewrite Hp. simpl.
    destruct p; eexists; split; reflexivity.
  Qed.

  Lemma vremove_total : forall vs s, exists s', vremove T eqb cmp s vs = Ok s' /\ vk s' = vk s.
  Proof.
    induction vs as [|v vs IH]; intros s; simpl; [eauto|].
    destruct (vremove1_total s v) as (s1 & H1 & K1). rewrite H1. simpl.
    destruct (IH s1) as (s2 & H2 & K2). exists s2. split; [exact H2|congruence].
  Qed.

  Lemma vall_total : forall s t, exists ms t', vall T draw s t = Ok (ms, t').
  Proof. intros s t. destruct (all_spec T draw (vk s) (vm s) t) as (r & t' & H & _). eauto. Qed.

  Lemma all_in_total : forall c ms, exists b, all_in T eqb cmp c ms = Ok b.
  Proof. intros. rewrite all_in_hasb. eauto. Qed.

  Theorem vequal_total : forall a b, exists r, vequal T eqb cmp a b = Ok r.
  Proof. intros a b. unfold vequal. destruct (negb _); [eauto|apply all_in_total]. Qed.

  Lemma vunion_loop_total : forall sets acc t, exists u t', vunion_loop T eqb cmp draw acc sets t = Ok (u, t').
  Proof.
    induction sets as [|x sets IH]; intros acc t; simpl; [eauto|].
    destruct (vall_total x t) as (ms & t1 & H1). rewrite H1. simpl.
    destruct (vadd_total ms acc) as (a1 & H2 & _). rewrite H2. simpl. apply IH.
  Qed.

  Lemma vdiff_loop_total : forall sets acc t, exists u t', vdiff_loop T eqb cmp draw acc sets t = Ok (u, t').
  Proof.
    induction sets as [|x sets IH]; intros acc t; simpl; [eauto|].
    destruct (vall_total x t) as (ms & t1 & H1). rewrite H1. simpl.
    destruct (vremove_total ms acc) as (a1 & H2 & _). rewrite H2. simpl. apply IH.
  Qed.

  Lemma vinter_loop_total : forall ms acc sets, exists u, vinter_loop T eqb cmp acc ms sets = Ok u.
  Proof.
    induction ms as [|m ms IH]; intros acc sets; simpl; [eauto|].
    rewrite in_all_hasb. simpl. destruct (forallb _ sets).
    - destruct (vadd1_total acc m) as (a1 & H1 & _). rewrite H1. simpl. apply IH.
    - simpl. apply IH.
  Qed.

  Definition valid (st : vstate) (c : cmd T) : Prop := Forall (fun r => r < length (vobjs st)) (refs T c).

  Lemma vget_total : forall st r, r < length (vobjs st) -> exists s, vget T st r = Ok s.
  Proof.
    intros st r H. unfold vget. destruct (nth_error (vobjs st) r) eqn:E; [eauto|].
    apply nth_error_None in E. lia.
  Qed.

  Lemma vgets_total : forall st rs, Forall (fun r => r < length (vobjs st)) rs -> exists ss, vgets T st rs = Ok ss.
  Proof.
    intros st rs H. induction H as [|r rs Hr _ IH]; simpl; [eauto|].
    destruct (vget_total st r Hr) as (s & ->). destruct IH as (ss & ->). simpl. eauto.
  Qed.

  Theorem vexec_total : forall c st, valid st c -> exists o st', vexec st c = Ok (o, st').
  Proof.
    intros c st V. unfold valid in V.
    destruct c; simpl in V; simpl;
      repeat match goal with
      | H : Forall _ (_ :: _) |- _ => let a := fresh "Hr" in let b := fresh "Hrs" in inversion H as [|? ? a b]; subst; clear H
      end;
      repeat match goal with
      | H : ?r < length (vobjs st) |- context [vget T st ?r] =>
          let s := fresh "s" in let E := fresh "E" in destruct (vget_total st r H) as (s & E); rewrite E; simpl; clear H
      end;
      try match goal with
      | H : Forall _ ?rs |- context [vgets T st ?rs] =>
          let ss := fresh "ss" in let E := fresh "E" in destruct (vgets_total st rs H) as (ss & E); rewrite E; simpl
      end;
      eauto.
    - destruct (vadd_total vs s) as (s' & -> & _). simpl. eauto.
    - destruct (vremove_total vs s) as (s' & -> & _). simpl. eauto.
    - unfold vcontains. rewrite contains_hasb. simpl. eauto.
    - destruct (vall_total s (vtick st)) as (ms & t' & ->). simpl. eauto.
    - destruct (vequal_total s s0) as (r & ->). simpl. eauto.
    - unfold visSubset. destruct (vall_total s (vtick st)) as (ms & t' & ->). simpl.
      destruct (all_in_total s0 ms) as (r & ->). simpl. eauto.
    - unfold visSuperset. destruct (vall_total s0 (vtick st)) as (ms & t' & ->). simpl.
      destruct (all_in_total s ms) as (r & ->). simpl. eauto.
    - unfold vunion. destruct (vunion_loop_total ss (vclone T s) (vtick st)) as (u & t' & ->). simpl. eauto.
    - unfold vintersection. destruct (vinter_loop_total (vm s) (vcloneEmpty T s) ss) as (u & ->). simpl. eauto.
    - unfold vdifference. destruct (vdiff_loop_total ss (vclone T s) (vtick st)) as (u & t' & ->). simpl. eauto.
    - unfold vselectMatch. destruct (vadd_total (filter p (vm s)) (vcloneEmpty T s)) as (u & -> & _). simpl. eauto.
    - unfold vpartitionMatch. destruct (vadd_total (filter p (vm s)) (vcloneEmpty T s)) as (u & -> & _). simpl.
      destruct (vadd_total (filter (fun x => negb (p x)) (vm s)) (vcloneEmpty T s)) as (w & -> & _). simpl. eauto.
  Qed.

  (** ** frame: a command changes at most the value of its target, and only appends objects *)
  Theorem vexec_frame : forall c st o st', vexec st c = Ok (o, st') ->
    length (vobjs st) <= length (vobjs st') /\
    forall y, y < length (vobjs st) -> target T c <> Some y -> nth_error (vobjs st') y = nth_error (vobjs st) y.
  Proof.
    intros c st o st' Hv.
    assert (Happ : forall extra, length (vobjs st) <= length (vobjs st ++ extra) /\
              forall y, y < length (vobjs st) -> nth_error (vobjs st ++ extra) y = nth_error (vobjs st) y).
    { intros extra. split; [rewrite app_length; lia|]. intros y Hy. now apply nth_error_app1. }
    assert (Hput : forall r s, length (vobjs st) <= length (set_nth (vobjs st) r s) /\
              forall y, Some r <> Some y -> nth_error (set_nth (vobjs st) r s) y = nth_error (vobjs st) y).
    { intros r s. split; [rewrite set_nth_length; lia|]. intros y Hy. apply nth_error_set_nth_neq. congruence. }
    destruct c; simpl in Hv; repeat (dres Hv);
      repeat match goal with p : (_ * _)%type |- _ => destruct p end; simpl in Hv; inversion Hv; subst; simpl;
      try (split; [lia|reflexivity]);
      try (split; [apply Happ|intros y Hy _; now apply Happ]);
      try (split; [apply Hput|intros y _ Hy; now apply Hput]).
  Qed.
End Prog.

(** * With the laws of the element type: every reachable state consists of well-formed sets,
    and the heap-level statements of the property. *)
Section ProgLaws.
  Variable T : Type.
  Variable zero : T.
  Variable grow : nat -> nat -> nat.
  Variable eqb : T -> T -> bool.
  Variable cmp : nat -> T -> T -> Z.
  Variable draw : nat -> nat.
  Hypothesis grow_ok : forall c n, n <= grow c n.
  Hypothesis eqb_spec : forall x y, eqb x y = true <-> x = y.
  Hypothesis cmp_eq : forall c x y, (cmp c x y = 0)%Z <-> x = y.
  Hypothesis cmp_anti : forall c x y, (cmp c x y < 0)%Z <-> (0 < cmp c y x)%Z.
  Hypothesis cmp_trans : forall c x y z, (cmp c x y < 0)%Z -> (cmp c y z < 0)%Z -> (cmp c x z < 0)%Z.

  Notation heap := (heap T).
  Notation vstate := (vstate T).
  Notation abs := (abs T).
  Notation wfh := (wfh T).
  Notation inv := (inv T cmp).
  Notation vexec := (vexec T eqb cmp draw).
  Notation hexec := (hexec T zero grow eqb cmp draw).
  Notation vrun := (vrun T eqb cmp draw).
  Notation hrun := (hrun T zero grow eqb cmp draw).

  Lemma inv_vadd : forall s vs s', inv s -> vadd T eqb cmp s vs = Ok s' -> inv s'.
  Proof.
    intros [k l] vs s' H Hv.
    destruct (vadd_repr T eqb cmp eqb_spec cmp_eq cmp_anti cmp_trans vs k l l H) as (l' & H1 & R).
    rewrite H1 in Hv. inversion Hv; subst. eapply repr_inv; eauto.
  Qed.

  Lemma inv_vremove : forall s vs s', inv s -> vremove T eqb cmp s vs = Ok s' -> inv s'.
  Proof.
    intros [k l] vs s' H Hv.
    destruct (vremove_repr T eqb cmp eqb_spec cmp_eq cmp_anti cmp_trans vs k l l H) as (l' & H1 & R).
    rewrite H1 in Hv. inversion Hv; subst. eapply repr_inv; eauto.
  Qed.

  Lemma inv_empty : forall k, inv (mkv k (@nil T)).
  Proof. intros. apply repr_nil. Qed.

  Lemma Forall_set_nth : forall (P : vset T -> Prop) l i x, Forall P l -> P x -> Forall P (set_nth l i x).
  Proof.
    intros P l. induction l as [|a l IH]; intros [|i] x Hl Hx; simpl; inversion Hl; subst; constructor; auto.
  Qed.

  Lemma Forall_vget : forall st r s, Forall inv (vobjs st) -> vget T st r = Ok s -> inv s.
  Proof.
    intros st r s H Hg. unfold vget in Hg. destruct (nth_error (vobjs st) r) eqn:E; inversion Hg; subst.
    rewrite Forall_forall in H. apply H. eapply nth_error_In; eauto.
  Qed.

  Lemma Forall_vgets : forall st rs ss, Forall inv (vobjs st) -> vgets T st rs = Ok ss -> Forall inv ss.
  Proof.
    intros st rs. induction rs as [|r rs IH]; intros ss H Hg; simpl in Hg.
    - inversion Hg. constructor.
    - destruct (vget T st r) eqn:E; simpl in Hg; try discriminate.
      destruct (vgets T st rs) eqn:E2; simpl in Hg; try discriminate. inversion Hg; subst.
      constructor; [eapply Forall_vget; eauto|now apply IH].
  Qed.

  Ltac dres H :=
    match type of H with
    | context [rbind ?x _] => let E := fresh "E" in destruct x eqn:E; simpl in H; try discriminate
    end.

  Theorem vexec_inv : forall c st o st', Forall inv (vobjs st) -> vexec st c = Ok (o, st') -> Forall inv (vobjs st').
  Proof.
    intros c st o st' H Hv.
    assert (Hpush : forall s, inv s -> Forall inv (vobjs st ++ [s])).
    { intros s Hs. apply Forall_app. split; [exact H|]. constructor; [exact Hs|constructor]. }
    destruct c; simpl in Hv; repeat (dres Hv);
      repeat match goal with p : (_ * _)%type |- _ => destruct p end; simpl in Hv; inversion Hv; subst; simpl;
      try exact H;
      try match goal with E : vget T st _ = Ok ?s |- _ => pose proof (Forall_vget _ _ _ H E) as Hs end;
      try match goal with E : vgets T st _ = Ok ?s |- _ => pose proof (Forall_vgets _ _ _ H E) as Hss end.
    - apply Hpush, inv_empty.
    - apply Forall_set_nth; [exact H|]. eapply inv_vadd; eauto.
    - apply Forall_set_nth; [exact H|]. eapply inv_vremove; eauto.
    - apply Forall_set_nth; [exact H|]. apply inv_empty.
    - apply Hpush. destruct x; exact Hs.
    - apply Hpush. apply inv_empty.
    - apply Hpush.
      destruct (vunion_spec T eqb cmp draw eqb_spec cmp_eq cmp_anti cmp_trans x x0 (vtick st) Hs Hss) as (u & t' & Hu & Iu & _).
      rewrite Hu in E1. inversion E1; subst. exact Iu.
    - apply Hpush.
      destruct (vintersection_spec T eqb cmp eqb_spec cmp_eq cmp_anti cmp_trans x x0 Hs Hss) as (u & Hu & Iu & _).
      rewrite Hu in E1. inversion E1; subst. exact Iu.
    - apply Hpush.
      destruct (vdifference_spec T eqb cmp draw eqb_spec cmp_eq cmp_anti cmp_trans x x0 (vtick st) Hs Hss) as (u & t' & Hu & Iu & _).
      rewrite Hu in E1. inversion E1; subst. exact Iu.
    - apply Hpush.
      destruct (vselectMatch_spec T eqb cmp eqb_spec cmp_eq cmp_anti cmp_trans x p Hs) as (u & Hu & Iu & _).
      rewrite Hu in E0. inversion E0; subst. exact Iu.
    - destruct (vpartitionMatch_spec T eqb cmp eqb_spec cmp_eq cmp_anti cmp_trans x p Hs) as (a & b & Hab & Ia & Ib & _).
      rewrite Hab in E0. inversion E0; subst.
      apply Forall_app. split; [exact H|]. constructor; [exact Ia|]. constructor; [exact Ib|constructor].
  Qed.

  (** reachable heaps *)
  Definition good (h : heap) : Prop := wfh h /\ Forall inv (abs h).

  Definition hvalid (h : heap) (c : cmd T) : Prop := Forall (fun r => r < length (objs h)) (refs T c).

  Lemma good_empty : good (empty_heap T).
  Proof. split; [apply wfh_empty|constructor]. Qed.

  (** One command on a reachable heap, with references to existing objects, for every growth
      policy and oracle: it succeeds, the result is what the value layer computes on the
      abstraction, the heap stays reachable, every object other than the command's target keeps
      its value (no operand is modified), and objects are only appended. *)
  Theorem hexec_good : forall c h, good h -> hvalid h c ->
    exists o h', hexec h c = Ok (o, h') /\ good h' /\
      vexec (mkvs T (abs h) (tick h)) c = Ok (o, mkvs T (abs h') (tick h')) /\
      length (objs h) <= length (objs h') /\
      (forall y, y < length (objs h) -> target T c <> Some y -> nth_error (abs h') y = nth_error (abs h) y).
  Proof.
    intros c h [W I] V.
    set (st := mkvs T (abs h) (tick h)).
    assert (R : rel T h st) by (split; [exact W|split; reflexivity]).
    assert (Vv : valid T st c) by (unfold valid; simpl; rewrite abs_length; exact V).
    destruct (vexec_total T eqb cmp draw c st Vv) as (o & st' & Hv).
    destruct (exec_sim T zero grow eqb cmp draw grow_ok c h st o st' R Hv) as (h' & Hh & (W' & A' & T')).
    destruct (vexec_frame T eqb cmp draw c st o st' Hv) as (F1 & F2).
    pose proof (vexec_inv c st o st' I Hv) as I'.
    exists o, h'. split; [exact Hh|]. split; [split; [exact W'|rewrite A'; exact I']|].
    split; [rewrite A', T'; destruct st'; exact Hv|].
    simpl in F1, F2. rewrite abs_length in F1, F2. split.
    - rewrite <- (abs_length T h'), A'. exact F1.
    - intros y Hy Ht. rewrite A'. now apply F2.
  Qed.

  (** programs whose references are in scope *)
  Definition grows (c : cmd T) : nat :=
    match c with
    | CNew _ _ | CClone _ _ | CCloneEmpty _ _ | CUnion _ _ _ | CIntersection _ _ _ | CDifference _ _ _
    | CSelectMatch _ _ _ => 1
    | CPartitionMatch _ _ _ => 2
    | _ => 0
    end.

  Fixpoint scoped (n : nat) (cs : list (cmd T)) : Prop :=
    match cs with
    | [] => True
    | c :: cs' => Forall (fun r => r < n) (refs T c) /\ scoped (n + grows c) cs'
    end.

  Lemma vexec_grows : forall c st o st', vexec st c = Ok (o, st') -> length (vobjs st') = length (vobjs st) + grows c.
  Proof.
    intros c st o st' Hv.
    destruct c; simpl in Hv; repeat (dres Hv);
      repeat match goal with p : (_ * _)%type |- _ => destruct p end; simpl in Hv; inversion Hv; subst; simpl;
      rewrite ?app_length, ?set_nth_length; simpl; lia.
  Qed.

  (** Every well-scoped program, run from the empty heap, succeeds on the heap layer, produces
      exactly the outputs of the value layer, and ends in a reachable heap whose abstraction is
      the value layer's final state. *)
  Theorem hrun_good : forall cs h, good h -> scoped (length (objs h)) cs ->
    exists outs h', hrun h cs = Ok (outs, h') /\ good h' /\
      vrun (mkvs T (abs h) (tick h)) cs = Ok (outs, mkvs T (abs h') (tick h')).
  Proof.
    induction cs as [|c cs IH]; intros h G S; simpl in *.
    - exists [], h. auto.
    - destruct S as [S1 S2].
      destruct (hexec_good c h G S1) as (o & h1 & H1 & G1 & V1 & _).
      rewrite H1, V1. simpl.
      assert (L : length (objs h1) = length (objs h) + grows c).
      { pose proof (vexec_grows _ _ _ _ V1) as L. simpl in L. now rewrite !abs_length in L. }
      rewrite <- L in S2.
      destruct (IH h1 G1 S2) as (outs & h2 & H2 & G2 & V2).
      rewrite H2, V2. simpl. eauto.
  Qed.

  Lemma flat_map_nil_all : forall (X Y : Type) (f : X -> list Y) l, (forall x, In x l -> f x = []) -> flat_map f l = [].
  Proof.
    induction l as [|a l IH]; intros H; simpl; [reflexivity|].
    rewrite (H a (or_introl eq_refl)). simpl. apply IH. intros x Hx. apply H. now right.
  Qed.

  (** distinct objects never share a backing array: the executable observable is empty *)
  Lemma wfh_no_shared : forall h, wfh h -> shared_arrays T h = [].
  Proof.
    intros h [_ W2]. unfold shared_arrays.
    set (os := combine (seq 0 (length (objs h))) (objs h)).
    assert (Hos : forall i o, In (i, o) os -> nth_error (objs h) i = Some o).
    { intros i o Hin. unfold os in Hin. apply In_nth_error in Hin. destruct Hin as (k & Hk).
      assert (Hlen : k < length (objs h)).
      { assert (k < length (combine (seq 0 (length (objs h))) (objs h))) by (apply nth_error_Some; congruence).
        rewrite combine_length, seq_length in H. lia. }
      pose proof (nth_error_nth' (objs h) o Hlen) as Hn.
      assert (Hc : nth_error (combine (seq 0 (length (objs h))) (objs h)) k = Some (k, nth k (objs h) o)).
      { rewrite (nth_error_nth' _ (0, o)) by (rewrite combine_length, seq_length; lia).
        rewrite combine_nth by (now rewrite seq_length). rewrite seq_nth by lia. reflexivity. }
      rewrite Hc in Hk. inversion Hk; subst. exact Hn. }
    apply flat_map_nil_all. intros [i oi] Hi. apply flat_map_nil_all. intros [j oj] Hj. simpl.
    destruct (i <? j) eqn:E; simpl; [|reflexivity].
    apply Nat.ltb_lt in E.
    destruct (Nat.eqb (arr (omem oi)) (arr (omem oj))) eqn:E2; simpl; [|reflexivity].
    apply Nat.eqb_eq in E2. exfalso.
    apply (W2 i j oi oj (Hos _ _ Hi) (Hos _ _ Hj)); [lia|exact E2].
  Qed.
  (** sequences of mutators of one object leave every other object's value unchanged *)
  Definition targets (x : nat) (cs : list (cmd T)) : Prop := Forall (fun c => target T c = Some x) cs.

  Lemma target_refs : forall c x, target T c = Some x -> refs T c = [x] /\ grows c = 0.
  Proof. intros c x H. destruct c; simpl in H; inversion H; subst; auto. Qed.

  Theorem mutate_frame : forall cs h x, good h -> x < length (objs h) -> targets x cs ->
    exists outs h', hrun h cs = Ok (outs, h') /\ good h' /\ length (objs h') = length (objs h) /\
      forall y, y <> x -> nth_error (abs h') y = nth_error (abs h) y.
  Proof.
    induction cs as [|c cs IH]; intros h x G Hx Ht; simpl.
    - exists [], h. auto.
    - inversion Ht as [|? ? Hc Ht']; subst.
      destruct (target_refs c x Hc) as [Hr Hg].
      assert (V : hvalid h c) by (unfold hvalid; rewrite Hr; constructor; [exact Hx|constructor]).
      destruct (hexec_good c h G V) as (o & h1 & H1 & G1 & V1 & L1 & F1).
      assert (L : length (objs h1) = length (objs h)).
      { pose proof (vexec_grows _ _ _ _ V1) as L. simpl in L. rewrite !abs_length in L. lia. }
      rewrite H1. simpl.
      destruct (IH h1 x G1 ltac:(lia) Ht') as (outs & h2 & H2 & G2 & L2 & F2).
      rewrite H2. simpl. exists (o :: outs), h2. split; [reflexivity|]. split; [exact G2|]. split; [lia|].
      intros y Hy. rewrite (F2 y Hy).
      destruct (Nat.lt_ge_cases y (length (objs h))) as [Hlt|Hge].
      + apply F1; [exact Hlt|]. rewrite Hc. congruence.
      + assert (nth_error (abs h1) y = None) by (apply nth_error_None; rewrite abs_length; lia).
        assert (nth_error (abs h) y = None) by (apply nth_error_None; rewrite abs_length; lia). congruence.
  Qed.

  (** Clone is independent of its source *)
  Theorem clone_independent : forall h r, good h -> r < length (objs h) ->
    exists c h1, h_clone T zero h r = Ok (c, h1) /\ good h1 /\ c = length (objs h) /\ c <> r /\
      nth_error (abs h1) r = nth_error (abs h) r /\
      nth_error (abs h1) c = option_map (vclone T) (nth_error (abs h) r) /\
      shared_arrays T h1 = [] /\
      (forall cs, targets c cs -> exists outs h2, hrun h1 cs = Ok (outs, h2) /\ good h2 /\
                                  nth_error (abs h2) r = nth_error (abs h) r) /\
      (forall cs, targets r cs -> exists outs h2, hrun h1 cs = Ok (outs, h2) /\ good h2 /\
                                  nth_error (abs h2) c = nth_error (abs h1) c).
  Proof.
    intros h r G Hr.
    assert (V : hvalid h (CClone T r)) by (unfold hvalid; simpl; constructor; [exact Hr|constructor]).
    destruct (hexec_good (CClone T r) h G V) as (o & h1 & H1 & G1 & V1 & L1 & F1).
    simpl in H1. destruct (h_clone T zero h r) as [[c h1']| |] eqn:Ec; simpl in H1; try discriminate.
    inversion H1; subst o h1'. clear H1.
    simpl in V1. unfold vget in V1. simpl in V1.
    destruct (nth_error (abs h) r) as [s|] eqn:Es; simpl in V1; [|discriminate].
    assert (HV : length (objs h) = c /\ abs h ++ [vclone T s] = abs h1).
    { inversion V1. rewrite <- abs_length. auto. }
    destruct HV as [Hc Ha]. clear V1.
    exists c, h1. split; [reflexivity|]. split; [exact G1|]. split; [now symmetry|]. split; [lia|].
    assert (Fr : nth_error (abs h1) r = Some s).
    { rewrite <- Es. apply F1; [exact Hr|simpl; congruence]. }
    split; [exact Fr|].
    assert (Fc : nth_error (abs h1) c = Some (vclone T s)).
    { rewrite <- Ha, <- Hc, <- abs_length. apply nth_error_app_last. }
    split; [exact Fc|]. split; [apply wfh_no_shared, G1|].
    assert (Lh1 : length (objs h1) = S (length (objs h))).
    { rewrite <- !abs_length, <- Ha, app_length. simpl. lia. }
    split.
    - intros cs Ht. destruct (mutate_frame cs h1 c G1 ltac:(lia) Ht) as (outs & h2 & H2 & G2 & L2 & F2).
      exists outs, h2. split; [exact H2|]. split; [exact G2|]. rewrite F2 by lia. exact Fr.
    - intros cs Ht. destruct (mutate_frame cs h1 r G1 ltac:(lia) Ht) as (outs & h2 & H2 & G2 & L2 & F2).
      exists outs, h2. split; [exact H2|]. split; [exact G2|]. apply F2. lia.
  Qed.
  (** ** end to end: a history of mutators run on a heap object *)
  Definition cmd_of_mut (m : mut T) : cmd T :=
    match m with MAdd _ vs => CAdd T 0 vs | MRemove _ vs => CRemove T 0 vs | MRemoveAll _ => CRemoveAll T 0 end.

  Lemma vrun_hist_cmds : forall hist s s' t, vrun_hist T eqb cmp s hist = Ok s' ->
    vrun (mkvs T [s] t) (map cmd_of_mut hist) = Ok (map (fun _ => OUnit T) hist, mkvs T [s'] t).
  Proof.
    induction hist as [|m hist IH]; intros s s' t H; simpl in *.
    - inversion H. reflexivity.
    - destruct (vstep T eqb cmp s m) as [s1| |] eqn:E; simpl in H; try discriminate.
      assert (Hx : vexec (mkvs T [s] t) (cmd_of_mut m) = Ok (OUnit T, mkvs T [s1] t)).
      { destruct m; simpl in *; unfold vget; simpl.
        - rewrite E. reflexivity.
        - rewrite E. reflexivity.
        - inversion E. reflexivity. }
      rewrite Hx. simpl. rewrite (IH s1 s' t H). reflexivity.
  Qed.

  Theorem heap_history : forall (k : kind) (hist : list (mut T)),
    exists h' l, hrun (empty_heap T) (CNew T k :: map cmd_of_mut hist) = Ok (ORef T 0 :: map (fun _ => OUnit T) hist, h') /\
      good h' /\ abs h' = [mkv k l] /\ repr T cmp k (s_run T eqb hist) l.
  Proof.
    intros k hist.
    destruct (history_refines T eqb cmp eqb_spec cmp_eq cmp_anti cmp_trans k hist) as (l & Hl & R).
    pose proof (vrun_hist_cmds hist (vnew T k) (mkv k l) 0 Hl) as Hv.
    assert (Hv' : vrun (mkvs T [] 0) (CNew T k :: map cmd_of_mut hist) =
                  Ok (ORef T 0 :: map (fun _ => OUnit T) hist, mkvs T [mkv k l] 0)).
    { simpl. unfold vpush. simpl. rewrite Hv. reflexivity. }
    destruct (run_sim T zero grow eqb cmp draw grow_ok _ (empty_heap T) _ _ _ (rel_empty T) Hv') as (h' & Hh & (W & A & Tk)).
    exists h', l. split; [exact Hh|]. simpl in A. split; [|split; [exact A|exact R]].
    split; [exact W|]. rewrite A. constructor; [|constructor]. eapply repr_inv; eauto.
  Qed.
End ProgLaws.
