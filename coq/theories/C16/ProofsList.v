(** C16 — law-free facts about the member-sequence algorithms: they hold for every equality
    function, comparator and oracle (no order or equivalence laws are assumed here):
    totality of the searches (no [Panic], no [Hang]), index bounds, the shuffle is a permutation. *)
From Coq Require Import Lia Permutation.
From Algo.C16 Require Import Model Spec.
Local Open Scope Z_scope.

(** the two searches, for one equality function and one comparator *)
Section Search.
  Variable A : Type.
  Variable eqb : A -> A -> bool.
  Variable cmp : A -> A -> Z.

  Notation lfind := (lfind A eqb).
  Notation bsearch := (bsearch A cmp).

  (** ** linear search *)
  Notation memb := (memb A eqb).

  Lemma lfind_range : forall l v i, 0 <= i ->
    lfind l v i = -1 \/ (i <= lfind l v i < i + Z.of_nat (length l)).
  Proof.
    induction l as [|m l IH]; intros v i Hi; simpl; [now left|].
    destruct (eqb m v); [right; lia|].
    destruct (IH v (i + 1) ltac:(lia)) as [H|H]; [now left|right; lia].
  Qed.

  Lemma lfind_memb : forall l v i, 0 <= i -> (lfind l v i =? -1) = negb (memb l v).
  Proof.
    induction l as [|m l IH]; intros v i Hi; simpl; [reflexivity|].
    destruct (eqb m v) eqn:E; simpl.
    - apply Z.eqb_neq. lia.
    - apply IH. lia.
  Qed.

  Lemma lfind_nth : forall l v i, 0 <= i -> lfind l v i <> -1 ->
    exists m, nth_error l (Z.to_nat (lfind l v i - i)) = Some m /\ eqb m v = true
              /\ memb (firstn (Z.to_nat (lfind l v i - i)) l) v = false.
  Proof.
    induction l as [|m l IH]; intros v i Hi Hf; simpl in *; [congruence|].
    destruct (eqb m v) eqn:E.
    - replace (i - i) with 0 by lia. simpl. eauto.
    - destruct (IH v (i + 1) ltac:(lia) Hf) as (m' & Hn & He & Hm).
      destruct (lfind_range l v (i + 1) ltac:(lia)) as [H|H]; [congruence|].
      replace (Z.to_nat (lfind l v (i + 1) - i)) with (S (Z.to_nat (lfind l v (i + 1) - (i + 1)))) by lia.
      simpl. rewrite E. simpl. eauto.
  Qed.

  (** ** binary search: total and within bounds on every list, sorted or not *)
  Lemma quot2 : forall a b, 0 <= a -> a <= b -> a <= Z.quot (a + b) 2 <= b.
  Proof. intros a b Ha Hb. rewrite Z.quot_div_nonneg by lia. split; [apply Z.div_le_lower_bound|apply Z.div_le_upper_bound]; lia. Qed.

  Lemma bsearch_total : forall fuel l v low high,
    0 <= low -> high < Z.of_nat (length l) -> low <= high + 1 ->
    (Z.to_nat (high - low + 1) < fuel)%nat ->
    exists b i, bsearch fuel l v low high = Ok (b, i) /\ low <= i <= high + 1 /\
      (b = true -> i <= high /\ exists m, nth_error l (Z.to_nat i) = Some m /\ cmp v m = 0).
  Proof.
    induction fuel as [|f IH]; intros l v low high Hl Hh Hlh Hf; [lia|].
    simpl. destruct (low <=? high) eqn:E.
    - apply Z.leb_le in E.
      pose proof (quot2 low high Hl E) as Hq.
      set (mid := Z.quot (low + high) 2) in *.
      destruct (mid <? 0) eqn:E0; [apply Z.ltb_lt in E0; lia|].
      destruct (nth_error l (Z.to_nat mid)) as [m|] eqn:En.
      2:{ apply nth_error_None in En. lia. }
      destruct (cmp v m <? 0) eqn:E1.
      + destruct (IH l v low (mid - 1)) as (b & i & H1 & H2 & H3); try lia.
        exists b, i. split; [exact H1|]. split; [lia|]. intros Hb. destruct (H3 Hb) as [H4 H5]. split; [lia|exact H5].
      + destruct (cmp v m >? 0) eqn:E2.
        * destruct (IH l v (mid + 1) high) as (b & i & H1 & H2 & H3); try lia.
          exists b, i. split; [exact H1|]. split; [lia|]. exact H3.
        * exists true, mid. split; [reflexivity|]. split; [lia|]. intros _. split; [lia|].
          exists m. split; [exact En|]. apply Z.ltb_ge in E1. rewrite Z.gtb_ltb in E2. apply Z.ltb_ge in E2. lia.
    - apply Z.leb_gt in E. exists false, low. split; [reflexivity|]. split; [lia|]. discriminate.
  Qed.

  Lemma bsearch_top_total : forall l v,
    exists b i, bsearch_top A cmp l v = Ok (b, i) /\ 0 <= i <= Z.of_nat (length l) /\
      (b = true -> i < Z.of_nat (length l) /\ exists m, nth_error l (Z.to_nat i) = Some m /\ cmp v m = 0).
  Proof.
    intros l v. unfold bsearch_top.
    destruct (bsearch_total (S (length l)) l v 0 (Z.of_nat (length l) - 1)) as (b & i & H1 & H2 & H3); try lia.
    exists b, i. split; [exact H1|]. split; [lia|]. intros Hb. destruct (H3 Hb). split; [lia|assumption].
  Qed.

End Search.

(** sets: [cmp c] is the comparator of the sorted sets of kind [Sorted c] *)
Section Facts.
  Variable A : Type.
  Variable eqb : A -> A -> bool.
  Variable cmp : nat -> A -> A -> Z.
  Variable draw : nat -> nat.

  Notation lfind := (lfind A eqb).
  Notation find := (find A eqb cmp).
  Notation contains := (contains A eqb cmp).
  Notation memb := (memb A eqb).

  (** ** find / contains never fail *)
  Lemma find_total : forall k l v,
    exists i, find k l v = Ok i /\ (i = -1 \/ 0 <= i < Z.of_nat (length l)).
  Proof.
    intros k l v. destruct k; simpl.
    1,2: eexists; split; [reflexivity|]; destruct (lfind_range A eqb l v 0 ltac:(lia)); [now left|right; lia].
    destruct (bsearch_top_total A (cmp c) l v) as (b & i & H1 & H2 & H3). rewrite H1. simpl.
    destruct b; eexists; split; try reflexivity; [right|now left].
    destruct (H3 eq_refl). lia.
  Qed.

  (** the total membership test that [Contains(v)] computes *)
  Definition hasb (k : kind) (l : list A) (v : A) : bool :=
    match find k l v with Ok i => negb (i =? -1) | _ => false end.

  Lemma contains_hasb : forall k l vs, contains k l vs = Ok (forallb (hasb k l) vs).
  Proof.
    intros k l vs. induction vs as [|v vs IH]; simpl; [reflexivity|].
    unfold hasb at 1. destruct (find_total k l v) as (i & Hi & _). rewrite Hi. simpl.
    destruct (i =? -1); simpl; [reflexivity|exact IH].
  Qed.

  Lemma hasb_linear : forall k l v, linear k -> hasb k l v = memb l v.
  Proof.
    intros k l v Hk. unfold hasb. destruct k; try (destruct Hk); simpl;
      rewrite (lfind_memb A eqb) by lia; apply negb_involutive.
  Qed.

  (** ** add_plan / remove_plan never fail and stay within bounds *)
  Lemma add_plan_total : forall k l v,
    exists p, add_plan A eqb cmp k l v = Ok p /\ (forall pos, p = Some pos -> (pos <= length l)%nat).
  Proof.
    intros k l v. destruct k.
    1,2: unfold add_plan; rewrite contains_hasb; simpl; eexists; split; [reflexivity|];
         intros pos; destruct (hasb _ l v && true); intros H; inversion H; lia.
    unfold add_plan. destruct (bsearch_top_total A (cmp c) l v) as (b & i & H1 & H2 & H3). rewrite H1. simpl.
    destruct b; [eexists; split; [reflexivity|discriminate]|].
    destruct (i <? 0) eqn:E; [apply Z.ltb_lt in E; lia|].
    eexists; split; [reflexivity|]. intros pos H. inversion H. lia.
  Qed.

  Lemma add_plan_linear : forall k l v, linear k ->
    add_plan A eqb cmp k l v = Ok (if memb l v then None else Some (length l)).
  Proof.
    intros k l v Hk. destruct k; try (destruct Hk); unfold add_plan; rewrite contains_hasb; simpl;
      rewrite andb_true_r, hasb_linear by exact I; reflexivity.
  Qed.

  Lemma remove_plan_total : forall k l v,
    exists p, remove_plan A eqb cmp k l v = Ok p /\ (forall i, p = Some i -> (i < length l)%nat).
  Proof.
    intros k l v. unfold remove_plan. destruct (find_total k l v) as (i & Hi & Hr). rewrite Hi. simpl.
    destruct (i =? -1) eqn:E; [eexists; split; [reflexivity|discriminate]|].
    apply Z.eqb_neq in E. destruct Hr as [Hr|Hr]; [congruence|].
    destruct (i <? 0) eqn:E0; [apply Z.ltb_lt in E0; lia|].
    eexists; split; [reflexivity|]. intros j H. inversion H. lia.
  Qed.

  (** ** the shuffle is a permutation, whatever the oracle draws *)
  Lemma set_nth_length : forall X (l : list X) i x, length (set_nth l i x) = length l.
  Proof. induction l; destruct i; simpl; intros; auto. Qed.

  Lemma nth_error_set_nth_eq : forall X (l : list X) i x, (i < length l)%nat -> nth_error (set_nth l i x) i = Some x.
  Proof. induction l; destruct i; simpl; intros; try lia; auto. apply IHl. lia. Qed.

  Lemma nth_error_set_nth_neq : forall X (l : list X) i j x, i <> j -> nth_error (set_nth l i x) j = nth_error l j.
  Proof. induction l; destruct i, j; simpl; intros; try congruence; auto. Qed.

  Lemma set_nth_same : forall X (l : list X) i x, nth_error l i = Some x -> set_nth l i x = l.
  Proof. induction l; destruct i; simpl; intros; try congruence. f_equal; auto. Qed.

  Lemma set_nth_split : forall X (l : list X) i x, (i < length l)%nat ->
    set_nth l i x = firstn i l ++ x :: skipn (S i) l.
  Proof. induction l; destruct i; simpl; intros; try lia; auto. f_equal. apply IHl. lia. Qed.

  Lemma swap_aux : forall X (t : list X) j a b, nth_error t j = Some b ->
    Permutation (b :: set_nth t j a) (a :: t).
  Proof.
    induction t as [|c t IH]; destruct j; simpl; intros a b H; try discriminate.
    - inversion H; subst. apply perm_swap.
    - rewrite perm_swap. rewrite (IH _ _ _ H). apply perm_swap.
  Qed.

  Lemma swap_perm : forall X (l : list X) i j a b, nth_error l i = Some a -> nth_error l j = Some b ->
    Permutation (set_nth (set_nth l i b) j a) l.
  Proof.
    induction l as [|c l IH]; destruct i, j; simpl; intros a b Hi Hj; try discriminate.
    - inversion Hi; inversion Hj; subst. reflexivity.
    - inversion Hi; subst. now apply swap_aux.
    - inversion Hj; subst. now apply swap_aux.
    - apply perm_skip. now apply IH.
  Qed.

  Lemma swap_idx_perm : forall idx i j, (i < length idx)%nat -> (j < length idx)%nat ->
    Permutation (swap_idx idx i j) idx.
  Proof.
    intros idx i j Hi Hj. unfold swap_idx. apply swap_perm; now apply nth_error_nth'.
  Qed.

  Lemma shuffle_loop_perm : forall i idx t, (i < length idx)%nat \/ i = 0%nat ->
    Permutation (fst (shuffle_loop draw i idx t)) idx.
  Proof.
    induction i as [|i IH]; intros idx t Hi; [reflexivity|].
    destruct Hi as [Hi|Hi]; [|discriminate].
    change (shuffle_loop draw (S i) idx t)
      with (shuffle_loop draw i (swap_idx idx (S i) (S i - Nat.modulo (draw t) (S (S i)))) (S t)).
    remember (S i - Nat.modulo (draw t) (S (S i)))%nat as j eqn:Ej.
    assert (Hj : (j < length idx)%nat) by lia.
    pose proof (swap_idx_perm idx (S i) j Hi Hj) as Hp.
    rewrite IH; [exact Hp|].
    left. rewrite (Permutation_length Hp). lia.
  Qed.

  Lemma shuffle_perm : forall n t, Permutation (fst (shuffle draw n t)) (seq 0 n).
  Proof.
    intros n t. unfold shuffle. apply shuffle_loop_perm. rewrite seq_length. lia.
  Qed.

  Lemma pick_cons_inv : forall (l : list A) i r a, pick A l (i :: r) = Ok a ->
    exists x xs, nth_error l i = Some x /\ pick A l r = Ok xs /\ a = x :: xs.
  Proof.
    intros l i r a H. simpl in H. destruct (nth_error l i) as [x|]; [|discriminate].
    destruct (pick A l r) as [xs| |]; simpl in H; try discriminate. inversion H. eauto.
  Qed.

  Lemma pick_cons : forall (l : list A) i r x xs, nth_error l i = Some x -> pick A l r = Ok xs ->
    pick A l (i :: r) = Ok (x :: xs).
  Proof. intros l i r x xs H1 H2. simpl. rewrite H1, H2. reflexivity. Qed.

  Lemma pick_Permutation : forall (l : list A) idx idx', Permutation idx idx' ->
    forall a, pick A l idx = Ok a -> exists b, pick A l idx' = Ok b /\ Permutation a b.
  Proof.
    intros l idx idx' HP. induction HP; intros a Ha.
    - exists a. split; [exact Ha|reflexivity].
    - destruct (pick_cons_inv _ _ _ _ Ha) as (y & ys & H1 & H2 & ->).
      destruct (IHHP _ H2) as (b & Hb & Hp). exists (y :: b). split; [now apply pick_cons|now constructor].
    - destruct (pick_cons_inv _ _ _ _ Ha) as (y1 & ys1 & H1 & H2 & ->).
      destruct (pick_cons_inv _ _ _ _ H2) as (y2 & ys2 & H3 & H4 & ->).
      exists (y2 :: y1 :: ys2). split; [repeat apply pick_cons; assumption|apply perm_swap].
    - destruct (IHHP1 _ Ha) as (b & Hb & Hp1). destruct (IHHP2 _ Hb) as (c & Hc & Hp2).
      exists c. split; [exact Hc|now transitivity b].
  Qed.

  Lemma pick_seq : forall (l : list A) k, (k <= length l)%nat ->
    pick A l (seq k (length l - k)) = Ok (skipn k l).
  Proof.
    intros l k Hk. remember (length l - k)%nat as n eqn:En. revert k Hk En.
    induction n as [|n IH]; intros k Hk En; simpl.
    - rewrite skipn_all2 by lia. reflexivity.
    - destruct (nth_error l k) as [x|] eqn:Ex; [|apply nth_error_None in Ex; lia].
      rewrite (IH (S k)) by lia. simpl.
      f_equal. clear IH En. revert k Hk Ex. induction l as [|y l IHl]; intros [|k] Hk Ex; simpl in *; try discriminate.
      + now inversion Ex.
      + apply IHl; [lia|exact Ex].
  Qed.

  (** [All()] yields a permutation of the members for every oracle, and the member sequence
      itself for the stable and the sorted set; it never fails. *)
  Lemma all_spec : forall k (l : list A) t,
    exists r t', all A draw k l t = Ok (r, t') /\ Permutation r l /\ (k <> Unordered -> r = l /\ t' = t).
  Proof.
    intros k l t. destruct k; simpl.
    2,3: exists l, t; split; [reflexivity|]; split; [reflexivity|auto].
    destruct (shuffle draw (length l) t) as [idx t'] eqn:Es.
    pose proof (shuffle_perm (length l) t) as Hp. rewrite Es in Hp. simpl in Hp.
    pose proof (pick_seq l 0 ltac:(lia)) as Hs. rewrite Nat.sub_0_r in Hs. simpl in Hs.
    destruct (pick_Permutation l _ _ (Permutation_sym Hp) _ Hs) as (b & Hb & Hpb).
    rewrite Hb. simpl. exists b, t'. split; [reflexivity|]. split; [now symmetry|congruence].
  Qed.

  (** with the identity oracle (the verif hook) the unordered set iterates in slot order *)
End Facts.
