(** C16 — executable model of /repo/set (set.go, stable.go, sorted.go): the unordered, the stable
    and the sorted set, their set algebra, [Powerset] and [Partitions].

    Two layers, both executable, both extracted and compared with the Go code on every run.

    * Heap layer ([h_*]): a set is an object [{kind; members}] whose [members] is a Go slice
      header [{arr; off; len; cap}] into an explicit store of backing arrays.  [make], [copy],
      re-slicing and [append] are modelled as Go defines them: [append] writes in place when the
      capacity suffices and otherwise allocates an array whose capacity is chosen by an arbitrary
      growth policy [grow cap need]; [Remove] is the in-place shift
      [append(s.members[:i], s.members[i+1:]...)]; the sorted [add] is
      [append(s.members[:low], append([]T{val}, s.members[low:]...)...)].  Nothing is idealised:
      operand immutability and clone independence are *theorems* about this layer (for every
      growth policy), not consequences of a value representation.
    * Value layer ([v*]): the same algorithms on plain lists (a set value is [{kind; members}]).
      [Powerset] and [Partitions] are written on this layer, at element types [vset T] and
      [vset (vset T)] with the Go equality closures [a.Equal(b)].

    Go features made explicit: index/slice-bound panics and dangling references are [Panic],
    loop fuel exhaustion is [Hang]; the random order of the unordered set's [All()] is the
    Fisher–Yates loop of math/rand's [Shuffle] driven by an arbitrary draw oracle
    [draw : nat -> nat] (tick-indexed; [draw = fun _ => 0] is the identity shuffle that the
    verif hook installs).  [for _, m := range s.members] reads the slice once, front to back
    (the loop bodies in this package never write to the array they range over).
    Every sorted set has its own comparator: its kind is [Sorted c] and it compares with [cmps c]
    (Clone, CloneEmpty and the results of Union/Intersection/Difference inherit the receiver's).
    No proofs in this file. *)
From Coq Require Export List ZArith Bool Arith.
Export ListNotations.

Inductive why := IndexOutOfRange | SliceBounds | BadRef.
Inductive res (X : Type) := Ok (x : X) | Panic (w : why) | Hang.
Arguments Ok {X} x.
Arguments Panic {X} w.
Arguments Hang {X}.

Definition rbind {X Y} (r : res X) (f : X -> res Y) : res Y :=
  match r with Ok x => f x | Panic w => Panic w | Hang => Hang end.
Notation "x <- r ;; k" := (rbind r (fun x => k))
  (at level 61, r at next level, right associativity).
Notation "' p <- r ;; k" := (rbind r (fun p => k))
  (at level 61, p pattern, r at next level, right associativity).

(** the kind of a set; a sorted set carries (the index of) its own comparator *)
Inductive kind := Unordered | Stable | Sorted (c : nat).

Fixpoint set_nth {X} (l : list X) (i : nat) (x : X) : list X :=
  match l, i with
  | [], _ => []
  | _ :: t, O => x :: t
  | h :: t, S i' => h :: set_nth t i' x
  end.

(** * Algorithms on the member sequence (shared by both layers) *)
Section ListAlgo.
  Variable A : Type.
  Variable eqb : A -> A -> bool.       (* generic.EqualFunc *)
  Variable cmps : nat -> A -> A -> Z.  (* the generic.CompareFunc of each sorted set, by index *)
  Variable draw : nat -> nat.          (* oracle behind the package-level *rand.Rand *)

  (** [find] of set.go / stable.go: linear scan, -1 when absent. *)
  Fixpoint lfind (l : list A) (v : A) (i : Z) : Z :=
    match l with
    | [] => (-1)%Z
    | m :: l' => if eqb m v then i else lfind l' v (i + 1)%Z
    end.

  (** the binary-search loop of sorted.go ([find] and [add]): [(true, mid)] when found,
      [(false, low)] (the insertion index) otherwise. *)
  Fixpoint bsearch (cmp : A -> A -> Z) (fuel : nat) (l : list A) (v : A) (low high : Z) : res (bool * Z) :=
    match fuel with
    | O => Hang
    | S f =>
        if (low <=? high)%Z then
          let mid := Z.quot (low + high) 2 in
          if (mid <? 0)%Z then Panic IndexOutOfRange else
          match nth_error l (Z.to_nat mid) with
          | None => Panic IndexOutOfRange
          | Some m =>
              let c := cmp v m in
              if (c <? 0)%Z then bsearch cmp f l v low (mid - 1)%Z
              else if (c >? 0)%Z then bsearch cmp f l v (mid + 1)%Z high
              else Ok (true, mid)
          end
        else Ok (false, low)
    end.

  Definition bsearch_top (cmp : A -> A -> Z) (l : list A) (v : A) : res (bool * Z) :=
    bsearch cmp (S (length l)) l v 0%Z (Z.of_nat (length l) - 1)%Z.

  Definition find (k : kind) (l : list A) (v : A) : res Z :=
    match k with
    | Sorted c => '(found, i) <- bsearch_top (cmps c) l v ;; Ok (if found then i else (-1)%Z)
    | _ => Ok (lfind l v 0%Z)
    end.

  (** [Contains(vals...)] *)
  Fixpoint contains (k : kind) (l : list A) (vs : list A) : res bool :=
    match vs with
    | [] => Ok true
    | v :: vs' => i <- find k l v ;; if (i =? -1)%Z then Ok false else contains k l vs'
    end.

  (** where one [Add] argument goes: [None] = already a member, [Some pos] = insert at [pos]
      (the end for the unordered and the stable set, the binary-search index for the sorted). *)
  Definition add_plan (k : kind) (l : list A) (v : A) : res (option nat) :=
    match k with
    | Sorted c => '(found, low) <- bsearch_top (cmps c) l v ;;
                if found then Ok None
                else if (low <? 0)%Z then Panic SliceBounds else Ok (Some (Z.to_nat low))
    | _ => c <- contains k l [v] ;; Ok (if c then None else Some (length l))
    end.

  (** which index one [Remove] argument deletes *)
  Definition remove_plan (k : kind) (l : list A) (v : A) : res (option nat) :=
    i <- find k l v ;;
    if (i =? -1)%Z then Ok None
    else if (i <? 0)%Z then Panic SliceBounds else Ok (Some (Z.to_nat i)).

  (** math/rand Rand.Shuffle for n < 2^31: [for i := n-1; i > 0; i-- { j := Intn(i+1); swap(i,j) }].
      The draw for position [i] is [i - draw t mod (i+1)], any value of [0..i]. *)
  Definition swap_idx (idx : list nat) (i j : nat) : list nat :=
    set_nth (set_nth idx i (nth j idx 0)) j (nth i idx 0).

  Fixpoint shuffle_loop (i : nat) (idx : list nat) (t : nat) : list nat * nat :=
    match i with
    | O => (idx, t)
    | S i' => shuffle_loop i' (swap_idx idx i (i - (draw t) mod (S i))) (S t)
    end.

  Definition shuffle (n : nat) (t : nat) : list nat * nat :=
    shuffle_loop (n - 1) (seq 0 n) t.

  Fixpoint pick (l : list A) (idx : list nat) : res (list A) :=
    match idx with
    | [] => Ok []
    | i :: r =>
        match nth_error l i with
        | None => Panic IndexOutOfRange
        | Some x => xs <- pick l r ;; Ok (x :: xs)
        end
    end.

  (** the sequence yielded by [All()] (state: the oracle tick) *)
  Definition all (k : kind) (l : list A) (t : nat) : res (list A * nat) :=
    match k with
    | Unordered => let '(idx, t') := shuffle (length l) t in r <- pick l idx ;; Ok (r, t')
    | _ => Ok (l, t)
    end.

  Definition ins_at (pos : nat) (v : A) (l : list A) : list A := firstn pos l ++ v :: skipn pos l.
  Definition del_at (i : nat) (l : list A) : list A := firstn i l ++ skipn (S i) l.

  Fixpoint first_match (p : A -> bool) (l : list A) : option A :=
    match l with [] => None | m :: l' => if p m then Some m else first_match p l' end.

  (** * Value layer *)
  Record vset := mkv { vk : kind; vm : list A }.

  Definition vnew (k : kind) : vset := mkv k [].

  Definition vadd1 (s : vset) (v : A) : res vset :=
    p <- add_plan (vk s) (vm s) v ;;
    match p with None => Ok s | Some pos => Ok (mkv (vk s) (ins_at pos v (vm s))) end.

  Fixpoint vadd (s : vset) (vs : list A) : res vset :=
    match vs with [] => Ok s | v :: vs' => s' <- vadd1 s v ;; vadd s' vs' end.

  Definition vremove1 (s : vset) (v : A) : res vset :=
    p <- remove_plan (vk s) (vm s) v ;;
    match p with None => Ok s | Some i => Ok (mkv (vk s) (del_at i (vm s))) end.

  Fixpoint vremove (s : vset) (vs : list A) : res vset :=
    match vs with [] => Ok s | v :: vs' => s' <- vremove1 s v ;; vremove s' vs' end.

  Definition vremoveAll (s : vset) : vset := mkv (vk s) [].
  Definition vcontains (s : vset) (vs : list A) : res bool := contains (vk s) (vm s) vs.
  Definition vsize (s : vset) : nat := length (vm s).
  Definition visEmpty (s : vset) : bool := Nat.eqb (length (vm s)) 0.
  Definition vall (s : vset) (t : nat) : res (list A * nat) := all (vk s) (vm s) t.
  Definition vclone (s : vset) : vset := mkv (vk s) (vm s).
  Definition vcloneEmpty (s : vset) : vset := mkv (vk s) [].

  (** [for _, m := range ms { if !c.Contains(m) { return false } }; return true] *)
  Fixpoint all_in (c : vset) (ms : list A) : res bool :=
    match ms with
    | [] => Ok true
    | m :: ms' => b <- vcontains c [m] ;; if b then all_in c ms' else Ok false
    end.

  Definition vequal (s rhs : vset) : res bool :=
    if negb (Nat.eqb (vsize s) (vsize rhs)) then Ok false else all_in rhs (vm s).

  Definition visSubset (s sup : vset) (t : nat) : res (bool * nat) :=
    '(ms, t') <- vall s t ;; b <- all_in sup ms ;; Ok (b, t').

  Definition visSuperset (s sub : vset) (t : nat) : res (bool * nat) :=
    '(ms, t') <- vall sub t ;; b <- all_in s ms ;; Ok (b, t').

  (** [for _, set := range sets { for m := range set.All() { t.Add(m) } }] *)
  Fixpoint vunion_loop (acc : vset) (sets : list vset) (t : nat) : res (vset * nat) :=
    match sets with
    | [] => Ok (acc, t)
    | x :: sets' => '(ms, t') <- vall x t ;; acc' <- vadd acc ms ;; vunion_loop acc' sets' t'
    end.
  Definition vunion (s : vset) (sets : list vset) (t : nat) : res (vset * nat) :=
    vunion_loop (vclone s) sets t.

  Fixpoint vdiff_loop (acc : vset) (sets : list vset) (t : nat) : res (vset * nat) :=
    match sets with
    | [] => Ok (acc, t)
    | x :: sets' => '(ms, t') <- vall x t ;; acc' <- vremove acc ms ;; vdiff_loop acc' sets' t'
    end.
  Definition vdifference (s : vset) (sets : list vset) (t : nat) : res (vset * nat) :=
    vdiff_loop (vclone s) sets t.

  (** generic.AllMatch(sets, func(set) bool { return set.Contains(m) }) *)
  Fixpoint in_all (sets : list vset) (m : A) : res bool :=
    match sets with
    | [] => Ok true
    | x :: sets' => b <- vcontains x [m] ;; if b then in_all sets' m else Ok false
    end.

  Fixpoint vinter_loop (acc : vset) (ms : list A) (sets : list vset) : res vset :=
    match ms with
    | [] => Ok acc
    | m :: ms' => b <- in_all sets m ;;
                  acc' <- (if b then vadd1 acc m else Ok acc) ;;
                  vinter_loop acc' ms' sets
    end.
  Definition vintersection (s : vset) (sets : list vset) : res vset :=
    vinter_loop (vcloneEmpty s) (vm s) sets.

  Definition vanyMatch (s : vset) (p : A -> bool) : bool := existsb p (vm s).
  Definition vallMatch (s : vset) (p : A -> bool) : bool := forallb p (vm s).
  Definition vfirstMatch (s : vset) (p : A -> bool) : option A := first_match p (vm s).
  Definition vselectMatch (s : vset) (p : A -> bool) : res vset :=
    vadd (vcloneEmpty s) (filter p (vm s)).
  (** matched.Add / unmatched.Add interleave, but touch different sets *)
  Definition vpartitionMatch (s : vset) (p : A -> bool) : res (vset * vset) :=
    a <- vadd (vcloneEmpty s) (filter p (vm s)) ;;
    b <- vadd (vcloneEmpty s) (filter (fun x => negb (p x)) (vm s)) ;;
    Ok (a, b).
End ListAlgo.

Arguments mkv {A} vk vm.
Arguments vk {A} v.
Arguments vm {A} v.

(** * Powerset and Partitions (value layer at nested element types) *)
Section Power.
  Variable T : Type.
  Variable eqb : T -> T -> bool.
  Variable cmp : nat -> T -> T -> Z.
  Variable draw : nat -> nat.

  (** [setEqFunc := func(a, b Set[T]) bool { return a.Equal(b) }].  [vequal] is total
      (theorem [vequal_total]: it returns [Ok] on every pair of values), so the fallback
      branch is never taken. *)
  Definition set_eq (a b : vset T) : bool :=
    match vequal T eqb cmp a b with Ok r => r | _ => false end.
  Definition part_eq (a b : vset (vset T)) : bool :=
    match vequal (vset T) set_eq (fun _ _ _ => 0%Z) a b with Ok r => r | _ => false end.

  Definition nocmp {X} (c : nat) (a b : X) : Z := 0%Z.   (* New(equal) sets never compare *)

  Notation set0 := (vset T).
  Notation set1 := (vset (vset T)).
  Notation set2 := (vset (vset (vset T))).

  (** loop body of Powerset: PS.Add(subset); PS.Add(head.Union(subset)) *)
  Fixpoint pow_loop (head : set0) (PS : set1) (subs : list set0) (t : nat) : res (set1 * nat) :=
    match subs with
    | [] => Ok (PS, t)
    | sub :: subs' =>
        PS1 <- vadd1 set0 set_eq nocmp PS sub ;;
        '(u, t1) <- vunion T eqb cmp draw head [sub] t ;;
        PS2 <- vadd1 set0 set_eq nocmp PS1 u ;;
        pow_loop head PS2 subs' t1
    end.

  Fixpoint powerset (fuel : nat) (s : set0) (t : nat) : res (set1 * nat) :=
    match fuel with
    | O => Hang
    | S f =>
        let PS := vnew set0 Unordered in
        if Nat.eqb (vsize T s) 0 then
          PS' <- vadd set0 set_eq nocmp PS [vcloneEmpty T s] ;; Ok (PS', t)
        else
          '(members, t1) <- vall T draw s t ;;
          match members with
          | [] => Panic IndexOutOfRange                      (* members[0] *)
          | m0 :: rest =>
              head <- vadd T eqb cmp (vcloneEmpty T s) [m0] ;;
              tail <- vadd T eqb cmp (vcloneEmpty T s) rest ;;
              '(PT, t2) <- powerset f tail t1 ;;
              '(subs, t3) <- vall set0 draw PT t2 ;;
              pow_loop head PS subs t3
          end
    end.

  (** inner loop of Partitions over [i := range Pmembers] *)
  Fixpoint part_inner (head : set0) (Ps : set2) (pre post : list set0) (t : nat) : res (set2 * nat) :=
    match post with
    | [] => Ok (Ps, t)
    | b :: post' =>
        Q0 <- vadd set0 set_eq nocmp (vnew set0 Unordered) pre ;;
        '(u, t1) <- vunion T eqb cmp draw head [b] t ;;
        Q1 <- vadd set0 set_eq nocmp Q0 [u] ;;
        Q2 <- vadd set0 set_eq nocmp Q1 post' ;;
        Ps' <- vadd1 set1 part_eq nocmp Ps Q2 ;;
        part_inner head Ps' (pre ++ [b]) post' t1
    end.

  Fixpoint part_loop (head : set0) (Ps : set2) (parts : list set1) (t : nat) : res (set2 * nat) :=
    match parts with
    | [] => Ok (Ps, t)
    | P :: parts' =>
        '(Pm, t1) <- vall set0 draw P t ;;
        Q0 <- vadd set0 set_eq nocmp (vnew set0 Unordered) [vclone T head] ;;
        Q1 <- vadd set0 set_eq nocmp Q0 Pm ;;
        Ps1 <- vadd1 set1 part_eq nocmp Ps Q1 ;;
        '(Ps2, t2) <- part_inner head Ps1 [] Pm t1 ;;
        part_loop head Ps2 parts' t2
    end.

  Fixpoint partitions (fuel : nat) (s : set0) (t : nat) : res (set2 * nat) :=
    match fuel with
    | O => Hang
    | S f =>
        let Ps := vnew set1 Unordered in
        if Nat.eqb (vsize T s) 0 then
          Ps' <- vadd set1 part_eq nocmp Ps [vnew set0 Unordered] ;; Ok (Ps', t)
        else
          '(members, t1) <- vall T draw s t ;;
          match members with
          | [] => Panic IndexOutOfRange
          | m0 :: rest =>
              head <- vadd T eqb cmp (vcloneEmpty T s) [m0] ;;
              tail <- vadd T eqb cmp (vcloneEmpty T s) rest ;;
              '(PsT, t2) <- partitions f tail t1 ;;
              '(parts, t3) <- vall set1 draw PsT t2 ;;
              part_loop head Ps parts t3
          end
    end.
End Power.

(** Stirling numbers of the second kind and Bell numbers, by the recurrence the code follows:
    a partition of [tail] with k blocks yields one partition with k+1 blocks and k with k. *)
Fixpoint stirling2 (n k : nat) : nat :=
  match n with
  | O => match k with O => 1 | S _ => 0 end
  | S n' => match k with O => 0 | S k' => k * stirling2 n' k + stirling2 n' k' end
  end.
Definition bell (n : nat) : nat := fold_right plus 0 (map (stirling2 n) (seq 0 (S n))).

(** * Heap layer: Go slices on a store of backing arrays *)
Section Heap.
  Variable T : Type.
  Variable zero : T.                     (* the zero value [make] fills arrays with *)
  Variable grow : nat -> nat -> nat.     (* growth policy of append: new capacity from old capacity and needed length *)
  Variable eqb : T -> T -> bool.
  Variable cmp : nat -> T -> T -> Z.
  Variable draw : nat -> nat.

  Definition store := list (list T).
  Record hdr := mkhdr { arr : nat; off : nat; len : nat; cap : nat }.

  (** make([]T, n, c) *)
  Definition sl_make (st : store) (n c : nat) : store * hdr :=
    (st ++ [repeat zero c], mkhdr (length st) 0 n c).

  (** the backing array of a header; a header outside its array cannot exist in Go: [BadRef] *)
  Definition sl_array (st : store) (h : hdr) : res (list T) :=
    match nth_error st (arr h) with
    | None => Panic BadRef
    | Some a => if (off h + cap h <=? length a) && (len h <=? cap h) then Ok a else Panic BadRef
    end.

  Definition sl_read (st : store) (h : hdr) : res (list T) :=
    a <- sl_array st h ;; Ok (firstn (len h) (skipn (off h) a)).

  Definition put_range (a : list T) (i : nat) (vs : list T) : list T :=
    firstn i a ++ vs ++ skipn (i + length vs) a.

  (** write [vs] at window positions [pos ..] (within the capacity) *)
  Definition sl_write (st : store) (h : hdr) (pos : nat) (vs : list T) : res store :=
    a <- sl_array st h ;;
    if pos + length vs <=? cap h
    then Ok (set_nth st (arr h) (put_range a (off h + pos) vs))
    else Panic IndexOutOfRange.

  (** s[lo:hi] *)
  Definition sl_reslice (h : hdr) (lo hi : nat) : res hdr :=
    if (lo <=? hi) && (hi <=? cap h)
    then Ok (mkhdr (arr h) (off h + lo) (hi - lo) (cap h - lo))
    else Panic SliceBounds.

  (** append(s, vs...) where [vs] are the (already read: memmove semantics) source elements *)
  Definition sl_append (st : store) (h : hdr) (vs : list T) : res (store * hdr) :=
    let need := len h + length vs in
    if need <=? cap h then
      st' <- sl_write st h (len h) vs ;; Ok (st', mkhdr (arr h) (off h) need (cap h))
    else
      old <- sl_read st h ;;
      let c := grow (cap h) need in
      Ok (st ++ [old ++ vs ++ repeat zero (c - need)], mkhdr (length st) 0 need c).

  (** copy(dst, src) *)
  Definition sl_copy (st : store) (dst src : hdr) : res store :=
    vs <- sl_read st src ;; sl_write st dst 0 (firstn (len dst) vs).

  Record obj := mkobj { okind : kind; omem : hdr }.
  Record heap := mkheap { arrs : store; objs : list obj; tick : nat }.
  Definition ref := nat.

  Definition empty_heap : heap := mkheap [] [] 0.

  Definition getobj (h : heap) (r : ref) : res obj :=
    match nth_error (objs h) r with Some o => Ok o | None => Panic BadRef end.

  (** the member sequence of an object: what every query ranges over *)
  Definition h_members (h : heap) (r : ref) : res (list T) :=
    o <- getobj h r ;; sl_read (arrs h) (omem o).

  Definition h_kind (h : heap) (r : ref) : res kind := o <- getobj h r ;; Ok (okind o).

  Definition setmem (h : heap) (r : ref) (k : kind) (st : store) (m : hdr) : heap :=
    mkheap st (set_nth (objs h) r (mkobj k m)) (tick h).

  Definition alloc_obj (h : heap) (k : kind) (st : store) (m : hdr) : ref * heap :=
    (length (objs h), mkheap st (objs h ++ [mkobj k m]) (tick h)).

  (** New / NewStable / NewSorted without initial values: &set{members: make([]T, 0)} *)
  Definition h_new (h : heap) (k : kind) : ref * heap :=
    let '(st, m) := sl_make (arrs h) 0 0 in alloc_obj h k st m.

  Definition h_add1 (h : heap) (r : ref) (v : T) : res heap :=
    o <- getobj h r ;;
    l <- sl_read (arrs h) (omem o) ;;
    p <- add_plan T eqb cmp (okind o) l v ;;
    match p with
    | None => Ok h
    | Some pos =>
        match okind o with
        | Sorted c =>
            (* append(s.members[:low], append([]T{val}, s.members[low:]...)...) *)
            let '(st1, lit) := sl_make (arrs h) 1 1 in
            st2 <- sl_write st1 lit 0 [v] ;;
            tl <- sl_reslice (omem o) pos (len (omem o)) ;;
            tlv <- sl_read st2 tl ;;
            '(st3, inner) <- sl_append st2 lit tlv ;;
            pre <- sl_reslice (omem o) 0 pos ;;
            iv <- sl_read st3 inner ;;
            '(st4, m') <- sl_append st3 pre iv ;;
            Ok (setmem h r (Sorted c) st4 m')
        | k =>
            (* s.members = append(s.members, v) *)
            '(st', m') <- sl_append (arrs h) (omem o) [v] ;;
            Ok (setmem h r k st' m')
        end
    end.

  Fixpoint h_add (h : heap) (r : ref) (vs : list T) : res heap :=
    match vs with [] => Ok h | v :: vs' => h' <- h_add1 h r v ;; h_add h' r vs' end.

  Definition h_remove1 (h : heap) (r : ref) (v : T) : res heap :=
    o <- getobj h r ;;
    l <- sl_read (arrs h) (omem o) ;;
    p <- remove_plan T eqb cmp (okind o) l v ;;
    match p with
    | None => Ok h
    | Some i =>
        (* s.members = append(s.members[:i], s.members[i+1:]...) *)
        pre <- sl_reslice (omem o) 0 i ;;
        post <- sl_reslice (omem o) (S i) (len (omem o)) ;;
        pv <- sl_read (arrs h) post ;;
        '(st', m') <- sl_append (arrs h) pre pv ;;
        Ok (setmem h r (okind o) st' m')
    end.

  Fixpoint h_remove (h : heap) (r : ref) (vs : list T) : res heap :=
    match vs with [] => Ok h | v :: vs' => h' <- h_remove1 h r v ;; h_remove h' r vs' end.

  (** s.members = make([]T, 0) *)
  Definition h_removeAll (h : heap) (r : ref) : res heap :=
    o <- getobj h r ;;
    let '(st, m) := sl_make (arrs h) 0 0 in Ok (setmem h r (okind o) st m).

  Definition h_contains (h : heap) (r : ref) (vs : list T) : res bool :=
    o <- getobj h r ;; l <- sl_read (arrs h) (omem o) ;; contains T eqb cmp (okind o) l vs.

  Definition h_size (h : heap) (r : ref) : res nat := o <- getobj h r ;; Ok (len (omem o)).
  Definition h_isEmpty (h : heap) (r : ref) : res bool := o <- getobj h r ;; Ok (Nat.eqb (len (omem o)) 0).

  Definition h_all (h : heap) (r : ref) : res (list T * heap) :=
    o <- getobj h r ;; l <- sl_read (arrs h) (omem o) ;;
    '(ms, t') <- all T draw (okind o) l (tick h) ;;
    Ok (ms, mkheap (arrs h) (objs h) t').

  Fixpoint h_all_in (h : heap) (c : ref) (ms : list T) : res bool :=
    match ms with
    | [] => Ok true
    | m :: ms' => b <- h_contains h c [m] ;; if b then h_all_in h c ms' else Ok false
    end.

  Definition h_equal (h : heap) (s rhs : ref) : res bool :=
    n1 <- h_size h s ;; n2 <- h_size h rhs ;;
    if negb (Nat.eqb n1 n2) then Ok false
    else ms <- h_members h s ;; h_all_in h rhs ms.

  (** t := &set{members: make([]T, len(s.members))}; copy(t.members, s.members) *)
  Definition h_clone (h : heap) (s : ref) : res (ref * heap) :=
    o <- getobj h s ;;
    let '(st1, m) := sl_make (arrs h) (len (omem o)) (len (omem o)) in
    st2 <- sl_copy st1 m (omem o) ;;
    Ok (alloc_obj h (okind o) st2 m).

  Definition h_cloneEmpty (h : heap) (s : ref) : res (ref * heap) :=
    o <- getobj h s ;;
    let '(st, m) := sl_make (arrs h) 0 0 in Ok (alloc_obj h (okind o) st m).

  Definition h_isSubset (h : heap) (s sup : ref) : res (bool * heap) :=
    '(ms, h') <- h_all h s ;; b <- h_all_in h' sup ms ;; Ok (b, h').

  Definition h_isSuperset (h : heap) (s sub : ref) : res (bool * heap) :=
    '(ms, h') <- h_all h sub ;; b <- h_all_in h' s ms ;; Ok (b, h').

  Fixpoint h_union_loop (h : heap) (t : ref) (sets : list ref) : res heap :=
    match sets with
    | [] => Ok h
    | x :: sets' => '(ms, h1) <- h_all h x ;; h2 <- h_add h1 t ms ;; h_union_loop h2 t sets'
    end.
  Definition h_union (h : heap) (s : ref) (sets : list ref) : res (ref * heap) :=
    '(t, h1) <- h_clone h s ;; h2 <- h_union_loop h1 t sets ;; Ok (t, h2).

  Fixpoint h_diff_loop (h : heap) (t : ref) (sets : list ref) : res heap :=
    match sets with
    | [] => Ok h
    | x :: sets' => '(ms, h1) <- h_all h x ;; h2 <- h_remove h1 t ms ;; h_diff_loop h2 t sets'
    end.
  Definition h_difference (h : heap) (s : ref) (sets : list ref) : res (ref * heap) :=
    '(t, h1) <- h_clone h s ;; h2 <- h_diff_loop h1 t sets ;; Ok (t, h2).

  Fixpoint h_in_all (h : heap) (sets : list ref) (m : T) : res bool :=
    match sets with
    | [] => Ok true
    | x :: sets' => b <- h_contains h x [m] ;; if b then h_in_all h sets' m else Ok false
    end.

  Fixpoint h_inter_loop (h : heap) (t : ref) (ms : list T) (sets : list ref) : res heap :=
    match ms with
    | [] => Ok h
    | m :: ms' => b <- h_in_all h sets m ;;
                  h' <- (if b then h_add1 h t m else Ok h) ;;
                  h_inter_loop h' t ms' sets
    end.
  Definition h_intersection (h : heap) (s : ref) (sets : list ref) : res (ref * heap) :=
    '(t, h1) <- h_cloneEmpty h s ;;
    ms <- h_members h1 s ;;
    h2 <- h_inter_loop h1 t ms sets ;; Ok (t, h2).

  Definition h_anyMatch (h : heap) (s : ref) (p : T -> bool) : res bool :=
    ms <- h_members h s ;; Ok (existsb p ms).
  Definition h_allMatch (h : heap) (s : ref) (p : T -> bool) : res bool :=
    ms <- h_members h s ;; Ok (forallb p ms).
  Definition h_firstMatch (h : heap) (s : ref) (p : T -> bool) : res (option T) :=
    ms <- h_members h s ;; Ok (first_match T p ms).

  Definition h_selectMatch (h : heap) (s : ref) (p : T -> bool) : res (ref * heap) :=
    '(t, h1) <- h_cloneEmpty h s ;;
    ms <- h_members h1 s ;;
    h2 <- h_add h1 t (filter p ms) ;; Ok (t, h2).

  Fixpoint h_part_loop (h : heap) (a b : ref) (p : T -> bool) (ms : list T) : res heap :=
    match ms with
    | [] => Ok h
    | m :: ms' => h' <- h_add1 h (if p m then a else b) m ;; h_part_loop h' a b p ms'
    end.
  Definition h_partitionMatch (h : heap) (s : ref) (p : T -> bool) : res (ref * ref * heap) :=
    '(a, h1) <- h_cloneEmpty h s ;;
    '(b, h2) <- h_cloneEmpty h1 s ;;
    ms <- h_members h2 s ;;
    h3 <- h_part_loop h2 a b p ms ;; Ok (a, b, h3).

  (** pairs of distinct objects whose members share a backing array of non-zero capacity
      (fidelity/aliasing observable; provably empty on every reachable heap) *)
  Definition shared_arrays (h : heap) : list (nat * nat) :=
    let os := combine (seq 0 (length (objs h))) (objs h) in
    flat_map (fun a => flat_map (fun b =>
      if (fst a <? fst b) && Nat.eqb (arr (omem (snd a))) (arr (omem (snd b)))
         && negb (Nat.eqb (cap (omem (snd a))) 0) && negb (Nat.eqb (cap (omem (snd b))) 0)
      then [(fst a, fst b)] else []) os) os.
End Heap.


(** * Instances used by the driver: Go [int] elements *)
Definition cmpZ (a b : Z) : Z := match Z.compare a b with Lt => (-1)%Z | Eq => 0%Z | Gt => 1%Z end.
Definition cmpZrev (a b : Z) : Z := cmpZ b a.
(** comparators that return magnitudes (legal under generic.CompareFunc's negative/zero/positive contract) *)
Definition cmpZmag (a b : Z) : Z := (a - b)%Z.
Definition cmpZmag3 (a b : Z) : Z := (3 * (a - b))%Z.
Definition cmpZrmag (a b : Z) : Z := (b - a)%Z.
(** the comparators of the driver's sorted sets, by index *)
Definition cmpsZ (c : nat) : Z -> Z -> Z :=
  match c with 0 => cmpZ | 1 => cmpZrev | 2 => cmpZmag | 3 => cmpZmag3 | _ => cmpZrmag end.
(** Go's growth for small slices (doubling); any policy with [grow c n >= n] satisfies the theorems *)
Definition grow_double (c need : nat) : nat := Nat.max need (2 * c).
Definition draw_id (t : nat) : nat := 0.
