(** C16 — the value layer refines mathematical finite sets.
    A mathematical set is a duplicate-free list [S] (its elements, in the order of insertion);
    [repr k S l] says that the member sequence [l] of a set of kind [k] represents [S]:
    [l = S] for the unordered and the stable set, [l] = the comparator-sorted permutation of [S]
    for the sorted set.  Laws assumed of the element type: [eqb] decides Leibniz equality and
    [cmp] is a strict total order consistent with it. *)
From Coq Require Import Lia Permutation Sorted.
From Algo.C16 Require Import Model Spec ProofsList.
Local Open Scope Z_scope.

(** facts about one comparator that is a strict total order *)
Section Order.
  Variable A : Type.
  Variable cmp : A -> A -> Z.
  Hypothesis cmp_eq : forall x y, cmp x y = 0 <-> x = y.
  Hypothesis cmp_anti : forall x y, cmp x y < 0 <-> 0 < cmp y x.
  Hypothesis cmp_trans : forall x y z, cmp x y < 0 -> cmp y z < 0 -> cmp x z < 0.
  Notation lt := (ltc cmp).

  (** ** order facts *)
  Lemma lt_irrefl : forall x, ~ lt x x.
  Proof. intros x H. unfold ltc in H. rewrite (proj2 (cmp_eq x x) eq_refl) in H. lia. Qed.

  Lemma sorted_nth : forall l k1 k2 x1 x2, StronglySorted lt l ->
    nth_error l k1 = Some x1 -> nth_error l k2 = Some x2 -> (k1 < k2)%nat -> lt x1 x2.
  Proof.
    induction l as [|a l IH]; intros k1 k2 x1 x2 Hs H1 H2 Hk; [destruct k1; discriminate|].
    inversion Hs as [|? ? Hs' Hall]; subst.
    destruct k1, k2; simpl in *; try lia.
    - inversion H1; subst. rewrite Forall_forall in Hall. apply Hall. eapply nth_error_In; eauto.
    - eapply IH; eauto. lia.
  Qed.

  Lemma sorted_NoDup : forall l, StronglySorted lt l -> NoDup l.
  Proof.
    induction 1 as [|a l Hs IH Hall]; constructor; auto.
    intros Hin. rewrite Forall_forall in Hall. exact (lt_irrefl a (Hall a Hin)).
  Qed.

  (** binary search on a sorted sequence *)
  Lemma bsearch_sorted : forall fuel l v low high, StronglySorted lt l ->
    0 <= low -> high < Z.of_nat (length l) -> low <= high + 1 ->
    (Z.to_nat (high - low + 1) < fuel)%nat ->
    (forall k x, nth_error l k = Some x -> Z.of_nat k < low -> lt x v) ->
    (forall k x, nth_error l k = Some x -> high < Z.of_nat k -> lt v x) ->
    exists b i, bsearch A cmp fuel l v low high = Ok (b, i) /\ 0 <= i <= Z.of_nat (length l) /\
      (b = true -> nth_error l (Z.to_nat i) = Some v) /\
      (b = false -> (forall k x, nth_error l k = Some x -> Z.of_nat k < i -> lt x v) /\
                    (forall k x, nth_error l k = Some x -> i <= Z.of_nat k -> lt v x)).
  Proof.
    induction fuel as [|f IH]; intros l v low high Hs Hl Hh Hlh Hf Hlo Hhi; [lia|].
    simpl. destruct (low <=? high) eqn:E.
    - apply Z.leb_le in E.
      pose proof (quot2 low high Hl E) as Hq.
      set (mid := Z.quot (low + high) 2) in *.
      destruct (mid <? 0) eqn:E0; [apply Z.ltb_lt in E0; lia|].
      destruct (nth_error l (Z.to_nat mid)) as [m|] eqn:En.
      2:{ apply nth_error_None in En. lia. }
      destruct (cmp v m <? 0) eqn:E1.
      + apply Z.ltb_lt in E1.
        apply (IH l v low (mid - 1)); auto; try lia.
        intros k x Hk Hgt.
        destruct (Z.eq_dec (Z.of_nat k) mid) as [Hkm|Hkm].
        * replace (Z.to_nat mid) with k in En by lia. congruence.
        * apply (cmp_trans v m x E1). eapply (sorted_nth l (Z.to_nat mid) k); eauto. lia.
      + destruct (cmp v m >? 0) eqn:E2.
        * rewrite Z.gtb_ltb in E2. apply Z.ltb_lt in E2.
          assert (Hmv : lt m v) by (apply cmp_anti; exact E2).
          apply (IH l v (mid + 1) high); auto; try lia.
          intros k x Hk Hgt.
          destruct (Z.eq_dec (Z.of_nat k) mid) as [Hkm|Hkm].
          -- replace (Z.to_nat mid) with k in En by lia. congruence.
          -- apply (cmp_trans x m v); [|exact Hmv]. eapply (sorted_nth l k (Z.to_nat mid)); eauto. lia.
        * apply Z.ltb_ge in E1. rewrite Z.gtb_ltb in E2. apply Z.ltb_ge in E2.
          assert (v = m) by (apply cmp_eq; lia). subst m.
          exists true, mid. split; [reflexivity|]. split; [lia|]. split; [auto|discriminate].
    - apply Z.leb_gt in E. exists false, low. split; [reflexivity|]. split; [lia|]. split; [discriminate|].
      intros _. split; [exact Hlo|]. intros k x Hk Hge. apply (Hhi k x Hk). lia.
  Qed.

  Lemma bsearch_top_sorted : forall l v, StronglySorted lt l ->
    exists b i, bsearch_top A cmp l v = Ok (b, i) /\ 0 <= i <= Z.of_nat (length l) /\
      (b = true -> nth_error l (Z.to_nat i) = Some v) /\
      (b = false -> (forall k x, nth_error l k = Some x -> Z.of_nat k < i -> lt x v) /\
                    (forall k x, nth_error l k = Some x -> i <= Z.of_nat k -> lt v x)).
  Proof.
    intros l v Hs. unfold bsearch_top. apply bsearch_sorted; auto; try lia.
    intros k x Hk Hgt. assert (nth_error l k <> None) by congruence. apply nth_error_Some in H. lia.
  Qed.

  Lemma bsearch_false_notin : forall l v i,
    (forall k x, nth_error l k = Some x -> Z.of_nat k < i -> lt x v) ->
    (forall k x, nth_error l k = Some x -> i <= Z.of_nat k -> lt v x) -> ~ In v l.
  Proof.
    intros l v i H1 H2 Hin. apply In_nth_error in Hin. destruct Hin as (k & Hk).
    destruct (Z_lt_le_dec (Z.of_nat k) i) as [H|H]; [apply (lt_irrefl v), (H1 k v Hk H)|apply (lt_irrefl v), (H2 k v Hk H)].
  Qed.

  Lemma ins_at_perm : forall p v (l : list A), Permutation (ins_at A p v l) (v :: l).
  Proof.
    intros p v l. unfold ins_at. rewrite <- Permutation_middle. now rewrite firstn_skipn.
  Qed.

  Lemma ins_sorted : forall l p v, StronglySorted lt l ->
    (forall k x, nth_error l k = Some x -> (k < p)%nat -> lt x v) ->
    (forall k x, nth_error l k = Some x -> (p <= k)%nat -> lt v x) ->
    StronglySorted lt (ins_at A p v l).
  Proof.
    induction l as [|a l IH]; intros p v Hs H1 H2.
    - unfold ins_at. rewrite firstn_nil, skipn_nil. simpl. constructor; constructor.
    - inversion Hs as [|? ? Hs' Hall]; subst. destruct p as [|p].
      + unfold ins_at. simpl. constructor; [exact Hs|].
        apply Forall_forall. intros x Hx. apply In_nth_error in Hx. destruct Hx as (k & Hk).
        apply (H2 k x Hk). lia.
      + change (ins_at A (S p) v (a :: l)) with (a :: ins_at A p v l). constructor.
        * apply IH; auto.
          -- intros k x Hk Hlt. apply (H1 (S k) x Hk). lia.
          -- intros k x Hk Hle. apply (H2 (S k) x Hk). lia.
        * apply Forall_forall. intros x Hx.
          apply (Permutation_in _ (ins_at_perm p v l)) in Hx. destruct Hx as [<-|Hx].
          -- apply (H1 0%nat a eq_refl). lia.
          -- rewrite Forall_forall in Hall. now apply Hall.
  Qed.

  Lemma sorted_filter : forall (f : A -> bool) l, StronglySorted lt l -> StronglySorted lt (filter f l).
  Proof.
    induction 1 as [|a l Hs IH Hall]; simpl; [constructor|].
    destruct (f a); [|exact IH]. constructor; [exact IH|].
    rewrite Forall_forall in *. intros x Hx. apply filter_In in Hx. now apply Hall.
  Qed.

End Order.

Section Laws.
  Variable A : Type.
  Variable eqb : A -> A -> bool.
  Variable cmp : nat -> A -> A -> Z.
  Variable draw : nat -> nat.
  Hypothesis eqb_spec : forall x y, eqb x y = true <-> x = y.
  Hypothesis cmp_eq : forall c x y, cmp c x y = 0 <-> x = y.
  Hypothesis cmp_anti : forall c x y, cmp c x y < 0 <-> 0 < cmp c y x.
  Hypothesis cmp_trans : forall c x y z, cmp c x y < 0 -> cmp c y z < 0 -> cmp c x z < 0.

  Notation lt := (fun c => ltc (cmp c)).
  Notation memb := (memb A eqb).
  Notation hasb := (hasb A eqb cmp).
  Notation vset := (vset A).
  Notation s_add := (s_add A eqb).
  Notation s_rem := (s_rem A eqb).
  Notation s_adds := (s_adds A eqb).
  Notation s_rems := (s_rems A eqb).
  Notation repr := (repr A cmp).
  Notation inv := (inv A cmp).
  Notation set_equiv := (set_equiv A).

  Lemma memb_In : forall l v, memb l v = true <-> In v l.
  Proof.
    intros l v. unfold Spec.memb. rewrite existsb_exists. split.
    - intros (x & Hx & He). apply eqb_spec in He. now subst.
    - intros H. exists v. split; [exact H|now apply eqb_spec].
  Qed.

  Lemma memb_false : forall l v, memb l v = false <-> ~ In v l.
  Proof. intros. rewrite <- memb_In. destruct (memb l v); split; congruence. Qed.

  Lemma memb_perm : forall l l' v, Permutation l l' -> memb l v = memb l' v.
  Proof.
    intros l l' v HP. apply Bool.eq_true_iff_eq. rewrite !memb_In.
    split; apply Permutation_in; [exact HP|now symmetry].
  Qed.

  Lemma eqb_refl : forall x, eqb x x = true.
  Proof. intros. now apply eqb_spec. Qed.

  Lemma s_add_In : forall v S x, In x (s_add v S) <-> In x S \/ x = v.
  Proof.
    intros v S x. unfold s_add. destruct (memb S v) eqn:E.
    - apply memb_In in E. split; [auto|]. intros [H| ->]; auto.
    - rewrite in_app_iff. simpl. intuition.
  Qed.

  Lemma s_add_NoDup : forall v S, NoDup S -> NoDup (s_add v S).
  Proof.
    intros v S H. unfold s_add. destruct (memb S v) eqn:E; [exact H|].
    apply memb_false in E.
    apply (Permutation_NoDup (Permutation_cons_append S v)). now constructor.
  Qed.

  Lemma s_rem_In : forall v S x, In x (s_rem v S) <-> In x S /\ x <> v.
  Proof.
    intros v S x. unfold s_rem. rewrite filter_In. split; intros [H1 H2]; split; auto.
    - intros ->. rewrite eqb_refl in H2. discriminate.
    - destruct (eqb x v) eqn:E; [apply eqb_spec in E; congruence|reflexivity].
  Qed.

  Lemma s_rem_NoDup : forall v S, NoDup S -> NoDup (s_rem v S).
  Proof. intros. now apply NoDup_filter. Qed.

  Lemma s_adds_NoDup : forall vs S, NoDup S -> NoDup (s_adds vs S).
  Proof. induction vs; simpl; intros; auto. apply IHvs. now apply s_add_NoDup. Qed.

  Lemma s_rems_NoDup : forall vs S, NoDup S -> NoDup (s_rems vs S).
  Proof. induction vs; simpl; intros; auto. apply IHvs. now apply s_rem_NoDup. Qed.

  Lemma s_adds_In : forall vs S x, In x (s_adds vs S) <-> In x S \/ In x vs.
  Proof.
    induction vs as [|v vs IH]; simpl; intros S x; [intuition|].
    rewrite IH, s_add_In. intuition.
  Qed.

  Lemma s_rems_In : forall vs S x, In x (s_rems vs S) <-> In x S /\ ~ In x vs.
  Proof.
    induction vs as [|v vs IH]; simpl; intros S x; [intuition|].
    rewrite IH, s_rem_In. intuition.
  Qed.

  (** ** representation *)
  Lemma repr_perm : forall k S l, repr k S l -> Permutation l S.
  Proof. intros k S l [_ H]. destruct k; try (subst; reflexivity). apply H. Qed.

  Lemma repr_NoDup : forall k S l, repr k S l -> NoDup l.
  Proof. intros k S l H. eapply Permutation_NoDup; [symmetry; eapply repr_perm; eauto|apply H]. Qed.

  Lemma repr_In : forall k S l x, repr k S l -> (In x l <-> In x S).
  Proof. intros k S l x H. pose proof (repr_perm _ _ _ H) as HP. split; apply Permutation_in; [exact HP|now symmetry]. Qed.

  Lemma repr_length : forall k S l, repr k S l -> length l = length S.
  Proof. intros. eapply Permutation_length, repr_perm; eauto. Qed.

  Lemma repr_nil : forall k, repr k [] [].
  Proof. intros k. split; [constructor|]. destruct k; auto. split; constructor. Qed.

  Lemma repr_linear : forall k S l, linear k -> repr k S l -> l = S.
  Proof. intros k S l Hk [_ H]. destruct k; try (destruct Hk); assumption. Qed.

  Lemma repr_sorted : forall c S l, repr (Sorted c) S l -> StronglySorted (ltc (cmp c)) l.
  Proof. intros c S l [_ [H _]]. exact H. Qed.

  Lemma inv_intro : forall k l, NoDup l -> (forall c, k = Sorted c -> StronglySorted (ltc (cmp c)) l) -> inv (mkv k l).
  Proof. intros k l H1 H2. split; [exact H1|]. destruct k; simpl; auto. Qed.

  Lemma repr_inv : forall k S l, repr k S l -> inv (mkv k l).
  Proof.
    intros k S l H. apply inv_intro; [eapply repr_NoDup; eauto|]. intros c ->. eapply repr_sorted; eauto.
  Qed.

  Lemma inv_repr_perm : forall k S l, inv (mkv k l) -> NoDup S -> Permutation l S -> (linear k -> l = S) -> repr k S l.
  Proof.
    intros k S l Hi HS HP Hl. split; [exact HS|]. destruct k; try (apply Hl; exact I).
    split; [eapply repr_sorted; exact Hi|exact HP].
  Qed.

  (** Contains *)
  Lemma hasb_repr : forall k S l v, repr k S l -> hasb k l v = memb S v.
  Proof.
    intros k S l v H. destruct k.
    1,2: rewrite hasb_linear by exact I; assert (Hl : l = S) by (eapply repr_linear; [|exact H]; exact I); now rewrite Hl.
    unfold ProofsList.hasb, find.
    destruct (bsearch_top_sorted A (cmp c) (cmp_eq c) (cmp_anti c) (cmp_trans c) l v (repr_sorted _ _ _ H)) as (b & i & H1 & H2 & H3 & H4).
    rewrite H1. simpl. rewrite (memb_perm S l v (Permutation_sym (repr_perm _ _ _ H))).
    destruct b.
    - specialize (H3 eq_refl). apply nth_error_In in H3. apply memb_In in H3. rewrite H3.
      destruct (i =? -1) eqn:E; [apply Z.eqb_eq in E; lia|reflexivity].
    - destruct (H4 eq_refl) as [Ha Hb]. simpl. symmetry. apply memb_false. eapply bsearch_false_notin; eauto.
  Qed.

  Lemma ins_at_end : forall v (l : list A), ins_at A (length l) v l = l ++ [v].
  Proof. intros. unfold ins_at. now rewrite firstn_all, skipn_all. Qed.

  Lemma add_plan_repr : forall k S l v, repr k S l ->
    exists p, add_plan A eqb cmp k l v = Ok p /\
      match p with
      | None => In v S
      | Some pos => ~ In v S /\ repr k (S ++ [v]) (ins_at A pos v l)
      end.
  Proof.
    intros k S l v H.
    assert (Hnd : ~ In v S -> NoDup (S ++ [v])).
    { intros Hn. apply (Permutation_NoDup (Permutation_cons_append S v)). constructor; [exact Hn|apply H]. }
    destruct k.
    1,2: rewrite add_plan_linear by exact I; assert (Hl : l = S) by (eapply repr_linear; [|exact H]; exact I); subst l;
         destruct (memb S v) eqn:E; (eexists; split; [reflexivity|]);
         [ now apply memb_In
         | apply memb_false in E; split; [exact E|]; rewrite ins_at_end; split; [now apply Hnd|reflexivity] ].
    unfold add_plan.
    destruct (bsearch_top_sorted A (cmp c) (cmp_eq c) (cmp_anti c) (cmp_trans c) l v (repr_sorted _ _ _ H)) as (b & i & H1 & H2 & H3 & H4).
    rewrite H1. simpl. destruct b.
    - eexists; split; [reflexivity|]. apply (repr_In _ _ _ v H). eapply nth_error_In, H3; reflexivity.
    - destruct (i <? 0) eqn:E; [apply Z.ltb_lt in E; lia|].
      destruct (H4 eq_refl) as [Ha Hb].
      assert (Hn : ~ In v S). { rewrite <- (repr_In _ _ _ v H). eapply bsearch_false_notin; eauto. }
      eexists; split; [reflexivity|]. split; [exact Hn|]. split; [now apply Hnd|]. split.
      + apply ins_sorted; [eapply repr_sorted; eauto| |].
        * intros k x Hk Hlt. apply (Ha k x Hk). lia.
        * intros k x Hk Hle. apply (Hb k x Hk). lia.
      + rewrite ins_at_perm. rewrite <- Permutation_cons_append. constructor. eapply repr_perm; eauto.
  Qed.

  Lemma vadd1_repr : forall k S l v, repr k S l ->
    exists l', vadd1 A eqb cmp (mkv k l) v = Ok (mkv k l') /\ repr k (s_add v S) l'.
  Proof.
    intros k S l v H. unfold vadd1. simpl.
    destruct (add_plan_repr k S l v H) as (p & Hp & Hm). rewrite Hp. simpl. unfold s_add.
    destruct p as [pos|].
    - destruct Hm as [Hn Hr]. apply memb_false in Hn. rewrite Hn. eauto.
    - apply memb_In in Hm. rewrite Hm. eauto.
  Qed.

  Lemma vadd_repr : forall vs k S l, repr k S l ->
    exists l', vadd A eqb cmp (mkv k l) vs = Ok (mkv k l') /\ repr k (s_adds vs S) l'.
  Proof.
    induction vs as [|v vs IH]; intros k S l H; simpl; [eauto|].
    destruct (vadd1_repr k S l v H) as (l1 & H1 & R1). rewrite H1. simpl. apply IH. exact R1.
  Qed.

  (** Remove *)
  Lemma remove_plan_repr : forall k S l v, repr k S l ->
    exists p, remove_plan A eqb cmp k l v = Ok p /\
      match p with None => ~ In v S | Some i => nth_error l i = Some v end.
  Proof.
    intros k S l v H. unfold remove_plan.
    assert (Hlin : linear k -> exists p, (i <- Ok (lfind A eqb l v 0) ;;
        (if i =? -1 then Ok None else if i <? 0 then Panic SliceBounds else Ok (Some (Z.to_nat i)))) = Ok p /\
        match p with None => ~ In v S | Some i => nth_error l i = Some v end).
    { intros Hk. pose proof (repr_linear _ _ _ Hk H) as ->. simpl.
      destruct (lfind A eqb S v 0 =? -1) eqn:E.
      - rewrite lfind_memb in E by lia. eexists; split; [reflexivity|].
        apply memb_false. now destruct (memb S v).
      - apply Z.eqb_neq in E. destruct (lfind_range A eqb S v 0 ltac:(lia)) as [Hr|Hr]; [congruence|].
        destruct (lfind A eqb S v 0 <? 0) eqn:E0; [apply Z.ltb_lt in E0; lia|].
        eexists; split; [reflexivity|].
        destruct (lfind_nth A eqb S v 0 ltac:(lia) E) as (m & Hm & He & _).
        apply eqb_spec in He. subst m. now rewrite Z.sub_0_r in Hm. }
    destruct k; [apply Hlin; exact I|apply Hlin; exact I|].
    unfold find. destruct (bsearch_top_sorted A (cmp c) (cmp_eq c) (cmp_anti c) (cmp_trans c) l v (repr_sorted _ _ _ H)) as (b & i & H1 & H2 & H3 & H4).
    rewrite H1. simpl. destruct b.
    - destruct (i =? -1) eqn:E; [apply Z.eqb_eq in E; lia|].
      destruct (i <? 0) eqn:E0; [apply Z.ltb_lt in E0; lia|].
      eexists; split; [reflexivity|]. now apply H3.
    - simpl. eexists; split; [reflexivity|]. destruct (H4 eq_refl) as [Ha Hb].
      rewrite <- (repr_In _ _ _ v H). eapply bsearch_false_notin; eauto.
  Qed.

  Lemma filter_id : forall (f : A -> bool) l, (forall x, In x l -> f x = true) -> filter f l = l.
  Proof.
    induction l as [|a l IH]; simpl; intros H; [reflexivity|].
    rewrite (H a (or_introl eq_refl)). f_equal. apply IH. auto.
  Qed.

  Lemma s_rem_notin : forall v S, ~ In v S -> s_rem v S = S.
  Proof.
    intros v S H. apply filter_id. intros x Hx. destruct (eqb x v) eqn:E; [|reflexivity].
    apply eqb_spec in E. congruence.
  Qed.

  Lemma del_at_filter : forall l i v, NoDup l -> nth_error l i = Some v -> del_at A i l = s_rem v l.
  Proof.
    induction l as [|a l IH]; intros i v Hnd Hn; [destruct i; discriminate|].
    inversion Hnd as [|? ? Hna Hnd']; subst. destruct i as [|i]; simpl in Hn.
    - inversion Hn; subst. unfold del_at, s_rem. simpl. rewrite eqb_refl. simpl.
      symmetry. now apply s_rem_notin.
    - change (del_at A (S i) (a :: l)) with (a :: del_at A i l). unfold s_rem. simpl.
      destruct (eqb a v) eqn:E.
      + apply eqb_spec in E. subst. exfalso. apply Hna. eapply nth_error_In; eauto.
      + simpl. f_equal. now apply IH.
  Qed.

  Lemma perm_filter : forall (f : A -> bool) l l', Permutation l l' -> Permutation (filter f l) (filter f l').
  Proof.
    induction 1; simpl; auto.
    - destruct (f x); auto.
    - destruct (f x), (f y); auto. apply perm_swap.
    - etransitivity; eauto.
  Qed.

  Lemma repr_rem : forall k S l v, repr k S l -> repr k (s_rem v S) (s_rem v l).
  Proof.
    intros k S l v H. split; [apply s_rem_NoDup, H|]. destruct k.
    1,2: assert (Hl : l = S) by (eapply repr_linear; [|exact H]; exact I); now rewrite Hl.
    split; [apply sorted_filter; eapply repr_sorted; eauto|apply perm_filter; eapply repr_perm; eauto].
  Qed.

  Lemma vremove1_repr : forall k S l v, repr k S l ->
    exists l', vremove1 A eqb cmp (mkv k l) v = Ok (mkv k l') /\ repr k (s_rem v S) l'.
  Proof.
    intros k S l v H. unfold vremove1. simpl.
    destruct (remove_plan_repr k S l v H) as (p & Hp & Hm). rewrite Hp. simpl.
    destruct p as [i|].
    - eexists; split; [reflexivity|]. rewrite (del_at_filter l i v (repr_NoDup _ _ _ H) Hm). now apply repr_rem.
    - eexists; split; [reflexivity|]. rewrite (s_rem_notin v S Hm). exact H.
  Qed.

  Lemma vremove_repr : forall vs k S l, repr k S l ->
    exists l', vremove A eqb cmp (mkv k l) vs = Ok (mkv k l') /\ repr k (s_rems vs S) l'.
  Proof.
    induction vs as [|v vs IH]; intros k S l H; simpl; [eauto|].
    destruct (vremove1_repr k S l v H) as (l1 & H1 & R1). rewrite H1. simpl. apply IH. exact R1.
  Qed.

  (** queries *)
  Lemma vcontains_repr : forall k S l vs, repr k S l ->
    vcontains A eqb cmp (mkv k l) vs = Ok (forallb (memb S) vs).
  Proof.
    intros k S l vs H. unfold vcontains. simpl. rewrite contains_hasb. f_equal.
    apply forallb_ext || idtac. induction vs as [|v vs IH]; simpl; [reflexivity|].
    now rewrite (hasb_repr k S l v H), IH.
  Qed.

  Lemma vall_repr : forall k S l t, repr k S l ->
    exists r t', vall A draw (mkv k l) t = Ok (r, t') /\ Permutation r S /\
      (k = Stable -> r = S) /\ (forall c, k = Sorted c -> r = l /\ StronglySorted (ltc (cmp c)) r) /\ (k <> Unordered -> t' = t).
  Proof.
    intros k S l t H. unfold vall. simpl.
    destruct (all_spec A draw k l t) as (r & t' & H1 & H2 & H3).
    exists r, t'. split; [exact H1|]. split; [rewrite H2; eapply repr_perm; eauto|].
    split; [|split].
    - intros ->. destruct (H3 ltac:(congruence)) as [-> _]. apply (repr_linear Stable); [exact I|exact H].
    - intros c ->. destruct (H3 ltac:(congruence)) as [-> _]. split; [reflexivity|eapply repr_sorted; eauto].
    - intros Hk. now destruct (H3 Hk).
  Qed.

  Lemma all_in_hasb : forall (c : vset) ms, all_in A eqb cmp c ms = Ok (forallb (hasb (vk c) (vm c)) ms).
  Proof.
    intros c ms. induction ms as [|m ms IH]; simpl; [reflexivity|].
    unfold vcontains. rewrite contains_hasb. simpl. rewrite andb_true_r.
    destruct (hasb (vk c) (vm c) m); simpl; [exact IH|reflexivity].
  Qed.

  Lemma forallb_hasb_incl : forall k S l ms, repr k S l ->
    (forallb (hasb k l) ms = true <-> incl ms S).
  Proof.
    intros k S l ms H. rewrite forallb_forall. unfold incl. split; intros Hx a Ha.
    - apply memb_In. rewrite <- (hasb_repr k S l a H). now apply Hx.
    - rewrite (hasb_repr k S l a H). apply memb_In. now apply Hx.
  Qed.

  Lemma vequal_repr : forall k1 S1 l1 k2 S2 l2, repr k1 S1 l1 -> repr k2 S2 l2 ->
    exists b, vequal A eqb cmp (mkv k1 l1) (mkv k2 l2) = Ok b /\ (b = true <-> set_equiv S1 S2).
  Proof.
    intros k1 S1 l1 k2 S2 l2 H1 H2. unfold vequal, vsize. simpl.
    rewrite (repr_length _ _ _ H1), (repr_length _ _ _ H2).
    destruct (Nat.eqb (length S1) (length S2)) eqn:E; simpl.
    - apply Nat.eqb_eq in E. rewrite all_in_hasb. simpl. eexists; split; [reflexivity|].
      rewrite (forallb_hasb_incl k2 S2 l2 l1 H2). split.
      + intros Hi.
        assert (Hi1 : incl S1 S2).
        { intros x Hx. apply Hi. now apply (repr_In _ _ _ x H1). }
        assert (HP : Permutation S1 S2).
        { apply NoDup_Permutation_bis; [apply H1|lia|exact Hi1]. }
        intros x. split; apply Permutation_in; [exact HP|now symmetry].
      + intros He x Hx. apply He. now apply (repr_In _ _ _ x H1).
    - apply Nat.eqb_neq in E. exists false. split; [reflexivity|]. split; [discriminate|].
      intros He. exfalso. apply E. apply Permutation_length.
      apply NoDup_Permutation; [apply H1|apply H2|exact He].
  Qed.

  Lemma visSubset_repr : forall k1 S1 l1 k2 S2 l2 t, repr k1 S1 l1 -> repr k2 S2 l2 ->
    exists b t', visSubset A eqb cmp draw (mkv k1 l1) (mkv k2 l2) t = Ok (b, t') /\ (b = true <-> incl S1 S2).
  Proof.
    intros k1 S1 l1 k2 S2 l2 t H1 H2. unfold visSubset.
    destruct (vall_repr k1 S1 l1 t H1) as (r & t' & Ha & Hp & _). rewrite Ha. simpl.
    rewrite all_in_hasb. simpl. eexists; eexists; split; [reflexivity|].
    rewrite (forallb_hasb_incl k2 S2 l2 r H2). split; intros Hi x Hx; apply Hi.
    - eapply Permutation_in; [symmetry; exact Hp|exact Hx].
    - eapply Permutation_in; [exact Hp|exact Hx].
  Qed.

  Lemma visSuperset_repr : forall k1 S1 l1 k2 S2 l2 t, repr k1 S1 l1 -> repr k2 S2 l2 ->
    exists b t', visSuperset A eqb cmp draw (mkv k1 l1) (mkv k2 l2) t = Ok (b, t') /\ (b = true <-> incl S2 S1).
  Proof.
    intros k1 S1 l1 k2 S2 l2 t H1 H2. unfold visSuperset.
    destruct (vall_repr k2 S2 l2 t H2) as (r & t' & Ha & Hp & _). rewrite Ha. simpl.
    rewrite all_in_hasb. simpl. eexists; eexists; split; [reflexivity|].
    rewrite (forallb_hasb_incl k1 S1 l1 r H1). split; intros Hi x Hx; apply Hi.
    - eapply Permutation_in; [symmetry; exact Hp|exact Hx].
    - eapply Permutation_in; [exact Hp|exact Hx].
  Qed.

  Lemma existsb_perm : forall (p : A -> bool) l l', Permutation l l' -> existsb p l = existsb p l'.
  Proof.
    intros p l l' HP. apply Bool.eq_true_iff_eq. rewrite !existsb_exists.
    split; intros (x & Hx & Hp); exists x; (split; [|exact Hp]); [apply (Permutation_in _ HP Hx)|apply (Permutation_in _ (Permutation_sym HP) Hx)].
  Qed.

  Lemma forallb_perm : forall (p : A -> bool) l l', Permutation l l' -> forallb p l = forallb p l'.
  Proof.
    intros p l l' HP. apply Bool.eq_true_iff_eq. rewrite !forallb_forall.
    split; intros H x Hx; apply H; [apply (Permutation_in _ (Permutation_sym HP) Hx)|apply (Permutation_in _ HP Hx)].
  Qed.

  Lemma first_match_spec : forall (p : A -> bool) l,
    match first_match A p l with
    | Some x => In x l /\ p x = true
    | None => forall x, In x l -> p x = false
    end.
  Proof.
    induction l as [|a l IH]; simpl; [tauto|].
    destruct (p a) eqn:E; [auto|].
    destruct (first_match A p l); [tauto|]. intros x [<-|Hx]; auto.
  Qed.
  (** ** histories of mutators *)
  Lemma hist_repr : forall h k S l, repr k S l ->
    exists l', vrun_hist A eqb cmp (mkv k l) h = Ok (mkv k l') /\ repr k (fold_left (s_step A eqb) h S) l'.
  Proof.
    induction h as [|m h IH]; intros k S l H; simpl; [eauto|].
    destruct m as [vs|vs|]; simpl.
    - destruct (vadd_repr vs k S l H) as (l1 & H1 & R1). rewrite H1. simpl. now apply IH.
    - destruct (vremove_repr vs k S l H) as (l1 & H1 & R1). rewrite H1. simpl. now apply IH.
    - apply IH. apply repr_nil.
  Qed.

  Lemma s_run_NoDup : forall h, NoDup (s_run A eqb h).
  Proof.
    intros h. unfold s_run. assert (H : NoDup (@nil A)) by constructor. revert H. generalize (@nil A).
    induction h as [|m h IH]; intros S HS; simpl; [exact HS|]. apply IH.
    destruct m; simpl; [now apply s_adds_NoDup|now apply s_rems_NoDup|constructor].
  Qed.

  (** ** Union / Intersection / Difference *)
  Lemma s_add_prefix : forall v S, exists ext, s_add v S = S ++ ext.
  Proof. intros. unfold Spec.s_add. destruct (memb S v); [exists []; now rewrite app_nil_r|eauto]. Qed.

  Lemma s_adds_prefix : forall vs S, exists ext, s_adds vs S = S ++ ext.
  Proof.
    induction vs as [|v vs IH]; intros S; simpl; [exists []; now rewrite app_nil_r|].
    destruct (s_add_prefix v S) as (e1 & ->). destruct (IH (S ++ e1)) as (e2 & ->).
    exists (e1 ++ e2). now rewrite app_assoc.
  Qed.

  Lemma s_rems_filter : forall vs S, s_rems vs S = filter (fun x => negb (memb vs x)) S.
  Proof.
    induction vs as [|v vs IH]; intros S; simpl.
    - symmetry. now apply filter_id.
    - rewrite IH. unfold Spec.s_rem. clear IH. induction S as [|a S IHS]; simpl; [reflexivity|].
      destruct (eqb v a) eqn:E1.
      + apply eqb_spec in E1. subst. rewrite eqb_refl. simpl. exact IHS.
      + destruct (eqb a v) eqn:E2; [apply eqb_spec in E2; subst; rewrite eqb_refl in E1; discriminate|].
        simpl. destruct (memb vs a); simpl; [exact IHS|now rewrite IHS].
  Qed.

  Lemma inv_destruct : forall s : vset, inv s -> repr (vk s) (vm s) (vm s).
  Proof. intros s H. exact H. Qed.

  Lemma vall_inv : forall (x : vset) t, inv x ->
    exists r t', vall A draw x t = Ok (r, t') /\ Permutation r (vm x).
  Proof.
    intros [k l] t H. destruct (vall_repr k l l t H) as (r & t' & H1 & H2 & _). eauto.
  Qed.

  Lemma vunion_loop_repr : forall sets k S l t, repr k S l -> Forall inv sets ->
    exists l' S' t', vunion_loop A eqb cmp draw (mkv k l) sets t = Ok (mkv k l', t') /\ repr k S' l' /\
      (forall x, In x S' <-> In x S \/ exists r, In r sets /\ In x (vm r)) /\ exists ext, S' = S ++ ext.
  Proof.
    induction sets as [|x sets IH]; intros k S l t H Hall; simpl.
    - exists l, S, t. split; [reflexivity|]. split; [exact H|]. split.
      + intros y. split; [auto|]. intros [Hy|(r & [] & _)]. exact Hy.
      + exists []. now rewrite app_nil_r.
    - inversion Hall as [|? ? Hx Hall']; subst.
      destruct (vall_inv x t Hx) as (ms & t1 & Ha & Hp). rewrite Ha. simpl.
      destruct (vadd_repr ms k S l H) as (l1 & H1 & R1). rewrite H1. simpl.
      destruct (IH k _ l1 t1 R1 Hall') as (l' & S' & t' & H2 & R2 & Hin & (e2 & He2)).
      exists l', S', t'. split; [exact H2|]. split; [exact R2|]. split.
      + intros y. rewrite Hin, s_adds_In. split.
        * intros [[Hy|Hy]|(r & Hr & Hy)]; [now left| |].
          -- right. exists x. split; [now left|]. eapply Permutation_in; eauto.
          -- right. exists r. split; [now right|exact Hy].
        * intros [Hy|(r & [<-|Hr] & Hy)]; [now left; left| |].
          -- left; right. eapply Permutation_in; [symmetry; exact Hp|exact Hy].
          -- right. exists r. auto.
      + destruct (s_adds_prefix ms S) as (e1 & He1). rewrite He1 in He2.
        exists (e1 ++ e2). now rewrite app_assoc.
  Qed.

  Theorem vunion_spec : forall (s : vset) sets t, inv s -> Forall inv sets ->
    exists u t', vunion A eqb cmp draw s sets t = Ok (u, t') /\ inv u /\ vk u = vk s /\
      (forall x, In x (vm u) <-> In x (vm s) \/ exists r, In r sets /\ In x (vm r)) /\
      (linear (vk s) -> exists ext, vm u = vm s ++ ext).
  Proof.
    intros [k l] sets t H Hall. unfold vunion, vclone. simpl.
    destruct (vunion_loop_repr sets k l l t H Hall) as (l' & S' & t' & H1 & R & Hin & (ext & He)).
    exists (mkv k l'), t'. split; [exact H1|]. split; [eapply repr_inv; eauto|]. split; [reflexivity|]. split.
    - intros x. simpl. rewrite (repr_In _ _ _ x R). apply Hin.
    - simpl. intros Hk. exists ext. rewrite <- He. eapply repr_linear; eauto.
  Qed.

  Lemma vdiff_loop_repr : forall sets k S l t, repr k S l -> Forall inv sets ->
    exists l' S' t', vdiff_loop A eqb cmp draw (mkv k l) sets t = Ok (mkv k l', t') /\ repr k S' l' /\
      (forall x, In x S' <-> In x S /\ forall r, In r sets -> ~ In x (vm r)) /\ exists f, S' = filter f S.
  Proof.
    induction sets as [|x sets IH]; intros k S l t H Hall; simpl.
    - exists l, S, t. split; [reflexivity|]. split; [exact H|]. split.
      + intros y. split; [intros Hy; split; [exact Hy|intros r []]|tauto].
      + exists (fun _ => true). symmetry. now apply filter_id.
    - inversion Hall as [|? ? Hx Hall']; subst.
      destruct (vall_inv x t Hx) as (ms & t1 & Ha & Hp). rewrite Ha. simpl.
      destruct (vremove_repr ms k S l H) as (l1 & H1 & R1). rewrite H1. simpl.
      destruct (IH k _ l1 t1 R1 Hall') as (l' & S' & t' & H2 & R2 & Hin & (f2 & He2)).
      exists l', S', t'. split; [exact H2|]. split; [exact R2|]. split.
      + intros y. rewrite Hin, s_rems_In. split.
        * intros [[Hy Hn] Hr]. split; [exact Hy|]. intros r [<-|Hr'].
          -- intros Hc. apply Hn. eapply Permutation_in; [symmetry; exact Hp|exact Hc].
          -- now apply Hr.
        * intros [Hy Hr]. split; [split; [exact Hy|]|].
          -- intros Hc. apply (Hr x (or_introl eq_refl)). eapply Permutation_in; eauto.
          -- intros r Hr'. apply Hr. now right.
      + rewrite s_rems_filter in He2. rewrite He2.
        exists (fun a => negb (memb ms a) && f2 a).
        clear. induction S as [|a S IHS]; simpl; [reflexivity|].
        destruct (negb (memb ms a)); simpl; [destruct (f2 a); now rewrite IHS|exact IHS].
  Qed.

  Theorem vdifference_spec : forall (s : vset) sets t, inv s -> Forall inv sets ->
    exists u t', vdifference A eqb cmp draw s sets t = Ok (u, t') /\ inv u /\ vk u = vk s /\
      (forall x, In x (vm u) <-> In x (vm s) /\ forall r, In r sets -> ~ In x (vm r)) /\
      (linear (vk s) -> exists f, vm u = filter f (vm s)).
  Proof.
    intros [k l] sets t H Hall. unfold vdifference, vclone. simpl.
    destruct (vdiff_loop_repr sets k l l t H Hall) as (l' & S' & t' & H1 & R & Hin & (f & He)).
    exists (mkv k l'), t'. split; [exact H1|]. split; [eapply repr_inv; eauto|]. split; [reflexivity|]. split.
    - intros x. simpl. rewrite (repr_In _ _ _ x R). apply Hin.
    - simpl. intros Hk. exists f. rewrite <- He. eapply repr_linear; eauto.
  Qed.

  Lemma in_all_hasb : forall (sets : list vset) m,
    in_all A eqb cmp sets m = Ok (forallb (fun r => hasb (vk r) (vm r) m) sets).
  Proof.
    induction sets as [|x sets IH]; intros m; simpl; [reflexivity|].
    unfold vcontains. rewrite contains_hasb. simpl. rewrite andb_true_r.
    destruct (hasb (vk x) (vm x) m); simpl; [apply IH|reflexivity].
  Qed.

  Lemma in_all_inv : forall (sets : list vset) m, Forall inv sets ->
    (forallb (fun r => hasb (vk r) (vm r) m) sets = true <-> forall r, In r sets -> In m (vm r)).
  Proof.
    intros sets m Hall. rewrite forallb_forall. rewrite Forall_forall in Hall.
    split; intros H r Hr.
    - apply memb_In. rewrite <- (hasb_repr (vk r) (vm r) (vm r) m (Hall r Hr)). now apply H.
    - rewrite (hasb_repr (vk r) (vm r) (vm r) m (Hall r Hr)). apply memb_In. now apply H.
  Qed.

  Lemma vinter_loop_repr : forall ms sets k S l, repr k S l ->
    exists l', vinter_loop A eqb cmp (mkv k l) ms sets = Ok (mkv k l') /\
      repr k (s_adds (filter (fun m => forallb (fun r => hasb (vk r) (vm r) m) sets) ms) S) l'.
  Proof.
    induction ms as [|m ms IH]; intros sets k S l H; simpl; [eauto|].
    rewrite in_all_hasb. simpl.
    destruct (forallb (fun r => hasb (vk r) (vm r) m) sets).
    - destruct (vadd1_repr k S l m H) as (l1 & H1 & R1). rewrite H1. simpl. now apply IH.
    - simpl. now apply IH.
  Qed.

  Lemma s_adds_fresh : forall vs S, NoDup (S ++ vs) -> s_adds vs S = S ++ vs.
  Proof.
    induction vs as [|v vs IH]; intros S H; simpl; [now rewrite app_nil_r|].
    assert (Hn : ~ In v S).
    { intros Hc. apply NoDup_remove_2 in H. apply H. apply in_or_app. now left. }
    unfold Spec.s_add at 2 || unfold Spec.s_add. apply memb_false in Hn. rewrite Hn.
    rewrite IH; rewrite <- app_assoc; [reflexivity|exact H].
  Qed.

  Theorem vintersection_spec : forall (s : vset) sets, inv s -> Forall inv sets ->
    exists u, vintersection A eqb cmp s sets = Ok u /\ inv u /\ vk u = vk s /\
      (forall x, In x (vm u) <-> In x (vm s) /\ forall r, In r sets -> In x (vm r)) /\
      (linear (vk s) -> exists f, vm u = filter f (vm s)).
  Proof.
    intros [k l] sets H Hall. unfold vintersection, vcloneEmpty. simpl.
    destruct (vinter_loop_repr l sets k [] [] (repr_nil k)) as (l' & H1 & R).
    exists (mkv k l'). split; [exact H1|]. split; [eapply repr_inv; eauto|]. split; [reflexivity|].
    set (P := fun m => forallb (fun r => hasb (vk r) (vm r) m) sets) in *.
    split.
    - intros x. simpl. rewrite (repr_In _ _ _ x R), s_adds_In, filter_In. unfold P.
      rewrite (in_all_inv sets x Hall). simpl. tauto.
    - simpl. intros Hk. exists P. rewrite (repr_linear _ _ _ Hk R).
      apply (s_adds_fresh _ []). simpl. apply NoDup_filter. eapply repr_NoDup; eauto.
  Qed.

  (** SelectMatch / PartitionMatch *)
  Theorem vselectMatch_spec : forall (s : vset) p, inv s ->
    exists u, vselectMatch A eqb cmp s p = Ok u /\ inv u /\ vk u = vk s /\
      (forall x, In x (vm u) <-> In x (vm s) /\ p x = true) /\
      (linear (vk s) -> vm u = filter p (vm s)).
  Proof.
    intros [k l] p H. unfold vselectMatch, vcloneEmpty. simpl.
    destruct (vadd_repr (filter p l) k [] [] (repr_nil k)) as (l' & H1 & R).
    exists (mkv k l'). split; [exact H1|]. split; [eapply repr_inv; eauto|]. split; [reflexivity|]. split.
    - intros x. simpl. rewrite (repr_In _ _ _ x R), s_adds_In, filter_In. simpl. tauto.
    - simpl. intros Hk. rewrite (repr_linear _ _ _ Hk R).
      apply (s_adds_fresh _ []). simpl. apply NoDup_filter. eapply repr_NoDup; eauto.
  Qed.

  Theorem vpartitionMatch_spec : forall (s : vset) p, inv s ->
    exists a b, vpartitionMatch A eqb cmp s p = Ok (a, b) /\ inv a /\ inv b /\ vk a = vk s /\ vk b = vk s /\
      (forall x, In x (vm a) <-> In x (vm s) /\ p x = true) /\
      (forall x, In x (vm b) <-> In x (vm s) /\ p x = false).
  Proof.
    intros s p H. unfold vpartitionMatch.
    destruct (vselectMatch_spec s p H) as (a & Ha & Ia & Ka & Ina & _).
    destruct (vselectMatch_spec s (fun x => negb (p x)) H) as (b & Hb & Ib & Kb & Inb & _).
    unfold vselectMatch in Ha, Hb. rewrite Ha. simpl. rewrite Hb. simpl.
    exists a, b. split; [reflexivity|]. repeat (split; [assumption|]).
    intros x. rewrite Inb. rewrite negb_true_iff. tauto.
  Qed.
  (** ** the statements used by Properties/C16.v *)
  Theorem history_refines : forall (k : kind) (h : list (mut A)),
    exists l, vrun_hist A eqb cmp (vnew A k) h = Ok (mkv k l) /\ repr k (s_run A eqb h) l.
  Proof. intros. apply (hist_repr h k [] []), repr_nil. Qed.

  Theorem queries_repr : forall (k : kind) (S l : list A), repr k S l ->
      (forall vs, vcontains A eqb cmp (mkv k l) vs = Ok (forallb (fun v => existsb (fun m => eqb m v) S) vs)) /\
      vsize A (mkv k l) = length S /\
      visEmpty A (mkv k l) = Nat.eqb (length S) 0 /\
      (forall t, exists r t', vall A draw (mkv k l) t = Ok (r, t') /\ Permutation r S /\
                              (k = Stable -> r = S) /\
                              (forall c, k = Sorted c -> StronglySorted (ltc (cmp c)) r)) /\
      (forall p, vanyMatch A (mkv k l) p = existsb p S) /\
      (forall p, vallMatch A (mkv k l) p = forallb p S) /\
      (forall p, match vfirstMatch A (mkv k l) p with
                 | Some x => In x S /\ p x = true
                 | None => forall x, In x S -> p x = false
                 end).
  Proof.
    intros k S l H.
    pose proof (repr_perm k S l H) as HP.
    split; [intros vs; apply (vcontains_repr k S l vs H)|].
    split; [apply (repr_length k S l H)|].
    split; [unfold visEmpty; simpl; now rewrite (repr_length k S l H)|].
    split.
    { intros t. destruct (vall_repr k S l t H) as (r & t' & H1 & H2 & H3 & H4 & _).
      exists r, t'. repeat split; auto. intros c Hk. now destruct (H4 c Hk). }
    split; [intros p; apply (existsb_perm p l S HP)|].
    split; [intros p; apply (forallb_perm p l S HP)|].
    intros p. unfold vfirstMatch. simpl. pose proof (first_match_spec p l) as Hf.
    destruct (first_match A p l) as [x|].
    - destruct Hf as [Hi Hp]. split; [apply (Permutation_in _ HP Hi)|exact Hp].
    - intros x Hx. apply Hf. apply (Permutation_in _ (Permutation_sym HP) Hx).
  Qed.

  Theorem comparisons_repr : forall k1 S1 l1 k2 S2 l2 t, repr k1 S1 l1 -> repr k2 S2 l2 ->
      (exists b, vequal A eqb cmp (mkv k1 l1) (mkv k2 l2) = Ok b /\ (b = true <-> set_equiv S1 S2)) /\
      (exists b t', visSubset A eqb cmp draw (mkv k1 l1) (mkv k2 l2) t = Ok (b, t') /\ (b = true <-> incl S1 S2)) /\
      (exists b t', visSuperset A eqb cmp draw (mkv k1 l1) (mkv k2 l2) t = Ok (b, t') /\ (b = true <-> incl S2 S1)).
  Proof.
    intros. split; [|split].
    - now apply vequal_repr.
    - now apply visSubset_repr.
    - now apply visSuperset_repr.
  Qed.
End Laws.
