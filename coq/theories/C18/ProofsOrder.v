(** C18 — proofs, part 4: order theorems stated on the history alone (values added, values
    handed out), derived from the refinement theorems. *)
From Algo.C18 Require Import Model Spec Proofs ProofsStack.
From Coq Require Import Lia Permutation.
Open Scope Z_scope.

Section Order.
Variable V : Type.
Variable zero : V.
Variable eqb : V -> V -> bool.

(** ** FIFO: what was handed out, followed by what is still inside, is what was put in *)

Lemma lq_order ops : forall l0,
  removed V ops (snd (a_run (lq_step V zero eqb) l0 ops)) ++ fst (a_run (lq_step V zero eqb) l0 ops)
  = l0 ++ added V ops.
Proof.
  induction ops as [|o rest IH]; intros l0; simpl.
  - now rewrite app_nil_r.
  - destruct o as [v| | |v| |]; simpl; try apply IH.
    + rewrite IH, <- app_assoc. reflexivity.
    + destruct l0 as [|x t]; simpl; [apply IH | now rewrite IH].
Qed.

Lemma removed_length_le ops outs : (length (removed V ops outs) <= length ops)%nat.
Proof.
  revert outs; induction ops as [|o rest IH]; intros outs; simpl; [lia|].
  destruct o, outs as [|r outs']; simpl; try lia;
    try (specialize (IH outs'); lia).
  destruct r as [|v [|]| |]; simpl; specialize (IH outs'); lia.
Qed.

(** the live content of the queue is determined by the history: drop as many of the added
    values as were handed out *)
Lemma lq_final_skipn ops :
  lq_final V zero eqb ops
  = skipn (length (removed V ops (lq_outs V zero eqb ops))) (added V ops).
Proof.
  pose proof (lq_order ops []) as H. simpl in H.
  unfold lq_final, lq_outs. rewrite <- H.
  rewrite skipn_app, Nat.sub_diag, skipn_all. reflexivity.
Qed.

Theorem q_fifo ns ops q outs :
  1 <= ns -> q_run V zero eqb ns ops = Ok (q, outs) ->
  exists live,
    removed V ops outs ++ live = added V ops /\
    live = skipn (length (removed V ops outs)) (added V ops) /\
    QInv V q live.
Proof.
  intros Hns E.
  destruct (q_run_refines V zero eqb ns ops Hns) as (q0 & E0 & HI).
  rewrite E in E0. injection E0 as -> ->.
  exists (lq_final V zero eqb ops). split; [|split; auto].
  - apply (lq_order ops []).
  - apply lq_final_skipn.
Qed.

(** ** LIFO *)

(** as multisets: handed out + still inside = put in (so nothing is invented, duplicated or
    handed out twice) *)
Lemma ls_perm ops : forall l0,
  Permutation
    (removed V ops (snd (a_run (ls_step V zero eqb) l0 ops)) ++ fst (a_run (ls_step V zero eqb) l0 ops))
    (l0 ++ added V ops).
Proof.
  induction ops as [|o rest IH]; intros l0; simpl.
  - now rewrite app_nil_r.
  - destruct o as [v| | |v| |]; simpl; try apply IH.
    + rewrite (IH (v :: l0)). simpl. apply Permutation_middle.
    + destruct l0 as [|x t]; simpl; [apply IH | now rewrite IH].
Qed.

(** pushing [vs] and popping as many values returns them in reverse order and restores the
    stack, whatever it contained *)
Lemma ls_push_all vs : forall l0,
  a_run (ls_step V zero eqb) l0 (map OpAdd vs) = (rev vs ++ l0, map (fun _ => OutNone) vs).
Proof.
  induction vs as [|v r IH]; intros l0; simpl; [reflexivity|].
  rewrite IH. simpl. now rewrite <- app_assoc.
Qed.

Lemma ls_pop_all ws : forall l0,
  a_run (ls_step V zero eqb) (ws ++ l0) (repeat OpRemove (length ws))
  = (l0, map (fun v => OutVal v true) ws).
Proof.
  induction ws as [|w r IH]; intros l0; simpl; [reflexivity|].
  now rewrite IH.
Qed.

Theorem s_lifo ns ops vs :
  1 <= ns ->
  exists s,
    s_run V zero eqb ns (ops ++ map OpAdd vs ++ repeat OpRemove (length vs))
    = Ok (s, ls_outs V zero eqb ops ++ map (fun _ => OutNone) vs
                                    ++ map (fun v => OutVal v true) (rev vs)) /\
    SInv V s (ls_final V zero eqb ops).
Proof.
  intros Hns.
  destruct (s_run_refines V zero eqb ns (ops ++ map OpAdd vs ++ repeat OpRemove (length vs)) Hns)
    as (s & E & HI).
  exists s. unfold ls_outs, ls_final in *.
  rewrite !a_run_app in *. cbn [fst snd] in *.
  rewrite ls_push_all in *. cbn [fst snd] in *.
  rewrite <- (rev_length vs) in E, HI.
  rewrite ls_pop_all in *. cbn [fst snd] in *.
  rewrite rev_length in E.
  split; assumption.
Qed.

Theorem s_perm ns ops s outs :
  1 <= ns -> s_run V zero eqb ns ops = Ok (s, outs) ->
  exists live, Permutation (removed V ops outs ++ live) (added V ops) /\ SInv V s live.
Proof.
  intros Hns E.
  destruct (s_run_refines V zero eqb ns ops Hns) as (s0 & E0 & HI).
  rewrite E in E0. injection E0 as -> ->.
  exists (ls_final V zero eqb ops). split; auto.
  apply (ls_perm ops []).
Qed.

(** ** Every observer, on a state related to the abstract sequence [live] *)

Definition hd_or_zero (l : list V) : V * bool :=
  match l with [] => (zero, false) | x :: _ => (x, true) end.

Lemma q_observers q live :
  QInv V q live ->
  q_size V q = Z.of_nat (length live) /\
  q_isEmpty V q = is_nil live /\
  q_peek V zero q = Ok (hd_or_zero live) /\
  (exists q', q_dequeue V zero q = Ok (q', hd_or_zero live) /\ QInv V q' (tl live)) /\
  (forall v, q_contains V eqb q v = Ok (existsb (fun x => eqb x v) live)) /\
  (forall v, exists q', q_enqueue V zero q v = Ok q' /\ QInv V q' (live ++ [v])).
Proof.
  intros H. split; [now apply QInv_size|]. split; [now apply QInv_isEmpty|].
  split; [now apply q_peek_ok|]. split; [now apply q_dequeue_ok|].
  split; intros v; [now apply q_contains_ok | now apply q_enqueue_ok].
Qed.

Lemma s_observers s live :
  SInv V s live ->
  s_size V s = Z.of_nat (length live) /\
  s_isEmpty V s = is_nil live /\
  s_peek V zero s = Ok (hd_or_zero live) /\
  (exists s', s_pop V zero s = Ok (s', hd_or_zero live) /\ SInv V s' (tl live)) /\
  (forall v, s_contains V eqb s v = Ok (existsb (fun x => eqb x v) live)) /\
  (forall v, exists s', s_push V zero s v = Ok s' /\ SInv V s' (v :: live)).
Proof.
  intros H. split; [now apply SInv_size|]. split; [now apply SInv_isEmpty|].
  split; [now apply s_peek_ok|]. split; [now apply s_pop_ok|].
  split; intros v; [now apply s_contains_ok | now apply s_push_ok].
Qed.

End Order.
