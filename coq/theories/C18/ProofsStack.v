(** C18 — proofs, part 2: the block stack refines the LIFO list. *)
From Algo.C18 Require Import Model Spec Proofs.
From Coq Require Import Lia.
Open Scope Z_scope.

Local Arguments Z.of_nat : simpl never.
Local Arguments Z.to_nat : simpl never.
Local Arguments Z.add : simpl never.
Local Arguments Z.sub : simpl never.
Local Arguments Z.mul : simpl never.

Section Stack.
Variable V : Type.
Variable zero : V.
Variable eqb : V -> V -> bool.

Notation stack := (stack V).

(** The representation invariant: [l] is the abstract stack content, top first.
    - [SI_nil]: [topNode == nil]; then [topIndex] is [-1] (Push relies on it: it does not reset
      the index when it allocates the first block).
    - [SI_cons]: the top block is [rev rpre ++ post] where [rpre] (top first, non-empty) are its
      live cells and [post] its cells above [topIndex] (never written or stale); all lower
      blocks are full and live. *)
Inductive SInv (s : stack) (l : list V) : Prop :=
| SI_nil :
    1 <= s_nodeSize s ->
    s_listSize s = 0 -> l = [] ->
    s_topNode s = [] -> s_topIndex s = -1 ->
    SInv s l
| SI_cons (b : list V) (rest : list (list V)) (rpre post : list V) :
    1 <= s_nodeSize s ->
    s_listSize s = Z.of_nat (length l) ->
    s_topNode s = b :: rest ->
    b = rev rpre ++ post ->
    rpre <> [] ->
    Z.of_nat (length rpre) = s_topIndex s + 1 ->
    length b = Z.to_nat (s_nodeSize s) ->
    Forall (fun b => length b = Z.to_nat (s_nodeSize s)) rest ->
    l = rpre ++ concat (map (@rev V) rest) ->
    SInv s l.

Lemma SInv_new ns : 1 <= ns -> SInv (s_new V ns) [].
Proof. intros H. apply SI_nil; auto. Qed.

Lemma SInv_size s l : SInv s l -> s_size V s = Z.of_nat (length l).
Proof. destruct 1 as [? E -> ? ?|]; unfold s_size; [now rewrite E | auto]. Qed.

Lemma SInv_isEmpty s l : SInv s l -> s_isEmpty V s = is_nil l.
Proof.
  intros H. pose proof (SInv_size _ _ H) as E. unfold s_size in E. unfold s_isEmpty. rewrite E.
  destruct l; reflexivity.
Qed.

Lemma s_push_ok s l v :
  SInv s l -> exists s', s_push V zero s v = Ok s' /\ SInv s' (v :: l).
Proof.
  intros H. destruct s as [ns ls ti tn].
  destruct H as [Hns Hls -> Htn Hti | b rest rpre post Hns Hls Htn Hb Hne Hti Hlb Hall Hl];
    simpl in *; subst.
  - (* topNode == nil *)
    unfold s_push; simpl. rewrite (make_ok zero ns Hns); simpl.
    replace (-1 + 1) with 0 by lia.
    eexists; split; [reflexivity|].
    eapply (SI_cons _ _ _ [] [v] (repeat zero (Z.to_nat ns - 1))); simpl; auto; try lia.
    + discriminate.
    + simpl. rewrite repeat_length. lia.
  - unfold s_push; simpl.
    destruct (Z.eqb_spec (ti + 1) ns) as [Efull|Enot].
    + (* the top block is full: a new block on top *)
      rewrite (make_ok zero ns Hns); simpl.
      assert (post = []).
      { destruct post; [reflexivity|]. rewrite app_length, rev_length in Hlb; simpl in Hlb. lia. }
      subst post. rewrite app_nil_r in *.
      eexists; split; [reflexivity|].
      eapply (SI_cons _ _ _ (rev rpre :: rest) [v] (repeat zero (Z.to_nat ns - 1))); simpl; auto; try lia.
      * discriminate.
      * simpl. rewrite repeat_length. lia.
      * now rewrite rev_involutive.
    + (* room in the top block *)
      destruct post as [|x post'].
      { rewrite app_nil_r, rev_length in Hlb. lia. }
      cbn [bind fst snd].
      rewrite (store_mid (rev rpre) post' x (ti + 1) v) by (rewrite rev_length; lia).
      cbn [bind fst snd].
      eexists; split; [reflexivity|].
      eapply (SI_cons _ _ _ rest (v :: rpre) post'); simpl; auto; try lia.
      * now rewrite <- app_assoc.
      * discriminate.
      * rewrite !app_length in *; simpl in *. lia.
Qed.

(** the cell under the top cursor is the head of [l] *)
Lemma top_cell s l x l' :
  SInv s l -> l = x :: l' ->
  exists b rest, s_topNode s = b :: rest /\ idx b (s_topIndex s) = Ok x.
Proof.
  intros H ->. destruct s as [ns ls ti tn].
  destruct H as [? ? Hl ? ? | b rest rpre post Hns Hls Htn Hb Hne Hti Hlb Hall Hl];
    simpl in *; [discriminate|]. subst.
  exists (rev rpre ++ post), rest; split; [reflexivity|].
  destruct rpre as [|y rpre']; [congruence|].
  simpl in Hl. injection Hl as -> Hl. simpl. rewrite <- app_assoc. simpl.
  apply idx_mid. rewrite rev_length. simpl in Hti. lia.
Qed.

Lemma s_peek_ok s l :
  SInv s l -> s_peek V zero s = Ok (match l with [] => (zero, false) | x :: _ => (x, true) end).
Proof.
  intros H. unfold s_peek. rewrite (SInv_isEmpty _ _ H).
  destruct l as [|x l']; simpl; [reflexivity|].
  destruct (top_cell s _ x l' H eq_refl) as (b & rest & -> & E). now rewrite E.
Qed.

Lemma s_pop_ok s l :
  SInv s l ->
  exists s', s_pop V zero s
             = Ok (s', match l with [] => (zero, false) | x :: _ => (x, true) end) /\
             SInv s' (tl l).
Proof.
  intros H. unfold s_pop. rewrite (SInv_isEmpty _ _ H).
  destruct l as [|x l']; simpl.
  { exists s; auto. }
  destruct (top_cell s _ x l' H eq_refl) as (b0 & rest0 & Etn & EI). rewrite Etn, EI; simpl.
  destruct s as [ns ls ti tn].
  destruct H as [? ? Hl ? ? | b rest rpre post Hns Hls Htn Hb Hne Hti Hlb Hall Hl];
    simpl in *; [discriminate|]. subst.
  injection Etn as <- <-.
  destruct rpre as [|y rpre']; [congruence|].
  simpl in Hl. injection Hl as <- ->.
  destruct (Z.eqb_spec (ti - 1) (-1)) as [Eend|Enot].
  - (* the cursor leaves the top block *)
    assert (rpre' = []) by (destruct rpre'; [reflexivity | simpl in Hti; lia]). subst rpre'.
    destruct rest as [|b2 rest2]; simpl.
    + eexists; split; [reflexivity|]. apply SI_nil; simpl; auto; lia.
    + eexists; split; [reflexivity|].
      inversion Hall as [|? ? Hb2 Hall2]; subst.
      eapply (SI_cons _ _ _ rest2 (rev b2) []); simpl; auto; try lia.
      * now rewrite rev_involutive, app_nil_r.
      * intros E. apply (f_equal (@length V)) in E. rewrite rev_length in E. simpl in E. lia.
      * rewrite rev_length. lia.
  - eexists; split; [reflexivity|].
    eapply (SI_cons _ _ _ rest rpre' (x :: post)); simpl; auto; try lia.
    + simpl. now rewrite <- app_assoc.
    + destruct rpre'; [simpl in Hti; lia | discriminate].
    + simpl in Hti. lia.
Qed.

(** ** Contains *)

(** the cursor position [(n, i)] of the scan, with the part [l] of the stack still to visit *)
Inductive SCur (ns : Z) : list (list V) -> Z -> list V -> Prop :=
| SC_nil i : SCur ns [] i []
| SC_cons b rest rpre post i l :
    b = rev rpre ++ post -> rpre <> [] -> Z.of_nat (length rpre) = i + 1 ->
    Forall (fun b => length b = Z.to_nat ns) rest ->
    l = rpre ++ concat (map (@rev V) rest) ->
    SCur ns (b :: rest) i l.

Lemma s_contains_loop_ok ns (Hns : 1 <= ns) v :
  forall l fuel n i, SCur ns n i l -> (length l < fuel)%nat ->
    s_contains_loop V eqb fuel ns n i v = Ok (l_contains V eqb l v).
Proof.
  induction l as [|x l' IH]; intros fuel n i HC Hfuel.
  - destruct fuel as [|fuel']; [simpl in Hfuel; lia|].
    inversion HC as [| b rest rpre post ? ? Hb Hne Hi Hall Hl]; subst; [reflexivity|].
    destruct rpre; [congruence | discriminate].
  - destruct fuel as [|fuel']; [simpl in Hfuel; lia|]. simpl in Hfuel.
    inversion HC as [| b rest rpre post ? ? Hb Hne Hi Hall Hl]; subst.
    destruct rpre as [|y rpre']; [congruence|].
    simpl in Hl. injection Hl as <- ->.
    cbn [s_contains_loop].
    replace (idx (rev (x :: rpre') ++ post) i) with (Ok (A:=V) x).
    2:{ symmetry. simpl. rewrite <- app_assoc. simpl. apply idx_mid. rewrite rev_length.
        simpl in Hi. lia. }
    simpl. unfold l_contains; simpl. destruct (eqb x v); simpl; [reflexivity|].
    fold (l_contains V eqb (rpre' ++ concat (map (@rev V) rest)) v).
    destruct (Z.ltb_spec (i - 1) 0) as [Hlt|Hge].
    + assert (rpre' = []) by (destruct rpre'; [reflexivity | simpl in Hi; lia]). subst rpre'.
      simpl in *. apply IH; [|lia].
      destruct rest as [|b2 rest2]; simpl; [constructor|].
      inversion Hall as [|? ? Hb2 Hall2]; subst.
      eapply (SC_cons ns b2 rest2 (rev b2) []); auto.
      * now rewrite rev_involutive, app_nil_r.
      * intros E. apply (f_equal (@length V)) in E. rewrite rev_length in E. simpl in E. lia.
      * rewrite rev_length. lia.
    + apply IH; [|lia].
      eapply (SC_cons ns _ rest rpre' (x :: post)); auto.
      * simpl. now rewrite <- app_assoc.
      * destruct rpre'; [simpl in Hi; lia | discriminate].
      * simpl in Hi. lia.
Qed.

Lemma s_contains_ok s l v : SInv s l -> s_contains V eqb s v = Ok (l_contains V eqb l v).
Proof.
  intros H. destruct s as [ns ls ti tn].
  destruct H as [Hns Hls -> Htn Hti | b rest rpre post Hns Hls Htn Hb Hne Hti Hlb Hall Hl];
    simpl in *; subst.
  - reflexivity.
  - unfold s_contains; cbn [s_nodeSize s_topNode s_topIndex].
    apply (s_contains_loop_ok ns Hns v).
    + eapply (SC_cons ns _ rest rpre post); auto.
    + unfold s_contains_fuel; cbn [s_nodeSize s_topNode s_topIndex].
      rewrite app_length.
      assert (Hlen : length (concat (map (@rev V) rest)) = (length (map (@rev V) rest) * Z.to_nat ns)%nat).
      { apply concat_length_uniform. apply Forall_map.
        eapply Forall_impl; [|exact Hall]. intros a Ha. now rewrite rev_length. }
      rewrite Hlen, map_length. simpl. nia.
Qed.

(** ** One step, whole histories *)

Lemma s_step_sim s l o :
  SInv s l ->
  exists s', s_step V zero eqb s o = Ok (s', snd (ls_step V zero eqb l o)) /\
             SInv s' (fst (ls_step V zero eqb l o)).
Proof.
  intros H. destruct o as [v| | |v| |]; simpl.
  - destruct (s_push_ok s l v H) as (s' & -> & H'). exists s'; auto.
  - destruct (s_pop_ok s l H) as (s' & -> & H'). exists s'. destruct l; auto.
  - rewrite (s_peek_ok s l H). exists s. destruct l; auto.
  - rewrite (s_contains_ok s l v H). exists s; auto.
  - exists s. now rewrite (SInv_size _ _ H).
  - exists s. now rewrite (SInv_isEmpty _ _ H).
Qed.

Theorem s_run_refines ns ops :
  1 <= ns ->
  exists s, s_run V zero eqb ns ops = Ok (s, ls_outs V zero eqb ops) /\
            SInv s (ls_final V zero eqb ops).
Proof.
  intros H. unfold s_run, ls_outs, ls_final.
  apply (run_ops_sim (s_step V zero eqb) (ls_step V zero eqb) SInv); [|now apply SInv_new].
  intros s a o HR. now apply s_step_sim.
Qed.

End Stack.
