(** C18 — executable model of list/list.go, list/queue.go (after fix 713e226), list/stack.go and
    list/soft_queue.go.

    Transcription conventions.  Go [int] is [Z].  A Go slice used as a fixed block is a
    [list V]; reading or writing outside it is the result [Panic] (never a default value).
    The queue's nodes are shared between [frontNode]'s chain and [rearNode], so they live in an
    explicit heap: [q_heap] is an allocation-ordered list of nodes, a pointer is [option nat]
    ([None] = nil), [newArrayNode] appends a node, nil dereference is [Panic].  [rearNode] is NOT
    cleared when the queue is drained at a block boundary: it then points to a node that is no
    longer reachable from [frontNode = nil] (the "stale rear pointer"); the model keeps it.
    The stack's nodes are never shared or re-linked ([next] is written once, by the constructor),
    so [topNode] is the inductive list of blocks ([[]] = nil).
    The [for] loops of [Contains] run on fuel; exhaustion is [Hang].
    [zero] is Go's zero value of [T]; [eqb] is the user's [generic.EqualFunc[T]] (arbitrary).
    No proofs here. *)
From Coq Require Export List ZArith Bool.
Export ListNotations.
Open Scope Z_scope.

Inductive res (A : Type) : Type := Ok (a : A) | Panic | Hang.
Arguments Ok {A} a.
Arguments Panic {A}.
Arguments Hang {A}.

Definition bind {A B : Type} (r : res A) (f : A -> res B) : res B :=
  match r with Ok a => f a | Panic => Panic | Hang => Hang end.

(** * Go slices used as fixed-size blocks *)

(** [b[i]] *)
Definition idx {A : Type} (b : list A) (i : Z) : res A :=
  if i <? 0 then Panic
  else match nth_error b (Z.to_nat i) with Some x => Ok x | None => Panic end.

Fixpoint upd {A : Type} (l : list A) (n : nat) (x : A) : list A :=
  match l, n with
  | [], _ => []
  | _ :: t, O => x :: t
  | h :: t, S n' => h :: upd t n' x
  end.

(** [b[i] = x] *)
Definition store {A : Type} (b : list A) (i : Z) (x : A) : res (list A) :=
  if (i <? 0) || (Z.of_nat (length b) <=? i) then Panic else Ok (upd b (Z.to_nat i) x).

(** [make([]T, n)] *)
Definition make {A : Type} (zero : A) (n : Z) : res (list A) :=
  if n <? 0 then Panic else Ok (repeat zero (Z.to_nat n)).

(** * Operations and observable outputs shared by queue and stack *)

Inductive op (V : Type) : Type :=
| OpAdd (v : V)        (* Enqueue / Push *)
| OpRemove             (* Dequeue / Pop *)
| OpPeek
| OpContains (v : V)
| OpSize
| OpIsEmpty.
Arguments OpAdd {V} v.
Arguments OpRemove {V}.
Arguments OpPeek {V}.
Arguments OpContains {V} v.
Arguments OpSize {V}.
Arguments OpIsEmpty {V}.

Inductive out (V : Type) : Type :=
| OutNone
| OutVal (v : V) (ok : bool)     (* (T, bool) *)
| OutBool (b : bool)
| OutInt (z : Z).
Arguments OutNone {V}.
Arguments OutVal {V} v ok.
Arguments OutBool {V} b.
Arguments OutInt {V} z.

(** generic history runner: threads the state, collects outputs, stops at the first failure *)
Fixpoint run_ops {S O P : Type} (step : S -> P -> res (S * O)) (s : S) (ops : list P)
  : res (S * list O) :=
  match ops with
  | [] => Ok (s, [])
  | o :: rest =>
      bind (step s o) (fun so =>
      bind (run_ops step (fst so) rest) (fun r => Ok (fst r, snd so :: snd r)))
  end.

Section WithV.
Variable V : Type.
Variable zero : V.
Variable eqb : V -> V -> bool.

(** * Queue (list/queue.go) *)

Record node : Type := { n_block : list V; n_next : option nat }.

Record queue : Type := {
  q_nodeSize : Z;
  q_listSize : Z;
  q_frontIndex : Z;
  q_rearIndex : Z;
  q_frontNode : option nat;
  q_rearNode : option nat;
  q_heap : list node
}.

Definition q_new (nodeSize : Z) : queue :=
  {| q_nodeSize := nodeSize; q_listSize := 0; q_frontIndex := -1; q_rearIndex := -1;
     q_frontNode := None; q_rearNode := None; q_heap := [] |}.

Definition q_size (q : queue) : Z := q_listSize q.
Definition q_isEmpty (q : queue) : bool := q_listSize q =? 0.

(** [*p] *)
Definition load (h : list node) (p : option nat) : res node :=
  match p with
  | None => Panic
  | Some a => match nth_error h a with Some n => Ok n | None => Panic end
  end.

(** [newArrayNode(size, next)]: the new node's address is the old heap length *)
Definition new_node (h : list node) (size : Z) (next : option nat) : res (list node * nat) :=
  bind (make zero size) (fun b => Ok (h ++ [ {| n_block := b; n_next := next |} ], length h)).

Definition ptr_eqb (p q : option nat) : bool :=
  match p, q with
  | None, None => true
  | Some a, Some b => Nat.eqb a b
  | _, _ => false
  end.

(** [q.rearNode.block[q.rearIndex] = val] *)
Definition q_write_rear (q : queue) (val : V) : res queue :=
  match q_rearNode q with
  | None => Panic
  | Some r =>
      bind (load (q_heap q) (Some r)) (fun nd =>
      bind (store (n_block nd) (q_rearIndex q) val) (fun b =>
        Ok {| q_nodeSize := q_nodeSize q; q_listSize := q_listSize q;
              q_frontIndex := q_frontIndex q; q_rearIndex := q_rearIndex q;
              q_frontNode := q_frontNode q; q_rearNode := q_rearNode q;
              q_heap := upd (q_heap q) r {| n_block := b; n_next := n_next nd |} |}))
  end.

Definition q_enqueue (q : queue) (val : V) : res queue :=
  let ls := q_listSize q + 1 in            (* q.listSize++ *)
  let ri := q_rearIndex q + 1 in           (* q.rearIndex++ *)
  bind
    (match q_frontNode q with
     | None =>
         (* q.frontNode, q.frontIndex = newArrayNode(q.nodeSize, nil), 0
            q.rearNode, q.rearIndex = q.frontNode, 0      <- fix 713e226 *)
         bind (new_node (q_heap q) (q_nodeSize q) None) (fun ha =>
           Ok {| q_nodeSize := q_nodeSize q; q_listSize := ls;
                 q_frontIndex := 0; q_rearIndex := 0;
                 q_frontNode := Some (snd ha); q_rearNode := Some (snd ha);
                 q_heap := fst ha |})
     | Some _ =>
         if ri =? q_nodeSize q then
           (* q.rearNode.next = newArrayNode(q.nodeSize, nil)
              q.rearNode, q.rearIndex = q.rearNode.next, 0 *)
           bind (new_node (q_heap q) (q_nodeSize q) None) (fun ha =>
             match q_rearNode q with
             | None => Panic
             | Some r =>
                 bind (load (fst ha) (Some r)) (fun nd =>
                   Ok {| q_nodeSize := q_nodeSize q; q_listSize := ls;
                         q_frontIndex := q_frontIndex q; q_rearIndex := 0;
                         q_frontNode := q_frontNode q; q_rearNode := Some (snd ha);
                         q_heap := upd (fst ha) r
                                     {| n_block := n_block nd; n_next := Some (snd ha) |} |})
             end)
         else
           Ok {| q_nodeSize := q_nodeSize q; q_listSize := ls;
                 q_frontIndex := q_frontIndex q; q_rearIndex := ri;
                 q_frontNode := q_frontNode q; q_rearNode := q_rearNode q;
                 q_heap := q_heap q |}
     end)
    (fun q' => q_write_rear q' val).

Definition q_dequeue (q : queue) : res (queue * (V * bool)) :=
  if q_isEmpty q then Ok (q, (zero, false))
  else
    bind (load (q_heap q) (q_frontNode q)) (fun nd =>
    bind (idx (n_block nd) (q_frontIndex q)) (fun val =>
      let fi := q_frontIndex q + 1 in
      let ls := q_listSize q - 1 in
      if fi =? q_nodeSize q then
        (* q.frontNode, q.frontIndex = q.frontNode.next, 0 *)
        Ok ({| q_nodeSize := q_nodeSize q; q_listSize := ls;
               q_frontIndex := 0; q_rearIndex := q_rearIndex q;
               q_frontNode := n_next nd; q_rearNode := q_rearNode q;
               q_heap := q_heap q |}, (val, true))
      else
        Ok ({| q_nodeSize := q_nodeSize q; q_listSize := ls;
               q_frontIndex := fi; q_rearIndex := q_rearIndex q;
               q_frontNode := q_frontNode q; q_rearNode := q_rearNode q;
               q_heap := q_heap q |}, (val, true)))).

Definition q_peek (q : queue) : res (V * bool) :=
  if q_isEmpty q then Ok (zero, false)
  else
    bind (load (q_heap q) (q_frontNode q)) (fun nd =>
    bind (idx (n_block nd) (q_frontIndex q)) (fun val => Ok (val, true))).

(** [for n != nil && (n != q.rearNode || i <= q.rearIndex) { ... }] *)
Fixpoint q_contains_loop (fuel : nat) (q : queue) (n : option nat) (i : Z) (val : V) : res bool :=
  match fuel with
  | O => Hang
  | S fuel' =>
      match n with
      | None => Ok false
      | Some _ =>
          if negb (ptr_eqb n (q_rearNode q)) || (i <=? q_rearIndex q) then
            bind (load (q_heap q) n) (fun nd =>
            bind (idx (n_block nd) i) (fun x =>
              if eqb x val then Ok true
              else
                let i' := i + 1 in
                if i' =? q_nodeSize q then q_contains_loop fuel' q (n_next nd) 0 val
                else q_contains_loop fuel' q n i' val))
          else Ok false
      end
  end.

(** every iteration consumes one cell of one node; an acyclic heap has at most
    [length heap * nodeSize] cells, plus one unit for the final test *)
Definition q_contains_fuel (q : queue) : nat :=
  S (length (q_heap q) * Z.to_nat (q_nodeSize q)).

Definition q_contains (q : queue) (val : V) : res bool :=
  q_contains_loop (q_contains_fuel q) q (q_frontNode q) (q_frontIndex q) val.

Definition q_step (q : queue) (o : op V) : res (queue * out V) :=
  match o with
  | OpAdd v => bind (q_enqueue q v) (fun q' => Ok (q', OutNone))
  | OpRemove => bind (q_dequeue q) (fun r => Ok (fst r, OutVal (fst (snd r)) (snd (snd r))))
  | OpPeek => bind (q_peek q) (fun r => Ok (q, OutVal (fst r) (snd r)))
  | OpContains v => bind (q_contains q v) (fun b => Ok (q, OutBool b))
  | OpSize => Ok (q, OutInt (q_size q))
  | OpIsEmpty => Ok (q, OutBool (q_isEmpty q))
  end.

Definition q_run (nodeSize : Z) (ops : list (op V)) : res (queue * list (out V)) :=
  run_ops q_step (q_new nodeSize) ops.

(** * Stack (list/stack.go) *)

Record stack : Type := {
  s_nodeSize : Z;
  s_listSize : Z;
  s_topIndex : Z;
  s_topNode : list (list V)     (* blocks from the top node along [next]; [[]] = nil *)
}.

Definition s_new (nodeSize : Z) : stack :=
  {| s_nodeSize := nodeSize; s_listSize := 0; s_topIndex := -1; s_topNode := [] |}.

Definition s_size (s : stack) : Z := s_listSize s.
Definition s_isEmpty (s : stack) : bool := s_listSize s =? 0.

Definition s_push (s : stack) (val : V) : res stack :=
  let ls := s_listSize s + 1 in            (* s.listSize++ *)
  let ti := s_topIndex s + 1 in            (* s.topIndex++ *)
  bind
    (match s_topNode s with
     | [] =>
         (* s.topNode = newArrayNode(s.nodeSize, nil) -- topIndex is NOT reset here *)
         bind (make zero (s_nodeSize s)) (fun b => Ok ([b], ti))
     | _ :: _ =>
         if ti =? s_nodeSize s then
           (* s.topNode = newArrayNode(s.nodeSize, s.topNode); s.topIndex = 0 *)
           bind (make zero (s_nodeSize s)) (fun b => Ok (b :: s_topNode s, 0))
         else Ok (s_topNode s, ti)
     end)
    (fun nt =>
       (* s.topNode.block[s.topIndex] = val *)
       match fst nt with
       | [] => Panic
       | b :: rest =>
           bind (store b (snd nt) val) (fun b' =>
             Ok {| s_nodeSize := s_nodeSize s; s_listSize := ls;
                   s_topIndex := snd nt; s_topNode := b' :: rest |})
       end).

Definition s_pop (s : stack) : res (stack * (V * bool)) :=
  if s_isEmpty s then Ok (s, (zero, false))
  else
    match s_topNode s with
    | [] => Panic
    | b :: rest =>
        bind (idx b (s_topIndex s)) (fun val =>
          let ti := s_topIndex s - 1 in
          let ls := s_listSize s - 1 in
          if ti =? -1 then
            (* s.topNode = s.topNode.next; if s.topNode != nil { s.topIndex = s.nodeSize - 1 } *)
            match rest with
            | [] => Ok ({| s_nodeSize := s_nodeSize s; s_listSize := ls;
                           s_topIndex := ti; s_topNode := [] |}, (val, true))
            | _ :: _ => Ok ({| s_nodeSize := s_nodeSize s; s_listSize := ls;
                               s_topIndex := s_nodeSize s - 1; s_topNode := rest |}, (val, true))
            end
          else
            Ok ({| s_nodeSize := s_nodeSize s; s_listSize := ls;
                   s_topIndex := ti; s_topNode := s_topNode s |}, (val, true)))
    end.

Definition s_peek (s : stack) : res (V * bool) :=
  if s_isEmpty s then Ok (zero, false)
  else
    match s_topNode s with
    | [] => Panic
    | b :: _ => bind (idx b (s_topIndex s)) (fun val => Ok (val, true))
    end.

(** [for n != nil { ...; if i--; i < 0 { n = n.next; i = s.nodeSize - 1 } }] *)
Fixpoint s_contains_loop (fuel : nat) (nodeSize : Z) (n : list (list V)) (i : Z) (val : V)
  : res bool :=
  match fuel with
  | O => Hang
  | S fuel' =>
      match n with
      | [] => Ok false
      | b :: rest =>
          bind (idx b i) (fun x =>
            if eqb x val then Ok true
            else
              let i' := i - 1 in
              if i' <? 0 then s_contains_loop fuel' nodeSize rest (nodeSize - 1) val
              else s_contains_loop fuel' nodeSize n i' val)
      end
  end.

(** the top node contributes at most [topIndex+1] iterations, every other node [nodeSize] *)
Definition s_contains_fuel (s : stack) : nat :=
  S (Z.to_nat (s_topIndex s + 1) + length (s_topNode s) * Z.to_nat (s_nodeSize s)).

Definition s_contains (s : stack) (val : V) : res bool :=
  s_contains_loop (s_contains_fuel s) (s_nodeSize s) (s_topNode s) (s_topIndex s) val.

Definition s_step (s : stack) (o : op V) : res (stack * out V) :=
  match o with
  | OpAdd v => bind (s_push s v) (fun s' => Ok (s', OutNone))
  | OpRemove => bind (s_pop s) (fun r => Ok (fst r, OutVal (fst (snd r)) (snd (snd r))))
  | OpPeek => bind (s_peek s) (fun r => Ok (s, OutVal (fst r) (snd r)))
  | OpContains v => bind (s_contains s v) (fun b => Ok (s, OutBool b))
  | OpSize => Ok (s, OutInt (s_size s))
  | OpIsEmpty => Ok (s, OutBool (s_isEmpty s))
  end.

Definition s_run (nodeSize : Z) (ops : list (op V)) : res (stack * list (out V)) :=
  run_ops s_step (s_new nodeSize) ops.

(** * Soft queue (list/soft_queue.go) *)

Record softq : Type := { sq_front : Z; sq_rear : Z; sq_list : list V }.

Definition sq_new : softq := {| sq_front := 0; sq_rear := -1; sq_list := [] |}.

Definition sq_size (q : softq) : Z := sq_rear q - sq_front q + 1.
Definition sq_isEmpty (q : softq) : bool := sq_rear q <? sq_front q.

Definition sq_enqueue (q : softq) (val : V) : softq * Z :=
  let l := sq_list q ++ [val] in                        (* q.list = append(q.list, val) *)
  if Z.of_nat (length l) =? 1 then
    ({| sq_front := 0; sq_rear := 0; sq_list := l |}, 0)
  else
    ({| sq_front := sq_front q; sq_rear := sq_rear q + 1; sq_list := l |}, sq_rear q + 1).

Definition sq_dequeue (q : softq) : res (softq * (V * Z)) :=
  if sq_isEmpty q then Ok (q, (zero, -1))
  else
    bind (idx (sq_list q) (sq_front q)) (fun val =>
      Ok ({| sq_front := sq_front q + 1; sq_rear := sq_rear q; sq_list := sq_list q |},
          (val, sq_front q))).

Definition sq_peek (q : softq) : res (V * Z) :=
  if sq_isEmpty q then Ok (zero, -1)
  else bind (idx (sq_list q) (sq_front q)) (fun val => Ok (val, sq_front q)).

(** [for i, v := range q.list { if q.equal(v, val) { return i } }; return -1] *)
Fixpoint sq_contains_from (l : list V) (i : Z) (val : V) : Z :=
  match l with
  | [] => -1
  | v :: t => if eqb v val then i else sq_contains_from t (i + 1) val
  end.

Definition sq_contains (q : softq) (val : V) : Z := sq_contains_from (sq_list q) 0 val.

Definition sq_values (q : softq) : list V := sq_list q.

Inductive sop : Type :=
| SEnqueue (v : V) | SDequeue | SPeek | SContains (v : V) | SSize | SIsEmpty | SValues.

Inductive sout : Type :=
| SOIdx (i : Z)                 (* Enqueue, Contains, Size *)
| SOValIdx (v : V) (i : Z)      (* Dequeue, Peek *)
| SOBool (b : bool)
| SOVals (l : list V).

Definition sq_step (q : softq) (o : sop) : res (softq * sout) :=
  match o with
  | SEnqueue v => let r := sq_enqueue q v in Ok (fst r, SOIdx (snd r))
  | SDequeue => bind (sq_dequeue q) (fun r => Ok (fst r, SOValIdx (fst (snd r)) (snd (snd r))))
  | SPeek => bind (sq_peek q) (fun r => Ok (q, SOValIdx (fst r) (snd r)))
  | SContains v => Ok (q, SOIdx (sq_contains q v))
  | SSize => Ok (q, SOIdx (sq_size q))
  | SIsEmpty => Ok (q, SOBool (sq_isEmpty q))
  | SValues => Ok (q, SOVals (sq_values q))
  end.

Definition sq_run_from (q : softq) (ops : list sop) : res (softq * list sout) :=
  run_ops sq_step q ops.
Definition sq_run (ops : list sop) : res (softq * list sout) := sq_run_from sq_new ops.

End WithV.

Arguments q_nodeSize {V} q.
Arguments q_listSize {V} q.
Arguments q_frontIndex {V} q.
Arguments q_rearIndex {V} q.
Arguments q_frontNode {V} q.
Arguments q_rearNode {V} q.
Arguments q_heap {V} q.
Arguments s_nodeSize {V} s.
Arguments s_listSize {V} s.
Arguments s_topIndex {V} s.
Arguments s_topNode {V} s.
Arguments sq_front {V} s.
Arguments sq_rear {V} s.
Arguments sq_list {V} s.
Arguments n_block {V} n.
Arguments n_next {V} n.
Arguments SEnqueue {V} v.
Arguments SDequeue {V}.
Arguments SPeek {V}.
Arguments SContains {V} v.
Arguments SSize {V}.
Arguments SIsEmpty {V}.
Arguments SValues {V}.
Arguments SOIdx {V} i.
Arguments SOValIdx {V} v i.
Arguments SOBool {V} b.
Arguments SOVals {V} l.
