(** C18 — proofs, part 1: slice lemmas, the generic simulation lemma for histories, and the
    refinement of the block queue (representation invariant relating heap + cursors to the
    abstract FIFO list). *)
From Algo.C18 Require Import Model Spec.
From Coq Require Import Lia.
Open Scope Z_scope.

(* keep [simpl] from unfolding integer arithmetic into positive-level matches *)
Local Arguments Z.of_nat : simpl never.
Local Arguments Z.to_nat : simpl never.
Local Arguments Z.add : simpl never.
Local Arguments Z.sub : simpl never.
Local Arguments Z.mul : simpl never.

(** * Lists used as slices *)

Lemma upd_length {A} (l : list A) n x : length (upd l n x) = length l.
Proof. revert n; induction l as [|h t IH]; intros [|n]; simpl; auto. Qed.

Lemma upd_app_r {A} (g l : list A) k x : upd (g ++ l) (length g + k) x = g ++ upd l k x.
Proof. induction g as [|h t IH]; simpl; [reflexivity | now rewrite IH]. Qed.

Lemma upd_app_mid {A} (l1 l2 : list A) y x : upd (l1 ++ y :: l2) (length l1) x = l1 ++ x :: l2.
Proof.
  replace (length l1) with (length l1 + 0)%nat by lia. now rewrite upd_app_r.
Qed.

Lemma nth_error_app_r {A} (g l : list A) k : nth_error (g ++ l) (length g + k) = nth_error l k.
Proof. induction g as [|h t IH]; simpl; auto. Qed.

Lemma nth_error_mid {A} (l1 l2 : list A) y : nth_error (l1 ++ y :: l2) (length l1) = Some y.
Proof.
  replace (length l1) with (length l1 + 0)%nat by lia. now rewrite nth_error_app_r.
Qed.

Lemma idx_mid {A} (l1 l2 : list A) y i :
  i = Z.of_nat (length l1) -> idx (l1 ++ y :: l2) i = Ok y.
Proof.
  intros ->. unfold idx.
  destruct (Z.ltb_spec (Z.of_nat (length l1)) 0) as [H|_]; [lia|].
  now rewrite Nat2Z.id, nth_error_mid.
Qed.

Lemma store_mid {A} (l1 l2 : list A) y i x :
  i = Z.of_nat (length l1) -> store (l1 ++ y :: l2) i x = Ok (l1 ++ x :: l2).
Proof.
  intros ->. unfold store.
  destruct (Z.ltb_spec (Z.of_nat (length l1)) 0) as [H|_]; [lia|].
  destruct (Z.leb_spec (Z.of_nat (length (l1 ++ y :: l2))) (Z.of_nat (length l1))) as [H|_].
  - rewrite app_length in H; simpl in H; lia.
  - simpl. now rewrite Nat2Z.id, upd_app_mid.
Qed.

Lemma make_ok {A} (zero : A) n : 1 <= n ->
  make zero n = Ok (zero :: repeat zero (Z.to_nat n - 1)).
Proof.
  intros H. unfold make. destruct (Z.ltb_spec n 0) as [H0|_]; [lia|].
  replace (Z.to_nat n) with (S (Z.to_nat n - 1)) at 1 by lia. reflexivity.
Qed.

(** splitting an append at a known length *)
Lemma app_eq_len_l {A} (x y x' y' : list A) :
  x ++ y = x' ++ y' -> length x = length x' -> x = x' /\ y = y'.
Proof.
  revert x'; induction x as [|h t IH]; intros [|h' t'] E L; simpl in *; try discriminate.
  - auto.
  - injection E as -> E. destruct (IH t' E) as [-> ->]; [lia | auto].
Qed.

Lemma app_eq_len_r {A} (x y x' y' : list A) :
  x ++ y = x' ++ y' -> length y = length y' -> x = x' /\ y = y'.
Proof.
  intros E L. apply app_eq_len_l; auto.
  apply (f_equal (@length A)) in E. rewrite !app_length in E. lia.
Qed.

(** a shorter suffix of an append is a suffix of its second part *)
Lemma app_suffix_split {A} (x y w post : list A) :
  x ++ y = w ++ post -> (length post <= length y)%nat ->
  exists y1, y = y1 ++ post /\ x ++ y1 = w.
Proof.
  intros E L.
  remember (length y - length post)%nat as k eqn:Ek.
  exists (firstn k y).
  assert (Hy : y = firstn k y ++ skipn k y) by (symmetry; apply firstn_skipn).
  assert (Hl : length (skipn k y) = length post) by (rewrite skipn_length; lia).
  rewrite Hy in E at 1. rewrite app_assoc in E.
  destruct (app_eq_len_r _ _ _ _ E Hl) as [E1 E2].
  split; [rewrite <- E2; exact Hy | exact E1].
Qed.

(** a shorter prefix of an append is a prefix of its first part *)
Lemma app_prefix_split {A} (x y pre w : list A) :
  x ++ y = pre ++ w -> (length pre <= length x)%nat ->
  exists x2, x = pre ++ x2 /\ x2 ++ y = w.
Proof.
  intros E L.
  remember (length pre) as k eqn:Ek.
  exists (skipn k x).
  assert (Hx : x = firstn k x ++ skipn k x) by (symmetry; apply firstn_skipn).
  assert (Hl : length (firstn k x) = length pre) by (rewrite firstn_length; lia).
  rewrite Hx in E at 1. rewrite <- app_assoc in E.
  destruct (app_eq_len_l _ _ _ _ E Hl) as [E1 E2].
  split; [rewrite <- E1; exact Hx | exact E2].
Qed.

Lemma concat_length_uniform {A} (bs : list (list A)) n :
  Forall (fun b => length b = n) bs -> length (concat bs) = (length bs * n)%nat.
Proof.
  induction 1 as [|b bs Hb _ IH]; simpl; [reflexivity | rewrite app_length; lia].
Qed.

(** * Histories: a step-wise simulation lifts to whole histories *)

Lemma run_ops_sim {S A O P : Type}
      (step : S -> P -> res (S * O)) (astep : A -> P -> A * O) (R : S -> A -> Prop) :
  (forall s a o, R s a ->
     exists s', step s o = Ok (s', snd (astep a o)) /\ R s' (fst (astep a o))) ->
  forall ops s a, R s a ->
    exists s', run_ops step s ops = Ok (s', snd (a_run astep a ops)) /\
               R s' (fst (a_run astep a ops)).
Proof.
  intros Hstep ops; induction ops as [|o rest IH]; intros s a HR; simpl.
  - exists s; auto.
  - destruct (Hstep s a o HR) as (s1 & E1 & R1). rewrite E1; simpl.
    destruct (IH s1 _ R1) as (s2 & E2 & R2). rewrite E2; simpl.
    exists s2; auto.
Qed.

Lemma run_ops_app {S O P : Type} (step : S -> P -> res (S * O)) ops1 ops2 s :
  run_ops step s (ops1 ++ ops2) =
  bind (run_ops step s ops1) (fun r1 =>
  bind (run_ops step (fst r1) ops2) (fun r2 => Ok (fst r2, snd r1 ++ snd r2))).
Proof.
  revert s; induction ops1 as [|o rest IH]; intros s; simpl.
  - destruct (run_ops step s ops2) as [[s2 o2]| |]; reflexivity.
  - destruct (step s o) as [[s1 o1]| |]; simpl; auto.
    rewrite IH. destruct (run_ops step s1 rest) as [[s2 o2]| |]; simpl; auto.
    destruct (run_ops step s2 ops2) as [[s3 o3]| |]; reflexivity.
Qed.

Lemma a_run_app {A O P : Type} (astep : A -> P -> A * O) ops1 ops2 a :
  a_run astep a (ops1 ++ ops2) =
  (fst (a_run astep (fst (a_run astep a ops1)) ops2),
   snd (a_run astep a ops1) ++ snd (a_run astep (fst (a_run astep a ops1)) ops2)).
Proof.
  revert a; induction ops1 as [|o rest IH]; intros a; simpl.
  - now destruct (a_run astep a ops2).
  - now rewrite IH.
Qed.

Ltac len_of H :=
  apply (f_equal (@length _)) in H;
  repeat (rewrite app_length in H || (progress simpl in H)).

(** * The queue *)

Section Queue.
Variable V : Type.
Variable zero : V.
Variable eqb : V -> V -> bool.

Notation node := (node V).
Notation queue := (queue V).

(** nodes at consecutive addresses [a, a+1, ...], each linked to its successor *)
Fixpoint linked (a : nat) (bs : list (list V)) : list node :=
  match bs with
  | [] => []
  | b :: rest => {| n_block := b; n_next := Some (S a) |} :: linked (S a) rest
  end.

Lemma linked_length a bs : length (linked a bs) = length bs.
Proof. revert a; induction bs as [|b r IH]; intros a; simpl; auto. Qed.

Lemma linked_snoc a bs b :
  linked a (bs ++ [b]) = linked a bs ++ [ {| n_block := b; n_next := Some (S (a + length bs)) |} ].
Proof.
  revert a; induction bs as [|h t IH]; intros a; simpl.
  - now rewrite Nat.add_0_r.
  - rewrite IH. replace (S a + length t)%nat with (a + S (length t))%nat by lia. reflexivity.
Qed.

(** The representation invariant: [l] is the abstract queue content (front first).
    - [QI_nil]: [frontNode == nil] — the initial state and the state after a drain that ended
      exactly at a block boundary; [rearNode]/[rearIndex] are then unconstrained (stale).
    - [QI_chain]: the nodes from [frontNode] are the last [length bs0 + 1] nodes of the heap, at
      consecutive addresses, [rearNode] is the last one; the concatenated blocks are
      [pre ++ l ++ post] where [pre] are the consumed cells of the front block and [post] the
      cells of the rear block that were not written yet. *)
Inductive QInv (q : queue) (l : list V) : Prop :=
| QI_nil :
    1 <= q_nodeSize q ->
    q_listSize q = 0 -> l = [] ->
    q_frontNode q = None ->
    QInv q l
| QI_chain (g : list node) (bs0 : list (list V)) (bl pre post : list V) :
    1 <= q_nodeSize q ->
    q_listSize q = Z.of_nat (length l) ->
    q_heap q = g ++ linked (length g) bs0 ++ [ {| n_block := bl; n_next := None |} ] ->
    q_frontNode q = Some (length g) ->
    q_rearNode q = Some (length g + length bs0)%nat ->
    Forall (fun b => length b = Z.to_nat (q_nodeSize q)) bs0 ->
    length bl = Z.to_nat (q_nodeSize q) ->
    concat bs0 ++ bl = pre ++ l ++ post ->
    q_frontIndex q = Z.of_nat (length pre) ->
    q_frontIndex q < q_nodeSize q ->
    Z.of_nat (length post) = q_nodeSize q - 1 - q_rearIndex q ->
    0 <= q_rearIndex q ->
    QInv q l.

Lemma QInv_new ns : 1 <= ns -> QInv (q_new V ns) [].
Proof. intros H. apply QI_nil; auto. Qed.

Lemma QInv_nodeSize q l : QInv q l -> 1 <= q_nodeSize q.
Proof. destruct 1; auto. Qed.

Lemma QInv_size q l : QInv q l -> q_size V q = Z.of_nat (length l).
Proof. destruct 1 as [? E -> ?|]; unfold q_size; [now rewrite E | auto]. Qed.

Lemma QInv_isEmpty q l : QInv q l -> q_isEmpty V q = is_nil l.
Proof.
  intros H. pose proof (QInv_size _ _ H) as E. unfold q_size in E. unfold q_isEmpty. rewrite E.
  destruct l; reflexivity.
Qed.

(** ** Enqueue *)

Lemma nth_error_at {A} (g : list A) x rest k :
  k = length g -> nth_error (g ++ x :: rest) k = Some x.
Proof. intros ->. apply nth_error_mid. Qed.

Lemma upd_at {A} (g : list A) x rest k x' :
  k = length g -> upd (g ++ x :: rest) k x' = g ++ x' :: rest.
Proof. intros ->. apply upd_app_mid. Qed.

Lemma load_last (g : list node) (m : list node) nd :
  load V (g ++ m ++ [nd]) (Some (length g + length m)%nat) = Ok nd.
Proof. unfold load. rewrite app_assoc, nth_error_at; [reflexivity | now rewrite app_length]. Qed.

Lemma upd_last (g : list node) (m : list node) nd nd' :
  upd (g ++ m ++ [nd]) (length g + length m) nd' = g ++ m ++ [nd'].
Proof. rewrite !app_assoc, upd_at; [reflexivity | now rewrite app_length]. Qed.

Lemma q_enqueue_ok q l v :
  QInv q l -> exists q', q_enqueue V zero q v = Ok q' /\ QInv q' (l ++ [v]).
Proof.
  intros H. destruct q as [ns ls fi ri fn rn heap].
  destruct H as [Hns Hls -> Hfn | g bs0 bl pre post Hns Hls Hheap Hfn Hrn Hall Hbl Hcat Hfi Hfi2 Hpost Hri];
    simpl in *; subst.
  - (* frontNode == nil: a fresh first block, both cursors reset *)
    unfold q_enqueue; simpl. unfold new_node. rewrite (make_ok zero ns Hns); simpl.
    unfold q_write_rear; simpl.
    pose proof (load_last heap [] {| n_block := zero :: repeat zero (Z.to_nat ns - 1); n_next := None |}) as HL.
    simpl in HL. rewrite Nat.add_0_r in HL. rewrite HL; simpl.
    pose proof (upd_last heap [] {| n_block := zero :: repeat zero (Z.to_nat ns - 1); n_next := None |}) as HU.
    simpl in HU. rewrite Nat.add_0_r in HU. rewrite HU.
    eexists; split; [reflexivity|].
    eapply (QI_chain _ _ heap [] _ [] (repeat zero (Z.to_nat ns - 1))); simpl; auto.
    all: simpl; rewrite ?repeat_length; try lia.
  - (* frontNode != nil *)
    unfold q_enqueue; simpl.
    destruct (Z.eqb_spec (ri + 1) ns) as [Efull | Enot].
    + (* the rear block is full: link a new block *)
      assert (post = []) by (destruct post; [reflexivity | simpl in Hpost; lia]). subst post.
      unfold new_node. rewrite (make_ok zero ns Hns); simpl.
      set (nn := {| n_block := zero :: repeat zero (Z.to_nat ns - 1); n_next := None |}).
      set (m := linked (length g) bs0).
      assert (Hm : length m = length bs0) by apply linked_length.
      remember (length (g ++ m ++ [ {| n_block := bl; n_next := None |} ])) as a eqn:Ea.
      assert (Ea' : a = S (length g + length bs0)) by (subst a; rewrite !app_length; simpl; lia).
      replace ((g ++ m ++ [ {| n_block := bl; n_next := None |} ]) ++ [nn])
        with ((g ++ m) ++ {| n_block := bl; n_next := None |} :: [nn])
        by (now rewrite <- !app_assoc).
      rewrite nth_error_at by (rewrite app_length; lia). simpl.
      rewrite upd_at by (rewrite app_length; lia).
      unfold q_write_rear; simpl.
      replace ((g ++ m) ++ [ {| n_block := bl; n_next := Some a |}; nn])
        with ((g ++ m ++ [ {| n_block := bl; n_next := Some a |} ]) ++ [nn])
        by (now rewrite <- !app_assoc).
      rewrite nth_error_at by (rewrite !app_length; simpl; lia). simpl.
      rewrite upd_at by (rewrite !app_length; simpl; lia).
      eexists; split; [reflexivity|].
      eapply (QI_chain _ _ g (bs0 ++ [bl]) _ pre (repeat zero (Z.to_nat ns - 1))); simpl; auto.
      * rewrite app_length; simpl; lia.
      * unfold m. rewrite linked_snoc, Ea'. now rewrite <- !app_assoc.
      * rewrite Ea', app_length; simpl. f_equal; lia.
      * apply Forall_app; split; auto.
      * simpl. rewrite repeat_length. lia.
      * rewrite concat_app; simpl. rewrite app_nil_r in *. rewrite Hcat.
        now rewrite <- !app_assoc.
      * rewrite repeat_length. lia.
      * lia.
    + (* room in the rear block *)
      unfold q_write_rear; simpl.
      set (m := linked (length g) bs0).
      assert (Hm : length m = length bs0) by apply linked_length.
      rewrite <- Hm.
      pose proof (load_last g m {| n_block := bl; n_next := None |}) as HL. unfold load in HL.
      rewrite HL; simpl.
      destruct post as [|x post']; [simpl in Hpost; lia|].
      destruct (app_suffix_split (concat bs0) bl (pre ++ l) (x :: post')) as (bl1 & Ebl & E1).
      { now rewrite <- app_assoc. }
      { simpl in *. lia. }
      subst bl.
      rewrite (store_mid bl1 post' x (ri + 1) v).
      2:{ rewrite app_length in Hbl; simpl in *. lia. }
      simpl. rewrite upd_last.
      eexists; split; [reflexivity|].
      eapply (QI_chain _ _ g bs0 _ pre post'); simpl; auto.
      * rewrite app_length; simpl; lia.
      * rewrite !app_length in *; simpl in *; lia.
      * rewrite app_assoc, E1. now rewrite <- !app_assoc.
      * simpl in Hpost. lia.
      * lia.
Qed.

(** ** Dequeue / Peek: the cell under the front cursor is the head of [l] *)

Lemma front_cell q l x l' :
  QInv q l -> l = x :: l' ->
  exists nd, load V (q_heap q) (q_frontNode q) = Ok nd /\
             idx (n_block nd) (q_frontIndex q) = Ok x.
Proof.
  intros H ->. destruct q as [ns ls fi ri fn rn heap].
  destruct H as [? ? Hl ? | g bs0 bl pre post Hns Hls Hheap Hfn Hrn Hall Hbl Hcat Hfi Hfi2 Hpost Hri];
    simpl in *; [discriminate|]. subst.
  destruct bs0 as [|b bs0']; simpl in *.
  - exists {| n_block := bl; n_next := None |}; split.
    + pose proof (load_last g [] {| n_block := bl; n_next := None |}) as HL. simpl in HL.
      now rewrite Nat.add_0_r in HL.
    + simpl. subst bl. now apply idx_mid.
  - exists {| n_block := b; n_next := Some (S (length g)) |}; split.
    + unfold load. now rewrite nth_error_mid.
    + simpl. inversion Hall as [|? ? Hb Hall']; subst.
      destruct (app_prefix_split b (concat bs0' ++ bl) pre (x :: l' ++ post)) as (b2 & Eb & E2).
      { now rewrite app_assoc. }
      { lia. }
      destruct b2 as [|y b2'].
      { exfalso. subst b. rewrite app_nil_r in Hb. lia. }
      simpl in E2. injection E2 as -> E2. subst b. now apply idx_mid.
Qed.

Lemma q_peek_ok q l : QInv q l -> q_peek V zero q = Ok (match l with [] => (zero, false) | x :: _ => (x, true) end).
Proof.
  intros H. unfold q_peek. rewrite (QInv_isEmpty _ _ H).
  destruct l as [|x l']; simpl; [reflexivity|].
  destruct (front_cell q _ x l' H eq_refl) as (nd & -> & E); simpl. now rewrite E.
Qed.

Lemma q_dequeue_ok q l :
  QInv q l ->
  exists q', q_dequeue V zero q
             = Ok (q', match l with [] => (zero, false) | x :: _ => (x, true) end) /\
             QInv q' (tl l).
Proof.
  intros H. unfold q_dequeue. rewrite (QInv_isEmpty _ _ H).
  destruct l as [|x l']; simpl.
  { exists q; auto. }
  destruct (front_cell q _ x l' H eq_refl) as (nd & EL & EI). rewrite EL; simpl. rewrite EI; simpl.
  destruct q as [ns ls fi ri fn rn heap].
  destruct H as [? ? Hl ? | g bs0 bl pre post Hns Hls Hheap Hfn Hrn Hall Hbl Hcat Hfi Hfi2 Hpost Hri];
    simpl in *; [discriminate|]. subst.
  destruct (Z.eqb_spec (Z.of_nat (length pre) + 1) ns) as [Eend | Enot].
  - (* the front cursor leaves its block *)
    destruct bs0 as [|b bs0']; simpl in *.
    + (* it was the only block: frontNode becomes nil, the rear pointer goes stale *)
      pose proof (load_last g [] {| n_block := bl; n_next := None |}) as HL. simpl in HL.
      rewrite Nat.add_0_r in HL. rewrite HL in EL. injection EL as <-. simpl.
      eexists; split; [reflexivity|].
      assert (l' = []).
      { destruct l'; [reflexivity | len_of Hcat; lia]. }
      subst l'. apply QI_nil; simpl; auto; lia.
    + unfold load in EL. rewrite nth_error_mid in EL. injection EL as <-. simpl.
      eexists; split; [reflexivity|].
      inversion Hall as [|? ? Hb Hall']; subst.
      destruct (app_eq_len_l b (concat bs0' ++ bl) (pre ++ [x]) (l' ++ post)) as [Eb E2].
      { rewrite <- !app_assoc. simpl. now rewrite <- app_assoc in Hcat. }
      { rewrite app_length; simpl. lia. }
      eapply (QI_chain _ _ (g ++ [ {| n_block := b; n_next := Some (S (length g)) |} ]) bs0' bl [] post);
        simpl; auto.
      * lia.
      * rewrite app_length; simpl. rewrite <- app_assoc; simpl.
        now replace (length g + 1)%nat with (S (length g)) by lia.
      * f_equal. rewrite app_length; simpl. lia.
      * f_equal. rewrite app_length; simpl. lia.
      * lia.
  - destruct bs0 as [|b bs0']; simpl in *.
    + eexists; split; [reflexivity|].
      eapply (QI_chain _ _ g [] bl (pre ++ [x]) post); simpl; auto.
      * lia.
      * now rewrite <- app_assoc.
      * rewrite app_length; simpl. lia.
      * lia.
    + eexists; split; [reflexivity|].
      eapply (QI_chain _ _ g (b :: bs0') bl (pre ++ [x]) post); simpl; auto.
      * lia.
      * rewrite Hcat, <- app_assoc. reflexivity.
      * rewrite app_length; simpl. lia.
      * lia.
Qed.

(** ** Contains *)

Lemma q_contains_loop_ok ns ls fi ri fn (g0 : list node) (bs0' : list (list V)) (heap : list node)
      (bl post : list V) (Hns : 1 <= ns) :
  forall l fuel g bs0 pre v,
    let q := {| q_nodeSize := ns; q_listSize := ls; q_frontIndex := fi; q_rearIndex := ri;
                q_frontNode := fn; q_rearNode := Some (length g0 + length bs0')%nat;
                q_heap := heap |} in
    heap = g ++ linked (length g) bs0 ++ [ {| n_block := bl; n_next := None |} ] ->
    (length g + length bs0 = length g0 + length bs0')%nat ->
    Forall (fun b => length b = Z.to_nat ns) bs0 ->
    length bl = Z.to_nat ns ->
    concat bs0 ++ bl = pre ++ l ++ post ->
    Z.of_nat (length pre) < ns ->
    Z.of_nat (length post) = ns - 1 - ri ->
    0 <= ri ->
    (length l < fuel)%nat ->
    q_contains_loop V eqb fuel q (Some (length g)) (Z.of_nat (length pre)) v
    = Ok (l_contains V eqb l v).
Proof.
  induction l as [|x l' IH]; intros fuel g bs0 pre v q Hheap Hlast Hall Hbl Hcat Hpre Hpost Hri Hfuel.
  - (* nothing left: the loop condition fails at the rear cursor *)
    destruct fuel as [|fuel']; [simpl in Hfuel; lia|]. simpl.
    assert (bs0 = []).
    { destruct bs0 as [|b r]; [reflexivity|]. exfalso.
      inversion Hall as [|? ? Hb _]; subst.
      len_of Hcat. lia. }
    subst bs0. rewrite Nat.add_0_r in Hlast. rewrite <- Hlast, Nat.eqb_refl. simpl.
    len_of Hcat.
    destruct (Z.leb_spec (Z.of_nat (length pre)) ri) as [Hle|_]; [lia | reflexivity].
  - destruct fuel as [|fuel']; [simpl in Hfuel; lia|]. simpl in Hfuel.
    cbn [q_contains_loop]. cbn [q_rearNode q_rearIndex q_heap q_nodeSize q].
    assert (Hcond : negb (ptr_eqb (Some (length g)) (Some (length g0 + length bs0')%nat))
                    || (Z.of_nat (length pre) <=? ri) = true).
    { destruct bs0 as [|b r]; simpl.
      - rewrite Nat.add_0_r in Hlast. rewrite <- Hlast, Nat.eqb_refl. simpl.
        len_of Hcat.
        apply Z.leb_le. lia.
      - simpl in Hlast. destruct (Nat.eqb_spec (length g) (length g0 + length bs0')) as [E|_]; [lia | reflexivity]. }
    rewrite Hcond.
    (* the cell under the cursor is [x] *)
    set (q0 := {| q_nodeSize := ns; q_listSize := Z.of_nat (length (x :: l')); q_frontIndex := Z.of_nat (length pre);
                  q_rearIndex := ri; q_frontNode := Some (length g);
                  q_rearNode := Some (length g + length bs0)%nat; q_heap := heap |}).
    assert (HQ : QInv q0 (x :: l')).
    { eapply (QI_chain _ _ g bs0 bl pre post); simpl; auto. }
    destruct (front_cell q0 _ x l' HQ eq_refl) as (nd & EL & EI).
    unfold q0 in EL, EI; cbn [q_heap q_frontNode q_frontIndex] in EL, EI.
    rewrite EL; simpl. rewrite EI; simpl.
    unfold l_contains; simpl. destruct (eqb x v); simpl; [reflexivity|].
    fold (l_contains V eqb l' v).
    destruct (Z.eqb_spec (Z.of_nat (length pre) + 1) ns) as [Eend|Enot].
    + destruct bs0 as [|b r]; simpl in *.
      * (* last block exhausted: n = nil *)
        subst heap.
        pose proof (load_last g [] {| n_block := bl; n_next := None |}) as HL. simpl in HL.
        rewrite Nat.add_0_r in HL. rewrite HL in EL. injection EL as <-. simpl.
        assert (l' = []).
        { apply (f_equal (@length V)) in Hcat. rewrite !app_length in Hcat; simpl in Hcat.
          rewrite app_length in Hcat. destruct l'; [reflexivity | simpl in Hcat; lia]. }
        subst l'. destruct fuel'; [simpl in Hfuel; lia | reflexivity].
      * subst heap. unfold load in EL. rewrite nth_error_mid in EL. injection EL as <-. simpl.
        inversion Hall as [|? ? Hb Hall']; subst.
        destruct (app_eq_len_l b (concat r ++ bl) (pre ++ [x]) (l' ++ post)) as [Eb E2].
        { rewrite <- !app_assoc. simpl. now rewrite <- app_assoc in Hcat. }
        { rewrite app_length; simpl. lia. }
        pose proof (IH fuel' (g ++ [ {| n_block := b; n_next := Some (S (length g)) |} ]) r [] v) as IH'.
        simpl in IH'. rewrite app_length in IH'; simpl in IH'.
        replace (length g + 1)%nat with (S (length g)) in IH' by lia.
        apply IH'; auto; try lia.
        now rewrite <- app_assoc.
    + pose proof (IH fuel' g bs0 (pre ++ [x]) v) as IH'. simpl in IH'.
      rewrite app_length in IH'; simpl in IH'.
      replace (Z.of_nat (length pre + 1)) with (Z.of_nat (length pre) + 1) in IH' by lia.
      apply IH'; auto; try lia.
      now rewrite <- app_assoc.
Qed.

Lemma q_contains_ok q l v : QInv q l -> q_contains V eqb q v = Ok (l_contains V eqb l v).
Proof.
  intros H. destruct q as [ns ls fi ri fn rn heap].
  destruct H as [Hns Hls -> Hfn | g bs0 bl pre post Hns Hls Hheap Hfn Hrn Hall Hbl Hcat Hfi Hfi2 Hpost Hri];
    simpl in *; subst.
  - reflexivity.
  - unfold q_contains; cbn [q_frontNode q_frontIndex].
    apply (q_contains_loop_ok ns _ _ ri _ g bs0 _ bl post Hns l _ g bs0 pre v); auto; try lia.
    unfold q_contains_fuel; cbn [q_heap q_nodeSize].
    assert (Hlen : length (concat bs0 ++ bl) = ((length bs0 + 1) * Z.to_nat ns)%nat).
    { rewrite app_length, (concat_length_uniform _ _ Hall). lia. }
    rewrite Hcat, !app_length in Hlen.
    rewrite !app_length, linked_length; simpl. nia.
Qed.

(** ** One step, whole histories *)

Lemma q_step_sim q l o :
  QInv q l ->
  exists q', q_step V zero eqb q o = Ok (q', snd (lq_step V zero eqb l o)) /\
             QInv q' (fst (lq_step V zero eqb l o)).
Proof.
  intros H. destruct o as [v| | |v| |]; simpl.
  - destruct (q_enqueue_ok q l v H) as (q' & -> & H'). exists q'; auto.
  - destruct (q_dequeue_ok q l H) as (q' & -> & H'). exists q'. destruct l; auto.
  - rewrite (q_peek_ok q l H). exists q. destruct l; auto.
  - rewrite (q_contains_ok q l v H). exists q; auto.
  - exists q. now rewrite (QInv_size _ _ H).
  - exists q. now rewrite (QInv_isEmpty _ _ H).
Qed.

Theorem q_run_refines ns ops :
  1 <= ns ->
  exists q, q_run V zero eqb ns ops = Ok (q, lq_outs V zero eqb ops) /\
            QInv q (lq_final V zero eqb ops).
Proof.
  intros H. unfold q_run, lq_outs, lq_final.
  apply (run_ops_sim (q_step V zero eqb) (lq_step V zero eqb) QInv); [|now apply QInv_new].
  intros s a o HR. now apply q_step_sim.
Qed.

End Queue.
