(** C18 — proofs, part 3: the soft queue (append-only list + cursors). *)
From Algo.C18 Require Import Model Spec Proofs.
From Coq Require Import Lia.
Open Scope Z_scope.

Local Arguments Z.of_nat : simpl never.
Local Arguments Z.to_nat : simpl never.
Local Arguments Z.add : simpl never.
Local Arguments Z.sub : simpl never.

Section Soft.
Variable V : Type.
Variable zero : V.
Variable eqb : V -> V -> bool.

Notation softq := (softq V).
Notation lsoft := (lsoft V).

(** [ls_all a] are all values ever enqueued, [ls_done a] how many were dequeued. *)
Definition SQInv (q : softq) (a : lsoft) : Prop :=
  sq_list q = ls_all V a /\
  sq_front q = Z.of_nat (ls_done V a) /\
  sq_rear q = Z.of_nat (length (ls_all V a)) - 1 /\
  (ls_done V a <= length (ls_all V a))%nat.

Lemma SQInv_new : SQInv (sq_new V) (lsoft_new V).
Proof. repeat split; simpl; lia. Qed.

Lemma idx_nth_error {A} (l : list A) (n : nat) :
  idx l (Z.of_nat n) = match nth_error l n with Some x => Ok x | None => Panic end.
Proof.
  unfold idx. destruct (Z.ltb_spec (Z.of_nat n) 0) as [H|_]; [lia|]. now rewrite Nat2Z.id.
Qed.

Lemma sq_contains_from_spec l i v : sq_contains_from V eqb l i v = first_index V eqb l i v.
Proof. revert i; induction l as [|x t IH]; intros i; simpl; [reflexivity|]. now rewrite IH. Qed.

Lemma sq_front_ok q a :
  SQInv q a ->
  (sq_isEmpty V q = true /\ lsoft_front V zero a = SOValIdx zero (-1) /\
   (length (ls_all V a) <= ls_done V a)%nat) \/
  (sq_isEmpty V q = false /\ (ls_done V a < length (ls_all V a))%nat /\
   exists v, idx (sq_list q) (sq_front q) = Ok v /\
             lsoft_front V zero a = SOValIdx v (sq_front q)).
Proof.
  intros (Hl & Hf & Hr & Hd). unfold sq_isEmpty, lsoft_front. rewrite Hr, Hf, Hl.
  destruct (Z.ltb_spec (Z.of_nat (length (ls_all V a)) - 1) (Z.of_nat (ls_done V a))) as [H|H].
  - left. split; [reflexivity|]. split; [|lia].
    assert (E : nth_error (ls_all V a) (ls_done V a) = None) by (apply nth_error_None; lia).
    now rewrite E.
  - right. split; [reflexivity|]. split; [lia|].
    rewrite idx_nth_error.
    destruct (nth_error (ls_all V a) (ls_done V a)) as [v|] eqn:E.
    + exists v; auto.
    + apply nth_error_None in E. lia.
Qed.

Lemma sq_step_sim q a o :
  SQInv q a ->
  exists q', sq_step V zero eqb q o = Ok (q', snd (lsoft_step V zero eqb a o)) /\
             SQInv q' (fst (lsoft_step V zero eqb a o)).
Proof.
  intros H. pose proof H as (Hl & Hf & Hr & Hd).
  destruct o as [v| | |v| | |]; simpl.
  - (* Enqueue *)
    unfold sq_enqueue. rewrite Hl, app_length. simpl.
    destruct (Z.eqb_spec (Z.of_nat (length (ls_all V a) + 1)) 1) as [E1|E1]; simpl.
    + assert (E0 : length (ls_all V a) = 0%nat) by lia.
      eexists; split; [rewrite E0; reflexivity|].
      repeat split; simpl; rewrite ?app_length; simpl; lia.
    + eexists; split; [do 3 f_equal; lia|].
      repeat split; simpl; rewrite ?app_length; simpl; lia.
  - (* Dequeue *)
    unfold sq_dequeue.
    destruct (sq_front_ok q a H) as [(E & F & L) | (E & L & v & EI & F)]; rewrite E, F.
    + exists q; split; [reflexivity|].
      destruct (Nat.ltb_spec (ls_done V a) (length (ls_all V a))) as [X|_]; [lia|].
      destruct a; exact H.
    + rewrite EI; simpl. eexists; split; [reflexivity|].
      destruct (Nat.ltb_spec (ls_done V a) (length (ls_all V a))) as [_|X]; [|lia].
      repeat split; simpl; auto; lia.
  - (* Peek *)
    unfold sq_peek.
    destruct (sq_front_ok q a H) as [(E & F & L) | (E & L & v & EI & F)]; rewrite E, F.
    + exists q; auto.
    + rewrite EI; simpl. exists q; auto.
  - (* Contains *)
    exists q; split; [|exact H]. unfold sq_contains. now rewrite sq_contains_from_spec, Hl.
  - (* Size *)
    exists q; split; [|exact H]. unfold sq_size. do 3 f_equal. lia.
  - (* IsEmpty *)
    exists q; split; [|exact H]. unfold sq_isEmpty. do 3 f_equal.
    destruct (Z.ltb_spec (sq_rear q) (sq_front q)), (Nat.leb_spec (length (ls_all V a)) (ls_done V a));
      auto; lia.
  - (* Values *)
    exists q; split; [|exact H]. unfold sq_values. now rewrite Hl.
Qed.

Theorem sq_run_from_refines q a ops :
  SQInv q a ->
  exists q', sq_run_from V zero eqb q ops = Ok (q', snd (lsoft_run V zero eqb a ops)) /\
             SQInv q' (fst (lsoft_run V zero eqb a ops)).
Proof.
  intros H. unfold sq_run_from, lsoft_run.
  apply (run_ops_sim (sq_step V zero eqb) (lsoft_step V zero eqb) SQInv); auto.
  intros s b o HR. now apply sq_step_sim.
Qed.

Theorem sq_run_refines ops :
  exists q, sq_run V zero eqb ops = Ok (q, lsoft_outs V zero eqb ops) /\
            SQInv q (fst (lsoft_run V zero eqb (lsoft_new V) ops)).
Proof. apply sq_run_from_refines, SQInv_new. Qed.

(** ** Values() only ever grows at the end: positions are stable *)

Lemma sq_step_values q o q' r :
  sq_step V zero eqb q o = Ok (q', r) -> exists ext, sq_values V q' = sq_values V q ++ ext.
Proof.
  destruct o as [v| | |v| | |]; simpl.
  - unfold sq_enqueue. intros E. exists [v].
    destruct (Z.of_nat (length (sq_list q ++ [v])) =? 1); injection E as <- _; reflexivity.
  - unfold sq_dequeue. destruct (sq_isEmpty V q).
    + intros E; injection E as <- _. exists []. now rewrite app_nil_r.
    + destruct (idx (sq_list q) (sq_front q)); simpl; try discriminate.
      intros E; injection E as <- _. exists []. now rewrite app_nil_r.
  - destruct (sq_peek V zero q); simpl; try discriminate.
    intros E; injection E as <- _. exists []. now rewrite app_nil_r.
  - intros E; injection E as <- _. exists []. now rewrite app_nil_r.
  - intros E; injection E as <- _. exists []. now rewrite app_nil_r.
  - intros E; injection E as <- _. exists []. now rewrite app_nil_r.
  - intros E; injection E as <- _. exists []. now rewrite app_nil_r.
Qed.

Lemma sq_run_from_values ops : forall q q' outs,
  sq_run_from V zero eqb q ops = Ok (q', outs) -> exists ext, sq_values V q' = sq_values V q ++ ext.
Proof.
  unfold sq_run_from.
  induction ops as [|o rest IH]; intros q q' outs; simpl.
  - intros E; injection E as <- _. exists []. now rewrite app_nil_r.
  - destruct (sq_step V zero eqb q o) as [[q1 r1]| |] eqn:E1; simpl; try discriminate.
    destruct (run_ops (sq_step V zero eqb) q1 rest) as [[q2 r2]| |] eqn:E2; simpl; try discriminate.
    intros E; injection E as <- _.
    destruct (IH _ _ _ E2) as (e2 & ->).
    destruct (sq_step_values _ _ _ _ E1) as (e1 & ->).
    exists (e1 ++ e2). now rewrite app_assoc.
Qed.

(** Enqueue on a reachable state returns the position at which Values() holds the value in every
    later state. *)
Theorem sq_enqueue_stable ops1 v ops2 q1 outs1 q2 outs2 :
  sq_run V zero eqb ops1 = Ok (q1, outs1) ->
  sq_run_from V zero eqb (fst (sq_enqueue V q1 v)) ops2 = Ok (q2, outs2) ->
  idx (sq_values V q2) (snd (sq_enqueue V q1 v)) = Ok v.
Proof.
  intros E1 E2.
  destruct (sq_run_refines ops1) as (q & Eq & (Hl & Hf & Hr & Hd)).
  rewrite E1 in Eq. injection Eq as -> _.
  destruct (sq_run_from_values _ _ _ _ E2) as (ext & Hext).
  assert (Hi : snd (sq_enqueue V q v) = Z.of_nat (length (sq_list q)) /\
               sq_values V (fst (sq_enqueue V q v)) = sq_list q ++ [v]).
  { unfold sq_enqueue. rewrite app_length; simpl.
    destruct (Z.eqb_spec (Z.of_nat (length (sq_list q) + 1)) 1) as [X|X]; simpl.
    - split; [lia | reflexivity].
    - split; [rewrite Hr, Hl; lia | reflexivity]. }
  destruct Hi as (-> & Hv). rewrite Hext, Hv, <- app_assoc. simpl.
  now apply idx_mid.
Qed.

(** Dequeue and Peek on a reachable state: either the queue is empty and the answer is
    [(zero, -1)], or the answer is the value Values() holds at the returned index, and that
    index is the front cursor (the number of values dequeued so far). *)
Theorem sq_front_answer ops q outs :
  sq_run V zero eqb ops = Ok (q, outs) ->
  exists r,
    sq_peek V zero q = Ok r /\
    (exists q', sq_dequeue V zero q = Ok (q', r)) /\
    ((sq_isEmpty V q = true /\ r = (zero, -1)) \/
     (sq_isEmpty V q = false /\ 0 <= snd r /\ idx (sq_values V q) (snd r) = Ok (fst r) /\
      snd r = Z.of_nat (ls_done V (fst (lsoft_run V zero eqb (lsoft_new V) ops))))).
Proof.
  intros E1.
  destruct (sq_run_refines ops) as (q0 & Eq & H).
  rewrite E1 in Eq. injection Eq as -> _.
  pose proof H as (Hl & Hf & Hr & Hd).
  unfold sq_peek, sq_dequeue.
  destruct (sq_front_ok q0 _ H) as [(E & F & L) | (E & L & v & EI & F)]; rewrite E.
  - exists (zero, -1). split; [reflexivity|]. split; [eexists; reflexivity|]. left; auto.
  - rewrite EI; simpl. exists (v, sq_front q0). split; [reflexivity|].
    split; [eexists; reflexivity|]. right. simpl. repeat split; auto. lia.
Qed.

(** ** Values() returns a value: whatever the caller does with the result, the queue is unchanged,
    and a history with Values calls inserted anywhere gives the same other outputs *)

Lemma sq_values_step q : sq_step V zero eqb q SValues = Ok (q, SOVals (sq_values V q)).
Proof. reflexivity. Qed.

Lemma sq_values_transparent ops1 ops2 q :
  sq_run_from V zero eqb q (ops1 ++ SValues :: ops2)
  = bind (sq_run_from V zero eqb q ops1) (fun r1 =>
    bind (sq_run_from V zero eqb (fst r1) ops2) (fun r2 =>
      Ok (fst r2, snd r1 ++ SOVals (sq_values V (fst r1)) :: snd r2))).
Proof.
  unfold sq_run_from. rewrite run_ops_app.
  destruct (run_ops (sq_step V zero eqb) q ops1) as [[q1 o1]| |]; simpl; auto.
  destruct (run_ops (sq_step V zero eqb) q1 ops2) as [[q2 o2]| |]; reflexivity.
Qed.

(** ** Contains: the first position holding an [eqb]-equal value, among all values ever enqueued *)

Lemma first_index_spec l v : forall i, 0 <= i ->
  (first_index V eqb l i v = -1 /\ forallb (fun x => negb (eqb x v)) l = true) \/
  (exists k x, first_index V eqb l i v = i + Z.of_nat k /\
               nth_error l k = Some x /\ eqb x v = true /\
               forallb (fun y => negb (eqb y v)) (firstn k l) = true).
Proof.
  induction l as [|x t IH]; intros i Hi; simpl.
  - left; auto.
  - destruct (eqb x v) eqn:E.
    + right. exists 0%nat, x. simpl. repeat split; auto. lia.
    + destruct (IH (i + 1)) as [(A & B) | (k & y & A & B & C & D)]; [lia| |].
      * left. simpl. split; auto.
      * right. exists (S k), y. simpl. rewrite E. simpl. repeat split; auto. lia.
Qed.

Theorem sq_contains_first_position (q : softq) v :
  (sq_contains V eqb q v = -1 /\ forallb (fun x => negb (eqb x v)) (sq_values V q) = true) \/
  (exists k x, sq_contains V eqb q v = Z.of_nat k /\
               nth_error (sq_values V q) k = Some x /\ eqb x v = true /\
               forallb (fun y => negb (eqb y v)) (firstn k (sq_values V q)) = true).
Proof.
  unfold sq_contains, sq_values. rewrite sq_contains_from_spec.
  destruct (first_index_spec (sq_list q) v 0) as [(A & B) | (k & y & A & B & C & D)]; [lia| |].
  - left; auto.
  - right. exists k, y. repeat split; auto.
Qed.

End Soft.
