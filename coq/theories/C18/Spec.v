(** C18 — specification: queue, stack and soft queue as plain lists. *)
From Algo.C18 Require Import Model.
Open Scope Z_scope.

(** generic runner of an abstract (total, deterministic) machine *)
Fixpoint a_run {A P O : Type} (step : A -> P -> A * O) (a : A) (ops : list P) : A * list O :=
  match ops with
  | [] => (a, [])
  | o :: rest =>
      let r := step a o in
      let r' := a_run step (fst r) rest in
      (fst r', snd r :: snd r')
  end.

Section Spec.
Variable V : Type.
Variable zero : V.
Variable eqb : V -> V -> bool.

Definition is_nil {A : Type} (l : list A) : bool := match l with [] => true | _ => false end.

(** observers shared by the two list machines; [l] is the live sequence, next value out first *)
Definition l_peek (l : list V) : out V :=
  match l with [] => OutVal zero false | x :: _ => OutVal x true end.
Definition l_contains (l : list V) (v : V) : bool := existsb (fun x => eqb x v) l.

(** FIFO: the list is the live sequence, front first; Enqueue appends at the end. *)
Definition lq_step (l : list V) (o : op V) : list V * out V :=
  match o with
  | OpAdd v => (l ++ [v], OutNone)
  | OpRemove => (tl l, l_peek l)
  | OpPeek => (l, l_peek l)
  | OpContains v => (l, OutBool (l_contains l v))
  | OpSize => (l, OutInt (Z.of_nat (length l)))
  | OpIsEmpty => (l, OutBool (is_nil l))
  end.

(** LIFO: the list is the live sequence, top first; Push conses. *)
Definition ls_step (l : list V) (o : op V) : list V * out V :=
  match o with
  | OpAdd v => (v :: l, OutNone)
  | OpRemove => (tl l, l_peek l)
  | OpPeek => (l, l_peek l)
  | OpContains v => (l, OutBool (l_contains l v))
  | OpSize => (l, OutInt (Z.of_nat (length l)))
  | OpIsEmpty => (l, OutBool (is_nil l))
  end.

(** outputs of a whole history started on the empty structure *)
Definition lq_outs (ops : list (op V)) : list (out V) := snd (a_run lq_step [] ops).
Definition ls_outs (ops : list (op V)) : list (out V) := snd (a_run ls_step [] ops).
Definition lq_final (ops : list (op V)) : list V := fst (a_run lq_step [] ops).
Definition ls_final (ops : list (op V)) : list V := fst (a_run ls_step [] ops).

(** history projections used by the order theorems *)
Fixpoint added (ops : list (op V)) : list V :=
  match ops with
  | [] => []
  | OpAdd v :: r => v :: added r
  | _ :: r => added r
  end.

(** values handed out by successful Dequeue/Pop calls, in call order *)
Fixpoint removed (ops : list (op V)) (outs : list (out V)) : list V :=
  match ops, outs with
  | OpRemove :: r, OutVal v true :: s => v :: removed r s
  | _ :: r, _ :: s => removed r s
  | _, _ => []
  end.

(** * Soft queue: all values ever enqueued, and the number already dequeued *)
Record lsoft : Type := { ls_all : list V; ls_done : nat }.

Definition lsoft_new : lsoft := {| ls_all := []; ls_done := 0 |}.

Definition lsoft_front (a : lsoft) : sout V :=
  match nth_error (ls_all a) (ls_done a) with
  | Some v => SOValIdx v (Z.of_nat (ls_done a))
  | None => SOValIdx zero (-1)
  end.

Fixpoint first_index (l : list V) (i : Z) (v : V) : Z :=
  match l with
  | [] => -1
  | x :: t => if eqb x v then i else first_index t (i + 1) v
  end.

Definition lsoft_step (a : lsoft) (o : sop V) : lsoft * sout V :=
  match o with
  | SEnqueue v => ({| ls_all := ls_all a ++ [v]; ls_done := ls_done a |},
                   SOIdx (Z.of_nat (length (ls_all a))))
  | SDequeue => ({| ls_all := ls_all a;
                    ls_done := if Nat.ltb (ls_done a) (length (ls_all a))
                               then S (ls_done a) else ls_done a |}, lsoft_front a)
  | SPeek => (a, lsoft_front a)
  | SContains v => (a, SOIdx (first_index (ls_all a) 0 v))
  | SSize => (a, SOIdx (Z.of_nat (length (ls_all a) - ls_done a)))
  | SIsEmpty => (a, SOBool (Nat.leb (length (ls_all a)) (ls_done a)))
  | SValues => (a, SOVals (ls_all a))
  end.

Definition lsoft_run (a : lsoft) (ops : list (sop V)) : lsoft * list (sout V) :=
  a_run lsoft_step a ops.
Definition lsoft_outs (ops : list (sop V)) : list (sout V) := snd (lsoft_run lsoft_new ops).

End Spec.
