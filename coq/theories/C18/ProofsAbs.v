(** C18 — proofs, part 5: the executable abstraction functions of Abs.v return the abstract
    sequence on every state satisfying the representation invariant. *)
From Algo.C18 Require Import Model Spec Abs Proofs ProofsStack.
From Coq Require Import Lia.
Open Scope Z_scope.

Local Arguments Z.of_nat : simpl never.
Local Arguments Z.to_nat : simpl never.
Local Arguments Z.add : simpl never.
Local Arguments Z.sub : simpl never.
Local Arguments Z.mul : simpl never.

Section AbsProofs.
Variable V : Type.

Notation node := (node V).
Notation linked := (linked V).

Lemma q_values_loop_ok ns ls fi ri fn (g0 : list node) (bs0' : list (list V)) (heap : list node)
      (bl post : list V) (Hns : 1 <= ns) :
  forall l fuel g bs0 pre,
    let q := {| q_nodeSize := ns; q_listSize := ls; q_frontIndex := fi; q_rearIndex := ri;
                q_frontNode := fn; q_rearNode := Some (length g0 + length bs0')%nat;
                q_heap := heap |} in
    heap = g ++ linked (length g) bs0 ++ [ {| n_block := bl; n_next := None |} ] ->
    (length g + length bs0 = length g0 + length bs0')%nat ->
    Forall (fun b => length b = Z.to_nat ns) bs0 ->
    length bl = Z.to_nat ns ->
    concat bs0 ++ bl = pre ++ l ++ post ->
    Z.of_nat (length pre) < ns ->
    Z.of_nat (length post) = ns - 1 - ri ->
    0 <= ri ->
    (length l < fuel)%nat ->
    q_values_loop V fuel q (Some (length g)) (Z.of_nat (length pre)) = Ok l.
Proof.
  induction l as [|x l' IH]; intros fuel g bs0 pre q Hheap Hlast Hall Hbl Hcat Hpre Hpost Hri Hfuel.
  - destruct fuel as [|fuel']; [simpl in Hfuel; lia|]. simpl.
    assert (bs0 = []).
    { destruct bs0 as [|b r]; [reflexivity|]. exfalso.
      inversion Hall as [|? ? Hb _]; subst. len_of Hcat. lia. }
    subst bs0. rewrite Nat.add_0_r in Hlast. rewrite <- Hlast, Nat.eqb_refl. simpl.
    len_of Hcat.
    destruct (Z.leb_spec (Z.of_nat (length pre)) ri) as [Hle|_]; [lia | reflexivity].
  - destruct fuel as [|fuel']; [simpl in Hfuel; lia|]. simpl in Hfuel.
    cbn [q_values_loop]. cbn [q_rearNode q_rearIndex q_heap q_nodeSize q].
    assert (Hcond : negb (ptr_eqb (Some (length g)) (Some (length g0 + length bs0')%nat))
                    || (Z.of_nat (length pre) <=? ri) = true).
    { destruct bs0 as [|b r]; simpl.
      - rewrite Nat.add_0_r in Hlast. rewrite <- Hlast, Nat.eqb_refl. simpl.
        len_of Hcat. apply Z.leb_le. lia.
      - simpl in Hlast. destruct (Nat.eqb_spec (length g) (length g0 + length bs0')) as [E|_]; [lia | reflexivity]. }
    rewrite Hcond.
    set (q0 := {| q_nodeSize := ns; q_listSize := Z.of_nat (length (x :: l')); q_frontIndex := Z.of_nat (length pre);
                  q_rearIndex := ri; q_frontNode := Some (length g);
                  q_rearNode := Some (length g + length bs0)%nat; q_heap := heap |}).
    assert (HQ : QInv V q0 (x :: l')).
    { eapply (QI_chain V _ _ g bs0 bl pre post); simpl; auto. }
    destruct (front_cell V q0 _ x l' HQ eq_refl) as (nd & EL & EI).
    unfold q0 in EL, EI; cbn [q_heap q_frontNode q_frontIndex] in EL, EI.
    rewrite EL; simpl. rewrite EI; simpl.
    destruct (Z.eqb_spec (Z.of_nat (length pre) + 1) ns) as [Eend|Enot].
    + destruct bs0 as [|b r]; simpl in *.
      * subst heap.
        pose proof (load_last V g [] {| n_block := bl; n_next := None |}) as HL. simpl in HL.
        rewrite Nat.add_0_r in HL. rewrite HL in EL. injection EL as <-. simpl.
        assert (l' = []) by (destruct l'; [reflexivity | len_of Hcat; lia]).
        subst l'. destruct fuel'; [simpl in Hfuel; lia | reflexivity].
      * subst heap. unfold load in EL. rewrite nth_error_mid in EL. injection EL as <-. simpl.
        inversion Hall as [|? ? Hb Hall']; subst.
        destruct (app_eq_len_l b (concat r ++ bl) (pre ++ [x]) (l' ++ post)) as [Eb E2].
        { rewrite <- !app_assoc. simpl. now rewrite <- app_assoc in Hcat. }
        { rewrite app_length; simpl. lia. }
        pose proof (IH fuel' (g ++ [ {| n_block := b; n_next := Some (S (length g)) |} ]) r []) as IH'.
        simpl in IH'. rewrite app_length in IH'; simpl in IH'.
        replace (length g + 1)%nat with (S (length g)) in IH' by lia.
        change (Z.of_nat 0) with 0 in IH'.
        unfold q. rewrite IH'; auto; try lia.
        now rewrite <- app_assoc.
    + pose proof (IH fuel' g bs0 (pre ++ [x])) as IH'. simpl in IH'.
      rewrite app_length in IH'; simpl in IH'.
      replace (Z.of_nat (length pre + 1)) with (Z.of_nat (length pre) + 1) in IH' by lia.
      unfold q. rewrite IH'; auto; try lia.
      now rewrite <- app_assoc.
Qed.

Theorem q_values_ok q l : QInv V q l -> q_values V q = Ok l.
Proof.
  intros H. destruct q as [ns ls fi ri fn rn heap].
  destruct H as [Hns Hls -> Hfn | g bs0 bl pre post Hns Hls Hheap Hfn Hrn Hall Hbl Hcat Hfi Hfi2 Hpost Hri];
    simpl in *; subst.
  - reflexivity.
  - unfold q_values; cbn [q_frontNode q_frontIndex].
    apply (q_values_loop_ok ns _ _ ri _ g bs0 _ bl post Hns l _ g bs0 pre); auto; try lia.
    unfold q_contains_fuel; cbn [q_heap q_nodeSize].
    assert (Hlen : length (concat bs0 ++ bl) = ((length bs0 + 1) * Z.to_nat ns)%nat).
    { rewrite app_length, (concat_length_uniform _ _ Hall). lia. }
    rewrite Hcat, !app_length in Hlen.
    rewrite !app_length, linked_length; simpl. nia.
Qed.

Lemma s_values_loop_ok ns (Hns : 1 <= ns) :
  forall l fuel n i, SCur V ns n i l -> (length l < fuel)%nat ->
    s_values_loop V fuel ns n i = Ok l.
Proof.
  induction l as [|x l' IH]; intros fuel n i HC Hfuel.
  - destruct fuel as [|fuel']; [simpl in Hfuel; lia|].
    inversion HC as [| b rest rpre post ? ? Hb Hne Hi Hall Hl]; subst; [reflexivity|].
    destruct rpre; [congruence | discriminate].
  - destruct fuel as [|fuel']; [simpl in Hfuel; lia|]. simpl in Hfuel.
    inversion HC as [| b rest rpre post ? ? Hb Hne Hi Hall Hl]; subst.
    destruct rpre as [|y rpre']; [congruence|].
    simpl in Hl. injection Hl as <- ->.
    cbn [s_values_loop].
    replace (idx (rev (x :: rpre') ++ post) i) with (Ok (A:=V) x).
    2:{ symmetry. simpl. rewrite <- app_assoc. simpl. apply idx_mid. rewrite rev_length.
        simpl in Hi. lia. }
    simpl.
    destruct (Z.ltb_spec (i - 1) 0) as [Hlt|Hge].
    + assert (rpre' = []) by (destruct rpre'; [reflexivity | simpl in Hi; lia]). subst rpre'.
      simpl in *. rewrite IH; [reflexivity| |lia].
      destruct rest as [|b2 rest2]; simpl; [constructor|].
      inversion Hall as [|? ? Hb2 Hall2]; subst.
      eapply (SC_cons V ns b2 rest2 (rev b2) []); auto.
      * now rewrite rev_involutive, app_nil_r.
      * intros E. apply (f_equal (@length V)) in E. rewrite rev_length in E. simpl in E. lia.
      * rewrite rev_length. lia.
    + rewrite IH; [reflexivity| |lia].
      eapply (SC_cons V ns _ rest rpre' (x :: post)); auto.
      * simpl. now rewrite <- app_assoc.
      * destruct rpre'; [simpl in Hi; lia | discriminate].
      * simpl in Hi. lia.
Qed.

Theorem s_values_ok s l : SInv V s l -> s_values V s = Ok l.
Proof.
  intros H. destruct s as [ns ls ti tn].
  destruct H as [Hns Hls -> Htn Hti | b rest rpre post Hns Hls Htn Hb Hne Hti Hlb Hall Hl];
    simpl in *; subst.
  - reflexivity.
  - unfold s_values; cbn [s_nodeSize s_topNode s_topIndex].
    apply (s_values_loop_ok ns Hns).
    + eapply (SC_cons V ns _ rest rpre post); auto.
    + unfold s_contains_fuel; cbn [s_nodeSize s_topNode s_topIndex].
      rewrite app_length.
      assert (Hlen : length (concat (map (@rev V) rest)) = (length (map (@rev V) rest) * Z.to_nat ns)%nat).
      { apply concat_length_uniform. apply Forall_map.
        eapply Forall_impl; [|exact Hall]. intros a Ha. now rewrite rev_length. }
      rewrite Hlen, map_length. simpl. nia.
Qed.

End AbsProofs.
