(** C18 — executable abstraction functions: the live sequence read off a concrete state by
    iterating over the blocks exactly as the Go [Contains] loops do (same cursors, same exit
    conditions), collecting instead of comparing.  They are not transcriptions of Go functions
    (the Go queue and stack have no iterator); they make the representation invariant computable:
    ProofsAbs.v proves they return the abstract sequence on every reachable state.  No proofs here. *)
From Algo.C18 Require Import Model.
Open Scope Z_scope.

Section Abs.
Variable V : Type.

(** front to rear *)
Fixpoint q_values_loop (fuel : nat) (q : queue V) (n : option nat) (i : Z) : res (list V) :=
  match fuel with
  | O => Hang
  | S fuel' =>
      match n with
      | None => Ok []
      | Some _ =>
          if negb (ptr_eqb n (q_rearNode q)) || (i <=? q_rearIndex q) then
            bind (load V (q_heap q) n) (fun nd =>
            bind (idx (n_block nd) i) (fun x =>
              let i' := i + 1 in
              bind (if i' =? q_nodeSize q then q_values_loop fuel' q (n_next nd) 0
                    else q_values_loop fuel' q n i')
                   (fun r => Ok (x :: r))))
          else Ok []
      end
  end.

Definition q_values (q : queue V) : res (list V) :=
  q_values_loop (q_contains_fuel V q) q (q_frontNode q) (q_frontIndex q).

(** top to bottom *)
Fixpoint s_values_loop (fuel : nat) (nodeSize : Z) (n : list (list V)) (i : Z) : res (list V) :=
  match fuel with
  | O => Hang
  | S fuel' =>
      match n with
      | [] => Ok []
      | b :: rest =>
          bind (idx b i) (fun x =>
            let i' := i - 1 in
            bind (if i' <? 0 then s_values_loop fuel' nodeSize rest (nodeSize - 1)
                  else s_values_loop fuel' nodeSize n i')
                 (fun r => Ok (x :: r)))
      end
  end.

Definition s_values (s : stack V) : res (list V) :=
  s_values_loop (s_contains_fuel V s) (s_nodeSize s) (s_topNode s) (s_topIndex s).

End Abs.
