(** C18 — the pre-fix queue code (Unfixed.v) panics for EVERY block size >= 1 on the history
    "fill exactly one block, drain it, enqueue once more" (defect D18). Proof by symbolic
    execution of that family of histories. *)
From Algo.C18 Require Import Model Unfixed Proofs.
From Coq Require Import Lia.
Open Scope Z_scope.

Local Arguments Z.of_nat : simpl never.
Local Arguments Z.to_nat : simpl never.
Local Arguments Z.add : simpl never.
Local Arguments Z.sub : simpl never.

Section D18.
Variable V : Type.
Variable zero : V.
Variable eqb : V -> V -> bool.

(** one block holding [vs] in its first cells; [j] values already dequeued *)
Definition one_block (ns : nat) (vs : list V) (j : nat) (front : option nat) : queue V :=
  {| q_nodeSize := Z.of_nat ns;
     q_listSize := Z.of_nat (length vs) - Z.of_nat j;
     q_frontIndex := Z.of_nat j;
     q_rearIndex := Z.of_nat (length vs) - 1;
     q_frontNode := front;
     q_rearNode := Some 0%nat;
     q_heap := [ {| n_block := vs ++ repeat zero (ns - length vs); n_next := None |} ] |}.

Lemma unfixed_first ns v : (1 <= ns)%nat ->
  q_enqueue_unfixed V zero (q_new V (Z.of_nat ns)) v = Ok (one_block ns [v] 0 (Some 0%nat)).
Proof.
  intros H. unfold q_enqueue_unfixed, new_node; simpl.
  rewrite (make_ok zero (Z.of_nat ns)) by lia. simpl.
  unfold q_write_rear; simpl. unfold one_block; simpl.
  replace (Z.to_nat (Z.of_nat ns) - 1)%nat with (ns - 1)%nat by lia.
  reflexivity.
Qed.

Lemma unfixed_fill ns vs v : vs <> [] -> (length vs < ns)%nat ->
  q_enqueue_unfixed V zero (one_block ns vs 0 (Some 0%nat)) v
  = Ok (one_block ns (vs ++ [v]) 0 (Some 0%nat)).
Proof.
  intros Hne Hlt. unfold q_enqueue_unfixed; simpl.
  destruct (Z.eqb_spec (Z.of_nat (length vs) - 1 + 1) (Z.of_nat ns)) as [E|_]; [lia|].
  unfold q_write_rear; simpl.
  replace (ns - length vs)%nat with (S (ns - length vs - 1)) by lia. simpl.
  rewrite (store_mid vs _ zero) by lia. simpl.
  unfold one_block. rewrite app_length; simpl.
  replace (ns - (length vs + 1))%nat with (ns - length vs - 1)%nat by lia.
  rewrite <- app_assoc; simpl.
  f_equal. f_equal; lia.
Qed.

(** filling: the first [k >= 1] enqueues of values [vs] *)
Lemma unfixed_fill_all ns : forall vs2 vs1, vs1 <> [] -> (length vs1 + length vs2 <= ns)%nat ->
  exists outs,
    run_ops (q_step_unfixed V zero eqb) (one_block ns vs1 0 (Some 0%nat)) (map OpAdd vs2)
    = Ok (one_block ns (vs1 ++ vs2) 0 (Some 0%nat), outs).
Proof.
  induction vs2 as [|v r IH]; intros vs1 Hne Hlen; simpl.
  - rewrite app_nil_r. eexists; reflexivity.
  - simpl in Hlen. rewrite unfixed_fill by (auto; lia). simpl.
    destruct (IH (vs1 ++ [v])) as (outs & E).
    { destruct vs1; discriminate. }
    { rewrite app_length; simpl; lia. }
    rewrite E; simpl. rewrite <- app_assoc; simpl. eexists; reflexivity.
Qed.

Lemma deq_step ns vs j : length vs = ns -> (j + 1 < ns)%nat ->
  exists x, q_dequeue V zero (one_block ns vs j (Some 0%nat))
            = Ok (one_block ns vs (j + 1) (Some 0%nat), (x, true)).
Proof.
  intros Hl Hj. unfold q_dequeue, q_isEmpty; simpl.
  destruct (Z.eqb_spec (Z.of_nat (length vs) - Z.of_nat j) 0) as [E|_]; [lia|].
  rewrite Hl, Nat.sub_diag, app_nil_r. simpl.
  destruct (nth_error vs j) as [x|] eqn:En; [|apply nth_error_None in En; lia].
  exists x. unfold idx. destruct (Z.ltb_spec (Z.of_nat j) 0) as [?|_]; [lia|].
  rewrite Nat2Z.id, En. simpl.
  destruct (Z.eqb_spec (Z.of_nat j + 1) (Z.of_nat ns)) as [E|_]; [lia|].
  unfold one_block. rewrite Hl, Nat.sub_diag, app_nil_r. simpl.
  do 2 f_equal. f_equal; lia.
Qed.

Lemma deq_last ns vs j : length vs = ns -> (j + 1 = ns)%nat ->
  exists x, q_dequeue V zero (one_block ns vs j (Some 0%nat))
            = Ok ({| q_nodeSize := Z.of_nat ns; q_listSize := 0; q_frontIndex := 0;
                     q_rearIndex := Z.of_nat ns - 1; q_frontNode := None;
                     q_rearNode := Some 0%nat;
                     q_heap := [ {| n_block := vs; n_next := None |} ] |}, (x, true)).
Proof.
  intros Hl Hj. unfold q_dequeue, q_isEmpty; simpl.
  destruct (Z.eqb_spec (Z.of_nat (length vs) - Z.of_nat j) 0) as [E|_]; [lia|].
  rewrite Hl, Nat.sub_diag, app_nil_r. simpl.
  destruct (nth_error vs j) as [x|] eqn:En; [|apply nth_error_None in En; lia].
  exists x. unfold idx. destruct (Z.ltb_spec (Z.of_nat j) 0) as [?|_]; [lia|].
  rewrite Nat2Z.id, En. simpl.
  destruct (Z.eqb_spec (Z.of_nat j + 1) (Z.of_nat ns)) as [_|E]; [|lia].
  do 2 f_equal. f_equal; lia.
Qed.

Lemma drain_all ns vs : length vs = ns -> forall k j, (j + k = ns)%nat -> (1 <= k)%nat ->
  exists outs,
    run_ops (q_step_unfixed V zero eqb) (one_block ns vs j (Some 0%nat)) (repeat OpRemove k)
    = Ok ({| q_nodeSize := Z.of_nat ns; q_listSize := 0; q_frontIndex := 0;
             q_rearIndex := Z.of_nat ns - 1; q_frontNode := None; q_rearNode := Some 0%nat;
             q_heap := [ {| n_block := vs; n_next := None |} ] |}, outs).
Proof.
  intros Hl. induction k as [|k IH]; intros j Hjk Hk; [lia|].
  change (repeat (@OpRemove V) (S k)) with (@OpRemove V :: repeat OpRemove k).
  cbn [run_ops q_step_unfixed q_step].
  destruct k as [|k'].
  - destruct (deq_last ns vs j Hl) as (x & E); [lia|]. rewrite E; simpl. eexists; reflexivity.
  - destruct (deq_step ns vs j Hl) as (x & E); [lia|]. rewrite E. cbn [bind fst snd].
    destruct (IH (j + 1)%nat) as (outs & E2); [lia | lia |].
    rewrite E2. cbn [bind fst snd]. eexists; reflexivity.
Qed.

(** the enqueue after the boundary drain writes at index [nodeSize] of the fresh block *)
Lemma unfixed_refill_panics ns vs v : (1 <= ns)%nat ->
  q_enqueue_unfixed V zero
    {| q_nodeSize := Z.of_nat ns; q_listSize := 0; q_frontIndex := 0;
       q_rearIndex := Z.of_nat ns - 1; q_frontNode := None; q_rearNode := Some 0%nat;
       q_heap := [ {| n_block := vs; n_next := None |} ] |} v = Panic.
Proof.
  intros H. unfold q_enqueue_unfixed, new_node; simpl.
  rewrite (make_ok zero (Z.of_nat ns)) by lia. simpl.
  unfold q_write_rear; simpl. unfold store.
  destruct (Z.ltb_spec (Z.of_nat ns - 1 + 1) 0) as [?|_]; [lia|]. simpl.
  rewrite repeat_length.
  destruct (Z.leb_spec (Z.of_nat (S (Z.to_nat (Z.of_nat ns) - 1))) (Z.of_nat ns - 1 + 1)) as [_|?]; [|lia].
  reflexivity.
Qed.

Theorem unfixed_panics_for_every_block_size ns (vs : list V) (v : V) :
  (1 <= ns)%nat -> length vs = ns ->
  q_run_unfixed V zero eqb (Z.of_nat ns) (map OpAdd vs ++ repeat OpRemove ns ++ [OpAdd v]) = Panic.
Proof.
  intros Hns Hl. unfold q_run_unfixed.
  destruct vs as [|v0 vs']; [simpl in Hl; lia|].
  rewrite run_ops_app. simpl map. cbn [run_ops].
  cbn [q_step_unfixed]. rewrite unfixed_first by lia. cbn [bind fst snd].
  destruct (unfixed_fill_all ns vs' [v0]) as (o1 & E1); [discriminate | simpl in *; lia |].
  rewrite E1. cbn [bind fst snd].
  rewrite run_ops_app.
  destruct (drain_all ns ([v0] ++ vs') Hl ns 0%nat) as (o2 & E2); [lia | lia |].
  rewrite E2. cbn [bind fst snd run_ops q_step_unfixed].
  rewrite unfixed_refill_panics by lia. reflexivity.
Qed.

End D18.
