(** C18 — the defect D18, on the model.  [q_enqueue_unfixed] is [q_enqueue] as list/queue.go read
    BEFORE fix 713e226: in the [frontNode == nil] branch only [rearNode] was re-pointed and
    [rearIndex] kept its incremented value.  The current code is modelled in Model.v; this file
    only documents what the fix repaired and shows that the model tells the two apart. *)
From Algo.C18 Require Import Model.
Open Scope Z_scope.

Section Unfixed.
Variable V : Type.
Variable zero : V.
Variable eqb : V -> V -> bool.

Definition q_enqueue_unfixed (q : queue V) (val : V) : res (queue V) :=
  let ls := q_listSize q + 1 in
  let ri := q_rearIndex q + 1 in
  bind
    (match q_frontNode q with
     | None =>
         (* q.frontNode, q.frontIndex = newArrayNode(q.nodeSize, nil), 0
            q.rearNode = q.frontNode                          <- rearIndex NOT reset *)
         bind (new_node V zero (q_heap q) (q_nodeSize q) None) (fun ha =>
           Ok {| q_nodeSize := q_nodeSize q; q_listSize := ls;
                 q_frontIndex := 0; q_rearIndex := ri;
                 q_frontNode := Some (snd ha); q_rearNode := Some (snd ha);
                 q_heap := fst ha |})
     | Some _ =>
         if ri =? q_nodeSize q then
           bind (new_node V zero (q_heap q) (q_nodeSize q) None) (fun ha =>
             match q_rearNode q with
             | None => Panic
             | Some r =>
                 bind (load V (fst ha) (Some r)) (fun nd =>
                   Ok {| q_nodeSize := q_nodeSize q; q_listSize := ls;
                         q_frontIndex := q_frontIndex q; q_rearIndex := 0;
                         q_frontNode := q_frontNode q; q_rearNode := Some (snd ha);
                         q_heap := upd (fst ha) r
                                     {| n_block := n_block nd; n_next := Some (snd ha) |} |})
             end)
         else
           Ok {| q_nodeSize := q_nodeSize q; q_listSize := ls;
                 q_frontIndex := q_frontIndex q; q_rearIndex := ri;
                 q_frontNode := q_frontNode q; q_rearNode := q_rearNode q;
                 q_heap := q_heap q |}
     end)
    (fun q' => q_write_rear V q' val).

Definition q_step_unfixed (q : queue V) (o : op V) : res (queue V * out V) :=
  match o with
  | OpAdd v => bind (q_enqueue_unfixed q v) (fun q' => Ok (q', OutNone))
  | _ => q_step V zero eqb q o
  end.

Definition q_run_unfixed (nodeSize : Z) (ops : list (op V)) : res (queue V * list (out V)) :=
  run_ops q_step_unfixed (q_new V nodeSize) ops.

End Unfixed.

(** fill exactly one block, drain it, enqueue once more *)
Definition d18_witness (ns : nat) : list (op Z) :=
  map (fun i => OpAdd (Z.of_nat i)) (seq 1 ns) ++ repeat OpRemove ns ++ [OpAdd 0].

Definition is_panic {A : Type} (r : res A) : bool := match r with Panic => true | _ => false end.
Definition is_ok {A : Type} (r : res A) : bool := match r with Ok _ => true | _ => false end.

(** the pre-fix code panics on the witness for each of these block sizes; the current code does not *)
Lemma d18_unfixed_panics_fixed_does_not :
  forallb (fun ns => is_panic (q_run_unfixed Z 0 Z.eqb (Z.of_nat ns) (d18_witness ns)) &&
                     is_ok (q_run Z 0 Z.eqb (Z.of_nat ns) (d18_witness ns)))
          [1; 2; 3; 4; 5; 7; 8; 64]%nat = true.
Proof. vm_compute. reflexivity. Qed.
