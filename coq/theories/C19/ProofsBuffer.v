(** C19 — the buffer invariant: the two halves hold a window of the source, the sentinel marks
    its end, and [next] hands over the source byte by byte for every reader oracle. *)
Require Import NArith ZArith List Bool Lia.
Import ListNotations.
From Algo.C19 Require Import Model ProofsReader.

(* ------------------------------------------------------------------ lists *)

Lemma nth_firstn_lt : forall (A : Type) (n k : nat) (l : list A) d,
  (k < n)%nat -> nth k (firstn n l) d = nth k l d.
Proof.
  induction n as [|n IH]; intros k l d Hk; [lia|].
  destruct l as [|x l]; [destruct k; reflexivity|].
  destruct k as [|k]; [reflexivity|]. simpl. apply IH. lia.
Qed.

Lemma nth_skipn_plus : forall (A : Type) (a k : nat) (l : list A) d,
  nth k (skipn a l) d = nth (a + k) l d.
Proof.
  induction a as [|a IH]; intros k l d; [reflexivity|].
  destruct l as [|x l]; [destruct k; reflexivity|]. simpl. apply IH.
Qed.

Lemma length_bwrite : forall b low bs, (low + length bs <= length b)%nat ->
  length (bwrite b low bs) = length b.
Proof.
  intros. unfold bwrite. rewrite !app_length, firstn_length, skipn_length. lia.
Qed.

Lemma nth_bwrite_in : forall b low bs k d, (low + length bs <= length b)%nat -> (k < length bs)%nat ->
  nth (low + k) (bwrite b low bs) d = nth k bs d.
Proof.
  intros b low bs k d Hl Hk. unfold bwrite.
  rewrite app_nth2 by (rewrite firstn_length; lia).
  rewrite firstn_length, Nat.min_l by lia.
  replace (low + k - low)%nat with k by lia. apply app_nth1, Hk.
Qed.

Lemma nth_bwrite_out : forall b low bs j d, (low + length bs <= length b)%nat ->
  (j < low \/ low + length bs <= j)%nat -> nth j (bwrite b low bs) d = nth j b d.
Proof.
  intros b low bs j d Hl [Hj|Hj]; unfold bwrite.
  - rewrite app_nth1 by (rewrite firstn_length; lia). apply nth_firstn_lt, Hj.
  - rewrite app_nth2 by (rewrite firstn_length; lia).
    rewrite firstn_length, Nat.min_l by lia.
    rewrite app_nth2 by lia. rewrite nth_skipn_plus. f_equal. lia.
Qed.

Lemma length_bset : forall b i v, (i < length b)%nat -> length (bset b i v) = length b.
Proof.
  intros. unfold bset. rewrite app_length, firstn_length. cbn [length]. rewrite skipn_length. lia.
Qed.

Lemma nth_bset_eq : forall b i v d, (i < length b)%nat -> nth i (bset b i v) d = v.
Proof.
  intros. unfold bset. rewrite app_nth2 by (rewrite firstn_length; lia).
  rewrite firstn_length, Nat.min_l by lia. rewrite Nat.sub_diag. reflexivity.
Qed.

Lemma nth_bset_neq : forall b i j v d, (i < length b)%nat -> j <> i -> nth j (bset b i v) d = nth j b d.
Proof.
  intros b i j v d Hi Hj. unfold bset.
  destruct (Nat.lt_ge_cases j i).
  - rewrite app_nth1 by (rewrite firstn_length; lia). apply nth_firstn_lt. assumption.
  - rewrite app_nth2 by (rewrite firstn_length; lia).
    rewrite firstn_length, Nat.min_l by lia.
    destruct (j - i)%nat as [|q] eqn:E; [lia|]. cbn [nth].
    rewrite nth_skipn_plus. f_equal. lia.
Qed.

(* ------------------------------------------------------------------ load *)

(** loadFirst / loadSecond for every oracle: the half receives the next [n] bytes of the source
    (or what is left, followed by the sentinel), the other half is untouched. *)
Lemma load_nat : forall (S : list N) (low : nat) (i : input) (a : nat),
  (1 <= hn i)%nat -> length (buff i) = (2 * hn i)%nat -> (low = 0 \/ low = hn i)%nat ->
  rem (src i) = skipn a S ->
  exists e b r',
    load low i = Ok (e, set_src (set_buff i b) r') /\
    length b = (2 * hn i)%nat /\
    (forall k, (k < hn i)%nat -> (a + k < length S)%nat -> nth (low + k) b 0%N = nth (a + k) S 0%N) /\
    (forall j, (j < low \/ low + hn i <= j)%nat -> nth j b 0%N = nth j (buff i) 0%N) /\
    ((length S < a + hn i)%nat -> (a <= length S)%nat -> nth (low + (length S - a)) b 0%N = 0%N) /\
    (e = true <-> (length S <= a)%nat) /\
    rem r' = skipn (a + hn i) S.
Proof.
  intros S low i a Hn Hlen Hlow Hrem. unfold load.
  set (n := hn i) in *.
  destruct (readFull_spec (length (decs (src i)) + n + 1) (src i) n []) as (r' & Hrf & Hrem' & _); [lia|].
  rewrite Hrf. clear Hrf.
  set (rm := rem (src i)) in *.
  assert (Hlrm : length rm = (length S - a)%nat) by (rewrite Hrem, skipn_length; reflexivity).
  set (bs := fst (full_result [] rm n)).
  assert (Hbs : bs = firstn n rm).
  { unfold bs, full_result. destruct (Nat.leb_spec n (length rm)); cbn [fst app].
    - reflexivity.
    - symmetry. apply firstn_all2. lia. }
  assert (Hlbs : length bs = Nat.min n (length S - a)) by (rewrite Hbs, firstn_length, Hlrm; reflexivity).
  assert (Hst : (match snd (full_result [] rm n) with REmpty => true | _ => false end) = true <-> (length S <= a)%nat).
  { unfold full_result. destruct (Nat.leb_spec n (length rm)); cbn [snd app].
    - split; [discriminate|lia].
    - destruct rm as [|x l]; simpl in *; split; try discriminate; try lia; reflexivity. }
  assert (Hfit : (low + length bs <= length (buff i))%nat) by (rewrite Hlen; fold n; lia).
  assert (Hnth_bs : forall k, (k < length bs)%nat -> nth k bs 0%N = nth (a + k) S 0%N).
  { intros k Hk. rewrite Hbs. rewrite nth_firstn_lt by lia. rewrite Hrem. apply nth_skipn_plus. }
  exists (match snd (full_result [] rm n) with REmpty => true | _ => false end).
  destruct (Nat.ltb_spec (length bs) n) as [Hshort|Hfull].
  - (* the half is not full: sentinel after the last byte *)
    set (b1 := bwrite (buff i) low bs).
    assert (Hl1 : length b1 = (2 * n)%nat) by (unfold b1; rewrite length_bwrite; assumption).
    exists (bset b1 (low + length bs) 0%N), r'.
    split; [reflexivity|]. split; [rewrite length_bset; lia|].
    split; [|split; [|split; [|split]]].
    + intros k Hk Hak. assert (k < length bs)%nat by lia.
      rewrite nth_bset_neq by lia. unfold b1. rewrite nth_bwrite_in by assumption. apply Hnth_bs. assumption.
    + intros j Hj. rewrite nth_bset_neq by lia. unfold b1. apply nth_bwrite_out; [assumption|lia].
    + intros H1 H2. replace (length S - a)%nat with (length bs) by lia. apply nth_bset_eq. lia.
    + exact Hst.
    + rewrite Hrem', Hrem, skipn_plus. reflexivity.
  - exists (bwrite (buff i) low bs), r'.
    split; [reflexivity|]. split; [rewrite length_bwrite; assumption|].
    split; [|split; [|split; [|split]]].
    + intros k Hk Hak. rewrite nth_bwrite_in by (try assumption; lia). apply Hnth_bs. lia.
    + intros j Hj. apply nth_bwrite_out; [assumption|lia].
    + intros H1 H2. lia.
    + exact Hst.
    + rewrite Hrem', Hrem, skipn_plus. reflexivity.
Qed.

(* ------------------------------------------------------------------ the invariant *)

Local Open Scope Z_scope.

Definition bz (b : list N) (z : Z) : N := nth (Z.to_nat z) b 0%N.
Definition slen (S : list N) : Z := Z.of_nat (length S).
Definition nonul (S : list N) : Prop := Forall (fun b => b <> 0%N) S.

Lemma bget_some : forall b z, 0 <= z < zlen b -> bget b z = Some (bz b z).
Proof.
  intros b z Hz. unfold bget, zlen in *.
  destruct (Z.leb_spec 0 z); [|lia]. destruct (Z.ltb_spec z (Z.of_nat (length b))); [|lia]. reflexivity.
Qed.

Lemma nonul_bz : forall S z, nonul S -> 0 <= z < slen S -> bz S z <> 0%N.
Proof.
  intros S z Hn Hz. unfold nonul in Hn. rewrite Forall_forall in Hn. apply Hn.
  unfold bz. apply nth_In. unfold slen in Hz. lia.
Qed.

Definition newest (i : input) (lo0 lo1 : Z) : Z := if secondLoaded i then lo1 else lo0.
Definition older (i : input) (lo0 lo1 : Z) : Z := if secondLoaded i then lo0 else lo1.
Definition nbase (i : input) : Z := if secondLoaded i then hnZ i else 0.

(** [F] = number of source bytes before forward; [lo0]/[lo1] = source offset of the first byte
    of the first/second half (the older half may lie before the source: the second half before
    its first load). *)
Record BCore (S : list N) (i : input) (F lo0 lo1 : Z) : Prop := mkBCore {
  bi_n : 1 <= hnZ i;
  bi_len : zlen (buff i) = 2 * hnZ i;
  bi_order : if secondLoaded i then lo1 = lo0 + hnZ i else lo0 = lo1 + hnZ i;
  bi_new : 0 <= newest i lo0 lo1 <= slen S;
  bi_rem : rem (src i) = skipn (Z.to_nat (newest i lo0 lo1 + hnZ i)) S;
  bi_h0 : forall k, 0 <= k < hnZ i -> 0 <= lo0 + k < slen S -> bz (buff i) k = bz S (lo0 + k);
  bi_h1 : forall k, 0 <= k < hnZ i -> 0 <= lo1 + k < slen S -> bz (buff i) (hnZ i + k) = bz S (lo1 + k);
  bi_sent : slen S < newest i lo0 lo1 + hnZ i ->
            bz (buff i) (nbase i + (slen S - newest i lo0 lo1)) = 0%N;
  bi_fwr : 0 <= forward i < 2 * hnZ i;
  bi_fw : F = if forward i <? hnZ i then lo0 + forward i else lo1 + forward i - hnZ i;
  bi_F : 0 <= F <= slen S /\ F < newest i lo0 lo1 + hnZ i /\ older i lo0 lo1 <= F
}.

(** io.EOF is detected ahead of time: the sticky error is set exactly when forward is at the end. *)
Definition BInv (S : list N) (i : input) (F lo0 lo1 : Z) : Prop :=
  BCore S i F lo0 lo1 /\ (err i = true <-> F = slen S).

(** [BCore] only looks at the buffer, the reader, the load flag, forward and N. *)
Lemma BCore_ext : forall S i i' F lo0 lo1,
  hn i' = hn i -> buff i' = buff i -> src i' = src i -> secondLoaded i' = secondLoaded i ->
  forward i' = forward i -> BCore S i F lo0 lo1 -> BCore S i' F lo0 lo1.
Proof.
  intros S i i' F lo0 lo1 H1 H2 H3 H4 H5 [A B C D E G H I J K M].
  unfold newest, older, nbase, hnZ in *.
  constructor; unfold newest, older, nbase, hnZ; rewrite ?H1, ?H2, ?H3, ?H4, ?H5; assumption.
Qed.

(** The fields [next] does not touch. *)
Definition same_rest (i i' : input) : Prop :=
  hn i' = hn i /\ lexemeBegin i' = lexemeBegin i /\ offset i' = offset i /\ line i' = line i /\
  column i' = column i /\ nextColumn i' = nextColumn i /\ runeSizes i' = runeSizes i /\
  lastColumns i' = lastColumns i.

Lemma same_rest_refl : forall i, same_rest i i.
Proof. intro i. repeat split. Qed.

Lemma same_rest_trans : forall a b c, same_rest a b -> same_rest b c -> same_rest a c.
Proof.
  unfold same_rest. intros a b c H1 H2.
  destruct H1 as (?&?&?&?&?&?&?&?), H2 as (?&?&?&?&?&?&?&?). repeat split; congruence.
Qed.

(** The byte at the absolute offset [a] of the window. *)
Definition wbyte (i : input) (lo0 lo1 a : Z) : N :=
  if (lo0 <=? a) && (a <? lo0 + hnZ i) then bz (buff i) (a - lo0) else bz (buff i) (hnZ i + (a - lo1)).

Lemma load_Z : forall (S : list N) (low : nat) (i : input) (newlo : Z),
  1 <= hnZ i -> zlen (buff i) = 2 * hnZ i -> (low = 0 \/ low = hn i)%nat -> 0 <= newlo ->
  rem (src i) = skipn (Z.to_nat newlo) S ->
  exists e b r',
    load low i = Ok (e, set_src (set_buff i b) r') /\
    zlen b = 2 * hnZ i /\
    (forall k, 0 <= k < hnZ i -> newlo + k < slen S -> bz b (Z.of_nat low + k) = bz S (newlo + k)) /\
    (forall j, 0 <= j -> (j < Z.of_nat low \/ Z.of_nat low + hnZ i <= j) -> bz b j = bz (buff i) j) /\
    (slen S < newlo + hnZ i -> newlo <= slen S -> bz b (Z.of_nat low + (slen S - newlo)) = 0%N) /\
    (e = true <-> slen S <= newlo) /\
    rem r' = skipn (Z.to_nat (newlo + hnZ i)) S.
Proof.
  intros S low i newlo Hn Hlen Hlow Hnl Hrem. unfold hnZ, zlen, slen in *.
  destruct (load_nat S low i (Z.to_nat newlo)) as (e & b & r' & Hl & Hb & Hin & Hout & Hs & He & Hr);
    try assumption; try lia.
  exists e, b, r'. split; [exact Hl|]. split; [lia|].
  split; [|split; [|split; [|split]]].
  - intros k Hk Hlt. unfold bz.
    replace (Z.to_nat (Z.of_nat low + k)) with (low + Z.to_nat k)%nat by lia.
    replace (Z.to_nat (newlo + k)) with (Z.to_nat newlo + Z.to_nat k)%nat by lia.
    apply Hin; lia.
  - intros j Hj0 Hj. unfold bz. apply Hout. lia.
  - intros H1 H2. unfold bz.
    replace (Z.to_nat (Z.of_nat low + (Z.of_nat (length S) - newlo))) with (low + (length S - Z.to_nat newlo))%nat by lia.
    apply Hs; lia.
  - rewrite He. lia.
  - rewrite Hr. f_equal. lia.
Qed.
