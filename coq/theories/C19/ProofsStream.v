(** C19 — [New] establishes the buffer invariant, [Next] decodes the next rune of the source
    exactly as the decoder [dec] does on the remaining bytes, and the stream theorem. *)
Require Import NArith ZArith List Bool Lia.
Import ListNotations.
From Algo.Gen Require Import C19_Tables.
From Algo.C19 Require Import Model Spec ProofsUtf8 ProofsReader ProofsBuffer ProofsNext.
Local Open Scope Z_scope.

(* ------------------------------------------------------------------ the remaining bytes *)

Definition view (S : list N) (F : Z) : list N := skipn (Z.to_nat F) S.

Lemma skipn_cons_nth : forall (A : Type) (k : nat) (l : list A) d,
  (k < length l)%nat -> skipn k l = nth k l d :: skipn (Datatypes.S k) l.
Proof.
  induction k as [|k IH]; intros l d Hk; destruct l as [|x l]; simpl in *; try lia.
  - reflexivity.
  - apply IH. lia.
Qed.

Lemma view_nil : forall S F, 0 <= F -> F = slen S -> view S F = [].
Proof. intros S F H0 H. unfold view, slen in *. apply skipn_all2. lia. Qed.

Lemma view_cons : forall S F, 0 <= F < slen S -> view S F = bz S F :: view S (F + 1).
Proof.
  intros S F H. unfold view, bz, slen in *.
  rewrite (skipn_cons_nth _ (Z.to_nat F) S 0%N) by lia.
  f_equal. f_equal. lia.
Qed.

Lemma view_skip : forall S F k, 0 <= F -> 0 <= k -> view S (F + k) = skipn (Z.to_nat k) (view S F).
Proof.
  intros. unfold view. rewrite skipn_plus. f_equal. lia.
Qed.

(* ------------------------------------------------------------------ New *)

Lemma new_pre : forall S n ds d, (1 <= n)%nat ->
  let i0 := mkInput n (repeat 0%N (2 * n)) (mkReader S ds d) false 0 0 0 1 1 1 [] [] false in
  1 <= hnZ i0 /\ zlen (buff i0) = 2 * hnZ i0 /\ (0 = 0 \/ 0 = hn i0)%nat /\ 0 <= 0 /\
  rem (src i0) = skipn (Z.to_nat 0) S.
Proof.
  intros S n ds d Hn i0. unfold hnZ, zlen, i0; prj. rewrite repeat_length.
  repeat split; try lia; try (left; reflexivity).
Qed.

Lemma new_empty : forall n ds d, (1 <= n)%nat -> new n (mkReader [] ds d) = Ok None.
Proof.
  intros n ds d Hn. unfold new.
  destruct (new_pre [] n ds d Hn) as (P1 & P2 & P3 & P4 & P5).
  destruct (load_Z [] 0%nat _ 0 P1 P2 P3 P4 P5) as (e & b & r' & Hl & _ & _ & _ & _ & Hee & _).
  rewrite Hl. cbn [bind].
  assert (e = true) by (apply Hee; unfold slen; simpl; lia). subst e. reflexivity.
Qed.

Lemma new_spec : forall S n ds d, (1 <= n)%nat -> S <> [] ->
  exists i0,
    new n (mkReader S ds d) = Ok (Some i0) /\
    BInv S i0 0 0 (- Z.of_nat n) /\
    hn i0 = n /\ lexemeBegin i0 = 0 /\ offset i0 = 0 /\ line i0 = 1 /\ column i0 = 1 /\
    nextColumn i0 = 1 /\ runeSizes i0 = [] /\ lastColumns i0 = [] /\ secondLoaded i0 = false.
Proof.
  intros S n ds d Hn HS. unfold new.
  destruct (new_pre S n ds d Hn) as (P1 & P2 & P3 & P4 & P5).
  assert (Hls : 1 <= slen S) by (unfold slen; destruct S; [contradiction|simpl; lia]).
  destruct (load_Z S 0%nat _ 0 P1 P2 P3 P4 P5) as (e & b & r' & Hl & Hzb & Hin & Hout & Hs & Hee & Hr').
  rewrite Hl. cbn [bind].
  set (i0 := mkInput n (repeat 0%N (2 * n)) (mkReader S ds d) false 0 0 0 1 1 1 [] [] false) in *.
  assert (e = false).
  { destruct e; [|reflexivity]. exfalso. assert (slen S <= 0) by (apply Hee; reflexivity). lia. }
  subst e.
  exists (set_src (set_buff i0 b) r'). split; [reflexivity|].
  unfold i0, hnZ in *; prj.
  split; [|repeat split].
  split.
  + constructor; unfold newest, older, nbase, hnZ; prj; try lia; try exact Hzb.
    * rewrite Hr'. reflexivity.
    * intros k Hk1 Hk2. replace k with (Z.of_nat 0 + k) at 1 by lia. apply Hin; lia.
    * intros Hlt. replace (0 + (slen S - 0)) with (Z.of_nat 0 + (slen S - 0)) by lia. apply Hs; lia.
    * destruct (Z.ltb_spec 0 (Z.of_nat n)); lia.
  + prj. split; [discriminate|lia].
Qed.

(* ------------------------------------------------------------------ one byte *)

Lemma next_view : forall S i F lo0 lo1, nonul S -> BInv S i F lo0 lo1 ->
  match view S F with
  | [] => next i = Ok (None, i) /\ F = slen S
  | b :: t =>
    exists i' lo0' lo1',
      next i = Ok (Some b, i') /\ BInv S i' (F + 1) lo0' lo1' /\ same_rest i i' /\
      t = view S (F + 1) /\ F < slen S /\
      wstep (hnZ i) (older i lo0 lo1) lo0 lo1 (older i' lo0' lo1') lo0' lo1' (F + 1)
  end.
Proof.
  intros S i F lo0 lo1 Hnn HI.
  pose proof HI as [HC _]. destruct (bi_F _ _ _ _ _ HC) as ((HF0 & HF1) & _ & _).
  destruct (Z.eq_dec F (slen S)) as [E|E].
  - rewrite view_nil by assumption. split; [eapply next_eof; eassumption|assumption].
  - rewrite view_cons by lia.
    destruct (next_byte S i F lo0 lo1 Hnn HI ltac:(lia)) as (i' & a & b & Hn & HI' & Hsr & Hw).
    exists i', a, b. split; [exact Hn|]. split; [exact HI'|]. split; [exact Hsr|].
    split; [reflexivity|]. split; [lia|].
    eapply next_byte_wstep; try eassumption. apply Hsr.
Qed.

(* ------------------------------------------------------------------ one rune *)

(** The bookkeeping of a successful [Next]: a rune size is pushed; a newline pushes the column
    and restarts it at 1, any other rune advances it. *)
Definition pushed (i i' : input) (k : Z) (nl : bool) : Prop :=
  hn i' = hn i /\ lexemeBegin i' = lexemeBegin i /\ offset i' = offset i /\ line i' = line i /\
  column i' = column i /\ runeSizes i' = k :: runeSizes i /\
  (if nl then lastColumns i' = nextColumn i :: lastColumns i /\ nextColumn i' = 1
   else lastColumns i' = lastColumns i /\ nextColumn i' = nextColumn i + 1).

Lemma BInv_ext : forall S i i' F lo0 lo1,
  hn i' = hn i -> buff i' = buff i -> src i' = src i -> secondLoaded i' = secondLoaded i ->
  forward i' = forward i -> err i' = err i -> BInv S i F lo0 lo1 -> BInv S i' F lo0 lo1.
Proof.
  intros S i i' F lo0 lo1 H1 H2 H3 H4 H5 H6 [HC He]. split.
  - eapply BCore_ext; eassumption.
  - rewrite H6. exact He.
Qed.

Lemma older_ext : forall i i' a b, secondLoaded i' = secondLoaded i -> older i' a b = older i a b.
Proof. intros. unfold older. rewrite H. reflexivity. Qed.

(** First bytes that start a multi-byte sequence according to the tables. *)
Lemma multi_first : forall b0, (b0 < 256)%N -> (c_as <=? tfirst b0)%N = false ->
  (194 <= b0)%N /\
  (N.land (tfirst b0) 7 = 2 \/ N.land (tfirst b0) 7 = 3 \/ N.land (tfirst b0) 7 = 4)%N.
Proof.
  intros b0 Hb Hx. pose proof (tables_classify b0 Hb) as Hc.
  unfold tcls in Hc. rewrite Hx in Hc.
  destruct (taccept (N.shiftr (tfirst b0) 4)) as [lo hi].
  unfold scls in Hc.
  destruct (N.ltb_spec b0 128); [discriminate|].
  destruct (N.ltb_spec b0 194); [discriminate|].
  split; [assumption|].
  destruct (N.ltb_spec b0 224); [injection Hc as -> _ _; tauto|].
  destruct (N.ltb_spec b0 240); [injection Hc as -> _ _; tauto|].
  destruct (N.ltb_spec b0 245); [injection Hc as -> _ _; tauto|discriminate].
Qed.

Lemma multi_not_newline : forall b0 t c k, (b0 < 256)%N -> (194 <= b0)%N ->
  dec (b0 :: t) = DRune c k -> (c =? 10)%N = false.
Proof.
  intros b0 t c k Hb H194 Hd. rewrite dec_eq_spec in Hd by assumption.
  destruct (spec_dec_sound _ _ _ Hd) as (_ & _ & rest & Hr).
  apply N.eqb_neq. intro Hc. subst c. unfold encode in Hr. simpl in Hr. injection Hr as -> _. lia.
Qed.

Definition bytes (S : list N) : Prop := Forall (fun b => (b < 256)%N) S.

Lemma bytes_bz : forall S z, bytes S -> 0 <= z < slen S -> (bz S z < 256)%N.
Proof.
  intros S z Hb Hz. unfold bytes in Hb. rewrite Forall_forall in Hb. apply Hb.
  unfold bz. apply nth_In. unfold slen in Hz. lia.
Qed.

(** [Next] against the decoder on the remaining bytes. *)
Lemma Next_spec : forall S i F lo0 lo1, nonul S -> bytes S -> BInv S i F lo0 lo1 ->
  match dec (view S F) with
  | DRune c k =>
    exists i' lo0' lo1',
      Next i = Ok (NRune c, i') /\ BInv S i' (F + Z.of_N k) lo0' lo1' /\
      pushed i i' (Z.of_N k) (c =? 10)%N /\
      wstep (hnZ i) (older i lo0 lo1) lo0 lo1 (older i' lo0' lo1') lo0' lo1' (F + Z.of_N k)
  | DInvalid => exists p i', Next i = Ok (NInvalid p, i')
  | DTrunc => exists i', Next i = Ok (NEOF, i')
  end.
Proof.
  intros S i F lo0 lo1 Hnn Hby HI.
  destruct (dec (view S F)) as [c k| |] eqn:Hd.
  all: unfold Next.
  all: pose proof (next_view S i F lo0 lo1 Hnn HI) as H0.
  all: destruct (view S F) as [|b0 t0] eqn:V0.
  all: try (destruct H0 as [H0 _]; rewrite H0; cbn [bind]).
  all: try discriminate Hd.
  all: try (eexists; reflexivity).
  all: destruct H0 as (i1 & a1 & c1 & Hn1 & HI1 & Hs1 & Ht0 & HF1 & Ho1).
  all: rewrite Hn1; cbn [bind].
  all: assert (Hb0 : (b0 < 256)%N)
    by (pose proof (view_cons S F) as Hv; destruct (bi_F _ _ _ _ _ (proj1 HI)) as ((? & ?) & _);
        rewrite V0 in Hv; injection (Hv ltac:(lia)) as -> _; apply bytes_bz; [assumption|lia]).
  all: pose proof Hd as Hd0.
  all: unfold dec in Hd.
  all: destruct (c_as <=? tfirst b0)%N eqn:E1.
  all: try (match goal with
            | _ : (c_as <=? tfirst ?b)%N = true |- _ =>
              destruct (tfirst b =? c_xx)%N eqn:E2; try discriminate Hd
            end).
  all: try (eexists; eexists; reflexivity).
  (* remaining: the ASCII success, and the multi-byte paths of the three results *)
  all: try (destruct (multi_first b0 Hb0 E1) as (H194 & Hsz)).
  all: destruct Hs1 as (S1 & S2 & S3 & S4 & S5 & S6 & S7 & S8).
  - (* ASCII *)
    injection Hd as <- <-. change (Z.of_N 1) with 1.
    destruct (b0 =? 10)%N eqn:Enl.
    + eexists _, a1, c1. split; [reflexivity|].
      split; [eapply BInv_ext; [..|exact HI1]; reflexivity|].
      split; [unfold pushed, push_size; prj; repeat split; congruence|].
      rewrite (older_ext i1 _ a1 c1) by reflexivity. exact Ho1.
    + eexists _, a1, c1. split; [reflexivity|].
      split; [eapply BInv_ext; [..|exact HI1]; reflexivity|].
      split; [unfold pushed, push_size, bump_col; prj; repeat split; congruence|].
      rewrite (older_ext i1 _ a1 c1) by reflexivity. exact Ho1.
  - (* multi-byte, a rune *)
    assert (Hnl : (c =? 10)%N = false) by (eapply multi_not_newline; eassumption).
    rewrite Hnl. clear Hd0.
    pose proof (next_view S i1 (F + 1) a1 c1 Hnn HI1) as H1. rewrite <- Ht0 in H1.
    destruct t0 as [|b1 t1]; [discriminate Hd|].
    destruct H1 as (i2 & a2 & c2 & Hn2 & HI2 & Hs2 & Ht1 & HF2 & Ho2).
    rewrite Hn2; cbn [bind].
    destruct (taccept (N.shiftr (tfirst b0) 4)) as [lo hi].
    destruct ((b1 <? lo) || (hi <? b1))%N; [discriminate Hd|].
    destruct Hs2 as (T1 & T2 & T3 & T4 & T5 & T6 & T7 & T8).
    assert (Hh2 : hnZ i2 = hnZ i) by (unfold hnZ; congruence).
    assert (Hh1 : hnZ i1 = hnZ i) by (unfold hnZ; congruence).
    destruct (N.land (tfirst b0) 7 =? 2)%N eqn:Es2.
    { injection Hd as <- <-. apply N.eqb_eq in Es2. rewrite Es2.
      eexists _, a2, c2. split; [reflexivity|].
      split; [replace (F + Z.of_N 2) with (F + 1 + 1) by lia;
              eapply BInv_ext; [..|exact HI2]; reflexivity|].
      split; [unfold pushed, push_size, bump_col; prj; repeat split; congruence|].
      rewrite (older_ext i2 _ a2 c2) by reflexivity. rewrite Hh1 in Ho2.
      replace (F + Z.of_N 2) with (F + 1 + 1) by lia.
      eapply wstep_trans; [exact Ho1|exact Ho2|lia]. }
    pose proof (next_view S i2 (F + 1 + 1) a2 c2 Hnn HI2) as H2. rewrite <- Ht1 in H2.
    destruct t1 as [|b2 t2]; [discriminate Hd|].
    destruct H2 as (i3 & a3 & c3 & Hn3 & HI3 & Hs3 & Ht2 & HF3 & Ho3).
    rewrite Hn3; cbn [bind].
    destruct ((b2 <? c_locb) || (c_hicb <? b2))%N; [discriminate Hd|].
    destruct Hs3 as (U1 & U2 & U3 & U4 & U5 & U6 & U7 & U8).
    assert (Hh3 : hnZ i3 = hnZ i) by (unfold hnZ; congruence).
    destruct (N.land (tfirst b0) 7 =? 3)%N eqn:Es3.
    { injection Hd as <- <-. apply N.eqb_eq in Es3. rewrite Es3.
      eexists _, a3, c3. split; [reflexivity|].
      split; [replace (F + Z.of_N 3) with (F + 1 + 1 + 1) by lia;
              eapply BInv_ext; [..|exact HI3]; reflexivity|].
      split; [unfold pushed, push_size, bump_col; prj; repeat split; congruence|].
      rewrite (older_ext i3 _ a3 c3) by reflexivity. rewrite Hh1 in Ho2. rewrite Hh2 in Ho3.
      replace (F + Z.of_N 3) with (F + 1 + 1 + 1) by lia.
      eapply wstep_trans; [eapply wstep_trans; [exact Ho1|exact Ho2|lia]|exact Ho3|lia]. }
    pose proof (next_view S i3 (F + 1 + 1 + 1) a3 c3 Hnn HI3) as H3. rewrite <- Ht2 in H3.
    destruct t2 as [|b3 t3]; [discriminate Hd|].
    destruct H3 as (i4 & a4 & c4 & Hn4 & HI4 & Hs4 & Ht3 & HF4 & Ho4).
    rewrite Hn4; cbn [bind].
    destruct ((b3 <? c_locb) || (c_hicb <? b3))%N; [discriminate Hd|].
    destruct Hs4 as (V1 & V2 & V3 & V4 & V5 & V6 & V7 & V8).
    assert (Hh4 : hnZ i4 = hnZ i) by (unfold hnZ; congruence).
    injection Hd as <- <-.
    assert (Es4 : N.land (tfirst b0) 7 = 4%N).
    { apply N.eqb_neq in Es2. apply N.eqb_neq in Es3. destruct Hsz as [?|[?|?]]; [contradiction|contradiction|assumption]. }
    rewrite Es4.
    eexists _, a4, c4. split; [reflexivity|].
    split; [replace (F + Z.of_N 4) with (F + 1 + 1 + 1 + 1) by lia;
            eapply BInv_ext; [..|exact HI4]; reflexivity|].
    split; [unfold pushed, push_size, bump_col; prj; repeat split; congruence|].
    rewrite (older_ext i4 _ a4 c4) by reflexivity. rewrite Hh1 in Ho2. rewrite Hh2 in Ho3. rewrite Hh3 in Ho4.
    replace (F + Z.of_N 4) with (F + 1 + 1 + 1 + 1) by lia.
    eapply wstep_trans; [eapply wstep_trans; [eapply wstep_trans; [exact Ho1|exact Ho2|lia]|exact Ho3|lia]|exact Ho4|lia].
  - (* multi-byte, ill-formed *)
    clear Hd0.
    pose proof (next_view S i1 (F + 1) a1 c1 Hnn HI1) as H1. rewrite <- Ht0 in H1.
    destruct t0 as [|b1 t1]; [discriminate Hd|].
    destruct H1 as (i2 & a2 & c2 & Hn2 & HI2 & Hs2 & Ht1 & HF2 & Ho2).
    rewrite Hn2; cbn [bind].
    destruct (taccept (N.shiftr (tfirst b0) 4)) as [lo hi].
    destruct ((b1 <? lo) || (hi <? b1))%N; [eexists; eexists; reflexivity|].
    destruct (N.land (tfirst b0) 7 =? 2)%N; [discriminate Hd|].
    pose proof (next_view S i2 (F + 1 + 1) a2 c2 Hnn HI2) as H2. rewrite <- Ht1 in H2.
    destruct t1 as [|b2 t2]; [discriminate Hd|].
    destruct H2 as (i3 & a3 & c3 & Hn3 & HI3 & Hs3 & Ht2 & HF3 & Ho3).
    rewrite Hn3; cbn [bind].
    destruct ((b2 <? c_locb) || (c_hicb <? b2))%N; [eexists; eexists; reflexivity|].
    destruct (N.land (tfirst b0) 7 =? 3)%N; [discriminate Hd|].
    pose proof (next_view S i3 (F + 1 + 1 + 1) a3 c3 Hnn HI3) as H3. rewrite <- Ht2 in H3.
    destruct t2 as [|b3 t3]; [discriminate Hd|].
    destruct H3 as (i4 & a4 & c4 & Hn4 & HI4 & Hs4 & Ht3 & HF4 & Ho4).
    rewrite Hn4; cbn [bind].
    destruct ((b3 <? c_locb) || (c_hicb <? b3))%N; [eexists; eexists; reflexivity|discriminate Hd].
  - (* multi-byte, cut off by the end of the source *)
    clear Hd0.
    pose proof (next_view S i1 (F + 1) a1 c1 Hnn HI1) as H1. rewrite <- Ht0 in H1.
    destruct t0 as [|b1 t1].
    { destruct H1 as [H1 _]. rewrite H1. cbn [bind]. eexists; reflexivity. }
    destruct H1 as (i2 & a2 & c2 & Hn2 & HI2 & Hs2 & Ht1 & HF2 & Ho2).
    rewrite Hn2; cbn [bind].
    destruct (taccept (N.shiftr (tfirst b0) 4)) as [lo hi].
    destruct ((b1 <? lo) || (hi <? b1))%N; [discriminate Hd|].
    destruct (N.land (tfirst b0) 7 =? 2)%N; [discriminate Hd|].
    pose proof (next_view S i2 (F + 1 + 1) a2 c2 Hnn HI2) as H2. rewrite <- Ht1 in H2.
    destruct t1 as [|b2 t2].
    { destruct H2 as [H2 _]. rewrite H2. cbn [bind]. eexists; reflexivity. }
    destruct H2 as (i3 & a3 & c3 & Hn3 & HI3 & Hs3 & Ht2 & HF3 & Ho3).
    rewrite Hn3; cbn [bind].
    destruct ((b2 <? c_locb) || (c_hicb <? b2))%N; [discriminate Hd|].
    destruct (N.land (tfirst b0) 7 =? 3)%N; [discriminate Hd|].
    pose proof (next_view S i3 (F + 1 + 1 + 1) a3 c3 Hnn HI3) as H3. rewrite <- Ht2 in H3.
    destruct t2 as [|b3 t3].
    { destruct H3 as [H3 _]. rewrite H3. cbn [bind]. eexists; reflexivity. }
    destruct H3 as (i4 & a4 & c4 & Hn4 & HI4 & Hs4 & Ht3 & HF4 & Ho4).
    rewrite Hn4; cbn [bind].
    destruct ((b3 <? c_locb) || (c_hicb <? b3))%N; discriminate Hd.
Qed.

(* ------------------------------------------------------------------ the stream *)

(** How the stream ends, given how the source ends after its longest well-formed prefix:
    io.EOF at a clean end — and also when the source stops inside a sequence (known finding
    truncated-tail-eof); an invalid-UTF-8 error on ill-formed bytes. *)
Definition tail_err (t : dtail) (e : nres) : Prop :=
  match t with
  | TClean | TTrunc => e = NEOF
  | TInvalid => exists p, e = NInvalid p
  end.

Lemma view_length : forall S F, 0 <= F -> length (view S F) = (length S - Z.to_nat F)%nat.
Proof. intros. unfold view. apply skipn_length. Qed.

Lemma stream_from : forall fuel S i F lo0 lo1 rs t,
  nonul S -> bytes S -> BInv S i F lo0 lo1 ->
  (length (view S F) <= fuel)%nat ->
  decode_with spec_dec fuel (view S F) = (rs, t) ->
  forall fuel2, (length rs < fuel2)%nat ->
  exists e, next_all fuel2 i = Ok (rs, Some e) /\ tail_err t e.
Proof.
  induction fuel as [|fuel IH]; intros S i F lo0 lo1 rs t Hnn Hby HI Hlen Hdec fuel2 Hf2.
  - (* nothing left *)
    destruct (view S F) as [|b0 t0] eqn:V; [|simpl in Hlen; lia].
    simpl in Hdec. injection Hdec as <- <-.
    destruct fuel2 as [|f2]; [simpl in Hf2; lia|].
    pose proof (Next_spec S i F lo0 lo1 Hnn Hby HI) as HN. rewrite V in HN. cbn [dec] in HN.
    destruct HN as (i' & HN). cbn [next_all]. rewrite HN. cbn [bind].
    exists NEOF. split; reflexivity.
  - pose proof (Next_spec S i F lo0 lo1 Hnn Hby HI) as HN.
    destruct (bi_F _ _ _ _ _ (proj1 HI)) as ((HF0 & HF1) & _ & _).
    destruct (view S F) as [|b0 t0] eqn:V.
    + simpl in Hdec. injection Hdec as <- <-.
      destruct fuel2 as [|f2]; [simpl in Hf2; lia|].
      cbn [dec] in HN. destruct HN as (i' & HN). cbn [next_all]. rewrite HN. cbn [bind].
      exists NEOF. split; reflexivity.
    + assert (Hb0 : (b0 < 256)%N).
      { destruct (Z.eq_dec F (slen S)) as [E|E]; [rewrite view_nil in V by assumption; discriminate|].
        rewrite view_cons in V by lia. injection V as <- _. apply bytes_bz; [assumption|lia]. }
      cbn [decode_with] in Hdec. rewrite <- dec_eq_spec in Hdec by assumption.
      destruct (dec (b0 :: t0)) as [c k| |] eqn:Hd.
      * (* a rune *)
        destruct HN as (i' & a & b & HN & HI' & _ & _).
        destruct (decode_with spec_dec fuel (skipn (N.to_nat k) (b0 :: t0))) as [cs t'] eqn:Hrec.
        injection Hdec as <- <-.
        assert (Hk : k = elen c).
        { rewrite dec_eq_spec in Hd by assumption. apply spec_dec_sound in Hd. tauto. }
        pose proof (elen_pos c) as Hkp. rewrite <- Hk in Hkp.
        assert (Hv : skipn (N.to_nat k) (b0 :: t0) = view S (F + Z.of_N k)).
        { rewrite <- V. rewrite view_skip by lia. f_equal. lia. }
        rewrite Hv in Hrec.
        destruct fuel2 as [|f2]; [simpl in Hf2; lia|].
        destruct (IH S i' (F + Z.of_N k) a b cs t' Hnn Hby HI') with (fuel2 := f2) as (e & He & Ht).
        -- rewrite view_length by lia.
           assert (length (b0 :: t0) = (length S - Z.to_nat F)%nat) by (rewrite <- V; apply view_length; lia).
           simpl in Hlen, H. lia.
        -- exact Hrec.
        -- simpl in Hf2. lia.
        -- exists e. split; [|exact Ht]. cbn [next_all]. rewrite HN. cbn [bind]. rewrite He. reflexivity.
      * injection Hdec as <- <-. destruct HN as (p & i' & HN).
        destruct fuel2 as [|f2]; [simpl in Hf2; lia|].
        cbn [next_all]. rewrite HN. cbn [bind]. exists (NInvalid p). split; [reflexivity|].
        exists p. reflexivity.
      * injection Hdec as <- <-. destruct HN as (i' & HN).
        destruct fuel2 as [|f2]; [simpl in Hf2; lia|].
        cbn [next_all]. rewrite HN. cbn [bind]. exists NEOF. split; reflexivity.
Qed.

(** For every buffer size, oracle and non-empty source without NUL: New succeeds and the runes
    returned by Next until its first error are the runes of the longest well-formed prefix. *)
Theorem stream_general : forall n ds d S,
  (1 <= n)%nat -> S <> [] -> nonul S -> bytes S ->
  exists i0, new n (mkReader S ds d) = Ok (Some i0) /\
    forall fuel, (length (fst (spec_decode S)) < fuel)%nat ->
    exists e, next_all fuel i0 = Ok (fst (spec_decode S), Some e) /\ tail_err (snd (spec_decode S)) e.
Proof.
  intros n ds d S Hn HS Hnn Hby.
  destruct (new_spec S n ds d Hn HS) as (i0 & Hnew & HI & _).
  exists i0. split; [exact Hnew|]. intros fuel Hf.
  destruct (spec_decode S) as [rs t] eqn:Hsd. cbn [fst snd] in *.
  unfold spec_decode in Hsd.
  apply (stream_from (length S) S i0 0 0 (- Z.of_nat n) rs t Hnn Hby HI).
  - unfold view. simpl. lia.
  - exact Hsd.
  - exact Hf.
Qed.

Lemma nonul_encode_all : forall rs, Forall (fun c => c <> 0%N) rs -> nonul (encode_all rs).
Proof.
  induction rs as [|c rs IH]; intro H; [constructor|].
  inversion H; subst. unfold nonul, encode_all in *. simpl. apply Forall_app. split.
  - apply encode_nonzero. assumption.
  - apply IH. assumption.
Qed.

Lemma bytes_encode_all : forall rs, Forall scalar rs -> bytes (encode_all rs).
Proof.
  induction rs as [|c rs IH]; intro H; [constructor|].
  inversion H as [|? ? Hc Hrs]; subst. unfold bytes, encode_all in *. simpl. apply Forall_app. split.
  - apply encode_bytes. destruct Hc; lia.
  - apply IH. assumption.
Qed.

Lemma encode_all_nonempty : forall rs, rs <> [] -> encode_all rs <> [].
Proof.
  intros [|c rs] H; [contradiction|]. unfold encode_all. simpl.
  pose proof (encode_nonempty c). destruct (encode c); [contradiction|discriminate].
Qed.

Theorem stream_valid : forall n ds d rs,
  (1 <= n)%nat -> rs <> [] -> Forall scalar rs -> Forall (fun c => c <> 0%N) rs ->
  exists i0, new n (mkReader (encode_all rs) ds d) = Ok (Some i0) /\
    forall fuel, (length rs < fuel)%nat -> next_all fuel i0 = Ok (rs, Some NEOF).
Proof.
  intros n ds d rs Hn Hne Hs Hz.
  destruct (stream_general n ds d (encode_all rs) Hn (encode_all_nonempty rs Hne)
              (nonul_encode_all rs Hz) (bytes_encode_all rs Hs)) as (i0 & Hnew & Hst).
  exists i0. split; [exact Hnew|]. intros fuel Hf.
  assert (Hsd : spec_decode (encode_all rs) = (rs, TClean))
    by (apply spec_decode_encode_all; [assumption|lia]).
  rewrite Hsd in Hst. cbn [fst snd] in Hst.
  destruct (Hst fuel Hf) as (e & He & Ht). simpl in Ht. subst e. exact He.
Qed.

(* ------------------------------------------------------------------ ill-formed sources *)

(** Decoding does not depend on the fuel once it covers the bytes. *)
Lemma decode_fuel : forall d f1 f2 bs, (length bs <= f1)%nat -> (length bs <= f2)%nat ->
  (forall l c k, d l = DRune c k -> (0 < N.to_nat k)%nat) ->
  decode_with d f1 bs = decode_with d f2 bs.
Proof.
  induction f1 as [|f1 IH]; intros f2 bs H1 H2 Hk.
  - destruct bs; [|simpl in H1; lia]. destruct f2; reflexivity.
  - destruct bs as [|x l]; [destruct f2; reflexivity|].
    destruct f2 as [|f2]; [simpl in H2; lia|].
    cbn [decode_with]. destruct (d (x :: l)) as [c k| |] eqn:E; try reflexivity.
    pose proof (Hk _ _ _ E).
    rewrite (IH f2); [reflexivity| | |exact Hk];
      rewrite skipn_length; cbn [length] in *; lia.
Qed.

Lemma spec_dec_k_pos : forall l c k, spec_dec l = DRune c k -> (0 < N.to_nat k)%nat.
Proof.
  intros l c k H. apply spec_dec_sound in H. destruct H as (_ & -> & _). apply elen_pos.
Qed.

Lemma decode_app : forall rs bad fuel, Forall scalar rs ->
  (length (encode_all rs ++ bad) <= fuel)%nat ->
  decode_with spec_dec fuel (encode_all rs ++ bad) =
  (rs ++ fst (decode_with spec_dec (length bad) bad), snd (decode_with spec_dec (length bad) bad)).
Proof.
  induction rs as [|c rs IH]; intros bad fuel Hs Hf.
  - simpl in *. rewrite (decode_fuel spec_dec fuel (length bad) bad Hf (le_n _) spec_dec_k_pos).
    destruct (decode_with spec_dec (length bad) bad). reflexivity.
  - inversion Hs as [|? ? Hc Hrs]; subst.
    change (encode_all (c :: rs)) with (encode c ++ encode_all rs) in *.
    pose proof (encode_nonempty c) as Hne.
    assert (Hlen : (0 < length (encode c))%nat) by (destruct (encode c); [contradiction|simpl; lia]).
    rewrite <- app_assoc in *. rewrite app_length in Hf.
    destruct fuel as [|fuel]; [lia|].
    remember (encode c ++ encode_all rs ++ bad) as l eqn:El.
    destruct l as [|x l].
    { exfalso. apply (f_equal (@length N)) in El. rewrite app_length in El. simpl in El. lia. }
    cbn [decode_with]. rewrite El.
    rewrite spec_dec_encode by assumption. rewrite skipn_elen.
    rewrite IH by (try assumption; lia). reflexivity.
Qed.

Theorem stream_ill_formed : forall n ds d rs bad,
  (1 <= n)%nat -> Forall scalar rs -> bytes bad -> nonul (encode_all rs ++ bad) ->
  spec_dec bad <> DTrunc \/ bad <> [] ->
  (forall c k, spec_dec bad <> DRune c k) ->
  exists i0, new n (mkReader (encode_all rs ++ bad) ds d) = Ok (Some i0) /\
    forall fuel, (length rs < fuel)%nat ->
    exists e, next_all fuel i0 = Ok (rs, Some e) /\
      match spec_dec bad with
      | DInvalid => exists p, e = NInvalid p
      | _ => e = NEOF
      end.
Proof.
  intros n ds d rs bad Hn Hs Hbb Hnn Hne Hnr.
  assert (Hbad : bad <> []).
  { destruct Hne as [H|H]; [|exact H]. intro E; subst bad. apply H. reflexivity. }
  assert (HS : encode_all rs ++ bad <> []) by (destruct (encode_all rs); [exact Hbad|discriminate]).
  assert (Hby : bytes (encode_all rs ++ bad)) by (apply Forall_app; split; [apply bytes_encode_all; assumption|exact Hbb]).
  destruct (stream_general n ds d _ Hn HS Hnn Hby) as (i0 & Hnew & Hst).
  exists i0. split; [exact Hnew|]. intros fuel Hf.
  unfold spec_decode in Hst. rewrite decode_app in Hst by (try assumption; lia).
  destruct bad as [|x l]; [contradiction|].
  cbn [length decode_with fst snd] in Hst.
  destruct (spec_dec (x :: l)) as [c k| |] eqn:E.
  - exfalso. eapply Hnr. reflexivity.
  - cbn [fst snd] in Hst. rewrite app_nil_r in Hst. apply Hst. exact Hf.
  - cbn [fst snd] in Hst. rewrite app_nil_r in Hst. apply Hst. exact Hf.
Qed.
