(** C19 — histories of Next / Retract / Lexeme / Skip that keep the pending lexeme within N bytes:
    the model refines the abstract reader (two rune indices into the decoded source). *)
Require Import NArith ZArith List Bool Lia.
Import ListNotations.
From Algo.Gen Require Import C19_Tables.
From Algo.C19 Require Import Model Spec ProofsUtf8 ProofsReader ProofsBuffer ProofsNext ProofsStream.
Local Open Scope Z_scope.

(* ------------------------------------------------------------------ offsets of runes *)

Definition esize (c : N) : Z := Z.of_N (elen c).
Definition off (rs : list N) (k : nat) : Z := Z.of_nat (length (encode_all (firstn k rs))).

Lemma encode_all_app : forall a b, encode_all (a ++ b) = encode_all a ++ encode_all b.
Proof. intros. unfold encode_all. apply flat_map_app. Qed.

Lemma esize_length : forall c, esize c = Z.of_nat (length (encode c)).
Proof. intro c. unfold esize, elen. lia. Qed.

Lemma esize_pos : forall c, 1 <= esize c.
Proof.
  intro c. rewrite esize_length. pose proof (encode_nonempty c). destruct (encode c); [contradiction|simpl; lia].
Qed.

Lemma sub_snoc : forall (A : Type) (b f : nat) (l : list A) d, (b <= f < length l)%nat ->
  sub b (Datatypes.S f) l = sub b f l ++ [nth f l d].
Proof.
  intros A b f l d H. unfold sub.
  replace (Datatypes.S f - b)%nat with ((f - b) + 1)%nat by lia.
  rewrite firstn_plus. f_equal. rewrite skipn_plus. replace (b + (f - b))%nat with f by lia.
  rewrite (skipn_cons_nth A f l d) by lia. reflexivity.
Qed.

Lemma sub_nil : forall (A : Type) (b : nat) (l : list A), sub b b l = [].
Proof. intros. unfold sub. rewrite Nat.sub_diag. reflexivity. Qed.

Lemma sub_length : forall (A : Type) (b f : nat) (l : list A), (b <= f <= length l)%nat ->
  length (sub b f l) = (f - b)%nat.
Proof. intros. unfold sub. rewrite firstn_length, skipn_length. lia. Qed.

Lemma firstn_sub : forall (A : Type) (b f : nat) (l : list A), (b <= f)%nat ->
  firstn f l = firstn b l ++ sub b f l.
Proof.
  intros A b f l H. unfold sub. replace f with (b + (f - b))%nat at 1 by lia. apply firstn_plus.
Qed.

Lemma off_sub : forall rs b f, (b <= f)%nat ->
  off rs f = off rs b + Z.of_nat (length (encode_all (sub b f rs))).
Proof.
  intros rs b f H. unfold off. rewrite (firstn_sub _ b f rs H), encode_all_app, app_length. lia.
Qed.

Lemma off_succ : forall rs f, (f < length rs)%nat -> off rs (Datatypes.S f) = off rs f + esize (nth f rs 0%N).
Proof.
  intros rs f H. rewrite (off_sub rs f (Datatypes.S f)) by lia.
  rewrite (sub_snoc _ f f rs 0%N) by lia. rewrite sub_nil. simpl.
  rewrite app_nil_r. rewrite esize_length. reflexivity.
Qed.

Lemma off_all : forall rs, off rs (length rs) = slen (encode_all rs).
Proof. intro rs. unfold off, slen. rewrite firstn_all. reflexivity. Qed.

Lemma off_nonneg : forall rs k, 0 <= off rs k.
Proof. intros. unfold off. lia. Qed.

Lemma off_mono : forall rs b f, (b <= f)%nat -> off rs b <= off rs f.
Proof. intros rs b f H. rewrite (off_sub rs b f H). lia. Qed.

Lemma off_le_slen : forall rs k, off rs k <= slen (encode_all rs).
Proof.
  intros rs k. unfold off, slen.
  assert (E : encode_all rs = encode_all (firstn k rs) ++ encode_all (skipn k rs))
    by (rewrite <- encode_all_app, firstn_skipn; reflexivity).
  rewrite E, app_length. lia.
Qed.

Lemma view_off : forall rs k, view (encode_all rs) (off rs k) = encode_all (skipn k rs).
Proof.
  intros rs k. unfold view, off. rewrite Nat2Z.id.
  assert (E : encode_all rs = encode_all (firstn k rs) ++ encode_all (skipn k rs))
    by (rewrite <- encode_all_app, firstn_skipn; reflexivity).
  rewrite E.
  rewrite skipn_app, skipn_all, Nat.sub_diag. reflexivity.
Qed.

Lemma off_lt_slen : forall rs f, (f < length rs)%nat -> off rs f < slen (encode_all rs).
Proof.
  intros rs f H. pose proof (off_succ rs f H). pose proof (esize_pos (nth f rs 0%N)).
  pose proof (off_le_slen rs (Datatypes.S f)). lia.
Qed.

(** The first byte of a rune tells whether it is the newline. *)
Lemma encode_hd_newline : forall c, (hd 0%N (encode c) =? 10)%N = (c =? 10)%N.
Proof.
  intro c. destruct (encode_cases c) as [[H ->]|[[H ->]|[[H ->]|[H ->]]]]; cbn [hd]; try reflexivity.
  all: destruct (N.eqb_spec c 10); [lia|]; apply N.eqb_neq; lia.
Qed.

Lemma bz_off : forall rs f, (f < length rs)%nat ->
  bz (encode_all rs) (off rs f) = hd 0%N (encode (nth f rs 0%N)).
Proof.
  intros rs f H.
  pose proof (view_cons (encode_all rs) (off rs f)) as Hv.
  rewrite view_off in Hv. rewrite (skipn_cons_nth _ f rs 0%N H) in Hv.
  change (encode_all (nth f rs 0%N :: skipn (Datatypes.S f) rs))
    with (encode (nth f rs 0%N) ++ encode_all (skipn (Datatypes.S f) rs)) in Hv.
  pose proof (encode_nonempty (nth f rs 0%N)) as Hne.
  destruct (encode (nth f rs 0%N)) as [|x l]; [contradiction|].
  specialize (Hv ltac:(pose proof (off_nonneg rs f); pose proof (off_lt_slen rs f H); lia)).
  injection Hv as Hx _. symmetry. exact Hx.
Qed.

(* ------------------------------------------------------------------ columns *)

Definition cstep (st : Z * list Z) (r : N) : Z * list Z :=
  let '(nc, lcs) := st in if (r =? 10)%N then (1, nc :: lcs) else (nc + 1, lcs).
Definition colstate (c0 : Z) (l : list N) : Z * list Z := fold_left cstep l (c0, []).

Lemma lc_cols_gen : forall l ln nc lcs,
  fold_left lc_step l (ln, nc) =
  (ln + zlen (snd (fold_left cstep l (nc, lcs))) - zlen lcs, fst (fold_left cstep l (nc, lcs))).
Proof.
  induction l as [|r l IH]; intros ln nc lcs.
  - simpl. f_equal. lia.
  - cbn [fold_left]. unfold lc_step at 2, cstep at 2 4.
    destruct (r =? 10)%N.
    + rewrite (IH (ln + 1) 1 (nc :: lcs)). f_equal. unfold zlen. simpl length. lia.
    + rewrite (IH ln (nc + 1) lcs). reflexivity.
Qed.

Lemma lc_cols : forall pre l ln c0,
  lc_after pre = (ln, c0) ->
  lc_after (pre ++ l) = (ln + zlen (snd (colstate c0 l)), fst (colstate c0 l)).
Proof.
  intros pre l ln c0 H. unfold lc_after in *. rewrite fold_left_app, H.
  rewrite (lc_cols_gen l ln c0 []). unfold colstate, zlen. simpl. f_equal. lia.
Qed.

Lemma colstate_snoc : forall c0 l r, colstate c0 (l ++ [r]) = cstep (colstate c0 l) r.
Proof. intros. unfold colstate. rewrite fold_left_app. reflexivity. Qed.

(* ------------------------------------------------------------------ the refinement invariant *)

Record RInv (rs : list N) (i : input) (b f : nat) (lo0 lo1 : Z) : Prop := mkRInv {
  r_bf : (b <= f <= length rs)%nat;
  r_B : BInv (encode_all rs) i (off rs f) lo0 lo1;
  r_older : older i lo0 lo1 <= off rs b;
  r_within : off rs f - off rs b <= hnZ i;
  r_lb : maps (hnZ i) lo0 lo1 (off rs b) (lexemeBegin i);
  r_sizes : runeSizes i = rev (map esize (sub b f rs));
  r_off : offset i = Z.of_nat b;
  r_lc : (line i, column i) = lc_after (firstn b rs);
  r_cols : (nextColumn i, lastColumns i) = colstate (column i) (sub b f rs)
}.

Lemma maps_inj : forall n lo0 lo1 a x y,
  1 <= n -> (lo1 = lo0 + n \/ lo0 = lo1 + n) ->
  maps n lo0 lo1 a x -> maps n lo0 lo1 a y -> x = y.
Proof.
  unfold maps. intros n lo0 lo1 a x y Hn Ho (Hx & Hax) (Hy & Hay).
  destruct (Z.ltb_spec x n), (Z.ltb_spec y n); lia.
Qed.

Lemma BCore_order : forall S i F lo0 lo1, BCore S i F lo0 lo1 ->
  lo1 = lo0 + hnZ i \/ lo0 = lo1 + hnZ i.
Proof.
  intros S i F lo0 lo1 HC. pose proof (bi_order _ _ _ _ _ HC) as O.
  destruct (secondLoaded i); [left|right]; exact O.
Qed.

Lemma BCore_maps_fw : forall S i F lo0 lo1, BCore S i F lo0 lo1 -> maps (hnZ i) lo0 lo1 F (forward i).
Proof.
  intros S i F lo0 lo1 HC. split; [apply (bi_fwr _ _ _ _ _ HC)|apply (bi_fw _ _ _ _ _ HC)].
Qed.

(** Moving forward back inside the window. *)
Lemma BCore_move : forall S i i' F F' lo0 lo1,
  BCore S i F lo0 lo1 ->
  hn i' = hn i -> buff i' = buff i -> src i' = src i -> secondLoaded i' = secondLoaded i ->
  maps (hnZ i) lo0 lo1 F' (forward i') -> older i lo0 lo1 <= F' -> 0 <= F' <= F ->
  BCore S i' F' lo0 lo1.
Proof.
  intros S i i' F F' lo0 lo1 [A B C D E G H I J K M] H1 H2 H3 H4 (Hm1 & Hm2) Ho HF.
  destruct M as (M1 & M2 & M3).
  unfold newest, older, nbase, hnZ in *.
  constructor; unfold newest, older, nbase, hnZ; rewrite ?H1, ?H2, ?H3, ?H4; try assumption; lia.
Qed.

(** The byte at a source offset inside the window, through its buffer index. *)
Lemma window_byte : forall S i F lo0 lo1 a x,
  BCore S i F lo0 lo1 -> maps (hnZ i) lo0 lo1 a x -> 0 <= a < slen S ->
  bz (buff i) x = bz S a.
Proof.
  intros S i F lo0 lo1 a x [A B C D E G H I J K M] (Hx & Ha) Hr.
  destruct (Z.ltb_spec x (hnZ i)).
  - subst a. apply G; lia.
  - subst a. replace x with (hnZ i + (x - hnZ i)) at 1 by lia.
    replace (lo1 + x - hnZ i) with (lo1 + (x - hnZ i)) by lia. apply H; lia.
Qed.

(* ------------------------------------------------------------------ Next *)

Lemma Next_eof : forall S i F lo0 lo1, BInv S i F lo0 lo1 -> F = slen S -> Next i = Ok (NEOF, i).
Proof.
  intros S i F lo0 lo1 HI HF. unfold Next. rewrite (next_eof S i F lo0 lo1 HI HF). reflexivity.
Qed.

Lemma step_next_rune : forall rs i b f lo0 lo1,
  Forall scalar rs -> Forall (fun c => c <> 0%N) rs ->
  RInv rs i b f lo0 lo1 -> (f < length rs)%nat ->
  off rs (Datatypes.S f) - off rs b <= hnZ i ->
  exists i' lo0' lo1',
    Next i = Ok (NRune (nth f rs 0%N), i') /\ RInv rs i' b (Datatypes.S f) lo0' lo1' /\ hn i' = hn i.
Proof.
  intros rs i b f lo0 lo1 Hs Hz [Hbf HB Hold Hwin Hlb Hsz Hoff Hlc Hcols] Hf Hw.
  set (S := encode_all rs) in *. set (c := nth f rs 0%N).
  assert (Hc : scalar c) by (rewrite Forall_forall in Hs; apply Hs, nth_In, Hf).
  pose proof (Next_spec S i (off rs f) lo0 lo1 (nonul_encode_all rs Hz) (bytes_encode_all rs Hs) HB) as HN.
  unfold S in HN. rewrite view_off in HN. rewrite (skipn_cons_nth _ f rs 0%N Hf) in HN.
  change (encode_all (nth f rs 0%N :: skipn (Datatypes.S f) rs))
    with (encode c ++ encode_all (skipn (Datatypes.S f) rs)) in HN.
  rewrite (proj1 utf8_tables_correct_proof c _ Hc) in HN.
  destruct HN as (i' & a & d & HNx & HI' & Hp & Hws).
  exists i', a, d. split; [exact HNx|].
  destruct Hp as (P1 & P2 & P3 & P4 & P5 & P6 & P7).
  split; [|exact P1].
  assert (Hh : hnZ i' = hnZ i) by (unfold hnZ; congruence).
  destruct Hws as (W1 & W2 & W3).
  assert (Hos : off rs (Datatypes.S f) = off rs f + Z.of_N (elen c)) by (apply off_succ; exact Hf).
  rewrite <- Hos in HI', W2. fold (esize c) in P6.
  pose proof (sub_snoc _ b f rs 0%N ltac:(lia)) as Hsn. fold c in Hsn.
  constructor.
  - lia.
  - exact HI'.
  - lia.
  - rewrite Hh. exact Hw.
  - rewrite Hh, P2. apply W3; [lia|exact Hlb].
  - rewrite P6, Hsz, Hsn, map_app, rev_app_distr. reflexivity.
  - congruence.
  - rewrite P4, P5. exact Hlc.
  - rewrite Hsn, colstate_snoc. rewrite P5, <- Hcols. unfold cstep.
    destruct (c =? 10)%N; destruct P7 as (Q1 & Q2); rewrite Q1, Q2; reflexivity.
Qed.

Lemma step_next_eof : forall rs i b f lo0 lo1,
  RInv rs i b f lo0 lo1 -> f = length rs -> Next i = Ok (NEOF, i).
Proof.
  intros rs i b f lo0 lo1 R Hf. apply (Next_eof _ _ _ _ _ (r_B _ _ _ _ _ _ R)).
  subst f. apply off_all.
Qed.

(* ------------------------------------------------------------------ Retract *)

Lemma step_retract : forall rs i b f lo0 lo1,
  Forall (fun c => c <> 0%N) rs ->
  RInv rs i b f lo0 lo1 -> (b < f)%nat ->
  exists i', Retract i = Ok i' /\ RInv rs i' b (Nat.pred f) lo0 lo1 /\ hn i' = hn i.
Proof.
  intros rs i b f lo0 lo1 Hz [Hbf HB Hold Hwin Hlb Hsz Hoff Hlc Hcols] Hlt.
  destruct f as [|g]; [lia|]. cbn [Nat.pred].
  set (S := encode_all rs) in *. set (c := nth g rs 0%N).
  assert (Hg : (g < length rs)%nat) by lia.
  pose proof (sub_snoc _ b g rs 0%N ltac:(lia)) as Hsn. fold c in Hsn.
  rewrite Hsn, map_app, rev_app_distr in Hsz. cbn [map rev app] in Hsz.
  rewrite Hsn, colstate_snoc in Hcols.
  pose proof (off_succ rs g Hg) as Hos. fold c in Hos.
  pose proof (esize_pos c) as Hep.
  pose proof (off_mono rs b g ltac:(lia)) as Hbg.
  pose proof (off_nonneg rs b) as Hb0.
  destruct HB as [HC He].
  pose proof (BCore_maps_fw _ _ _ _ _ HC) as Hmf.
  pose proof (BCore_order _ _ _ _ _ HC) as Hord.
  pose proof (bi_n _ _ _ _ _ HC) as Hn1.
  pose proof (bi_F _ _ _ _ _ HC) as ((HF0 & HF1) & HF2 & HF3).
  unfold Retract. rewrite Hsz.
  (* the state after popping the size, clearing io.EOF and moving forward back *)
  set (i1 := set_runeSizes i (rev (map esize (sub b g rs)))).
  set (i2 := if err i1 then set_err i1 false else i1).
  assert (E2 : hn i2 = hn i /\ buff i2 = buff i /\ src i2 = src i /\ secondLoaded i2 = secondLoaded i /\
               forward i2 = forward i /\ err i2 = false /\ lexemeBegin i2 = lexemeBegin i /\
               offset i2 = offset i /\ line i2 = line i /\ column i2 = column i /\
               nextColumn i2 = nextColumn i /\ lastColumns i2 = lastColumns i /\
               runeSizes i2 = rev (map esize (sub b g rs))).
  { unfold i2, i1. destruct (err (set_runeSizes i (rev (map esize (sub b g rs))))) eqn:Ee; prj;
      repeat split; try reflexivity; exact Ee. }
  destruct E2 as (E21 & E22 & E23 & E24 & E25 & E26 & E27 & E28 & E29 & E2a & E2b & E2c & E2d).
  assert (Hh2 : hnZ i2 = hnZ i) by (unfold hnZ; congruence).
  set (f0 := forward i2 - esize c).
  set (f1 := if f0 <? 0 then f0 + 2 * hnZ i2 else f0).
  assert (Hm : maps (hnZ i) lo0 lo1 (off rs g) f1).
  { unfold maps, f1, f0 in *. rewrite Hh2, E25. destruct Hmf as (Hx & Hax).
    unfold older in *.
    destruct (secondLoaded i); destruct Hord as [Ho|Ho]; try lia;
      destruct (Z.ltb_spec (forward i) (hnZ i));
      destruct (Z.ltb_spec (forward i - esize c) 0);
      split; try lia;
      match goal with |- context [?x <? ?y] => destruct (Z.ltb_spec x y) end; lia. }
  set (i3 := set_fw i2 f1).
  assert (HC3 : BCore S i3 (off rs g) lo0 lo1).
  { apply (BCore_move S i i3 (off rs (Datatypes.S g)) (off rs g) lo0 lo1 HC); unfold i3; prj;
      try assumption; lia. }
  assert (Hlt_s : off rs g < slen S) by (apply off_lt_slen; exact Hg).
  assert (Hbyte : bz (buff i3) (forward i3) = hd 0%N (encode c)).
  { rewrite (forward_byte S i3 (off rs g) lo0 lo1 HC3 Hlt_s). apply bz_off. exact Hg. }
  change (hnZ (set_runeSizes i (rev (map esize (sub b g rs))))) with (hnZ i) in *.
  fold i1. fold i2. fold f0. fold f1. fold i3.
  rewrite bget_some by (pose proof (bi_len _ _ _ _ _ HC3) as Hl; pose proof (bi_fwr _ _ _ _ _ HC3); lia).
  rewrite Hbyte, encode_hd_newline.
  assert (HI3 : forall i4, hn i4 = hn i3 -> buff i4 = buff i3 -> src i4 = src i3 ->
                 secondLoaded i4 = secondLoaded i3 -> forward i4 = forward i3 -> err i4 = false ->
                 BInv S i4 (off rs g) lo0 lo1).
  { intros i4 G1 G2 G3 G4 G5 G6. split.
    - eapply BCore_ext; [..|exact HC3]; assumption.
    - rewrite G6. split; [discriminate|lia]. }
  unfold cstep in Hcols.
  destruct (colstate (column i) (sub b g rs)) as [nc0 lcs0] eqn:Ecs.
  destruct (c =? 10)%N eqn:Enl.
  - injection Hcols as Hc1 Hc2.
    assert (Elc : lastColumns i3 = nc0 :: lcs0) by (unfold i3; prj; congruence).
    rewrite Elc.
    eexists. split; [reflexivity|]. split; [|unfold i3; prj; exact E21].
    constructor; unfold i3 in *; prj; try rewrite Hh2 in *; try assumption; try lia.
    + apply HI3; try reflexivity; prj; exact E26.
    + unfold older in *; prj. rewrite E24. exact Hold.
    + unfold hnZ in *; prj. rewrite E21. lia.
    + unfold hnZ in *; prj. rewrite E21, E27. exact Hlb.
    + rewrite E29, E2a. exact Hlc.
    + rewrite E2a, Ecs. reflexivity.
  - injection Hcols as Hc1 Hc2.
    eexists. split; [reflexivity|]. split; [|unfold i3; prj; exact E21].
    constructor; unfold i3 in *; prj; try rewrite Hh2 in *; try assumption; try lia.
    + apply HI3; try reflexivity; prj; exact E26.
    + unfold older in *; prj. rewrite E24. exact Hold.
    + unfold hnZ in *; prj. rewrite E21. lia.
    + unfold hnZ in *; prj. rewrite E21, E27. exact Hlb.
    + rewrite E29, E2a. exact Hlc.
    + rewrite E2a, Ecs, E2b, E2c. f_equal; [lia|congruence].
Qed.

Lemma step_retract_empty : forall rs i b lo0 lo1, RInv rs i b b lo0 lo1 -> Retract i = Ok i.
Proof.
  intros rs i b lo0 lo1 R. unfold Retract. rewrite (r_sizes _ _ _ _ _ _ R), sub_nil. reflexivity.
Qed.

(* ------------------------------------------------------------------ Lexeme and Skip *)

Definition same_but_lb (i i' : input) (lb : Z) : Prop :=
  hn i' = hn i /\ buff i' = buff i /\ src i' = src i /\ secondLoaded i' = secondLoaded i /\
  forward i' = forward i /\ offset i' = offset i /\ line i' = line i /\ column i' = column i /\
  nextColumn i' = nextColumn i /\ runeSizes i' = runeSizes i /\ lastColumns i' = lastColumns i /\
  err i' = err i /\ lexemeBegin i' = lb.

Lemma lexloop_spec : forall m S i F lo0 lo1 B acc fuel,
  BCore S i F lo0 lo1 -> maps (hnZ i) lo0 lo1 B (lexemeBegin i) -> older i lo0 lo1 <= B -> 0 <= B ->
  B + Z.of_nat m = F -> (m < fuel)%nat ->
  exists i', lexloop fuel i acc = Ok (rev acc ++ firstn m (view S B), i') /\
             same_but_lb i i' (forward i).
Proof.
  induction m as [|m IH]; intros S i F lo0 lo1 B acc fuel HC Hm Ho HB0 HBF Hfuel.
  - assert (E : lexemeBegin i = forward i).
    { apply (maps_inj (hnZ i) lo0 lo1 B); [exact (bi_n _ _ _ _ _ HC)|exact (BCore_order _ _ _ _ _ HC)|exact Hm|].
      replace B with F by lia. exact (BCore_maps_fw _ _ _ _ _ HC). }
    destruct fuel as [|fuel]; [lia|]. cbn [lexloop]. rewrite E, Z.eqb_refl.
    exists i. split; [cbn [firstn]; rewrite app_nil_r; reflexivity|].
    unfold same_but_lb. repeat split; try reflexivity. exact E.
  - destruct fuel as [|fuel]; [lia|]. cbn [lexloop].
    pose proof (BCore_maps_fw _ _ _ _ _ HC) as Hmf.
    pose proof (BCore_order _ _ _ _ _ HC) as Hord.
    pose proof (bi_n _ _ _ _ _ HC) as Hn1.
    pose proof (bi_F _ _ _ _ _ HC) as ((HF0 & HF1) & HF2 & HF3).
    pose proof (bi_len _ _ _ _ _ HC) as Hlen.
    destruct (Z.eqb_spec (lexemeBegin i) (forward i)) as [E|E].
    { exfalso. destruct Hm as (_ & Hm), Hmf as (_ & Hmf). rewrite E in Hm. lia. }
    rewrite bget_some by (destruct Hm; lia).
    rewrite (window_byte S i F lo0 lo1 B (lexemeBegin i) HC Hm) by lia.
    set (lb := if lexemeBegin i + 1 =? 2 * hnZ i then 0 else lexemeBegin i + 1).
    assert (Hm' : maps (hnZ i) lo0 lo1 (B + 1) lb).
    { unfold maps, lb, newest, older in *. destruct Hm as (Hx & Hax).
      destruct (secondLoaded i); destruct Hord as [Hor|Hor]; try lia;
        destruct (Z.eqb_spec (lexemeBegin i + 1) (2 * hnZ i));
        destruct (Z.ltb_spec (lexemeBegin i) (hnZ i));
        split; try lia;
        match goal with |- context [?x <? ?y] => destruct (Z.ltb_spec x y) end; lia. }
    destruct (IH S (set_lb i lb) F lo0 lo1 (B + 1) (bz S B :: acc) fuel) as (i' & Hl & Hs).
    + eapply BCore_ext; [..|exact HC]; reflexivity.
    + exact Hm'.
    + unfold older in *; prj. lia.
    + lia.
    + lia.
    + lia.
    + exists i'. split.
      * rewrite Hl. rewrite (view_cons S B) by lia. cbn [rev firstn]. rewrite <- app_assoc. reflexivity.
      * unfold same_but_lb in *; prj. exact Hs.
Qed.

Lemma skipn_sub : forall (A : Type) (b f : nat) (l : list A), (b <= f)%nat ->
  skipn b l = sub b f l ++ skipn f l.
Proof.
  intros A b f l H. unfold sub. rewrite <- (firstn_skipn (f - b) (skipn b l)) at 1.
  f_equal. rewrite skipn_plus. f_equal. lia.
Qed.

(** Emptying the stacks and advancing the position, after the lexeme begin caught up with forward. *)
Lemma commit_RInv : forall rs i i1 b f lo0 lo1,
  RInv rs i b f lo0 lo1 -> same_but_lb i i1 (forward i) ->
  RInv rs (commit i1) f f lo0 lo1 /\ posOf i1 = posOf i /\ hn (commit i1) = hn i.
Proof.
  intros rs i i1 b f lo0 lo1 [Hbf HB Hold Hwin Hlb Hsz Hoff Hlc Hcols]
         (E1 & E2 & E3 & E4 & E5 & E6 & E7 & E8 & E9 & Ea & Eb & Ec & Ed).
  split; [|split; [unfold posOf; congruence|unfold commit; prj; exact E1]].
  pose proof (off_mono rs b f ltac:(lia)) as Hbf'.
  destruct HB as [HC He].
  assert (Hh : hnZ (commit i1) = hnZ i) by (unfold hnZ, commit; prj; congruence).
  constructor.
  - lia.
  - split.
    + eapply BCore_ext; [..|exact HC]; unfold commit; prj; assumption.
    + unfold commit; prj. rewrite Ec. exact He.
  - unfold older, commit in *; prj. rewrite E4. lia.
  - rewrite Hh. pose proof (bi_n _ _ _ _ _ HC). lia.
  - rewrite Hh. unfold commit; prj. rewrite Ed. exact (BCore_maps_fw _ _ _ _ _ HC).
  - unfold commit; prj. rewrite sub_nil. reflexivity.
  - unfold commit; prj. rewrite E6, Ea, Hoff, Hsz. unfold zlen.
    rewrite rev_length, map_length, sub_length by lia. lia.
  - unfold commit; prj. rewrite E7, E9, Eb.
    rewrite (firstn_sub _ b f rs) by lia.
    rewrite (lc_cols (firstn b rs) (sub b f rs) (line i) (column i)) by (symmetry; exact Hlc).
    rewrite <- Hcols. reflexivity.
  - unfold commit; prj. rewrite sub_nil, E9. reflexivity.
Qed.

Lemma step_lexeme : forall rs i b f lo0 lo1,
  RInv rs i b f lo0 lo1 ->
  exists i', Lexeme i = Ok (encode_all (sub b f rs), posOf i, i') /\ RInv rs i' f f lo0 lo1 /\ hn i' = hn i.
Proof.
  intros rs i b f lo0 lo1 R.
  pose proof R as [Hbf HB Hold Hwin Hlb Hsz Hoff Hlc Hcols].
  destruct HB as [HC He].
  pose proof (off_sub rs b f ltac:(lia)) as Hos.
  set (m := length (encode_all (sub b f rs))) in *.
  destruct (lexloop_spec m (encode_all rs) i (off rs f) lo0 lo1 (off rs b) [] (2 * hn i + 1) HC Hlb Hold)
    as (i1 & Hl & Hs).
  - apply off_nonneg.
  - lia.
  - unfold hnZ in Hwin. lia.
  - unfold Lexeme. rewrite Hl. cbn [bind rev app].
    destruct (commit_RInv rs i i1 b f lo0 lo1 R Hs) as (R' & Hp & Hh).
    exists (commit i1). split; [|split; [exact R'|exact Hh]].
    f_equal. f_equal. f_equal.
    rewrite view_off, (skipn_sub _ b f rs) by lia. rewrite encode_all_app.
    unfold m. rewrite firstn_app, Nat.sub_diag, firstn_all. cbn [firstn]. apply app_nil_r.
Qed.

Lemma step_skip : forall rs i b f lo0 lo1,
  RInv rs i b f lo0 lo1 ->
  exists i', Skip i = (posOf i, i') /\ RInv rs i' f f lo0 lo1 /\ hn i' = hn i.
Proof.
  intros rs i b f lo0 lo1 R. unfold Skip.
  destruct (commit_RInv rs i (set_lb i (forward i)) b f lo0 lo1 R) as (R' & Hp & Hh).
  - unfold same_but_lb; prj. repeat split.
  - exists (commit (set_lb i (forward i))). split; [reflexivity|]. split; [exact R'|exact Hh].
Qed.


(* ------------------------------------------------------------------ histories *)

Lemma pending_off : forall rs b f, (b <= f)%nat ->
  Z.of_nat (pending (mkSsrc rs false) (b, f)) = off rs f - off rs b.
Proof.
  intros rs b f H. unfold pending. cbn [fst snd sp_runes]. rewrite (off_sub rs b f H). lia.
Qed.

Theorem lexemes_refine : forall ops rs i b f lo0 lo1,
  Forall scalar rs -> Forall (fun c => c <> 0%N) rs ->
  RInv rs i b f lo0 lo1 ->
  within (hn i) (mkSsrc rs false) (b, f) ops = true ->
  exists vs i', run i ops = Ok (vs, i') /\
                map proj vs = fst (srun (mkSsrc rs false) (b, f) ops).
Proof.
  induction ops as [|o ops IH]; intros rs i b f lo0 lo1 Hs Hz R Hw.
  - exists [], i. split; reflexivity.
  - cbn [within] in Hw. apply andb_true_iff in Hw. destruct Hw as [Hw1 Hw2].
    apply Nat.leb_le in Hw1.
    pose proof (r_bf _ _ _ _ _ _ R) as Hbf.
    cbn [run srun]. destruct o.
    + (* Next *)
      cbn [sstep sp_runes sp_bad] in *.
      destruct (nth_error rs f) as [c|] eqn:En.
      * assert (Hf : (f < length rs)%nat) by (apply nth_error_Some; congruence).
        assert (Hc : nth f rs 0%N = c) by (apply nth_error_nth with (d := 0%N) in En; exact En).
        cbn [snd] in *.
        assert (Hwz : off rs (Datatypes.S f) - off rs b <= hnZ i).
        { rewrite <- pending_off by lia. unfold hnZ. lia. }
        destruct (step_next_rune rs i b f lo0 lo1 Hs Hz R Hf Hwz) as (i' & a & d & HN & R' & Hh).
        rewrite <- Hh in Hw2.
        destruct (IH rs i' b (Datatypes.S f) a d Hs Hz R' Hw2) as (vs & i'' & Hrun & Hproj).
        unfold step. rewrite HN. cbn [bind]. rewrite Hrun. cbn [bind].
        exists (VRune (nth f rs 0%N) :: vs), i''. split; [reflexivity|].
        destruct (srun (mkSsrc rs false) (b, Datatypes.S f) ops) as [svs st2].
        cbn [map proj fst] in *. rewrite Hproj, Hc. reflexivity.
      * assert (Hf : f = length rs) by (apply nth_error_None in En; lia).
        cbn [snd] in *.
        rewrite (step_next_eof rs i b f lo0 lo1 R Hf) || idtac.
        destruct (IH rs i b f lo0 lo1 Hs Hz R Hw2) as (vs & i'' & Hrun & Hproj).
        unfold step. rewrite (step_next_eof rs i b f lo0 lo1 R Hf). cbn [bind]. rewrite Hrun. cbn [bind].
        exists (VEOF :: vs), i''. split; [reflexivity|].
        destruct (srun (mkSsrc rs false) (b, f) ops) as [svs st2].
        cbn [map proj fst] in *. rewrite Hproj. reflexivity.
    + (* Retract *)
      cbn [sstep] in *. cbn [snd] in *.
      destruct (Nat.ltb_spec b f) as [Hlt|Hge].
      * destruct (step_retract rs i b f lo0 lo1 Hz R Hlt) as (i' & HR & R' & Hh).
        rewrite <- Hh in Hw2.
        destruct (IH rs i' b (Nat.pred f) lo0 lo1 Hs Hz R' Hw2) as (vs & i'' & Hrun & Hproj).
        unfold step. rewrite HR. cbn [bind]. rewrite Hrun. cbn [bind].
        exists (VUnit :: vs), i''. split; [reflexivity|].
        destruct (srun (mkSsrc rs false) (b, Nat.pred f) ops) as [svs st2].
        cbn [map proj fst] in *. rewrite Hproj. reflexivity.
      * assert (b = f) by lia. subst f.
        destruct (IH rs i b b lo0 lo1 Hs Hz R Hw2) as (vs & i'' & Hrun & Hproj).
        unfold step. rewrite (step_retract_empty rs i b lo0 lo1 R). cbn [bind]. rewrite Hrun. cbn [bind].
        exists (VUnit :: vs), i''. split; [reflexivity|].
        destruct (srun (mkSsrc rs false) (b, b) ops) as [svs st2].
        cbn [map proj fst] in *. rewrite Hproj. reflexivity.
    + (* Lexeme *)
      cbn [sstep sp_runes] in *.
      destruct (lc_after (firstn b rs)) as [l c] eqn:Elc. cbn [snd] in *.
      destruct (step_lexeme rs i b f lo0 lo1 R) as (i' & HL & R' & Hh).
      rewrite <- Hh in Hw2.
      destruct (IH rs i' f f lo0 lo1 Hs Hz R' Hw2) as (vs & i'' & Hrun & Hproj).
      unfold step. rewrite HL. cbn [bind]. rewrite Hrun. cbn [bind].
      eexists (VLexeme _ (posOf i) :: vs), i''. split; [reflexivity|].
      destruct (srun (mkSsrc rs false) (f, f) ops) as [svs st2].
      cbn [map proj fst] in *. rewrite Hproj.
      pose proof (r_lc _ _ _ _ _ _ R) as Hlc. rewrite Elc in Hlc. injection Hlc as H1 H2.
      unfold posOf; cbn [p_line p_col]. rewrite H1, H2. reflexivity.
    + (* Skip *)
      cbn [sstep sp_runes] in *.
      destruct (lc_after (firstn b rs)) as [l c] eqn:Elc. cbn [snd] in *.
      destruct (step_skip rs i b f lo0 lo1 R) as (i' & HL & R' & Hh).
      rewrite <- Hh in Hw2.
      destruct (IH rs i' f f lo0 lo1 Hs Hz R' Hw2) as (vs & i'' & Hrun & Hproj).
      unfold step. rewrite HL. cbn [bind]. rewrite Hrun. cbn [bind].
      eexists (VSkip (posOf i) :: vs), i''. split; [reflexivity|].
      destruct (srun (mkSsrc rs false) (f, f) ops) as [svs st2].
      cbn [map proj fst] in *. rewrite Hproj.
      pose proof (r_lc _ _ _ _ _ _ R) as Hlc. rewrite Elc in Hlc. injection Hlc as H1 H2.
      unfold posOf; cbn [p_line p_col]. rewrite H1, H2. reflexivity.
Qed.

(** From New on. *)
Theorem lexemes_from_new : forall n ds d rs ops,
  (1 <= n)%nat -> rs <> [] -> Forall scalar rs -> Forall (fun c => c <> 0%N) rs ->
  within n (mkSsrc rs false) (0%nat, 0%nat) ops = true ->
  exists i0 vs i',
    new n (mkReader (encode_all rs) ds d) = Ok (Some i0) /\
    run i0 ops = Ok (vs, i') /\
    map proj vs = fst (srun (mkSsrc rs false) (0%nat, 0%nat) ops).
Proof.
  intros n ds d rs ops Hn Hne Hs Hz Hw.
  destruct (new_spec (encode_all rs) n ds d Hn (encode_all_nonempty rs Hne))
    as (i0 & Hnew & HI & E1 & E2 & E3 & E4 & E5 & E6 & E7 & E8 & E9).
  assert (R : RInv rs i0 0 0 0 (- Z.of_nat n)).
  { assert (Hh : hnZ i0 = Z.of_nat n) by (unfold hnZ; congruence).
    constructor.
    - lia.
    - exact HI.
    - unfold older. rewrite E9. unfold off. simpl. lia.
    - rewrite Hh. unfold off. simpl. lia.
    - rewrite Hh, E2. unfold maps, off. simpl length. split; [lia|].
      destruct (Z.ltb_spec 0 (Z.of_nat n)); lia.
    - rewrite E7, sub_nil. reflexivity.
    - rewrite E3. reflexivity.
    - rewrite E4, E5. reflexivity.
    - rewrite E6, E8, E5, sub_nil. reflexivity. }
  rewrite <- E1 in Hw.
  destruct (lexemes_refine ops rs i0 0 0 0 (- Z.of_nat n) Hs Hz R Hw) as (vs & i' & Hrun & Hp).
  exists i0, vs, i'. repeat split; assumption.
Qed.

(* ------------------------------------------------------------------ what the abstract reader guarantees *)

(** Lexemes and skipped spans tile the consumed prefix, in order. *)
Lemma spans_concat : forall ops rs b f, (b <= f)%nat ->
  let s := mkSsrc rs false in
  let '(b', f') := snd (srun s (b, f) ops) in
  (b' <= f')%nat /\ (b <= b')%nat /\
  concat (spans s (b, f) ops) = encode_all (sub b b' rs).
Proof.
  induction ops as [|o ops IH]; intros rs b f Hbf; cbn zeta.
  - cbn [srun snd spans concat]. rewrite sub_nil. repeat split; lia.
  - cbn [srun spans].
    destruct o; cbn [sstep sp_runes sp_bad snd fst].
    + destruct (nth_error rs f) as [c|] eqn:En; cbn [snd].
      * specialize (IH rs b (Datatypes.S f) ltac:(lia)). cbn zeta in IH.
        destruct (srun (mkSsrc rs false) (b, Datatypes.S f) ops) as [vs [b' f']]. cbn [snd] in *. exact IH.
      * specialize (IH rs b f Hbf). cbn zeta in IH.
        destruct (srun (mkSsrc rs false) (b, f) ops) as [vs [b' f']]. cbn [snd] in *. exact IH.
    + destruct (Nat.ltb_spec b f).
      * specialize (IH rs b (Nat.pred f) ltac:(lia)). cbn zeta in IH.
        destruct (srun (mkSsrc rs false) (b, Nat.pred f) ops) as [vs [b' f']]. cbn [snd] in *. exact IH.
      * specialize (IH rs b f Hbf). cbn zeta in IH.
        destruct (srun (mkSsrc rs false) (b, f) ops) as [vs [b' f']]. cbn [snd] in *. exact IH.
    + destruct (lc_after (firstn b rs)) as [l c]. cbn [snd].
      specialize (IH rs f f (le_n f)). cbn zeta in IH.
      destruct (srun (mkSsrc rs false) (f, f) ops) as [vs [b' f']]. cbn [snd concat] in *.
      destruct IH as (I1 & I2 & I3). repeat split; try lia.
      rewrite I3, <- encode_all_app. f_equal.
      unfold sub. replace (b' - b)%nat with ((f - b) + (b' - f))%nat by lia.
      rewrite firstn_plus. f_equal. rewrite skipn_plus. f_equal. f_equal. lia.
    + destruct (lc_after (firstn b rs)) as [l c]. cbn [snd].
      specialize (IH rs f f (le_n f)). cbn zeta in IH.
      destruct (srun (mkSsrc rs false) (f, f) ops) as [vs [b' f']]. cbn [snd concat] in *.
      destruct IH as (I1 & I2 & I3). repeat split; try lia.
      rewrite I3, <- encode_all_app. f_equal.
      unfold sub. replace (b' - b)%nat with ((f - b) + (b' - f))%nat by lia.
      rewrite firstn_plus. f_equal. rewrite skipn_plus. f_equal. f_equal. lia.
Qed.

Lemma spans_from_start : forall (rs : list N) (ops : list op),
  let s := mkSsrc rs false in
  concat (spans s (0%nat, 0%nat) ops) =
  encode_all (firstn (fst (snd (srun s (0%nat, 0%nat) ops))) rs).
Proof.
  intros rs ops s. pose proof (spans_concat ops rs 0 0 (le_n 0)) as H. cbn zeta in H. fold s in H.
  destruct (snd (srun s (0%nat, 0%nat) ops)) as [b' f']. destruct H as (_ & _ & H).
  rewrite H. unfold sub. rewrite Nat.sub_0_r. reflexivity.
Qed.

Lemma stream_valid_or_empty :
  forall (n : nat) (ds : list decision) (d : decision) (rs : list N),
    (1 <= n)%nat -> Forall scalar rs -> Forall (fun c => c <> 0%N) rs ->
    match rs with
    | [] => new n (mkReader [] ds d) = Ok None
    | _ :: _ =>
      exists i0, new n (mkReader (encode_all rs) ds d) = Ok (Some i0) /\
        forall fuel, (length rs < fuel)%nat -> next_all fuel i0 = Ok (rs, Some NEOF)
    end.
Proof.
  intros n ds d [|c rs] Hn Hs Hz.
  - apply new_empty, Hn.
  - apply stream_valid; try assumption. discriminate.
Qed.
