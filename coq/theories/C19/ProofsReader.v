(** C19 — the reader oracle: whatever the decisions, io.ReadFull hands over the next [need]
    bytes of the source (or all that is left), and never runs out of fuel. *)
Require Import NArith ZArith List Bool Lia.
Import ListNotations.
From Algo.C19 Require Import Model.

Lemma firstn_plus : forall (A : Type) (a b : nat) (l : list A),
  firstn (a + b) l = firstn a l ++ firstn b (skipn a l).
Proof.
  induction a as [|a IH]; intros b l; [reflexivity|].
  destruct l as [|x l]; simpl; [rewrite firstn_nil; reflexivity|]. rewrite IH. reflexivity.
Qed.

Lemma skipn_plus : forall (A : Type) (a b : nat) (l : list A),
  skipn b (skipn a l) = skipn (a + b) l.
Proof.
  induction a as [|a IH]; intros b l; [reflexivity|].
  destruct l as [|x l]; simpl; [rewrite skipn_nil; reflexivity|]. apply IH.
Qed.

Lemma want_of_le : forall a len, (want_of a len <= len)%nat.
Proof.
  intros [| |k] len; cbn [want_of].
  - lia.
  - assert (H : (0 < S len)%nat) by apply Nat.lt_0_succ. apply Nat.lt_div2 in H. lia.
  - lia.
Qed.

(** One Read: a prefix of what is left, at most [len] bytes; io.EOF only when nothing is left
    afterwards; and either a decision is used up, or (default decision) there is progress. *)
Lemma read_spec : forall r len, (1 <= len)%nat ->
  exists m,
    (m <= len)%nat /\
    fst (fst (read r len)) = firstn m (rem r) /\
    rem (snd (read r len)) = skipn m (rem r) /\
    dflt (snd (read r len)) = dflt r /\
    (snd (fst (read r len)) = true -> (length (rem r) <= m)%nat) /\
    (snd (fst (read r len)) = false ->
       (length (decs (snd (read r len))) < length (decs r))%nat \/
       (decs (snd (read r len)) = [] /\ decs r = [] /\ (1 <= m)%nat /\ (m <= length (rem r))%nat)).
Proof.
  intros r len Hlen. unfold read.
  destruct (decs r) as [|d ds] eqn:Ed.
  - (* default decision *)
    set (w := Nat.max 1 (want_of (d_amt (dflt r)) len)).
    assert (Hw : (1 <= w <= len)%nat) by (unfold w; pose proof (want_of_le (d_amt (dflt r)) len); lia).
    destruct w as [|w'] eqn:Ew; [lia|].
    destruct (rem r) as [|x l] eqn:Er.
    + exists 0%nat. simpl. repeat split; try lia; try reflexivity; try (intro; discriminate).
    + exists (Nat.min (S w') (length (x :: l))). cbn [fst snd rem decs dflt].
      repeat split; try lia; try reflexivity.
      * intro H. apply andb_true_iff in H. destruct H as [H _]. apply Nat.eqb_eq in H. lia.
      * intros _. right. repeat split; simpl; lia.
  - set (w := want_of (d_amt d) len).
    assert (Hw : (w <= len)%nat) by apply want_of_le.
    destruct w as [|w'] eqn:Ew.
    + exists 0%nat. cbn [fst snd rem decs dflt]. repeat split; try lia; try reflexivity; try (intro; discriminate).
      intros _. left. simpl. lia.
    + destruct (rem r) as [|x l] eqn:Er.
      * exists 0%nat. cbn [fst snd rem decs dflt]. repeat split; try lia; try reflexivity; try (intro; discriminate).
      * exists (Nat.min (S w') (length (x :: l))). cbn [fst snd rem decs dflt].
        repeat split; try lia; try reflexivity.
        -- intro H. apply andb_true_iff in H. destruct H as [H _]. apply Nat.eqb_eq in H. lia.
        -- intros _. left. simpl. lia.
Qed.

(** What io.ReadFull returns, for every oracle. *)
Definition full_result (acc rm : list N) (need : nat) : list N * rstatus :=
  if (need <=? length rm)%nat then (acc ++ firstn need rm, RFull)
  else (acc ++ rm, match acc ++ rm with [] => REmpty | _ :: _ => RShort end).

Lemma readFull_spec : forall fuel r need acc,
  (length (decs r) + need < fuel)%nat ->
  exists r',
    readFull fuel r need acc = Some (fst (full_result acc (rem r) need), snd (full_result acc (rem r) need), r') /\
    rem r' = skipn need (rem r) /\ dflt r' = dflt r.
Proof.
  induction fuel as [|fuel IH]; intros r need acc Hf; [lia|].
  destruct need as [|need'].
  - exists r. unfold full_result. simpl. rewrite app_nil_r. repeat split.
  - cbn [readFull].
    remember (S need') as need eqn:En.
    assert (Hn1 : (1 <= need)%nat) by lia.
    destruct (read_spec r need Hn1) as (m & Hm & Hbs & Hrem & Hd & Heof & Hprog).
    destruct (read r need) as [[bs eof] r1] eqn:Er. cbn [fst snd] in *.
    destruct eof.
    + (* io.EOF: the source is used up by this call *)
      specialize (Heof eq_refl).
      assert (Hbs' : bs = rem r) by (rewrite Hbs; apply firstn_all2; lia).
      exists r1. unfold full_result. split; [|split; [|exact Hd]].
      * destruct (Nat.leb_spec need (length (rem r))) as [Hle|Hgt]; cbn [fst snd].
        -- assert (length (rem r) = need) by lia.
           assert (E : (need - length bs = 0)%nat) by (rewrite Hbs'; lia). rewrite E.
           rewrite Hbs'. rewrite (firstn_all2 (rem r)) by lia. reflexivity.
        -- assert (E : (need - length bs = S (need - length bs - 1))%nat) by (rewrite Hbs'; lia).
           rewrite E. rewrite Hbs'. reflexivity.
      * rewrite Hrem. rewrite !skipn_all2; [reflexivity| lia | lia].
    + specialize (Hprog eq_refl).
      assert (Hlen_bs : length bs = Nat.min m (length (rem r))) by (rewrite Hbs; apply firstn_length).
      assert (Hfuel : (length (decs r1) + (need - length bs) < fuel)%nat).
      { destruct Hprog as [H|(H1 & H2 & H3 & H4)]; [lia|]. rewrite H1. rewrite H2 in Hf. simpl in *. lia. }
      destruct (IH r1 (need - length bs)%nat (acc ++ bs) Hfuel) as (r' & Hrf & Hrem' & Hd').
      exists r'. split; [|split].
      * rewrite Hrf. unfold full_result. rewrite Hrem.
        rewrite skipn_length.
        destruct (Nat.leb_spec need (length (rem r))) as [Hle|Hgt].
        -- assert (Hml : (m <= length (rem r))%nat) by lia.
           assert (length bs = m) by lia.
           destruct (Nat.leb_spec (need - length bs) (length (rem r) - m)) as [_|?]; [|lia].
           cbn [fst snd]. f_equal. f_equal. rewrite <- app_assoc. f_equal.
           rewrite Hbs. replace need with (m + (need - m))%nat at 2 by lia.
           rewrite firstn_plus. rewrite firstn_length, Nat.min_l by lia. reflexivity.
        -- destruct (Nat.leb_spec (need - length bs) (length (rem r) - m)) as [?|_].
           ++ (* the remaining need is met exactly when nothing is left to need *)
              assert ((length (rem r) - m = 0 \/ m <= length (rem r))%nat) as [Hz|Hz] by lia.
              ** exfalso. lia.
              ** exfalso. lia.
           ++ cbn [fst snd]. rewrite <- app_assoc. rewrite Hbs, firstn_skipn. reflexivity.
      * rewrite Hrem', Hrem, skipn_plus.
        destruct (Nat.le_ge_cases m (length (rem r))).
        -- f_equal. lia.
        -- (* m beyond the end: everything was skipped either way *)
           assert (length bs = length (rem r)) by lia.
           rewrite !skipn_all2; try reflexivity; lia.
      * congruence.
Qed.
