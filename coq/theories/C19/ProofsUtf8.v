(** C19 — the table-driven decoder of Next against RFC 3629.
    Everything here is re-checked whenever Gen/C19_Tables.v is regenerated from utf8.go:
    the sweeps over the 256 first bytes evaluate the regenerated tables and constants. *)
Require Import NArith ZArith List Bool Lia.
Import ListNotations.
From Algo.Gen Require Import C19_Tables.
From Algo.C19 Require Import Model Spec.
Local Open Scope N_scope.

Ltac Zify.zify_post_hook ::= Z.to_euclidean_division_equations.

(** [lia] does not see through [N.modulo]: state the bound of every [a mod b] in sight. *)
Ltac pose_mods :=
  repeat match goal with
  | |- context [?a mod ?b] =>
    lazymatch goal with
    | _ : a mod b < b |- _ => fail
    | _ => assert (a mod b < b) by (apply N.mod_upper_bound; lia)
    end
  | _ : context [?a mod ?b] |- _ =>
    lazymatch goal with
    | _ : a mod b < b |- _ => fail
    | _ => assert (a mod b < b) by (apply N.mod_upper_bound; lia)
    end
  end.
Ltac mlia := pose_mods; lia.

(* ------------------------------------------------------------------ finite sweeps *)

Definition bytes256 : list N := map N.of_nat (seq 0 256).

Lemma in_bytes256 : forall b, b < 256 -> In b bytes256.
Proof.
  intros b Hb. unfold bytes256. apply in_map_iff. exists (N.to_nat b). split.
  - apply N2Nat.id.
  - apply in_seq. lia.
Qed.

Lemma sweep : forall P : N -> bool,
  forallb P bytes256 = true -> forall b, b < 256 -> P b = true.
Proof.
  intros P H b Hb. rewrite forallb_forall in H. apply H, in_bytes256, Hb.
Qed.

(* ------------------------------------------------------------------ bit arithmetic *)

Lemma lor_shiftl_add : forall x y k, y < 2 ^ k -> N.lor (N.shiftl x k) y = x * 2 ^ k + y.
Proof.
  intros x y k Hy. rewrite N.shiftl_mul_pow2.
  assert (Hl : N.land (x * 2 ^ k) y = 0).
  { apply N.bits_inj. intro n. rewrite N.land_spec, N.bits_0.
    destruct (N.lt_ge_cases n k) as [Hn | Hn].
    - rewrite N.mul_pow2_bits_low by exact Hn. reflexivity.
    - destruct (N.eq_dec y 0) as [-> | Hy0].
      + rewrite N.bits_0. apply andb_false_r.
      + rewrite (N.bits_above_log2 y n), andb_false_r; [reflexivity|].
        apply N.lt_le_trans with k; [|exact Hn].
        apply N.log2_lt_pow2; lia. }
  rewrite <- (N.lxor_lor _ _ Hl). symmetry. apply N.add_nocarry_lxor, Hl.
Qed.

Definition in_range (lo hi b : N) : bool := (lo <=? b) && (b <=? hi).

Lemma mask2_ok : forall b, b < 256 -> 192 <= b < 224 -> N.land b c_mask2 = b - 192.
Proof.
  intros b Hb Hr.
  pose proof (sweep (fun b => implb (in_range 192 223 b) (N.land b c_mask2 =? b - 192))
                (eq_refl : _ = true) b Hb) as H.
  cbv beta in H. unfold in_range in H.
  replace (192 <=? b) with true in H by (symmetry; apply N.leb_le; lia).
  replace (b <=? 223) with true in H by (symmetry; apply N.leb_le; lia).
  simpl in H. apply N.eqb_eq, H.
Qed.

Lemma mask3_ok : forall b, b < 256 -> 224 <= b < 240 -> N.land b c_mask3 = b - 224.
Proof.
  intros b Hb Hr.
  pose proof (sweep (fun b => implb (in_range 224 239 b) (N.land b c_mask3 =? b - 224))
                (eq_refl : _ = true) b Hb) as H.
  cbv beta in H. unfold in_range in H.
  replace (224 <=? b) with true in H by (symmetry; apply N.leb_le; lia).
  replace (b <=? 239) with true in H by (symmetry; apply N.leb_le; lia).
  simpl in H. apply N.eqb_eq, H.
Qed.

Lemma mask4_ok : forall b, b < 256 -> 240 <= b < 248 -> N.land b c_mask4 = b - 240.
Proof.
  intros b Hb Hr.
  pose proof (sweep (fun b => implb (in_range 240 247 b) (N.land b c_mask4 =? b - 240))
                (eq_refl : _ = true) b Hb) as H.
  cbv beta in H. unfold in_range in H.
  replace (240 <=? b) with true in H by (symmetry; apply N.leb_le; lia).
  replace (b <=? 247) with true in H by (symmetry; apply N.leb_le; lia).
  simpl in H. apply N.eqb_eq, H.
Qed.

Lemma maskx_ok : forall b, 128 <= b <= 191 -> N.land b c_maskx = b - 128.
Proof.
  intros b Hr.
  assert (Hb : b < 256) by lia.
  pose proof (sweep (fun b => implb (in_range 128 191 b) (N.land b c_maskx =? b - 128))
                (eq_refl : _ = true) b Hb) as H.
  cbv beta in H. unfold in_range in H.
  replace (128 <=? b) with true in H by (symmetry; apply N.leb_le; lia).
  replace (b <=? 191) with true in H by (symmetry; apply N.leb_le; lia).
  simpl in H. apply N.eqb_eq, H.
Qed.

Lemma rune2_ok : forall b0 b1, b0 < 256 -> 192 <= b0 < 224 -> 128 <= b1 <= 191 ->
  rune2 b0 b1 = (b0 - 192) * 64 + (b1 - 128).
Proof.
  intros b0 b1 H0 Hr0 Hr1. unfold rune2.
  rewrite mask2_ok, maskx_ok by assumption.
  rewrite lor_shiftl_add by (change (2 ^ 6) with 64; lia). reflexivity.
Qed.

Lemma rune3_ok : forall b0 b1 b2, b0 < 256 -> 224 <= b0 < 240 -> 128 <= b1 <= 191 -> 128 <= b2 <= 191 ->
  rune3 b0 b1 b2 = (b0 - 224) * 4096 + (b1 - 128) * 64 + (b2 - 128).
Proof.
  intros b0 b1 b2 H0 Hr0 Hr1 Hr2. unfold rune3.
  rewrite mask3_ok, !maskx_ok by assumption.
  rewrite <- N.lor_assoc.
  rewrite (lor_shiftl_add (b1 - 128) (b2 - 128) 6) by (change (2 ^ 6) with 64; lia).
  rewrite lor_shiftl_add by (change (2 ^ 12) with 4096; change (2 ^ 6) with 64; lia).
  change (2 ^ 12) with 4096. change (2 ^ 6) with 64. lia.
Qed.

Lemma rune4_ok : forall b0 b1 b2 b3, b0 < 256 -> 240 <= b0 < 248 ->
  128 <= b1 <= 191 -> 128 <= b2 <= 191 -> 128 <= b3 <= 191 ->
  rune4 b0 b1 b2 b3 = (b0 - 240) * 262144 + (b1 - 128) * 4096 + (b2 - 128) * 64 + (b3 - 128).
Proof.
  intros b0 b1 b2 b3 H0 Hr0 Hr1 Hr2 Hr3. unfold rune4.
  rewrite mask4_ok, !maskx_ok by assumption.
  rewrite <- !N.lor_assoc.
  rewrite (lor_shiftl_add (b2 - 128) (b3 - 128) 6) by (change (2 ^ 6) with 64; lia).
  rewrite (lor_shiftl_add (b1 - 128) _ 12) by (change (2 ^ 12) with 4096; change (2 ^ 6) with 64; lia).
  rewrite lor_shiftl_add
    by (change (2 ^ 18) with 262144; change (2 ^ 12) with 4096; change (2 ^ 6) with 64; lia).
  change (2 ^ 18) with 262144. change (2 ^ 12) with 4096. change (2 ^ 6) with 64. lia.
Qed.

(* ------------------------------------------------------------------ classes of first bytes *)

(** What the tables say about a first byte / what Table 3-7 says about it. *)
Inductive cls := CAscii | CInv | CMulti (size lo hi : N).

Definition cls_eqb (a b : cls) : bool :=
  match a, b with
  | CAscii, CAscii | CInv, CInv => true
  | CMulti s l h, CMulti s' l' h' => (s =? s') && (l =? l') && (h =? h')
  | _, _ => false
  end.

Lemma cls_eqb_eq : forall a b, cls_eqb a b = true -> a = b.
Proof.
  intros [| |s l h] [| |s' l' h']; simpl; try discriminate; try reflexivity.
  rewrite !andb_true_iff, !N.eqb_eq. intros [[-> ->] ->]. reflexivity.
Qed.

Definition tcls (b0 : N) : cls :=
  let x := tfirst b0 in
  if c_as <=? x then (if x =? c_xx then CInv else CAscii)
  else let '(lo, hi) := taccept (N.shiftr x 4) in CMulti (N.land x 7) lo hi.

Definition scls (b0 : N) : cls :=
  if b0 <? 128 then CAscii
  else if b0 <? 194 then CInv
  else if b0 <? 224 then CMulti 2 128 191
  else if b0 <? 240 then CMulti 3 (if b0 =? 224 then 160 else 128) (if b0 =? 237 then 159 else 191)
  else if b0 <? 245 then CMulti 4 (if b0 =? 240 then 144 else 128) (if b0 =? 244 then 143 else 191)
  else CInv.

(** The sweep over the regenerated [first] and [acceptRanges]. *)
Lemma tables_classify : forall b0, b0 < 256 -> tcls b0 = scls b0.
Proof.
  intros b0 Hb. apply cls_eqb_eq.
  exact (sweep (fun b => cls_eqb (tcls b) (scls b)) (eq_refl : _ = true) b0 Hb).
Qed.

Lemma consts_ok : c_locb = 128 /\ c_hicb = 191.
Proof. split; reflexivity. Qed.

(** [dec] driven by the class of the first byte. *)
Definition dec_cls (c : cls) (b0 : N) (t : list N) : dres :=
  match c with
  | CAscii => DRune b0 1
  | CInv => DInvalid
  | CMulti size lo hi =>
    match t with [] => DTrunc | b1 :: t =>
    if (b1 <? lo) || (hi <? b1) then DInvalid else
    if size =? 2 then DRune (rune2 b0 b1) size else
    match t with [] => DTrunc | b2 :: t =>
    if (b2 <? 128) || (191 <? b2) then DInvalid else
    if size =? 3 then DRune (rune3 b0 b1 b2) size else
    match t with [] => DTrunc | b3 :: _ =>
    if (b3 <? 128) || (191 <? b3) then DInvalid else
    DRune (rune4 b0 b1 b2 b3) size
    end end end
  end.

Lemma dec_as_cls : forall b0 t, dec (b0 :: t) = dec_cls (tcls b0) b0 t.
Proof.
  intros b0 t. unfold dec, tcls.
  destruct (c_as <=? tfirst b0).
  - destruct (tfirst b0 =? c_xx); reflexivity.
  - destruct (taccept (N.shiftr (tfirst b0) 4)) as [lo hi]. reflexivity.
Qed.

Lemma range_neg : forall lo hi b, (b <? lo) || (hi <? b) = negb ((lo <=? b) && (b <=? hi)).
Proof.
  intros. destruct (N.ltb_spec b lo), (N.ltb_spec hi b), (N.leb_spec lo b), (N.leb_spec b hi);
    simpl; try reflexivity; lia.
Qed.

(** The table-driven decoder agrees with Table 3-7 on every byte string (only the first byte is
    looked up in a table, so only it has to be a byte). *)
Lemma dec_eq_spec : forall b0 t, b0 < 256 -> dec (b0 :: t) = spec_dec (b0 :: t).
Proof.
  intros b0 t Hb. rewrite dec_as_cls, (tables_classify b0 Hb).
  unfold scls, spec_dec.
  destruct (N.ltb_spec b0 128) as [H1|H1]; [reflexivity|].
  destruct (N.ltb_spec b0 194) as [H2|H2]; [reflexivity|].
  destruct (N.ltb_spec b0 224) as [H3|H3].
  { (* two bytes *)
    simpl. destruct t as [|b1 t]; [reflexivity|].
    rewrite range_neg. unfold cont.
    destruct (N.leb_spec 128 b1), (N.leb_spec b1 191); simpl; try reflexivity.
    rewrite rune2_ok by lia. reflexivity. }
  destruct (N.ltb_spec b0 240) as [H4|H4].
  { (* three bytes *)
    simpl. destruct t as [|b1 t]; [reflexivity|].
    rewrite range_neg.
    set (lo := if b0 =? 224 then 160 else 128). set (hi := if b0 =? 237 then 159 else 191).
    assert (Hlo : 128 <= lo) by (unfold lo; destruct (b0 =? 224); lia).
    assert (Hhi : hi <= 191) by (unfold hi; destruct (b0 =? 237); lia).
    destruct (N.leb_spec lo b1), (N.leb_spec b1 hi); simpl; try reflexivity.
    destruct t as [|b2 t]; [reflexivity|].
    rewrite range_neg. unfold cont.
    destruct (N.leb_spec 128 b2), (N.leb_spec b2 191); simpl; try reflexivity.
    rewrite rune3_ok by lia. reflexivity. }
  destruct (N.ltb_spec b0 245) as [H5|H5]; [|reflexivity].
  { (* four bytes *)
    simpl. destruct t as [|b1 t]; [reflexivity|].
    rewrite range_neg.
    set (lo := if b0 =? 240 then 144 else 128). set (hi := if b0 =? 244 then 143 else 191).
    assert (Hlo : 128 <= lo) by (unfold lo; destruct (b0 =? 240); lia).
    assert (Hhi : hi <= 191) by (unfold hi; destruct (b0 =? 244); lia).
    destruct (N.leb_spec lo b1), (N.leb_spec b1 hi); simpl; try reflexivity.
    destruct t as [|b2 t]; [reflexivity|].
    rewrite range_neg. unfold cont.
    destruct (N.leb_spec 128 b2), (N.leb_spec b2 191); simpl; try reflexivity.
    destruct t as [|b3 t]; [reflexivity|].
    rewrite range_neg.
    destruct (N.leb_spec 128 b3), (N.leb_spec b3 191); simpl; try reflexivity.
    rewrite rune4_ok by lia. reflexivity. }
Qed.

(* ------------------------------------------------------------------ Table 3-7 against the encoder *)

Definition elen (c : N) : N := N.of_nat (length (encode c)).

Lemma encode_cases : forall c,
  (c < 128 /\ encode c = [c]) \/
  (128 <= c < 2048 /\ encode c = [192 + c / 64; 128 + c mod 64]) \/
  (2048 <= c < 65536 /\ encode c = [224 + c / 4096; 128 + (c / 64) mod 64; 128 + c mod 64]) \/
  (65536 <= c /\
   encode c = [240 + c / 262144; 128 + (c / 4096) mod 64; 128 + (c / 64) mod 64; 128 + c mod 64]).
Proof.
  intro c. unfold encode.
  destruct (N.ltb_spec c 128); [left; split; [assumption|reflexivity]|].
  destruct (N.ltb_spec c 2048); [right; left; split; [lia|reflexivity]|].
  destruct (N.ltb_spec c 65536); [right; right; left; split; [lia|reflexivity]|].
  right; right; right. split; [assumption|reflexivity].
Qed.

Lemma encode_nonempty : forall c, encode c <> [].
Proof.
  intro c. destruct (encode_cases c) as [[_ ->]|[[_ ->]|[[_ ->]|[_ ->]]]]; discriminate.
Qed.

Lemma encode_bytes : forall c, c <= 1114111 -> Forall (fun b => b < 256) (encode c).
Proof.
  intros c Hc. destruct (encode_cases c) as [[H ->]|[[H ->]|[[H ->]|[H ->]]]];
    repeat (apply Forall_cons; [cbv beta; mlia|]); apply Forall_nil.
Qed.

Lemma encode_nonzero : forall c, c <> 0 -> Forall (fun b => b <> 0) (encode c).
Proof.
  intros c Hc. destruct (encode_cases c) as [[H ->]|[[H ->]|[[H ->]|[H ->]]]];
    repeat (apply Forall_cons; [cbv beta; mlia|]); apply Forall_nil.
Qed.

Lemma ltb_false : forall a b, b <= a -> (a <? b) = false.
Proof. intros. apply N.ltb_ge. assumption. Qed.
Lemma ltb_true : forall a b, a < b -> (a <? b) = true.
Proof. intros. apply N.ltb_lt. assumption. Qed.
Lemma leb_true : forall a b, a <= b -> (a <=? b) = true.
Proof. intros. apply N.leb_le. assumption. Qed.
Lemma eqb_false : forall a b, a <> b -> (a =? b) = false.
Proof. intros. apply N.eqb_neq. assumption. Qed.

Ltac sim := cbn -[N.add N.mul N.div N.modulo N.sub N.ltb N.leb N.eqb N.land N.lor N.shiftl N.shiftr].

(** Every scalar value is decoded from its encoding, whatever follows. *)
Lemma spec_dec_encode : forall c rest, scalar c ->
  spec_dec (encode c ++ rest) = DRune c (elen c).
Proof.
  intros c rest Hs. unfold elen.
  destruct (encode_cases c) as [[H ->]|[[H ->]|[[H ->]|[H ->]]]]; sim.
  - rewrite ltb_true by lia. reflexivity.
  - rewrite (ltb_false (192 + c / 64) 128), (ltb_false (192 + c / 64) 194), (ltb_true (192 + c / 64) 224) by lia.
    unfold cont. rewrite !leb_true by lia. sim. f_equal.
    pose proof (N.div_mod c 64). lia.
  - assert (Hc : c < 55296 \/ 57344 <= c) by (destruct Hs; lia).
    rewrite (ltb_false (224 + c / 4096) 128), (ltb_false (224 + c / 4096) 194),
            (ltb_false (224 + c / 4096) 224), (ltb_true (224 + c / 4096) 240) by lia.
    assert (Hq : c / 64 = (c / 4096) * 64 + (c / 64) mod 64).
    { pose proof (N.div_mod (c / 64) 64). rewrite N.div_div in H0 by lia. change (64 * 64) with 4096 in H0. lia. }
    set (lo := if 224 + c / 4096 =? 224 then 160 else 128).
    set (hi := if 224 + c / 4096 =? 237 then 159 else 191).
    assert (Hlo : lo <= 128 + (c / 64) mod 64).
    { unfold lo. destruct (N.eqb_spec (224 + c / 4096) 224); [|lia].
      assert (c / 4096 = 0) by lia. assert (32 <= c / 64) by lia. lia. }
    assert (Hhi : 128 + (c / 64) mod 64 <= hi).
    { unfold hi. destruct (N.eqb_spec (224 + c / 4096) 237); [|lia].
      assert (c / 4096 = 13) by lia. assert (c / 64 < 864) by lia. lia. }
    rewrite (leb_true lo), (leb_true _ hi) by assumption. sim.
    unfold cont. rewrite !leb_true by lia. sim. f_equal.
    pose proof (N.div_mod c 64). lia.
  - assert (Hc : c <= 1114111) by (destruct Hs; lia).
    rewrite (ltb_false (240 + c / 262144) 128), (ltb_false (240 + c / 262144) 194),
            (ltb_false (240 + c / 262144) 224), (ltb_false (240 + c / 262144) 240),
            (ltb_true (240 + c / 262144) 245) by lia.
    assert (Hq1 : c / 64 = (c / 4096) * 64 + (c / 64) mod 64).
    { pose proof (N.div_mod (c / 64) 64). rewrite N.div_div in H0 by lia. change (64 * 64) with 4096 in H0. lia. }
    assert (Hq2 : c / 4096 = (c / 262144) * 64 + (c / 4096) mod 64).
    { pose proof (N.div_mod (c / 4096) 64). rewrite N.div_div in H0 by lia. change (4096 * 64) with 262144 in H0. lia. }
    set (lo := if 240 + c / 262144 =? 240 then 144 else 128).
    set (hi := if 240 + c / 262144 =? 244 then 143 else 191).
    assert (Hlo : lo <= 128 + (c / 4096) mod 64).
    { unfold lo. destruct (N.eqb_spec (240 + c / 262144) 240); [|lia].
      assert (c / 262144 = 0) by lia. assert (16 <= c / 4096) by lia. lia. }
    assert (Hhi : 128 + (c / 4096) mod 64 <= hi).
    { unfold hi. destruct (N.eqb_spec (240 + c / 262144) 244); [|lia].
      assert (c / 262144 = 4) by lia. assert (c / 4096 < 272) by lia. lia. }
    rewrite (leb_true lo), (leb_true _ hi) by assumption. sim.
    unfold cont. rewrite !leb_true by lia. sim. f_equal.
    pose proof (N.div_mod c 64). lia.
Qed.

(** Conversely, whatever Table 3-7 accepts is the encoding of the scalar value it returns. *)
Lemma spec_dec_sound : forall bs c k, spec_dec bs = DRune c k ->
  scalar c /\ k = elen c /\ exists rest, bs = encode c ++ rest.
Proof.
  intros bs c k. unfold spec_dec, elen.
  destruct bs as [|b0 t]; [discriminate|].
  destruct (N.ltb_spec b0 128) as [H1|H1].
  { intro E; injection E as <- <-. split; [left; lia|].
    unfold encode. rewrite ltb_true by lia. split; [reflexivity|]. exists t. reflexivity. }
  destruct (N.ltb_spec b0 194) as [H2|H2]; [discriminate|].
  destruct (N.ltb_spec b0 224) as [H3|H3].
  { destruct t as [|b1 t]; [discriminate|]. unfold cont.
    destruct (N.leb_spec 128 b1); [|discriminate]. destruct (N.leb_spec b1 191); [|discriminate].
    sim. intro E; injection E as <- <-.
    set (c := (b0 - 192) * 64 + (b1 - 128)).
    assert (Hc : 128 <= c < 2048) by (unfold c; lia).
    split; [left; lia|].
    unfold encode. rewrite ltb_false, ltb_true by lia.
    split; [reflexivity|]. exists t. sim. f_equal; [|f_equal].
    - assert (c / 64 = b0 - 192) by (symmetry; apply N.div_unique with (r := b1 - 128); unfold c; lia). lia.
    - assert (c mod 64 = b1 - 128) by (symmetry; apply N.mod_unique with (q := b0 - 192); unfold c; lia). lia. }
  destruct (N.ltb_spec b0 240) as [H4|H4].
  { destruct t as [|b1 t]; [discriminate|].
    set (lo := if b0 =? 224 then 160 else 128). set (hi := if b0 =? 237 then 159 else 191).
    destruct (N.leb_spec lo b1) as [Hl|]; [|discriminate].
    destruct (N.leb_spec b1 hi) as [Hh|]; [|discriminate]. sim.
    destruct t as [|b2 t]; [discriminate|]. unfold cont.
    destruct (N.leb_spec 128 b2); [|discriminate]. destruct (N.leb_spec b2 191); [|discriminate].
    sim. intro E; injection E as <- <-.
    assert (Hb1 : 128 <= b1 <= 191).
    { unfold lo in Hl; unfold hi in Hh. destruct (b0 =? 224), (b0 =? 237); lia. }
    set (c := (b0 - 224) * 4096 + (b1 - 128) * 64 + (b2 - 128)).
    assert (Hc : 2048 <= c < 65536 /\ (c < 55296 \/ 57344 <= c)).
    { unfold c. unfold lo in Hl; unfold hi in Hh.
      destruct (N.eqb_spec b0 224), (N.eqb_spec b0 237); lia. }
    split; [destruct Hc as [? [?|?]]; [left|right]; lia|].
    unfold encode. rewrite !ltb_false, ltb_true by lia.
    split; [reflexivity|]. exists t. sim.
    assert (E0 : c / 4096 = b0 - 224)
      by (symmetry; apply N.div_unique with (r := (b1 - 128) * 64 + (b2 - 128)); unfold c; lia).
    assert (E1 : c / 64 = (b0 - 224) * 64 + (b1 - 128))
      by (symmetry; apply N.div_unique with (r := b2 - 128); unfold c; lia).
    assert (E2 : c mod 64 = b2 - 128)
      by (symmetry; apply N.mod_unique with (q := (b0 - 224) * 64 + (b1 - 128)); unfold c; lia).
    assert (E3 : (c / 64) mod 64 = b1 - 128)
      by (rewrite E1; symmetry; apply N.mod_unique with (q := b0 - 224); lia).
    rewrite E0, E2, E3. f_equal; [lia|]. f_equal; [lia|]. f_equal. lia. }
  destruct (N.ltb_spec b0 245) as [H5|H5]; [|discriminate].
  { destruct t as [|b1 t]; [discriminate|].
    set (lo := if b0 =? 240 then 144 else 128). set (hi := if b0 =? 244 then 143 else 191).
    destruct (N.leb_spec lo b1) as [Hl|]; [|discriminate].
    destruct (N.leb_spec b1 hi) as [Hh|]; [|discriminate]. sim.
    destruct t as [|b2 t]; [discriminate|]. unfold cont.
    destruct (N.leb_spec 128 b2); [|discriminate]. destruct (N.leb_spec b2 191); [|discriminate].
    sim. destruct t as [|b3 t]; [discriminate|].
    destruct (N.leb_spec 128 b3); [|discriminate]. destruct (N.leb_spec b3 191); [|discriminate].
    sim. intro E; injection E as <- <-.
    assert (Hb1 : 128 <= b1 <= 191).
    { unfold lo in Hl; unfold hi in Hh. destruct (b0 =? 240), (b0 =? 244); lia. }
    set (c := (b0 - 240) * 262144 + (b1 - 128) * 4096 + (b2 - 128) * 64 + (b3 - 128)).
    assert (Hc : 65536 <= c <= 1114111).
    { unfold c. unfold lo in Hl; unfold hi in Hh.
      destruct (N.eqb_spec b0 240), (N.eqb_spec b0 244); lia. }
    split; [right; lia|].
    unfold encode. rewrite !ltb_false by lia.
    split; [reflexivity|]. exists t. sim.
    assert (E0 : c / 262144 = b0 - 240)
      by (symmetry; apply N.div_unique with (r := (b1 - 128) * 4096 + (b2 - 128) * 64 + (b3 - 128)); unfold c; lia).
    assert (E1 : c / 4096 = (b0 - 240) * 64 + (b1 - 128))
      by (symmetry; apply N.div_unique with (r := (b2 - 128) * 64 + (b3 - 128)); unfold c; lia).
    assert (E2 : c / 64 = (b0 - 240) * 4096 + (b1 - 128) * 64 + (b2 - 128))
      by (symmetry; apply N.div_unique with (r := b3 - 128); unfold c; lia).
    assert (E3 : c mod 64 = b3 - 128)
      by (symmetry; apply N.mod_unique with (q := (b0 - 240) * 4096 + (b1 - 128) * 64 + (b2 - 128)); unfold c; lia).
    assert (E4 : (c / 64) mod 64 = b2 - 128)
      by (rewrite E2; symmetry; apply N.mod_unique with (q := (b0 - 240) * 64 + (b1 - 128)); lia).
    assert (E5 : (c / 4096) mod 64 = b1 - 128)
      by (rewrite E1; symmetry; apply N.mod_unique with (q := b0 - 240); lia).
    rewrite E0, E3, E4, E5. f_equal; [lia|]. f_equal; [lia|]. f_equal; [lia|]. f_equal. lia. }
Qed.

(* ------------------------------------------------------------------ the theorem about the tables *)

(** The decoder driven by the regenerated tables accepts exactly the well-formed sequences of
    RFC 3629 and returns their code points. *)
Theorem utf8_tables_correct_proof :
  (forall c rest, scalar c -> dec (encode c ++ rest) = DRune c (elen c)) /\
  (forall b0 t c k, b0 < 256 -> dec (b0 :: t) = DRune c k ->
     scalar c /\ k = elen c /\ exists rest, b0 :: t = encode c ++ rest) /\
  (forall b0 t, b0 < 256 -> dec (b0 :: t) = spec_dec (b0 :: t)).
Proof.
  split; [|split].
  - intros c rest Hs.
    assert (Hc : c <= 1114111) by (destruct Hs; lia).
    pose proof (encode_bytes c Hc) as Hb. pose proof (encode_nonempty c) as Hne.
    destruct (encode c) as [|b0 t] eqn:E; [contradiction|].
    inversion Hb; subst. change ((b0 :: t) ++ rest) with (b0 :: (t ++ rest)).
    rewrite dec_eq_spec by assumption.
    change (b0 :: t ++ rest) with ((b0 :: t) ++ rest). rewrite <- E. apply spec_dec_encode, Hs.
  - intros b0 t c k Hb Hd. rewrite dec_eq_spec in Hd by assumption.
    apply spec_dec_sound, Hd.
  - exact dec_eq_spec.
Qed.

(* ------------------------------------------------------------------ whole sources *)

Lemma elen_pos : forall c, (0 < N.to_nat (elen c))%nat.
Proof.
  intro c. unfold elen. rewrite Nat2N.id. pose proof (encode_nonempty c).
  destruct (encode c); [contradiction|simpl; lia].
Qed.

Lemma skipn_elen : forall c rest, skipn (N.to_nat (elen c)) (encode c ++ rest) = rest.
Proof.
  intros. unfold elen. rewrite Nat2N.id. rewrite skipn_app, skipn_all, Nat.sub_diag. reflexivity.
Qed.

(** Decoding the encoding of scalar values gives them back. *)
Lemma spec_decode_encode_all : forall rs fuel, Forall scalar rs ->
  (length (encode_all rs) <= fuel)%nat ->
  decode_with spec_dec fuel (encode_all rs) = (rs, TClean).
Proof.
  induction rs as [|c rs IH]; intros fuel Hs Hf.
  - destruct fuel; reflexivity.
  - inversion Hs as [|? ? Hc Hrs]; subst.
    change (encode_all (c :: rs)) with (encode c ++ encode_all rs) in *.
    pose proof (encode_nonempty c) as Hne. rewrite app_length in Hf.
    assert (Hlen : (0 < length (encode c))%nat) by (destruct (encode c); [contradiction|simpl; lia]).
    destruct fuel as [|fuel]; [lia|].
    remember (encode c ++ encode_all rs) as l eqn:El.
    destruct l as [|x l].
    { exfalso. apply (f_equal (@length N)) in El. rewrite app_length in El. simpl in El. lia. }
    cbn [decode_with]. rewrite El.
    rewrite spec_dec_encode by assumption.
    rewrite skipn_elen. rewrite IH; [reflexivity|assumption|lia].
Qed.
