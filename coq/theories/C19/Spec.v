(** C19 — specification side: UTF-8 as defined by RFC 3629 / Unicode Table 3-7 (no tables of the
    implementation are used here), line/column arithmetic, and the abstract reader: two rune
    indices into the decoded source. *)
Require Import NArith ZArith List Bool.
Import ListNotations.
From Algo.C19 Require Import Model.
Local Open Scope N_scope.

(* ------------------------------------------------------------------ UTF-8 *)

(** Unicode scalar values: 0..10FFFF without the surrogates D800..DFFF. *)
Definition scalar (c : N) : Prop := c < 55296 \/ (57344 <= c /\ c <= 1114111).
Definition scalarb (c : N) : bool := (c <? 55296) || ((57344 <=? c) && (c <=? 1114111)).

(** RFC 3629 section 3: the encoding of a scalar value. *)
Definition encode (c : N) : list N :=
  if c <? 128 then [c]
  else if c <? 2048 then [192 + c / 64; 128 + c mod 64]
  else if c <? 65536 then [224 + c / 4096; 128 + (c / 64) mod 64; 128 + c mod 64]
  else [240 + c / 262144; 128 + (c / 4096) mod 64; 128 + (c / 64) mod 64; 128 + c mod 64].

Definition encode_all (rs : list N) : list N := flat_map encode rs.

(** A source is valid UTF-8 when it is the encoding of a sequence of scalar values. *)
Definition valid_utf8 (bs : list N) : Prop := exists rs, Forall scalar rs /\ bs = encode_all rs.

Definition cont (b : N) : bool := (128 <=? b) && (b <=? 191).

(** Unicode Table 3-7 (well-formed UTF-8 byte sequences) as a decision procedure on the next
    bytes: the scalar value and its length, ill-formed, or cut off by the end of the bytes. *)
Definition spec_dec (bs : list N) : dres :=
  match bs with [] => DTrunc | b0 :: t =>
  if b0 <? 128 then DRune b0 1
  else if b0 <? 194 then DInvalid
  else if b0 <? 224 then
    match t with [] => DTrunc | b1 :: _ =>
      if cont b1 then DRune ((b0 - 192) * 64 + (b1 - 128)) 2 else DInvalid
    end
  else if b0 <? 240 then
    match t with [] => DTrunc | b1 :: t =>
      let lo := if b0 =? 224 then 160 else 128 in
      let hi := if b0 =? 237 then 159 else 191 in
      if (lo <=? b1) && (b1 <=? hi) then
        match t with [] => DTrunc | b2 :: _ =>
          if cont b2 then DRune ((b0 - 224) * 4096 + (b1 - 128) * 64 + (b2 - 128)) 3 else DInvalid
        end
      else DInvalid
    end
  else if b0 <? 245 then
    match t with [] => DTrunc | b1 :: t =>
      let lo := if b0 =? 240 then 144 else 128 in
      let hi := if b0 =? 244 then 143 else 191 in
      if (lo <=? b1) && (b1 <=? hi) then
        match t with [] => DTrunc | b2 :: t =>
          if cont b2 then
            match t with [] => DTrunc | b3 :: _ =>
              if cont b3
              then DRune ((b0 - 240) * 262144 + (b1 - 128) * 4096 + (b2 - 128) * 64 + (b3 - 128)) 4
              else DInvalid
            end
          else DInvalid
        end
      else DInvalid
    end
  else DInvalid
  end.

(** How a byte string ends after its longest well-formed prefix. *)
Inductive dtail := TClean | TInvalid | TTrunc.

(** Decode a whole byte string with a one-rune decoder [d]: the runes of the longest
    well-formed prefix and how it ends.  Fuel [length bs] is enough. *)
Fixpoint decode_with (d : list N -> dres) (fuel : nat) (bs : list N) : list N * dtail :=
  match bs with
  | [] => ([], TClean)
  | _ :: _ =>
    match fuel with
    | O => ([], TInvalid)
    | S fuel' =>
      match d bs with
      | DRune c k =>
        let '(cs, t) := decode_with d fuel' (skipn (N.to_nat k) bs) in (c :: cs, t)
      | DInvalid => ([], TInvalid)
      | DTrunc => ([], TTrunc)
      end
    end
  end.

Definition spec_decode (bs : list N) : list N * dtail := decode_with spec_dec (length bs) bs.

(* ------------------------------------------------------------------ positions *)

(** Line and column (1-based) of what follows the runes [rs]. *)
Definition lc_step (lc : Z * Z) (r : N) : Z * Z :=
  let '(l, c) := lc in if r =? 10 then ((l + 1)%Z, 1%Z) else (l, (c + 1)%Z).
Definition lc_after (rs : list N) : Z * Z := fold_left lc_step rs (1%Z, 1%Z).

(* ------------------------------------------------------------------ the abstract reader *)

Definition sub {A : Type} (b f : nat) (l : list A) : list A := firstn (f - b) (skipn b l).

(** What the property lets the caller see of one call. *)
Inductive sout :=
| SRune (c : N) | SEOF | SInvalid
| SUnit
| SLexeme (bs : list N) (line col : Z)
| SSkip (line col : Z).

(** The source as the property sees it: the decoded runes, and whether ill-formed bytes follow. *)
Record ssrc := mkSsrc { sp_runes : list N; sp_bad : bool }.

(** State: rune index of the lexeme begin and of forward. *)
Definition sstep (s : ssrc) (st : nat * nat) (o : op) : sout * (nat * nat) :=
  let '(b, f) := st in
  match o with
  | ONext =>
    match nth_error (sp_runes s) f with
    | Some c => (SRune c, (b, S f))
    | None => (if sp_bad s then SInvalid else SEOF, (b, f))
    end
  | ORetract => (SUnit, (b, if Nat.ltb b f then Nat.pred f else f))
  | OLexeme =>
    let '(l, c) := lc_after (firstn b (sp_runes s)) in
    (SLexeme (encode_all (sub b f (sp_runes s))) l c, (f, f))
  | OSkip =>
    let '(l, c) := lc_after (firstn b (sp_runes s)) in
    (SSkip l c, (f, f))
  end.

Fixpoint srun (s : ssrc) (st : nat * nat) (ops : list op) : list sout * (nat * nat) :=
  match ops with
  | [] => ([], st)
  | o :: ops =>
    let '(v, st1) := sstep s st o in
    let '(vs, st2) := srun s st1 ops in (v :: vs, st2)
  end.

(** Bytes of the pending lexeme (from the lexeme begin to forward). *)
Definition pending (s : ssrc) (st : nat * nat) : nat :=
  length (encode_all (sub (fst st) (snd st) (sp_runes s))).

(** The history keeps the pending lexeme within [n] bytes after every call. *)
Fixpoint within (n : nat) (s : ssrc) (st : nat * nat) (ops : list op) : bool :=
  match ops with
  | [] => true
  | o :: ops =>
    let st1 := snd (sstep s st o) in
    Nat.leb (pending s st1) n && within n s st1 ops
  end.

(** The spans consumed by the Lexeme and Skip calls of a history, in order. *)
Fixpoint spans (s : ssrc) (st : nat * nat) (ops : list op) : list (list N) :=
  match ops with
  | [] => []
  | o :: ops =>
    let st1 := snd (sstep s st o) in
    match o with
    | OLexeme | OSkip => encode_all (sub (fst st) (snd st) (sp_runes s)) :: spans s st1 ops
    | _ => spans s st1 ops
    end
  end.

(** Projection of the model's results onto what the property talks about (the rune offset and
    the position inside an invalid-UTF-8 error are not part of it). *)
Definition proj (v : out) : sout :=
  match v with
  | VRune c => SRune c
  | VEOF => SEOF
  | VInvalid _ => SInvalid
  | VUnit => SUnit
  | VLexeme bs p => SLexeme bs (p_line p) (p_col p)
  | VSkip p => SSkip (p_line p) (p_col p)
  end.
