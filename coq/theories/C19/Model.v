(** C19 — executable model of the two-buffer input reader, /repo/lexer/input/input.go, as it is
    after the four [fix:] commits (io.ReadFull loads, forward wraps on a failed reload, a loaded
    half is not reloaded after a Retract, Retract clears the look-ahead io.EOF).

    Go [int] is [Z]; bytes and runes are [N]; the two undo stacks are lists (head = top; the LIFO
    behaviour of list.Stack is property C18).  Index errors are [Panic], loops without a
    structural bound ([io.ReadFull], the copy loop of [Lexeme]) run on fuel and report [Hang].
    The UTF-8 tables and constants come from Algo.Gen.C19_Tables, regenerated from utf8.go.

    The io.Reader is an oracle: a list of decisions, one per [Read] call, then a default
    decision applied for ever.  Every behaviour the io.Reader contract allows to a reader that
    eventually delivers the source is an oracle: short reads, (0,nil) stalls, io.EOF together
    with the last bytes or on the following call. *)
Require Import NArith ZArith List Bool.
Import ListNotations.
From Algo.Gen Require Import C19_Tables.

Inductive res (A : Type) : Type := Ok (a : A) | Panic | Hang.
Arguments Ok {A} a.
Arguments Panic {A}.
Arguments Hang {A}.

Definition bind {A B : Type} (r : res A) (f : A -> res B) : res B :=
  match r with Ok a => f a | Panic => Panic | Hang => Hang end.

(* ------------------------------------------------------------------ reader oracle *)

(** How many bytes one [Read(p)] hands over: all of [p], the first half of [p] rounded up
    (iotest.HalfReader), or at most [k] bytes ([AK 1] = iotest.OneByteReader, [AK 0] = a stall
    returning (0, nil)). *)
Inductive amount := AFull | AHalf | AK (k : nat).

(** [d_eof]: when this call hands over the last byte of the source, io.EOF comes with it
    (iotest.DataErrReader) instead of on the next call. *)
Record decision := mkDec { d_amt : amount; d_eof : bool }.

Record reader := mkReader { rem : list N; decs : list decision; dflt : decision }.

Definition want_of (a : amount) (len : nat) : nat :=
  match a with
  | AFull => len
  | AHalf => Nat.div2 (S len)
  | AK k => Nat.min k len
  end.

(** One [Read] into a slice of [len >= 1] bytes: (bytes written, io.EOF?, reader afterwards).
    Once the decision list is used up the default decision applies, forced to make progress. *)
Definition read (r : reader) (len : nat) : list N * bool * reader :=
  let '(d, ds, w) :=
    match decs r with
    | d :: ds => (d, ds, want_of (d_amt d) len)
    | [] => (dflt r, [], Nat.max 1 (want_of (d_amt (dflt r)) len))
    end in
  match w with
  | O => ([], false, mkReader (rem r) ds (dflt r))
  | S _ =>
    match rem r with
    | [] => ([], true, mkReader [] ds (dflt r))
    | _ :: _ =>
      let m := Nat.min w (length (rem r)) in
      (firstn m (rem r), Nat.eqb m (length (rem r)) && d_eof d,
       mkReader (skipn m (rem r)) ds (dflt r))
    end
  end.

(** io.ReadFull(src, buf) with len(buf) = need: RFull = (need, nil), RShort = (0<n<need,
    io.ErrUnexpectedEOF), REmpty = (0, io.EOF). [None] = fuel exhausted. *)
Inductive rstatus := RFull | RShort | REmpty.

Fixpoint readFull (fuel : nat) (r : reader) (need : nat) (acc : list N)
  : option (list N * rstatus * reader) :=
  match need with
  | O => Some (acc, RFull, r)
  | S _ =>
    match fuel with
    | O => None
    | S fuel' =>
      let '(bs, eof, r') := read r need in
      let acc' := acc ++ bs in
      let need' := need - length bs in
      if eof then
        Some (acc',
              match need' with
              | O => RFull
              | S _ => match acc' with [] => REmpty | _ :: _ => RShort end
              end, r')
      else readFull fuel' r' need' acc'
    end
  end.

(* ------------------------------------------------------------------ the Input struct *)

Record pos := mkPos { p_off : Z; p_line : Z; p_col : Z }.

Record input := mkInput {
  hn : nat;                 (* N = len(buff)/2 *)
  buff : list N;
  src : reader;
  secondLoaded : bool;
  lexemeBegin : Z;
  forward : Z;
  offset : Z;
  line : Z;
  column : Z;
  nextColumn : Z;
  runeSizes : list Z;
  lastColumns : list Z;
  err : bool                (* i.err == io.EOF; no other error arises from an oracle reader *)
}.

Definition set_buff i v := mkInput (hn i) v (src i) (secondLoaded i) (lexemeBegin i) (forward i) (offset i) (line i) (column i) (nextColumn i) (runeSizes i) (lastColumns i) (err i).
Definition set_src i v := mkInput (hn i) (buff i) v (secondLoaded i) (lexemeBegin i) (forward i) (offset i) (line i) (column i) (nextColumn i) (runeSizes i) (lastColumns i) (err i).
Definition set_second i v := mkInput (hn i) (buff i) (src i) v (lexemeBegin i) (forward i) (offset i) (line i) (column i) (nextColumn i) (runeSizes i) (lastColumns i) (err i).
Definition set_lb i v := mkInput (hn i) (buff i) (src i) (secondLoaded i) v (forward i) (offset i) (line i) (column i) (nextColumn i) (runeSizes i) (lastColumns i) (err i).
Definition set_fw i v := mkInput (hn i) (buff i) (src i) (secondLoaded i) (lexemeBegin i) v (offset i) (line i) (column i) (nextColumn i) (runeSizes i) (lastColumns i) (err i).
Definition set_offset i v := mkInput (hn i) (buff i) (src i) (secondLoaded i) (lexemeBegin i) (forward i) v (line i) (column i) (nextColumn i) (runeSizes i) (lastColumns i) (err i).
Definition set_line i v := mkInput (hn i) (buff i) (src i) (secondLoaded i) (lexemeBegin i) (forward i) (offset i) v (column i) (nextColumn i) (runeSizes i) (lastColumns i) (err i).
Definition set_column i v := mkInput (hn i) (buff i) (src i) (secondLoaded i) (lexemeBegin i) (forward i) (offset i) (line i) v (nextColumn i) (runeSizes i) (lastColumns i) (err i).
Definition set_nextColumn i v := mkInput (hn i) (buff i) (src i) (secondLoaded i) (lexemeBegin i) (forward i) (offset i) (line i) (column i) v (runeSizes i) (lastColumns i) (err i).
Definition set_runeSizes i v := mkInput (hn i) (buff i) (src i) (secondLoaded i) (lexemeBegin i) (forward i) (offset i) (line i) (column i) (nextColumn i) v (lastColumns i) (err i).
Definition set_lastColumns i v := mkInput (hn i) (buff i) (src i) (secondLoaded i) (lexemeBegin i) (forward i) (offset i) (line i) (column i) (nextColumn i) (runeSizes i) v (err i).
Definition set_err i v := mkInput (hn i) (buff i) (src i) (secondLoaded i) (lexemeBegin i) (forward i) (offset i) (line i) (column i) (nextColumn i) (runeSizes i) (lastColumns i) v.

(** buff[i]; an index outside [0, len) panics in Go. *)
Definition bget (b : list N) (i : Z) : option N :=
  if ((0 <=? i) && (i <? Z.of_nat (length b)))%Z then Some (nth (Z.to_nat i) b 0%N) else None.

(** buff[i] = v and copy(buff[low:], bs); only used with indices in range. *)
Definition bset (b : list N) (i : nat) (v : N) : list N := firstn i b ++ v :: skipn (S i) b.
Definition bwrite (b : list N) (low : nat) (bs : list N) : list N :=
  firstn low b ++ bs ++ skipn (low + length bs) b.

Definition hnZ (i : input) : Z := Z.of_nat (hn i).

(** loadFirst ([low] = 0) / loadSecond ([low] = N): io.ReadFull into the half, the eof sentinel
    after the last byte when the half is not full, io.ErrUnexpectedEOF is no error.
    The boolean is "returned io.EOF" (nothing at all could be read). *)
Definition load (low : nat) (i : input) : res (bool * input) :=
  let n := hn i in
  match readFull (length (decs (src i)) + n + 1) (src i) n [] with
  | None => Hang
  | Some (bs, st, r') =>
    let b1 := bwrite (buff i) low bs in
    let b2 := if Nat.ltb (length bs) n then bset b1 (low + length bs) 0%N else b1 in
    Ok (match st with REmpty => true | _ => false end, set_src (set_buff i b2) r')
  end.

(** next(): [None] = the sticky error (io.EOF) is returned. *)
Definition next (i : input) : res (option N * input) :=
  if err i then Ok (None, i) else
  match bget (buff i) (forward i) with
  | None => Panic
  | Some b =>
    let i1 := set_fw i (forward i + 1)%Z in
    bind
      (if (forward i1 =? hnZ i1)%Z then
         if secondLoaded i1 then Ok i1
         else bind (load (hn i1) i1) (fun '(e, i2) => Ok (set_second (set_err i2 e) true))
       else if (forward i1 =? 2 * hnZ i1)%Z then
         bind (if secondLoaded i1
               then bind (load 0 i1) (fun '(e, i2) => Ok (set_second (set_err i2 e) false))
               else Ok i1)
              (fun i2 => Ok (set_fw i2 0%Z))
       else Ok i1)
      (fun i3 =>
         if err i3 then Ok (Some b, i3) else
         match bget (buff i3) (forward i3) with
         | None => Panic
         | Some c => Ok (Some b, if (c =? 0)%N then set_err i3 true else i3)
         end)
  end.

Definition zlen {A} (l : list A) : Z := Z.of_nat (length l).

Definition posOf (i : input) : pos := mkPos (offset i) (line i) (column i).
Definition forwardPos (i : input) : pos :=
  mkPos (offset i + zlen (runeSizes i)) (line i + zlen (lastColumns i)) (nextColumn i).

Definition tfirst (b : N) : N := nth (N.to_nat b) first 0%N.
Definition taccept (k : N) : N * N := nth (N.to_nat k) acceptRanges (0%N, 0%N).

Inductive nres := NRune (c : N) | NEOF | NInvalid (p : pos).

Definition push_size (i : input) (size : Z) : input := set_runeSizes i (size :: runeSizes i).
Definition bump_col (i : input) : input := set_nextColumn i (nextColumn i + 1)%Z.

Definition rune2 (b0 b1 : N) : N :=
  N.lor (N.shiftl (N.land b0 c_mask2) 6) (N.land b1 c_maskx).
Definition rune3 (b0 b1 b2 : N) : N :=
  N.lor (N.lor (N.shiftl (N.land b0 c_mask3) 12) (N.shiftl (N.land b1 c_maskx) 6)) (N.land b2 c_maskx).
Definition rune4 (b0 b1 b2 b3 : N) : N :=
  N.lor (N.lor (N.lor (N.shiftl (N.land b0 c_mask4) 18) (N.shiftl (N.land b1 c_maskx) 12))
               (N.shiftl (N.land b2 c_maskx) 6)) (N.land b3 c_maskx).

(** Next(), statement by statement. *)
Definition Next (i : input) : res (nres * input) :=
  bind (next i) (fun '(ob0, i) =>
  match ob0 with None => Ok (NEOF, i) | Some b0 =>
  let x := tfirst b0 in
  if (c_as <=? x)%N then
    if (x =? c_xx)%N then Ok (NInvalid (forwardPos i), i)
    else
      let i := if (b0 =? 10)%N
               then set_nextColumn (set_lastColumns i (nextColumn i :: lastColumns i)) 1%Z
               else bump_col i in
      Ok (NRune b0, push_size i 1%Z)
  else
  let size := N.land x 7 in
  bind (next i) (fun '(ob1, i) =>
  match ob1 with None => Ok (NEOF, i) | Some b1 =>
  let '(lo, hi) := taccept (N.shiftr x 4) in
  if ((b1 <? lo) || (hi <? b1))%N then Ok (NInvalid (forwardPos i), i) else
  if (size =? 2)%N then Ok (NRune (rune2 b0 b1), bump_col (push_size i (Z.of_N size))) else
  bind (next i) (fun '(ob2, i) =>
  match ob2 with None => Ok (NEOF, i) | Some b2 =>
  if ((b2 <? c_locb) || (c_hicb <? b2))%N then Ok (NInvalid (forwardPos i), i) else
  if (size =? 3)%N then Ok (NRune (rune3 b0 b1 b2), bump_col (push_size i (Z.of_N size))) else
  bind (next i) (fun '(ob3, i) =>
  match ob3 with None => Ok (NEOF, i) | Some b3 =>
  if ((b3 <? c_locb) || (c_hicb <? b3))%N then Ok (NInvalid (forwardPos i), i) else
  Ok (NRune (rune4 b0 b1 b2 b3), bump_col (push_size i (Z.of_N size)))
  end) end) end) end).

(** The decoding decisions of [Next] on a plain byte list (what [Next] computes when [next]
    hands over these bytes and then reports io.EOF). *)
Inductive dres := DRune (c : N) (size : N) | DInvalid | DTrunc.

Definition dec (bs : list N) : dres :=
  match bs with [] => DTrunc | b0 :: t =>
  let x := tfirst b0 in
  if (c_as <=? x)%N then (if (x =? c_xx)%N then DInvalid else DRune b0 1) else
  let size := N.land x 7 in
  match t with [] => DTrunc | b1 :: t =>
  let '(lo, hi) := taccept (N.shiftr x 4) in
  if ((b1 <? lo) || (hi <? b1))%N then DInvalid else
  if (size =? 2)%N then DRune (rune2 b0 b1) size else
  match t with [] => DTrunc | b2 :: t =>
  if ((b2 <? c_locb) || (c_hicb <? b2))%N then DInvalid else
  if (size =? 3)%N then DRune (rune3 b0 b1 b2) size else
  match t with [] => DTrunc | b3 :: _ =>
  if ((b3 <? c_locb) || (c_hicb <? b3))%N then DInvalid else
  DRune (rune4 b0 b1 b2 b3) size
  end end end end.

(** Retract(). *)
Definition Retract (i : input) : res input :=
  match runeSizes i with
  | [] => Ok i
  | size :: rs =>
    let i := set_runeSizes i rs in
    let i := if err i then set_err i false else i in
    let f := (forward i - size)%Z in
    let f := if (f <? 0)%Z then (f + 2 * hnZ i)%Z else f in
    let i := set_fw i f in
    match bget (buff i) (forward i) with
    | None => Panic
    | Some c =>
      if (c =? 10)%N then
        match lastColumns i with
        | [] => Ok i
        | lc :: t => Ok (set_nextColumn (set_lastColumns i t) lc)
        end
      else Ok (set_nextColumn i (nextColumn i - 1)%Z)
    end
  end.

(** The copy loop of Lexeme(); the accumulator is reversed. *)
Fixpoint lexloop (fuel : nat) (i : input) (acc : list N) : res (list N * input) :=
  if (lexemeBegin i =? forward i)%Z then Ok (rev acc, i) else
  match fuel with
  | O => Hang
  | S fuel' =>
    match bget (buff i) (lexemeBegin i) with
    | None => Panic
    | Some b =>
      let lb := (lexemeBegin i + 1)%Z in
      let lb := if (lb =? 2 * hnZ i)%Z then 0%Z else lb in
      lexloop fuel' (set_lb i lb) (b :: acc)
    end
  end.

(** The bookkeeping shared by Lexeme() and Skip(): empty both stacks, advance offset/line/column. *)
Definition commit (i : input) : input :=
  let i := set_runeSizes (set_offset i (offset i + zlen (runeSizes i))%Z) [] in
  let i := set_lastColumns (set_line i (line i + zlen (lastColumns i))%Z) [] in
  set_column i (nextColumn i).

Definition Lexeme (i : input) : res (list N * pos * input) :=
  let p := posOf i in
  bind (lexloop (2 * hn i + 1) i []) (fun '(bs, i) => Ok (bs, p, commit i)).

Definition Skip (i : input) : pos * input :=
  (posOf i, commit (set_lb i (forward i))).

(** New(filename, src, n): [Ok None] = New returned (nil, io.EOF). *)
Definition new (n : nat) (r : reader) : res (option input) :=
  let i0 := mkInput n (repeat 0%N (2 * n)) r false 0 0 0 1 1 1 [] [] false in
  bind (load 0 i0) (fun '(e, i1) => if e then Ok None else Ok (Some i1)).

(* ------------------------------------------------------------------ histories *)

Inductive op := ONext | ORetract | OLexeme | OSkip.

(** What one call shows to the caller. *)
Inductive out :=
| VRune (c : N) | VEOF | VInvalid (p : pos)
| VUnit
| VLexeme (bs : list N) (p : pos)
| VSkip (p : pos).

Definition step (i : input) (o : op) : res (out * input) :=
  match o with
  | ONext => bind (Next i) (fun '(r, i) =>
      Ok (match r with NRune c => VRune c | NEOF => VEOF | NInvalid p => VInvalid p end, i))
  | ORetract => bind (Retract i) (fun i => Ok (VUnit, i))
  | OLexeme => bind (Lexeme i) (fun '(bs, p, i) => Ok (VLexeme bs p, i))
  | OSkip => let '(p, i) := Skip i in Ok (VSkip p, i)
  end.

Fixpoint run (i : input) (ops : list op) : res (list out * input) :=
  match ops with
  | [] => Ok ([], i)
  | o :: ops => bind (step i o) (fun '(v, i) => bind (run i ops) (fun '(vs, i) => Ok (v :: vs, i)))
  end.

(** Next() until it reports an error: the runes, and the error that ended the stream.
    The fuel only bounds the number of runes asked for. *)
Fixpoint next_all (fuel : nat) (i : input) : res (list N * option nres) :=
  match fuel with
  | O => Ok ([], None)
  | S fuel' =>
    bind (Next i) (fun '(r, i) =>
      match r with
      | NRune c => bind (next_all fuel' i) (fun '(cs, e) => Ok (c :: cs, e))
      | e => Ok ([], Some e)
      end)
  end.
