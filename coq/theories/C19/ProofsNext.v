(** C19 — [next] hands over the source byte by byte and keeps the buffer invariant. *)
Require Import NArith ZArith List Bool Lia.
Import ListNotations.
From Algo.C19 Require Import Model ProofsReader ProofsBuffer.
Local Open Scope Z_scope.

Ltac prj :=
  cbn [set_buff set_src set_second set_lb set_fw set_offset set_line set_column set_nextColumn
       set_runeSizes set_lastColumns set_err hn buff src secondLoaded lexemeBegin forward offset
       line column nextColumn runeSizes lastColumns err] in *.

Lemma next_eof : forall S i F lo0 lo1,
  BInv S i F lo0 lo1 -> F = slen S -> next i = Ok (None, i).
Proof.
  intros S i F lo0 lo1 [_ He] HF. unfold next. rewrite (proj2 He HF). reflexivity.
Qed.

(** The byte under forward is the source byte at offset [F]. *)
Lemma forward_byte : forall S i F lo0 lo1,
  BCore S i F lo0 lo1 -> F < slen S -> bz (buff i) (forward i) = bz S F.
Proof.
  intros S i F lo0 lo1 [A B C D E G H I J K M] HF.
  destruct M as (M1 & M2 & M3). rewrite K.
  destruct (Z.ltb_spec (forward i) (hnZ i)) as [Hlt|Hge].
  - apply G; lia.
  - replace (forward i) with (hnZ i + (forward i - hnZ i)) at 1 by lia.
    replace (lo1 + forward i - hnZ i) with (lo1 + (forward i - hnZ i)) by lia.
    apply H; lia.
Qed.

(** The last step of [next]: look for the sentinel under the new forward. *)
Lemma finish_next : forall S (b : N) i F lo0 lo1,
  nonul S -> BCore S i F lo0 lo1 -> (err i = true -> F = slen S) ->
  exists i',
    (if err i then Ok (Some b, i) else
       match bget (buff i) (forward i) with
       | None => Panic
       | Some c => Ok (Some b, if (c =? 0)%N then set_err i true else i)
       end) = Ok (Some b, i') /\
    BInv S i' F lo0 lo1 /\ same_rest i i' /\ secondLoaded i' = secondLoaded i.
Proof.
  intros S b i F lo0 lo1 Hnn HC He.
  destruct (err i) eqn:Eerr.
  - exists i. split; [reflexivity|]. split; [|split; [apply same_rest_refl|reflexivity]].
    split; [exact HC|]. rewrite Eerr. split; [intros _; apply He; reflexivity|reflexivity].
  - pose proof HC as [A B C D E G H I J K M]. destruct M as (M1 & M2 & M3).
    rewrite bget_some by lia.
    destruct (Z.eq_dec F (slen S)) as [HFL|HFL].
    + (* forward is on the sentinel *)
      assert (Hs : bz (buff i) (forward i) = 0%N).
      { specialize (I ltac:(lia)).
        replace (forward i) with (nbase i + (slen S - newest i lo0 lo1)); [exact I|].
        unfold nbase, newest, older in *.
        destruct (secondLoaded i); destruct (Z.ltb_spec (forward i) (hnZ i)); lia. }
      rewrite Hs. cbn [N.eqb].
      exists (set_err i true). split; [reflexivity|].
      split; [|split; [repeat split|reflexivity]].
      split; [apply (BCore_ext S i); try reflexivity; exact HC|].
      prj. split; [intros _; exact HFL|reflexivity].
    + assert (Hb : bz (buff i) (forward i) = bz S F) by (apply (forward_byte S i F lo0 lo1 HC); lia).
      assert (Hnz : bz S F <> 0%N) by (apply nonul_bz; [assumption|lia]).
      rewrite Hb. destruct (N.eqb_spec (bz S F) 0); [contradiction|].
      exists i. split; [reflexivity|]. split; [|split; [apply same_rest_refl|reflexivity]].
      split; [exact HC|]. rewrite Eerr. split; [discriminate|intro; contradiction].
Qed.

(** One call of [next] below the end of the source: the byte at [F], and the invariant at [F+1].
    Either the window is unchanged, or forward reached the end of the newest half and the older
    half was replaced by the next [N] bytes. *)
Ltac ltbs :=
  repeat match goal with
  | |- context [?a <? ?b] => destruct (Z.ltb_spec a b)
  | H : context [?a <? ?b] |- _ => destruct (Z.ltb_spec a b)
  end.

Lemma next_byte : forall S i F lo0 lo1,
  nonul S -> BInv S i F lo0 lo1 -> F < slen S ->
  exists i' lo0' lo1',
    next i = Ok (Some (bz S F), i') /\ BInv S i' (F + 1) lo0' lo1' /\ same_rest i i' /\
    ((lo0' = lo0 /\ lo1' = lo1 /\ secondLoaded i' = secondLoaded i) \/
     (F + 1 = newest i lo0 lo1 + hnZ i /\ older i' lo0' lo1' = newest i lo0 lo1 /\
      newest i' lo0' lo1' = newest i lo0 lo1 + hnZ i /\ secondLoaded i' = negb (secondLoaded i))).
Proof.
  intros S i F lo0 lo1 Hnn [HC He] HF.
  pose proof HC as [A B C D E G H I J K M]. destruct M as (M1 & M2 & M3).
  assert (Eerr : err i = false).
  { destruct (err i); [|reflexivity]. exfalso. assert (F = slen S) by (apply He; reflexivity). lia. }
  unfold next. rewrite Eerr. rewrite bget_some by lia.
  rewrite (forward_byte S i F lo0 lo1 HC HF).
  change (forward (set_fw i (forward i + 1))) with (forward i + 1).
  change (hnZ (set_fw i (forward i + 1))) with (hnZ i).
  change (hn (set_fw i (forward i + 1))) with (hn i).
  change (secondLoaded (set_fw i (forward i + 1))) with (secondLoaded i).
  destruct (Z.eqb_spec (forward i + 1) (hnZ i)) as [Hb1|Hb1].
  - (* forward reached the end of the first half *)
    destruct (secondLoaded i) eqn:Esl.
    + (* the second half is already there *)
      cbn [bind].
      destruct (finish_next S (bz S F) (set_fw i (forward i + 1)) (F + 1) lo0 lo1 Hnn) as (i' & Hr & HI & Hsr & Hsl).
      * unfold newest, older, nbase in *. rewrite Esl in *.
        constructor; unfold newest, older, nbase, hnZ in *; prj; rewrite ?Esl; try assumption; try lia;
          try (intros; ltbs; lia).
      * prj. rewrite Eerr. discriminate.
      * exists i', lo0, lo1. split; [exact Hr|]. split; [exact HI|]. split; [exact Hsr|].
        left. repeat split. rewrite Hsl. exact Esl.
    + (* load the second half *)
      unfold newest, older, nbase in *. rewrite Esl in *.
      destruct (load_Z S (hn i) (set_fw i (forward i + 1)) (lo0 + hnZ i))
        as (e & b & r' & Hl & Hzb & Hin & Hout & Hs & Hee & Hr');
        try (unfold hnZ in *; prj; first [assumption | lia | (right; reflexivity)]).
      rewrite Hl. cbn [bind].
      destruct (finish_next S (bz S F)
                  (set_second (set_err (set_src (set_buff (set_fw i (forward i + 1)) b) r') e) true)
                  (F + 1) lo0 (lo0 + hnZ i) Hnn) as (i' & Hr & HI & Hsr & Hsl).
      * constructor; unfold newest, older, nbase, hnZ in *; prj; try assumption; try lia;
          try (intros; ltbs; lia).
        -- intros k Hk1 Hk2. rewrite Hout by lia. apply G; lia.
        -- intros k Hk1 Hk2. apply Hin; lia.
      * prj. intro Het. apply Hee in Het. unfold hnZ in *. ltbs; lia.
      * exists i', lo0, (lo0 + hnZ i). split; [exact Hr|]. split; [exact HI|].
        split; [eapply same_rest_trans; [|exact Hsr]; repeat split|].
        right. unfold newest, older. rewrite Hsl. prj. unfold hnZ in *.
        repeat split; try reflexivity; ltbs; lia.
  - destruct (Z.eqb_spec (forward i + 1) (2 * hnZ i)) as [Hb2|Hb2].
    + (* forward reached the end of the second half: wrap around *)
      destruct (secondLoaded i) eqn:Esl.
      * (* load the first half *)
        unfold newest, older, nbase in *. rewrite Esl in *.
        destruct (load_Z S 0%nat (set_fw i (forward i + 1)) (lo1 + hnZ i))
          as (e & b & r' & Hl & Hzb & Hin & Hout & Hs & Hee & Hr');
          try (unfold hnZ in *; prj; first [assumption | lia | (left; reflexivity)]).
        rewrite Hl. cbn [bind].
        destruct (finish_next S (bz S F)
                    (set_fw (set_second (set_err (set_src (set_buff (set_fw i (forward i + 1)) b) r') e) false) 0)
                    (F + 1) (lo1 + hnZ i) lo1 Hnn) as (i' & Hr & HI & Hsr & Hsl).
        -- constructor; unfold newest, older, nbase, hnZ in *; prj; try assumption; try lia;
             try (intros; ltbs; lia).
           ++ intros k Hk1 Hk2. replace k with (Z.of_nat 0 + k) at 1 by lia. apply Hin; lia.
           ++ intros k Hk1 Hk2. rewrite Hout by lia. apply H; lia.
           ++ intros Hlt.
              replace (0 + (slen S - (lo1 + Z.of_nat (hn i))))
                with (Z.of_nat 0 + (slen S - (lo1 + Z.of_nat (hn i)))) by lia.
              apply Hs; ltbs; lia.
        -- prj. intro Het. apply Hee in Het. unfold hnZ in *. ltbs; lia.
        -- exists i', (lo1 + hnZ i), lo1. split; [exact Hr|]. split; [exact HI|].
           split; [eapply same_rest_trans; [|exact Hsr]; repeat split|].
           right. unfold newest, older. rewrite Hsl. prj. unfold hnZ in *.
        repeat split; try reflexivity; ltbs; lia.
      * (* the first half is already there *)
        cbn [bind].
        destruct (finish_next S (bz S F) (set_fw (set_fw i (forward i + 1)) 0) (F + 1) lo0 lo1 Hnn)
          as (i' & Hr & HI & Hsr & Hsl).
        -- unfold newest, older, nbase in *. rewrite Esl in *.
           constructor; unfold newest, older, nbase, hnZ in *; prj; rewrite ?Esl; try assumption; try lia;
             try (intros; ltbs; lia).
        -- prj. rewrite Eerr. discriminate.
        -- exists i', lo0, lo1. split; [exact Hr|]. split; [exact HI|].
           split; [eapply same_rest_trans; [|exact Hsr]; repeat split|].
           left. repeat split. rewrite Hsl. exact Esl.
    + (* inside a half *)
      cbn [bind].
      destruct (finish_next S (bz S F) (set_fw i (forward i + 1)) (F + 1) lo0 lo1 Hnn) as (i' & Hr & HI & Hsr & Hsl).
      * constructor; unfold newest, older, nbase, hnZ in *; prj; try assumption; try lia;
          try (intros; destruct (secondLoaded i); ltbs; lia).
      * prj. rewrite Eerr. discriminate.
      * exists i', lo0, lo1. split; [exact Hr|]. split; [exact HI|].
        split; [eapply same_rest_trans; [|exact Hsr]; repeat split|].
        left. repeat split. rewrite Hsl. reflexivity.
Qed.

(* ------------------------------------------------------------------ how the window moves *)

(** Buffer index [x] holds the source byte at offset [a]. *)
Definition maps (n lo0 lo1 a x : Z) : Prop :=
  0 <= x < 2 * n /\ a = (if x <? n then lo0 + x else lo1 + x - n).

(** Offsets from [o'] on keep their buffer index when the window moves. *)
Definition wkeep (n lo0 lo1 lo0' lo1' o' : Z) : Prop :=
  forall a x, o' <= a -> maps n lo0 lo1 a x -> maps n lo0' lo1' a x.

(** The start [o] of the window moves forward to [o'], never beyond [Fn - n], and what stays in
    the window stays in place. *)
Definition wstep (n o lo0 lo1 o' lo0' lo1' Fn : Z) : Prop :=
  o <= o' /\ o' <= Z.max o (Fn - n) /\ wkeep n lo0 lo1 lo0' lo1' o'.

Lemma wstep_refl : forall n o lo0 lo1 Fn, wstep n o lo0 lo1 o lo0 lo1 Fn.
Proof. intros. unfold wstep, wkeep. split; [lia|]. split; [lia|]. intros; assumption. Qed.

Lemma wstep_trans : forall n o a0 a1 o1 b0 b1 F1 o2 c0 c1 F2,
  wstep n o a0 a1 o1 b0 b1 F1 -> wstep n o1 b0 b1 o2 c0 c1 F2 -> F1 <= F2 ->
  wstep n o a0 a1 o2 c0 c1 F2.
Proof.
  unfold wstep, wkeep. intros n o a0 a1 o1 b0 b1 F1 o2 c0 c1 F2 (A1 & A2 & A3) (B1 & B2 & B3) HF.
  split; [lia|]. split; [lia|]. intros a x Ha Hm. apply B3; [lia|]. apply A3; [lia|exact Hm].
Qed.

Lemma wstep_weaken : forall n o a0 a1 o1 b0 b1 F1 F2,
  wstep n o a0 a1 o1 b0 b1 F1 -> F1 <= F2 -> wstep n o a0 a1 o1 b0 b1 F2.
Proof. unfold wstep. intros n o a0 a1 o1 b0 b1 F1 F2 (A & B & C) H. split; [lia|]. split; [lia|exact C]. Qed.

Lemma next_byte_wstep : forall S i F lo0 lo1 i' lo0' lo1',
  BInv S i F lo0 lo1 -> BInv S i' (F + 1) lo0' lo1' -> hn i' = hn i ->
  ((lo0' = lo0 /\ lo1' = lo1 /\ secondLoaded i' = secondLoaded i) \/
   (F + 1 = newest i lo0 lo1 + hnZ i /\ older i' lo0' lo1' = newest i lo0 lo1 /\
    newest i' lo0' lo1' = newest i lo0 lo1 + hnZ i /\ secondLoaded i' = negb (secondLoaded i))) ->
  wstep (hnZ i) (older i lo0 lo1) lo0 lo1 (older i' lo0' lo1') lo0' lo1' (F + 1).
Proof.
  intros S i F lo0 lo1 i' lo0' lo1' [HC _] [HC' _] Hhn Hw.
  destruct Hw as [(-> & -> & Hsl)|(H1 & H2 & H3 & H4)].
  - unfold older. rewrite Hsl. apply wstep_refl.
  - pose proof (bi_order _ _ _ _ _ HC) as O. pose proof (bi_order _ _ _ _ _ HC') as O'.
    pose proof (bi_n _ _ _ _ _ HC) as Hn.
    assert (Hh : hnZ i' = hnZ i) by (unfold hnZ; congruence).
    unfold wstep, wkeep, maps, newest, older in *. rewrite H4 in *. rewrite Hh in *.
    destruct (secondLoaded i); cbn [negb] in *.
    + split; [lia|]. split; [lia|]. intros a x Ha (Hx & Hax). split; [lia|].
      destruct (Z.ltb_spec x (hnZ i)); lia.
    + split; [lia|]. split; [lia|]. intros a x Ha (Hx & Hax). split; [lia|].
      destruct (Z.ltb_spec x (hnZ i)); lia.
Qed.
