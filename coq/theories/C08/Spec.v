(** C08 — specification layer: well-formed (valid) grammars, a big-step ("parse tree")
    semantics [gen]/[gens] of production lists, and its equivalence with the derivation
    semantics [derives]/[L] of [Algo.Grammar.CFG].  All language-preservation proofs are
    carried out on [gen]. *)
From Coq Require Import List Bool Arith Lia.
From Algo.Grammar Require Import CFG.
From Algo.C08 Require Import Model.
Import ListNotations.

Section Spec.
  Context {T N : Type}.
  Notation sym := (symbol T N).
  Notation prod := (production T N).
  Notation gram := (grammar T N).

  (** [s] generates the terminal string [w] using the productions [P] *)
  Inductive gen (P : list prod) : sym -> list T -> Prop :=
  | gen_tm a : gen P (Tm a) [a]
  | gen_nt p w : In p P -> gens P (body p) w -> gen P (Nt (head p)) w
  with gens (P : list prod) : list sym -> list T -> Prop :=
  | gens_nil : gens P [] []
  | gens_cons s u w1 w2 : gen P s w1 -> gens P u w2 -> gens P (s :: u) (w1 ++ w2).

  Scheme gen_mind := Minimality for gen Sort Prop
    with gens_mind := Minimality for gens Sort Prop.
  Combined Scheme gen_gens_ind from gen_mind, gens_mind.

  Lemma gens_app P u v w1 w2 : gens P u w1 -> gens P v w2 -> gens P (u ++ v) (w1 ++ w2).
  Proof.
    intros Hu Hv. induction Hu as [|s u x1 x2 Hs Hu IH]; simpl; auto.
    rewrite <- app_assoc. constructor; auto.
  Qed.

  Lemma gens_split P u v w : gens P (u ++ v) w ->
    exists w1 w2, w = w1 ++ w2 /\ gens P u w1 /\ gens P v w2.
  Proof.
    revert w. induction u as [|s u IH]; simpl; intros w H.
    - exists [], w. repeat split; auto. constructor.
    - inversion H as [|s' u' x1 x2 Hs Hu]; subst.
      destruct (IH _ Hu) as (y1 & y2 & -> & H1 & H2).
      exists (x1 ++ y1), y2. rewrite app_assoc. repeat split; auto. constructor; auto.
  Qed.

  Lemma gens_single P s w : gens P [s] w <-> gen P s w.
  Proof.
    split.
    - intros H. inversion H as [|s' u' x1 x2 Hs Hu]; subst. inversion Hu; subst. now rewrite app_nil_r.
    - intros H. rewrite <- (app_nil_r w). constructor; auto. constructor.
  Qed.

  Lemma gens_cons_inv P s u w : gens P (s :: u) w ->
    exists w1 w2, w = w1 ++ w2 /\ gen P s w1 /\ gens P u w2.
  Proof. intros H. inversion H; subst. eauto. Qed.

  Lemma gen_nt_inv P A w : gen P (Nt A) w -> exists p, In p P /\ head p = A /\ gens P (body p) w.
  Proof. intros H. inversion H; subst. eauto. Qed.

  Lemma gen_tm_inv P a w : gen P (Tm a) w -> w = [a].
  Proof. intros H. now inversion H. Qed.

  Lemma gen_nt_intro P A b w : In (mkProd A b) P -> gens P b w -> gen P (Nt A) w.
  Proof. intros Hp Hb. change A with (head (mkProd A b)). constructor; auto. Qed.

  Lemma gens_terms P (w : list T) : gens P (map (fun a => Tm a) w) w.
  Proof.
    induction w as [|a w IH]; simpl; [constructor|].
    change (a :: w) with ([a] ++ w). constructor; auto. constructor.
  Qed.

  Lemma gen_mono P P' : incl P P' ->
    (forall s w, gen P s w -> gen P' s w) /\ (forall u w, gens P u w -> gens P' u w).
  Proof.
    intros Hi. apply gen_gens_ind; intros; try (constructor; auto; fail).
  Qed.

  (** * equivalence with the derivation semantics *)
  Lemma gen_derives (G : gram) :
    (forall s w, gen (prods G) s w -> derives G [s] (map (fun a => Tm a) w)) /\
    (forall u w, gens (prods G) u w -> derives G u (map (fun a => Tm a) w)).
  Proof.
    apply gen_gens_ind.
    - intros a. apply derives_refl.
    - intros p w Hp _ IH. eapply derives_trans; [apply derives_prod; exact Hp | exact IH].
    - apply derives_refl.
    - intros s u w1 w2 _ IH1 _ IH2. rewrite map_app.
      change (s :: u) with ([s] ++ u). apply derives_app; auto.
  Qed.

  Lemma derivesN_gens (G : gram) n : forall u w,
    derivesN G n u (map (fun a => Tm a) w) -> gens (prods G) u w.
  Proof.
    induction n as [|n IH]; intros u w H.
    - inversion H; subst. apply gens_terms.
    - inversion H as [|n' a b c Hst Hrest]; subst.
      destruct Hst as [x y p Hp].
      apply IH in Hrest.
      apply gens_split in Hrest. destruct Hrest as (wx & w' & -> & Hx & H').
      apply gens_split in H'. destruct H' as (wb & wy & -> & Hb & Hy).
      apply gens_app; auto. constructor; auto. now constructor.
  Qed.

  Theorem L_gen (G : gram) (w : list T) : L G w <-> gen (prods G) (Nt (start G)) w.
  Proof.
    unfold L. split.
    - intros H. apply derives_derivesN in H. destruct H as [n H].
      apply derivesN_gens in H. now apply gens_single.
    - intros H. now apply (proj1 (gen_derives G)) in H.
  Qed.

  (** * valid grammars: what Verify() accepts *)
  Definition declared (G : gram) (s : sym) : Prop :=
    match s with Tm t => In t (terms G) | Nt A => In A (nonterms G) end.

  Definition wf (G : gram) : Prop :=
    In (start G) (nonterms G) /\
    forall p, In p (prods G) -> In (head p) (nonterms G) /\ forall s, In s (body p) -> declared G s.

  Definition valid (G : gram) : Prop :=
    wf G /\ forall A, In A (nonterms G) -> exists p, In p (prods G) /\ head p = A.

  (** two grammars generate the same language *)
  Definition same_language (G G' : gram) : Prop := forall w, L G' w <-> L G w.
End Spec.
