(** C08 — the concrete instance satisfies the hypotheses of the generic theorems:
    [name_eqb] decides equality and [fresh_name] (AddNewNonTerminal) returns a new name. *)
From Coq Require Import List Bool NArith.
From Algo.C08 Require Import Model Names ProofsBase.
Import ListNotations.

Lemma name_eqb_spec (x y : name) : name_eqb x y = true <-> x = y.
Proof. apply list_eqb_spec. intros a b. apply N.eqb_eq. Qed.

Lemma fresh_name_spec k nts b x : fresh_name k nts b = Some x -> ~ In x nts.
Proof.
  unfold fresh_name. intros H. apply find_some in H. destruct H as [_ H].
  apply negb_true_iff in H. now apply (memb_false name_eqb name_eqb_spec).
Qed.
