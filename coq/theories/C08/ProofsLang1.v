(** C08 — language preservation, part 1: EliminateUnreachableProductions, START,
    EliminateSingleProductions (UNIT), EliminateEmptyProductions (DEL), EliminateCycles. *)
From Coq Require Import List Bool Arith Lia.
From Algo.Grammar Require Import CFG.
From Algo.C08 Require Import Model Spec ProofsBase.
Import ListNotations.

Section Lang1.
  Context {T N : Type}.
  Variable teqb : T -> T -> bool.
  Variable neqb : N -> N -> bool.
  Variable fresh : skind -> list N -> N -> option N.
  Hypothesis teqb_spec : forall x y, teqb x y = true <-> x = y.
  Hypothesis neqb_spec : forall x y, neqb x y = true <-> x = y.
  Hypothesis fresh_spec : forall k nts b x, fresh k nts b = Some x -> ~ In x nts.

  Notation sym := (symbol T N).
  Notation prod := (production T N).
  Notation gram := (grammar T N).

  (** non-terminals of the bodies of [P] are in [nts], heads too *)
  Definition closed_under (nts : list N) (P : list prod) : Prop :=
    forall p, In p P -> In (head p) nts /\ forall A, In (Nt A) (body p) -> In A nts.

  Lemma wf_closed_under (G : gram) : wf G -> closed_under (nonterms G) (prods G).
  Proof.
    intros [_ H] p Hp. destruct (H p Hp) as [Hh Hb]. split; auto.
    intros A HA. apply (Hb (Nt A) HA).
  Qed.

  Lemma add_new_spec k nts b x nts' :
    add_new fresh k nts b = Ok (x, nts') -> ~ In x nts /\ nts' = nts ++ [x].
  Proof.
    unfold add_new. destruct (fresh k nts b) eqn:E; [|discriminate].
    intros H. inversion H; subst. split; auto. eapply fresh_spec; eauto.
  Qed.

  (** * conservative extension: productions with heads outside [nts] do not change what the
      symbols over [nts] generate *)
  Lemma gen_conservative (nts : list N) (P P' : list prod) :
    closed_under nts P ->
    (forall p, In p P' -> In p P \/ ~ In (head p) nts) ->
    (forall s w, gen P' s w -> (forall A, s = Nt A -> In A nts) -> gen P s w) /\
    (forall u w, gens P' u w -> (forall A, In (Nt A) u -> In A nts) -> gens P u w).
  Proof.
    intros Hc Hx. apply gen_gens_ind.
    - intros a _. constructor.
    - intros p w Hp _ IH Hs. destruct (Hx p Hp) as [Hp'|Hn].
      + constructor; auto. apply IH. apply (proj2 (Hc p Hp')).
      + exfalso. apply Hn. now apply Hs.
    - intros _. constructor.
    - intros s u w1 w2 _ IH1 _ IH2 Hs. constructor.
      + apply IH1. intros A ->. apply Hs. now left.
      + apply IH2. intros A HA. apply Hs. now right.
  Qed.

  (** * EliminateUnreachableProductions *)
  Theorem unreachable_lang (G : gram) :
    exists G', unreachable_elim teqb neqb G = Ok G' /\ same_language G G'.
  Proof.
    unfold unreachable_elim.
    destruct (reach_total neqb neqb_spec (prods G) [start G]) as [rn Hrn].
    { constructor; [intros []|constructor]. } { simpl; lia. }
    rewrite Hrn. simpl. eexists. split; [reflexivity|].
    destruct (reach_spec neqb neqb_spec (prods G) [start G] rn) as [_ Hr]; auto.
    { constructor; [intros []|constructor]. }
    set (P' := filter (fun p => mem_n neqb (head p) rn) (prods G)).
    intros w. rewrite !L_gen. simpl. fold P'. split.
    - apply (proj1 (gen_mono P' (prods G) (incl_filter _ _))).
    - intros H.
      assert (Hgen : (forall s w, gen (prods G) s w -> (forall A, s = Nt A -> In A rn) -> gen P' s w) /\
                     (forall u w, gens (prods G) u w -> (forall A, In (Nt A) u -> In A rn) -> gens P' u w)).
      { apply gen_gens_ind.
        - intros; constructor.
        - intros p w' Hp _ IH Hs. constructor.
          + apply filter_In. split; auto. apply (mem_n_In neqb neqb_spec). now apply Hs.
          + apply IH. intros A HA. apply Hr. eapply reach_step; eauto. apply Hr. now apply Hs.
        - intros; constructor.
        - intros s u w1 w2 _ IH1 _ IH2 Hs. constructor.
          + apply IH1. intros A ->. apply Hs. now left.
          + apply IH2. intros A HA. apply Hs. now right. }
      apply (proj1 Hgen _ _ H). intros A HA. inversion HA; subst. apply Hr. constructor. now left.
  Qed.

  (** * START: eliminateStartSymbolFromRight *)
  Theorem start_lang (G : gram) : wf G ->
    forall G', cnf_start teqb neqb fresh G = Ok G' -> same_language G G'.
  Proof.
    intros Hwf G' H. unfold cnf_start in H.
    destruct (existsb _ (prods G)); [|inversion H; subst; intros w; tauto].
    destruct (add_new fresh Prime (nonterms G) (start G)) as [[s' nts']| |] eqn:E; simpl in H; try discriminate.
    inversion H; subst G'. clear H.
    destruct (add_new_spec _ _ _ _ _ E) as [Hfresh ->].
    intros w. rewrite !L_gen. simpl.
    set (P' := add_p teqb neqb (mkProd s' [Nt (start G)]) (prods G)).
    assert (Hin : forall q, In q P' <-> q = mkProd s' [Nt (start G)] \/ In q (prods G)) by (intros; apply In_add_p; auto).
    assert (Hcons := gen_conservative (nonterms G) (prods G) P' (wf_closed_under G Hwf)).
    assert (Hx : forall p, In p P' -> In p (prods G) \/ ~ In (head p) (nonterms G)).
    { intros p Hp. apply Hin in Hp. destruct Hp as [->|Hp]; auto. }
    specialize (Hcons Hx). split.
    - intros H. apply gen_nt_inv in H. destruct H as (p & Hp & Hh & Hb).
      apply Hin in Hp. destruct Hp as [->|Hp].
      + simpl in Hb. apply gens_single in Hb. apply (proj1 Hcons _ _ Hb).
        intros A HA. inversion HA; subst. apply Hwf.
      + exfalso. apply Hfresh. rewrite <- Hh. apply (proj1 (wf_closed_under G Hwf p Hp)).
    - intros H. apply gen_nt_intro with (b := [Nt (start G)]).
      + apply Hin. now left.
      + apply gens_single.
        apply (proj1 (gen_mono (prods G) P' (fun q Hq => proj2 (Hin q) (or_intror Hq)))); auto.
  Qed.

  (** * UNIT: EliminateSingleProductions *)
  Definition unit_reach (P : list prod) (A B : N) : Prop :=
    reachable (filter (@is_single T N) P) [A] B.

  Lemma is_single_body (p : prod) : is_single p = true -> exists B, body p = [Nt B].
  Proof.
    unfold is_single. destruct (body p) as [|[a|B] [|? ?]]; try discriminate. eauto.
  Qed.

  Lemma unit_reach_gen P A B : unit_reach P A B -> forall w, gen P (Nt B) w -> gen P (Nt A) w.
  Proof.
    intros H. induction H as [B HB|p B Hp _ IH HB]; intros w Hw.
    - destruct HB as [<-|[]]. auto.
    - apply filter_In in Hp. destruct Hp as [Hp Hs].
      destruct (is_single_body p Hs) as [B' Hb]. rewrite Hb in HB.
      destruct HB as [HB|[]]. inversion HB; subst B'.
      apply IH. constructor; auto. rewrite Hb. now apply gens_single.
  Qed.

  Lemma unit_reach_trans P A B C : unit_reach P A B -> unit_reach P B C -> unit_reach P A C.
  Proof.
    intros HAB HBC. induction HBC as [C HC|p C Hp _ IH HC].
    - destruct HC as [<-|[]]. auto.
    - eapply reach_step; eauto.
  Qed.

  (** membership in the production set built by UNIT *)
  Definition unit_member (P : list prod) (nts : list N) (q : prod) : Prop :=
    exists A p, In A nts /\ unit_reach P A (head p) /\ In p P /\ is_single p = false /\ q = mkProd A (body p).

  Lemma In_unit_bodies A ps acc q :
    In q (unit_bodies teqb neqb A ps acc) <->
    In q acc \/ exists p, In p ps /\ is_single p = false /\ q = mkProd A (body p).
  Proof.
    revert acc. induction ps as [|p ps IH]; simpl; intros acc.
    - split; [auto|]. intros [H|(p & [] & _)]; auto.
    - rewrite IH. destruct (is_single p) eqn:E.
      + split; intros [H|(p' & Hp' & Hs & ->)]; auto.
        * right. exists p'. simpl; auto 8.
        * destruct Hp' as [<-|Hp']; [congruence|]. right. exists p'. simpl; auto 8.
      + rewrite In_add_p; auto. split.
        * intros [[->|H]|(p' & Hp' & Hs & ->)]; auto.
          -- right. exists p. simpl; auto 8.
          -- right. exists p'. simpl; auto 8.
        * intros [H|(p' & [<-|Hp'] & Hs & ->)]; auto. right. exists p'. simpl; auto 8.
  Qed.

  Lemma In_unit_for A cl P acc q :
    In q (unit_for teqb neqb A cl P acc) <->
    In q acc \/ exists B p, In B cl /\ In p P /\ head p = B /\ is_single p = false /\ q = mkProd A (body p).
  Proof.
    revert acc. induction cl as [|B cl IH]; simpl; intros acc.
    - split; [auto|]. intros [H|(B & p & [] & _)]; auto.
    - rewrite IH, In_unit_bodies. split.
      + intros [[H|(p & Hp & Hs & ->)]|(B' & p & HB' & Hp & Hh & Hs & ->)]; auto.
        * apply (In_get neqb neqb_spec) in Hp. destruct Hp as [Hp Hh]. right. exists B, p. auto 10.
        * right. exists B', p. auto 10.
      + intros [H|(B' & p & [<-|HB'] & Hp & Hh & Hs & ->)]; auto.
        * left. right. exists p. split; auto. apply (In_get neqb neqb_spec). auto.
        * right. exists B', p. auto 10.
  Qed.

  Lemma unit_prods_spec P nts : forall acc,
    exists P', unit_prods teqb neqb (filter (@is_single T N) P) P nts acc = Ok P' /\
               forall q, In q P' <-> In q acc \/ unit_member P nts q.
  Proof.
    induction nts as [|A nts IH]; simpl; intros acc.
    - exists acc. split; auto. intros q. split; auto. intros [H|(A & p & [] & _)]; auto.
    - destruct (reach_total neqb neqb_spec (filter (@is_single T N) P) [A]) as [cl Hcl].
      { constructor; [intros []|constructor]. } { simpl; lia. }
      rewrite Hcl. simpl.
      destruct (reach_spec neqb neqb_spec _ _ _ (NoDup_cons A (@in_nil _ A) (NoDup_nil _)) Hcl) as [_ Hr].
      destruct (IH (unit_for teqb neqb A cl P acc)) as (P' & HP' & Hin).
      exists P'. split; auto. intros q. rewrite Hin, In_unit_for. split.
      + intros [[H|(B & p & HB & Hp & Hh & Hs & ->)]|(A' & p & HA' & Hr' & Hp & Hs & ->)]; auto.
        * right. exists A, p. split; [now left|]. split; [subst B; now apply Hr|auto].
        * right. exists A', p. split; [now right|auto].
      + intros [H|(A' & p & [<-|HA'] & Hr' & Hp & Hs & ->)]; auto.
        * left. right. exists (head p), p. split; [now apply Hr|auto].
        * right. exists A', p. auto 10.
  Qed.

  Theorem unit_lang (G : gram) : wf G ->
    exists G', unit_elim teqb neqb G = Ok G' /\ same_language G G' /\
               (forall q, In q (prods G') <-> unit_member (prods G) (nonterms G) q) /\
               terms G' = terms G /\ nonterms G' = nonterms G /\ start G' = start G.
  Proof.
    intros Hwf. unfold unit_elim.
    destruct (unit_prods_spec (prods G) (nonterms G) []) as (P' & HP' & Hin).
    rewrite HP'. simpl. eexists. split; [reflexivity|].
    assert (Hin' : forall q, In q P' <-> unit_member (prods G) (nonterms G) q).
    { intros q. rewrite Hin. split; auto. intros [[]|H]; auto. }
    split; [|repeat split; auto; apply Hin'].
    assert (Hcu := wf_closed_under G Hwf).
    intros w. rewrite !L_gen. simpl. split.
    - (* P' ⊆ *)
      assert (Hg : (forall s w, gen P' s w -> gen (prods G) s w) /\ (forall u w, gens P' u w -> gens (prods G) u w)).
      { apply gen_gens_ind; try (intros; constructor; auto; fail).
        intros q w' Hq _ IH. apply Hin' in Hq. destruct Hq as (A & p & HA & Hr & Hp & Hs & ->). simpl in *.
        eapply unit_reach_gen; eauto. constructor; auto. }
      apply Hg.
    - assert (Hg : (forall s w, gen (prods G) s w -> (forall A, s = Nt A -> In A (nonterms G)) -> gen P' s w) /\
                   (forall u w, gens (prods G) u w -> (forall A, In (Nt A) u -> In A (nonterms G)) -> gens P' u w)).
      { apply gen_gens_ind.
        - intros; constructor.
        - intros p w' Hp _ IH Hs.
          assert (HA : In (head p) (nonterms G)) by (now apply Hs).
          specialize (IH (proj2 (Hcu p Hp))).
          destruct (is_single p) eqn:E.
          + destruct (is_single_body p E) as [B Hb]. rewrite Hb in IH. apply gens_single in IH.
            apply gen_nt_inv in IH. destruct IH as (q & Hq & Hqh & Hqb).
            apply Hin' in Hq. destruct Hq as (B' & p2 & HB' & Hr & Hp2 & Hs2 & ->). simpl in *. subst B'.
            apply gen_nt_intro with (b := body p2); auto.
            apply Hin'. exists (head p), p2. repeat split; auto.
            eapply unit_reach_trans; eauto.
            eapply reach_step with (p := p).
            * apply filter_In. auto.
            * constructor. now left.
            * rewrite Hb. now left.
          + apply gen_nt_intro with (b := body p); auto.
            apply Hin'. exists (head p), p. repeat split; auto. constructor. now left.
        - intros; constructor.
        - intros s u w1 w2 _ IH1 _ IH2 Hs. constructor.
          + apply IH1. intros A ->. apply Hs. now left.
          + apply IH2. intros A HA. apply Hs. now right. }
      intros H. apply (proj1 Hg _ _ H). intros A HA. inversion HA; subst. apply Hwf.
  Qed.

  (** * DEL: EliminateEmptyProductions *)
  (** [sub nl b b']: [b'] is [b] with some occurrences of nullable non-terminals deleted *)
  Inductive sub (nl : list N) : list sym -> list sym -> Prop :=
  | sub_nil : sub nl [] []
  | sub_keep s b b' : sub nl b b' -> sub nl (s :: b) (s :: b')
  | sub_drop A b b' : In A nl -> sub nl b b' -> sub nl (Nt A :: b) b'.

  Lemma In_expand_aux nb s (bodies : list (list sym)) x :
    In x (expand_aux nb s bodies) <-> exists a, In a bodies /\ (x = a ++ [s] \/ (nb = true /\ x = a)).
  Proof.
    induction bodies as [|b bs IH]; simpl.
    - split; [intros []|intros (a & [] & _)].
    - rewrite in_app_iff. simpl. rewrite IH. split.
      + intros [H|[H|(a & Ha & H)]].
        * destruct nb; [|destruct H]. destruct H as [<-|[]]. exists b. auto.
        * exists b. subst. auto.
        * exists a. simpl; auto 8.
      + intros (a & [<-|Ha] & [->|[-> ->]]); auto.
        * left. now left.
        * right. right. exists a. simpl; auto 8.
        * right. right. exists a. simpl; auto 8.
  Qed.

  Lemma In_expand nl (b : list sym) : forall bodies x,
    In x (expand neqb nl b bodies) <-> exists a b', In a bodies /\ sub nl b b' /\ x = a ++ b'.
  Proof.
    induction b as [|s b IH]; simpl; intros bodies x.
    - split.
      + intros H. exists x, []. rewrite app_nil_r. repeat split; auto. constructor.
      + intros (a & b' & Ha & Hs & ->). inversion Hs; subst. now rewrite app_nil_r.
    - rewrite IH. split.
      + intros (a & b' & Ha & Hs & ->). apply In_expand_aux in Ha.
        destruct Ha as (a0 & Ha0 & [->|[Hn ->]]).
        * exists a0, (s :: b'). rewrite <- app_assoc. repeat split; auto. now constructor.
        * exists a0, b'. repeat split; auto. destruct s as [t|A]; simpl in Hn; [discriminate|].
          constructor; auto. now apply (mem_n_In neqb neqb_spec).
      + intros (a & b' & Ha & Hs & ->). inversion Hs as [|s' b0 b0' Hs'|A b0 b0' HA Hs']; subst.
        * exists (a ++ [s]), b0'. rewrite <- app_assoc. repeat split; auto.
          apply In_expand_aux. exists a. simpl; auto 8.
        * exists a, b'. repeat split; auto. apply In_expand_aux. exists a. split; auto. right. split; auto.
          simpl. now apply (mem_n_In neqb neqb_spec).
  Qed.

  Lemma In_add_bodies h (bs : list (list sym)) acc q :
    In q (add_bodies teqb neqb h bs acc) <-> In q acc \/ exists b, In b bs /\ b <> [] /\ q = mkProd h b.
  Proof.
    revert acc. induction bs as [|b bs IH]; simpl; intros acc.
    - split; [auto|]. intros [H|(b & [] & _)]; auto.
    - destruct b as [|s b].
      + rewrite IH. split; intros [H|(b' & Hb' & Hne & ->)]; auto.
        * right. exists b'. simpl; auto 8.
        * destruct Hb' as [<-|Hb']; [congruence|]. right. exists b'. simpl; auto 8.
      + rewrite IH, In_add_p; auto. split.
        * intros [[->|H]|(b' & Hb' & Hne & ->)]; auto.
          -- right. exists (s :: b). repeat split; auto. discriminate.
          -- right. exists b'. simpl; auto 8.
        * intros [H|(b' & [<-|Hb'] & Hne & ->)]; auto. right. exists b'. simpl; auto 8.
  Qed.

  Definition del_member (nl : list N) (P : list prod) (q : prod) : Prop :=
    exists p, In p P /\ head q = head p /\ body q <> [] /\ sub nl (body p) (body q).

  Lemma In_del_prods nl (ps : list prod) : forall acc q,
    In q (del_prods teqb neqb nl ps acc) <-> In q acc \/ del_member nl ps q.
  Proof.
    induction ps as [|p ps IH]; simpl; intros acc q.
    - split; [auto|]. intros [H|(p & [] & _)]; auto.
    - rewrite IH. destruct (is_empty p) eqn:E.
      + split; intros [H|(p' & Hp' & Hh & Hne & Hs)]; auto.
        * right. exists p'. simpl; auto 8.
        * destruct Hp' as [<-|Hp'].
          -- unfold is_empty in E. destruct (body p); [|discriminate]. inversion Hs; subst. congruence.
          -- right. exists p'. simpl; auto 8.
      + rewrite In_add_bodies. split.
        * intros [[H|(b & Hb & Hne & ->)]|(p' & Hp' & Hh & Hne & Hs)]; auto.
          -- apply In_expand in Hb. destruct Hb as (a & b' & [<-|[]] & Hs & ->). simpl in *.
             right. exists p. simpl; auto 8.
          -- right. exists p'. simpl; auto 8.
        * intros [H|(p' & [<-|Hp'] & Hh & Hne & Hs)]; auto.
          -- left. right. exists (body q). repeat split; auto.
             ++ apply In_expand. exists [], (body q). simpl. auto.
             ++ destruct q; simpl in *. congruence.
          -- right. exists p'. simpl; auto 8.
  Qed.

  Lemma sub_gens P nl : (forall A, In A nl -> gen P (Nt A) []) ->
    forall b b', sub nl b b' -> forall w, gens P b' w -> gens P b w.
  Proof.
    intros Hn b b' H. induction H as [|s b b' _ IH|A b b' HA _ IH]; intros w Hw; auto.
    - inversion Hw; subst. constructor; auto.
    - change w with ([] ++ w). constructor; auto.
  Qed.

  Section Del.
    Variable P : list prod.
    Variable nl : list N.
    Hypothesis Hnl : forall A, In A nl <-> gen P (Nt A) [].
    Variable P2 : list prod.
    Hypothesis HP2 : forall q, In q P2 <-> del_member nl P q.

    Lemma del_backward :
      (forall s w, gen P2 s w -> gen P s w) /\ (forall u w, gens P2 u w -> gens P u w).
    Proof.
      apply gen_gens_ind; try (intros; constructor; auto; fail).
      intros q w Hq _ IH. apply HP2 in Hq. destruct Hq as (p & Hp & Hh & Hne & Hs).
      rewrite Hh. constructor; auto. eapply sub_gens; eauto. intros A HA. now apply Hnl.
    Qed.

    Lemma del_forward :
      (forall s w, gen P s w -> w <> [] -> gen P2 s w) /\
      (forall u w, gens P u w -> exists u', sub nl u u' /\ gens P2 u' w).
    Proof.
      apply gen_gens_ind.
      - intros; constructor.
      - intros p w Hp _ (u' & Hs & Hu') Hw.
        assert (Hne : u' <> []) by (intros ->; inversion Hu'; congruence).
        apply gen_nt_intro with (b := u'); auto.
        apply HP2. exists p. repeat split; auto.
      - exists []. split; constructor.
      - intros s u w1 w2 Hs IH1 _ (u' & Hsub & Hu').
        destruct w1 as [|a w1].
        + destruct s as [t|A]; [inversion Hs|].
          exists u'. split; auto. constructor; auto. now apply Hnl.
        + exists (s :: u'). split; [now constructor|]. constructor; auto. apply IH1. discriminate.
    Qed.
  End Del.

  Lemma sub_closed nts nl (b b' : list sym) : sub nl b b' ->
    (forall A, In (Nt A) b -> In A nts) -> forall A, In (Nt A) b' -> In A nts.
  Proof.
    intros H. induction H as [|s b b' _ IH|B b b' _ _ IH]; intros Hb A HA; auto.
    - destruct HA as [->|HA]; [apply Hb; now left|]. apply IH; auto. intros; apply Hb; now right.
    - apply IH; auto. intros; apply Hb; now right.
  Qed.

  Theorem del_lang (G : gram) : wf G ->
    forall G', del teqb neqb fresh G = Ok G' -> same_language G G'.
  Proof.
    intros Hwf G' H. unfold del in H.
    destruct (nullable neqb (prods G)) as [nl| |] eqn:En; simpl in H; try discriminate.
    destruct (nullable_spec neqb neqb_spec _ _ En) as [_ Hnl].
    set (P2 := del_prods teqb neqb nl (prods G) []) in *.
    assert (HP2 : forall q, In q P2 <-> del_member nl (prods G) q).
    { intros q. unfold P2. rewrite In_del_prods. split; auto. intros [[]|?]; auto. }
    assert (Hcu := wf_closed_under G Hwf).
    assert (Hcu2 : closed_under (nonterms G) P2).
    { intros q Hq. apply HP2 in Hq. destruct Hq as (p & Hp & Hh & _ & Hs). rewrite Hh. split.
      - apply (proj1 (Hcu p Hp)).
      - intros A HA. eapply sub_closed; [exact Hs | apply (proj2 (Hcu p Hp)) | exact HA]. }
    destruct (del_backward (prods G) nl Hnl P2 HP2) as [Hb _].
    destruct (del_forward (prods G) nl Hnl P2 HP2) as [Hf _].
    destruct (mem_n neqb (start G) nl) eqn:Es.
    - apply (mem_n_In neqb neqb_spec) in Es.
      destruct (add_new fresh Prime (nonterms G) (start G)) as [[s' nts']| |] eqn:E; simpl in H; try discriminate.
      inversion H; subst G'. clear H.
      destruct (add_new_spec _ _ _ _ _ E) as [Hfresh ->].
      intros w. rewrite !L_gen. simpl.
      set (P' := add_p teqb neqb (mkProd s' []) (add_p teqb neqb (mkProd s' [Nt (start G)]) P2)).
      assert (Hin : forall q, In q P' <-> q = mkProd s' [] \/ q = mkProd s' [Nt (start G)] \/ In q P2).
      { intros q. unfold P'. rewrite !In_add_p; auto. tauto. }
      assert (Hx : forall p, In p P' -> In p P2 \/ ~ In (head p) (nonterms G)).
      { intros p Hp. apply Hin in Hp. destruct Hp as [->|[->|Hp]]; auto. }
      assert (Hcons := gen_conservative (nonterms G) P2 P' Hcu2 Hx).
      split.
      + intros Hg. apply gen_nt_inv in Hg. destruct Hg as (p & Hp & Hh & Hbd).
        apply Hin in Hp. destruct Hp as [->|[->|Hp]]; simpl in *.
        * inversion Hbd; subst. now apply Hnl.
        * apply gens_single in Hbd. apply Hb. apply (proj1 Hcons _ _ Hbd).
          intros A HA. inversion HA; subst. apply Hwf.
        * exfalso. apply Hfresh. rewrite <- Hh. apply (proj1 (Hcu2 p Hp)).
      + intros Hg. destruct w as [|a w].
        * apply gen_nt_intro with (b := []); [apply Hin; auto|constructor].
        * apply gen_nt_intro with (b := [Nt (start G)]); [apply Hin; auto|].
          apply gens_single.
          apply (proj1 (gen_mono P2 P' (fun q Hq => proj2 (Hin q) (or_intror (or_intror Hq))))).
          apply Hf; auto. discriminate.
    - inversion H; subst G'. clear H.
      intros w. rewrite !L_gen. simpl. fold P2. split; [apply Hb|].
      intros Hg. apply Hf; auto. intros ->. apply Hnl in Hg. apply (mem_n_In neqb neqb_spec) in Hg. congruence.
  Qed.
End Lang1.
