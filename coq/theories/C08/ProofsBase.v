(** C08 — basic lemmas: boolean equalities, list-sets, the fuelled loop [fixloop],
    the reachability fixed point [reach] and [nullable]. *)
From Coq Require Import List Bool Arith Lia.
From Algo.Grammar Require Import CFG.
From Algo.C08 Require Import Model Spec.
Import ListNotations.

Lemma NoDup_app_single {A} (l : list A) x : NoDup l -> ~ In x l -> NoDup (l ++ [x]).
Proof.
  intros H Hx. apply NoDup_rev in H. rewrite <- (rev_involutive (l ++ [x])).
  apply NoDup_rev. rewrite rev_app_distr. simpl. constructor; auto. now rewrite <- in_rev.
Qed.

(** * generic list-set lemmas *)
Section Sets.
  Context {A : Type} (e : A -> A -> bool).
  Hypothesis e_spec : forall x y, e x y = true <-> x = y.

  Lemma memb_In x l : memb e x l = true <-> In x l.
  Proof.
    induction l as [|y l IH]; simpl; [split; [discriminate|tauto]|].
    rewrite orb_true_iff, IH, e_spec. split; intros [H|H]; auto.
  Qed.

  Lemma memb_false x l : memb e x l = false <-> ~ In x l.
  Proof. rewrite <- memb_In. destruct (memb e x l); split; congruence. Qed.

  Lemma In_addb x y l : In y (addb e x l) <-> y = x \/ In y l.
  Proof.
    unfold addb. destruct (memb e x l) eqn:E.
    - apply memb_In in E. split; [auto|]. intros [->|H]; auto.
    - rewrite in_app_iff. simpl. split; intros [H|H]; auto.
      + destruct H as [H|[]]; auto.
  Qed.

  Lemma NoDup_addb x l : NoDup l -> NoDup (addb e x l).
  Proof.
    intros H. unfold addb. destruct (memb e x l) eqn:E; auto.
    apply memb_false in E. apply NoDup_app_single; auto.
  Qed.

  Lemma length_addb x l : length l <= length (addb e x l).
  Proof. unfold addb. destruct (memb e x l); auto. rewrite app_length. simpl. lia. Qed.

  Lemma length_addb_lt x l : ~ In x l -> length l < length (addb e x l).
  Proof.
    intros H. apply memb_false in H. unfold addb. rewrite H, app_length. simpl. lia.
  Qed.

  Lemma In_fold_addb xs l y :
    In y (fold_left (fun l x => addb e x l) xs l) <-> In y xs \/ In y l.
  Proof.
    revert l. induction xs as [|x xs IH]; simpl; intros l; [tauto|].
    rewrite IH, In_addb. split; intros H; intuition.
  Qed.

  Lemma NoDup_fold_addb xs l : NoDup l -> NoDup (fold_left (fun l x => addb e x l) xs l).
  Proof. revert l. induction xs; simpl; intros; auto. apply IHxs. now apply NoDup_addb. Qed.

  Lemma length_fold_addb xs l : length l <= length (fold_left (fun l x => addb e x l) xs l).
  Proof.
    revert l. induction xs as [|x xs IH]; simpl; intros; auto.
    etransitivity; [apply (length_addb x)|apply IH].
  Qed.

  Lemma fold_addb_same xs l :
    length (fold_left (fun l x => addb e x l) xs l) <= length l ->
    fold_left (fun l x => addb e x l) xs l = l /\ incl xs l.
  Proof.
    revert l. induction xs as [|x xs IH]; simpl; intros l H; [split; auto; intros ? []|].
    destruct (memb e x l) eqn:E.
    - assert (Hx : addb e x l = l) by (unfold addb; now rewrite E).
      rewrite Hx in *. destruct (IH _ H) as [H1 H2]. split; auto.
      intros y [<-|Hy]; auto. now apply memb_In.
    - exfalso. apply memb_false in E. pose proof (length_addb_lt x l E).
      pose proof (length_fold_addb xs (addb e x l)). lia.
  Qed.

  Lemma list_eqb_spec (l1 l2 : list A) : list_eqb e l1 l2 = true <-> l1 = l2.
  Proof.
    revert l2. induction l1 as [|x l1 IH]; destruct l2 as [|y l2]; simpl; try (split; [discriminate|discriminate]); [tauto|].
    rewrite andb_true_iff, e_spec, IH. split; [intros [-> ->]; auto | intros H; inversion H; auto].
  Qed.

  Lemma In_removeb x y l : In y (removeb e x l) <-> In y l /\ y <> x.
  Proof.
    unfold removeb. rewrite filter_In. split; intros [H1 H2]; split; auto.
    - intros ->. rewrite (proj2 (e_spec x x) eq_refl) in H2. discriminate.
    - destruct (e x y) eqn:E; auto. apply e_spec in E. congruence.
  Qed.
End Sets.

(** * the fuelled loop *)
Section Fixloop.
  Context {A : Type} (step : A -> A * bool) (I : A -> Prop).
  Hypothesis I_step : forall x, I x -> I (fst (step x)).

  Lemma fixloop_inv fuel x y : I x -> fixloop step fuel x = Ok y ->
    exists x', I x' /\ step x' = (y, false).
  Proof.
    revert x. induction fuel as [|f IH]; simpl; intros x Hx H; [discriminate|].
    destruct (step x) as [x' upd] eqn:E. destruct upd.
    - apply (IH x'); auto. specialize (I_step x Hx). now rewrite E in I_step.
    - inversion H; subst. eauto.
  Qed.

  Lemma fixloop_total (mu : A -> nat) (B : nat) :
    (forall x, I x -> snd (step x) = true -> mu x < mu (fst (step x))) ->
    (forall x, I x -> mu x <= B) ->
    forall fuel x, I x -> B < fuel + mu x -> exists y, fixloop step fuel x = Ok y.
  Proof.
    intros Hmu HB. induction fuel as [|f IH]; simpl; intros x Hx Hf.
    - specialize (HB x Hx). lia.
    - destruct (step x) as [x' upd] eqn:E. destruct upd; [|eauto].
      apply IH.
      + specialize (I_step x Hx). now rewrite E in I_step.
      + specialize (Hmu x Hx). rewrite E in Hmu. simpl in Hmu. specialize (Hmu eq_refl). lia.
  Qed.
End Fixloop.

Section Base.
  Context {T N : Type}.
  Variable teqb : T -> T -> bool.
  Variable neqb : N -> N -> bool.
  Hypothesis teqb_spec : forall x y, teqb x y = true <-> x = y.
  Hypothesis neqb_spec : forall x y, neqb x y = true <-> x = y.

  Notation sym := (symbol T N).
  Notation prod := (production T N).
  Notation gram := (grammar T N).

  Lemma sym_eqb_spec (x y : sym) : sym_eqb teqb neqb x y = true <-> x = y.
  Proof.
    destruct x, y; simpl; try (split; discriminate).
    - rewrite teqb_spec. split; congruence.
    - rewrite neqb_spec. split; congruence.
  Qed.

  Lemma body_eqb_spec (b1 b2 : list sym) : body_eqb teqb neqb b1 b2 = true <-> b1 = b2.
  Proof. apply list_eqb_spec, sym_eqb_spec. Qed.

  Lemma prod_eqb_spec (p q : prod) : prod_eqb teqb neqb p q = true <-> p = q.
  Proof.
    unfold prod_eqb. rewrite andb_true_iff, neqb_spec, body_eqb_spec.
    destruct p, q; simpl. split; [intros [-> ->]; auto | intros H; inversion H; auto].
  Qed.

  Lemma neqb_refl x : neqb x x = true.
  Proof. now apply neqb_spec. Qed.

  Lemma neqb_false x y : neqb x y = false <-> x <> y.
  Proof. rewrite <- neqb_spec. destruct (neqb x y); split; congruence. Qed.

  Lemma mem_n_In x l : mem_n neqb x l = true <-> In x l.
  Proof. apply memb_In, neqb_spec. Qed.

  Lemma mem_p_In p l : mem_p teqb neqb p l = true <-> In p l.
  Proof. apply memb_In, prod_eqb_spec. Qed.

  Lemma In_add_p p q l : In q (add_p teqb neqb p l) <-> q = p \/ In q l.
  Proof. apply In_addb, prod_eqb_spec. Qed.

  Lemma In_add_ps ps l q : In q (add_ps teqb neqb ps l) <-> In q ps \/ In q l.
  Proof. apply (In_fold_addb _ prod_eqb_spec). Qed.

  Lemma In_add_n x y l : In y (add_n neqb x l) <-> y = x \/ In y l.
  Proof. apply In_addb, neqb_spec. Qed.

  Lemma In_add_ns xs l y : In y (add_ns neqb xs l) <-> In y xs \/ In y l.
  Proof. apply (In_fold_addb _ neqb_spec). Qed.

  Lemma In_get A (p : prod) (ps : list prod) : In p (get neqb A ps) <-> In p ps /\ head p = A.
  Proof. unfold get. rewrite filter_In, neqb_spec. tauto. Qed.

  Lemma In_remove_head A (p : prod) (ps : list prod) : In p (remove_head neqb A ps) <-> In p ps /\ head p <> A.
  Proof. unfold remove_head. rewrite filter_In, negb_true_iff, neqb_false. tauto. Qed.

  Lemma In_nts_of (b : list sym) A : In A (nts_of b) <-> In (Nt A) b.
  Proof.
    induction b as [|[a|B] b IH]; simpl; [tauto| |].
    - rewrite IH. split; auto. intros [H|H]; auto. discriminate.
    - rewrite IH. split; intros [H|H]; auto; [left; congruence | left; congruence].
  Qed.

  (** * reachability *)
  Inductive reachable (ps : list prod) (init : list N) : N -> Prop :=
  | reach_init A : In A init -> reachable ps init A
  | reach_step p B : In p ps -> reachable ps init (head p) -> In (Nt B) (body p) -> reachable ps init B.

  Definition reach_closed (ps : list prod) (s : list N) : Prop :=
    forall p B, In p ps -> In (head p) s -> In (Nt B) (body p) -> In B s.

  Lemma reachable_closed ps init s : incl init s -> reach_closed ps s ->
    forall A, reachable ps init A -> In A s.
  Proof. intros Hi Hc A H. induction H; eauto. Qed.

  (** invariant of the pass: every member is reachable, no duplicates *)
  Definition reach_inv (P : list prod) (init s : list N) : Prop :=
    NoDup s /\ incl init s /\ forall A, In A s -> reachable P init A.

  Lemma reach_pass_spec P init ps : incl ps P -> forall s upd s' upd',
    reach_pass neqb ps s upd = (s', upd') -> reach_inv P init s ->
    reach_inv P init s' /\ incl s s' /\ length s <= length s' /\
    (upd' = true -> upd = true \/ length s < length s') /\
    (upd' = false -> upd = false /\ s' = s /\ reach_closed ps s).
  Proof.
    induction ps as [|p ps IH]; simpl; intros Hps s upd s' upd' H Hinv.
    - inversion H; subst. repeat split; auto; try apply incl_refl; try tauto.
      + apply Hinv. + apply Hinv. + apply Hinv.
      + intros q B [].
    - assert (Hp : In p P) by (apply Hps; now left).
      assert (Hps' : incl ps P) by (intros x Hx; apply Hps; now right).
      destruct (mem_n neqb (head p) s) eqn:E.
      + apply mem_n_In in E.
        remember (add_ns neqb (nts_of (body p)) s) as s1 eqn:Es1.
        assert (Hinv1 : reach_inv P init s1).
        { destruct Hinv as (Hnd & Hi & Hr). repeat split.
          - subst s1. apply (NoDup_fold_addb _ neqb_spec); auto.
          - intros x Hx. subst s1. apply In_add_ns. right. auto.
          - intros A HA. subst s1. apply In_add_ns in HA. destruct HA as [HA|HA]; auto.
            apply In_nts_of in HA. eapply reach_step; eauto. }
        assert (Hlen : length s <= length s1) by (subst s1; apply length_fold_addb).
        destruct (IH Hps' _ _ _ _ H Hinv1) as (Hinv' & Hincl & Hl & Hu & Hnu).
        split; auto. split.
        { intros x Hx. apply Hincl. subst s1. apply In_add_ns. now right. }
        split; [lia|]. split.
        * intros Ht. destruct (Hu Ht) as [Hor|Hlt]; [|right; lia].
          apply orb_true_iff in Hor. destruct Hor as [?|Hlt]; auto.
          apply Nat.ltb_lt in Hlt. right. lia.
        * intros Hf. destruct (Hnu Hf) as (Hor & -> & Hcl).
          apply orb_false_iff in Hor. destruct Hor as [-> Hlt].
          apply Nat.ltb_ge in Hlt. rewrite Es1 in Hlt. unfold add_ns in Hlt.
          destruct (fold_addb_same _ neqb_spec _ _ Hlt) as [Hsame Hsub].
          unfold add_ns, add_n in Es1. rewrite Hsame in Es1. subst s1.
          split; auto. split; auto.
          intros q B [<-|Hq] Hh HB.
          -- apply Hsub. now apply In_nts_of.
          -- eapply Hcl; eauto.
      + destruct (IH Hps' _ _ _ _ H Hinv) as (Hinv' & Hincl & Hl & Hu & Hnu).
        split; [auto|]. split; [auto|]. split; [auto|]. split; [auto|].
        intros Hf. destruct (Hnu Hf) as (-> & -> & Hcl). split; [auto|]. split; [auto|].
        intros q B [<-|Hq] Hh HB.
        * apply mem_n_In in Hh. congruence.
        * eapply Hcl; eauto.
  Qed.

  Lemma reach_inv_bound P init s : reach_inv P init s ->
    length s <= length init + total_nts P.
  Proof.
    intros (Hnd & _ & Hr). unfold total_nts. rewrite <- app_length.
    apply NoDup_incl_length; auto.
    intros A HA. apply in_or_app. specialize (Hr A HA).
    induction Hr as [A HA'|p B Hp _ _ HB]; [now left|right].
    apply in_flat_map. exists p. split; auto. now apply In_nts_of.
  Qed.

  Theorem reach_spec (ps : list prod) init s : NoDup init -> reach neqb ps init = Ok s ->
    NoDup s /\ forall A, In A s <-> reachable ps init A.
  Proof.
    intros Hnd H. unfold reach in H.
    assert (Hstep : forall x, reach_inv ps init x -> reach_inv ps init (fst (reach_pass neqb ps x false))).
    { intros x Hx. destruct (reach_pass neqb ps x false) as [x' u] eqn:E.
      now destruct (reach_pass_spec ps init ps (incl_refl _) _ _ _ _ E Hx) as (H1 & _). }
    assert (H0 : reach_inv ps init init).
    { repeat split; auto; try apply incl_refl. intros; now constructor. }
    destruct (fixloop_inv _ _ Hstep _ _ _ H0 H) as (x' & Hx' & E).
    destruct (reach_pass_spec ps init ps (incl_refl _) _ _ _ _ E Hx') as (Hinv & _ & _ & _ & Hnu).
    destruct (Hnu eq_refl) as (_ & -> & Hcl).
    split; [apply Hinv|]. intros A. split; [apply Hinv|].
    apply reachable_closed; auto. apply Hinv.
  Qed.

  Theorem reach_total (ps : list prod) init : NoDup init -> length init <= 1 -> exists s, reach neqb ps init = Ok s.
  Proof.
    intros Hnd Hlen. unfold reach.
    apply (fixloop_total _ (reach_inv ps init)) with (mu := @length N) (B := length init + total_nts ps).
    - intros x Hx. destruct (reach_pass neqb ps x false) as [x' u] eqn:E.
      now destruct (reach_pass_spec ps init ps (incl_refl _) _ _ _ _ E Hx) as (H1 & _).
    - intros x Hx Hu. destruct (reach_pass neqb ps x false) as [x' u] eqn:E. simpl in *. subst u.
      destruct (reach_pass_spec ps init ps (incl_refl _) _ _ _ _ E Hx) as (_ & _ & _ & Hu & _).
      destruct (Hu eq_refl); [discriminate|auto].
    - intros x Hx. now apply reach_inv_bound.
    - repeat split; auto; try apply incl_refl. intros; now constructor.
    - lia.
  Qed.

  (** * nullable *)
  Definition nullable_closed (ps : list prod) (nl : list N) : Prop :=
    forall p, In p ps -> all_nullable neqb nl (body p) = true -> In (head p) nl.

  Definition null_inv (P : list prod) (nl : list N) : Prop :=
    NoDup nl /\ (forall A, In A nl -> gen P (Nt A) []) /\ incl nl (map (@head T N) P).

  Lemma all_nullable_gens P nl (b : list sym) :
    (forall A, In A nl -> gen P (Nt A) []) -> all_nullable neqb nl b = true -> gens P b [].
  Proof.
    intros Hn. induction b as [|[a|A] b IH]; simpl; intros H; [constructor|discriminate|].
    apply andb_true_iff in H. destruct H as [H1 H2]. apply mem_n_In in H1.
    change (@nil T) with (@nil T ++ []). constructor; auto.
  Qed.

  Lemma nullable_pass_spec P ps : incl ps P -> forall nl upd nl' upd',
    nullable_pass neqb ps nl upd = (nl', upd') -> null_inv P nl ->
    null_inv P nl' /\ incl nl nl' /\
    (upd' = true -> upd = true \/ length nl < length nl') /\
    (upd' = false -> upd = false /\ nl' = nl /\ nullable_closed ps nl).
  Proof.
    induction ps as [|p ps IH]; simpl; intros Hps nl upd nl' upd' H Hinv.
    - inversion H; subst. repeat split; try apply Hinv; auto; try apply incl_refl; try tauto.
      intros q [].
    - assert (Hp : In p P) by (apply Hps; now left).
      assert (Hps' : incl ps P) by (intros x Hx; apply Hps; now right).
      destruct (mem_n neqb (head p) nl) eqn:E.
      + destruct (IH Hps' _ _ _ _ H Hinv) as (Hinv' & Hincl & Hu & Hnu).
        split; [auto|]. split; [auto|]. split; [auto|].
        intros Hf. destruct (Hnu Hf) as (-> & -> & Hcl). split; [auto|]. split; [auto|].
        intros q [<-|Hq] Hb; [now apply mem_n_In|auto].
      + destruct (all_nullable neqb nl (body p)) eqn:E2.
        * assert (Hinv1 : null_inv P (nl ++ [head p])).
          { destruct Hinv as (Hnd & Hg & Hh). repeat split.
            - apply NoDup_app_single; auto. now apply (memb_false _ neqb_spec).
            - intros A HA. apply in_app_iff in HA. destruct HA as [HA|[<-|[]]]; auto.
              constructor; auto. eapply all_nullable_gens; eauto.
            - intros A HA. apply in_app_iff in HA. destruct HA as [HA|[<-|[]]]; auto.
              now apply in_map. }
          destruct (IH Hps' _ _ _ _ H Hinv1) as (Hinv' & Hincl & Hu & Hnu).
          split; auto. split; [intros x Hx; apply Hincl, in_app_iff; now left|].
          split.
          -- intros _. right.
             assert (length (nl ++ [head p]) <= length nl').
             { apply NoDup_incl_length; auto. apply Hinv1. }
             rewrite app_length in H0. simpl in H0. lia.
          -- intros Hf. destruct (Hnu Hf) as (Hc & _). discriminate.
        * destruct (IH Hps' _ _ _ _ H Hinv) as (Hinv' & Hincl & Hu & Hnu).
          split; [auto|]. split; [auto|]. split; [auto|].
          intros Hf. destruct (Hnu Hf) as (-> & -> & Hcl). split; [auto|]. split; [auto|].
          intros q [<-|Hq] Hb; [congruence|auto].
  Qed.

  Lemma nullable_complete P nl : nullable_closed P nl ->
    (forall s w, gen P s w -> w = [] -> nullable_sym neqb nl s = true) /\
    (forall u w, gens P u w -> w = [] -> all_nullable neqb nl u = true).
  Proof.
    intros Hc. apply gen_gens_ind.
    - intros a H. discriminate.
    - intros p w Hp _ IH Hw. simpl. apply mem_n_In. apply Hc; auto.
    - reflexivity.
    - intros s u w1 w2 _ IH1 _ IH2 Hw. apply app_eq_nil in Hw. destruct Hw as [-> ->].
      simpl. specialize (IH1 eq_refl). specialize (IH2 eq_refl).
      destruct s; simpl in *; [discriminate|]. now rewrite IH1, IH2.
  Qed.

  Theorem nullable_spec (P : list prod) nl : nullable neqb P = Ok nl ->
    NoDup nl /\ forall A, In A nl <-> gen P (Nt A) [].
  Proof.
    intros H. unfold nullable in H.
    assert (Hstep : forall x, null_inv P x -> null_inv P (fst (nullable_pass neqb P x false))).
    { intros x Hx. destruct (nullable_pass neqb P x false) as [x' u] eqn:E.
      now destruct (nullable_pass_spec P P (incl_refl _) _ _ _ _ E Hx) as (H1 & _). }
    assert (H0 : null_inv P []).
    { repeat split; [constructor| intros ? [] | intros ? []]. }
    destruct (fixloop_inv _ _ Hstep _ _ _ H0 H) as (x' & Hx' & E).
    destruct (nullable_pass_spec P P (incl_refl _) _ _ _ _ E Hx') as (Hinv & _ & _ & Hnu).
    destruct (Hnu eq_refl) as (_ & Heq & Hcl). subst x'.
    split; [apply Hinv|]. intros A. split; [apply Hinv|].
    intros Hg. apply mem_n_In. apply (proj1 (nullable_complete P nl Hcl) (Nt A) [] Hg eq_refl).
  Qed.

  Theorem nullable_total (P : list prod) : exists nl, nullable neqb P = Ok nl.
  Proof.
    unfold nullable.
    apply (fixloop_total _ (null_inv P)) with (mu := @length N) (B := length P).
    - intros x Hx. destruct (nullable_pass neqb P x false) as [x' u] eqn:E.
      now destruct (nullable_pass_spec P P (incl_refl _) _ _ _ _ E Hx) as (H1 & _).
    - intros x Hx Hu. destruct (nullable_pass neqb P x false) as [x' u] eqn:E. simpl in *. subst u.
      destruct (nullable_pass_spec P P (incl_refl _) _ _ _ _ E Hx) as (_ & _ & Hu & _).
      destruct (Hu eq_refl); [discriminate|auto].
    - intros x (Hnd & _ & Hi). rewrite <- (map_length (@head T N) P). now apply NoDup_incl_length.
    - repeat split; [constructor| intros ? [] | intros ? []].
    - simpl. lia.
  Qed.
End Base.
