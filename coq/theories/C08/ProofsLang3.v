(** C08 — language preservation, part 3: TERM (eliminateNonSolitaryTerminals) and
    BIN (eliminateNonBinaryProductions), by a substitution simulation: every fresh
    non-terminal [F] is given an expansion [σ F] over the old symbols. *)
From Coq Require Import List Bool Arith Lia.
From Algo.Grammar Require Import CFG.
From Algo.C08 Require Import Model Spec ProofsBase ProofsLang1 ProofsLang2.
Import ListNotations.

Section Lang3.
  Context {T N : Type}.
  Variable teqb : T -> T -> bool.
  Variable neqb : N -> N -> bool.
  Variable t2n : T -> N.
  Variable fresh : skind -> list N -> N -> option N.
  Hypothesis teqb_spec : forall x y, teqb x y = true <-> x = y.
  Hypothesis neqb_spec : forall x y, neqb x y = true <-> x = y.
  Hypothesis fresh_spec : forall k nts b x, fresh k nts b = Some x -> ~ In x nts.

  Notation sym := (symbol T N).
  Notation prod := (production T N).
  Notation gram := (grammar T N).

  Lemma Forall2_mono {A B} (R R' : A -> B -> Prop) l l' :
    (forall a b, R a b -> R' a b) -> Forall2 R l l' -> Forall2 R' l l'.
  Proof. intros H F. induction F; constructor; auto. Qed.

  (** * substitution simulation *)
  Definition ex (σ : N -> list sym) (s : sym) : list sym :=
    match s with Tm a => [Tm a] | Nt A => σ A end.
  Definition exs (σ : N -> list sym) (u : list sym) : list sym := flat_map (ex σ) u.

  Lemma exs_app σ u v : exs σ (u ++ v) = exs σ u ++ exs σ v.
  Proof. apply flat_map_app. Qed.

  Lemma gen_subst (P P' : list prod) (σ : N -> list sym) :
    (forall q, In q P' -> forall w, gens P (exs σ (body q)) w -> gens P (σ (head q)) w) ->
    (forall s w, gen P' s w -> gens P (ex σ s) w) /\ (forall u w, gens P' u w -> gens P (exs σ u) w).
  Proof.
    intros H. apply gen_gens_ind.
    - intros a. simpl. apply gens_single. constructor.
    - intros q w Hq _ IH. simpl. now apply H.
    - constructor.
    - intros s u w1 w2 _ IH1 _ IH2. simpl. now apply gens_app.
  Qed.

  (** [σ] is the identity on [nts] *)
  Definition id_on (σ : N -> list sym) (nts : list N) : Prop := forall A, In A nts -> σ A = [Nt A].

  Lemma exs_id σ nts (u : list sym) : id_on σ nts -> (forall A, In (Nt A) u -> In A nts) -> exs σ u = u.
  Proof.
    intros Hid. induction u as [|[a|A] u IH]; simpl; intros Hu; auto.
    - f_equal. apply IH. intros; apply Hu; now right.
    - rewrite (Hid A) by (apply Hu; now left). simpl. f_equal. apply IH. intros; apply Hu; now right.
  Qed.

  Definition upd (σ : N -> list sym) (F : N) (β : list sym) : N -> list sym :=
    fun X => if neqb X F then β else σ X.

  Lemma upd_same σ F β : upd σ F β F = β.
  Proof. unfold upd. now rewrite (proj2 (neqb_spec F F) eq_refl). Qed.

  Lemma upd_other σ F β X : X <> F -> upd σ F β X = σ X.
  Proof. unfold upd. intros H. destruct (neqb X F) eqn:E; auto. apply neqb_spec in E. congruence. Qed.

  Lemma exs_upd σ F β (u : list sym) : ~ In (Nt F) u -> exs (upd σ F β) u = exs σ u.
  Proof.
    induction u as [|[a|A] u IH]; simpl; intros Hu; auto.
    - f_equal. apply IH. intros H; apply Hu; now right.
    - rewrite upd_other by (intros ->; apply Hu; now left). f_equal. apply IH. intros H; apply Hu; now right.
  Qed.

  (** [b] can be folded into [hd] using the productions of [out] (and of any extension) *)
  Definition impl_by (out : list prod) (hd : N) (b : list sym) : Prop :=
    forall out', incl out out' -> forall w, gens out' b w -> gen out' (Nt hd) w.

  Lemma impl_by_mono out out2 hd b : incl out out2 -> impl_by out hd b -> impl_by out2 hd b.
  Proof. intros Hi H out' Ho. apply H. eapply incl_tran; eauto. Qed.

  Lemma impl_by_prod out hd b : In (mkProd hd b) out -> impl_by out hd b.
  Proof. intros H out' Ho w Hw. apply gen_nt_intro with (b := b); auto. Qed.

  Lemma gen_forward (P out : list prod) :
    (forall p, In p P -> impl_by out (head p) (body p)) ->
    (forall s w, gen P s w -> gen out s w) /\ (forall u w, gens P u w -> gens out u w).
  Proof.
    intros H. apply gen_gens_ind; try (intros; constructor; auto; fail).
    intros p w Hp _ IH. apply (H p Hp out (incl_refl _)); auto.
  Qed.

  Section WithG.
    Variable G : gram.
    Hypothesis Hwf : wf G.
    Let P := prods G.
    Let nts0 := nonterms G.

    (** the simulation invariant of a partially built output *)
    Record sim_inv (σ : N -> list sym) (nts : list N) (out : list prod) : Prop := {
      si_id : id_on σ nts0;
      si_incl : incl nts0 nts;
      si_closed : closed_under nts out;
      si_terms : forall q t, In q out -> In (Tm t) (body q) -> In t (terms G);
      si_sim : forall q, In q out -> forall w, gens P (exs σ (body q)) w -> gens P (σ (head q)) w
    }.

    Lemma sim_inv_add σ nts out q :
      sim_inv σ nts out -> In (head q) nts -> (forall A, In (Nt A) (body q) -> In A nts) ->
      (forall t, In (Tm t) (body q) -> In t (terms G)) ->
      (forall w, gens P (exs σ (body q)) w -> gens P (σ (head q)) w) ->
      sim_inv σ nts (add_p teqb neqb q out).
    Proof.
      intros [H1 H2 H3 H4 H5] Hh Hb Ht Hs. split; auto.
      - intros q' Hq'. apply In_add_p in Hq'; auto. destruct Hq' as [->|Hq']; auto.
      - intros q' t Hq'. apply In_add_p in Hq'; auto. destruct Hq' as [->|Hq']; eauto.
      - intros q' Hq'. apply In_add_p in Hq'; auto. destruct Hq' as [->|Hq']; auto.
    Qed.

    (** a fresh non-terminal with expansion [β] *)
    Lemma sim_inv_fresh σ nts out F β :
      sim_inv σ nts out -> ~ In F nts -> sim_inv (upd σ F β) (nts ++ [F]) out.
    Proof.
      intros [H1 H2 H3 H4 H5] HF. split; auto.
      - intros A HA. rewrite upd_other; auto. intros ->. apply HF. now apply H2.
      - intros A HA. apply in_or_app. left. auto.
      - intros q Hq. destruct (H3 q Hq) as [Hh Hb]. split; [apply in_or_app; now left|].
        intros A HA. apply in_or_app. left. auto.
      - intros q Hq w Hw. destruct (H3 q Hq) as [Hh Hb].
        rewrite upd_other by (intros E; apply HF; now rewrite <- E).
        rewrite exs_upd in Hw by (intros HFb; apply HF; now apply Hb). now apply H5.
    Qed.

    Lemma sim_inv_lang σ nts out : sim_inv σ nts out ->
      (forall p, In p P -> impl_by out (head p) (body p)) ->
      forall w, gen out (Nt (start G)) w <-> gen P (Nt (start G)) w.
    Proof.
      intros Hs Hf w. split.
      - intros H. apply (proj1 (gen_subst P out σ (si_sim _ _ _ Hs))) in H. simpl in H.
        rewrite (si_id _ _ _ Hs (start G)) in H by apply Hwf. now apply gens_single.
      - apply (proj1 (gen_forward P out Hf)).
    Qed.

    Lemma sim_inv_wf σ nts out : sim_inv σ nts out ->
      wf (mkGrammar (terms G) nts out (start G)).
    Proof.
      intros Hs. split; simpl.
      - apply (si_incl _ _ _ Hs). apply Hwf.
      - intros q Hq. destruct (si_closed _ _ _ Hs q Hq) as [Hh Hb]. split; auto.
        intros [t|A] Hx; simpl; [eapply si_terms; eauto|auto].
    Qed.

    Lemma P_closed : closed_under nts0 P.
    Proof. apply wf_closed_under, Hwf. Qed.

    Lemma P_terms p t : In p P -> In (Tm t) (body p) -> In t (terms G).
    Proof. intros Hp Ht. destruct Hwf as [_ H]. destruct (H p Hp) as [_ Hb]. apply (Hb (Tm t) Ht). Qed.

    (** * BIN *)
    Lemma bin_chain_spec A : forall b hd σ nts out,
      sim_inv σ nts out -> In hd nts ->
      (forall B, In (Nt B) b -> In B nts) -> (forall t, In (Tm t) b -> In t (terms G)) ->
      (forall w, gens P (exs σ b) w -> gens P (σ hd) w) ->
      ok_or_names (bin_chain teqb neqb fresh A hd b (nts, out))
        (fun st' => exists σ', sim_inv σ' (fst st') (snd st') /\ incl nts (fst st') /\ incl out (snd st') /\
                               impl_by (snd st') hd b).
    Proof.
      induction b as [|x b IH]; intros hd σ nts out Hs Hhd Hb Ht Hpre.
      - simpl. exists σ. split; [|split; [apply incl_refl|split]].
        + apply sim_inv_add; auto.
        + intros q Hq. apply In_add_p; auto.
        + apply impl_by_prod. apply In_add_p; auto.
      - destruct b as [|y [|z b'']].
        + simpl. exists σ. split; [|split; [apply incl_refl|split]].
          * apply sim_inv_add; auto.
          * intros q Hq. apply In_add_p; auto.
          * apply impl_by_prod. apply In_add_p; auto.
        + simpl. exists σ. split; [|split; [apply incl_refl|split]].
          * apply sim_inv_add; auto.
          * intros q Hq. apply In_add_p; auto.
          * apply impl_by_prod. apply In_add_p; auto.
        + set (b' := y :: z :: b'') in *.
          change (bin_chain teqb neqb fresh A hd (x :: b') (nts, out)) with
            (do xn <- add_new fresh Numeric nts A;
             let (hn, nts') := (xn : N * list N) in
             bin_chain teqb neqb fresh A hn b' (nts', add_p teqb neqb (mkProd hd [x; Nt hn]) out)).
          eapply ok_or_names_bind; [apply add_new_total; auto|].
          intros [hn nts'] [Hfresh Hn]. simpl in Hfresh, Hn. subst nts'.
          assert (Hxb : ~ In (Nt hn) (x :: b')).
          { intros H. apply Hfresh. now apply Hb. }
          set (σ1 := upd σ hn (exs σ b')).
          assert (Hs1 : sim_inv σ1 (nts ++ [hn]) out) by (apply sim_inv_fresh; auto).
          assert (Hs2 : sim_inv σ1 (nts ++ [hn]) (add_p teqb neqb (mkProd hd [x; Nt hn]) out)).
          { apply sim_inv_add; auto; simpl.
            - apply in_or_app. now left.
            - intros B [HB|[HB|[]]].
              + apply in_or_app. left. apply Hb. left. auto.
              + inversion HB; subst. apply in_or_app. right. now left.
            - intros t [Hx|[Hx|[]]]; [|discriminate]. apply Ht. left. auto.
            - intros w Hw. rewrite app_nil_r in Hw.
              assert (E1 : σ1 hd = σ hd) by (unfold σ1; apply upd_other; intros ->; auto).
              rewrite E1. apply Hpre.
              replace (exs σ (x :: b')) with (ex σ1 x ++ σ1 hn); auto.
              unfold σ1. rewrite upd_same. simpl. f_equal.
              destruct x as [a|X]; simpl; auto. rewrite upd_other; auto.
              intros ->. apply Hxb. now left. }
          eapply ok_or_names_weaken.
          * apply (IH hn σ1); auto.
            -- apply in_or_app. right. now left.
            -- intros B HB. apply in_or_app. left. apply Hb. now right.
            -- intros t Ht'. apply Ht. now right.
            -- intros w Hw. assert (E1 : σ1 hn = exs σ b') by (unfold σ1; apply upd_same).
               rewrite E1. unfold σ1 in Hw. rewrite exs_upd in Hw; auto.
               intros H. apply Hxb. now right.
          * intros st' (σ' & Hs' & Hi1 & Hi2 & Himp). exists σ'. split; [auto|split; [|split]].
            -- intros X HX. apply Hi1. apply in_or_app. now left.
            -- intros q Hq. apply Hi2. apply In_add_p; auto.
            -- intros out' Ho w Hw. apply gens_cons_inv in Hw. destruct Hw as (w1 & w2 & -> & Hx & Hb').
               apply gen_nt_intro with (b := [x; Nt hn]).
               ++ apply Ho, Hi2. apply In_add_p; auto.
               ++ constructor; auto. apply gens_single. now apply Himp.
    Qed.

    Lemma bin_prods_spec : forall ps σ nts out,
      incl ps P -> sim_inv σ nts out ->
      ok_or_names (bin_prods teqb neqb fresh ps (nts, out))
        (fun st' => exists σ', sim_inv σ' (fst st') (snd st') /\ incl out (snd st') /\
                               forall p, In p ps -> impl_by (snd st') (head p) (body p)).
    Proof.
      induction ps as [|p ps IH]; intros σ nts out Hps Hs.
      - simpl. exists σ. split; [auto|split; [apply incl_refl|intros p []]].
      - assert (Hp : In p P) by (apply Hps; now left).
        assert (Hps' : incl ps P) by (intros q Hq; apply Hps; now right).
        destruct (P_closed p Hp) as [Hh Hb].
        assert (Hh' : In (head p) nts) by (apply (si_incl _ _ _ Hs); auto).
        assert (Hb' : forall B, In (Nt B) (body p) -> In B nts) by (intros; apply (si_incl _ _ _ Hs); auto).
        assert (Hpre : forall w, gens P (exs σ (body p)) w -> gens P (σ (head p)) w).
        { intros w Hw. rewrite (exs_id σ nts0) in Hw; auto using (si_id _ _ _ Hs).
          rewrite (si_id _ _ _ Hs (head p)); auto. apply gens_single. now constructor. }
        simpl. destruct (is_cnf_binary p || is_cnf_terminal p || is_empty p || is_single p).
        + assert (Hs1 : sim_inv σ nts (add_p teqb neqb p out)).
          { apply sim_inv_add; auto. intros t Ht. eapply P_terms; eauto. }
          eapply ok_or_names_weaken; [apply (IH σ); auto|].
          intros st' (σ' & Hs' & Hi & Himp). exists σ'. split; [auto|split].
          * intros q Hq. apply Hi. apply In_add_p; auto.
          * intros q [<-|Hq]; auto. apply impl_by_mono with (out := add_p teqb neqb p out); auto.
            apply impl_by_prod. destruct p; simpl. apply In_add_p; auto.
        + eapply ok_or_names_bind.
          * apply (bin_chain_spec (head p) (body p) (head p) σ); auto. intros t Ht. eapply P_terms; eauto.
          * intros [nts1 out1] (σ1 & Hs1 & Hi1 & Hi2 & Himp1). simpl in *.
            eapply ok_or_names_weaken; [apply (IH σ1); auto|].
            intros st' (σ' & Hs' & Hi & Himp). exists σ'. split; [auto|split].
            -- eapply incl_tran; eauto.
            -- intros q [<-|Hq]; auto. eapply impl_by_mono; eauto.
    Qed.

    Theorem bin_total :
      ok_or_names (cnf_bin teqb neqb fresh G) (fun G' => same_language G G' /\ wf G').
    Proof.
      unfold cnf_bin. eapply ok_or_names_bind.
      - apply (bin_prods_spec P (fun A => [Nt A]) nts0 []); [apply incl_refl|].
        split; try (intros ? []); try (intros ? ? []); auto using incl_refl. intros A _. reflexivity.
      - intros [nts out] (σ' & Hs' & _ & Himp). simpl in *. split.
        + intros w. rewrite !L_gen. simpl. eapply sim_inv_lang; eauto.
        + eapply sim_inv_wf; eauto.
    Qed.

    (** * TERM *)
    (** [s'] stands for [s]: identical, or the non-terminal introduced for a terminal *)
    Definition stands_for (out : list prod) (s s' : sym) : Prop :=
      s' = s \/ exists t n, s = Tm t /\ s' = Nt n /\ In (mkProd n [Tm t]) out.

    Lemma stands_for_gens out (b nb : list sym) : Forall2 (stands_for out) b nb ->
      forall out', incl out out' -> forall w, gens out' b w -> gens out' nb w.
    Proof.
      intros H out' Ho. induction H as [|s s' b nb Hs _ IH]; intros w Hw; auto.
      apply gens_cons_inv in Hw. destruct Hw as (w1 & w2 & -> & H1 & H2). constructor; auto.
      destruct Hs as [->|(t & n & -> & -> & Hq)]; auto.
      apply gen_nt_intro with (b := [Tm t]); auto. now apply gens_single.
    Qed.

    Lemma stands_for_mono out out2 s s' : incl out out2 -> stands_for out s s' -> stands_for out2 s s'.
    Proof. intros Hi [->|(t & n & -> & -> & Hq)]; [now left|right; eauto 6]. Qed.

    Definition store_ok (σ : N -> list sym) (nts : list N) (st : list (T * N)) : Prop :=
      forall t n, In (t, n) st -> σ n = [Tm t] /\ In n nts /\ In t (terms G).

    Lemma store_find_In t (st : list (T * N)) n : store_find teqb t st = Some n -> In (t, n) st.
    Proof.
      induction st as [|[t' n'] st IH]; simpl; [discriminate|].
      destruct (teqb t t') eqn:E.
      - apply teqb_spec in E. intros H. inversion H; subst. now left.
      - intros H. right. auto.
    Qed.

    Definition tinv (σ : N -> list sym) (s : term_state) : Prop :=
      sim_inv σ (ts_nts s) (ts_prods s) /\ store_ok σ (ts_nts s) (ts_store s).


    Lemma stands_for_terms out (b nb : list sym) : Forall2 (stands_for out) b nb ->
      forall t, In (Tm t) nb -> In (Tm t) b.
    Proof.
      intros H. induction H as [|s s' b nb Hs _ IH]; intros t Ht; auto.
      destruct Ht as [Ht|Ht]; [|right; auto].
      destruct Hs as [->|(t' & n & -> & -> & _)]; [now left|discriminate].
    Qed.

    Lemma term_body_spec : forall b pre newb σ s,
      tinv σ s -> exs σ newb = pre -> Forall2 (stands_for (ts_prods s)) pre newb ->
      (forall B, In (Nt B) b -> In B nts0) -> (forall t, In (Tm t) b -> In t (terms G)) ->
      (forall B, In (Nt B) newb -> In B (ts_nts s)) ->
      ok_or_names (term_body teqb neqb t2n fresh b newb s)
        (fun r => exists σ', tinv σ' (snd r) /\ exs σ' (fst r) = pre ++ b /\
                             Forall2 (stands_for (ts_prods (snd r))) (pre ++ b) (fst r) /\
                             incl (ts_prods s) (ts_prods (snd r)) /\
                             (forall B, In (Nt B) (fst r) -> In B (ts_nts (snd r)))).
    Proof.
      induction b as [|x b IH]; intros pre newb σ s [Hs Hst] Hex Hf Hb Ht Hnb.
      - simpl. exists σ. rewrite app_nil_r. split; [split; auto|]. split; auto. split; auto. split; auto using incl_refl.
      - destruct x as [t|A].
        + (* terminal *)
          simpl. destruct (store_find teqb t (ts_store s)) as [n|] eqn:Ef.
          * apply store_find_In in Ef. destruct (Hst t n Ef) as (Hσn & Hn & Htt).
            set (s1 := mkTS (ts_store s) (ts_nts s) (add_p teqb neqb (mkProd n [Tm t]) (ts_prods s))).
            assert (Hs1 : tinv σ s1).
            { split; auto. unfold s1; simpl. apply sim_inv_add; auto; simpl.
              - intros B [HB|[]]. discriminate.
              - intros t' [Ht'|[]]. inversion Ht'; subst; auto.
              - intros w Hw. now rewrite Hσn. }
            eapply ok_or_names_weaken.
            -- apply (IH (pre ++ [Tm t]) (newb ++ [Nt n]) σ s1); auto.
               ++ rewrite exs_app, Hex. simpl. now rewrite Hσn, app_nil_r.
               ++ apply Forall2_app.
                  ** eapply Forall2_mono; [|exact Hf]. intros a b0. apply stands_for_mono.
                     intros q Hq. unfold s1; simpl. apply In_add_p; auto.
                  ** constructor; [|constructor]. right. exists t, n. repeat split; auto.
                     unfold s1; simpl. apply In_add_p; auto.
               ++ intros B HB. apply Hb. now right.
               ++ intros t' Ht'. apply Ht. now right.
               ++ intros B HB. apply in_app_iff in HB. destruct HB as [HB|[HB|[]]]; auto.
                  inversion HB; subst. auto.
            -- intros r (σ' & Hti & Hex' & Hf' & Hi & Hnb'). exists σ'.
               rewrite <- app_assoc in Hex', Hf'. simpl in Hex', Hf'.
               split; auto. split; auto. split; auto. split; auto.
               intros q Hq. apply Hi. unfold s1; simpl. apply In_add_p; auto.
          * eapply ok_or_names_bind; [apply add_new_total; auto|].
            intros [n nts'] [Hfresh Hn]. simpl in Hfresh, Hn. subst nts'.
            set (σ1 := upd σ n [Tm t]).
            set (s1 := mkTS ((t, n) :: ts_store s) (ts_nts s ++ [n]) (add_p teqb neqb (mkProd n [Tm t]) (ts_prods s))).
            assert (Hσ1n : σ1 n = [Tm t]) by (unfold σ1; apply upd_same).
            assert (Hs1 : tinv σ1 s1).
            { split; unfold s1; simpl.
              - apply sim_inv_add; simpl.
                + apply sim_inv_fresh; auto.
                + apply in_or_app. right. now left.
                + intros B [HB|[]]. discriminate.
                + intros t' [Ht'|[]]. inversion Ht'; subst. apply Ht. now left.
                + intros w Hw. now rewrite Hσ1n.
              - intros t' n' [E|Hin].
                + inversion E; subst. split; auto. split; [apply in_or_app; right; now left|apply Ht; now left].
                + destruct (Hst t' n' Hin) as (H1 & H2 & H3). split; [|split; auto].
                  * unfold σ1. rewrite upd_other; auto. intros ->. auto.
                  * apply in_or_app. now left. }
            eapply ok_or_names_weaken.
            -- apply (IH (pre ++ [Tm t]) (newb ++ [Nt n]) σ1 s1); auto.
               ++ rewrite exs_app. unfold σ1 at 1. rewrite exs_upd by (intros H; apply Hfresh; now apply Hnb).
                  rewrite Hex. simpl. now rewrite Hσ1n, app_nil_r.
               ++ apply Forall2_app.
                  ** eapply Forall2_mono; [|exact Hf]. intros a b0. apply stands_for_mono.
                     intros q Hq. unfold s1; simpl. apply In_add_p; auto.
                  ** constructor; [|constructor]. right. exists t, n. repeat split; auto.
                     unfold s1; simpl. apply In_add_p; auto.
               ++ intros B HB. apply Hb. now right.
               ++ intros t' Ht'. apply Ht. now right.
               ++ unfold s1; simpl. intros B HB. apply in_app_iff in HB. apply in_or_app.
                  destruct HB as [HB|[HB|[]]]; [left; auto|]. inversion HB; subst. right. now left.
            -- intros r (σ' & Hti & Hex' & Hf' & Hi & Hnb'). exists σ'.
               rewrite <- app_assoc in Hex', Hf'. simpl in Hex', Hf'.
               split; auto. split; auto. split; auto. split; auto.
               intros q Hq. apply Hi. unfold s1; simpl. apply In_add_p; auto.
        + (* non-terminal *)
          simpl. eapply ok_or_names_weaken.
          * apply (IH (pre ++ [Nt A]) (newb ++ [Nt A]) σ s); auto.
            -- split; auto.
            -- rewrite exs_app, Hex. simpl. rewrite (si_id _ _ _ Hs A) by (apply Hb; now left). now rewrite app_nil_r.
            -- apply Forall2_app; auto. constructor; [now left|constructor].
            -- intros B HB. apply Hb. now right.
            -- intros t' Ht'. apply Ht. now right.
            -- intros B HB. apply in_app_iff in HB. destruct HB as [HB|[HB|[]]]; auto.
               inversion HB; subst. apply (si_incl _ _ _ Hs). apply Hb. now left.
          * intros r (σ' & Hti & Hex' & Hf' & Hi & Hnb'). exists σ'.
            rewrite <- app_assoc in Hex', Hf'. simpl in Hex', Hf'. auto.
    Qed.

    Lemma term_prods_spec : forall ps σ s,
      incl ps P -> tinv σ s ->
      ok_or_names (term_prods teqb neqb t2n fresh ps s)
        (fun s' => exists σ', tinv σ' s' /\ incl (ts_prods s) (ts_prods s') /\
                              forall p, In p ps -> impl_by (ts_prods s') (head p) (body p)).
    Proof.
      induction ps as [|p ps IH]; intros σ s Hps [Hs Hst].
      - simpl. exists σ. split; [split; auto|]. split; [apply incl_refl|intros p []].
      - assert (Hp : In p P) by (apply Hps; now left).
        assert (Hps' : incl ps P) by (intros q Hq; apply Hps; now right).
        destruct (P_closed p Hp) as [Hh Hb].
        simpl. destruct (is_cnf_terminal p).
        + set (s1 := mkTS (ts_store s) (ts_nts s) (add_p teqb neqb p (ts_prods s))).
          assert (Hs1 : tinv σ s1).
          { split; auto. unfold s1; simpl. apply sim_inv_add; auto.
            - apply (si_incl _ _ _ Hs); auto.
            - intros B HB. apply (si_incl _ _ _ Hs); auto.
            - intros t Ht. eapply P_terms; eauto.
            - intros w Hw. rewrite (exs_id σ nts0) in Hw; auto using (si_id _ _ _ Hs).
              rewrite (si_id _ _ _ Hs (head p)); auto. apply gens_single. now constructor. }
          eapply ok_or_names_weaken; [apply (IH σ s1); auto|].
          intros s' (σ' & Hti & Hi & Himp). exists σ'. split; auto. split.
          * intros q Hq. apply Hi. unfold s1; simpl. apply In_add_p; auto.
          * intros q [<-|Hq]; auto. apply impl_by_mono with (out := ts_prods s1); auto.
            apply impl_by_prod. destruct p; unfold s1; simpl. apply In_add_p; auto.
        + eapply ok_or_names_bind.
          * apply (term_body_spec (body p) [] [] σ s); auto.
            -- split; auto.
            -- intros t Ht. eapply P_terms; eauto.
            -- intros B [].
          * intros [nb s1] (σ1 & [Hs1 Hst1] & Hex1 & Hf1 & Hi1 & Hnb1). simpl in *.
            set (s2 := mkTS (ts_store s1) (ts_nts s1) (add_p teqb neqb (mkProd (head p) nb) (ts_prods s1))).
            assert (Hs2 : tinv σ1 s2).
            { split; auto. unfold s2; simpl. apply sim_inv_add; auto; simpl.
              - apply (si_incl _ _ _ Hs1); auto.
              - intros t Ht. eapply P_terms; eauto. eapply stands_for_terms; eauto.
              - intros w Hw. rewrite Hex1 in Hw.
                rewrite (si_id _ _ _ Hs1 (head p)); auto. apply gens_single. now constructor. }
            eapply ok_or_names_weaken; [apply (IH σ1 s2); auto|].
            intros s' (σ' & Hti & Hi & Himp). exists σ'. split; auto. split.
            -- intros q Hq. apply Hi. unfold s2; simpl. apply In_add_p; auto.
            -- intros q [<-|Hq]; auto. apply impl_by_mono with (out := ts_prods s2); auto.
               intros out' Ho w Hw. apply gen_nt_intro with (b := nb).
               ++ apply Ho. unfold s2; simpl. apply In_add_p; auto.
               ++ eapply stands_for_gens; eauto.
                  intros q Hq. apply Ho. unfold s2; simpl. apply In_add_p; auto.
    Qed.

    Theorem term_total :
      ok_or_names (cnf_term teqb neqb t2n fresh G) (fun G' => same_language G G' /\ wf G').
    Proof.
      unfold cnf_term. eapply ok_or_names_bind.
      - apply (term_prods_spec P (fun A => [Nt A]) (mkTS [] nts0 [])); [apply incl_refl|].
        split; [|intros ? ? []]. simpl.
        split; try (intros ? []); try (intros ? ? []); auto using incl_refl. intros A _. reflexivity.
      - intros s' (σ' & [Hs' _] & _ & Himp). simpl in *. split.
        + intros w. rewrite !L_gen. simpl. eapply sim_inv_lang; eauto.
        + eapply sim_inv_wf; eauto.
    Qed.
    (** non-terminal level: everything generated in G is generated in the TERM / BIN result *)
    Lemma term_forward (G' : gram) : cnf_term teqb neqb t2n fresh G = Ok G' ->
      forall s w, gen P s w -> gen (prods G') s w.
    Proof.
      unfold cnf_term. intros H.
      assert (Hinit : tinv (fun A => [Nt A]) (mkTS [] nts0 [])).
      { split; [|intros ? ? []]. simpl.
        split; try (intros ? []); try (intros ? ? []); auto using incl_refl. intros A _. reflexivity. }
      pose proof (term_prods_spec P (fun A => [Nt A]) (mkTS [] nts0 []) (incl_refl _) Hinit) as Hs.
      destruct (term_prods teqb neqb t2n fresh (prods G) (mkTS [] (nonterms G) [])) as [s'| |] eqn:E; simpl in H; try discriminate.
      fold P nts0 in E. rewrite E in Hs. simpl in Hs. destruct Hs as (σ' & _ & _ & Himp).
      inversion H; subst G'. simpl. apply (proj1 (gen_forward P (ts_prods s') Himp)).
    Qed.

    Lemma bin_forward (G' : gram) : cnf_bin teqb neqb fresh G = Ok G' ->
      forall s w, gen P s w -> gen (prods G') s w.
    Proof.
      unfold cnf_bin. intros H.
      assert (Hinit : sim_inv (fun A => [Nt A]) nts0 []).
      { split; try (intros ? []); try (intros ? ? []); auto using incl_refl. intros A _. reflexivity. }
      pose proof (bin_prods_spec P (fun A => [Nt A]) nts0 [] (incl_refl _) Hinit) as Hs.
      destruct (bin_prods teqb neqb fresh (prods G) (nonterms G, [])) as [st'| |] eqn:E; simpl in H; try discriminate.
      fold P nts0 in E. rewrite E in Hs. simpl in Hs. destruct Hs as (σ' & _ & _ & Himp).
      inversion H; subst G'. simpl. apply (proj1 (gen_forward P (snd st') Himp)).
    Qed.
  End WithG.
End Lang3.
