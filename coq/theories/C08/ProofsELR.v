(** C08 — language preservation of EliminateLeftRecursion: the substitution step
    (A_i -> A_j γ replaced by A_i -> δ γ for all A_j -> δ), the removal of immediate left
    recursion (A -> A α | β becomes A -> β A', A' -> α A' | ε) and their composition over any
    duplicate-free order of the non-terminals. *)
From Coq Require Import List Bool Arith Lia.
From Algo.Grammar Require Import CFG.
From Algo.C08 Require Import Model Spec ProofsBase ProofsLang1 ProofsLang2 ProofsLang3 ProofsLF.
Import ListNotations.

Section ELR.
  Context {T N : Type}.
  Variable teqb : T -> T -> bool.
  Variable neqb : N -> N -> bool.
  Variable fresh : skind -> list N -> N -> option N.
  Hypothesis teqb_spec : forall x y, teqb x y = true <-> x = y.
  Hypothesis neqb_spec : forall x y, neqb x y = true <-> x = y.
  Hypothesis fresh_spec : forall k nts b x, fresh k nts b = Some x -> ~ In x nts.

  Notation sym := (symbol T N).
  Notation prod := (production T N).
  Notation gram := (grammar T N).

  (** two production lists generate the same strings from every symbol *)
  Definition equiv (ps ps' : list prod) : Prop := forall s w, gen ps' s w <-> gen ps s w.

  Lemma equiv_refl ps : equiv ps ps.
  Proof. intros s w. tauto. Qed.

  Lemma equiv_trans ps1 ps2 ps3 : equiv ps1 ps2 -> equiv ps2 ps3 -> equiv ps1 ps3.
  Proof. intros H1 H2 s w. rewrite (H2 s w). apply H1. Qed.

  Lemma equiv_gens ps ps' : equiv ps ps' -> forall u w, gens ps' u w <-> gens ps u w.
  Proof.
    intros He u. induction u as [|s u IH]; intros w; split; intros H.
    - inversion H; subst. constructor.
    - inversion H; subst. constructor.
    - apply gens_cons_inv in H. destruct H as (w1 & w2 & -> & H1 & H2). constructor; [now apply He|now apply IH].
    - apply gens_cons_inv in H. destruct H as (w1 & w2 & -> & H1 & H2). constructor; [now apply He|now apply IH].
  Qed.

  (** every production of [ps'] is admissible in [ps] *)
  Lemma gen_admissible (ps ps' : list prod) :
    (forall q, In q ps' -> forall w, gens ps (body q) w -> gen ps (Nt (head q)) w) ->
    (forall s w, gen ps' s w -> gen ps s w) /\ (forall u w, gens ps' u w -> gens ps u w).
  Proof. intros H. apply gen_gens_ind; try (intros; constructor; auto; fail). intros q w Hq _ IH. now apply H. Qed.

  Lemma starts_with_spec Aj (p : prod) : starts_with teqb neqb Aj p = true <-> exists γ, body p = Nt Aj :: γ.
  Proof.
    unfold starts_with. destruct (body p) as [|s γ]; [split; [discriminate|intros (γ & H); discriminate]|].
    rewrite (sym_eqb_spec teqb neqb teqb_spec neqb_spec). split; [intros ->; eauto|intros (γ' & H); inversion H; auto].
  Qed.

  Lemma In_remove_p (p q : prod) ps : In q (remove_p teqb neqb p ps) <-> In q ps /\ q <> p.
  Proof. apply In_removeb, prod_eqb_spec; auto. Qed.

  Lemma get_add_p_other A q (acc : list prod) : head q <> A -> get neqb A (add_p teqb neqb q acc) = get neqb A acc.
  Proof.
    intros Hne. unfold add_p, addb, get. destruct (memb _ q acc); auto.
    rewrite filter_app. simpl. destruct (neqb (head q) A) eqn:E; [apply neqb_spec in E; congruence|]. apply app_nil_r.
  Qed.

  Lemma get_add_ps_other A l : forall acc : list prod, (forall q, In q l -> head q <> A) ->
    get neqb A (add_ps teqb neqb l acc) = get neqb A acc.
  Proof.
    induction l as [|q l IH]; simpl; intros acc Hl; auto.
    unfold add_ps in *. simpl. rewrite IH by (intros; apply Hl; now right).
    apply get_add_p_other. apply Hl. now left.
  Qed.

  Lemma get_remove_p_other A p (ps : list prod) : head p <> A -> get neqb A (remove_p teqb neqb p ps) = get neqb A ps.
  Proof.
    intros Hne. unfold remove_p, removeb, get. induction ps as [|r ps IH]; simpl; auto.
    destruct (prod_eqb teqb neqb p r) eqn:E; simpl.
    - apply (prod_eqb_spec teqb neqb teqb_spec neqb_spec) in E. subst r.
      destruct (neqb (head p) A) eqn:E2; [apply neqb_spec in E2; congruence|]. exact IH.
    - destruct (neqb (head r) A); simpl; [f_equal|]; exact IH.
  Qed.

  (** * one unfolding step *)
  Lemma unfold_step (ps : list prod) Ai Aj γ :
    Ai <> Aj ->
    (forall w, gens ps (Nt Aj :: γ) w -> gen ps (Nt Ai) w) ->
    let p := mkProd Ai (Nt Aj :: γ) in
    let ps' := add_ps teqb neqb (map (fun q => mkProd Ai (body q ++ γ)) (get neqb Aj ps)) (remove_p teqb neqb p ps) in
    equiv ps ps'.
  Proof.
    intros Hne Hadm p ps'.
    assert (Hin : forall q, In q ps' <-> (exists r, In r ps /\ head r = Aj /\ q = mkProd Ai (body r ++ γ)) \/ (In q ps /\ q <> p)).
    { intros q. unfold ps'. rewrite In_add_ps, in_map_iff, In_remove_p; auto. split.
      - intros [(r & <- & Hr)|H]; auto. apply (In_get neqb neqb_spec) in Hr. left. exists r. tauto.
      - intros [(r & Hr & Hh & ->)|H]; auto. left. exists r. split; auto. apply (In_get neqb neqb_spec). auto. }
    assert (Hadm' : forall q, In q ps' -> forall w0, gens ps (body q) w0 -> gen ps (Nt (head q)) w0).
    { intros q Hq w0 Hw.
      apply Hin in Hq. destruct Hq as [(r & Hr & Hh & ->)|[Hq _]]; simpl in *.
      + apply Hadm. apply gens_split in Hw. destruct Hw as (w1 & w2 & -> & H1 & H2).
        constructor; auto. rewrite <- Hh. now constructor.
      + now constructor. }
    intros s w. split.
    - apply (proj1 (gen_admissible ps ps' Hadm')).
    - revert s w.
      assert (Hg : (forall s w, gen ps s w -> gen ps' s w) /\ (forall u w, gens ps u w -> gens ps' u w)).
      { apply gen_gens_ind; try (intros; constructor; auto; fail).
        intros r w Hr _ IH.
        destruct (prod_eqb teqb neqb r p) eqn:E.
        - apply (prod_eqb_spec teqb neqb teqb_spec neqb_spec) in E. subst r. simpl in *.
          apply gens_cons_inv in IH. destruct IH as (w1 & w2 & -> & H1 & H2).
          apply gen_nt_inv in H1. destruct H1 as (q & Hq & Hh & Hb).
          apply Hin in Hq. destruct Hq as [(r & _ & _ & ->)|[Hq _]]; [simpl in Hh; congruence|].
          apply gen_nt_intro with (b := body q ++ γ).
          + apply Hin. left. exists q. auto.
          + now apply gens_app.
        - constructor; auto. apply Hin. right. split; auto. intros ->.
          rewrite (proj2 (prod_eqb_spec teqb neqb teqb_spec neqb_spec p p) eq_refl) in E. discriminate. }
      apply Hg.
  Qed.

  (** * the substitution loop for one pair (Ai, Aj) *)
  Lemma subst_prods_equiv Ai Aj (aj : list prod) ps0 : Ai <> Aj ->
    forall aiaj ps, equiv ps0 ps -> aj = get neqb Aj ps ->
    (forall p, In p aiaj -> In p ps0 /\ head p = Ai /\ exists γ, body p = Nt Aj :: γ) ->
    equiv ps0 (subst_prods teqb neqb Ai aiaj aj ps) .
  Proof.
    intros Hne. induction aiaj as [|p aiaj IH]; intros ps He Haj Hall; simpl; auto.
    destruct (Hall p (or_introl eq_refl)) as (Hp0 & Hh & γ & Hb).
    assert (Ep : p = mkProd Ai (Nt Aj :: γ)) by (destruct p; simpl in *; congruence).
    assert (Hbody : forall q : prod, body q ++ tl (body p) = body q ++ γ) by (intros; now rewrite Hb).
    set (ps1 := add_ps teqb neqb (map (fun q => mkProd Ai (body q ++ tl (body p))) aj) (remove_p teqb neqb p ps)).
    assert (E1 : equiv ps ps1).
    { unfold ps1. rewrite (map_ext _ (fun q => mkProd Ai (body q ++ γ))) by (intros; now rewrite Hbody).
      rewrite Haj, Ep. apply unfold_step; auto.
      intros w Hw. apply He. apply (equiv_gens _ _ He) in Hw. rewrite <- Hh. constructor; auto. now rewrite Hb. }
    apply IH.
    - eapply equiv_trans; eauto.
    - (* the A_j-productions are unchanged *)
      unfold ps1. rewrite get_add_ps_other.
      + rewrite get_remove_p_other; auto. rewrite Hh. auto.
      + intros q Hq. apply in_map_iff in Hq. destruct Hq as (r & <- & _). simpl. auto.
    - intros q Hq. apply Hall. now right.
  Qed.

  Lemma elr_subst_equiv Ai Aj (ps : list prod) : Ai <> Aj -> equiv ps (elr_subst teqb neqb Ai Aj ps).
  Proof.
    intros Hne. unfold elr_subst.
    destruct (get neqb Ai ps) as [|a ai] eqn:Ea; [apply equiv_refl|].
    destruct (get neqb Aj ps) as [|b aj] eqn:Eb; [apply equiv_refl|].
    apply (subst_prods_equiv Ai Aj (b :: aj) ps Hne); auto using equiv_refl.
    intros p Hp. apply filter_In in Hp. destruct Hp as [Hp Hs]. rewrite <- Ea in Hp.
    apply (In_get neqb neqb_spec) in Hp. destruct Hp as [Hp Hh]. repeat split; auto.
    now apply (starts_with_spec Aj p).
  Qed.

  (** ** symbols stay declared *)
  Section Good.
  Variable terms0 : list T.
  Definition pgood (nts : list N) (q : prod) : Prop :=
    In (head q) nts /\ forall s, In s (body q) -> match s with Tm t => In t terms0 | Nt B => In B nts end.

  Lemma pgood_mono nts nts' q : incl nts nts' -> pgood nts q -> pgood nts' q.
  Proof. intros Hi [H1 H2]. split; auto. intros [t|B] Hs; specialize (H2 _ Hs); simpl in *; auto. Qed.

  Lemma subst_prods_good nts Ai (aj : list prod) : In Ai nts -> (forall q, In q aj -> pgood nts q) ->
    forall aiaj ps, (forall p, In p aiaj -> pgood nts p) -> (forall q, In q ps -> pgood nts q) ->
    forall q, In q (subst_prods teqb neqb Ai aiaj aj ps) -> pgood nts q.
  Proof.
    intros HAi Haj. induction aiaj as [|p aiaj IH]; simpl; intros ps Hall Hps; auto.
    apply IH; [intros; apply Hall; now right|].
    intros q Hq. apply In_add_ps in Hq; auto. destruct Hq as [Hq|Hq].
    - apply in_map_iff in Hq. destruct Hq as (r & <- & Hr). split; auto. simpl.
      intros s Hs. apply in_app_iff in Hs. destruct Hs as [Hs|Hs].
      + apply (proj2 (Haj r Hr) s Hs).
      + apply (proj2 (Hall p (or_introl eq_refl)) s). destruct (body p); [destruct Hs|now right].
    - apply In_remove_p in Hq. apply Hps, Hq.
  Qed.

  Lemma elr_subst_good nts Ai Aj (ps : list prod) : (forall q, In q ps -> pgood nts q) ->
    forall q, In q (elr_subst teqb neqb Ai Aj ps) -> pgood nts q.
  Proof.
    intros Hps. unfold elr_subst.
    destruct (get neqb Ai ps) as [|a ai] eqn:Ea; auto.
    destruct (get neqb Aj ps) as [|b aj] eqn:Eb; auto.
    assert (HAi : In Ai nts).
    { assert (Ha : In a (get neqb Ai ps)) by (rewrite Ea; now left).
      apply (In_get neqb neqb_spec) in Ha. destruct Ha as [Ha <-]. apply (Hps a Ha). }
    apply subst_prods_good; auto.
    - intros q Hq. rewrite <- Eb in Hq. apply (In_get neqb neqb_spec) in Hq. apply Hps, Hq.
    - intros p Hp. apply filter_In in Hp. destruct Hp as [Hp _]. rewrite <- Ea in Hp.
      apply (In_get neqb neqb_spec) in Hp. apply Hps, Hp.
  Qed.

  (** * immediate left recursion *)
  Lemma is_left_recursive_spec (p : prod) : is_left_recursive teqb neqb p = true <-> exists α, body p = Nt (head p) :: α.
  Proof.
    unfold is_left_recursive. destruct (body p) as [|s α]; [split; [discriminate|intros (α & H); discriminate]|].
    rewrite (sym_eqb_spec teqb neqb teqb_spec neqb_spec). split; [intros ->; eauto|intros (α' & H); inversion H; auto].
  Qed.

  Section Immediate.
    Variable nts : list N.
    Variable ps : list prod.
    Variable A A' : N.
    Hypothesis Hgood : forall q, In q ps -> pgood nts q.
    Hypothesis HA' : ~ In A' nts.
    Hypothesis HA : In A nts.
    Let aps := get neqb A ps.
    Let lr := filter (is_left_recursive teqb neqb) aps.
    Let nonlr := filter (fun p => negb (is_left_recursive teqb neqb p)) aps.
    Variable ps' : list prod.
    Hypothesis Hps' : forall q, In q ps' <->
      q = mkProd A' [] \/ (exists p, In p lr /\ q = mkProd A' (tl (body p) ++ [Nt A'])) \/
      (exists p, In p nonlr /\ q = mkProd A (body p ++ [Nt A'])) \/ (In q ps /\ head q <> A).

    Lemma lr_spec p : In p lr -> In p ps /\ head p = A /\ body p = Nt A :: tl (body p).
    Proof.
      intros H. apply filter_In in H. destruct H as [H1 H2]. apply (In_get neqb neqb_spec) in H1. destruct H1 as [H1 Hh].
      apply is_left_recursive_spec in H2. destruct H2 as (α & Hb). rewrite Hb. simpl. rewrite <- Hh. auto.
    Qed.

    Lemma nonlr_spec p : In p nonlr -> In p ps /\ head p = A.
    Proof. intros H. apply filter_In in H. destruct H as [H1 _]. now apply (In_get neqb neqb_spec) in H1. Qed.

    Lemma A_ne : A <> A'.
    Proof. intros E. apply HA'. now rewrite <- E. Qed.

    (** strings generated by α1 α2 ... αn for left-recursive A -> A αi *)
    Inductive Astar : list T -> Prop :=
    | Astar_nil : Astar []
    | Astar_cons p w1 w2 : In p lr -> gens ps (tl (body p)) w1 -> Astar w2 -> Astar (w1 ++ w2).

    Lemma A_star_app v : Astar v -> forall u, gen ps (Nt A) u -> gen ps (Nt A) (u ++ v).
    Proof.
      induction 1 as [|p w1 w2 Hp Hw1 _ IH]; intros u Hu; [now rewrite app_nil_r|].
      rewrite app_assoc. apply IH. destruct (lr_spec p Hp) as (Hpp & Hh & Hb).
      rewrite <- Hh. constructor; auto. rewrite Hb. constructor; auto.
    Qed.

    Definition Dimm (s : sym) (w : list T) : Prop :=
      match s with
      | Tm a => w = [a]
      | Nt Y => (Y = A' /\ Astar w) \/ (Y <> A' /\ gen ps (Nt Y) w)
      end.

    Lemma Dimm_old u : (forall s, In s u -> match s with Tm _ => True | Nt B => In B nts end) ->
      forall w, Ds Dimm u w -> gens ps u w.
    Proof.
      intros Hu w H. induction H as [|s u w1 w2 Hs _ IH]; [constructor|]. constructor.
      - destruct s as [a|Y]; simpl in Hs; [subst; constructor|].
        destruct Hs as [[-> _]|[_ Hs]]; auto. exfalso. apply HA'. apply (Hu (Nt A')). now left.
      - apply IH. intros s' Hs'. apply Hu. now right.
    Qed.

    Lemma body_old q : In q ps -> forall s, In s (body q) -> match s with Tm _ => True | Nt B => In B nts end.
    Proof. intros Hq s Hs. destruct (Hgood q Hq) as [_ H]. specialize (H s Hs). destruct s; auto. Qed.

    Lemma imm_backward X w : In X nts -> gen ps' (Nt X) w -> gen ps (Nt X) w.
    Proof.
      intros HX Hg.
      assert (Hden : forall s w0, gen ps' s w0 -> Dimm s w0).
      { apply (gen_denote Dimm ps'); [reflexivity|].
        intros q Hq w0 Hw. apply Hps' in Hq.
        destruct Hq as [->|[(p & Hp & ->)|[(p & Hp & ->)|[Hq Hne]]]]; simpl in *.
        - inversion Hw; subst. left. split; auto. constructor.
        - destruct (lr_spec p Hp) as (Hpp & Hh & Hb).
          apply Ds_app_inv in Hw. destruct Hw as (w1 & w2 & -> & H1 & H2).
          inversion H2 as [|s' u' x1 x2 Hs' Hu']; subst. inversion Hu'; subst. rewrite app_nil_r.
          simpl in Hs'. destruct Hs' as [[_ Hst]|[Hc _]]; [|congruence].
          left. split; auto. econstructor; eauto. apply Dimm_old; auto.
          intros s Hs. apply (body_old p Hpp). rewrite Hb. now right.
        - destruct (nonlr_spec p Hp) as (Hpp & Hh).
          apply Ds_app_inv in Hw. destruct Hw as (w1 & w2 & -> & H1 & H2).
          inversion H2 as [|s' u' x1 x2 Hs' Hu']; subst. inversion Hu'; subst. rewrite app_nil_r.
          simpl in Hs'. destruct Hs' as [[_ Hst]|[Hc _]]; [|congruence].
          right. split; [apply A_ne|]. apply A_star_app; auto. rewrite <- Hh. constructor; auto.
          apply Dimm_old; auto. apply (body_old p Hpp).
        - right. split.
          + intros E. apply HA'. rewrite <- E. apply (Hgood q Hq).
          + constructor; auto. apply Dimm_old; auto. apply (body_old q Hq). }
      apply Hden in Hg. simpl in Hg. destruct Hg as [[-> _]|[_ Hg]]; auto. contradiction.
    Qed.

    Lemma Aprime_app α w2 : In (mkProd A' (α ++ [Nt A'])) ps' -> gens ps' α w2 ->
      forall v, gen ps' (Nt A') v -> gen ps' (Nt A') (v ++ w2).
    Proof.
      intros Hq Hα.
      assert (Hg : (forall s v, gen ps' s v -> s = Nt A' -> gen ps' (Nt A') (v ++ w2)) /\
                   (forall u v, gens ps' u v -> forall pre, u = pre ++ [Nt A'] -> gens ps' (pre ++ [Nt A']) (v ++ w2))).
      { apply gen_gens_ind.
        - intros a H. discriminate.
        - intros q v Hqin Hb IH Hs. inversion Hs as [Hh].
          apply Hps' in Hqin. destruct Hqin as [->|[(p & Hp & ->)|[(p & Hp & ->)|[Hq' Hne]]]]; simpl in *.
          + inversion Hb; subst. simpl. apply gen_nt_intro with (b := α ++ [Nt A']); auto.
            rewrite <- (app_nil_r w2). apply gens_app; auto. apply gens_single.
            apply gen_nt_intro with (b := []); [apply Hps'; auto|constructor].
          + apply gen_nt_intro with (b := tl (body p) ++ [Nt A']).
            * apply Hps'. right. left. eauto.
            * now apply IH.
          + exfalso. apply A_ne. congruence.
          + exfalso. apply HA'. rewrite <- Hh. apply (Hgood q Hq').
        - intros pre H. destruct pre; discriminate.
        - intros s u v1 v2 Hs IH1 Hu IH2 pre Hpre. destruct pre as [|s0 pre]; simpl in Hpre.
          + inversion Hpre; subst. inversion Hu; subst. rewrite app_nil_r. simpl. apply gens_single. now apply IH1.
          + inversion Hpre; subst. simpl. rewrite <- app_assoc. constructor; auto. }
      intros v Hv. now apply (proj1 Hg (Nt A') v Hv).
    Qed.

    Lemma imm_forward :
      (forall s w, gen ps s w -> gen ps' s w /\
         (s = Nt A -> exists p u v, In p nonlr /\ w = u ++ v /\ gens ps' (body p) u /\ gen ps' (Nt A') v)) /\
      (forall u w, gens ps u w -> gens ps' u w /\
         (forall α, u = Nt A :: α -> exists p x v w2, In p nonlr /\ w = x ++ v ++ w2 /\ gens ps' (body p) x /\
                                                gen ps' (Nt A') v /\ gens ps' α w2)).
    Proof.
      apply gen_gens_ind.
      - intros a. split; [constructor|discriminate].
      - intros r w Hr _ [IH1 IH2].
        destruct (neqb (head r) A) eqn:E.
        + apply neqb_spec in E.
          destruct (is_left_recursive teqb neqb r) eqn:El.
          * assert (Hlr : In r lr) by (apply filter_In; split; auto; apply (In_get neqb neqb_spec); auto).
            destruct (lr_spec r Hlr) as (_ & _ & Hb).
            destruct (IH2 (tl (body r)) Hb) as (p & x & v & w2 & Hp & -> & Hx & Hv & Hw2).
            assert (Hv' : gen ps' (Nt A') (v ++ w2)).
            { apply Aprime_app with (α := tl (body r)); auto. apply Hps'. right. left. eauto. }
            rewrite E. split.
            -- apply gen_nt_intro with (b := body p ++ [Nt A']); [apply Hps'; right; right; left; eauto|].
               apply gens_app; auto. now apply gens_single.
            -- intros _. exists p, x, (v ++ w2). auto.
          * assert (Hnl : In r nonlr).
            { apply filter_In. split; [apply (In_get neqb neqb_spec); auto|now rewrite El]. }
            assert (He : gen ps' (Nt A') []) by (apply gen_nt_intro with (b := []); [apply Hps'; auto|constructor]).
            rewrite E. split.
            -- apply gen_nt_intro with (b := body r ++ [Nt A']); [apply Hps'; right; right; left; eauto|].
               rewrite <- (app_nil_r w). apply gens_app; auto. now apply gens_single.
            -- intros _. exists r, w, []. rewrite app_nil_r. auto.
        + assert (Hne : head r <> A) by (intros Hh; rewrite Hh, (proj2 (neqb_spec A A) eq_refl) in E; discriminate).
          split; [constructor; auto; apply Hps'; auto 6|]. intros Hs. inversion Hs. contradiction.
      - split; [constructor|]. intros α H. discriminate.
      - intros s u w1 w2 _ [IHs1 IHs2] _ [IHu1 _]. split; [constructor; auto|].
        intros α Hα. inversion Hα; subst. destruct (IHs2 eq_refl) as (p & x & v & Hp & -> & Hx & Hv).
        exists p, x, v, w2. rewrite <- app_assoc. auto 6.
    Qed.
  End Immediate.

  Lemma elr_immediate_spec A nts (ps : list prod) : (forall q, In q ps -> pgood nts q) ->
    ok_or_names (elr_immediate teqb neqb fresh A (nts, ps))
      (fun st' => incl nts (fst st') /\ (forall q, In q (snd st') -> pgood (fst st') q) /\ equiv_on nts ps (snd st')).
  Proof.
    intros Hgood. unfold elr_immediate.
    destruct (existsb (is_left_recursive teqb neqb) (get neqb A ps)) eqn:Eex.
    2:{ simpl. split; [apply incl_refl|]. split; auto. intros X w _. tauto. }
    assert (HA : In A nts).
    { apply existsb_exists in Eex. destruct Eex as (p & Hp & _). apply (In_get neqb neqb_spec) in Hp.
      destruct Hp as [Hp <-]. apply (Hgood p Hp). }
    eapply ok_or_names_bind; [apply add_new_total; auto|].
    intros [A' nts'] [HA' Hn]. simpl in HA', Hn. subst nts'. simpl.
    set (aps := get neqb A ps).
    set (lr := filter (is_left_recursive teqb neqb) aps).
    set (nonlr := filter (fun p => negb (is_left_recursive teqb neqb p)) aps).
    match goal with |- _ /\ (forall q, In q ?X -> _) /\ _ => set (ps' := X) end.
    assert (Hps' : forall q, In q ps' <->
      q = mkProd A' [] \/ (exists p, In p lr /\ q = mkProd A' (tl (body p) ++ [Nt A'])) \/
      (exists p, In p nonlr /\ q = mkProd A (body p ++ [Nt A'])) \/ (In q ps /\ head q <> A)).
    { intros q. unfold ps'. rewrite In_add_p, !In_add_ps, !in_map_iff, (In_remove_head neqb neqb_spec); auto.
      split.
      - intros [->|[(p & <- & Hp)|[(p & <- & Hp)|H]]]; eauto 6.
      - intros [->|[(p & Hp & ->)|[(p & Hp & ->)|H]]]; eauto 6. }
    split; [intros x Hx; apply in_or_app; now left|]. split.
    - intros q Hq. apply Hps' in Hq.
      assert (Hi : incl nts (nts ++ [A'])) by (intros x Hx; apply in_or_app; now left).
      assert (HA'' : In A' (nts ++ [A'])) by (apply in_or_app; right; now left).
      destruct Hq as [->|[(p & Hp & ->)|[(p & Hp & ->)|[Hq _]]]].
      + split; simpl; auto. intros s [].
      + destruct (lr_spec ps A p Hp) as (Hpp & _ & Hb). split; simpl; auto.
        intros s Hs. apply in_app_iff in Hs. destruct Hs as [Hs|[<-|[]]]; auto.
        apply (proj2 (pgood_mono _ _ _ Hi (Hgood p Hpp)) s). rewrite Hb. now right.
      + destruct (nonlr_spec ps A p Hp) as (Hpp & _). split; simpl; [now apply Hi|].
        intros s Hs. apply in_app_iff in Hs. destruct Hs as [Hs|[<-|[]]]; auto.
        apply (proj2 (pgood_mono _ _ _ Hi (Hgood p Hpp)) s Hs).
      + apply (pgood_mono _ _ _ Hi (Hgood q Hq)).
    - intros X w HX. split.
      + apply (imm_backward nts ps A A' Hgood HA' HA ps' Hps'); auto.
      + intros Hg. apply (proj1 (imm_forward nts ps A A' Hgood HA' HA ps' Hps')); auto.
  Qed.

  End Good.

  (** * the loop over the ordered non-terminals *)
  Lemma fold_subst_spec terms0 nts Ai : forall earlier (ps : list prod), ~ In Ai earlier ->
    (forall q, In q ps -> pgood terms0 nts q) ->
    equiv ps (fold_left (fun ps Aj => elr_subst teqb neqb Ai Aj ps) earlier ps) /\
    (forall q, In q (fold_left (fun ps Aj => elr_subst teqb neqb Ai Aj ps) earlier ps) -> pgood terms0 nts q).
  Proof.
    induction earlier as [|Aj earlier IH]; simpl; intros ps Hni Hg; [split; auto using equiv_refl|].
    destruct (IH (elr_subst teqb neqb Ai Aj ps)) as [He Hg'].
    - intros H. apply Hni. now right.
    - apply elr_subst_good; auto.
    - split; auto. eapply equiv_trans; [|exact He]. apply elr_subst_equiv. intros ->. apply Hni. now left.
  Qed.

  Lemma elr_loop_spec terms0 : forall todo earlier nts (ps : list prod), NoDup (earlier ++ todo) ->
    (forall q, In q ps -> pgood terms0 nts q) ->
    ok_or_names (elr_loop teqb neqb fresh earlier todo (nts, ps))
      (fun st' => incl nts (fst st') /\ (forall q, In q (snd st') -> pgood terms0 (fst st') q) /\
                  equiv_on nts ps (snd st')).
  Proof.
    induction todo as [|Ai todo IH]; intros earlier nts ps Hnd Hg.
    - simpl. split; [apply incl_refl|]. split; auto. intros X w _. tauto.
    - simpl.
      assert (Hni : ~ In Ai earlier).
      { apply NoDup_remove_2 in Hnd. intros H. apply Hnd. apply in_or_app. now left. }
      destruct (fold_subst_spec terms0 nts Ai earlier ps Hni Hg) as [He Hg1].
      set (ps1 := fold_left (fun ps Aj => elr_subst teqb neqb Ai Aj ps) earlier ps) in *.
      eapply ok_or_names_bind; [apply (elr_immediate_spec terms0 Ai nts ps1 Hg1)|].
      intros [nts2 ps2] (Hi2 & Hg2 & He2). simpl in *.
      eapply ok_or_names_weaken.
      + apply (IH (earlier ++ [Ai]) nts2 ps2); auto. rewrite <- app_assoc. exact Hnd.
      + intros st' (Hi3 & Hg3 & He3). split; [eapply incl_tran; eauto|]. split; auto.
        intros X w HX. rewrite (He3 X w (Hi2 X HX)), (He2 X w HX). apply He.
  Qed.

  Theorem left_recursion_elim_total (order : gram -> list N) (G : gram) : wf G ->
    (forall G1, NoDup (order G1)) ->
    ok_or_names (left_recursion_elim teqb neqb fresh order G) (fun G' => same_language G G' /\ wf G').
  Proof.
    intros Hwf Hord. unfold left_recursion_elim.
    eapply ok_or_names_bind; [apply (cycles_total teqb neqb fresh teqb_spec neqb_spec fresh_spec G Hwf)|].
    intros G1 [HL1 Hwf1].
    assert (Hg1 : forall q, In q (prods G1) -> pgood (terms G1) (nonterms G1) q).
    { intros q Hq. destruct Hwf1 as [_ Hp]. destruct (Hp q Hq) as [Hh Hb]. split; [exact Hh|].
      intros s Hs. specialize (Hb s Hs). destruct s; exact Hb. }
    eapply ok_or_names_bind.
    - apply (elr_loop_spec (terms G1) (order G1) [] (nonterms G1) (prods G1)); auto. simpl. apply Hord.
    - intros [nts' ps'] (Hi & Hg & He). simpl in *. split.
      + eapply same_language_trans; [exact HL1|].
        intros w. rewrite !L_gen. simpl. apply He. apply Hwf1.
      + split; simpl; [apply Hi; apply Hwf1|].
        intros q Hq. destruct (Hg q Hq) as [Hh Hb]. split; [exact Hh|].
        intros s Hs. specialize (Hb s Hs). destruct s; exact Hb.
  Qed.
End ELR.
