(** C08 — language preservation, part 2: well-formedness is preserved, totality
    (the only failure is the documented name-exhaustion panic), EliminateCycles. *)
From Coq Require Import List Bool Arith Lia.
From Algo.Grammar Require Import CFG.
From Algo.C08 Require Import Model Spec ProofsBase ProofsLang1.
Import ListNotations.

(** [r] is not [Hang]; if it is [Ok a] then [Q a]; the only panic is name exhaustion *)
Definition ok_or_names {A} (r : res A) (Q : A -> Prop) : Prop :=
  match r with Ok a => Q a | Panic OutOfNames => True | Hang => False end.

Lemma ok_or_names_bind {A B} (r : res A) (f : A -> res B) (Q : A -> Prop) (R : B -> Prop) :
  ok_or_names r Q -> (forall a, Q a -> ok_or_names (f a) R) -> ok_or_names (bind r f) R.
Proof. destruct r as [a|[]|]; simpl; auto. Qed.

Lemma ok_or_names_weaken {A} (r : res A) (Q Q' : A -> Prop) :
  ok_or_names r Q -> (forall a, Q a -> Q' a) -> ok_or_names r Q'.
Proof. destruct r as [a|[]|]; simpl; auto. Qed.

Lemma ok_or_names_ok {A} (r : res A) (Q : A -> Prop) a : ok_or_names r Q -> r = Ok a -> Q a.
Proof. intros H ->. exact H. Qed.

Section Lang2.
  Context {T N : Type}.
  Variable teqb : T -> T -> bool.
  Variable neqb : N -> N -> bool.
  Variable fresh : skind -> list N -> N -> option N.
  Hypothesis teqb_spec : forall x y, teqb x y = true <-> x = y.
  Hypothesis neqb_spec : forall x y, neqb x y = true <-> x = y.
  Hypothesis fresh_spec : forall k nts b x, fresh k nts b = Some x -> ~ In x nts.

  Notation sym := (symbol T N).
  Notation prod := (production T N).
  Notation gram := (grammar T N).

  Lemma same_language_trans (G1 G2 G3 : gram) :
    same_language G1 G2 -> same_language G2 G3 -> same_language G1 G3.
  Proof. unfold same_language. intros H1 H2 w. rewrite H2. apply H1. Qed.

  Lemma sub_incl nl (b b' : list sym) : sub nl b b' -> incl b' b.
  Proof.
    intros H. induction H; intros x Hx; auto.
    - destruct Hx as [->|Hx]; [now left|right; auto].
    - right. auto.
  Qed.

  Lemma add_new_total k nts b :
    ok_or_names (add_new fresh k nts b) (fun xn => ~ In (fst xn) nts /\ snd xn = nts ++ [fst xn]).
  Proof.
    unfold add_new. destruct (fresh k nts b) eqn:E; simpl; auto.
    split; auto. eapply fresh_spec; eauto.
  Qed.

  (** ** DEL *)
  Theorem del_total (G : gram) : wf G ->
    ok_or_names (del teqb neqb fresh G) (fun G' => same_language G G' /\ wf G').
  Proof.
    intros Hwf.
    destruct (del teqb neqb fresh G) as [G'| |] eqn:E.
    - simpl. split; [eapply del_lang; eauto|].
      unfold del in E.
      destruct (nullable neqb (prods G)) as [nl| |] eqn:En; simpl in E; try discriminate.
      set (P2 := del_prods teqb neqb nl (prods G) []) in *.
      assert (HP2 : forall q, In q P2 -> exists p, In p (prods G) /\ head q = head p /\ incl (body q) (body p)).
      { intros q Hq. unfold P2 in Hq. apply In_del_prods in Hq; auto. destruct Hq as [[]|(p & Hp & Hh & _ & Hs)].
        exists p. repeat split; auto. eapply sub_incl; eauto. }
      destruct Hwf as [Hs Hp].
      destruct (mem_n neqb (start G) nl).
      + destruct (add_new fresh Prime (nonterms G) (start G)) as [[s' nts']| |] eqn:Ea; simpl in E; try discriminate.
        inversion E; subst G'. clear E.
        destruct (add_new_spec fresh fresh_spec _ _ _ _ _ Ea) as [_ ->].
        split; simpl.
        * apply in_or_app. right. now left.
        * intros q Hq. rewrite !In_add_p in Hq; auto.
          assert (Hd : forall s, declared G s -> declared (mkGrammar (terms G) (nonterms G ++ [s']) (add_p teqb neqb (mkProd s' []) (add_p teqb neqb (mkProd s' [Nt (start G)]) P2)) s') s).
          { intros [t|A]; simpl; auto. intros HA. apply in_or_app. now left. }
          destruct Hq as [->|[->|Hq]]; simpl.
          -- split; [apply in_or_app; right; now left|intros s []].
          -- split; [apply in_or_app; right; now left|]. intros s [<-|[]]. simpl. apply in_or_app. now left.
          -- destruct (HP2 q Hq) as (p & Hpp & Hh & Hi). destruct (Hp p Hpp) as [Hhd Hbd].
             split; [rewrite Hh; apply in_or_app; now left|]. intros s Hs'. apply Hd. apply Hbd. now apply Hi.
      + inversion E; subst G'. clear E. split; simpl; auto.
        intros q Hq. destruct (HP2 q Hq) as (p & Hpp & Hh & Hi). destruct (Hp p Hpp) as [Hhd Hbd].
        split; [now rewrite Hh|]. intros s Hs'. apply (Hbd s). now apply Hi.
    - destruct why. exact I.
    - exfalso. unfold del in E.
      destruct (nullable_total neqb neqb_spec (prods G)) as [nl Hnl]. rewrite Hnl in E. simpl in E.
      destruct (mem_n neqb (start G) nl); [|discriminate].
      destruct (add_new fresh Prime (nonterms G) (start G)) as [[s' nts']|[]|] eqn:Ea; simpl in E; try discriminate.
      unfold add_new in Ea. destruct (fresh Prime (nonterms G) (start G)); discriminate.
  Qed.

  (** ** UNIT *)
  Theorem unit_total (G : gram) : wf G ->
    ok_or_names (unit_elim teqb neqb G) (fun G' => same_language G G' /\ wf G').
  Proof.
    intros Hwf.
    destruct (unit_lang teqb neqb teqb_spec neqb_spec G Hwf) as (G' & -> & HL & Hin & Ht & Hn & Hs).
    simpl. split; auto. destruct Hwf as [Hst Hp]. split.
    - rewrite Hs, Hn. exact Hst.
    - intros q Hq. apply Hin in Hq. destruct Hq as (A & p & HA & _ & Hpp & _ & ->). simpl.
      rewrite Hn. split; auto. intros s Hs'. destruct (Hp p Hpp) as [_ Hb]. specialize (Hb s Hs').
      destruct s; simpl in *; [now rewrite Ht|now rewrite Hn].
  Qed.

  (** ** Unreachable *)
  Theorem unreachable_total (G : gram) : wf G ->
    ok_or_names (unreachable_elim teqb neqb G) (fun G' => same_language G G' /\ wf G').
  Proof.
    intros Hwf.
    destruct (unreachable_lang teqb neqb neqb_spec G) as (G' & E & HL).
    rewrite E. simpl. split; auto.
    unfold unreachable_elim in E.
    destruct (reach neqb (prods G) [start G]) as [rn| |] eqn:Er; simpl in E; try discriminate.
    inversion E; subst G'. clear E.
    destruct (reach_spec neqb neqb_spec (prods G) [start G] rn) as [_ Hr]; auto.
    { constructor; [intros []|constructor]. }
    destruct Hwf as [Hst Hp]. split; simpl.
    - apply Hr. constructor. now left.
    - intros p Hq. apply filter_In in Hq. destruct Hq as [Hpp Hh].
      apply (mem_n_In neqb neqb_spec) in Hh. split; auto.
      intros [t|A] Hs; simpl.
      + apply filter_In. split.
        * destruct (Hp p Hpp) as [_ Hb]. apply (Hb (Tm t) Hs).
        * apply existsb_exists. exists p. split.
          -- apply filter_In. split; auto. now apply (mem_n_In neqb neqb_spec).
          -- unfold body_has_t. apply existsb_exists. exists (Tm t). split; auto.
             now apply (sym_eqb_spec teqb neqb teqb_spec neqb_spec).
      + apply Hr. eapply reach_step; eauto. now apply Hr.
  Qed.

  (** ** EliminateCycles = DEL ; UNIT ; Unreachable *)
  Theorem cycles_total (G : gram) : wf G ->
    ok_or_names (cycles_elim teqb neqb fresh G) (fun G' => same_language G G' /\ wf G').
  Proof.
    intros Hwf. unfold cycles_elim.
    eapply ok_or_names_bind; [apply del_total; auto|]. intros G1 [HL1 Hwf1].
    eapply ok_or_names_bind; [apply unit_total; auto|]. intros G2 [HL2 Hwf2].
    eapply ok_or_names_weaken; [apply unreachable_total; auto|]. intros G3 [HL3 Hwf3].
    split; auto. eapply same_language_trans; [|eauto]. eapply same_language_trans; eauto.
  Qed.

  (** ** START *)
  Theorem start_total (G : gram) : wf G ->
    ok_or_names (cnf_start teqb neqb fresh G) (fun G' => same_language G G' /\ wf G').
  Proof.
    intros Hwf.
    destruct (cnf_start teqb neqb fresh G) as [G'| |] eqn:E.
    - simpl. split; [eapply start_lang; eauto|].
      unfold cnf_start in E. destruct (existsb _ (prods G)); [|inversion E; subst; auto].
      destruct (add_new fresh Prime (nonterms G) (start G)) as [[s' nts']| |] eqn:Ea; simpl in E; try discriminate.
      inversion E; subst G'. clear E.
      destruct (add_new_spec fresh fresh_spec _ _ _ _ _ Ea) as [_ ->].
      destruct Hwf as [Hst Hp]. split; simpl.
      + apply in_or_app. right. now left.
      + intros q Hq. apply In_add_p in Hq; auto. destruct Hq as [->|Hq]; simpl.
        * split; [apply in_or_app; right; now left|]. intros s [<-|[]]. simpl. apply in_or_app. now left.
        * destruct (Hp q Hq) as [Hh Hb]. split; [apply in_or_app; now left|].
          intros [t|A] Hs; simpl; [apply (Hb (Tm t) Hs)|apply in_or_app; left; apply (Hb (Nt A) Hs)].
    - destruct why. exact I.
    - exfalso. unfold cnf_start in E. destruct (existsb _ (prods G)); [|discriminate].
      unfold add_new in E. destruct (fresh Prime (nonterms G) (start G)); discriminate.
  Qed.
End Lang2.
