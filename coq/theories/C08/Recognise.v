(** C08 — bounded membership oracle (definitions; correctness in RecogniseProofs.v).

    [bounded_lang k fuel ps] computes, for a production list [ps], a table that maps every head
    to the list of ALL terminal strings of length <= k it generates (a Kleene fixed-point
    iteration on languages truncated at length k).  It answers [Some tab] only after the
    explicit closure test [closed_b] succeeded on the final table, so that
    [bounded_lang_sound] / [bounded_lang_complete] hold whatever the fuel was.
    Used by the driver to compare L_k(G) with L_k(X(G)) for the Go OUTPUT grammars: a search
    for failing inputs, not a proof. *)
From Coq Require Export List Bool Arith.
From Algo.Grammar Require Export CFG.
From Algo.C08 Require Export Model.
Export ListNotations.

Section Recog.
  Context {T N : Type}.
  Variable tcmp : T -> T -> comparison.
  Variable neqb : N -> N -> bool.

  Notation str := (list T).
  Notation lang := (list (list T)).
  Notation prod := (production T N).

  Fixpoint str_cmp (a b : str) : comparison :=
    match a, b with
    | [], [] => Eq
    | [], _ :: _ => Lt
    | _ :: _, [] => Gt
    | x :: a', y :: b' => match tcmp x y with Eq => str_cmp a' b' | c => c end
    end.

  Definition str_eqb (a b : str) : bool := match str_cmp a b with Eq => true | _ => false end.

  (** union of two (sorted) lists; membership is a union whatever the order of the inputs *)
  Fixpoint merge (a : lang) : lang -> lang :=
    match a with
    | [] => fun b => b
    | x :: a' =>
      fix mb (b : lang) : lang :=
        match b with
        | [] => a
        | y :: b' =>
          match str_cmp x y with
          | Lt => x :: merge a' b
          | Gt => y :: mb b'
          | Eq => x :: merge a' b'
          end
        end
    end.

  (** concatenation truncated at length k *)
  Fixpoint cat (k : nat) (A B : lang) : lang :=
    match A with
    | [] => []
    | a :: A' => merge (map (app a) (filter (fun b => length a + length b <=? k) B)) (cat k A' B)
    end.

  Definition tab := list (N * lang).

  Fixpoint lookup (A : N) (t : tab) : lang :=
    match t with [] => [] | (B, l) :: t' => if neqb A B then l else lookup A t' end.

  Fixpoint update (A : N) (l : lang) (t : tab) : tab :=
    match t with
    | [] => [(A, l)]
    | (B, l') :: t' => if neqb A B then (B, l) :: t' else (B, l') :: update A l t'
    end.

  Fixpoint lang_of (k : nat) (t : tab) (b : sentential T N) : lang :=
    match b with
    | [] => [[]]
    | Tm a :: b' => cat k [[a]] (lang_of k t b')
    | Nt A :: b' => cat k (lookup A t) (lang_of k t b')
    end.

  Fixpoint tab_pass (k : nat) (ps : list prod) (t : tab) : tab :=
    match ps with
    | [] => t
    | p :: ps' =>
      tab_pass k ps' (update (head p) (merge (lang_of k t (body p)) (lookup (head p) t)) t)
    end.

  Definition tab_size (t : tab) : nat := fold_left (fun n e => n + length (snd e)) t 0.

  Definition closed_b (k : nat) (ps : list prod) (t : tab) : bool :=
    forallb (fun p => forallb (fun w => memb str_eqb w (lookup (head p) t)) (lang_of k t (body p))) ps.

  Definition bounded_lang (k fuel : nat) (ps : list prod) : option tab :=
    match fixloop (fun t => let t' := tab_pass k ps t in (t', tab_size t <? tab_size t')) fuel [] with
    | Ok t => if closed_b k ps t then Some t else None
    | _ => None
    end.

  Definition lang_subset (a b : lang) : bool := forallb (fun w => memb str_eqb w b) a.
  Definition lang_eqb (a b : lang) : bool := lang_subset a b && lang_subset b a.
End Recog.
