(** C08/C09 — executable model of the grammar transformations of /repo/grammar/cfg.go
    (as they are after the fix: commits for D08a, D09a, D08b):

      NullableNonTerminals, EliminateEmptyProductions (DEL), EliminateSingleProductions (UNIT),
      EliminateUnreachableProductions, EliminateCycles, EliminateLeftRecursion, LeftFactor,
      eliminateStartSymbolFromRight (START), eliminateNonSolitaryTerminals (TERM),
      eliminateNonBinaryProductions (BIN), ChomskyNormalForm, AddNewNonTerminal.

    Conventions.
    - Grammars are [Algo.Grammar.CFG.grammar]; Go's [set.Set] and the [Productions] table
      (head -> set of bodies) are duplicate-free lists, [Add] appends when absent.  Go iterates
      these hash tables in a random order; the model iterates in list order.  Every result the
      properties talk about (production SET, language) is independent of that order; the
      correspondence compares production sets up to a renaming of the fresh non-terminals.
    - The model is generic in the types of terminals [T] and non-terminals [N], their
      boolean equalities, and in [fresh]: the name generator behind [AddNewNonTerminal]
      (a suffix family, the current non-terminals, a base name).  [fresh = None] is Go's
      panic "Failed to generate a new non-terminal" and becomes [Panic OutOfNames].
      The concrete instance (names = UTF-8 byte strings, Go's suffix lists) is in [Names.v].
    - [for updated := true; updated; {...}] loops run on fuel ([fixloop]); running out of fuel
      is the result [Hang] and is proved impossible in Proofs*.v.
    - [OrderNonTerminals] (a sort on printed names) is not modelled: EliminateLeftRecursion
      takes the order as an argument and the theorems quantify over every order; the harness
      reads the order from the real code.
    No proofs here. *)
From Coq Require Export List Bool Arith.
From Algo.Grammar Require Export CFG.
Export ListNotations.

Inductive panic_kind := OutOfNames.
Inductive res (A : Type) := Ok (a : A) | Panic (why : panic_kind) | Hang.
Arguments Ok {A} a.
Arguments Panic {A} why.
Arguments Hang {A}.

Definition bind {A B} (r : res A) (f : A -> res B) : res B :=
  match r with Ok a => f a | Panic k => Panic k | Hang => Hang end.
Notation "'do' x <- r ; k" := (bind r (fun x => k)) (at level 200, x pattern, r at level 100, k at level 200).

(** the three suffix families of cfg.go *)
Inductive skind := Prime | Alpha | Numeric.

(** [for updated := true; updated; { updated = false; ... }] *)
Fixpoint fixloop {A} (step : A -> A * bool) (fuel : nat) (x : A) : res A :=
  match fuel with
  | O => Hang
  | S f => let (x', upd) := step x in if upd then fixloop step f x' else Ok x'
  end.

Fixpoint list_eqb {A} (e : A -> A -> bool) (l1 l2 : list A) : bool :=
  match l1, l2 with
  | [], [] => true
  | x :: l1', y :: l2' => e x y && list_eqb e l1' l2'
  | _, _ => false
  end.

Fixpoint memb {A} (e : A -> A -> bool) (x : A) (l : list A) : bool :=
  match l with [] => false | y :: l' => e x y || memb e x l' end.

(** [set.Add]: append when absent *)
Definition addb {A} (e : A -> A -> bool) (x : A) (l : list A) : list A :=
  if memb e x l then l else l ++ [x].

Definition removeb {A} (e : A -> A -> bool) (x : A) (l : list A) : list A :=
  filter (fun y => negb (e x y)) l.

Section Model.
  Context {T N : Type}.
  Variable teqb : T -> T -> bool.
  Variable neqb : N -> N -> bool.
  (** [NonTerminal(t)]: the non-terminal spelled like terminal [t] (TERM step) *)
  Variable t2n : T -> N.
  (** [AddNewNonTerminal(prefix, suffixes...)] as a function of the current non-terminals *)
  Variable fresh : skind -> list N -> N -> option N.

  Notation sym := (symbol T N).
  Notation body_t := (sentential T N).
  Notation prod := (production T N).
  Notation gram := (grammar T N).

  Definition sym_eqb (x y : sym) : bool :=
    match x, y with
    | Tm a, Tm b => teqb a b
    | Nt a, Nt b => neqb a b
    | _, _ => false
    end.
  Definition body_eqb : body_t -> body_t -> bool := list_eqb sym_eqb.
  Definition prod_eqb (p q : prod) : bool := neqb (head p) (head q) && body_eqb (body p) (body q).

  Definition mem_n := memb neqb.
  Definition mem_t := memb teqb.
  Definition mem_p := memb prod_eqb.
  Definition add_n := addb neqb.
  Definition add_p := addb prod_eqb.
  Definition add_ns (xs : list N) (l : list N) : list N := fold_left (fun l x => add_n x l) xs l.
  Definition add_ps (ps : list prod) (l : list prod) : list prod := fold_left (fun l p => add_p p l) ps l.

  (** [Productions.Get(A)] (nil = the empty list) *)
  Definition get (A : N) (ps : list prod) : list prod := filter (fun p => neqb (head p) A) ps.
  (** [Productions.RemoveAll(A)] *)
  Definition remove_head (A : N) (ps : list prod) : list prod := filter (fun p => negb (neqb (head p) A)) ps.
  Definition remove_p (p : prod) (ps : list prod) : list prod := removeb prod_eqb p ps.

  (** [String.NonTerminals()] *)
  Fixpoint nts_of (b : body_t) : list N :=
    match b with [] => [] | Nt A :: b' => A :: nts_of b' | Tm _ :: b' => nts_of b' end.

  Definition is_empty (p : prod) : bool := match body p with [] => true | _ => false end.
  Definition is_single (p : prod) : bool := match body p with [Nt _] => true | _ => false end.
  Definition is_left_recursive (p : prod) : bool :=
    match body p with s :: _ => sym_eqb s (Nt (head p)) | [] => false end.
  Definition is_cnf_binary (p : prod) : bool := match body p with [Nt _; Nt _] => true | _ => false end.
  Definition is_cnf_terminal (p : prod) : bool := match body p with [Tm _] => true | _ => false end.

  (** [AddNewNonTerminal]: returns the new non-terminal and the extended set *)
  Definition add_new (k : skind) (nts : list N) (base : N) : res (N * list N) :=
    match fresh k nts base with
    | Some x => Ok (x, nts ++ [x])
    | None => Panic OutOfNames
    end.

  (** * NullableNonTerminals *)
  Definition all_nullable (nl : list N) (b : body_t) : bool :=
    forallb (fun s => match s with Nt A => mem_n A nl | Tm _ => false end) b.

  Fixpoint nullable_pass (ps : list prod) (nl : list N) (upd : bool) : list N * bool :=
    match ps with
    | [] => (nl, upd)
    | p :: ps' =>
      if mem_n (head p) nl then nullable_pass ps' nl upd
      else if all_nullable nl (body p) then nullable_pass ps' (nl ++ [head p]) true
      else nullable_pass ps' nl upd
    end.

  Definition nullable (ps : list prod) : res (list N) :=
    fixloop (fun nl => nullable_pass ps nl false) (S (length ps)) [].

  (** * EliminateEmptyProductions (DEL) — the bodies/aux loop, with [β.Append(sym)] (fix D08a) *)
  Definition nullable_sym (nl : list N) (s : sym) : bool :=
    match s with Nt A => mem_n A nl | Tm _ => false end.

  Fixpoint expand_aux (nb : bool) (s : sym) (bodies : list body_t) : list body_t :=
    match bodies with
    | [] => []
    | b :: bs => (if nb then [b] else []) ++ (b ++ [s]) :: expand_aux nb s bs
    end.

  Fixpoint expand (nl : list N) (b : body_t) (bodies : list body_t) : list body_t :=
    match b with
    | [] => bodies
    | s :: b' => expand nl b' (expand_aux (nullable_sym nl s) s bodies)
    end.

  Fixpoint add_bodies (h : N) (bs : list body_t) (acc : list prod) : list prod :=
    match bs with
    | [] => acc
    | [] :: bs' => add_bodies h bs' acc
    | b :: bs' => add_bodies h bs' (add_p (mkProd h b) acc)
    end.

  Fixpoint del_prods (nl : list N) (ps : list prod) (acc : list prod) : list prod :=
    match ps with
    | [] => acc
    | p :: ps' =>
      del_prods nl ps' (if is_empty p then acc else add_bodies (head p) (expand nl (body p) [[]]) acc)
    end.

  Definition del (G : gram) : res gram :=
    do nl <- nullable (prods G);
    let P := del_prods nl (prods G) [] in
    if mem_n (start G) nl then
      do xn <- add_new Prime (nonterms G) (start G);
      let (s', nts') := (xn : N * list N) in
      Ok (mkGrammar (terms G) nts' (add_p (mkProd s' []) (add_p (mkProd s' [Nt (start G)]) P)) s')
    else Ok (mkGrammar (terms G) (nonterms G) P (start G)).

  (** * reachability fixpoint shared by UNIT (on the unit productions) and Unreachable *)
  Fixpoint reach_pass (ps : list prod) (s : list N) (upd : bool) : list N * bool :=
    match ps with
    | [] => (s, upd)
    | p :: ps' =>
      if mem_n (head p) s then
        let s' := add_ns (nts_of (body p)) s in
        reach_pass ps' s' (upd || (length s <? length s'))
      else reach_pass ps' s upd
    end.

  Definition total_nts (ps : list prod) : nat := length (flat_map (fun p => nts_of (body p)) ps).

  Definition reach (ps : list prod) (init : list N) : res (list N) :=
    fixloop (fun s => reach_pass ps s false) (S (total_nts ps)) init.

  (** * EliminateSingleProductions (UNIT).  The closure map of the Go code (A -> set of B with
      A =>* B by unit productions, computed by repeated squaring until nothing changes) is
      modelled per non-terminal as reachability in the unit graph: the same least fixed point. *)
  Fixpoint unit_bodies (A : N) (ps : list prod) (acc : list prod) : list prod :=
    match ps with
    | [] => acc
    | p :: ps' => unit_bodies A ps' (if is_single p then acc else add_p (mkProd A (body p)) acc)
    end.

  Fixpoint unit_for (A : N) (cl : list N) (ps : list prod) (acc : list prod) : list prod :=
    match cl with
    | [] => acc
    | B :: cl' => unit_for A cl' ps (unit_bodies A (get B ps) acc)   (* nil guard: [get] = [] *)
    end.

  Fixpoint unit_prods (sp ps : list prod) (nts : list N) (acc : list prod) : res (list prod) :=
    match nts with
    | [] => Ok acc
    | A :: nts' =>
      do cl <- reach sp [A];
      unit_prods sp ps nts' (unit_for A cl ps acc)
    end.

  Definition unit_elim (G : gram) : res gram :=
    do P <- unit_prods (filter is_single (prods G)) (prods G) (nonterms G) [];
    Ok (mkGrammar (terms G) (nonterms G) P (start G)).

  (** * EliminateUnreachableProductions *)
  Definition body_has_t (t : T) (b : body_t) : bool :=
    existsb (fun s => sym_eqb s (Tm t)) b.

  Definition unreachable_elim (G : gram) : res gram :=
    do rn <- reach (prods G) [start G];
    let P := filter (fun p => mem_n (head p) rn) (prods G) in
    let Ts := filter (fun t => existsb (fun p => body_has_t t (body p)) P) (terms G) in
    Ok (mkGrammar Ts rn P (start G)).

  (** * EliminateCycles *)
  Definition cycles_elim (G : gram) : res gram :=
    do G1 <- del G; do G2 <- unit_elim G1; unreachable_elim G2.

  (** * EliminateLeftRecursion; [order] is the third result of OrderNonTerminals on the
      cycle-free grammar *)
  Definition starts_with (A : N) (p : prod) : bool :=
    match body p with s :: _ => sym_eqb s (Nt A) | [] => false end.

  (** replace each Ai -> Aj γ by Ai -> δ γ for all current Aj -> δ *)
  Fixpoint subst_prods (Ai : N) (aiaj ajs : list prod) (ps : list prod) : list prod :=
    match aiaj with
    | [] => ps
    | p :: rest =>
      subst_prods Ai rest ajs
        (add_ps (map (fun q => mkProd Ai (body q ++ tl (body p))) ajs) (remove_p p ps))
    end.

  Definition elr_subst (Ai Aj : N) (ps : list prod) : list prod :=
    let ai := get Ai ps in
    let aj := get Aj ps in
    match ai, aj with
    | [], _ => ps        (* nil guard (fix D08b) *)
    | _, [] => ps
    | _, _ => subst_prods Ai (filter (starts_with Aj) ai) aj ps
    end.

  Definition elr_immediate (A : N) (st : list N * list prod) : res (list N * list prod) :=
    let (nts, ps) := st in
    let aps := get A ps in
    if existsb is_left_recursive aps then
      do xn <- add_new Prime nts A;
      let (A', nts') := (xn : N * list N) in
      let lr := filter is_left_recursive aps in
      let nonlr := filter (fun p => negb (is_left_recursive p)) aps in
      let ps1 := remove_head A ps in
      let ps2 := add_ps (map (fun p => mkProd A (body p ++ [Nt A'])) nonlr) ps1 in
      let ps3 := add_ps (map (fun p => mkProd A' (tl (body p) ++ [Nt A'])) lr) ps2 in
      Ok (nts', add_p (mkProd A' []) ps3)
    else Ok st.

  (** [earlier] = A_0 .. A_{i-1} (all of them: j < i, fix D09a), [todo] = A_i .. *)
  Fixpoint elr_loop (earlier todo : list N) (st : list N * list prod) : res (list N * list prod) :=
    match todo with
    | [] => Ok st
    | Ai :: todo' =>
      let ps1 := fold_left (fun ps Aj => elr_subst Ai Aj ps) earlier (snd st) in
      do st' <- elr_immediate Ai (fst st, ps1);
      elr_loop (earlier ++ [Ai]) todo' st'
    end.

  Definition left_recursion_elim (order : gram -> list N) (G : gram) : res gram :=
    do G1 <- cycles_elim G;
    do st <- elr_loop [] (order G1) (nonterms G1, prods G1);
    Ok (mkGrammar (terms G1) (fst st) (snd st) (start G1)).

  (** * LeftFactor, as written: [groupByCommonPrefix] keys every group by the FIRST symbol
      (a new key is always [Body[:1]]), a head is rewritten only when it has both a group with
      two or more members and a singleton group, and [updated] is never set, so there is one
      pass over the heads (D09b, known).  The pass of the model visits the heads present at
      its start; the Go pass may in addition visit heads it has just inserted. *)
  Definition key_eqb (a b : option sym) : bool :=
    match a, b with
    | None, None => true
    | Some x, Some y => sym_eqb x y
    | _, _ => false
    end.

  Fixpoint group_add (k : option sym) (suf : body_t) (gs : list (option sym * list body_t))
    : list (option sym * list body_t) :=
    match gs with
    | [] => [(k, [suf])]
    | (k', sufs) :: gs' =>
      if key_eqb k k' then (k', addb body_eqb suf sufs) :: gs' else (k', sufs) :: group_add k suf gs'
    end.

  Fixpoint group_by_first (aps : list prod) (gs : list (option sym * list body_t))
    : list (option sym * list body_t) :=
    match aps with
    | [] => gs
    | p :: aps' =>
      group_by_first aps'
        (match body p with
         | [] => group_add None [] gs
         | s :: suf => group_add (Some s) suf gs
         end)
    end.

  Definition key_body (k : option sym) : body_t := match k with Some s => [s] | None => [] end.

  Fixpoint lf_prefix_groups (A : N) (pgs : list (option sym * list body_t)) (st : list N * list prod)
    : res (list N * list prod) :=
    match pgs with
    | [] => Ok st
    | (k, sufs) :: pgs' =>
      do xn <- add_new Prime (fst st) A;
      let (A', nts') := (xn : N * list N) in
      let ps1 := add_p (mkProd A (key_body k ++ [Nt A'])) (snd st) in
      let ps2 := add_ps (map (fun suf => mkProd A' suf) sufs) ps1 in
      lf_prefix_groups A pgs' (nts', ps2)
    end.

  Definition lf_head (A : N) (st : list N * list prod) : res (list N * list prod) :=
    let groups := group_by_first (get A (snd st)) [] in
    let pgs := filter (fun g => 2 <=? length (snd g)) groups in
    let alts := filter (fun g => length (snd g) =? 1) groups in
    match pgs, alts with
    | _ :: _, _ :: _ =>
      do st1 <- lf_prefix_groups A pgs (fst st, remove_head A (snd st));
      Ok (fst st1,
          add_ps (flat_map (fun g => map (fun suf => mkProd A (key_body (fst g) ++ suf)) (snd g)) alts)
                 (snd st1))
    | _, _ => Ok st
    end.

  Fixpoint lf_heads (hs : list N) (st : list N * list prod) : res (list N * list prod) :=
    match hs with
    | [] => Ok st
    | A :: hs' => do st' <- lf_head A st; lf_heads hs' st'
    end.

  Definition heads_of (ps : list prod) : list N := fold_left (fun l p => add_n (head p) l) ps [].

  Definition left_factor (G : gram) : res gram :=
    do st <- lf_heads (heads_of (prods G)) (nonterms G, prods G);
    Ok (mkGrammar (terms G) (fst st) (snd st) (start G)).

  (** * ChomskyNormalForm: START, TERM, BIN, DEL, UNIT, Unreachable *)
  Definition body_has_n (A : N) (b : body_t) : bool := existsb (fun s => sym_eqb s (Nt A)) b.

  Definition cnf_start (G : gram) : res gram :=
    if existsb (fun p => body_has_n (start G) (body p)) (prods G) then
      do xn <- add_new Prime (nonterms G) (start G);
      let (s', nts') := (xn : N * list N) in
      Ok (mkGrammar (terms G) nts' (add_p (mkProd s' [Nt (start G)]) (prods G)) s')
    else Ok G.

  Record term_state := mkTS { ts_store : list (T * N); ts_nts : list N; ts_prods : list prod }.

  Fixpoint store_find (t : T) (st : list (T * N)) : option N :=
    match st with [] => None | (t', n) :: st' => if teqb t t' then Some n else store_find t st' end.

  (** one body: returns the new body (built left to right) and the state *)
  Fixpoint term_body (b : body_t) (newb : body_t) (s : term_state) : res (body_t * term_state) :=
    match b with
    | [] => Ok (newb, s)
    | Nt A :: b' => term_body b' (newb ++ [Nt A]) s
    | Tm t :: b' =>
      match store_find t (ts_store s) with
      | Some n =>
        term_body b' (newb ++ [Nt n]) (mkTS (ts_store s) (ts_nts s) (add_p (mkProd n [Tm t]) (ts_prods s)))
      | None =>
        do xn <- add_new Alpha (ts_nts s) (t2n t);
        let (n, nts') := (xn : N * list N) in
        term_body b' (newb ++ [Nt n]) (mkTS ((t, n) :: ts_store s) nts' (add_p (mkProd n [Tm t]) (ts_prods s)))
      end
    end.

  Fixpoint term_prods (ps : list prod) (s : term_state) : res term_state :=
    match ps with
    | [] => Ok s
    | p :: ps' =>
      if is_cnf_terminal p then term_prods ps' (mkTS (ts_store s) (ts_nts s) (add_p p (ts_prods s)))
      else
        do r <- term_body (body p) [] s;
        let (nb, s1) := (r : body_t * term_state) in
        term_prods ps' (mkTS (ts_store s1) (ts_nts s1) (add_p (mkProd (head p) nb) (ts_prods s1)))
    end.

  Definition cnf_term (G : gram) : res gram :=
    do s <- term_prods (prods G) (mkTS [] (nonterms G) []);
    Ok (mkGrammar (terms G) (ts_nts s) (ts_prods s) (start G)).

  (** [for head, i := A, 0; i <= len(body)-2; i++]; [b] is [body[i:]] *)
  Fixpoint bin_chain (A : N) (hd : N) (b : body_t) (st : list N * list prod) : res (list N * list prod) :=
    match b with
    | x :: ((_ :: _ :: _) as b') =>
      do xn <- add_new Numeric (fst st) A;
      let (hn, nts') := (xn : N * list N) in
      bin_chain A hn b' (nts', add_p (mkProd hd [x; Nt hn]) (snd st))
    | _ => Ok (fst st, add_p (mkProd hd b) (snd st))
    end.

  Fixpoint bin_prods (ps : list prod) (st : list N * list prod) : res (list N * list prod) :=
    match ps with
    | [] => Ok st
    | p :: ps' =>
      if is_cnf_binary p || is_cnf_terminal p || is_empty p || is_single p then
        bin_prods ps' (fst st, add_p p (snd st))
      else
        do st' <- bin_chain (head p) (head p) (body p) st;
        bin_prods ps' st'
    end.

  Definition cnf_bin (G : gram) : res gram :=
    do st <- bin_prods (prods G) (nonterms G, []);
    Ok (mkGrammar (terms G) (fst st) (snd st) (start G)).

  Definition chomsky (G : gram) : res gram :=
    do G1 <- cnf_start G; do G2 <- cnf_term G1; do G3 <- cnf_bin G2;
    do G4 <- del G3; do G5 <- unit_elim G4; unreachable_elim G5.

  (** * Verify() *)
  Definition sym_declared (G : gram) (s : sym) : bool :=
    match s with Tm t => mem_t t (terms G) | Nt A => mem_n A (nonterms G) end.

  (** everything Verify() checks except "every non-terminal has a production" *)
  Definition verify_symbols (G : gram) : bool :=
    mem_n (start G) (nonterms G) &&
    forallb (fun p => mem_n (head p) (nonterms G) && forallb (sym_declared G) (body p)) (prods G).

  Definition has_prod (ps : list prod) (A : N) : bool := existsb (fun p => neqb (head p) A) ps.

  Definition verify (G : gram) : bool :=
    verify_symbols G && has_prod (prods G) (start G) && forallb (has_prod (prods G)) (nonterms G).
End Model.
