(** C08/C09 — the concrete instance of the model: terminals and non-terminals are Go strings
    (lists of UTF-8 bytes), [AddNewNonTerminal] is transcribed with Go's three suffix lists
    (primeSuffixes, alphabeticSuffixes, numericSuffixes of grammar/cfg.go; the harness prints the
    real lists on every run and the driver compares them with these).  No proofs here. *)
From Coq Require Export NArith.
From Algo.C08 Require Export Model.

Definition name := list N.
Definition name_eqb : name -> name -> bool := list_eqb N.eqb.

Fixpoint strip_prefix (pre l : name) : option name :=
  match pre, l with
  | [], _ => Some l
  | x :: pre', y :: l' => if N.eqb x y then strip_prefix pre' l' else None
  | _ :: _, [] => None
  end.

(** [strings.TrimSuffix(p, s)] *)
Definition trim_suffix (p s : name) : name :=
  match strip_prefix (rev s) (rev p) with Some r => rev r | None => p end.

Definition sub_digit (d : N) : name := [226; 130; 128 + d]%N.   (* U+2080 + d *)

Definition prime_suffixes : list name :=
  [[226; 128; 178]; [226; 128; 179]; [226; 128; 180]; [226; 129; 151]]%N.   (* ′ ″ ‴ ⁗ *)
Definition alpha_suffixes : list name :=
  [[226; 130; 153]; [226; 129; 191]; [225; 180; 186]]%N.                     (* ₙ ⁿ ᴺ *)
Definition numeric_suffixes : list name :=
  map (fun n => let n := N.of_nat n in
                if (n <? 10)%N then sub_digit n else sub_digit (n / 10) ++ sub_digit (n mod 10))
      (seq 1 99).                                                            (* ₁ … ₉₉ *)

Definition suffixes_of (k : skind) : list name :=
  match k with Prime => prime_suffixes | Alpha => alpha_suffixes | Numeric => numeric_suffixes end.

(** [AddNewNonTerminal]: strip each suffix once, in order, from the base; the first
    [base ++ suffix] that is not yet a non-terminal *)
Definition fresh_name (k : skind) (nts : list name) (base : name) : option name :=
  let pre := fold_left trim_suffix (suffixes_of k) base in
  find (fun c => negb (memb name_eqb c nts)) (map (fun s => pre ++ s) (suffixes_of k)).

Definition t2n_id (t : name) : name := t.

Notation cgram := (grammar name name).

Definition c_del : cgram -> res cgram := del name_eqb name_eqb fresh_name.
Definition c_unit : cgram -> res cgram := unit_elim name_eqb name_eqb.
Definition c_unreachable : cgram -> res cgram := unreachable_elim name_eqb name_eqb.
Definition c_cycles : cgram -> res cgram := cycles_elim name_eqb name_eqb fresh_name.
Definition c_elr (order : list name) : cgram -> res cgram :=
  left_recursion_elim name_eqb name_eqb fresh_name (fun _ => order).
Definition c_left_factor : cgram -> res cgram := left_factor name_eqb name_eqb fresh_name.
Definition c_start : cgram -> res cgram := cnf_start name_eqb name_eqb fresh_name.
Definition c_term : cgram -> res cgram := cnf_term name_eqb name_eqb t2n_id fresh_name.
Definition c_bin : cgram -> res cgram := cnf_bin name_eqb name_eqb fresh_name.
Definition c_chomsky : cgram -> res cgram := chomsky name_eqb name_eqb t2n_id fresh_name.
Definition c_nullable (G : cgram) : res (list name) := nullable name_eqb (prods G).
Definition c_verify : cgram -> bool := verify name_eqb name_eqb.
Definition c_verify_symbols : cgram -> bool := verify_symbols name_eqb name_eqb.
