(** C08 — language preservation of LeftFactor (the model of the code as it is: one pass,
    a head is rewritten when it has a group of >= 2 alternatives with the same first symbol and
    a singleton group).  A fresh non-terminal has several alternatives here, so instead of a
    substitution the simulation uses a denotation [D] of the symbols. *)
From Coq Require Import List Bool Arith Lia.
From Algo.Grammar Require Import CFG.
From Algo.C08 Require Import Model Spec ProofsBase ProofsLang1 ProofsLang2 ProofsLang3.
Import ListNotations.

Section LF.
  Context {T N : Type}.
  Variable teqb : T -> T -> bool.
  Variable neqb : N -> N -> bool.
  Variable fresh : skind -> list N -> N -> option N.
  Hypothesis teqb_spec : forall x y, teqb x y = true <-> x = y.
  Hypothesis neqb_spec : forall x y, neqb x y = true <-> x = y.
  Hypothesis fresh_spec : forall k nts b x, fresh k nts b = Some x -> ~ In x nts.

  Notation sym := (symbol T N).
  Notation prod := (production T N).
  Notation gram := (grammar T N).
  Notation group := (option sym * list (list sym))%type.

  (** * denotational simulation *)
  Section Denote.
    Variable D : sym -> list T -> Prop.
    Inductive Ds : list sym -> list T -> Prop :=
    | Ds_nil : Ds [] []
    | Ds_cons s u w1 w2 : D s w1 -> Ds u w2 -> Ds (s :: u) (w1 ++ w2).

    Lemma gen_denote (P' : list prod) :
      (forall a, D (Tm a) [a]) ->
      (forall q, In q P' -> forall w, Ds (body q) w -> D (Nt (head q)) w) ->
      (forall s w, gen P' s w -> D s w) /\ (forall u w, gens P' u w -> Ds u w).
    Proof.
      intros Ht Hq. apply gen_gens_ind; auto.
      - constructor.
      - intros. now constructor.
    Qed.

    Lemma Ds_app_inv u v w : Ds (u ++ v) w -> exists w1 w2, w = w1 ++ w2 /\ Ds u w1 /\ Ds v w2.
    Proof.
      revert w. induction u as [|s u IH]; simpl; intros w H.
      - exists [], w. repeat split; auto. constructor.
      - inversion H as [|s' u' x1 x2 Hs Hu]; subst. destruct (IH _ Hu) as (y1 & y2 & -> & H1 & H2).
        exists (x1 ++ y1), y2. rewrite app_assoc. repeat split; auto. now constructor.
    Qed.
  End Denote.

  (** * groupByCommonPrefix: groups by the first symbol *)
  Lemma key_eqb_spec (a b : option sym) : key_eqb teqb neqb a b = true <-> a = b.
  Proof.
    destruct a, b; simpl; try (split; congruence).
    rewrite (sym_eqb_spec teqb neqb teqb_spec neqb_spec). split; congruence.
  Qed.

  Definition split_body (b : list sym) : option sym * list sym :=
    match b with [] => (None, []) | s :: suf => (Some s, suf) end.

  Lemma split_body_spec b : b = key_body (fst (split_body b)) ++ snd (split_body b).
  Proof. destruct b; reflexivity. Qed.

  Lemma In_group_add k suf (gs : list group) k' suf' :
    (exists sufs, In (k', sufs) (group_add teqb neqb k suf gs) /\ In suf' sufs) <->
    (k' = k /\ suf' = suf) \/ (exists sufs, In (k', sufs) gs /\ In suf' sufs).
  Proof.
    induction gs as [|[k0 sufs0] gs IH]; simpl.
    - split.
      + intros (sufs & [H|[]] & Hs). inversion H; subst. destruct Hs as [<-|[]]. auto.
      + intros [[-> ->]|(sufs & [] & _)]. exists [suf]. split; [now left|now left].
    - destruct (key_eqb teqb neqb k k0) eqn:E.
      + apply key_eqb_spec in E. subst k0. split.
        * intros (sufs & [H|H] & Hs).
          -- inversion H; subst. apply In_addb in Hs; [|apply body_eqb_spec; auto].
             destruct Hs as [->|Hs]; [now left|]. right. exists sufs0. split; [now left|auto].
          -- right. exists sufs. split; [now right|auto].
        * intros [[-> ->]|(sufs & [H|H] & Hs)].
          -- exists (addb (body_eqb teqb neqb) suf sufs0). split; [now left|].
             apply In_addb; [apply body_eqb_spec; auto|now left].
          -- inversion H; subst. exists (addb (body_eqb teqb neqb) suf sufs). split; [now left|].
             apply In_addb; [apply body_eqb_spec; auto|now right].
          -- exists sufs. split; [now right|auto].
      + simpl. split.
        * intros (sufs & [H|H] & Hs).
          -- inversion H; subst. right. exists sufs. split; [now left|auto].
          -- destruct (proj1 IH (ex_intro _ sufs (conj H Hs))) as [?|(sufs' & H1 & H2)]; auto.
             right. exists sufs'. split; [now right|auto].
        * intros [Heq|(sufs & [H|H] & Hs)].
          -- destruct (proj2 IH (or_introl Heq)) as (sufs & H1 & H2). exists sufs. split; [now right|auto].
          -- inversion H; subst. exists sufs. split; [now left|auto].
          -- destruct (proj2 IH (or_intror (ex_intro _ sufs (conj H Hs)))) as (sufs' & H1 & H2).
             exists sufs'. split; [now right|auto].
  Qed.

  Lemma group_add_nonempty k suf (gs : list group) :
    (forall g, In g gs -> snd g <> []) -> forall g, In g (group_add teqb neqb k suf gs) -> snd g <> [].
  Proof.
    induction gs as [|[k0 sufs0] gs IH]; simpl; intros Hne g Hg.
    - destruct Hg as [<-|[]]. discriminate.
    - destruct (key_eqb teqb neqb k k0).
      + destruct Hg as [<-|Hg]; [|apply Hne; now right]. simpl.
        unfold addb. destruct (memb _ suf sufs0) eqn:E.
        * apply (Hne (k0, sufs0)). now left.
        * destruct sufs0; discriminate.
      + destruct Hg as [<-|Hg]; [apply (Hne (k0, sufs0)); now left|].
        apply IH; auto.
  Qed.

  Lemma group_by_first_spec (aps : list prod) : forall gs k suf,
    (exists sufs, In (k, sufs) (group_by_first teqb neqb aps gs) /\ In suf sufs) <->
    (exists p, In p aps /\ split_body (body p) = (k, suf)) \/ (exists sufs, In (k, sufs) gs /\ In suf sufs).
  Proof.
    induction aps as [|p aps IH]; simpl; intros gs k suf.
    - split; [auto|]. intros [(p & [] & _)|H]; auto.
    - rewrite IH. destruct (body p) as [|s b] eqn:Eb; rewrite In_group_add; simpl; split.
      + intros [(p' & Hp' & Hs)|[[-> ->]|H]]; auto.
        * left. exists p'. auto.
        * left. exists p. rewrite Eb. auto.
      + intros [(p' & [<-|Hp'] & Hs)|H]; auto.
        * rewrite Eb in Hs. simpl in Hs. inversion Hs; subst. auto.
        * left. exists p'. auto.
      + intros [(p' & Hp' & Hs)|[[-> ->]|H]]; auto.
        * left. exists p'. auto.
        * left. exists p. rewrite Eb. auto.
      + intros [(p' & [<-|Hp'] & Hs)|H]; auto.
        * rewrite Eb in Hs. simpl in Hs. inversion Hs; subst. auto.
        * left. exists p'. auto.
  Qed.

  Lemma group_by_first_nonempty (aps : list prod) : forall gs,
    (forall g, In g gs -> snd g <> []) -> forall g, In g (group_by_first teqb neqb aps gs) -> snd g <> [].
  Proof.
    induction aps as [|p aps IH]; simpl; intros gs Hne; auto.
    apply IH. destruct (body p); apply group_add_nonempty; auto.
  Qed.

  (** * one head *)
  (** the fresh non-terminals of one head with their groups *)
  Definition defs_t := list (N * group).

  Definition pg_member (A : N) (defs : defs_t) (q : prod) : Prop :=
    exists A' k sufs, In (A', (k, sufs)) defs /\
      (q = mkProd A (key_body k ++ [Nt A']) \/ exists suf, In suf sufs /\ q = mkProd A' suf).

  Lemma lf_prefix_groups_spec A : forall pgs nts ps,
    ok_or_names (lf_prefix_groups teqb neqb fresh A pgs (nts, ps))
      (fun st' => exists defs : defs_t,
         map snd defs = pgs /\ fst st' = nts ++ map fst defs /\ NoDup (map fst defs) /\
         (forall x, In x (map fst defs) -> ~ In x nts) /\
         forall q, In q (snd st') <-> In q ps \/ pg_member A defs q).
  Proof.
    induction pgs as [|[k sufs] pgs IH]; intros nts ps.
    - simpl. exists []. simpl. rewrite app_nil_r.
      split; [reflexivity|]. split; [reflexivity|]. split; [constructor|]. split; [intros x []|].
      intros q. split; [auto|]. intros [H|(A' & k & sufs & [] & _)]; auto.
    - simpl. eapply ok_or_names_bind; [apply add_new_total; auto|].
      intros [A' nts'] [Hfresh Hn]. simpl in Hfresh, Hn. subst nts'.
      set (ps1 := add_p teqb neqb (mkProd A (key_body k ++ [Nt A'])) ps).
      set (ps2 := add_ps teqb neqb (map (fun suf => mkProd A' suf) sufs) ps1).
      eapply ok_or_names_weaken; [apply (IH (nts ++ [A']) ps2)|].
      intros st' (defs & Hm & Hf & Hnd & Hnew & Hin).
      exists ((A', (k, sufs)) :: defs). simpl. split; [now rewrite Hm|]. split.
      { rewrite Hf, <- app_assoc. reflexivity. }
      split.
      { constructor; auto. intros H. apply (Hnew A' H). apply in_or_app. right. now left. }
      split.
      { intros x [<-|Hx]; auto. intros H. apply (Hnew x Hx). apply in_or_app. now left. }
      intros q. rewrite Hin. unfold ps2. rewrite In_add_ps; auto. unfold ps1. rewrite In_add_p; auto.
      rewrite in_map_iff. split.
      + intros [[(suf & <- & Hs)|[->|H]]|(A2 & k2 & sufs2 & Hd & H)]; auto.
        * right. exists A', k, sufs. split; [now left|]. right. eauto.
        * right. exists A', k, sufs. split; [now left|]. now left.
        * right. exists A2, k2, sufs2. split; [now right|auto].
      + intros [H|(A2 & k2 & sufs2 & [Hd|Hd] & H)]; auto.
        * inversion Hd; subst. destruct H as [->|(suf & Hs & ->)]; auto. left. left. eauto.
        * right. exists A2, k2, sufs2. auto.
  Qed.

  Lemma assoc_defs (defs : defs_t) A' g : NoDup (map fst defs) -> In (A', g) defs ->
    forall g', In (A', g') defs -> g' = g.
  Proof.
    induction defs as [|[x y] defs IH]; simpl; intros Hnd Hin g' Hin'; [destruct Hin|].
    inversion Hnd as [|? ? Hx Hnd']; subst.
    destruct Hin as [Hin|Hin]; destruct Hin' as [Hin'|Hin'].
    - congruence.
    - inversion Hin; subst. exfalso. apply Hx. apply in_map_iff. exists (A', g'). auto.
    - inversion Hin'; subst. exfalso. apply Hx. apply in_map_iff. exists (A', g). auto.
    - eauto.
  Qed.

  (** language equivalence of one head rewrite, for all symbols over [nts] *)
  Definition equiv_on (nts : list N) (ps ps' : list prod) : Prop :=
    forall X w, In X nts -> (gen ps' (Nt X) w <-> gen ps (Nt X) w).

  Lemma lf_head_spec A nts ps : closed_under nts ps ->
    ok_or_names (lf_head teqb neqb fresh A (nts, ps))
      (fun st' => incl nts (fst st') /\ closed_under (fst st') (snd st') /\ equiv_on nts ps (snd st') /\
                  (forall q t, In q (snd st') -> In (Tm t) (body q) -> exists p, In p ps /\ In (Tm t) (body p))).
  Proof.
    intros Hcu. unfold lf_head. cbn [fst snd].
    set (aps := get neqb A ps).
    remember (group_by_first teqb neqb aps []) as groups eqn:Egroups.
    match goal with |- context [match ?X with [] => _ | _ :: _ => _ end] => remember X as pgs eqn:Epgs end.
    match goal with |- context [match pgs with [] => _ | _ :: _ => match ?X with [] => _ | _ :: _ => _ end end] => remember X as alts eqn:Ealts end.
    assert (Htriv : ok_or_names (Ok (nts, ps) : res (list N * list prod))
              (fun st' => incl nts (fst st') /\ closed_under (fst st') (snd st') /\ equiv_on nts ps (snd st') /\
                  (forall q t, In q (snd st') -> In (Tm t) (body q) -> exists p, In p ps /\ In (Tm t) (body p)))).
    { simpl. split; [apply incl_refl|]. split; [exact Hcu|]. split; [intros X w _; tauto|]. intros q t Hq Ht. eauto. }
    destruct pgs as [|pg0 pgs0]; [exact Htriv|].
    destruct alts as [|alt0 alts0]; [exact Htriv|].
    clear Htriv.
    set (pgs := pg0 :: pgs0) in *. set (alts := alt0 :: alts0) in *.
    (* facts about the groups *)
    assert (G1 : forall p, In p ps -> head p = A -> exists k sufs suf, In (k, sufs) groups /\ In suf sufs /\ body p = key_body k ++ suf).
    { intros p Hp Hh. destruct (split_body (body p)) as [k suf] eqn:Es.
      destruct (proj2 (group_by_first_spec aps [] k suf)) as (sufs & H1 & H2).
      { left. exists p. split; auto. apply (In_get neqb neqb_spec). auto. }
      rewrite <- Egroups in H1.
      exists k, sufs, suf. repeat split; auto. rewrite (split_body_spec (body p)), Es. reflexivity. }
    assert (G2 : forall k sufs suf, In (k, sufs) groups -> In suf sufs -> In (mkProd A (key_body k ++ suf)) ps).
    { intros k sufs suf H1 H2. rewrite Egroups in H1.
      destruct (proj1 (group_by_first_spec aps [] k suf)) as [(p & Hp & Hs)|(sufs' & [] & _)]; eauto.
      apply (In_get neqb neqb_spec) in Hp. destruct Hp as [Hp Hh].
      pose proof (split_body_spec (body p)) as Hb. rewrite Hs in Hb. simpl in Hb.
      destruct p as [hp bp]; simpl in *. subst hp bp. exact Hp. }
    assert (G3 : forall g, In g groups -> In g pgs \/ In g alts).
    { intros g Hg. assert (Hne : snd g <> []).
      { rewrite Egroups in Hg. eapply group_by_first_nonempty; eauto. intros ? []. }
      destruct (snd g) as [|x [|y l]] eqn:El; [congruence| |].
      - right. rewrite Ealts. apply filter_In. split; auto. now rewrite El.
      - left. rewrite Epgs. apply filter_In. split; auto. now rewrite El. }
    assert (Gp : forall g, In g pgs -> In g groups) by (intros g Hg; rewrite Epgs in Hg; apply filter_In in Hg; apply Hg).
    assert (Ga : forall g, In g alts -> In g groups) by (intros g Hg; rewrite Ealts in Hg; apply filter_In in Hg; apply Hg).
    assert (Gne : forall k sufs, In (k, sufs) groups -> sufs <> []).
    { intros k sufs Hg. rewrite Egroups in Hg.
      apply (group_by_first_nonempty aps [] (fun _ (F : False) => match F with end) (k, sufs) Hg). }
    eapply ok_or_names_bind; [apply lf_prefix_groups_spec|].
    intros [nts1 ps1] (defs & Hm & Hf & Hnd & Hnew & Hin). simpl in Hf, Hin. subst nts1. simpl.
    set (altps := flat_map (fun g : group => map (fun suf => mkProd A (key_body (fst g) ++ suf)) (snd g)) alts).
    set (ps' := add_ps teqb neqb altps ps1).
    assert (Hdefs : forall A' k sufs, In (A', (k, sufs)) defs -> In (k, sufs) pgs).
    { intros A' k sufs Hd. rewrite <- Hm. apply in_map_iff. exists (A', (k, sufs)). auto. }
    assert (Hdefs' : forall k sufs, In (k, sufs) pgs -> exists A', In (A', (k, sufs)) defs).
    { intros k sufs Hg. rewrite <- Hm in Hg. apply in_map_iff in Hg. destruct Hg as ([A' g] & Hg & Hd). simpl in Hg. subst g. eauto. }
    assert (Hps' : forall q, In q ps' <->
              (In q ps /\ head q <> A) \/ pg_member A defs q \/
              (exists k sufs suf, In (k, sufs) alts /\ In suf sufs /\ q = mkProd A (key_body k ++ suf))).
    { intros q. unfold ps'. rewrite In_add_ps; auto. rewrite Hin, (In_remove_head neqb neqb_spec).
      unfold altps. rewrite in_flat_map. split.
      - intros [([k sufs] & Hg & Hq)|[H|H]]; auto. apply in_map_iff in Hq. destruct Hq as (suf & <- & Hs).
        right. right. exists k, sufs, suf. auto.
      - intros [H|[H|(k & sufs & suf & Hg & Hs & ->)]]; auto.
        left. exists (k, sufs). split; auto. apply in_map_iff. eauto. }
    assert (HA : In A nts).
    { destruct pg0 as [k0 sufs0]. assert (Hg0 : In (k0, sufs0) pgs) by (now left).
      assert (Hl : sufs0 <> []) by (apply (Gne k0), Gp, Hg0).
      destruct sufs0 as [|suf0 ?]; [congruence|].
      apply (proj1 (Hcu _ (G2 k0 _ suf0 (Gp _ Hg0) (or_introl eq_refl)))). }
    assert (Hkey : forall k sufs suf, In (k, sufs) groups -> In suf sufs ->
              forall B, In (Nt B) (key_body k ++ suf) -> In B nts).
    { intros k sufs suf Hg Hs B HB. apply (proj2 (Hcu _ (G2 k sufs suf Hg Hs))). exact HB. }
    split; [intros x Hx; apply in_or_app; now left|]. split; [|split].
    - (* closed *)
      intros q Hq. apply Hps' in Hq. destruct Hq as [[Hq _]|[(A' & k & sufs & Hd & Hq)|(k & sufs & suf & Hg & Hs & ->)]].
      + destruct (Hcu q Hq) as [H1 H2]. split; [apply in_or_app; now left|]. intros B HB. apply in_or_app. left. auto.
      + assert (Hg := Gp _ (Hdefs _ _ _ Hd)).
        assert (HA' : In A' (map fst defs)) by (apply in_map_iff; exists (A', (k, sufs)); auto).
        assert (Hl : sufs <> []) by (apply (Gne k), Hg).
        destruct sufs as [|suf0 sufs']; [congruence|].
        destruct Hq as [->|(suf & Hs & ->)]; simpl.
        * split; [apply in_or_app; now left|]. intros B HB. apply in_app_iff in HB. apply in_or_app.
          destruct HB as [HB|[HB|[]]]; [left|right; inversion HB; subst; auto].
          apply (Hkey k _ suf0 Hg (or_introl eq_refl)). apply in_or_app. now left.
        * split; [apply in_or_app; now right|]. intros B HB. apply in_or_app. left.
          apply (Hkey k _ suf Hg Hs). apply in_or_app. now right.
      + simpl. split; [apply in_or_app; now left|]. intros B HB. apply in_or_app. left.
        eapply Hkey; eauto.
    - (* language *)
      intros X w HX. split.
      + (* ps' ⊆ ps by denotation *)
        set (D := fun (s : sym) (w : list T) =>
                    match s with
                    | Tm a => w = [a]
                    | Nt Y => (~ In Y (map fst defs) /\ gen ps (Nt Y) w) \/
                              (exists k sufs suf, In (Y, (k, sufs)) defs /\ In suf sufs /\ gens ps suf w)
                    end).
        assert (Dold : forall u, (forall B, In (Nt B) u -> In B nts) -> forall w, Ds D u w -> gens ps u w).
        { intros u Hu w0 H. induction H as [|s u w1 w2 Hs _ IH]; [constructor|]. constructor.
          - destruct s as [a|Y]; simpl in Hs; [subst; constructor|].
            destruct Hs as [[_ Hs]|(k & sufs & suf & Hd & _)]; auto.
            exfalso. apply (Hnew Y); [apply in_map_iff; exists (Y, (k, sufs)); auto|apply Hu; now left].
          - apply IH. intros B HB. apply Hu. now right. }
        assert (Dnt : forall Y w0, In Y nts -> gen ps (Nt Y) w0 -> D (Nt Y) w0).
        { intros Y w0 HY Hg. left. split; auto. intros H. apply (Hnew Y H HY). }
        assert (Hden : forall s w0, gen ps' s w0 -> D s w0).
        { apply (gen_denote D ps'); [reflexivity|].
          intros q Hq w0 Hw. apply Hps' in Hq.
          destruct Hq as [[Hq Hne]|[(A' & k & sufs & Hd & Hq)|(k & sufs & suf & Hg & Hs & ->)]].
          - apply Dnt; [apply (proj1 (Hcu q Hq))|]. constructor; auto. apply Dold; auto. apply (proj2 (Hcu q Hq)).
          - assert (Hg := Gp _ (Hdefs _ _ _ Hd)).
            destruct Hq as [->|(suf & Hs & ->)]; simpl in *.
            + apply Dnt; auto. apply Ds_app_inv in Hw. destruct Hw as (w1 & w2 & -> & H1 & H2).
              inversion H2 as [|s' u' x1 x2 Hs' Hu']; subst. inversion Hu'; subst. rewrite app_nil_r.
              simpl in Hs'. destruct Hs' as [[Hno _]|(k2 & sufs2 & suf & Hd2 & Hs2 & Hgs)].
              * exfalso. apply Hno. apply in_map_iff. exists (A', (k, sufs)). auto.
              * assert (E : (k2, sufs2) = (k, sufs)) by (eapply assoc_defs; eauto). inversion E; subst.
                apply gen_nt_intro with (b := key_body k ++ suf); [eapply G2; eauto|].
                apply gens_app; auto. apply Dold; auto.
                intros B HB. destruct sufs as [|suf0 ?]; [destruct Hs2|].
                apply (Hkey k _ suf0 Hg (or_introl eq_refl)). apply in_or_app. now left.
            + right. exists k, sufs, suf. repeat split; auto. apply Dold; auto.
              intros B HB. apply (Hkey k sufs suf Hg Hs). apply in_or_app. now right.
          - simpl in *. apply Dnt; auto. apply gen_nt_intro with (b := key_body k ++ suf); [eapply G2; eauto|].
            apply Dold; auto. eapply Hkey; eauto. }
        intros Hg. apply Hden in Hg. simpl in Hg. destruct Hg as [[_ Hg]|(k & sufs & suf & Hd & _)]; auto.
        exfalso. apply (Hnew X); auto. apply in_map_iff. exists (X, (k, sufs)). auto.
      + (* ps ⊆ ps' *)
        assert (Hfw : forall p, In p ps -> impl_by ps' (head p) (body p)); [|apply (proj1 (gen_forward ps ps' Hfw))].
        intros p Hp.
        destruct (neqb (head p) A) eqn:E.
        * apply neqb_spec in E. destruct (G1 p Hp E) as (k & sufs & suf & Hg & Hs & Hb).
          rewrite Hb, E. destruct (G3 _ Hg) as [Hpg|Halt].
          -- destruct (Hdefs' k sufs Hpg) as [A' Hd].
             intros out' Ho w0 Hw. apply gens_split in Hw. destruct Hw as (w1 & w2 & -> & H1 & H2).
             apply gen_nt_intro with (b := key_body k ++ [Nt A']).
             ++ apply Ho, Hps'. right. left. exists A', k, sufs. auto.
             ++ apply gens_app; auto. apply gens_single. apply gen_nt_intro with (b := suf); auto.
                apply Ho, Hps'. right. left. exists A', k, sufs. split; auto. right. eauto.
          -- apply impl_by_prod. apply Hps'. right. right. exists k, sufs, suf. auto.
        * apply impl_by_prod. destruct p as [hp bp]; simpl in *. apply Hps'. left. split; auto.
          simpl. intros ->. rewrite (proj2 (neqb_spec A A) eq_refl) in E. discriminate.
    - (* terminals *)
      intros q t Hq Ht. apply Hps' in Hq.
      destruct Hq as [[Hq _]|[(A' & k & sufs & Hd & Hq)|(k & sufs & suf & Hg & Hs & ->)]]; [eauto| |].
      + assert (Hg := Gp _ (Hdefs _ _ _ Hd)).
        destruct Hq as [->|(suf & Hs & ->)]; simpl in Ht.
        * apply in_app_iff in Ht. destruct Ht as [Ht|[Ht|[]]]; [|discriminate].
          assert (Hl : sufs <> []) by (apply (Gne k), Hg).
          destruct sufs as [|suf0 sufs']; [congruence|].
          exists (mkProd A (key_body k ++ suf0)). split; [eapply G2; eauto; now left|]. simpl. apply in_or_app. now left.
        * exists (mkProd A (key_body k ++ suf)). split; [eapply G2; eauto|]. simpl. apply in_or_app. now right.
      + exists (mkProd A (key_body k ++ suf)). split; [eapply G2; eauto|]. exact Ht.
  Qed.

  Definition lf_good (nts : list N) (ps : list prod) (st' : list N * list prod) : Prop :=
    incl nts (fst st') /\ closed_under (fst st') (snd st') /\ equiv_on nts ps (snd st') /\
    (forall q t, In q (snd st') -> In (Tm t) (body q) -> exists p, In p ps /\ In (Tm t) (body p)).

  Lemma lf_heads_spec : forall hs nts ps, closed_under nts ps ->
    ok_or_names (lf_heads teqb neqb fresh hs (nts, ps)) (lf_good nts ps).
  Proof.
    induction hs as [|A hs IH]; intros nts ps Hcu.
    - simpl. split; [apply incl_refl|]. split; [exact Hcu|]. split; [intros X w _; tauto|]. intros q t Hq Ht. eauto.
    - simpl. eapply ok_or_names_bind; [apply lf_head_spec; auto|].
      intros [nts1 ps1] (Hi1 & Hcu1 & He1 & Ht1). simpl in *.
      eapply ok_or_names_weaken; [apply IH; auto|].
      intros st' (Hi2 & Hcu2 & He2 & Ht2). split; [eapply incl_tran; eauto|]. split; [auto|]. split.
      + intros X w HX. rewrite (He2 X w (Hi1 X HX)). apply He1; auto.
      + intros q t Hq Ht. destruct (Ht2 q t Hq Ht) as (p1 & Hp1 & Ht'). eauto.
  Qed.

  Theorem left_factor_total (G : gram) : wf G ->
    ok_or_names (left_factor teqb neqb fresh G) (fun G' => same_language G G' /\ wf G').
  Proof.
    intros Hwf. unfold left_factor.
    eapply ok_or_names_bind; [apply lf_heads_spec; apply wf_closed_under; auto|].
    intros [nts' ps'] (Hi & Hcu & He & Ht). simpl in *. split.
    - intros w. rewrite !L_gen. simpl. apply He. apply Hwf.
    - split; simpl.
      + apply Hi. apply Hwf.
      + intros q Hq. destruct (Hcu q Hq) as [Hh Hb]. split; auto.
        intros [t|B] Hs; simpl; auto.
        destruct (Ht q t Hq Hs) as (p & Hp & Htp). destruct Hwf as [_ Hw]. destruct (Hw p Hp) as [_ Hbd].
        apply (Hbd (Tm t) Htp).
  Qed.
End LF.
