(** C08 — language preservation, part 4: ChomskyNormalForm = START; TERM; BIN; DEL; UNIT;
    Unreachable. *)
From Coq Require Import List Bool Arith Lia.
From Algo.Grammar Require Import CFG.
From Algo.C08 Require Import Model Spec ProofsBase ProofsLang1 ProofsLang2 ProofsLang3.
Import ListNotations.

Section Lang4.
  Context {T N : Type}.
  Variable teqb : T -> T -> bool.
  Variable neqb : N -> N -> bool.
  Variable t2n : T -> N.
  Variable fresh : skind -> list N -> N -> option N.
  Hypothesis teqb_spec : forall x y, teqb x y = true <-> x = y.
  Hypothesis neqb_spec : forall x y, neqb x y = true <-> x = y.
  Hypothesis fresh_spec : forall k nts b x, fresh k nts b = Some x -> ~ In x nts.

  Notation gram := (grammar T N).

  Theorem chomsky_total (G : gram) : wf G ->
    ok_or_names (chomsky teqb neqb t2n fresh G) (fun G' => same_language G G' /\ wf G').
  Proof.
    intros Hwf. unfold chomsky.
    eapply ok_or_names_bind; [apply start_total; auto|]. intros G1 [HL1 Hwf1].
    eapply ok_or_names_bind; [apply term_total; auto|]. intros G2 [HL2 Hwf2].
    eapply ok_or_names_bind; [apply bin_total; auto|]. intros G3 [HL3 Hwf3].
    eapply ok_or_names_bind; [apply del_total; auto|]. intros G4 [HL4 Hwf4].
    eapply ok_or_names_bind; [apply unit_total; auto|]. intros G5 [HL5 Hwf5].
    eapply ok_or_names_weaken; [apply unreachable_total; auto|]. intros G6 [HL6 Hwf6].
    split; auto.
    eapply same_language_trans; [|exact HL6]. eapply same_language_trans; [|exact HL5].
    eapply same_language_trans; [|exact HL4]. eapply same_language_trans; [|exact HL3].
    eapply same_language_trans; [|exact HL2]. exact HL1.
  Qed.

  (** with a name generator that never runs out, every transformation returns a grammar *)
  Lemma ok_or_names_exists {A} (r : res A) (Q : A -> Prop) :
    ok_or_names r Q -> r <> Panic OutOfNames -> exists a, r = Ok a /\ Q a.
  Proof. destruct r as [a|[]|]; simpl; intros H Hn; [eauto|congruence|contradiction]. Qed.

  Lemma ok_or_names_disj {A} (r : res A) (Q : A -> Prop) :
    ok_or_names r Q -> r = Panic OutOfNames \/ exists a, r = Ok a /\ Q a.
  Proof. destruct r as [a|[]|]; simpl; intros H; [eauto|auto|contradiction]. Qed.

  Lemma valid_wf (G : gram) : valid G -> wf G.
  Proof. intros [H _]. exact H. Qed.
End Lang4.
