(** C12 — termination of the stack loop on every token list, for a deterministic table.

    The only way not to terminate is an infinite sequence of expansions under one lookahead [x].
    What the loop does with one stack symbol [X] under [x] is described by a big-step relation
    [outcome x X b]: either [X] is erased ([b = true]: all of it is expanded to nothing) or the loop
    gets stuck in it ([b = false]: a terminal comes to the top, to be matched or rejected, or an
    empty cell is hit).  Every symbol has an outcome:
    - a nullable non-terminal with [x ∈ FOLLOW] is erased (induction on the size of a derivation
      of ε: its only production in the cell is its nullable production, whose body symbols are
      again nullable with [x ∈ FOLLOW]);
    - a symbol with [a ∈ FIRST] gets stuck under [a] (induction on a witness of [a ∈ FIRST]: the
      production of the witness is the one in the cell, the symbols before the witness position
      are nullable with [a ∈ FOLLOW], hence erased);
    - a non-empty cell [M[A,x]] means one of the two. *)
From Coq Require Import List Arith Bool Lia.
From Algo.C10 Require Import Model Spec Sat ProofsFirst ProofsFollow ProofsTable Proofs.
From Algo.C12 Require Import Model Spec ProofsSound ProofsComplete.
Import ListNotations.

(** * witnesses of FIRST membership *)
Section Witness.
  Variable G : gram.

  Inductive firstW (a : nat) : sym -> Prop :=
  | fw_tm : firstW a (Tm a)
  | fw_nt p pre Y post :
      In p (prods G) -> body p = pre ++ Y :: post -> derives G pre [] -> firstW a Y ->
      firstW a (Nt (head p)).

  Definition wit_inv (st : list fact) : Prop :=
    (forall A a, In (A, Some a) st -> firstW a (Nt A)) /\ (forall A, In (A, None) st -> nullable_nt G A).

  Lemma fsym_wit st Y a : wit_inv st -> fsym st Y a -> firstW a Y.
  Proof. intros [H _]. destruct Y as [b|B]; simpl; [intros ->; constructor | apply H]. Qed.

  Lemma first_body_wit p : In p (prods G) ->
    forall b pre st, body p = pre ++ b -> derives G pre [] -> wit_inv st -> wit_inv (first_body (head p) b st).
  Proof.
    intros Hp. induction b as [|Y b IH]; intros pre st Hb Hpre Hs; simpl.
    - destruct Hs as [H1 H2]. split.
      + intros A a HA. apply (add_In fact_eqb fact_eqb_eq) in HA. destruct HA as [E|HA]; [discriminate | auto].
      + intros A HA. apply (add_In fact_eqb fact_eqb_eq) in HA. destruct HA as [E|HA]; [|auto].
        inversion E; subst A. rewrite app_nil_r in Hb.
        eapply derives_trans; [apply derives_prod; exact Hp | now rewrite Hb].
    - set (st1 := add_terms (head p) (first_sym_terms st Y) st).
      assert (Hs1 : wit_inv st1).
      { destruct Hs as [H1 H2]. split.
        - intros A a HA. apply add_terms_In in HA. destruct HA as [[a' [Ha E]]|HA]; [|auto].
          inversion E; subst A a'. apply first_sym_terms_In in Ha.
          apply (fw_nt a p pre Y b Hp Hb Hpre). now apply (fsym_wit st).
        - intros A HA. apply add_terms_In in HA. destruct HA as [[a' [Ha E]]|HA]; [discriminate | auto]. }
      destruct (first_sym_eps st1 Y) eqn:E; [|exact Hs1].
      apply (IH (pre ++ [Y])); [now rewrite <- app_assoc | | exact Hs1].
      apply (derives_app G pre [] [Y] []); [exact Hpre|].
      apply first_sym_eps_true in E. destruct Y as [c|C]; simpl in E; [destruct E | now apply Hs1].
  Qed.

  Lemma first_table_wit O fi : orders_ok G (o_first O) -> first_table G O = Some fi -> wit_inv fi.
  Proof.
    intros HO E. unfold first_table in E.
    eapply (sat_loop_inv (fun i => first_pass (o_first O i)) wit_inv); [| |exact E].
    - intros j st Hs. unfold first_pass.
      assert (X : forall l, incl l (prods G) -> forall st, wit_inv st ->
                    wit_inv (fold_left (fun st p => first_body (head p) (body p) st) l st)).
      { induction l as [|p l IH]; intros Hl st0 H0; simpl; [exact H0|].
        apply IH; [intros y Hy; apply Hl; now right|].
        apply (first_body_wit p (Hl p (or_introl eq_refl)) (body p) []); auto. apply derives_refl. }
      apply X; [intros p Hp; now apply (HO j) | exact Hs].
    - split; [intros ? ? [] | intros ? []].
  Qed.

  Lemma firstW_sem a X : firstW a X -> first_sem G [X] a.
  Proof.
    induction 1 as [|p pre Y post Hp Hb Hpre _ [beta IH]].
    - exists []. apply derives_refl.
    - exists (beta ++ post). eapply derives_trans; [apply derives_prod; exact Hp|]. rewrite Hb.
      apply (derives_app G pre [] (Y :: post) (Tm a :: beta ++ post)); [exact Hpre|].
      apply (derives_app G [Y] (Tm a :: beta) post post); [exact IH | apply derives_refl].
  Qed.
End Witness.

Section Term.
  Variable G : gram.
  Variables fi fo : list fact.
  Variable O : oracle.
  Hypothesis HO : oracle_ok G O.
  Hypothesis Ef : first_table G O = Some fi.
  Hypothesis Eo : follow_table G O fi = Some fo.
  Let M := table_build G fi fo.
  Hypothesis HD : table_deterministic M.

  Let F1 : first_sound G fi := proj1 (first_table_props G O (proj1 (proj2 HO)) fi Ef).
  Let F2 : first_closed G fi := proj1 (proj2 (first_table_props G O (proj1 (proj2 HO)) fi Ef)).
  Let F3 : incl fi (first_universe G) := proj2 (proj2 (first_table_props G O (proj1 (proj2 HO)) fi Ef)).

  Lemma fo_closed : follow_closed G fi fo.
  Proof.
    destruct (follow_table_props G fi F1 F2 F3 O (proj2 (proj2 HO))) as [fo' [Eo' [_ [_ [Hc _]]]]].
    rewrite Eo in Eo'. now inversion Eo'; subst.
  Qed.

  (** ** what the loop does with one stack symbol under a fixed lookahead *)
  Inductive outcome (x : option nat) : sym -> bool -> Prop :=
  | o_tm a : outcome x (Tm a) false
  | o_empty A : cell_prods M A x = [] -> outcome x (Nt A) false
  | o_exp A p b : cell_prods M A x = [p] -> outcomes x (body p) b -> outcome x (Nt A) b
  with outcomes (x : option nat) : list sym -> bool -> Prop :=
  | os_nil : outcomes x [] true
  | os_erased X l b : outcome x X true -> outcomes x l b -> outcomes x (X :: l) b
  | os_stuck X l : outcome x X false -> outcomes x (X :: l) false.

  Scheme outcome_mut := Minimality for outcome Sort Prop
    with outcomes_mut := Minimality for outcomes Sort Prop.
  Combined Scheme outcome_comb from outcome_mut, outcomes_mut.

  Lemma in_cell p x : In p (prods G) -> In x (select fi fo p) -> cell_prods M (head p) x = [p].
  Proof.
    intros Hp Hx. apply (cell_singleton G fi fo HD). apply table_build_cell. auto.
  Qed.

  (** a nullable non-terminal with [x] in its FOLLOW set is erased under [x] *)
  Lemma nf_erased x : forall n B, gen G n [Nt B] [] -> In (B, x) fo -> outcome x (Nt B) true.
  Proof.
    induction n as [n IH] using lt_wf_ind. intros B Hg HB.
    inversion Hg as [| | k1 k2 p x0 u1 u2 Hp Hb Hx Ea Eb Ec]; subst.
    apply app_eq_nil in Ec. destruct Ec as [-> ->].
    assert (Hn : nstr fi (body p)) by (apply (nstr_complete G fi _ F2); exact (gen_derives G _ _ _ Hb)).
    apply (o_exp x (head p) p true).
    - apply in_cell; [exact Hp|]. apply select_In. right. split; assumption.
    - assert (X : forall l done m, body p = done ++ l -> gen G m l [] -> m <= k1 -> outcomes x l true).
      { induction l as [|Y l IHl]; intros done m Hd Hm Hle; [constructor|].
        change (Y :: l) with ([Y] ++ l) in Hm.
        destruct (gen_app_inv G [Y] _ _ _ Hm) as [m1 [m2 [w1 [w2 [Em [Ew [G1 G2]]]]]]].
        symmetry in Ew. apply app_eq_nil in Ew. destruct Ew as [-> ->].
        destruct Y as [c|C]; [inversion G1|].
        apply os_erased.
        - apply (IH m1); [lia | exact G1|].
          destruct (fo_closed p Hp done C l Hd) as [_ K]. apply K; [|exact HB].
          apply (nstr_complete G fi _ F2). exact (gen_derives G _ _ _ G2).
        - apply (IHl (done ++ [Nt C]) m2); [now rewrite <- app_assoc | exact G2 | lia]. }
      apply (X (body p) [] k1); auto.
  Qed.

  Lemma nullable_fact_erased x B : In (B, None) fi -> In (B, x) fo -> outcome x (Nt B) true.
  Proof.
    intros HB Hx. pose proof (F1 B None HB) as D. simpl in D.
    destruct (derives_gen G [Nt B] [] D) as [n Hn]. now apply (nf_erased x n).
  Qed.

  (** a symbol that can begin with [a] gets the loop stuck under lookahead [a] *)
  Lemma first_stuck a X : firstW G a X -> outcome (Some a) X false.
  Proof.
    induction 1 as [|p pre Y post Hp Hb Hpre HW IH]; [constructor|].
    assert (HY : fsym fi Y a).
    { pose proof (fstr_complete G fi [Y] a F2 (firstW_sem G a Y HW)) as H. simpl in H. tauto. }
    assert (Hpre' : nstr fi pre) by now apply (nstr_complete G fi _ F2).
    apply (o_exp (Some a) (head p) p false).
    - apply in_cell; [exact Hp|]. apply select_In. left. exists a. split; [reflexivity|].
      rewrite Hb, fstr_app. right. split; [exact Hpre'|]. simpl. now left.
    - rewrite Hb.
      assert (X : forall l done, body p = done ++ l ++ Y :: post -> nstr fi l ->
                                 outcomes (Some a) (l ++ Y :: post) false).
      { induction l as [|Z l IHl]; intros done Hd Hn; simpl; [now apply os_stuck|].
        destruct Hn as [HZ Hn]. destruct Z as [c|C]; simpl in HZ; [destruct HZ|].
        apply os_erased.
        - apply nullable_fact_erased; [exact HZ|].
          destruct (fo_closed p Hp done C (l ++ Y :: post) Hd) as [K _]. apply K.
          rewrite fstr_app. right. split; [exact Hn|]. simpl. now left.
        - apply (IHl (done ++ [Nt C])); [now rewrite <- app_assoc | exact Hn]. }
      apply (X pre []); auto.
  Qed.

  Lemma outcome_total x X : exists b, outcome x X b.
  Proof.
    destruct X as [a|A]; [exists false; constructor|].
    destruct (cell_prods M A x) as [|p [|q l]] eqn:E.
    - exists false. now constructor.
    - assert (Hp : In p (cell_prods M A x)) by (rewrite E; now left).
      apply table_build_cell in Hp. destruct Hp as [Hp [EA Hs]]. subst A.
      destruct (F2 p Hp) as [C1 C2]. apply select_In in Hs.
      destruct Hs as [[a [-> Ha]]|[Hn Hx]].
      + exists false. apply first_stuck. apply (proj1 (first_table_wit G O fi (proj1 (proj2 HO)) Ef)). now apply C1.
      + exists true. apply nullable_fact_erased; auto.
    - pose proof (HD A x) as Hl. rewrite E in Hl. simpl in Hl. lia.
  Qed.

  (** ** the loop follows the outcome *)
  Context {St : Type} (tokF : St -> token -> St) (prodF : St -> prod -> St).
  Let run := parse_loop tokF prodF M.

  Definition erases (x : option nat) (l : list sym) : Prop :=
    forall stack input s, lookahead input = x ->
      exists k s', forall f, run (k + f) (l ++ stack) input s = run f stack input s'.

  Definition sticks (x : option nat) (l : list sym) : Prop :=
    forall stack input s, lookahead input = x ->
      (exists k e s', forall f, run (S k + f) (l ++ stack) input s = PReject e s')
      \/ (exists k tk input' stack' s', input = tk :: input' /\
            forall f, run (k + f) (l ++ stack) input s = run f stack' input' s').

  Definition follows (x : option nat) (l : list sym) (b : bool) : Prop :=
    (b = true -> erases x l) /\ (b = false -> sticks x l).

  Lemma expand_step x A p stack input s f :
    lookahead input = x -> cell_prods M A x = [p] ->
    run (S f) (Nt A :: stack) input s = run f (body p ++ stack) input (prodF s p).
  Proof.
    intros Hx Hc. unfold run. simpl. unfold is_empty, get_production. rewrite Hx, Hc. reflexivity.
  Qed.

  Lemma run_outcome x :
    (forall X b, outcome x X b -> follows x [X] b) /\ (forall l b, outcomes x l b -> follows x l b).
  Proof.
    apply (outcome_comb x (fun X b => follows x [X] b) (fun l b => follows x l b)).
    - (* terminal *)
      intros a. split; [discriminate|]. intros _ stack input s Hx.
      destruct input as [|tk input'].
      + left. exists 0, EUnexpectedTerminal, s. intros f. reflexivity.
      + destruct (a =? fst tk) eqn:E.
        * right. exists 1, tk, input', stack, (tokF s tk). split; [reflexivity|].
           intros f. unfold run. simpl. now rewrite E.
        * left. exists 0, EUnexpectedTerminal, s. intros f. unfold run. simpl. now rewrite E.
    - (* empty cell *)
      intros A Hc. split; [discriminate|]. intros _ stack input s Hx.
      left. exists 0, EUnacceptable, s. intros f. unfold run. simpl. unfold is_empty. now rewrite Hx, Hc.
    - (* expansion *)
      intros A p b Hc _ [IHe IHs]. split.
      + intros Hb stack input s Hx. destruct (IHe Hb stack input (prodF s p) Hx) as [k [s' Hk]].
          exists (S k), s'. intros f. change (run (S (k + f)) (Nt A :: stack) input s = run f stack input s'). rewrite (expand_step x A p _ _ _ _ Hx Hc). apply Hk.
      + intros Hb stack input s Hx. destruct (IHs Hb stack input (prodF s p) Hx) as [[k [e [s' Hk]]]|[k [tk [input' [stack' [s' [Ei Hk]]]]]]].
        * left. exists (S k), e, s'. intros f.
           change (run (S (S k + f)) (Nt A :: stack) input s = PReject e s').
           rewrite (expand_step x A p _ _ _ _ Hx Hc). apply Hk.
        * right. exists (S k), tk, input', stack', s'. split; [exact Ei|]. intros f.
           change (run (S (k + f)) (Nt A :: stack) input s = run f stack' input' s').
           rewrite (expand_step x A p _ _ _ _ Hx Hc). apply Hk.
    - (* nil *)
      split; [|discriminate]. intros _ stack input s Hx. exists 0, s. intros f. reflexivity.
    - (* erased head *)
      intros X l b _ [IHX _] _ [IHe IHs]. specialize (IHX eq_refl). split.
      + intros Hb stack input s Hx. destruct (IHX (l ++ stack) input s Hx) as [k1 [s1 H1]].
          destruct (IHe Hb stack input s1 Hx) as [k2 [s2 H2]].
          exists (k1 + k2), s2. intros f. simpl in H1. change ((X :: l) ++ stack) with (X :: l ++ stack). rewrite <- Nat.add_assoc, H1. apply H2.
      + intros Hb stack input s Hx. destruct (IHX (l ++ stack) input s Hx) as [k1 [s1 H1]]. simpl in H1.
          destruct (IHs Hb stack input s1 Hx) as [[k [e [s' Hk]]]|[k [tk [input' [stack' [s' [Ei Hk]]]]]]].
        * left. exists (k1 + k), e, s'. intros f. change ((X :: l) ++ stack) with (X :: l ++ stack).
           replace (S (k1 + k) + f) with (k1 + (S k + f)) by lia. rewrite H1. apply Hk.
        * right. exists (k1 + k), tk, input', stack', s'. split; [exact Ei|]. intros f.
           change ((X :: l) ++ stack) with (X :: l ++ stack). rewrite <- Nat.add_assoc, H1. apply Hk.
    - (* stuck head *)
      intros X l _ [_ IHX]. specialize (IHX eq_refl). split; [discriminate|].
      intros _ stack input s Hx. apply (IHX (l ++ stack) input s Hx).
  Qed.

  (** ** the loop terminates from every configuration *)
  Theorem loop_terminates : forall n input, length input = n ->
    forall stack s, exists k, forall f, run (k + f) stack input s <> PHang.
  Proof.
    induction n as [n IH] using lt_wf_ind. intros input Hn stack.
    induction stack as [|X stack IHs]; intros s.
    - exists 1. intros f. unfold run. simpl. destruct input; discriminate.
    - destruct (outcome_total (lookahead input) X) as [b Hb].
      destruct (proj1 (run_outcome (lookahead input)) X b Hb) as [He Hs].
      destruct b.
      + destruct (He eq_refl stack input s eq_refl) as [k1 [s1 H1]]. simpl in H1.
        destruct (IHs s1) as [k2 H2]. exists (k1 + k2). intros f.
        rewrite <- Nat.add_assoc, H1. apply H2.
      + destruct (Hs eq_refl stack input s eq_refl) as [[k [e [s' Hk]]]|[k [tk [input' [stack' [s' [Ei Hk]]]]]]].
        * exists (S k). intros f.
          rewrite (Hk f : run (S k + f) (X :: stack) input s = PReject e s'). discriminate.
        * subst input. simpl in Hn.
          destruct (IH (length input') ltac:(lia) input' eq_refl stack' s') as [k2 H2].
          exists (k + k2). intros f. rewrite <- Nat.add_assoc.
          rewrite (Hk (k2 + f) : run (k + (k2 + f)) (X :: stack) (tk :: input') s = _). apply H2.
  Qed.
End Term.
