(** C12 — the property-level theorems about [Parse] and [ParseAndBuildAST]. *)
From Coq Require Import List Arith Bool Lia.
From Algo.C10 Require Import Model Spec Sat ProofsFirst ProofsFollow ProofsTable Proofs.
From Algo.C12 Require Import Model Spec ProofsSound ProofsComplete ProofsTerm.
Import ListNotations.

(** the table of a valid grammar without conflict error is deterministic, and it is [table_build] *)
Lemma conflict_free_table G O M :
  oracle_ok G O -> valid G -> BuildParsingTable G O = Some (M, false) ->
  exists fi fo, first_table G O = Some fi /\ follow_table G O fi = Some fo /\
                M = table_build G fi fo /\ table_deterministic M.
Proof.
  intros HO HV H. destruct (analyse_total G O HO) as [nu [fi [fo [_ [Ef [Eo Ea]]]]]].
  unfold BuildParsingTable in H. rewrite Ea in H. simpl in H. inversion H as [[HM Hc]].
  exists fi, fo. repeat split; auto. now apply (conflicts_false_deterministic G O HO fi fo Ef Eo HV).
Qed.

Section Parse.
  Variable G : gram.
  Variable O : oracle.
  Hypothesis HO : oracle_ok G O.

  (** ** soundness: for every grammar *)
  Theorem parse_sound f w ps :
    Parse G O f w = PAccept ps ->
    lm_derives G ps [Nt (start G)] (map Tm (word w)) /\ sentence G w.
  Proof.
    unfold Parse, Parse_bt, parse_with.
    destruct (BuildParsingTable G O) as [[M [|]]|] eqn:EB; try discriminate.
    destruct (parse_loop _ _ M f [Nt (start G)] w []) as [s|e s| | |] eqn:EL; try discriminate.
    intros H; inversion H; subst ps.
    destruct (parse_loop_sound G M (built_table_sound G O M false HO EB) f _ _ _ _ [] EL) as [ps [E D]].
    rewrite app_nil_r in E. subst s. rewrite <- rev_alt, rev_involutive. simpl in D.
    split; [exact D|]. apply (lm_derives_derives G ps). exact D.
  Qed.

  (** a string that is not a sentence is never accepted — in particular a sentence followed by
      further tokens (the loop may not stop at the endmarker on the stack while input remains) *)
  Corollary parse_rejects_non_sentences f w ps : ~ sentence G w -> Parse G O f w <> PAccept ps.
  Proof. intros Hn H. now apply Hn, (parse_sound f w ps). Qed.

  (** ** the AST *)
  Theorem ast_sound f w r :
    ParseAndBuildAST G O f w = PAccept r -> exists t, r = Some t /\ yield t = w.
  Proof.
    unfold ParseAndBuildAST, ParseAndBuildAST_bt, parse_with.
    destruct (BuildParsingTable G O) as [[M [|]]|] eqn:EB; try discriminate.
    destruct (parse_loop _ _ M f [Nt (start G)] w (ast_init (start G))) as [s|e s| | |] eqn:EL; try discriminate.
    destruct (ast_loop_sound M f _ _ _ _ [] (ast_init_inv G) EL) as [Hb [t [Et Y]]].
    rewrite Hb. intros H; inversion H; subst r. exists t. split; [exact Et | exact Y].
  Qed.

  (** Parse and ParseAndBuildAST give the same verdict *)
  Theorem ast_verdict f w :
    match Parse G O f w with
    | PAccept _ => exists t, ParseAndBuildAST G O f w = PAccept (Some t) /\ yield t = w
    | PReject e _ => ParseAndBuildAST G O f w = PReject e None
    | PTableError => ParseAndBuildAST G O f w = PTableError
    | PPanic => ParseAndBuildAST G O f w = PPanic
    | PHang => ParseAndBuildAST G O f w = PHang
    end.
  Proof.
    pose proof (ast_sound f w) as AS.
    unfold Parse, Parse_bt, ParseAndBuildAST, ParseAndBuildAST_bt, parse_with in *.
    destruct (BuildParsingTable G O) as [[M [|]]|] eqn:EB; try reflexivity.
    pose proof (parse_loop_verdict (fun (s : list prod) (_ : token) => s) (fun s p => p :: s)
                  ast_token ast_prod M f [Nt (start G)] w [] (ast_init (start G))) as V.
    destruct (parse_loop _ _ M f [Nt (start G)] w []) as [s|e s| | |];
      destruct (parse_loop ast_token ast_prod M f [Nt (start G)] w (ast_init (start G))) as [s'|e' s'| | |] eqn:EL;
      simpl in V; try contradiction; try reflexivity.
    - destruct (ast_loop_sound M f _ _ _ _ [] (ast_init_inv G) EL) as [Hb [t [Et Y]]].
      rewrite Hb. rewrite Et. exists t. split; [reflexivity | exact Y].
    - now subst.
  Qed.

  (** ** more fuel never changes the result of a finished run *)
  Theorem parse_fuel_mono f k w : Parse G O f w <> PHang -> Parse G O (f + k) w = Parse G O f w.
  Proof.
    unfold Parse, Parse_bt, parse_with.
    destruct (BuildParsingTable G O) as [[M [|]]|]; try reflexivity.
    intros H. rewrite parse_loop_fuel_mono; [reflexivity|].
    intros E. apply H. now rewrite E.
  Qed.

  (** ** completeness, for valid grammars with a conflict-free table *)
  Hypothesis HV : valid G.
  Variable M : table.
  Hypothesis HB : BuildParsingTable G O = Some (M, false).

  Theorem parse_complete w :
    sentence G w -> exists f0, forall f, f0 <= f -> exists ps, Parse G O f w = PAccept ps.
  Proof.
    intros HS. destruct (conflict_free_table G O M HO HV HB) as [fi [fo [Ef [Eo [-> HD]]]]].
    destruct (derives_gen G _ _ HS) as [n Hn]. exists (S n). intros f Hf.
    unfold Parse, Parse_bt, parse_with. rewrite HB.
    destruct (parse_loop_complete G fi fo O HO Ef Eo HD (fun (s : list prod) (_ : token) => s) (fun s p => p :: s)
                n [Nt (start G)] [] w [] f Hn (derives_refl G _)) as [s' E]; [lia|].
    rewrite E. eauto.
  Qed.

  Theorem parse_no_panic f w : Parse G O f w <> PPanic.
  Proof.
    destruct (conflict_free_table G O M HO HV HB) as [fi [fo [Ef [Eo [EM HD]]]]].
    unfold Parse, Parse_bt, parse_with. rewrite HB. subst M.
    pose proof (parse_loop_no_panic G fi fo HD (fun (s : list prod) (_ : token) => s) (fun s p => p :: s)
                  f [Nt (start G)] w []) as NP.
    destruct (parse_loop _ _ _ f [Nt (start G)] w []); congruence.
  Qed.

  Theorem parse_accept_iff w : (exists f ps, Parse G O f w = PAccept ps) <-> sentence G w.
  Proof.
    split.
    - intros [f [ps H]]. now apply (parse_sound f w ps).
    - intros HS. destruct (parse_complete w HS) as [f0 H]. exists f0. now apply H.
  Qed.

  (** the loop terminates on every token list *)
  Theorem parse_terminates w : exists f0, forall f, f0 <= f -> Parse G O f w <> PHang.
  Proof.
    destruct (conflict_free_table G O M HO HV HB) as [fi [fo [Ef [Eo [EM HD]]]]]. subst M.
    destruct (loop_terminates G fi fo O HO Ef Eo HD (fun (s : list prod) (_ : token) => s) (fun s p => p :: s)
                (length w) w eq_refl [Nt (start G)] []) as [k Hk].
    exists k. intros f Hf. unfold Parse, Parse_bt, parse_with. rewrite HB.
    replace f with (k + (f - k)) by lia. specialize (Hk (f - k)).
    destruct (parse_loop _ _ _ (k + (f - k)) [Nt (start G)] w []); congruence.
  Qed.

  (** everything in one statement *)
  Theorem parse_sound_complete w :
    exists f0, forall f, f0 <= f ->
      Parse G O f w <> PHang /\ Parse G O f w <> PPanic /\
      ((exists ps, Parse G O f w = PAccept ps) <-> sentence G w) /\
      (forall ps, Parse G O f w = PAccept ps -> lm_derives G ps [Nt (start G)] (map Tm (word w))).
  Proof.
    destruct (parse_terminates w) as [f1 H1].
    exists f1. intros f Hf. split; [now apply H1|]. split; [apply parse_no_panic|]. split.
    - split.
      + intros [ps H]. now apply (parse_sound f w ps).
      + intros HS. destruct (parse_complete w HS) as [f0 H0].
        destruct (H0 (f + f0)) as [ps Hps]; [apply Nat.le_add_l|].
        exists ps. rewrite <- Hps. symmetry. apply parse_fuel_mono. now apply H1.
    - intros ps H. now apply (parse_sound f w ps).
  Qed.

  (** the run on a sentence terminates, and every long enough run gives the same answer *)
  Theorem parse_terminates_on_sentences w :
    sentence G w -> exists f0, forall f, f0 <= f -> Parse G O f w <> PHang.
  Proof.
    intros HS. destruct (parse_complete w HS) as [f0 H]. exists f0. intros f Hf.
    destruct (H f Hf) as [ps E]. rewrite E. discriminate.
  Qed.
End Parse.
