(** C12 — specification vocabulary for the predictive parser. *)
From Algo.C10 Require Export Spec.
From Algo.C12 Require Export Model.

(** [lm_derives G ps x y]: applying the productions [ps], each to the leftmost non-terminal,
    rewrites the sentential form [x] into [y] *)
Inductive lm_derives (G : gram) : list prod -> list sym -> list sym -> Prop :=
| lm_nil x : lm_derives G [] x x
| lm_cons p ps (u : list nat) v y :
    In p (prods G) ->
    lm_derives G ps (map Tm u ++ body p ++ v) y ->
    lm_derives G (p :: ps) (map Tm u ++ Nt (head p) :: v) y.

Definition word (w : list token) : list nat := map fst w.
Definition sentence (G : gram) (w : list token) : Prop := L G (word w).
