(** C12 — completeness: with a conflict-free table of a valid grammar every sentence is accepted
    (in particular the loop terminates on sentences), and the loop never dereferences a nil
    production. *)
From Coq Require Import List Arith Bool Lia.
From Algo.C10 Require Import Model Spec Sat ProofsFirst ProofsFollow ProofsTable Proofs.
From Algo.C12 Require Import Model Spec ProofsSound.
Import ListNotations.

(** * big-step derivations of terminal strings, with a size *)
Inductive gen (G : gram) : nat -> list sym -> list nat -> Prop :=
| gen_nil : gen G 0 [] []
| gen_tm n a x v : gen G n x v -> gen G (S n) (Tm a :: x) (a :: v)
| gen_nt n1 n2 p x v1 v2 :
    In p (prods G) -> gen G n1 (body p) v1 -> gen G n2 x v2 ->
    gen G (S (n1 + n2)) (Nt (head p) :: x) (v1 ++ v2).

Section Gen.
  Variable G : gram.

  Lemma gen_derives n x v : gen G n x v -> derives G x (map Tm v).
  Proof.
    induction 1 as [| n a x v _ IH | n1 n2 p x v1 v2 Hp _ IH1 _ IH2]; simpl.
    - apply derives_refl.
    - now apply derives_cons.
    - rewrite map_app. eapply derives_trans.
      + apply (derives_app G [Nt (head p)] (body p) x x); [now apply derives_prod | apply derives_refl].
      + now apply derives_app.
  Qed.

  Lemma gen_app n1 x v1 : gen G n1 x v1 -> forall n2 y v2, gen G n2 y v2 -> gen G (n1 + n2) (x ++ y) (v1 ++ v2).
  Proof.
    induction 1 as [| n a x v _ IH | m1 m2 p x w1 w2 Hp H1 _ _ IH2]; intros n2 y v2 Hy; simpl.
    - exact Hy.
    - constructor. now apply IH.
    - rewrite <- app_assoc. replace (S (m1 + m2 + n2)) with (S (m1 + (m2 + n2))) by lia.
      econstructor; eauto.
  Qed.

  Lemma gen_app_inv x : forall n y v, gen G n (x ++ y) v ->
    exists n1 n2 v1 v2, n = n1 + n2 /\ v = v1 ++ v2 /\ gen G n1 x v1 /\ gen G n2 y v2.
  Proof.
    induction x as [|s x IH]; intros n y v H; simpl in H.
    - exists 0, n, [], v. repeat split; [constructor | exact H].
    - inversion H as [| n0 a x0 v0 Hx | k1 k2 p x0 u1 u2 Hp Hb Hx]; subst.
      + destruct (IH _ _ _ Hx) as [n1 [n2 [v1 [v2 [-> [-> [H1 H2]]]]]]].
        exists (S n1), n2, (a :: v1), v2. repeat split; [now constructor | exact H2].
      + destruct (IH _ _ _ Hx) as [m1 [m2 [w1 [w2 [-> [-> [H1 H2]]]]]]].
        exists (S (k1 + m1)), m2, (u1 ++ w1), w2. rewrite app_assoc. repeat split; [lia | | exact H2].
        econstructor; eauto.
  Qed.

  Lemma gen_terminals v : gen G (length v) (map Tm v) v.
  Proof. induction v as [|a v IH]; simpl; constructor; exact IH. Qed.

  Lemma gen_step_back x y n v : step G x y -> gen G n y v -> exists m, gen G m x v.
  Proof.
    intros [u w p Hp] H.
    destruct (gen_app_inv u _ _ _ H) as [n1 [n2 [v1 [v2 [_ [-> [H1 H2]]]]]]].
    destruct (gen_app_inv (body p) _ _ _ H2) as [m1 [m2 [w1 [w2 [_ [-> [H3 H4]]]]]]].
    eexists. apply (gen_app _ _ _ H1). econstructor; eauto.
  Qed.

  Lemma derives_gen x v : derives G x (map Tm v) -> exists n, gen G n x v.
  Proof.
    intros H. apply clos_rt_rt1n in H. remember (map Tm v) as y eqn:E.
    induction H as [x | x z y Hs _ IH]; subst.
    - eexists. apply gen_terminals.
    - destruct (IH eq_refl) as [n Hn]. now apply (gen_step_back x z n v).
  Qed.
End Gen.

(** * the loop on a deterministic table *)
Section Complete.
  Variable G : gram.
  Hypothesis HV : valid G.
  Variables fi fo : list fact.
  Variable O : oracle.
  Hypothesis HO : oracle_ok G O.
  Hypothesis Ef : first_table G O = Some fi.
  Hypothesis Eo : follow_table G O fi = Some fo.
  Let M := table_build G fi fo.
  Hypothesis HD : table_deterministic M.

  Lemma cell_singleton A la p : In p (cell_prods M A la) -> cell_prods M A la = [p].
  Proof.
    intros Hp. pose proof (HD A la) as Hl. destruct (cell_prods M A la) as [|q [|r l]]; simpl in *.
    - destruct Hp.
    - destruct Hp as [->|[]]. reflexivity.
    - lia.
  Qed.

  (** the table entry that the derivation in progress asks for is there *)
  Lemma predict (u : list nat) p x n1 n2 v1 v2 :
    In p (prods G) ->
    derives G [S_ G] (map Tm u ++ Nt (head p) :: x) ->
    gen G n1 (body p) v1 -> gen G n2 x v2 ->
    forall input : list token, word input = v1 ++ v2 ->
    cell_prods M (head p) (lookahead input) = [p].
  Proof.
    intros Hp Hctx H1 H2 input Hw. apply cell_singleton. apply table_build_cell.
    split; [exact Hp|]. split; [reflexivity|]. apply select_In.
    destruct (first_table_props G O (proj1 (proj2 HO)) fi Ef) as [F1 [F2 F3]].
    destruct (follow_table_props G fi F1 F2 F3 O (proj2 (proj2 HO))) as [fo' [Eo' [Hc _]]].
    rewrite Eo in Eo'. inversion Eo'; subst fo'.
    pose proof (gen_derives G _ _ _ H1) as D1. pose proof (gen_derives G _ _ _ H2) as D2.
    destruct v1 as [|a v1]; simpl in *.
    - right. split; [now apply (nstr_complete G fi) |].
      assert (D : derives G [S_ G] (map Tm u ++ Nt (head p) :: map Tm v2)).
      { eapply derives_trans; [exact Hctx|].
        apply (derives_app G (map Tm u) (map Tm u) (Nt (head p) :: x) (Nt (head p) :: map Tm v2));
          [apply derives_refl | now apply derives_cons]. }
      destruct input as [|tk input]; destruct v2 as [|b v2]; simpl in *; try discriminate.
      + apply Hc. now exists (map Tm u).
      + inversion Hw; subst. apply Hc. simpl in D. do 2 eexists. exact D.
    - left. destruct input as [|tk input]; simpl in Hw; [discriminate|]. inversion Hw; subst.
      exists (fst tk). split; [reflexivity|]. apply (fstr_complete G fi); [exact F2|].
      now exists (map Tm v1).
  Qed.

  Context {St : Type} (tokF : St -> token -> St) (prodF : St -> prod -> St).

  Lemma parse_loop_complete : forall n stack (u : list nat) input s fuel,
    gen G n stack (word input) ->
    derives G [S_ G] (map Tm u ++ stack) ->
    n < fuel ->
    exists s', parse_loop tokF prodF M fuel stack input s = PAccept s'.
  Proof.
    induction n as [n IH] using lt_wf_ind. intros stack u input s fuel Hg Hctx Hf.
    destruct fuel as [|f]; [lia|]. simpl.
    inversion Hg as [Ea Eb Ec | n0 a x0 v0 Hx Ea Eb Ec | k1 k2 p x0 u1 u2 Hp Hb Hx Ea Eb Ec]; subst.
    - destruct input; [|discriminate]. eauto.
    - destruct input as [|tk input]; [discriminate|]. simpl in Ec. inversion Ec; subst.
      rewrite Nat.eqb_refl. apply (IH n0) with (u := u ++ [fst tk]); [lia | exact Hx | | lia].
      now rewrite map_Tm_snoc.
    - pose proof (predict u p x0 k1 k2 u1 u2 Hp Hctx Hb Hx input (eq_sym Ec)) as Hcell.
      unfold is_empty, get_production. rewrite Hcell. simpl.
      apply (IH (k1 + k2)) with (u := u); [lia | | | lia].
      + rewrite <- Ec. now apply gen_app.
      + eapply derives_trans; [exact Hctx|]. apply derives_step. now constructor.
  Qed.

  (** a non-empty cell of a deterministic table always yields its production *)
  Lemma parse_loop_no_panic fuel : forall stack input s,
    parse_loop tokF prodF M fuel stack input s <> PPanic.
  Proof.
    induction fuel as [|f IH]; intros stack input s; simpl; [discriminate|].
    destruct stack as [|[a|A] stack].
    - destruct input; discriminate.
    - destruct input as [|tk input]; [discriminate|]. destruct (a =? fst tk); [apply IH | discriminate].
    - unfold is_empty, get_production. pose proof (HD A (lookahead input)) as Hl.
      destruct (cell_prods M A (lookahead input)) as [|q [|r l]]; simpl in *; [discriminate | apply IH | lia].
  Qed.
End Complete.
