(** C12 — executable model of parser/predictive/predictive.go (as it is after the fix of D12:
    when the endmarker is on top of the stack the current token must be the endmarker too).

    - A token is [(terminal, lexeme)]; the lexer is the token list, end of input = endmarker
      lookahead [None].
    - The stack holds grammar symbols; the bottom endmarker is the empty list, so
      [for X != $] is "while the stack is non-empty".
    - [Parse] takes the two callbacks of the Go method ([TokenFunc], [ProductionFunc]) as
      functions on a state; the loop runs on fuel, exhaustion is the result [PHang].
    - [ParseAndBuildAST] fills nodes that were created (and linked into their parent) when the
      parent's production was applied.  The functional counterpart of that in-place construction:
      the pending (still unfilled) nodes, left to right, are exactly the node stack, and a
      continuation maps the finished subtrees of the pending nodes to the finished root.
    No proofs here. *)
From Algo.C10 Require Export Model.

Definition token := (nat * nat)%type.   (* terminal, lexeme *)

Inductive perr := EUnexpectedTerminal | EUnacceptable | EExtraInput.

Inductive pres (St : Type) :=
| PAccept (s : St)
| PReject (e : perr) (s : St)
| PTableError           (* BuildParsingTable returned a conflict error *)
| PPanic                (* nil production: a non-empty cell with more than one production *)
| PHang.
Arguments PAccept {St} s.
Arguments PReject {St} e s.
Arguments PTableError {St}.
Arguments PPanic {St}.
Arguments PHang {St}.

Definition lookahead (input : list token) : option nat :=
  match input with [] => None | tk :: _ => Some (fst tk) end.

Section Loop.
  Context {St : Type} (tokF : St -> token -> St) (prodF : St -> prod -> St) (M : table).

  Fixpoint parse_loop (fuel : nat) (stack : list sym) (input : list token) (s : St) : pres St :=
    match fuel with
    | O => PHang
    | S f =>
        match stack with
        | [] =>
            (* X = $: leave the loop; accept only when the input is exhausted as well *)
            match input with [] => PAccept s | _ :: _ => PReject EExtraInput s end
        | Tm a :: stack' =>
            match input with
            | tk :: input' =>
                if a =? fst tk then parse_loop f stack' input' (tokF s tk)
                else PReject EUnexpectedTerminal s
            | [] => PReject EUnexpectedTerminal s
            end
        | Nt A :: stack' =>
            let la := lookahead input in
            if is_empty M A la then PReject EUnacceptable s
            else match get_production M A la with
                 | Some p => parse_loop f (body p ++ stack') input (prodF s p)
                 | None => PPanic
                 end
        end
    end.
End Loop.

(** Parse(tokenF, prodF): build the table ([bt] is the result of [BuildParsingTable], passed in so
    that a caller can share it between runs), then run the loop *)
Definition parse_with {St : Type} (tokF : St -> token -> St) (prodF : St -> prod -> St)
           (bt : option (table * bool)) (S : nat) (fuel : nat) (w : list token) (s0 : St) : pres St :=
  match bt with
  | None => PHang
  | Some (_, true) => PTableError
  | Some (M, false) => parse_loop tokF prodF M fuel [Nt S] w s0
  end.

(** the production callback sequence *)
Definition Parse_bt (bt : option (table * bool)) (S : nat) (fuel : nat) (w : list token)
  : pres (list prod) :=
  match parse_with (fun s _ => s) (fun s p => p :: s) bt S fuel w [] with
  | PAccept s => PAccept (rev_append s [])      (* linear-time reversal of the recorded sequence *)
  | PReject e s => PReject e (rev_append s [])
  | PTableError => PTableError
  | PPanic => PPanic
  | PHang => PHang
  end.

Definition Parse (G : gram) (O : oracle) (fuel : nat) (w : list token) : pres (list prod) :=
  Parse_bt (BuildParsingTable G O) (start G) fuel w.

(** * ParseAndBuildAST *)
Inductive tree := Leaf (a : nat) (lexeme : nat) | Node (A : nat) (p : prod) (ch : list tree).

Record ast_state := mkAst {
  a_pending : list sym;                       (* the node stack, top first *)
  a_root : list tree -> option tree;          (* finished pending subtrees ↦ finished root *)
  a_bad : bool }.                             (* a callback popped a node of the wrong kind *)

Definition ast_init (S : nat) : ast_state :=
  mkAst [Nt S] (fun ts => match ts with [t] => Some t | _ => None end) false.

Definition ast_token (s : ast_state) (tk : token) : ast_state :=
  match a_pending s with
  | Tm a :: rest => mkAst rest (fun ts => a_root s (Leaf a (snd tk) :: ts)) (a_bad s)
  | _ => mkAst (a_pending s) (a_root s) true
  end.

Definition ast_prod (s : ast_state) (p : prod) : ast_state :=
  match a_pending s with
  | Nt A :: rest =>
      let n := length (body p) in
      mkAst (body p ++ rest) (fun ts => a_root s (Node A p (firstn n ts) :: skipn n ts)) (a_bad s)
  | _ => mkAst (a_pending s) (a_root s) true
  end.

Definition ParseAndBuildAST_bt (bt : option (table * bool)) (S : nat) (fuel : nat) (w : list token)
  : pres (option tree) :=
  match parse_with ast_token ast_prod bt S fuel w (ast_init S) with
  | PAccept s => if a_bad s then PPanic else PAccept (a_root s [])
  | PReject e s => PReject e None
  | PTableError => PTableError
  | PPanic => PPanic
  | PHang => PHang
  end.

Definition ParseAndBuildAST (G : gram) (O : oracle) (fuel : nat) (w : list token) : pres (option tree) :=
  ParseAndBuildAST_bt (BuildParsingTable G O) (start G) fuel w.

Fixpoint yield (t : tree) : list token :=
  match t with
  | Leaf a l => [(a, l)]
  | Node _ _ ch => flat_map yield ch
  end.
