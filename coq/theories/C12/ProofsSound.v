(** C12 — soundness of the predictive parser's stack loop (every grammar, every table built by
    [BuildParsingTable]), the emitted productions as a leftmost derivation, the AST yield, and
    fuel monotonicity. *)
From Coq Require Import List Arith Bool Lia.
From Algo.C10 Require Import Model Spec Sat ProofsFirst ProofsFollow ProofsTable Proofs.
From Algo.C12 Require Import Model Spec.
Import ListNotations.

(** * leftmost derivations are derivations *)
Lemma lm_derives_derives G ps x y : lm_derives G ps x y -> derives G x y.
Proof.
  induction 1 as [x | p ps u v y Hp _ IH]; [apply derives_refl|].
  eapply derives_trans; [|exact IH]. apply derives_step. now constructor.
Qed.

(** * what the loop needs from the table *)
Definition table_sound (G : gram) (M : table) : Prop :=
  forall A la p, get_production M A la = Some p -> In p (prods G) /\ head p = A.

Lemma get_production_In M A la p : get_production M A la = Some p -> In p (cell_prods M A la).
Proof.
  unfold get_production. destruct (cell_prods M A la) as [|q [|r l]]; try discriminate.
  intros H; inversion H; now left.
Qed.

Lemma built_table_sound G O M c : oracle_ok G O -> BuildParsingTable G O = Some (M, c) -> table_sound G M.
Proof.
  intros HO. destruct (analyse_total G O HO) as [nu [fi [fo [_ [_ [_ Ea]]]]]].
  unfold BuildParsingTable. rewrite Ea. simpl. intros H; inversion H; subst.
  intros A la p Hp. apply get_production_In, table_build_cell in Hp. tauto.
Qed.

Lemma map_Tm_snoc (u : list nat) a (x : list sym) : map Tm (u ++ [a]) ++ x = map Tm u ++ Tm a :: x.
Proof. rewrite map_app, <- app_assoc. reflexivity. Qed.

Section Sound.
  Variable G : gram.
  Variable M : table.
  Hypothesis HM : table_sound G M.

  Let tokF := fun (s : list prod) (_ : token) => s.
  Let prodF := fun (s : list prod) (p : prod) => p :: s.

  (** ** the production sequence *)
  Lemma parse_loop_sound fuel : forall stack input out out' (u : list nat),
    parse_loop tokF prodF M fuel stack input out = PAccept out' ->
    exists ps, out' = rev ps ++ out /\
               lm_derives G ps (map Tm u ++ stack) (map Tm (u ++ word input)).
  Proof.
    induction fuel as [|f IH]; intros stack input out out' u H; simpl in H; [discriminate|].
    destruct stack as [|[a|A] stack].
    - destruct input; [|discriminate]. inversion H; subst. exists []. split; [reflexivity|].
      simpl. rewrite !app_nil_r. constructor.
    - destruct input as [|tk input]; [discriminate|].
      destruct (a =? fst tk) eqn:E; [|discriminate]. apply Nat.eqb_eq in E.
      destruct (IH _ _ _ _ (u ++ [a]) H) as [ps [E1 D]]. exists ps. split; [exact E1|].
      rewrite map_Tm_snoc in D. unfold word in *. simpl. rewrite <- E.
      now rewrite <- app_assoc in D.
    - destruct (is_empty M A (lookahead input)); [discriminate|].
      destruct (get_production M A (lookahead input)) as [p|] eqn:Ep; [|discriminate].
      destruct (HM _ _ _ Ep) as [Hp Eh]. subst A.
      destruct (IH _ _ _ _ u H) as [ps [E1 D]]. exists (p :: ps). split.
      + rewrite E1. unfold prodF. simpl. now rewrite <- app_assoc.
      + now constructor.
  Qed.

  (** ** the AST *)
  Definition ast_inv (s : ast_state) (stack : list sym) (consumed : list token) : Prop :=
    a_bad s = false /\ a_pending s = stack /\
    forall ts, length ts = length stack ->
               exists t, a_root s ts = Some t /\ yield t = consumed ++ flat_map yield ts.

  Lemma ast_loop_sound fuel : forall stack input s s' consumed,
    ast_inv s stack consumed ->
    parse_loop ast_token ast_prod M fuel stack input s = PAccept s' ->
    a_bad s' = false /\ exists t, a_root s' [] = Some t /\ yield t = consumed ++ input.
  Proof.
    induction fuel as [|f IH]; intros stack input s s' consumed [Hb [Hp Hr]] H; simpl in H; [discriminate|].
    destruct stack as [|[a|A] stack].
    - destruct input; [|discriminate]. inversion H; subst s'. split; [exact Hb|].
      destruct (Hr [] eq_refl) as [t [E Y]]. exists t. split; [exact E|]. simpl in Y. exact Y.
    - destruct input as [|tk input]; [discriminate|].
      destruct (a =? fst tk) eqn:E; [|discriminate]. apply Nat.eqb_eq in E.
      apply (IH stack input (ast_token s tk) s' (consumed ++ [tk])) in H.
      + now rewrite <- app_assoc in H.
      + unfold ast_token. rewrite Hp. repeat split; simpl; [exact Hb|].
        intros ts Hl. destruct (Hr (Leaf a (snd tk) :: ts)) as [t [E1 Y]]; [simpl; now rewrite Hl|].
        exists t. split; [exact E1|]. rewrite Y. simpl. rewrite <- app_assoc. simpl.
        destruct tk as [b l]; simpl in *; now subst.
    - destruct (is_empty M A (lookahead input)); [discriminate|].
      destruct (get_production M A (lookahead input)) as [p|] eqn:Ep; [|discriminate].
      apply (IH (body p ++ stack) input (ast_prod s p) s' consumed) in H; [exact H|].
      unfold ast_prod. rewrite Hp. repeat split; simpl; [exact Hb|].
      intros ts Hl. rewrite app_length in Hl.
      destruct (Hr (Node A p (firstn (length (body p)) ts) :: skipn (length (body p)) ts)) as [t [E1 Y]].
      { simpl. rewrite skipn_length. unfold sym, sentential in *. lia. }
      exists t. split; [exact E1|]. rewrite Y. simpl.
      rewrite <- flat_map_app, firstn_skipn. reflexivity.
  Qed.

  Lemma ast_init_inv : ast_inv (ast_init (start G)) [Nt (start G)] [].
  Proof.
    repeat split. intros ts Hl. destruct ts as [|t [|t' ts]]; simpl in Hl; try discriminate.
    exists t. split; [reflexivity|]. simpl. now rewrite app_nil_r.
  Qed.
End Sound.

(** * the verdict does not depend on the callbacks *)
Definition same_verdict {A B} (r1 : pres A) (r2 : pres B) : Prop :=
  match r1, r2 with
  | PAccept _, PAccept _ => True
  | PReject e1 _, PReject e2 _ => e1 = e2
  | PTableError, PTableError => True
  | PPanic, PPanic => True
  | PHang, PHang => True
  | _, _ => False
  end.

Lemma parse_loop_verdict {A B} (tA : A -> token -> A) (pA : A -> prod -> A)
      (tB : B -> token -> B) (pB : B -> prod -> B) M fuel :
  forall stack input a b,
    same_verdict (parse_loop tA pA M fuel stack input a) (parse_loop tB pB M fuel stack input b).
Proof.
  induction fuel as [|f IH]; intros stack input a b; simpl; [exact I|].
  destruct stack as [|[c|C] stack].
  - destruct input; simpl; auto.
  - destruct input as [|tk input]; simpl; auto. destruct (c =? fst tk); simpl; auto.
  - destruct (is_empty M C (lookahead input)); simpl; auto.
    destruct (get_production M C (lookahead input)); simpl; auto.
Qed.

(** * more fuel never changes a finished run *)
Lemma parse_loop_fuel_mono {A} (tA : A -> token -> A) (pA : A -> prod -> A) M fuel :
  forall stack input a k,
    parse_loop tA pA M fuel stack input a <> PHang ->
    parse_loop tA pA M (fuel + k) stack input a = parse_loop tA pA M fuel stack input a.
Proof.
  induction fuel as [|f IH]; intros stack input a k H; simpl in *; [congruence|].
  destruct stack as [|[c|C] stack]; auto.
  - destruct input as [|tk input]; auto. destruct (c =? fst tk); auto.
  - destruct (is_empty M C (lookahead input)); auto.
    destruct (get_production M C (lookahead input)); auto.
Qed.
