(** C20 — generic theorems about interleavings (no reference to Go).

    [disjoint_no_race_seq_equiv]: if every thread's write footprint is disjoint from every other
    thread's read∪write footprint, no interleaving contains a data race and every interleaving
    gives each thread the outputs and the final contents of its footprint of the sequential run.
    [shared_write_races]: two threads that access a common location, one of them writing it, with
    nothing ordering the accesses, have an execution that reaches a data race. *)
From Coq Require Import List Arith Lia Bool.
From Algo.C20 Require Import Model.
Import ListNotations.

Section Interleave.
  Variables Loc Val Out : Type.
  Hypothesis Loc_eq_dec : forall x y : Loc, {x = y} + {x <> y}.

  Notation action := (action Loc Val Out).
  Notation event := (event Loc Val Out).
  Notation thread := (thread Loc Val Out).
  Notation cfg := (cfg Loc Val Out).
  Notation store := (store Loc Val).

  (** * Lists with one updated position *)

  Lemma nth_upd_eq : forall {A} (l : list A) i x y,
      nth_error l i = Some y -> nth_error (upd l i x) i = Some x.
  Proof.
    induction l as [|h t IH]; intros [|i] x y H; simpl in *; try discriminate; eauto.
  Qed.

  Lemma nth_upd_neq : forall {A} (l : list A) i j x,
      i <> j -> nth_error (upd l i x) j = nth_error l j.
  Proof.
    induction l as [|h t IH]; intros [|i] [|j] x H; simpl; try reflexivity.
    - congruence.
    - apply IH. congruence.
  Qed.

  Lemma upd_same : forall {A} (l : list A) i x, nth_error l i = Some x -> upd l i x = l.
  Proof.
    induction l as [|h t IH]; intros [|i] x H; simpl in *; try discriminate.
    - congruence.
    - f_equal. auto.
  Qed.

  Lemma upd_upd : forall {A} (l : list A) i x y, upd (upd l i x) i y = upd l i y.
  Proof.
    induction l as [|h t IH]; intros [|i] x y; simpl; try reflexivity. f_equal. apply IH.
  Qed.

  Lemma nth_init : forall (ts : list thread) i t L,
      nth_error (init ts) i = Some (t, L) -> nth_error ts i = Some t /\ L = [].
  Proof.
    induction ts as [|h ts IH]; intros [|i] t L H; simpl in *; try discriminate.
    - inversion H; subst. auto.
    - apply IH. exact H.
  Qed.

  Lemma nth_init_some : forall (ts : list thread) i t,
      nth_error ts i = Some t -> nth_error (init ts) i = Some (t, []).
  Proof.
    induction ts as [|h ts IH]; intros [|i] t H; simpl in *; try discriminate.
    - congruence.
    - auto.
  Qed.

  (** * Steps *)

  Lemma step_inv : forall (c c' : cfg) k e,
      step c (k, e) c' ->
      exists t L L', nth_error c k = Some (e :: t, L) /\ c' = upd c k (t, L').
  Proof.
    intros c c' k e H. inversion H; subst; eauto.
  Qed.

  Lemma steps_app : forall (c c1 c2 : cfg) tr1 tr2,
      steps c tr1 c1 -> steps c1 tr2 c2 -> steps c (tr1 ++ tr2) c2.
  Proof.
    intros c c1 c2 tr1 tr2 H. induction H; intros H2; simpl; auto.
    econstructor; eauto.
  Qed.

  (** what remains of a thread is a suffix of the original thread *)
  Lemma steps_suffix : forall (c c' : cfg) tr,
      steps c tr c' ->
      forall i t' L', nth_error c' i = Some (t', L') ->
      exists t L p, nth_error c i = Some (t, L) /\ t = p ++ t'.
  Proof.
    intros c c' tr H. induction H as [c | c [k e] c1 tr c2 Hs Hss IH]; intros i t' L' Hn.
    - exists t', L', []. auto.
    - destruct (IH _ _ _ Hn) as (t1 & L1 & p & Hn1 & Heq).
      destruct (step_inv _ _ _ _ Hs) as (t0 & L0 & L0' & Hk & Hc1). subst c1.
      destruct (Nat.eq_dec k i) as [->|Hne].
      + rewrite (nth_upd_eq _ _ _ _ Hk) in Hn1. inversion Hn1; subst.
        exists (e :: p ++ t'), L0, (e :: p). auto.
      + rewrite (nth_upd_neq _ _ _ _ Hne) in Hn1. eauto.
  Qed.

  (** the events a thread performed, followed by what remains, are the thread *)
  Lemma steps_proj : forall (c c' : cfg) tr,
      steps c tr c' ->
      forall i t L, nth_error c i = Some (t, L) ->
      exists t' L', nth_error c' i = Some (t', L') /\ t = proj i tr ++ t'.
  Proof.
    intros c c' tr H. induction H as [c | c [k e] c1 tr c2 Hs Hss IH]; intros i t L Hn.
    - exists t, L. auto.
    - destruct (step_inv _ _ _ _ Hs) as (t0 & L0 & L0' & Hk & Hc1). subst c1.
      unfold proj. simpl. destruct (Nat.eqb_spec k i) as [->|Hne].
      + rewrite Hk in Hn. inversion Hn; subst.
        destruct (IH i t0 L0' (nth_upd_eq _ _ _ _ Hk)) as (t' & L' & Hn' & Heq).
        exists t', L'. split; auto. simpl. f_equal. exact Heq.
      + apply (IH i t L). rewrite (nth_upd_neq _ _ _ _ Hne). exact Hn.
  Qed.

  (** an event of the trace belongs to the thread that performed it *)
  Lemma steps_event : forall (c c' : cfg) tr,
      steps c tr c' ->
      forall j e, In (j, e) tr -> exists t L, nth_error c j = Some (t, L) /\ In e t.
  Proof.
    intros c c' tr H. induction H as [c | c [k e0] c1 tr c2 Hs Hss IH]; intros j e Hin.
    - inversion Hin.
    - destruct (step_inv _ _ _ _ Hs) as (t0 & L0 & L0' & Hk & Hc1). subst c1.
      destruct Hin as [Heq | Hin].
      + inversion Heq; subst. exists (e :: t0), L0. split; auto. left; auto.
      + destruct (IH _ _ Hin) as (t1 & L1 & Hn1 & He).
        destruct (Nat.eq_dec k j) as [->|Hne].
        * rewrite (nth_upd_eq _ _ _ _ Hk) in Hn1. inversion Hn1; subst.
          exists (e0 :: t1), L0. split; auto. right; auto.
        * rewrite (nth_upd_neq _ _ _ _ Hne) in Hn1. eauto.
  Qed.

  (** * Simulation of one thread, relative to a set [R] of locations

      [Rdet a]: on [R], the action is a function of [R].  [Rframe b]: the action leaves [R] alone. *)
  Section Sim.
    Variable R : Loc -> Prop.

    Definition Rdet (a : action) : Prop :=
      forall s s', agree R s s' ->
        snd (sem a s) = snd (sem a s') /\ agree R (fst (sem a s)) (fst (sem a s')).

    Definition Rframe (b : action) : Prop := forall s, agree R (fst (sem b s)) s.

    Lemma agree_trans : forall s1 s2 s3 : store, agree R s1 s2 -> agree R s2 s3 -> agree R s1 s3.
    Proof. intros s1 s2 s3 H1 H2 l Hl. rewrite (H1 l Hl). auto. Qed.

    Lemma agree_sym : forall s1 s2 : store, agree R s1 s2 -> agree R s2 s1.
    Proof. intros s1 s2 H l Hl. symmetry. auto. Qed.

    Lemma agree_refl : forall s : store, agree R s s.
    Proof. intros s l _. reflexivity. Qed.

    Lemma sim_trace : forall i (tr : list (nat * event)) (s1 s2 : store),
        (forall a, In (i, Act a) tr -> Rdet a) ->
        (forall j b, In (j, Act b) tr -> j <> i -> Rframe b) ->
        agree R s1 s2 ->
        outs_of i (snd (exec tr s1)) = snd (run (proj i tr) s2) /\
        agree R (fst (exec tr s1)) (fst (run (proj i tr) s2)).
    Proof.
      intros i tr. induction tr as [|[j e] tr IH]; intros s1 s2 Hd Hf Hag.
      - simpl. split; auto.
      - assert (Hd' : forall a, In (i, Act a) tr -> Rdet a) by (intros; apply Hd; right; auto).
        assert (Hf' : forall k b, In (k, Act b) tr -> k <> i -> Rframe b)
          by (intros k b Hin Hne; apply (Hf k b); [right; auto | auto]).
        unfold proj, outs_of in *. destruct e as [a | m | m]; simpl.
        + destruct (Nat.eqb_spec j i) as [->|Hne]; simpl.
          * destruct (Hd a (or_introl eq_refl) s1 s2 Hag) as [Ho Hag'].
            destruct (IH _ _ Hd' Hf' Hag') as [IH1 IH2].
            split; [f_equal; auto | auto].
          * assert (Hag' : agree R (fst (sem a s1)) s2).
            { eapply agree_trans; [apply (Hf j a (or_introl eq_refl) Hne) | exact Hag]. }
            destruct (IH _ _ Hd' Hf' Hag') as [IH1 IH2].
            auto.
        + destruct (Nat.eqb_spec j i); simpl; apply IH; auto.
        + destruct (Nat.eqb_spec j i); simpl; apply IH; auto.
    Qed.

    Lemma run_det : forall (t : thread) (s1 s2 : store),
        (forall a, In (Act a) t -> Rdet a) -> agree R s1 s2 ->
        snd (run t s1) = snd (run t s2) /\ agree R (fst (run t s1)) (fst (run t s2)).
    Proof.
      induction t as [|e t IH]; intros s1 s2 Hd Hag; simpl.
      - auto.
      - assert (Hd' : forall a, In (Act a) t -> Rdet a) by (intros; apply Hd; right; auto).
        destruct e as [a | m | m]; simpl; auto.
        destruct (Hd a (or_introl eq_refl) s1 s2 Hag) as [Ho Hag'].
        destruct (IH _ _ Hd' Hag') as [IH1 IH2]. split; [f_equal; auto | auto].
    Qed.

    Lemma run_frame : forall (t : thread) (s : store),
        (forall b, In (Act b) t -> Rframe b) -> agree R (fst (run t s)) s.
    Proof.
      induction t as [|e t IH]; intros s Hf; simpl.
      - apply agree_refl.
      - assert (Hf' : forall b, In (Act b) t -> Rframe b) by (intros; apply Hf; right; auto).
        destruct e as [a | m | m]; simpl; auto.
        eapply agree_trans; [apply IH; auto | apply Hf; left; auto].
    Qed.

    Lemma seq_frame : forall (ts : list thread) (s : store),
        (forall t, In t ts -> forall b, In (Act b) t -> Rframe b) ->
        agree R (fst (seq_run ts s)) s.
    Proof.
      induction ts as [|t ts IH]; intros s Hf; simpl.
      - apply agree_refl.
      - eapply agree_trans.
        + apply IH. intros t' Hin. apply Hf. right; auto.
        + apply run_frame. apply Hf. left; auto.
    Qed.

    Lemma sim_seq : forall (ts : list thread) i ti (s : store),
        nth_error ts i = Some ti ->
        (forall a, In (Act a) ti -> Rdet a) ->
        (forall j tj, j <> i -> nth_error ts j = Some tj -> forall b, In (Act b) tj -> Rframe b) ->
        nth i (snd (seq_run ts s)) [] = snd (run ti s) /\
        agree R (fst (seq_run ts s)) (fst (run ti s)).
    Proof.
      induction ts as [|t ts IH]; intros [|i] ti s Hn Hd Hf; simpl in *; try discriminate.
      - inversion Hn; subst. split; auto.
        apply seq_frame. intros t' Hin b Hb.
        destruct (In_nth_error _ _ Hin) as [k Hk].
        apply (Hf (S k) t'); auto.
      - assert (Hft : forall b, In (Act b) t -> Rframe b) by (apply (Hf 0 t); auto).
        assert (Hf' : forall j tj, j <> i -> nth_error ts j = Some tj ->
                                   forall b, In (Act b) tj -> Rframe b).
        { intros j tj Hne Hj. apply (Hf (S j) tj); auto. }
        destruct (IH i ti (fst (run t s)) Hn Hd Hf') as [IH1 IH2].
        destruct (run_det ti (fst (run t s)) s Hd (run_frame t s Hft)) as [Ho Hag].
        split.
        + rewrite IH1. exact Ho.
        + eapply agree_trans; eauto.
    Qed.
  End Sim.

  (** * Footprints give [Rdet] and [Rframe] *)

  Lemma respects_Rdet : forall (R : Loc -> Prop) (a : action),
      respects a -> (forall l, In l (rd a) -> R l) -> Rdet R a.
  Proof.
    intros R a [Hfr Hdet] Hrd s s' Hag.
    destruct (Hdet s s') as [Ho Hw].
    { intros l Hl. apply Hag. auto. }
    split; auto. intros l Hl.
    destruct (in_dec Loc_eq_dec l (wr a)) as [Hin | Hnin].
    - auto.
    - rewrite (Hfr s l Hnin), (Hfr s' l Hnin). auto.
  Qed.

  Lemma respects_Rframe : forall (R : Loc -> Prop) (b : action),
      respects b -> (forall l, In l (wr b) -> ~ R l) -> Rframe R b.
  Proof.
    intros R b [Hfr _] Hw s l Hl. apply Hfr. intros Hin. exact (Hw l Hin Hl).
  Qed.

  (** * Theorem 1: disjoint footprints *)

  Definition all_respect (ts : list thread) : Prop :=
    forall t, In t ts -> forall a, In (Act a) t -> respects a.

  Definition disjoint_footprints (ts : list thread) : Prop :=
    forall i j ti tj, i <> j -> nth_error ts i = Some ti -> nth_error ts j = Some tj ->
      forall l, writes ti l -> ~ accesses tj l.

  Lemma reachable_member : forall (ts : list thread) pre (c : cfg) i e t L,
      steps (init ts) pre c -> nth_error c i = Some (e :: t, L) ->
      exists ti, nth_error ts i = Some ti /\ In e ti.
  Proof.
    intros ts pre c i e t L Hs Hn.
    destruct (steps_suffix _ _ _ Hs _ _ _ Hn) as (t0 & L0 & p & Hn0 & Heq).
    apply nth_init in Hn0. destruct Hn0 as [Hn0 _].
    exists t0. split; auto. subst t0. apply in_or_app. right. left. auto.
  Qed.

  Lemma disjoint_no_race : forall ts,
      disjoint_footprints ts -> forall tr, ~ has_race ts tr.
  Proof.
    intros ts Hdis tr (pre & post & c & _ & Hs & Hr).
    destruct Hr as (i & j & a & b & ti & tj & Li & Lj & Hne & Hi & Hj & l & Hc).
    destruct (reachable_member _ _ _ _ _ _ _ Hs Hi) as (ti0 & Hti & Hia).
    destruct (reachable_member _ _ _ _ _ _ _ Hs Hj) as (tj0 & Htj & Hjb).
    destruct Hc as [[Hw Hacc] | [Hw Hacc]].
    - apply (Hdis i j ti0 tj0 Hne Hti Htj l); [exists a | exists b]; auto.
    - apply (Hdis j i tj0 ti0 (not_eq_sym Hne) Htj Hti l); [exists b | exists a]; auto.
  Qed.

  Theorem disjoint_no_race_seq_equiv : forall ts,
      all_respect ts -> disjoint_footprints ts ->
      forall tr, interleaving ts tr ->
        ~ has_race ts tr /\
        forall (s : store) i ti, nth_error ts i = Some ti ->
          outs_of i (snd (exec tr s)) = nth i (snd (seq_run ts s)) [] /\
          forall l, accesses ti l -> fst (exec tr s) l = fst (seq_run ts s) l.
  Proof.
    intros ts Hresp Hdis tr (c & Hs & Hfin). split.
    - apply disjoint_no_race; auto.
    - intros s i ti Hti.
      set (R := accesses ti).
      assert (Hmem : forall j e, In (j, e) tr -> exists tj, nth_error ts j = Some tj /\ In e tj).
      { intros j e Hin. destruct (steps_event _ _ _ Hs _ _ Hin) as (t & L & Hn & He).
        apply nth_init in Hn. destruct Hn as [Hn _]. eauto. }
      assert (Hdet : forall a, In (Act a) ti -> Rdet R a).
      { intros a Ha. apply respects_Rdet.
        - apply (Hresp ti); auto. eapply nth_error_In; eauto.
        - intros l Hl. exists a. split; auto. apply in_or_app. auto. }
      assert (Hfr : forall j tj, j <> i -> nth_error ts j = Some tj ->
                                 forall b, In (Act b) tj -> Rframe R b).
      { intros j tj Hne Htj b Hb. apply respects_Rframe.
        - apply (Hresp tj); auto. eapply nth_error_In; eauto.
        - intros l Hl. apply (Hdis j i tj ti Hne Htj Hti l). exists b. auto. }
      assert (Hproj : proj i tr = ti).
      { destruct (steps_proj _ _ _ Hs i ti [] (nth_init_some _ _ _ Hti)) as (t' & L' & Hn' & Heq).
        rewrite (Hfin _ _ _ Hn'), app_nil_r in Heq. auto. }
      destruct (sim_trace R i tr s s) as [Ho Hag].
      { intros a Hin. destruct (Hmem _ _ Hin) as (tj & Htj & He).
        rewrite Hti in Htj. inversion Htj; subst. auto. }
      { intros j b Hin Hne. destruct (Hmem _ _ Hin) as (tj & Htj & He). eapply Hfr; eauto. }
      { apply agree_refl. }
      rewrite Hproj in Ho, Hag.
      destruct (sim_seq R ts i ti s Hti Hdet Hfr) as [Ho' Hag'].
      split.
      + rewrite Ho, Ho'. reflexivity.
      + intros l Hl. rewrite (Hag l Hl), (Hag' l Hl). reflexivity.
  Qed.

  (** * Theorem 2: unordered conflicting accesses race *)

  Lemma run_prefix_steps : forall (p : thread) (c : cfg) i t L,
      lock_free p -> nth_error c i = Some (p ++ t, L) ->
      steps c (map (pair i) p) (upd c i (t, L)).
  Proof.
    induction p as [|e p IH]; intros c i t L Hlf Hn; simpl in *.
    - rewrite (upd_same _ _ _ Hn). constructor.
    - destruct (Hlf e (or_introl eq_refl)) as [a ->].
      econstructor.
      + apply st_act. exact Hn.
      + rewrite <- (upd_upd c i (p ++ t, L) (t, L)).
        apply IH.
        * intros e' He'. apply Hlf. right; auto.
        * eapply nth_upd_eq; eauto.
  Qed.

  Lemma lock_free_app_l : forall (p q : thread), lock_free (p ++ q) -> lock_free p.
  Proof. intros p q H e He. apply H. apply in_or_app. auto. Qed.

  Theorem shared_write_races : forall ts i j ti tj a b,
      i <> j -> nth_error ts i = Some ti -> nth_error ts j = Some tj ->
      lock_free ti -> lock_free tj ->
      In (Act a) ti -> In (Act b) tj -> conflict a b ->
      exists pre (c : cfg), steps (init ts) pre c /\ racy c.
  Proof.
    intros ts i j ti tj a b Hne Hti Htj Hli Hlj Ha Hb Hconf.
    destruct (in_split _ _ Ha) as (pa & qa & ->).
    destruct (in_split _ _ Hb) as (pb & qb & ->).
    pose proof (run_prefix_steps pa (init ts) i (Act a :: qa) [] (lock_free_app_l _ _ Hli)
                                 (nth_init_some _ _ _ Hti)) as S1.
    set (c1 := upd (init ts) i (Act a :: qa, [])) in *.
    assert (Hj1 : nth_error c1 j = Some (pb ++ Act b :: qb, [])).
    { unfold c1. rewrite (nth_upd_neq _ _ _ _ Hne). apply nth_init_some. auto. }
    pose proof (run_prefix_steps pb c1 j (Act b :: qb) [] (lock_free_app_l _ _ Hlj) Hj1) as S2.
    exists (map (pair i) pa ++ map (pair j) pb), (upd c1 j (Act b :: qb, [])).
    split.
    - eapply steps_app; eauto.
    - exists i, j, a, b, qa, qb, [], []. repeat split; auto.
      + rewrite (nth_upd_neq _ _ _ _ (not_eq_sym Hne)). unfold c1.
        eapply nth_upd_eq. apply nth_init_some. eauto.
      + eapply nth_upd_eq. eauto.
  Qed.

  (** ... and when no thread uses locks, that execution extends to a complete interleaving. *)

  Lemma finished_or_head : forall c : cfg,
      finished c \/ exists i e t L, nth_error c i = Some (e :: t, L).
  Proof.
    induction c as [|[t L] c IH].
    - left. intros [|i] t L H; discriminate.
    - destruct t as [|e t].
      + destruct IH as [Hf | (i & e & t & L' & Hn)].
        * left. intros [|i] t' L' H; simpl in H.
          -- inversion H; auto.
          -- eapply Hf; eauto.
        * right. exists (S i), e, t, L'. auto.
      + right. exists 0, e, t, L. auto.
  Qed.

  Fixpoint size (c : cfg) : nat :=
    match c with [] => 0 | (t, _) :: c' => length t + size c' end.

  Lemma size_upd : forall (c : cfg) i e t L L',
      nth_error c i = Some (e :: t, L) -> S (size (upd c i (t, L'))) = size c.
  Proof.
    induction c as [|[t0 L0] c IH]; intros [|i] e t L L' H; simpl in *; try discriminate.
    - inversion H; subst. simpl. lia.
    - rewrite <- (IH i e t L L' H). lia.
  Qed.

  Definition cfg_lock_free (c : cfg) : Prop :=
    forall i t L, nth_error c i = Some (t, L) -> lock_free t.

  Lemma lock_free_complete : forall n (c : cfg),
      size c = n -> cfg_lock_free c -> exists tr c', steps c tr c' /\ finished c'.
  Proof.
    induction n as [|n IH]; intros c Hsz Hlf.
    - destruct (finished_or_head c) as [Hf | (i & e & t & L & Hn)].
      + exists [], c. split; [constructor | auto].
      + pose proof (size_upd c i e t L L Hn). lia.
    - destruct (finished_or_head c) as [Hf | (i & e & t & L & Hn)].
      + exists [], c. split; [constructor | auto].
      + destruct (Hlf i _ _ Hn e (or_introl eq_refl)) as [a ->].
        destruct (IH (upd c i (t, L))) as (tr & c' & Hs & Hf).
        * pose proof (size_upd c i (Act a) t L L Hn). lia.
        * intros k t' L' Hk. destruct (Nat.eq_dec i k) as [->|Hne].
          -- rewrite (nth_upd_eq _ _ _ _ Hn) in Hk. inversion Hk; subst.
             intros e' He'. apply (Hlf k _ _ Hn). right; auto.
          -- rewrite (nth_upd_neq _ _ _ _ Hne) in Hk. eapply Hlf; eauto.
        * exists ((i, Act a) :: tr), c'. split; auto.
          econstructor; eauto. apply st_act. exact Hn.
  Qed.

  Theorem shared_write_races_complete : forall (ts : list thread) i j ti tj (a b : action),
      (forall t, In t ts -> lock_free t) ->
      i <> j -> nth_error ts i = Some ti -> nth_error ts j = Some tj ->
      In (Act a) ti -> In (Act b) tj -> conflict a b ->
      exists tr, interleaving ts tr /\ has_race ts tr.
  Proof.
    intros ts i j ti tj a b Hlf Hne Hti Htj Ha Hb Hconf.
    destruct (shared_write_races ts i j ti tj a b) as (pre & c & Hs & Hr); auto.
    { apply Hlf. eapply nth_error_In; eauto. }
    { apply Hlf. eapply nth_error_In; eauto. }
    destruct (lock_free_complete (size c) c eq_refl) as (post & c' & Hs' & Hf).
    { intros k t L Hk e He.
      destruct (steps_suffix _ _ _ Hs _ _ _ Hk) as (t0 & L0 & p & Hn0 & Heq).
      apply nth_init in Hn0. destruct Hn0 as [Hn0 _].
      apply (Hlf t0); [eapply nth_error_In; eauto|]. subst t0. apply in_or_app. auto. }
    exists (pre ++ post). split.
    - exists c'. split; auto. eapply steps_app; eauto.
    - exists pre, post, c. auto.
  Qed.
End Interleave.
