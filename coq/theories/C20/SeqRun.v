(** C20 — "the goroutines run one after the other" is one of the interleavings.

    [seq_run] (Model.v) is a function; here it is tied to the operational semantics: the trace
    [seq_trace ts] (all of thread 0, then all of thread 1, ...) is a complete interleaving of any
    program whose critical sections are not nested, and executing it computes exactly [seq_run]. *)
From Coq Require Import List Arith Lia Bool.
From Algo.C20 Require Import Model Interleave Locks.
Import ListNotations.

Section SeqRun.
  Variables Loc Val Out : Type.

  Notation action := (action Loc Val Out).
  Notation event := (event Loc Val Out).
  Notation thread := (thread Loc Val Out).
  Notation cfg := (cfg Loc Val Out).
  Notation store := (store Loc Val).

  Fixpoint seq_trace_from (i : nat) (ts : list thread) : list (nat * event) :=
    match ts with
    | [] => []
    | t :: ts' => map (pair i) t ++ seq_trace_from (S i) ts'
    end.

  Definition seq_trace (ts : list thread) := seq_trace_from 0 ts.

  (** * What the sequential trace computes *)

  Lemma exec_app : forall (tr1 tr2 : list (nat * event)) (s : store),
      exec (tr1 ++ tr2) s =
      (fst (exec tr2 (fst (exec tr1 s))), snd (exec tr1 s) ++ snd (exec tr2 (fst (exec tr1 s)))).
  Proof.
    induction tr1 as [|[i e] tr1 IH]; intros tr2 s; simpl.
    - destruct (exec tr2 s); reflexivity.
    - destruct e as [a | m | m]; simpl; rewrite IH; reflexivity.
  Qed.

  Lemma exec_thread : forall (t : thread) i (s : store),
      exec (map (pair i) t) s = (fst (run t s), map (pair i) (snd (run t s))).
  Proof.
    induction t as [|e t IH]; intros i s; simpl.
    - reflexivity.
    - destruct e as [a | m | m]; simpl; rewrite IH; reflexivity.
  Qed.

  Lemma outs_of_app : forall i (a b : list (nat * Out)), outs_of i (a ++ b) = outs_of i a ++ outs_of i b.
  Proof. intros. unfold outs_of. rewrite filter_app, map_app. reflexivity. Qed.

  Lemma outs_of_tagged : forall i j (os : list Out),
      outs_of j (map (pair i) os) = if Nat.eqb i j then os else [].
  Proof.
    intros i j os. unfold outs_of. induction os as [|o os IH]; simpl.
    - destruct (Nat.eqb i j); reflexivity.
    - destruct (Nat.eqb i j); simpl; rewrite IH; reflexivity.
  Qed.

  Lemma seq_from_store : forall (ts : list thread) i (s : store),
      fst (exec (seq_trace_from i ts) s) = fst (seq_run ts s).
  Proof.
    induction ts as [|t ts IH]; intros i s; simpl.
    - reflexivity.
    - rewrite exec_app. simpl. rewrite exec_thread. simpl. apply IH.
  Qed.

  Lemma seq_from_outs_lt : forall (ts : list thread) i j (s : store),
      j < i -> outs_of j (snd (exec (seq_trace_from i ts) s)) = [].
  Proof.
    induction ts as [|t ts IH]; intros i j s Hlt; simpl.
    - reflexivity.
    - rewrite exec_app. simpl. rewrite outs_of_app, exec_thread. simpl.
      rewrite outs_of_tagged. destruct (Nat.eqb_spec i j); [lia|].
      simpl. apply IH. lia.
  Qed.

  Lemma seq_from_outs : forall (ts : list thread) i k (s : store),
      outs_of (i + k) (snd (exec (seq_trace_from i ts) s)) = nth k (snd (seq_run ts s)) [].
  Proof.
    induction ts as [|t ts IH]; intros i k s; simpl.
    - destruct k; reflexivity.
    - rewrite exec_app. simpl. rewrite outs_of_app, exec_thread. simpl. rewrite outs_of_tagged.
      destruct k as [|k].
      + rewrite Nat.add_0_r, Nat.eqb_refl. rewrite seq_from_outs_lt by lia. apply app_nil_r.
      + destruct (Nat.eqb_spec i (i + S k)); [lia|]. simpl.
        replace (i + S k) with (S i + k) by lia. apply IH.
  Qed.

  Theorem seq_trace_computes_seq_run : forall (ts : list thread) (s : store),
      fst (exec (seq_trace ts) s) = fst (seq_run ts s) /\
      forall i, outs_of i (snd (exec (seq_trace ts) s)) = nth i (snd (seq_run ts s)) [].
  Proof.
    intros ts s. split.
    - apply seq_from_store.
    - intros i. apply (seq_from_outs ts 0 i s).
  Qed.

  (** * The sequential trace is an interleaving *)

  Definition idle : thread * list nat := ([], []).

  Definition quiet (c : cfg) : Prop := forall j t L, nth_error c j = Some (t, L) -> L = [].

  Lemma thread_runs : forall (t : thread) (c : cfg) i L,
      nth_error c i = Some (t, L) -> bracketed Loc Val Out L t ->
      (forall j tj Lj, j <> i -> nth_error c j = Some (tj, Lj) -> Lj = []) ->
      steps c (map (pair i) t) (upd c i idle).
  Proof.
    induction t as [|e t IH]; intros c i L Hn Hb Hq; simpl in *.
    - subst L. rewrite (upd_same c i idle Hn). constructor.
    - assert (Hq' : forall x, forall j tj Lj, j <> i -> nth_error (upd c i x) j = Some (tj, Lj) -> Lj = []).
      { intros x j tj Lj Hne Hj. rewrite nth_upd_neq in Hj by auto. eapply Hq; eauto. }
      destruct e as [a | m | m].
      + econstructor; [apply st_act; eauto|].
        rewrite <- (upd_upd c i (t, L) idle).
        eapply IH; eauto. eapply nth_upd_eq; eauto.
      + destruct Hb as [-> Hb].
        econstructor.
        * eapply st_acq; eauto. intros j tj Lj Hj.
          destruct (Nat.eq_dec j i) as [->|Hne].
          -- rewrite Hn in Hj. inversion Hj; subst. auto.
          -- rewrite (Hq _ _ _ Hne Hj). auto.
        * rewrite <- (upd_upd c i (t, [m]) idle).
          eapply IH; eauto. eapply nth_upd_eq; eauto.
      + destruct Hb as [-> Hb].
        econstructor.
        * eapply st_rel; eauto. left; auto.
        * rewrite remove_single.
          rewrite <- (upd_upd c i (t, []) idle).
          eapply IH; eauto. eapply nth_upd_eq; eauto.
  Qed.

  Lemma seq_from_runs : forall (ts : list thread) i (c : cfg),
      quiet c ->
      (forall k t, nth_error ts k = Some t ->
                   nth_error c (i + k) = Some (t, []) /\ bracketed Loc Val Out [] t) ->
      exists c', steps c (seq_trace_from i ts) c' /\ quiet c' /\
                 (forall j, j < i \/ i + length ts <= j -> nth_error c' j = nth_error c j) /\
                 (forall k, k < length ts -> nth_error c' (i + k) = Some idle).
  Proof.
    induction ts as [|t ts IH]; intros i c Hq Hts; simpl.
    - exists c. split; [constructor|]. split; auto. split; auto. intros k Hk. lia.
    - destruct (Hts 0 t eq_refl) as [Hn Hb]. rewrite Nat.add_0_r in Hn.
      pose proof (thread_runs t c i [] Hn Hb (fun j tj Lj _ Hj => Hq j tj Lj Hj)) as S1.
      set (c1 := upd c i idle) in *.
      assert (Hq1 : quiet c1).
      { intros j tj Lj Hj. destruct (Nat.eq_dec i j) as [->|Hne].
        - unfold c1 in Hj. rewrite (nth_upd_eq _ _ _ _ Hn) in Hj. unfold idle in Hj. inversion Hj; auto.
        - unfold c1 in Hj. rewrite nth_upd_neq in Hj by auto. eapply Hq; eauto. }
      destruct (IH (S i) c1 Hq1) as (c' & S2 & Hq' & Hsame & Hdone).
      { intros k t' Hk. destruct (Hts (S k) t' Hk) as [Hn' Hb'].
        split; auto. unfold c1. rewrite nth_upd_neq by lia.
        replace (S i + k) with (i + S k) by lia. exact Hn'. }
      exists c'. split; [eapply steps_app; eauto|]. split; auto. split.
      + intros j Hj. rewrite Hsame by lia. unfold c1. apply nth_upd_neq. lia.
      + intros [|k] Hk.
        * rewrite Nat.add_0_r. rewrite Hsame by lia. unfold c1. eapply nth_upd_eq; eauto.
        * replace (i + S k) with (S i + k) by lia. apply Hdone. lia.
  Qed.

  Theorem seq_trace_is_interleaving : forall ts : list thread,
      (forall t, In t ts -> bracketed Loc Val Out [] t) -> interleaving ts (seq_trace ts).
  Proof.
    intros ts Hb.
    destruct (seq_from_runs ts 0 (init ts)) as (c' & Hs & _ & Hsame & Hdone).
    - intros j t L Hj. apply nth_init in Hj. tauto.
    - intros k t Hk. split; [apply nth_init_some; auto | apply Hb; eapply nth_error_In; eauto].
    - exists c'. split; auto. intros j t L Hj.
      destruct (Nat.lt_ge_cases j (length ts)) as [Hlt | Hge].
      + pose proof (Hdone j Hlt) as E. simpl in E. rewrite E in Hj. unfold idle in Hj. inversion Hj; auto.
      + rewrite Hsame in Hj by (right; simpl; lia).
        assert (nth_error (init ts) j = None) as E.
        { apply nth_error_None. unfold init. rewrite map_length. exact Hge. }
        rewrite E in Hj. discriminate.
  Qed.
End SeqRun.
