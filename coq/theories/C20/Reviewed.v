(** C20 — hand-reviewed package-level variables: the ones the translator's syntactic rules leave
    [Unclassified].  Each entry repeats the evidence string of Gen/C20_Globals.v verbatim (so a
    change in how the variable is used invalidates the review) and gives the justification.
    A variable that is [Unclassified] and not listed here fails C20_no_unsync_shared_state. *)
From Coq Require Import String List.
From Algo.C20 Require Import Inventory.
Import ListNotations.
Open Scope string_scope.

Definition reviewed : list review := [
  mkReview "internal/parsertest" "Prods" KSlice
    "never assigned; no uses; aliases: escape-arg [] (grammar.NewCFG) in internal/parsertest.<package initialiser>, escape-arg [][:] (grammar.NewCFG) in internal/parsertest.<package initialiser>; package imported by no non-test file of the module"
    Immutable
    "Test fixture. Its only accesses outside _test.go files are in the package initialiser of internal/parsertest itself, where sub-slices are handed to grammar.NewCFG to build the Grammars fixture (NewCFG copies the productions into fresh sets). The evidence records that no non-test file of the module imports internal/parsertest, and Go forbids clients to import an internal/ package, so no operation of the library reaches these slices: goroutines working on instances they created themselves never touch them."
].
