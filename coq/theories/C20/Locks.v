(** C20 — interleavings with shared state: an access policy per location.

    Every location is private to one thread, read-only, guarded by a mutex, or unrestricted.
    A thread is [disciplined] when each of its actions reads only its own private locations,
    read-only locations and guarded locations whose mutex it holds at that point, and writes only
    its own private locations and guarded locations whose mutex it holds (unrestricted locations
    carry no obligation).  If no location is unrestricted:

    [discipline_no_race]    no execution of a disciplined program reaches a data race;
    [discipline_seq_equiv]  every complete interleaving gives each thread the outputs and the final
                            contents of its private locations of the sequential run, provided the
                            observable effect of an action does not depend on the contents of the
                            guarded locations (they behave as an oracle: a random source, a scratch
                            buffer that is reset before use). *)
From Coq Require Import List Arith Lia Bool.
From Algo.C20 Require Import Model Interleave.
Import ListNotations.

Inductive access := Private (i : nat) | ReadOnly | Guarded (m : nat) | Unrestricted.

Section Locks.
  Variables Loc Val Out : Type.
  Hypothesis Loc_eq_dec : forall x y : Loc, {x = y} + {x <> y}.
  Variable pol : Loc -> access.

  Notation action := (action Loc Val Out).
  Notation event := (event Loc Val Out).
  Notation thread := (thread Loc Val Out).
  Notation cfg := (cfg Loc Val Out).
  Notation store := (store Loc Val).

  Definition ok_read (i : nat) (L : list nat) (l : Loc) : Prop :=
    match pol l with
    | Private j => j = i
    | ReadOnly => True
    | Guarded m => In m L
    | Unrestricted => True
    end.

  Definition ok_write (i : nat) (L : list nat) (l : Loc) : Prop :=
    match pol l with
    | Private j => j = i
    | ReadOnly => False
    | Guarded m => In m L
    | Unrestricted => True
    end.

  Fixpoint disciplined (i : nat) (L : list nat) (t : thread) : Prop :=
    match t with
    | [] => True
    | Act a :: t' =>
        (forall l, In l (rd a) -> ok_read i L l) /\
        (forall l, In l (wr a) -> ok_write i L l) /\
        disciplined i L t'
    | Acq m :: t' => ~ In m L /\ disciplined i (m :: L) t'
    | Rel m :: t' => In m L /\ disciplined i (remove Nat.eq_dec m L) t'
    end.

  Definition program_disciplined (ts : list thread) : Prop :=
    forall i t, nth_error ts i = Some t -> disciplined i [] t.

  Definition no_unrestricted : Prop := forall l, pol l <> Unrestricted.

  Definition guarded (l : Loc) : Prop := exists m, pol l = Guarded m.

  (** the observable effect of an action does not depend on guarded locations *)
  Definition respects_obs (a : action) : Prop :=
    (forall s l, ~ In l (wr a) -> fst (sem a s) l = s l) /\
    (forall s s', (forall l, In l (rd a) -> ~ guarded l -> s l = s' l) ->
       snd (sem a s) = snd (sem a s') /\
       forall l, In l (wr a) -> ~ guarded l -> fst (sem a s) l = fst (sem a s') l).

  (** * The invariant of reachable configurations *)

  Definition inv (c : cfg) : Prop :=
    (forall i t L, nth_error c i = Some (t, L) -> disciplined i L t) /\
    (forall i j ti tj Li Lj m, i <> j ->
        nth_error c i = Some (ti, Li) -> nth_error c j = Some (tj, Lj) ->
        In m Li -> ~ In m Lj).

  Lemma nth_upd_inv : forall {A} (c : list A) i x y j z,
      nth_error c i = Some x -> nth_error (upd c i y) j = Some z ->
      (j = i /\ z = y) \/ (j <> i /\ nth_error c j = Some z).
  Proof.
    intros A c i x y j z Hi Hj. destruct (Nat.eq_dec i j) as [->|Hne].
    - rewrite (nth_upd_eq _ _ _ _ Hi) in Hj. inversion Hj. auto.
    - rewrite (nth_upd_neq _ _ _ _ Hne) in Hj. auto.
  Qed.

  Lemma inv_init : forall ts, program_disciplined ts -> inv (init ts).
  Proof.
    intros ts Hd. split.
    - intros i t L Hn. apply nth_init in Hn. destruct Hn as [Hn ->]. auto.
    - intros i j ti tj Li Lj m _ Hi _ Hm. apply nth_init in Hi. destruct Hi as [_ ->]. inversion Hm.
  Qed.

  Lemma inv_step : forall (c c' : cfg) l, inv c -> step c l c' -> inv c'.
  Proof.
    intros c c' l [Hd Hx] Hs.
    inversion Hs as [c0 i a t L Hn | c0 i m t L Hn Hfree | c0 i m t L Hn Hheld]; subst.
    - (* action *)
      pose proof (Hd _ _ _ Hn) as Hdi. simpl in Hdi. destruct Hdi as (_ & _ & Hdi).
      split.
      + intros k t' L' Hk. destruct (nth_upd_inv _ _ _ _ _ _ Hn Hk) as [[-> E] | [Hne Hk']].
        * inversion E; subst. auto.
        * eauto.
      + intros k j tk tj Lk Lj m Hne Hk Hj Hm.
        destruct (nth_upd_inv _ _ _ _ _ _ Hn Hk) as [[-> E] | [Hnk Hk']];
          destruct (nth_upd_inv _ _ _ _ _ _ Hn Hj) as [[-> E'] | [Hnj Hj']];
          try congruence.
        * inversion E; subst. eapply (Hx i j); eauto.
        * inversion E'; subst. eapply (Hx k i); eauto.
        * eapply (Hx k j); eauto.
    - (* acquire *)
      pose proof (Hd _ _ _ Hn) as Hdi. simpl in Hdi. destruct Hdi as (Hnin & Hdi).
      split.
      + intros k t' L' Hk. destruct (nth_upd_inv _ _ _ _ _ _ Hn Hk) as [[-> E] | [Hne Hk']].
        * inversion E; subst. auto.
        * eauto.
      + intros k j tk tj Lk Lj m' Hne Hk Hj Hm.
        destruct (nth_upd_inv _ _ _ _ _ _ Hn Hk) as [[-> E] | [Hnk Hk']];
          destruct (nth_upd_inv _ _ _ _ _ _ Hn Hj) as [[-> E'] | [Hnj Hj']];
          try congruence.
        * inversion E; subst. destruct Hm as [<- | Hm].
          -- eapply Hfree; eauto.
          -- eapply (Hx i j); eauto.
        * inversion E'; subst. intros [<- | Hin].
          -- eapply Hfree; eauto.
          -- eapply (Hx k i); eauto.
        * eapply (Hx k j); eauto.
    - (* release *)
      pose proof (Hd _ _ _ Hn) as Hdi. simpl in Hdi. destruct Hdi as (Hin & Hdi).
      split.
      + intros k t' L' Hk. destruct (nth_upd_inv _ _ _ _ _ _ Hn Hk) as [[-> E] | [Hne Hk']].
        * inversion E; subst. auto.
        * eauto.
      + intros k j tk tj Lk Lj m' Hne Hk Hj Hm.
        destruct (nth_upd_inv _ _ _ _ _ _ Hn Hk) as [[-> E] | [Hnk Hk']];
          destruct (nth_upd_inv _ _ _ _ _ _ Hn Hj) as [[-> E'] | [Hnj Hj']];
          try congruence.
        * inversion E; subst. apply in_remove in Hm. destruct Hm as [Hm _].
          eapply (Hx i j); eauto.
        * inversion E'; subst. intros Hin'. apply in_remove in Hin'. destruct Hin' as [Hin' _].
          eapply (Hx k i); eauto.
        * eapply (Hx k j); eauto.
  Qed.

  Lemma inv_steps : forall (c c' : cfg) tr, steps c tr c' -> inv c -> inv c'.
  Proof.
    intros c c' tr H. induction H; intros Hi; auto. apply IHsteps. eapply inv_step; eauto.
  Qed.

  (** * No data race *)

  Theorem discipline_no_race : forall ts,
      no_unrestricted -> program_disciplined ts ->
      forall pre (c : cfg), steps (init ts) pre c -> ~ racy c.
  Proof.
    intros ts Hnu Hd pre c Hs Hr.
    destruct (inv_steps _ _ _ Hs (inv_init _ Hd)) as [Hdc Hx].
    destruct Hr as (i & j & a & b & ti & tj & Li & Lj & Hne & Hi & Hj & l & Hc).
    pose proof (Hdc _ _ _ Hi) as Di. pose proof (Hdc _ _ _ Hj) as Dj. simpl in Di, Dj.
    destruct Di as (Ria & Wia & _). destruct Dj as (Rjb & Wjb & _).
    assert (Key : forall i j Li Lj ti tj, i <> j ->
               nth_error c i = Some (ti, Li) -> nth_error c j = Some (tj, Lj) ->
               ok_write i Li l -> (ok_read j Lj l \/ ok_write j Lj l) -> False).
    { clear - Hx Hnu. intros i j Li Lj ti tj Hne Hi Hj Hw Hacc.
      unfold ok_write, ok_read in *. pose proof (Hnu l) as Hl.
      destruct (pol l) as [k | | m |].
      - destruct Hacc; congruence.
      - exact Hw.
      - assert (In m Lj) by (destruct Hacc; auto). eapply (Hx i j); eauto.
      - congruence. }
    destruct Hc as [[Hw Hacc] | [Hw Hacc]].
    - apply (Key i j Li Lj _ _ Hne Hi Hj (Wia l Hw)).
      apply in_app_or in Hacc. destruct Hacc; [left | right]; auto.
    - apply (Key j i Lj Li _ _ (not_eq_sym Hne) Hj Hi (Wjb l Hw)).
      apply in_app_or in Hacc. destruct Hacc; [left | right]; auto.
  Qed.

  Corollary discipline_no_race_interleaving : forall ts,
      no_unrestricted -> program_disciplined ts -> forall tr, ~ has_race ts tr.
  Proof.
    intros ts Hnu Hd tr (pre & post & c & _ & Hs & Hr). eapply discipline_no_race; eauto.
  Qed.

  (** * Same results as the sequential run *)

  Lemma disciplined_action : forall (t : thread) i L a,
      disciplined i L t -> In (Act a) t ->
      exists L', (forall l, In l (rd a) -> ok_read i L' l) /\ (forall l, In l (wr a) -> ok_write i L' l).
  Proof.
    induction t as [|e t IH]; intros i L a Hd Hin.
    - inversion Hin.
    - destruct Hin as [-> | Hin].
      + simpl in Hd. destruct Hd as (Hr & Hw & _). eauto.
      + destruct e as [b | m | m]; simpl in Hd.
        * destruct Hd as (_ & _ & Hd). eauto.
        * destruct Hd as (_ & Hd). eauto.
        * destruct Hd as (_ & Hd). eauto.
  Qed.

  (** what thread [i] can observe: its private locations and the read-only ones *)
  Definition view (i : nat) (l : Loc) : Prop := pol l = Private i \/ pol l = ReadOnly.

  Lemma own_action_Rdet : forall i L (a : action),
      no_unrestricted -> respects_obs a ->
      (forall l, In l (rd a) -> ok_read i L l) -> Rdet Loc Val Out (view i) a.
  Proof.
    intros i L a Hnu [Hfr Hdet] Hrd s s' Hag.
    destruct (Hdet s s') as [Ho Hw].
    { intros l Hl Hng. apply Hag. specialize (Hrd l Hl). unfold ok_read in Hrd. unfold view.
      pose proof (Hnu l) as Hu. destruct (pol l) as [k | | m |] eqn:E.
      - left. congruence.
      - right. reflexivity.
      - exfalso. apply Hng. exists m. auto.
      - exfalso. apply Hu. reflexivity. }
    split; auto. intros l Hl.
    destruct (in_dec Loc_eq_dec l (wr a)) as [Hin | Hnin].
    - apply Hw; auto. intros [m Hm]. destruct Hl as [Hl | Hl]; congruence.
    - rewrite (Hfr s l Hnin), (Hfr s' l Hnin). auto.
  Qed.

  Lemma other_action_Rframe : forall i j L (b : action),
      j <> i -> no_unrestricted -> respects_obs b ->
      (forall l, In l (wr b) -> ok_write j L l) -> Rframe Loc Val Out (view i) b.
  Proof.
    intros i j L b Hne Hnu [Hfr _] Hwr s l Hl. apply Hfr. intros Hin.
    specialize (Hwr l Hin). unfold ok_write in Hwr.
    destruct Hl as [Hl | Hl]; rewrite Hl in Hwr; auto.
  Qed.

  Theorem discipline_seq_equiv : forall ts,
      no_unrestricted -> program_disciplined ts ->
      (forall t, In t ts -> forall a, In (Act a) t -> respects_obs a) ->
      forall tr, interleaving ts tr ->
      forall (s : store) i ti, nth_error ts i = Some ti ->
        outs_of i (snd (exec tr s)) = nth i (snd (seq_run ts s)) [] /\
        forall l, pol l = Private i -> fst (exec tr s) l = fst (seq_run ts s) l.
  Proof.
    intros ts Hnu Hd Hresp tr (c & Hs & Hfin) s i ti Hti.
    assert (Hmem : forall j e, In (j, e) tr -> exists tj, nth_error ts j = Some tj /\ In e tj).
    { intros j e Hin. destruct (steps_event _ _ _ _ _ _ Hs _ _ Hin) as (t & L & Hn & He).
      apply nth_init in Hn. destruct Hn as [Hn _]. eauto. }
    assert (Hdet : forall a, In (Act a) ti -> Rdet Loc Val Out (view i) a).
    { intros a Ha. destruct (disciplined_action _ _ _ _ (Hd _ _ Hti) Ha) as (L & Hr & _).
      eapply own_action_Rdet; eauto. apply (Hresp ti); auto. eapply nth_error_In; eauto. }
    assert (Hfr : forall j tj, j <> i -> nth_error ts j = Some tj ->
                               forall b, In (Act b) tj -> Rframe Loc Val Out (view i) b).
    { intros j tj Hne Htj b Hb.
      destruct (disciplined_action _ _ _ _ (Hd _ _ Htj) Hb) as (L & _ & Hw).
      eapply other_action_Rframe; eauto. apply (Hresp tj); auto. eapply nth_error_In; eauto. }
    assert (Hproj : proj i tr = ti).
    { destruct (steps_proj _ _ _ _ _ _ Hs i ti [] (nth_init_some _ _ _ _ _ _ Hti)) as (t' & L' & Hn' & Heq).
      rewrite (Hfin _ _ _ Hn'), app_nil_r in Heq. auto. }
    destruct (sim_trace Loc Val Out (view i) i tr s s) as [Ho Hag].
    { intros a Hin. destruct (Hmem _ _ Hin) as (tj & Htj & He).
      rewrite Hti in Htj. inversion Htj; subst. auto. }
    { intros j b Hin Hne. destruct (Hmem _ _ Hin) as (tj & Htj & He). eapply Hfr; eauto. }
    { apply agree_refl. }
    rewrite Hproj in Ho, Hag.
    destruct (sim_seq Loc Val Out (view i) ts i ti s Hti Hdet Hfr) as [Ho' Hag'].
    split.
    - rewrite Ho, Ho'. reflexivity.
    - intros l Hl. rewrite (Hag l (or_introl Hl)), (Hag' l (or_introl Hl)). reflexivity.
  Qed.

  (** * No deadlock: critical sections that are not nested always run to completion

      [bracketed L t]: starting with lockset [L] (empty or one mutex), the thread acquires a mutex
      only when it holds none, releases exactly the one it holds, and ends holding none: the shape
      `Lock(); ...; Unlock()` of the library.  Every execution prefix of such a program extends to
      a complete interleaving, so the statements about "every interleaving" are not vacuous. *)
  Fixpoint bracketed (L : list nat) (t : thread) : Prop :=
    match t with
    | [] => L = []
    | Act _ :: t' => bracketed L t'
    | Acq m :: t' => L = [] /\ bracketed [m] t'
    | Rel m :: t' => L = [m] /\ bracketed [] t'
    end.

  Definition invb (c : cfg) : Prop := forall i t L, nth_error c i = Some (t, L) -> bracketed L t.

  Lemma remove_single : forall m, remove Nat.eq_dec m [m] = [].
  Proof. intros m. simpl. destruct (Nat.eq_dec m m); congruence. Qed.

  Lemma invb_step : forall (c c' : cfg) l, invb c -> step c l c' -> invb c'.
  Proof.
    intros c c' l Hb Hs.
    inversion Hs as [c0 i a t L Hn | c0 i m t L Hn Hfree | c0 i m t L Hn Hheld]; subst;
      intros k t' L' Hk; destruct (nth_upd_inv _ _ _ _ _ _ Hn Hk) as [[-> E] | [Hne Hk']];
      try (eapply Hb; eauto; fail); inversion E; subst; pose proof (Hb _ _ _ Hn) as B; simpl in B.
    - exact B.
    - destruct B as [-> B]. exact B.
    - destruct B as [-> B]. rewrite remove_single. exact B.
  Qed.

  Lemma invb_steps : forall (c c' : cfg) tr, steps c tr c' -> invb c -> invb c'.
  Proof.
    intros c c' tr H. induction H; intros Hi; auto. apply IHsteps. eapply invb_step; eauto.
  Qed.

  Lemma free_dec : forall (c : cfg) m,
      free c m \/ exists j t L, nth_error c j = Some (t, L) /\ In m L.
  Proof.
    induction c as [|[t L] c IH]; intros m.
    - left. intros [|j] t L H; discriminate.
    - destruct (in_dec Nat.eq_dec m L) as [Hin | Hnin].
      + right. exists 0, t, L. auto.
      + destruct (IH m) as [Hf | (j & t' & L' & Hj & Hin)].
        * left. intros [|j] t' L' H; simpl in H.
          -- inversion H; subst. auto.
          -- eapply Hf; eauto.
        * right. exists (S j), t', L'. auto.
  Qed.

  Lemma progress : forall c : cfg,
      invb c -> ~ finished c -> exists l c', step c l c'.
  Proof.
    intros c Hb Hnf.
    destruct (finished_or_head Loc Val Out c) as [Hf | (i & e & t & L & Hn)]; [contradiction|].
    pose proof (Hb _ _ _ Hn) as B. destruct e as [a | m | m]; simpl in B.
    - eexists. eexists. apply st_act. eauto.
    - destruct (free_dec c m) as [Hfree | (j & tj & Lj & Hj & Hin)].
      + eexists. eexists. eapply st_acq; eauto.
      + pose proof (Hb _ _ _ Hj) as Bj.
        destruct tj as [|[b | m' | m'] tj]; simpl in Bj.
        * subst Lj. inversion Hin.
        * eexists. eexists. apply st_act. eauto.
        * destruct Bj as [-> _]. inversion Hin.
        * destruct Bj as [-> _]. eexists. eexists. eapply st_rel; eauto. left; auto.
    - destruct B as [-> _]. eexists. eexists. eapply st_rel; eauto. left; auto.
  Qed.

  Lemma step_size : forall (c c' : cfg) l, step c l c' -> S (size Loc Val Out c') = size Loc Val Out c.
  Proof.
    intros c c' [k e] Hs. destruct (step_inv _ _ _ _ _ _ _ Hs) as (t & L & L' & Hn & ->).
    eapply size_upd; eauto.
  Qed.

  Lemma finished_dec : forall c : cfg, finished c \/ ~ finished c.
  Proof.
    intros c. destruct (finished_or_head Loc Val Out c) as [Hf | (i & e & t & L & Hn)]; auto.
    right. intros Hf. specialize (Hf _ _ _ Hn). discriminate.
  Qed.

  Lemma bracketed_runs_to_completion : forall n (c : cfg),
      size Loc Val Out c = n -> invb c -> exists tr c', steps c tr c' /\ finished c'.
  Proof.
    induction n as [|n IH]; intros c Hsz Hb.
    - destruct (finished_dec c) as [Hf | Hnf].
      + exists [], c. split; [constructor | auto].
      + destruct (progress c Hb Hnf) as (l & c' & Hs). pose proof (step_size _ _ _ Hs). lia.
    - destruct (finished_dec c) as [Hf | Hnf].
      + exists [], c. split; [constructor | auto].
      + destruct (progress c Hb Hnf) as (l & c' & Hs).
        destruct (IH c') as (tr & c'' & Hss & Hf).
        * pose proof (step_size _ _ _ Hs). lia.
        * eapply invb_step; eauto.
        * exists (l :: tr), c''. split; auto. econstructor; eauto.
  Qed.

  Theorem bracketed_no_deadlock : forall ts,
      (forall t, In t ts -> bracketed [] t) ->
      forall pre (c : cfg), steps (init ts) pre c ->
      exists post, interleaving ts (pre ++ post).
  Proof.
    intros ts Hb pre c Hs.
    assert (Hi : invb (init ts)).
    { intros i t L Hn. apply nth_init in Hn. destruct Hn as [Hn ->].
      apply Hb. eapply nth_error_In; eauto. }
    destruct (bracketed_runs_to_completion _ c eq_refl (invb_steps _ _ _ Hs Hi)) as (post & c' & Hs' & Hf).
    exists post, c'. split; auto. eapply steps_app; eauto.
  Qed.
End Locks.
