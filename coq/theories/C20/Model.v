(** C20 — the interleaving model (definitions only; no reference to Go).

    A program is a list of threads; a thread is a list of events: atomic actions over a store,
    each declaring the locations it may read ([rd]) and write ([wr]), and acquisitions / releases
    of mutexes.  A configuration holds, per thread, the events still to run and the mutexes it
    holds.  An execution is any sequence of steps of any threads (sequentially consistent
    interleaving semantics; an [Acq m] step is enabled only when no thread holds [m]).

    A data race is a reachable configuration in which two different threads are both about to
    perform actions that touch a common location, at least one of them writing it: nothing orders
    the two accesses, both orders are possible next steps. *)
From Coq Require Import List Arith Bool.
Import ListNotations.

Section Model.
  Variables Loc Val Out : Type.

  Definition store := Loc -> Val.

  Record action := mkAction {
    rd  : list Loc;                       (* declared read footprint *)
    wr  : list Loc;                       (* declared write footprint *)
    sem : store -> store * Out            (* new store and the result the caller observes *)
  }.

  Inductive event :=
  | Act (a : action)
  | Acq (m : nat)
  | Rel (m : nat).

  Definition thread := list event.

  (** The semantics respects the declared footprints: locations outside [wr] keep their value,
      and the result and the values written depend only on the locations in [rd]. *)
  Definition respects (a : action) : Prop :=
    (forall s l, ~ In l (wr a) -> fst (sem a s) l = s l) /\
    (forall s s', (forall l, In l (rd a) -> s l = s' l) ->
       snd (sem a s) = snd (sem a s') /\
       forall l, In l (wr a) -> fst (sem a s) l = fst (sem a s') l).

  (** footprints of a thread *)
  Definition writes (t : thread) (l : Loc) : Prop := exists a, In (Act a) t /\ In l (wr a).
  Definition accesses (t : thread) (l : Loc) : Prop := exists a, In (Act a) t /\ In l (rd a ++ wr a).
  Definition lock_free (t : thread) : Prop := forall e, In e t -> exists a, e = Act a.

  (** configurations and steps *)
  Definition cfg := list (thread * list nat).

  Fixpoint upd {A} (l : list A) (i : nat) (x : A) : list A :=
    match l, i with
    | [], _ => []
    | _ :: t, O => x :: t
    | h :: t, S i' => h :: upd t i' x
    end.

  Definition free (c : cfg) (m : nat) : Prop :=
    forall j t L, nth_error c j = Some (t, L) -> ~ In m L.

  Inductive step : cfg -> nat * event -> cfg -> Prop :=
  | st_act : forall c i a t L,
      nth_error c i = Some (Act a :: t, L) ->
      step c (i, Act a) (upd c i (t, L))
  | st_acq : forall c i m t L,
      nth_error c i = Some (Acq m :: t, L) -> free c m ->
      step c (i, Acq m) (upd c i (t, m :: L))
  | st_rel : forall c i m t L,
      nth_error c i = Some (Rel m :: t, L) -> In m L ->
      step c (i, Rel m) (upd c i (t, remove Nat.eq_dec m L)).

  Inductive steps : cfg -> list (nat * event) -> cfg -> Prop :=
  | steps_nil : forall c, steps c [] c
  | steps_cons : forall c l c' tr c'', step c l c' -> steps c' tr c'' -> steps c (l :: tr) c''.

  Definition init (ts : list thread) : cfg := map (fun t => (t, @nil nat)) ts.
  Definition finished (c : cfg) : Prop := forall i t L, nth_error c i = Some (t, L) -> t = [].

  (** a complete interleaving of the program: every thread runs to its end *)
  Definition interleaving (ts : list thread) (tr : list (nat * event)) : Prop :=
    exists c, steps (init ts) tr c /\ finished c.

  (** data races *)
  Definition conflict (a b : action) : Prop :=
    exists l, (In l (wr a) /\ In l (rd b ++ wr b)) \/ (In l (wr b) /\ In l (rd a ++ wr a)).

  Definition racy (c : cfg) : Prop :=
    exists i j a b ti tj Li Lj,
      i <> j /\ nth_error c i = Some (Act a :: ti, Li) /\
      nth_error c j = Some (Act b :: tj, Lj) /\ conflict a b.

  Definition has_race (ts : list thread) (tr : list (nat * event)) : Prop :=
    exists pre post c, tr = pre ++ post /\ steps (init ts) pre c /\ racy c.

  (** what an execution computes: the final store and the results, tagged with the thread *)
  Fixpoint exec (tr : list (nat * event)) (s : store) : store * list (nat * Out) :=
    match tr with
    | [] => (s, [])
    | (i, Act a) :: tr' =>
        let r := exec tr' (fst (sem a s)) in (fst r, (i, snd (sem a s)) :: snd r)
    | _ :: tr' => exec tr' s
    end.

  Definition outs_of (i : nat) (os : list (nat * Out)) : list Out :=
    map snd (filter (fun p => Nat.eqb (fst p) i) os).

  (** a thread running alone *)
  Fixpoint run (t : thread) (s : store) : store * list Out :=
    match t with
    | [] => (s, [])
    | Act a :: t' => let r := run t' (fst (sem a s)) in (fst r, snd (sem a s) :: snd r)
    | _ :: t' => run t' s
    end.

  (** the sequential run: thread 0 to its end, then thread 1, ... *)
  Fixpoint seq_run (ts : list thread) (s : store) : store * list (list Out) :=
    match ts with
    | [] => (s, [])
    | t :: ts' => let r := seq_run ts' (fst (run t s)) in (fst r, snd (run t s) :: snd r)
    end.

  (** events of thread [i] in a trace *)
  Definition proj (i : nat) (tr : list (nat * event)) : thread :=
    map snd (filter (fun p => Nat.eqb (fst p) i) tr).

  Definition agree (R : Loc -> Prop) (s1 s2 : store) : Prop := forall l, R l -> s1 l = s2 l.
End Model.

Arguments mkAction {Loc Val Out}.
Arguments rd {Loc Val Out}.
Arguments wr {Loc Val Out}.
Arguments sem {Loc Val Out}.
Arguments Act {Loc Val Out}.
Arguments Acq {Loc Val Out}.
Arguments Rel {Loc Val Out}.
Arguments respects {Loc Val Out}.
Arguments writes {Loc Val Out}.
Arguments accesses {Loc Val Out}.
Arguments lock_free {Loc Val Out}.
Arguments free {Loc Val Out}.
Arguments step {Loc Val Out}.
Arguments steps {Loc Val Out}.
Arguments init {Loc Val Out}.
Arguments finished {Loc Val Out}.
Arguments interleaving {Loc Val Out}.
Arguments conflict {Loc Val Out}.
Arguments racy {Loc Val Out}.
Arguments has_race {Loc Val Out}.
Arguments exec {Loc Val Out}.
Arguments outs_of {Out}.
Arguments run {Loc Val Out}.
Arguments seq_run {Loc Val Out}.
Arguments proj {Loc Val Out}.
Arguments agree {Loc Val}.
