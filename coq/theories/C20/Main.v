(** C20 — from the regenerated inventory to the interleaving theorems.

    Locations are either private to a goroutine (everything reachable from the instances it created
    and from the arguments it passes) or one of the package-level variables of the inventory.  The
    access policy of a package-level variable is read off its classification:
    immutable => read-only, synchronised => guarded by a mutex, anything else => unrestricted.

    MODELLED, NOT VERIFIED (the footprint assumption): the operations of the library are represented
    by actions whose declared footprints lie in the caller's private locations and the listed
    package-level variables, and which treat each listed variable the way the translator's syntactic
    evidence says ([program_disciplined]); the Go memory model is represented by sequentially
    consistent interleaving of those actions, which is what Go guarantees for data-race-free
    programs. *)
From Coq Require Import String List Arith Bool.
From Algo.C20 Require Import Model Interleave Locks Inventory.
Import ListNotations.

Inductive gloc :=
| LPriv (owner addr : nat)       (* a location of the heap private to goroutine [owner] *)
| LGlob (g : nat).               (* the g-th package-level variable of the inventory *)

Lemma gloc_eq_dec : forall x y : gloc, {x = y} + {x <> y}.
Proof. decide equality; apply Nat.eq_dec. Qed.

Section Main.
  Variable rs : list review.
  Variable gs : list global.
  Variable lock_of : nat -> nat.       (* which mutex guards a synchronised variable: any assignment *)

  Definition policy (l : gloc) : access :=
    match l with
    | LPriv i _ => Private i
    | LGlob g =>
        match nth_error gs g with
        | Some x =>
            match effective_class rs x with
            | Immutable => ReadOnly
            | Synchronised => Guarded (lock_of g)
            | UnsyncMutable | Unclassified => Unrestricted
            end
        | None => ReadOnly             (* not a variable of the library: nothing may write it *)
        end
    end.

  Lemma benign_no_unrestricted :
    forallb (benign rs) gs = true -> no_unrestricted gloc policy.
  Proof.
    intros Hb [i a | g]; simpl; try discriminate.
    destruct (nth_error gs g) as [x|] eqn:E; try discriminate.
    rewrite forallb_forall in Hb. specialize (Hb x (nth_error_In _ _ E)).
    unfold benign in Hb. destruct (effective_class rs x); discriminate.
  Qed.

  Variables Val Out : Type.

  Theorem inventory_no_race_seq_equiv :
    forallb (benign rs) gs = true ->
    forall ts : list (thread gloc Val Out),
      program_disciplined gloc Val Out policy ts ->
      (forall t, In t ts -> forall a, In (Act a) t -> respects_obs gloc Val Out policy a) ->
      (forall pre c, steps (init ts) pre c -> ~ racy c) /\
      (forall tr, interleaving ts tr ->
         ~ has_race ts tr /\
         forall s i ti, nth_error ts i = Some ti ->
           outs_of i (snd (exec tr s)) = nth i (snd (seq_run ts s)) [] /\
           forall a, fst (exec tr s) (LPriv i a) = fst (seq_run ts s) (LPriv i a)).
  Proof.
    intros Hb ts Hd Hr. pose proof (benign_no_unrestricted Hb) as Hnu. split.
    - intros pre c Hs. eapply discipline_no_race; eauto.
    - intros tr Hi. split.
      + eapply discipline_no_race_interleaving; eauto.
      + intros s i ti Hti.
        destruct (discipline_seq_equiv gloc Val Out gloc_eq_dec policy ts Hnu Hd Hr tr Hi s i ti Hti)
          as [Ho Hp].
        split; auto.
  Qed.
End Main.

(** The premise is needed: a variable that stays unrestricted admits a conforming program
    (each goroutine only touches that variable) with a reachable data race. *)
Theorem unrestricted_global_races :
  forall rs gs lock_of g x,
    nth_error gs g = Some x -> benign rs x = false ->
    exists ts : list (thread gloc unit unit),
      program_disciplined gloc unit unit (policy rs gs lock_of) ts /\
      (forall t, In t ts -> forall a, In (Act a) t -> respects_obs gloc unit unit (policy rs gs lock_of) a) /\
      exists pre c, steps (init ts) pre c /\ racy c.
Proof.
  intros rs gs lock_of g x Hg Hb.
  set (w := mkAction (Val := unit) (Out := unit) [] [LGlob g] (fun s => (s, tt))).
  exists [[Act w]; [Act w]].
  assert (Hpol : policy rs gs lock_of (LGlob g) = Unrestricted).
  { simpl. rewrite Hg. unfold benign in Hb. destruct (effective_class rs x); try discriminate; auto. }
  split; [|split].
  - assert (Hd : forall k, disciplined gloc unit unit (policy rs gs lock_of) k [] [Act w]).
    { intros k. simpl. split; [|split]; auto.
      - intros l0 [].
      - intros l0 [<- | []]. unfold ok_write. rewrite Hpol. exact I. }
    intros i t Hi. destruct i as [|[|i]]; simpl in Hi.
    + inversion Hi; subst. apply Hd.
    + inversion Hi; subst. apply Hd.
    + destruct i; discriminate.
  - intros t Ht a Ha.
    assert (a = w) as ->.
    { destruct Ht as [<- | [<- | []]]; destruct Ha as [E | []]; inversion E; auto. }
    split; simpl; auto.
    intros s s' _. split; auto. intros l0 _ _. destruct (s l0), (s' l0). reflexivity.
  - apply (shared_write_races gloc unit unit [[Act w]; [Act w]] 0 1 [Act w] [Act w] w w); auto.
    + intros e [<- | []]. eauto.
    + intros e [<- | []]. eauto.
    + left; auto.
    + left; auto.
    + exists (LGlob g). left. split; simpl; auto.
Qed.

(** A review can only decide what the translator left open: a variable the translator saw written
    outside a critical section stays non-benign whatever the reviewed list says, and a review whose
    evidence text differs from the current evidence, or whose justification is empty, has no effect. *)
Lemma unsync_never_benign : forall rs g, g_class g = UnsyncMutable -> benign rs g = false.
Proof. intros rs g H. unfold benign, effective_class. rewrite H. reflexivity. Qed.

Lemma unclassified_needs_matching_review : forall rs g,
    g_class g = Unclassified -> benign rs g = true ->
    exists r, In r rs /\ matches r g = true /\ (r_as r = Immutable \/ r_as r = Synchronised).
Proof.
  intros rs g H Hb. unfold benign, effective_class in Hb. rewrite H in Hb.
  destruct (find (fun r => matches r g) rs) as [r|] eqn:E; try discriminate.
  apply find_some in E. destruct E as [Hin Hm].
  exists r. repeat split; auto. destruct (r_as r); try discriminate; auto.
Qed.

Lemma matching_review_pins_evidence : forall r g,
    matches r g = true ->
    r_pkg r = g_pkg g /\ r_name r = g_name g /\ r_evidence r = g_evidence g /\ r_why r <> EmptyString.
Proof.
  intros r g H. unfold matches in H.
  apply andb_true_iff in H. destruct H as [H Hwhy].
  apply andb_true_iff in H. destruct H as [H Hev].
  apply andb_true_iff in H. destruct H as [H _].
  apply andb_true_iff in H. destruct H as [Hp Hn].
  apply String.eqb_eq in Hp. apply String.eqb_eq in Hn. apply String.eqb_eq in Hev.
  repeat split; auto. intros E. rewrite E in Hwhy. discriminate.
Qed.
