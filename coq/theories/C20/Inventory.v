(** C20 — the shape of the regenerated inventory of package-level variables
    (coq/theories/Gen/C20_Globals.v, written by harness/cmd/gen-c20 from the Go sources)
    and of the hand-reviewed list (C20/Reviewed.v).  Definitions only. *)
From Coq Require Import String List Bool.
Import ListNotations.
Open Scope string_scope.

Inductive kind :=
  KFunc | KPointer | KSlice | KMap | KArray | KStruct | KBasic | KInterface | KChan | KSync | KOther.

(** what the translator's syntactic rules decided for a variable *)
Inductive classification :=
| Immutable        (* never written after package initialisation, directly or through an alias *)
| Synchronised     (* a sync primitive, or every access is inside a critical section of one mutex *)
| UnsyncMutable    (* written after initialisation outside a critical section *)
| Unclassified.    (* the rules decide nothing: needs an entry in the reviewed list *)

Record global := mkGlobal {
  g_pkg : string;
  g_name : string;
  g_kind : kind;
  g_class : classification;
  g_evidence : string
}.

(** A review pins package, name, kind AND the evidence text the translator printed: when the uses
    of the variable change, the evidence changes and the review no longer applies. *)
Record review := mkReview {
  r_pkg : string;
  r_name : string;
  r_kind : kind;
  r_evidence : string;
  r_as : classification;      (* Immutable or Synchronised *)
  r_why : string              (* the justification; must not be empty *)
}.

Definition kind_eqb (a b : kind) : bool :=
  match a, b with
  | KFunc, KFunc | KPointer, KPointer | KSlice, KSlice | KMap, KMap | KArray, KArray
  | KStruct, KStruct | KBasic, KBasic | KInterface, KInterface | KChan, KChan | KSync, KSync
  | KOther, KOther => true
  | _, _ => false
  end.

Definition matches (r : review) (g : global) : bool :=
  String.eqb (r_pkg r) (g_pkg g) && String.eqb (r_name r) (g_name g) &&
  kind_eqb (r_kind r) (g_kind g) && String.eqb (r_evidence r) (g_evidence g) &&
  negb (String.eqb (r_why r) "").

Definition effective_class (rs : list review) (g : global) : classification :=
  match g_class g with
  | Unclassified =>
      match find (fun r => matches r g) rs with
      | Some r => match r_as r with
                  | Immutable => Immutable
                  | Synchronised => Synchronised
                  | _ => Unclassified
                  end
      | None => Unclassified
      end
  | c => c
  end.

Definition benign (rs : list review) (g : global) : bool :=
  match effective_class rs g with
  | Immutable | Synchronised => true
  | UnsyncMutable | Unclassified => false
  end.
