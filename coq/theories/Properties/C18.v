(** C18 — Queue, stack and soft queue preserve order for every block size and history.
    STAGE 1 (pipeline): full statements as definitions, examples by computation.  The proofs of
    the full statements are being added in C18/Proofs*.v and replace this file's definitions by
    theorems. *)
From Algo.C18 Require Import Model Spec.
Open Scope Z_scope.

(** For every element type, zero value, EqualFunc, block size >= 1 and history: the queue never
    panics or hangs and every output (Dequeue, Peek, Contains, Size, IsEmpty) equals the output of
    the FIFO list machine. *)
Definition C18_queue_full : Prop :=
  forall (V : Type) (zero : V) (eqb : V -> V -> bool) (nodeSize : Z) (ops : list (op V)),
    1 <= nodeSize ->
    exists q, q_run V zero eqb nodeSize ops = Ok (q, lq_outs V zero eqb ops).

Definition C18_stack_full : Prop :=
  forall (V : Type) (zero : V) (eqb : V -> V -> bool) (nodeSize : Z) (ops : list (op V)),
    1 <= nodeSize ->
    exists s, s_run V zero eqb nodeSize ops = Ok (s, ls_outs V zero eqb ops).

Definition C18_softqueue_full : Prop :=
  forall (V : Type) (zero : V) (eqb : V -> V -> bool) (ops : list (sop V)),
    exists q, sq_run V zero eqb ops = Ok (q, snd (lsoft_run V zero eqb (lsoft_new V) ops)).

(** Non-vacuity and the D18 witness on the model of the fixed code: block size 2,
    Enqueue 1; Enqueue 2; Dequeue; Dequeue; Enqueue 3 (panicked before fix 713e226). *)
Example C18_example_queue :
  let ops := [OpAdd 1; OpAdd 2; OpRemove; OpRemove; OpAdd 3; OpContains 1; OpContains 3; OpRemove; OpRemove] in
  match q_run Z 0 Z.eqb 2 ops with
  | Ok (_, outs) => outs = lq_outs Z 0 Z.eqb ops /\
                    outs = [OutNone; OutNone; OutVal 1 true; OutVal 2 true; OutNone;
                            OutBool false; OutBool true; OutVal 3 true; OutVal 0 false]
  | _ => False
  end.
Proof. vm_compute. split; reflexivity. Qed.

Example C18_example_stack :
  let ops := [OpAdd 1; OpAdd 2; OpAdd 3; OpRemove; OpContains 3; OpPeek; OpRemove; OpRemove; OpRemove; OpAdd 4; OpSize] in
  match s_run Z 0 Z.eqb 2 ops with
  | Ok (_, outs) => outs = ls_outs Z 0 Z.eqb ops /\
                    outs = [OutNone; OutNone; OutNone; OutVal 3 true; OutBool false; OutVal 2 true;
                            OutVal 2 true; OutVal 1 true; OutVal 0 false; OutNone; OutInt 1]
  | _ => False
  end.
Proof. vm_compute. split; reflexivity. Qed.

Example C18_example_softqueue :
  let ops := [SEnqueue 5; SEnqueue 6; SDequeue; SContains 5; SPeek; SDequeue; SDequeue; SEnqueue 7; SValues; SSize] in
  match sq_run Z 0 Z.eqb ops with
  | Ok (_, outs) => outs = snd (lsoft_run Z 0 Z.eqb (lsoft_new Z) ops) /\
                    outs = [SOIdx 0; SOIdx 1; SOValIdx 5 0; SOIdx 0; SOValIdx 6 1; SOValIdx 6 1;
                            SOValIdx 0 (-1); SOIdx 2; SOVals [5; 6; 7]; SOIdx 1]
  | _ => False
  end.
Proof. vm_compute. split; reflexivity. Qed.
