(** C18 — Queue, stack and soft queue preserve order for every block size and history.
    Statements only; every proof is [exact]/[apply] of lemmas of C18/Proofs*.v.

    Model (C18/Model.v): [q_run V zero eqb nodeSize ops] runs the history [ops] on the model of
    list/queue.go (node heap, [frontIndex]/[rearIndex]/[listSize], [frontNode == nil] and the
    stale [rearNode] explicit) created by [NewQueue(nodeSize, eqb)]; [s_run] likewise for
    list/stack.go; [sq_run] for list/soft_queue.go.  Results are [Ok (final state, outputs)],
    [Panic] (index out of range / nil dereference) or [Hang] (loop fuel exhausted).
    [V] is any element type, [zero] its Go zero value, [eqb] any EqualFunc (no law is assumed).
    Spec (C18/Spec.v): [lq_step]/[ls_step] are the FIFO/LIFO machines on a plain [list V];
    [added ops] are the values put in by the history, [removed ops outs] the values handed out by
    its successful Dequeue/Pop calls, both in call order. *)
From Algo.C18 Require Import Model Spec Abs Unfixed Proofs ProofsStack ProofsSoft ProofsOrder ProofsAbs ProofsUnfixed.
From Coq Require Import Permutation.
Open Scope Z_scope.

(** * Queue *)

(** For every block size >= 1 and every history the queue never panics or hangs, and every
    output of every operation (Dequeue, Peek, Contains, Size, IsEmpty) equals the output of the
    FIFO list machine. *)
Theorem C18_queue_refines_fifo :
  forall (V : Type) (zero : V) (eqb : V -> V -> bool) (nodeSize : Z) (ops : list (op V)),
    1 <= nodeSize ->
    exists q, q_run V zero eqb nodeSize ops = Ok (q, lq_outs V zero eqb ops).
Proof.
  intros V zero eqb ns ops H.
  destruct (q_run_refines V zero eqb ns ops H) as (q & E & _). exists q; exact E.
Qed.

(** Order, on the history alone: the values dequeued so far are exactly the first values
    enqueued, in the same order; the rest ([live]) is what every observer answers about:
    Size, IsEmpty, Peek, and Contains — which is true only for a value [eqb]-equal to one that was
    enqueued and not yet dequeued. *)
Theorem C18_queue_order_and_observers :
  forall (V : Type) (zero : V) (eqb : V -> V -> bool) (nodeSize : Z) (ops : list (op V)) q outs,
    1 <= nodeSize ->
    q_run V zero eqb nodeSize ops = Ok (q, outs) ->
    let live := skipn (length (removed V ops outs)) (added V ops) in
    removed V ops outs ++ live = added V ops /\
    q_size V q = Z.of_nat (length live) /\
    q_isEmpty V q = is_nil live /\
    q_peek V zero q = Ok (hd_or_zero V zero live) /\
    (forall v, q_contains V eqb q v = Ok (existsb (fun x => eqb x v) live)).
Proof.
  intros V zero eqb ns ops q outs Hns E live.
  destruct (q_fifo V zero eqb ns ops q outs Hns E) as (l & H1 & H2 & HI).
  fold live in H2. subst l.
  destruct (q_observers V zero eqb q live HI) as (A & B & C & _ & D & _).
  repeat split; assumption.
Qed.

(** The live sequence can be read off the concrete state: iterating over the blocks from the
    front cursor to the rear cursor ([q_values], C18/Abs.v) yields exactly the enqueued values
    that were not dequeued yet, in order — the representation never loses, reorders or keeps
    reachable a stale cell. *)
Theorem C18_queue_state_holds_live_values :
  forall (V : Type) (zero : V) (eqb : V -> V -> bool) (nodeSize : Z) (ops : list (op V)) q outs,
    1 <= nodeSize ->
    q_run V zero eqb nodeSize ops = Ok (q, outs) ->
    q_values V q = Ok (skipn (length (removed V ops outs)) (added V ops)).
Proof.
  intros V zero eqb ns ops q outs Hns E.
  destruct (q_fifo V zero eqb ns ops q outs Hns E) as (l & _ & -> & HI).
  now apply q_values_ok.
Qed.

(** * Stack *)

Theorem C18_stack_refines_lifo :
  forall (V : Type) (zero : V) (eqb : V -> V -> bool) (nodeSize : Z) (ops : list (op V)),
    1 <= nodeSize ->
    exists s, s_run V zero eqb nodeSize ops = Ok (s, ls_outs V zero eqb ops).
Proof.
  intros V zero eqb ns ops H.
  destruct (s_run_refines V zero eqb ns ops H) as (s & E & _). exists s; exact E.
Qed.

(** Reverse push order: after any history, pushing [vs] and popping [length vs] times hands
    back [rev vs] (and never panics). *)
Theorem C18_stack_pops_in_reverse_push_order :
  forall (V : Type) (zero : V) (eqb : V -> V -> bool) (nodeSize : Z) (ops : list (op V)) (vs : list V),
    1 <= nodeSize ->
    exists s,
      s_run V zero eqb nodeSize (ops ++ map OpAdd vs ++ repeat OpRemove (length vs))
      = Ok (s, ls_outs V zero eqb ops ++ map (fun _ => OutNone) vs
                                      ++ map (fun v => OutVal v true) (rev vs)).
Proof.
  intros V zero eqb ns ops vs H.
  destruct (s_lifo V zero eqb ns ops vs H) as (s & E & _). exists s; exact E.
Qed.

(** The observers answer about the live sequence [ls_final ops] of the LIFO machine, and that
    sequence together with the values popped so far is a rearrangement of the values pushed:
    nothing is invented, duplicated, lost or reported after its removal. *)
Theorem C18_stack_observers :
  forall (V : Type) (zero : V) (eqb : V -> V -> bool) (nodeSize : Z) (ops : list (op V)) s outs,
    1 <= nodeSize ->
    s_run V zero eqb nodeSize ops = Ok (s, outs) ->
    let live := ls_final V zero eqb ops in
    Permutation (removed V ops outs ++ live) (added V ops) /\
    s_size V s = Z.of_nat (length live) /\
    s_isEmpty V s = is_nil live /\
    s_peek V zero s = Ok (hd_or_zero V zero live) /\
    (forall v, s_contains V eqb s v = Ok (existsb (fun x => eqb x v) live)).
Proof.
  intros V zero eqb ns ops s outs Hns E live.
  destruct (s_run_refines V zero eqb ns ops Hns) as (s0 & E0 & HI).
  rewrite E in E0. injection E0 as -> ->. fold live in HI.
  destruct (s_observers V zero eqb s0 live HI) as (A & B & C & _ & D & _).
  split; [apply (ls_perm V zero eqb ops []) | repeat split; assumption].
Qed.

(** Iterating over the blocks from the top cursor downwards ([s_values]) yields the live
    sequence of the LIFO machine. *)
Theorem C18_stack_state_holds_live_values :
  forall (V : Type) (zero : V) (eqb : V -> V -> bool) (nodeSize : Z) (ops : list (op V)) s outs,
    1 <= nodeSize ->
    s_run V zero eqb nodeSize ops = Ok (s, outs) ->
    s_values V s = Ok (ls_final V zero eqb ops).
Proof.
  intros V zero eqb ns ops s outs Hns E.
  destruct (s_run_refines V zero eqb ns ops Hns) as (s0 & E0 & HI).
  rewrite E in E0. injection E0 as -> _.
  now apply s_values_ok.
Qed.

(** * Soft queue *)

(** Every output equals the output of the abstract machine "all values ever enqueued + number of
    values dequeued" ([lsoft_step]): Enqueue returns the number of earlier enqueues, Dequeue/Peek
    return the value at the cursor with the cursor, or (zero,-1) when empty, Contains the first
    position of an [eqb]-equal value among all values ever enqueued, Values all of them. *)
Theorem C18_softqueue_refines :
  forall (V : Type) (zero : V) (eqb : V -> V -> bool) (ops : list (sop V)),
    exists q, sq_run V zero eqb ops = Ok (q, lsoft_outs V zero eqb ops).
Proof.
  intros V zero eqb ops.
  destruct (sq_run_refines V zero eqb ops) as (q & E & _). exists q; exact E.
Qed.

(** Stable positions: the index returned by Enqueue is where Values() holds the value in every
    later state. *)
Theorem C18_softqueue_enqueue_index_is_stable :
  forall (V : Type) (zero : V) (eqb : V -> V -> bool) (ops1 : list (sop V)) (v : V)
         (ops2 : list (sop V)) q1 outs1 q2 outs2,
    sq_run V zero eqb ops1 = Ok (q1, outs1) ->
    sq_run_from V zero eqb (fst (sq_enqueue V q1 v)) ops2 = Ok (q2, outs2) ->
    idx (sq_values V q2) (snd (sq_enqueue V q1 v)) = Ok v.
Proof. intros V zero eqb. apply sq_enqueue_stable. Qed.

(** Dequeue and Peek return the front value with its index: on every reachable state they give
    the same answer [r]; it is (zero,-1) iff the queue is empty, and otherwise Values() holds
    [fst r] at index [snd r], which is the number of values dequeued before. *)
Theorem C18_softqueue_front_value_and_index :
  forall (V : Type) (zero : V) (eqb : V -> V -> bool) (ops : list (sop V)) q outs,
    sq_run V zero eqb ops = Ok (q, outs) ->
    exists r,
      sq_peek V zero q = Ok r /\
      (exists q', sq_dequeue V zero q = Ok (q', r)) /\
      ((sq_isEmpty V q = true /\ r = (zero, -1)) \/
       (sq_isEmpty V q = false /\ 0 <= snd r /\ idx (sq_values V q) (snd r) = Ok (fst r) /\
        snd r = Z.of_nat (ls_done V (fst (lsoft_run V zero eqb (lsoft_new V) ops))))).
Proof. intros V zero eqb. apply sq_front_answer. Qed.

(** Values() hands out a value, not the queue's storage: the call leaves the state unchanged, and
    a Values call inserted anywhere in a history changes no other output and no later state —
    so nothing the caller does to the result (overwrite, sort, append) can be observed through the
    queue.  (The Go side of this — the returned slice is a copy — is checked by the harness's
    aliasing probe [W], which scribbles over the returned slice and re-runs every observer.) *)
Theorem C18_softqueue_values_independent :
  forall (V : Type) (zero : V) (eqb : V -> V -> bool) (q : softq V) (ops1 ops2 : list (sop V)),
    sq_step V zero eqb q SValues = Ok (q, SOVals (sq_values V q)) /\
    sq_run_from V zero eqb q (ops1 ++ SValues :: ops2)
    = bind (sq_run_from V zero eqb q ops1) (fun r1 =>
      bind (sq_run_from V zero eqb (fst r1) ops2) (fun r2 =>
        Ok (fst r2, snd r1 ++ SOVals (sq_values V (fst r1)) :: snd r2))).
Proof.
  intros V zero eqb q ops1 ops2. split; [apply sq_values_step | apply sq_values_transparent].
Qed.

(** Contains (which by design also sees the dequeued values) returns -1 iff no value ever enqueued
    is [eqb]-equal to the argument, and otherwise the first position in Values() holding one. *)
Theorem C18_softqueue_contains_first_position :
  forall (V : Type) (eqb : V -> V -> bool) (q : softq V) (v : V),
    (sq_contains V eqb q v = -1 /\ forallb (fun x => negb (eqb x v)) (sq_values V q) = true) \/
    (exists k x, sq_contains V eqb q v = Z.of_nat k /\
                 nth_error (sq_values V q) k = Some x /\ eqb x v = true /\
                 forallb (fun y => negb (eqb y v)) (firstn k (sq_values V q)) = true).
Proof. intros V eqb. apply sq_contains_first_position. Qed.

(** * Non-vacuity *)

(** The D18 witness on the model of the fixed code: block size 2,
    Enqueue 1; Enqueue 2; Dequeue; Dequeue; Enqueue 3 (the real code panicked before fix 713e226). *)
Example C18_example_queue :
  let ops := [OpAdd 1; OpAdd 2; OpRemove; OpRemove; OpAdd 3; OpContains 1; OpContains 3; OpRemove; OpRemove] in
  match q_run Z 0 Z.eqb 2 ops with
  | Ok (_, outs) => outs = [OutNone; OutNone; OutVal 1 true; OutVal 2 true; OutNone;
                            OutBool false; OutBool true; OutVal 3 true; OutVal 0 false]
  | _ => False
  end.
Proof. vm_compute. reflexivity. Qed.

Example C18_example_stack :
  let ops := [OpAdd 1; OpAdd 2; OpAdd 3; OpRemove; OpContains 3; OpPeek; OpRemove; OpRemove; OpRemove; OpAdd 4; OpSize] in
  match s_run Z 0 Z.eqb 2 ops with
  | Ok (_, outs) => outs = [OutNone; OutNone; OutNone; OutVal 3 true; OutBool false; OutVal 2 true;
                            OutVal 2 true; OutVal 1 true; OutVal 0 false; OutNone; OutInt 1]
  | _ => False
  end.
Proof. vm_compute. reflexivity. Qed.

Example C18_example_softqueue :
  let ops := [SEnqueue 5; SEnqueue 6; SDequeue; SContains 5; SPeek; SDequeue; SDequeue; SEnqueue 7; SValues; SSize] in
  match sq_run Z 0 Z.eqb ops with
  | Ok (_, outs) => outs = [SOIdx 0; SOIdx 1; SOValIdx 5 0; SOIdx 0; SOValIdx 6 1; SOValIdx 6 1;
                            SOValIdx 0 (-1); SOIdx 2; SOVals [5; 6; 7]; SOIdx 1]
  | _ => False
  end.
Proof. vm_compute. reflexivity. Qed.

(** Defect D18 (repaired in /repo by 713e226): the model of the code as it was before the fix
    ([q_run_unfixed], C18/Unfixed.v: [rearIndex] not reset when a drained queue allocates a fresh
    first block) panics on "fill one block, drain it, enqueue" for each of these block sizes,
    so the property was refuted by the unfixed code; the model of the current code does not. *)
Theorem C18_D18_unfixed_code_refuted :
  forallb (fun ns => is_panic (q_run_unfixed Z 0 Z.eqb (Z.of_nat ns) (d18_witness ns)) &&
                     is_ok (q_run Z 0 Z.eqb (Z.of_nat ns) (d18_witness ns)))
          [1; 2; 3; 4; 5; 7; 8; 64]%nat = true.
Proof. exact d18_unfixed_panics_fixed_does_not. Qed.

(** ... and for EVERY block size [ns >= 1], element type and values: filling exactly one block,
    draining it and enqueueing once more panics in the model of the pre-fix code — the defect
    did not depend on the block size, only on draining exactly at a block boundary. *)
Theorem C18_D18_unfixed_code_panics_for_every_block_size :
  forall (V : Type) (zero : V) (eqb : V -> V -> bool) (ns : nat) (vs : list V) (v : V),
    (1 <= ns)%nat -> length vs = ns ->
    q_run_unfixed V zero eqb (Z.of_nat ns) (map OpAdd vs ++ repeat OpRemove ns ++ [OpAdd v]) = Panic.
Proof. exact unfixed_panics_for_every_block_size. Qed.

(** The hypothesis [1 <= nodeSize] is necessary: with block size 0 the first Enqueue panics. *)
Example C18_example_blocksize_zero_panics :
  q_run Z 0 Z.eqb 0 [OpAdd 1] = Panic /\ s_run Z 0 Z.eqb 0 [OpAdd 1] = Panic.
Proof. vm_compute. split; reflexivity. Qed.

Print Assumptions C18_queue_refines_fifo.
Print Assumptions C18_queue_order_and_observers.
Print Assumptions C18_queue_state_holds_live_values.
Print Assumptions C18_stack_refines_lifo.
Print Assumptions C18_stack_state_holds_live_values.
Print Assumptions C18_stack_pops_in_reverse_push_order.
Print Assumptions C18_stack_observers.
Print Assumptions C18_softqueue_refines.
Print Assumptions C18_softqueue_enqueue_index_is_stable.
Print Assumptions C18_softqueue_front_value_and_index.
Print Assumptions C18_softqueue_values_independent.
Print Assumptions C18_softqueue_contains_first_position.
Print Assumptions C18_D18_unfixed_code_refuted.
Print Assumptions C18_D18_unfixed_code_panics_for_every_block_size.
