(** C10 — FIRST, FOLLOW and nullable sets are exact, and the LL(1) verdict matches them.
    Statements only; every proof is [exact]/[apply] of a lemma of C10/Proofs.v.

    Model (C10/Model.v): [NullableNonTerminals], [FIRST], [FOLLOW], [IsLL1], [BuildParsingTable]
    are the Go entry points; a result [None] would be a fixpoint loop that never finishes,
    [Some Panic] is a Go panic.  Semantics (C10/Spec.v, over [Algo.Grammar.CFG]):
      [nullable_nt G A]      A ⇒* ε
      [first_sem G α a]      α ⇒* a β for some β
      [nullable_str G α]     α ⇒* ε
      [follow_sem G A a]     S ⇒* u A a v for some u, v
      [follow_end G A]       S ⇒* u A for some u
    Go iterates over the productions in the randomised order of its hash tables, afresh in every
    pass of every loop.  In the model that order is an oracle [O] (one production order per pass
    and per loop); every theorem is stated for all oracles that enumerate exactly the productions
    ([oracle_ok G O]), so the results are independent of the iteration order
    ([C10_order_independent]).  The extracted model runs with [id_oracle G]. *)
From Coq Require Import List Permutation.
From Algo.C10 Require Import Model Spec Proofs ProofsIndep.
Import ListNotations.

(** NullableNonTerminals is exactly the set of non-terminals deriving the empty string
    (for every grammar, valid or not; the loop always terminates). *)
Theorem C10_nullable :
  forall (G : gram) (O : oracle), oracle_ok G O -> exists nu,
    NullableNonTerminals G O = Some nu /\ forall A, In A nu <-> nullable_nt G A.
Proof. exact nullable_thm. Qed.

(** FIRST(α), α over the grammar's symbols, contains exactly the terminals that can begin a
    sentential form derived from α, plus ε iff α derives the empty string. *)
Theorem C10_first :
  forall (G : gram) (O : oracle), oracle_ok G O -> forall alpha : list sym,
    Forall (fun s => known G s = true) alpha ->
    exists ts e, FIRST G O alpha = Some (Ok (ts, e))
                 /\ (forall a, In a ts <-> first_sem G alpha a)
                 /\ (e = true <-> nullable_str G alpha).
Proof. exact first_thm. Qed.

(** The FIRST closure panics on a symbol outside the grammar exactly when its scan reaches it,
    i.e. when everything before it derives ε. *)
Theorem C10_first_panic :
  forall (G : gram) (O : oracle), oracle_ok G O -> forall (alpha : list sym) (X : sym) (beta : list sym),
    Forall (fun s => known G s = true) alpha -> known G X = false ->
    (FIRST G O (alpha ++ X :: beta) = Some Panic <-> nullable_str G alpha).
Proof. exact first_panic_thm. Qed.

(** When every non-terminal is reachable from the start symbol, FOLLOW(A) contains exactly the
    terminals that can appear immediately after A in a sentential form derived from the start
    symbol, plus the endmarker iff A can end one. *)
Theorem C10_follow :
  forall (G : gram) (O : oracle), oracle_ok G O -> forall A : nat,
    valid G -> all_reachable G -> In A (nonterms G) ->
    exists ts e, FOLLOW G O A = Some (Ok (ts, e))
                 /\ (forall a, In a ts <-> follow_sem G A a)
                 /\ (e = true <-> follow_end G A).
Proof. exact follow_thm. Qed.

(** Without the reachability assumption FOLLOW is still complete (and total) for every grammar. *)
Theorem C10_follow_complete :
  forall (G : gram) (O : oracle), oracle_ok G O -> forall A : nat,
    In A (nonterms G) ->
    exists ts e, FOLLOW G O A = Some (Ok (ts, e))
                 /\ (forall a, follow_sem G A a -> In a ts) /\ (follow_end G A -> e = true).
Proof. exact follow_complete_thm. Qed.

(** A conflict in the predictive parsing table always comes with an IsLL1 error (every grammar). *)
Theorem C10_ll1_conflict :
  forall (G : gram) (O : oracle), oracle_ok G O -> forall t : table,
    BuildParsingTable G O = Some (t, true) -> IsLL1 G O = Some false.
Proof. exact ll1_conflict_thm. Qed.

(** For valid grammars the error of BuildParsingTable says exactly whether some cell holds more
    than one production ... *)
Theorem C10_table_cells :
  forall (G : gram) (O : oracle), oracle_ok G O -> valid G ->
    exists t c, BuildParsingTable G O = Some (t, c) /\ (c = false <-> table_deterministic t).
Proof. exact table_cells_thm. Qed.

(** ... and when all non-terminals are reachable and productive, IsLL1 reports no error exactly
    when the table has at most one production per cell. *)
Theorem C10_ll1_table :
  forall (G : gram) (O : oracle), oracle_ok G O -> valid G -> all_reachable G -> all_productive G ->
    exists t c, BuildParsingTable G O = Some (t, c)
                /\ (IsLL1 G O = Some true <-> c = false)
                /\ (c = false <-> table_deterministic t).
Proof. exact ll1_iff_thm. Qed.

(** None of the fixpoint loops runs forever. *)
Theorem C10_terminates : forall (G : gram) (O : oracle), oracle_ok G O -> analyse G O <> None.
Proof. exact analyse_terminates. Qed.

(** The nullable set does not depend on the iteration oracle nor on the order in which the
    productions are listed (the same follows for FIRST, and for FOLLOW under reachability, from
    their characterisations above, which do not mention the oracle). *)
Theorem C10_order_independent :
  forall (G G' : gram) (O O' : oracle), oracle_ok G O -> oracle_ok G' O' ->
    Permutation (prods G) (prods G') ->
    forall nu nu', NullableNonTerminals G O = Some nu -> NullableNonTerminals G' O' = Some nu' ->
                   forall A, In A nu <-> In A nu'.
Proof. exact order_independent. Qed.

(** For every grammar (valid or not, with or without unreachable non-terminals) all observable
    results are independent of the iteration oracle: the nullable set, FIRST(α) and FOLLOW(A) as
    sets (or the panic), the IsLL1 verdict and the BuildParsingTable verdict. *)
Theorem C10_oracle_independent :
  forall (G : gram) (O O' : oracle), oracle_ok G O -> oracle_ok G O' ->
    (forall nu nu', NullableNonTerminals G O = Some nu -> NullableNonTerminals G O' = Some nu' ->
                    forall A, In A nu <-> In A nu')
    /\ (forall alpha, res_equiv (FIRST G O alpha) (FIRST G O' alpha))
    /\ (forall A, res_equiv (FOLLOW G O A) (FOLLOW G O' A))
    /\ IsLL1 G O = IsLL1 G O'
    /\ (forall t c t' c', BuildParsingTable G O = Some (t, c) -> BuildParsingTable G O' = Some (t', c') -> c = c').
Proof. exact oracle_independent. Qed.

(** The oracle of the extracted model (the order of the production list in every pass) is one of
    the oracles the theorems cover; so is every oracle made of permutations. *)
Theorem C10_id_oracle_ok : forall G : gram, oracle_ok G (id_oracle G).
Proof. exact id_oracle_ok. Qed.

Theorem C10_permutation_oracle_ok :
  forall (G : gram) (O : oracle),
    (forall i, Permutation (o_null O i) (prods G)) ->
    (forall i, Permutation (o_first O i) (prods G)) ->
    (forall i, Permutation (o_follow O i) (prods G)) -> oracle_ok G O.
Proof. exact permutation_oracle_ok. Qed.

(** Non-vacuity:  S → A B t0 | ε ;  A → ε | t1 ;  B → A A  *)
Example C10_example :
  let G := mkGrammar [0;1] [0;1;2]
             [mkProd 0 [Nt 1; Nt 2; Tm 0]; mkProd 0 []; mkProd 1 []; mkProd 1 [Tm 1]; mkProd 2 [Nt 1; Nt 1]] 0 in
  let O := id_oracle G in
  NullableNonTerminals G O = Some [2; 1; 0]
  /\ FIRST G O [Nt 2; Tm 0] = Some (Ok ([0; 1], false))
  /\ FOLLOW G O 1 = Some (Ok ([1; 0], false))
  /\ IsLL1 G O = Some false
  /\ FIRST G O [Nt 1; Tm 7] = Some Panic.
Proof. vm_compute. repeat split. Qed.

(** the dragon-book expression grammar is LL(1) and its table has no conflict *)
Example C10_example_ll1 :
  let G := mkGrammar [0;1;2;3;4] [0;1;2;3;4]
             [mkProd 0 [Nt 2; Nt 1]; mkProd 1 [Tm 0; Nt 2; Nt 1]; mkProd 1 []; mkProd 2 [Nt 4; Nt 3];
              mkProd 3 [Tm 1; Nt 4; Nt 3]; mkProd 3 []; mkProd 4 [Tm 2; Nt 0; Tm 3]; mkProd 4 [Tm 4]] 0 in
  IsLL1 G (id_oracle G) = Some true /\ (exists t, BuildParsingTable G (id_oracle G) = Some (t, false)) /\ verify G = true.
Proof. vm_compute. repeat split. eexists. reflexivity. Qed.

Print Assumptions C10_nullable.
Print Assumptions C10_first.
Print Assumptions C10_first_panic.
Print Assumptions C10_follow.
Print Assumptions C10_follow_complete.
Print Assumptions C10_ll1_conflict.
Print Assumptions C10_table_cells.
Print Assumptions C10_ll1_table.
Print Assumptions C10_terminates.
Print Assumptions C10_order_independent.
Print Assumptions C10_oracle_independent.
Print Assumptions C10_id_oracle_ok.
Print Assumptions C10_permutation_oracle_ok.
