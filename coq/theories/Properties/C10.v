(** C10 — FIRST, FOLLOW and nullable sets are exact, and the LL(1) verdict matches them.
    Preliminary file (stage 1): the full statements and a non-vacuity example. *)
From Algo.C10 Require Import Model Spec.

Definition C10_nullable_full : Prop :=
  forall G : gram, exists nu, NullableNonTerminals G = Some nu /\
    forall A, In A nu <-> nullable_nt G A.

(** S → A B t0 | ε ; A → ε | t1 ; B → A A *)
Example C10_example :
  let G := mkGrammar [0;1] [0;1;2]
             [mkProd 0 [Nt 1; Nt 2; Tm 0]; mkProd 0 []; mkProd 1 []; mkProd 1 [Tm 1]; mkProd 2 [Nt 1; Nt 1]] 0 in
  NullableNonTerminals G = Some [2; 1; 0]
  /\ FIRST G [Nt 2; Tm 0] = Some (Ok ([0; 1], false))
  /\ FOLLOW G 1 = Some (Ok ([1; 0], false))
  /\ IsLL1 G = Some false.
Proof. vm_compute. repeat split. Qed.
