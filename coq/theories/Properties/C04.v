(** C04 — Heaps are priority queues: Delete/Peek always return an extremal key.
    Statements only; every proof is [exact]/[apply] of a lemma of C04/Proofs*.v.

    [run K V cmp eqv i sizes ops] is the list of outputs of the history [ops] on a pool of
    [length sizes] heaps of implementation [i] (binary / binomial / Fibonacci; [sizes] are the
    initial sizes given to [NewBinary]) under the comparator [cmp] and the value equality [eqv].
    [accepts … bags ops outs] says that [outs] is allowed by the bag specification (C04/Spec.v):
    [Size] is the number of held entries, [Peek]/[Delete] answer a held entry whose key is
    extremal (any such entry), [Delete] removes exactly that entry, [ContainsKey]/[ContainsValue]
    are membership over the held multiset, [Merge] gives the receiver the multiset union, and no
    operation panics or hangs (the specification has no rule for [OPanic]/[OHang]).
    [well_scoped]: every operation addresses a live heap of the pool; a heap passed to [Merge] is
    not used afterwards (the Go code shares its nodes with the receiver).
    Min and max orientation are the same theorem: it holds for every comparator satisfying
    [TotalOrder], and the reversed comparator satisfies it too ([C04_reverse_comparator]). *)
From Algo.C04 Require Import Model Spec ProofsCommon ProofsBinary ProofsBinomial ProofsBinomialShape ProofsFib ProofsMaxDeg Proofs.
Open Scope Z_scope.

(** Binary heap: every history, every initial size, every total-order comparator. *)
Theorem C04_simulates_binary :
  forall (K V : Type) (cmp : K -> K -> Z) (eqv : V -> V -> bool), TotalOrder K cmp ->
  forall (sizes : list nat) (ops : list (hop K V)),
    well_scoped K V false (all_live sizes) ops = true ->
    accepts K V cmp eqv (empty_bags sizes) ops (run K V cmp eqv Binary sizes ops).
Proof. intros K V cmp eqv TO. exact (binary_simulates cmp eqv TO). Qed.

(** Binomial heap: every history on a pool of heaps, including [Merge] (multiset union). *)
Theorem C04_simulates_binomial :
  forall (K V : Type) (cmp : K -> K -> Z) (eqv : V -> V -> bool), TotalOrder K cmp ->
  forall (sizes : list nat) (ops : list (hop K V)),
    well_scoped K V true (all_live sizes) ops = true ->
    accepts K V cmp eqv (empty_bags sizes) ops (run K V cmp eqv Binomial sizes ops).
Proof. intros K V cmp eqv TO. exact (binomial_simulates cmp eqv TO). Qed.

(** Fibonacci heap: every history on a pool of heaps, including [Merge]; in particular
    [consolidate] never leaves its fuel ([OHang]) and never indexes outside the degree table
    of size [maxDegree(n)] ([OPanic]). *)
Theorem C04_simulates_fibonacci :
  forall (K V : Type) (cmp : K -> K -> Z) (eqv : V -> V -> bool), TotalOrder K cmp ->
  forall (sizes : list nat) (ops : list (hop K V)),
    well_scoped K V true (all_live sizes) ops = true ->
    accepts K V cmp eqv (empty_bags sizes) ops (run K V cmp eqv Fibonacci sizes ops).
Proof. intros K V cmp eqv TO. exact (fibonacci_simulates cmp eqv TO). Qed.

(** The property in one statement: three implementations x min/max orientation x every initial
    size x every well-scoped history ([mergeable Binary = false]: no [Merge] on the binary heap). *)
Theorem C04_heaps_are_priority_queues :
  forall (K V : Type) (cmp : K -> K -> Z) (eqv : V -> V -> bool), TotalOrder K cmp ->
  forall (i : impl) (sizes : list nat) (ops : list (hop K V)),
    well_scoped K V (mergeable i) (all_live sizes) ops = true ->
    accepts K V cmp eqv (empty_bags sizes) ops (run K V cmp eqv i sizes ops) /\
    accepts K V (fun a b => cmp b a) eqv (empty_bags sizes) ops
            (run K V (fun a b => cmp b a) eqv i sizes ops).
Proof. intros K V cmp eqv TO. exact (both_orientations cmp eqv TO). Qed.

(** What [accepts] says about one step, spelled out (so that the specification cannot hide a
    weak reading): an answered [Delete] returns a held entry whose key precedes every held key,
    and exactly that entry leaves the bag; [Size] is the number of held entries; [ContainsKey]
    is membership up to [cmp = 0]; [Merge] is multiset union and kills the argument. *)
Theorem C04_spec_delete :
  forall (K V : Type) (cmp : K -> K -> Z) (eqv : V -> V -> bool) B e B',
    spec_step K V cmp eqv B Delete (OEntry (Some e)) B' ->
    In e B /\ (forall x, In x B -> cmp (fst e) (fst x) <= 0) /\ Permutation.Permutation B (e :: B').
Proof. intros K V cmp eqv. exact (delete_meaning cmp eqv). Qed.

Theorem C04_spec_size :
  forall (K V : Type) (cmp : K -> K -> Z) (eqv : V -> V -> bool) B n B',
    spec_step K V cmp eqv B Size (ONat n) B' -> n = length B /\ B' = B.
Proof. intros K V cmp eqv. exact (size_meaning cmp eqv). Qed.

Theorem C04_spec_contains_key :
  forall (K V : Type) (cmp : K -> K -> Z) (eqv : V -> V -> bool) B k b B',
    spec_step K V cmp eqv B (ContainsKey k) (OBool b) B' ->
    (b = true <-> exists e, In e B /\ cmp (fst e) k = 0) /\ B' = B.
Proof. intros K V cmp eqv. exact (contains_key_meaning cmp eqv). Qed.

Theorem C04_spec_merge :
  forall (K V : Type) (cmp : K -> K -> Z) (eqv : V -> V -> bool) P i j r P',
    pspec_step K V cmp eqv P (i, Merge j) r P' ->
    exists Bi Bj B', i <> j /\ nth_error P i = Some (Some Bi) /\ nth_error P j = Some (Some Bj) /\
                    Permutation.Permutation B' (Bi ++ Bj) /\ r = ONone /\
                    P' = upd (upd P i (Some B')) j None.
Proof. intros K V cmp eqv. exact (merge_meaning cmp eqv). Qed.

(** What the package's own [verify()] checks holds in every reachable state
    ([p_final]: the pool after the history).
    Binary ([binv]): [n < len(heap)], slot 0 and the slots above [n] are nil, slots [1..n] are not,
    every parent precedes its children.
    Binomial ([ninv], [nshape]): heap-ordered trees, [n] = number of nodes, root orders strictly
    increasing, every tree a binomial tree (a node of order [o] has children of orders [o-1 … 0]).
    Fibonacci ([finv]): heap-ordered trees with at least [2^degree] nodes whose children have the
    degrees [degree-1 … 0] (binomial trees: the non-indexed heap never cuts), [n] = number of
    nodes, the entry point [h.ext] of the root ring has an extremal key. *)
Theorem C04_binary_invariant :
  forall (K V : Type) (cmp : K -> K -> Z) (eqv : V -> V -> bool), TotalOrder K cmp ->
  forall sizes ops, well_scoped K V false (all_live sizes) ops = true ->
  forall i h, nth_error (p_final K V cmp eqv (p_init K V Binary sizes) ops) i = Some (Some h) ->
              exists b, h = HB b /\ binv cmp b.
Proof.
  intros K V cmp eqv TO sizes ops Hws i h Hi.
  pose proof (binary_invariant cmp eqv TO sizes ops Hws i h Hi) as H. destruct h; simpl in H; try tauto; eauto.
Qed.

Theorem C04_binomial_invariant :
  forall (K V : Type) (cmp : K -> K -> Z) (eqv : V -> V -> bool), TotalOrder K cmp ->
  forall sizes ops, well_scoped K V true (all_live sizes) ops = true ->
  forall i h, nth_error (p_final K V cmp eqv (p_init K V Binomial sizes) ops) i = Some (Some h) ->
              exists b, h = HN b /\ ninv cmp b /\ nshape b.
Proof.
  intros K V cmp eqv TO sizes ops Hws i h Hi.
  pose proof (binomial_invariant cmp eqv TO sizes ops Hws i h Hi) as H. destruct h; simpl in H; try tauto; eauto.
Qed.

Theorem C04_fibonacci_invariant :
  forall (K V : Type) (cmp : K -> K -> Z) (eqv : V -> V -> bool), TotalOrder K cmp ->
  forall sizes ops, well_scoped K V true (all_live sizes) ops = true ->
  forall i h, nth_error (p_final K V cmp eqv (p_init K V Fibonacci sizes) ops) i = Some (Some h) ->
              exists b, h = HF b /\ finv cmp b.
Proof.
  intros K V cmp eqv TO sizes ops Hws i h Hi.
  pose proof (fibonacci_invariant cmp eqv TO sizes ops Hws i h Hi) as H. destruct h; simpl in H; try tauto; eauto.
Qed.

(** … hence the transcriptions [b_verify], [n_verify], [f_verify] of the three [verify()] methods
    answer true in every reachable state (the harness compares this with the real method). *)
Theorem C04_verify_true :
  forall (K V : Type) (cmp : K -> K -> Z) (eqv : V -> V -> bool), TotalOrder K cmp ->
  forall (i : impl) sizes ops, well_scoped K V (mergeable i) (all_live sizes) ops = true ->
  forall j h, nth_error (p_final K V cmp eqv (p_init K V i sizes) ops) j = Some (Some h) ->
              h_verify K V cmp h = true.
Proof. intros K V cmp eqv TO. exact (verify_true cmp eqv TO). Qed.

(** Binomial heap: [n] is the sum of [2^order] over the root list and the orders are strictly
    increasing, i.e. the root orders are exactly the positions of the one-bits of [n]. *)
Theorem C04_binomial_roots_are_bits_of_n :
  forall (K V : Type) (cmp : K -> K -> Z) (eqv : V -> V -> bool), TotalOrder K cmp ->
  forall sizes ops, well_scoped K V true (all_live sizes) ops = true ->
  forall i b, nth_error (p_final K V cmp eqv (p_init K V Binomial sizes) ops) i = Some (Some (HN b)) ->
    n_n K V b = sum2 (ords (n_head K V b)) /\ Sorted.StronglySorted lt (ords (n_head K V b)).
Proof. intros K V cmp eqv TO. exact (binomial_bits cmp eqv TO). Qed.

(** Fibonacci heap: after a Delete that returned an entry, the root degrees are pairwise
    distinct ([consolidate] leaves at most one tree per degree); [finv] holds in every reachable
    state by [C04_fibonacci_invariant]. *)
Theorem C04_fibonacci_delete_consolidates :
  forall (K V : Type) (cmp : K -> K -> Z), TotalOrder K cmp ->
  forall (b b' : fheap K V) e,
    finv cmp b -> f_delete K V cmp b = Ok (b', Some e) -> NoDup (map (ft_degree K V) (f_ring K V b')).
Proof. intros K V cmp TO. exact (f_delete_consolidates cmp TO maxdeg_ok). Qed.

(** The degree table suffices: a tree of degree [d] has at least [2^d] nodes (no cuts in the
    non-indexed heap) and [maxDegree(n) = 1 + max {d | φ^d <= n} > log2 n]. *)
Theorem C04_degree_table_bound :
  forall d n : nat, (2 ^ d <= n)%nat -> (d < max_degree n)%nat.
Proof. exact ProofsMaxDeg.maxdeg_ok. Qed.

(** The max orientation is an instance: the reversed comparator is a total order again. *)
Theorem C04_reverse_comparator :
  forall (K : Type) (cmp : K -> K -> Z), TotalOrder K cmp -> TotalOrder K (fun a b => cmp b a).
Proof. intros K cmp TO. exact (TotalOrder_reverse cmp TO). Qed.

(** The executable acceptor that judges the Go implementation's outputs (extracted, run by the
    driver on every trace) only accepts what the specification allows. *)
Theorem C04_acceptor_sound :
  forall (K V : Type) (cmp : K -> K -> Z) (eqv : V -> V -> bool) (eqe : entry K V -> entry K V -> bool),
    (forall a b, eqe a b = true -> a = b) ->
    forall P ops outs, check_trace K V cmp eqv eqe P ops outs = true -> accepts K V cmp eqv P ops outs.
Proof. intros K V cmp eqv eqe H. exact (check_trace_sound cmp eqv eqe H). Qed.

(** … and accepts everything the specification allows, however the bags are listed: an [api]
    verdict of the driver is never a false alarm of the acceptor. *)
Theorem C04_acceptor_complete :
  forall (K V : Type) (cmp : K -> K -> Z) (eqv : V -> V -> bool) (eqe : entry K V -> entry K V -> bool),
    (forall a b, eqe a b = true -> a = b) -> (forall a, eqe a a = true) ->
    forall P ops outs, accepts K V cmp eqv P ops outs ->
      forall P1, peq P P1 -> check_trace K V cmp eqv eqe P1 ops outs = true.
Proof. intros K V cmp eqv eqe H1 H2. exact (check_trace_complete cmp eqv eqe H1 H2). Qed.

(** Non-vacuity: a concrete history (duplicates of the extremal key, growth from size 0). *)
Example C04_example :
  run nat nat (fun a b => Z.of_nat a - Z.of_nat b) Nat.eqb Binary [0%nat]
      [(0, Insert 2 20); (0, Insert 1 10); (0, Insert 1 11); (0, Peek); (0, Delete); (0, Size);
       (0, ContainsKey 1); (0, ContainsValue 10)]%nat
  = [ONone; ONone; ONone; OEntry (Some (1, 10)); OEntry (Some (1, 10)); ONat 2; OBool true; OBool false]%nat.
Proof. vm_compute. reflexivity. Qed.

(** … and one with two mergeable heaps: ties, Merge, consolidation, for both implementations. *)
Example C04_example_merge :
  let ops := [(0, Insert 3 30); (0, Insert 1 10); (1, Insert 1 11); (1, Insert 2 20); (1, Insert 5 50);
              (0, Merge 1); (0, Size); (0, Delete); (0, Delete); (0, Peek); (0, ContainsKey 5);
              (0, ContainsValue 10); (0, IsEmpty)]%nat in
  let cmpn := fun a b => Z.of_nat a - Z.of_nat b in
  well_scoped nat nat true (all_live [0; 0]%nat) ops = true /\
  run nat nat cmpn Nat.eqb Binomial [0; 0]%nat ops
  = [ONone; ONone; ONone; ONone; ONone; ONone; ONat 5; OEntry (Some (1, 10)); OEntry (Some (1, 11));
     OEntry (Some (2, 20)); OBool true; OBool false; OBool false]%nat /\
  run nat nat cmpn Nat.eqb Fibonacci [0; 0]%nat ops
  = [ONone; ONone; ONone; ONone; ONone; ONone; ONat 5; OEntry (Some (1, 10)); OEntry (Some (1, 11));
     OEntry (Some (2, 20)); OBool true; OBool false; OBool false]%nat.
Proof. vm_compute. repeat split. Qed.

Print Assumptions C04_simulates_binary.
Print Assumptions C04_simulates_binomial.
Print Assumptions C04_simulates_fibonacci.
Print Assumptions C04_heaps_are_priority_queues.
Print Assumptions C04_spec_delete.
Print Assumptions C04_spec_merge.
Print Assumptions C04_binary_invariant.
Print Assumptions C04_binomial_invariant.
Print Assumptions C04_fibonacci_invariant.
Print Assumptions C04_verify_true.
Print Assumptions C04_binomial_roots_are_bits_of_n.
Print Assumptions C04_fibonacci_delete_consolidates.
Print Assumptions C04_degree_table_bound.
Print Assumptions C04_reverse_comparator.
Print Assumptions C04_acceptor_sound.
Print Assumptions C04_acceptor_complete.
