(** C04 — placeholder, first stage; replaced by the real statements once Proofs.v exists. *)
From Algo.C04 Require Import Model Spec.
Open Scope Z_scope.

Example C04_example :
  run nat nat (fun a b => Z.of_nat a - Z.of_nat b) Nat.eqb Binary [0%nat]
      [(0, Insert 2 20); (0, Insert 1 10); (0, Insert 1 11); (0, Peek); (0, Delete); (0, Size)]%nat
  = [ONone; ONone; ONone; OEntry (Some (1, 10)); OEntry (Some (1, 10)); ONat 2]%nat.
Proof. vm_compute. reflexivity. Qed.
