(** C11 — a conflict-free LR table accepts exactly L(G) and yields a valid derivation.
    (stage-1 placeholder: the theorems follow in C11/Proofs*.v) *)
From Algo.C11 Require Import Model.
Import ListNotations.

(** Non-vacuity: the SLR table that parser/lr/simple builds for S -> a b a | S S a
    (a = 0, b = 1, S = 18) accepts "aba" and "abaabaa" and rejects "abaa". *)
Definition ex_S : nat := 18.
Definition ex_p1 : prod := mkProd ex_S [Tm 0; Tm 1; Tm 0].
Definition ex_p2 : prod := mkProd ex_S [Nt ex_S; Nt ex_S; Tm 0].
Definition ex_tbl : table := mkTable
  [ (0, Some 0, Shift 6); (1, Some 0, Shift 6); (1, None, Accept);
    (2, Some 0, Reduce ex_p2); (2, Some 1, Shift 5); (2, None, Reduce ex_p2);
    (3, Some 0, Reduce ex_p1); (3, None, Reduce ex_p1); (4, Some 0, Shift 2);
    (5, Some 0, Shift 3); (6, Some 1, Shift 5) ]%Z
  [ (0, ex_S, 1); (1, ex_S, 4); (4, ex_S, 4) ]%Z.

Example C11_example :
  (match parse 100 ex_tbl [0;1;0] with Accepted evs => prods_of evs | _ => [] end) = [ex_p1] /\
  (match parse 100 ex_tbl [0;1;0;0] with Rejected _ _ => true | _ => false end) = true /\
  (match parse 100 ex_tbl [0;1;0;0;1;0;0] with Accepted evs => prods_of evs | _ => [] end) = [ex_p1; ex_p1; ex_p2].
Proof. vm_compute. repeat split. Qed.
