(** C11 — a conflict-free LR table accepts exactly L(G) and yields a valid derivation.
    Statements only; proofs live in C11/Proofs*.v.

    Design (translation validation): the Go constructions (SLR, LALR, canonical LR) are not
    trusted.  Every table they build is dumped by the harness and the boolean certificate
    [table_ok] (and [term_ok]) below is evaluated on it by the extracted code on every run.
    The theorems here say what a certified table guarantees for the driver
    lr.Parser.Parse / ParseAndBuildAST, for every grammar, table and input. *)
From Coq Require Import List ZArith.
From Algo.Grammar Require Import CFG.
From Algo.C11 Require Import Model ModelPrec ModelSLR ModelLR1 Spec Proofs ProofsTerm ProofsOracle ProofsPrec ProofsPrecExpr ProofsLR0 ProofsSLR ProofsCLR ProofsLALR ProofsChain ProofsChain2 ProofsFuel ProofsGen ProofsClosure1 ProofsComplete ProofsCompleteSLR ProofsCompleteLALR ProofsTerm2 ProofsTerm3 ProofsTerm4 ProofsTerm5.
Import ListNotations.

(** Callbacks.  [Parse(tokenF, prodF)] takes two optional callbacks (either may be nil) and
    [ParseAndBuildAST] / [ParseAndEvaluate] are [Parse] with particular callbacks.  In the model
    the callbacks are not parameters at all: [run] is a function of the table and the input only
    and returns the sequence of events (tokens shifted, productions reduced) that the callbacks
    would observe; [prods_of] and [ast_of] are projections of that one sequence.  Hence the
    verdict, the production sequence and the tokens cannot depend on which callbacks are
    installed; the harness drives Parse(nil,nil), Parse(tokenF,nil), Parse(nil,prodF),
    Parse(tokenF,prodF), ParseAndBuildAST and ParseAndEvaluate on every input and any
    disagreement between them (or a hang in one of them) is a kind=api mismatch. *)

(** Soundness of the driver over any certified table: if [Parse] accepts [w] then [w] is a
    sentence of [G], the productions passed to the production callback are a rightmost
    derivation of [w] in reverse, and the tree built by [ParseAndBuildAST] is a parse tree of
    [G] rooted at the start symbol with yield [w] whose internal nodes are exactly the emitted
    productions (post-order). *)
Theorem C11_driver_sound :
  forall (G : gram) (tbl : table) (lbl : list (list sym)) (fuel : nat) (w : list nat) (evs : list event),
    table_ok G tbl lbl = true ->
    parse fuel tbl w = Accepted evs ->
    L G w /\
    rightmost_reverse G (prods_of evs) w /\
    wf_tree G (ast_of evs) /\ root (ast_of evs) = Nt (start G) /\
    yield (ast_of evs) = map Some w /\
    postorder (ast_of evs) = prods_of evs.
Proof. intros G tbl lbl fuel w evs OK H. exact (driver_sound G tbl lbl OK w fuel evs H). Qed.

(** Termination: over a table that also passes [term_ok B] (no reduce-only cycle: from every
    pair of adjacent stack states and every lookahead the reductions stop or pop below the pair
    within [B] steps) the loop of [Parse] runs at most [B * (1 + |w| * (B + 1)) + 1] times, for
    every input; it never returns [Hang], and more fuel never changes the result. *)
Theorem C11_driver_terminates :
  forall (G : gram) (tbl : table) (lbl : list (list sym)) (B : nat) (w : list nat) (fuel : nat),
    table_ok G tbl lbl = true -> term_ok B tbl = true ->
    B * (1 + length w * (B + 1)) + 1 <= fuel ->
    parse fuel tbl w <> Hang /\
    forall fuel', fuel <= fuel' -> parse fuel' tbl w = parse fuel tbl w.
Proof.
  intros G tbl lbl B w fuel OK TOK Hf.
  assert (H : parse fuel tbl w <> Hang) by (apply (driver_terminates G tbl lbl OK w B TOK); exact Hf).
  split; [exact H|]. intros fuel' Hle. now apply parse_fuel_irrelevant.
Qed.

(** Precedence, at the level of [resolveConflict] (for every list of levels, every pair of
    operators and both iteration orders of the action set): the shift/reduce conflict between
    shifting [o2] and reducing a production whose first terminal is [o1] is resolved to the
    reduction iff [o1] binds tighter or both are on one LEFT level, to the shift iff [o2] binds
    tighter or both are on one RIGHT level, and stays a conflict otherwise. *)
Theorem C11_prec_resolve :
  forall (ls : levels) (o1 o2 : nat) (t : Z) (p : prod),
    first_terminal (body p) = Some o1 ->
    let answer := match group_left ls o1 o2 with
                  | Some true => Some (Reduce p) | Some false => Some (Shift t) | None => None end in
    resolve_conflict ls (Some o2) [Shift t; Reduce p] = answer /\
    resolve_conflict ls (Some o2) [Reduce p; Shift t] = answer.
Proof. intros ls o1 o2 t p Hp. exact (resolve_shift_reduce ls o1 o2 t p Hp). Qed.

(** Cells with any number of actions.  If every action of ACTION[s,a] has a declared handle and
    different actions lie on different precedence levels ([ranked_cell]), then for EVERY order
    (and multiplicity) in which the cell is enumerated [resolveConflict] succeeds and returns the
    action on the highest level (smallest level index): the running maximum never meets an
    undetermined comparison.  (When two actions of the cell share a level the Go loop is genuinely
    order dependent: whether the tie is ever compared depends on the iteration order; such cells
    are outside this statement and outside the generators.) *)
Theorem C11_prec_resolve_any :
  forall (ls : levels) (a : look) (l : list action),
    l <> [] -> ranked_cell ls a l ->
    exists x k, resolve_conflict ls a l = Some x /\ In x l /\ alevel ls a x = Some k /\
      forall y ky, In y l -> alevel ls a y = Some ky -> k <= ky.
Proof. intros ls a l. apply resolve_conflict_max. Qed.

Theorem C11_prec_resolve_order_independent :
  forall (ls : levels) (a : look) (l l' : list action),
    l <> [] -> ranked_cell ls a l -> (forall x, In x l <-> In x l') ->
    resolve_conflict ls a l = resolve_conflict ls a l'.
Proof. intros ls a l l'. apply resolve_conflict_order_independent. Qed.

(** Precedence, at the level of the parser: for E -> E op E | ( E ) | id with 1, 2 or 3
    operators and every declaration [ls] (every ordered partition of the operators into levels,
    every associativity per level: 3 + 21 + 219 declarations), the modelled SLR construction
    with ResolveConflicts either yields a table whose parser accepts [id o1 id o2 id] and
    builds the tree that groups to the left iff [group_left ls o1 o2 = Some true] (and to the
    right iff [Some false]), or reports a conflict exactly because some pair of operators is
    left undetermined by the declaration (a NONE level). *)
Theorem C11_prec :
  forall (ops : list nat) (ls : levels) (o1 o2 : nat),
    In ops [[15]; [15; 16]; [15; 16; 19]] -> In ls (assignments ops) -> In o1 ops -> In o2 ops ->
    match build_slr 60 (expr_grammar ops) ls with
    | BuiltOk tbl =>
        exists b evs, group_left ls o1 o2 = Some b /\
          parse 200 tbl [tI; o1; tI; o2; tI] = Accepted evs /\
          ast_of evs = grouped b o1 o2
    | BuiltConflict _ => exists a b, In a ops /\ In b ops /\ group_left ls a b = None
    | _ => False
    end.
Proof. intros ops ls o1 o2. apply prec_grouping. Qed.

(** The full statement of the property.  [build] stands for one of the three Go constructions
    seen as a function from grammars to "table or conflict".  Status of its clauses:
    - soundness half of [recognises] (accept => sentence, rightmost derivation, AST yield) and
      termination: THEOREMS for every certified table ([C11_driver_sound], [C11_driver_terminates]),
      and the modelled SLR / LALR / canonical LR(1) constructions always return certified tables
      ([C11_slr/lalr/clr_construction_ok]); the Go tables are certified per instance and are
      compared, cell by cell up to state renumbering, with the modelled tables on every run;
    - the chain SLR ok => LALR ok => LR(1) ok: THEOREM on the modelled constructions
      ([C11_chain]; only premise: the LR(1) collection completes within the given fuel), tied to the Go code by the same table equality and
      additionally checked per instance on the Go verdicts;
    - completeness (every sentence is accepted) and agreement of the accepted languages:
      THEOREMS for the three modelled constructions ([C11_slr_complete], [C11_lalr_complete],
      [C11_clr_complete], the [_recognises_exactly] corollaries "accepted for some fuel <-> L G w",
      and [C11_constructions_agree]); tied to the Go code by the per-run table equality, and
      additionally searched per instance against the oracle [lang_upto] (proved exact up to its
      bound) and witnessed longer sentences;
    - that the driver also terminates on NON-sentences over constructed tables (so that "not
      accepted" becomes "Rejected" in [recognises]): THEOREMS for the three modelled constructions
      and every valid grammar whose non-terminals all generate ([C11_clr_terminates],
      [C11_slr_terminates], [C11_lalr_terminates], the [_recognises] and [C11_full_*_clause]
      corollaries, and [C11_full_modelled] which collects the five clauses; the hypothesis is
      necessary: [C11_nongenerating_hangs_refuted]); [term_ok] is still evaluated per table on
      the Go tables. *)
Definition reduced (G : gram) : Prop :=
  (forall A, In A (nonterms G) -> exists u v, derives G [Nt (start G)] (u ++ Nt A :: v)) /\
  (forall A, In A (nonterms G) -> exists x, derives G [Nt A] (map Tm x)).

Definition recognises (G : gram) (tbl : table) : Prop :=
  forall w, exists fuel,
    (forall f, fuel <= f -> parse f tbl w = parse fuel tbl w) /\
    match parse fuel tbl w with
    | Accepted evs => L G w /\ rightmost_reverse G (prods_of evs) w /\
                      yield (ast_of evs) = map Some w /\ postorder (ast_of evs) = prods_of evs
    | Rejected _ _ => ~ L G w
    | Hang => False
    end.

Definition C11_full (build_slr build_lalr build_clr : gram -> option table) : Prop :=
  forall G, reduced G ->
    (forall t, build_slr G = Some t -> recognises G t) /\
    (forall t, build_lalr G = Some t -> recognises G t) /\
    (forall t, build_clr G = Some t -> recognises G t) /\
    (build_slr G <> None -> build_lalr G <> None) /\
    (build_lalr G <> None -> build_clr G <> None).

(** What the proved theorems give towards [recognises] for a certified table: everything but
    "rejected strings are non-sentences". *)
Theorem C11_recognises_partial :
  forall (G : gram) (tbl : table) (lbl : list (list sym)) (B : nat),
    table_ok G tbl lbl = true -> term_ok B tbl = true ->
    forall w, exists fuel,
      (forall f, fuel <= f -> parse f tbl w = parse fuel tbl w) /\
      match parse fuel tbl w with
      | Accepted evs => L G w /\ rightmost_reverse G (prods_of evs) w /\
                        yield (ast_of evs) = map Some w /\ postorder (ast_of evs) = prods_of evs
      | Rejected _ _ => True
      | Hang => False
      end.
Proof.
  intros G tbl lbl B OK TOK w. exists (B * (1 + length w * (B + 1)) + 1).
  destruct (C11_driver_terminates G tbl lbl B w _ OK TOK (le_n _)) as [Hn Hm].
  split; [exact Hm|].
  destruct (parse (B * (1 + length w * (B + 1)) + 1) tbl w) as [evs|r e|] eqn:E; auto.
  destruct (C11_driver_sound G tbl lbl _ w evs OK E) as [H1 [H2 [_ [_ [H3 H4]]]]]. auto.
Qed.

(** The termination certificate is exact at the level of stack configurations, and monotone in
    its bound.  If the symbolic run from the known stack part [known] on lookahead [a] has not
    stopped after [B] steps, the driver itself performs [B] consecutive reductions from every
    stack [known ++ rest] on that lookahead (so [term_ok B] rejects a table only when such a
    run of [Parse] exists); a table accepted with bound [B] is accepted with every larger bound.
    NOT proved: that the tables of the modelled constructions always pass [term_ok] for some
    computable [B] ("conflict-free => no derivation cycle A =>+ A reachable in the automaton");
    [term_ok 400] is therefore evaluated on every table on every run.  Termination of the driver
    on every input over the modelled canonical LR(1), SLR(1) and LALR(1) tables is proved by
    other routes, without [term_ok]: [C11_clr_terminates], [C11_slr_terminates] and
    [C11_lalr_terminates] below (the latter two do show that no run of reductions from a stack
    the driver can have is infinite, but bound its length by a function of the stack). *)
Theorem C11_term_ok_exact :
  forall (tbl : table) (B : nat) (a : look) (known rest : list Z) (inp : list nat) (out : list event),
    sim_run B tbl a known = SimLoop -> hd_error inp = a ->
    run B tbl (known ++ rest) inp out = Hang.
Proof. intros tbl B a known rest inp out H Ha. exact (sim_loop_hang tbl B a known H rest inp out Ha). Qed.

Theorem C11_term_ok_mono :
  forall (tbl : table) (B B' : nat), term_ok B tbl = true -> B <= B' -> term_ok B' tbl = true.
Proof. intros tbl B B'. apply term_ok_mono. Qed.

(** The membership oracle used for the completeness search is exact up to its length bound
    whenever it answers: it lists a string iff the string is a sentence of length <= n. *)
Theorem C11_oracle_sound :
  forall (G : gram) (fuel n : nat) (l : list (list nat)) (w : list nat),
    lang_upto fuel G n = Some l -> mem_str w l = true -> L G w.
Proof. intros G fuel n l w. apply lang_upto_sound. Qed.

Theorem C11_oracle_complete :
  forall (G : gram) (fuel n : nat) (l : list (list nat)) (w : list nat),
    lang_upto fuel G n = Some l -> L G w -> length w <= n -> mem_str w l = true.
Proof. intros G fuel n l w. apply lang_upto_complete. Qed.

(** About the modelled LR(0)/SLR construction (compared cell by cell, up to state renumbering,
    with the tables parser/lr/simple builds, on every run): CLOSURE is extensive and adds only
    items [B -> . gamma] of the grammar, and every state of the canonical collection has an
    access string [l] such that the part before the dot of each of its items is a suffix of [l]
    (so the body of every reduction entered for the state is a suffix of [l]: the labels that
    [table_ok] asks for exist). *)
Theorem C11_lr0_closure :
  forall (ps : list prod) (I : list item) (x : item),
    (In x I -> In x (closure ps I)) /\
    (In x (closure ps I) -> In x I \/ (snd x = 0 /\ In (fst x) ps)).
Proof. intros ps I x. split; [apply closure_incl|apply closure_items]. Qed.

Theorem C11_lr0_access_strings :
  forall (fuel : nat) (G : gram) (C : list (list item)),
    canonical fuel G = Some C ->
    forall I, In I C -> exists l, forall x, In x I ->
      In (fst x) (prods (augment G)) /\ snd x <= length (body (fst x)) /\
      exists pre, l = pre ++ firstn (snd x) (body (fst x)).
Proof.
  intros fuel G C H I HI.
  pose proof (canonical_states_have_access_strings fuel G C H) as HF.
  rewrite Forall_forall in HF. destruct (HF I HI) as [l Hl]. exists l. exact Hl.
Qed.

(** The modelled SLR(1) construction always produces certified tables: for every grammar whose
    body terminals are declared, every fuel and every declaration of precedence levels, a table
    returned by [build_slr] (LR(0) canonical collection, FOLLOW, ResolveConflicts) passes
    [table_ok] — with, as label of a state, the longest part before the dot among its items.
    Together with [C11_driver_sound]: the parser over any table the modelled SLR construction
    returns accepts only sentences and emits a rightmost derivation in reverse with the right
    AST, for all grammars and inputs.  (The Go SLR tables are compared with the model's, cell
    by cell up to state renumbering, on every run.) *)
Theorem C11_slr_construction_ok :
  forall (G : gram) (fuel : nat) (ls : levels) (tbl : table),
    (forall p c, In p (prods G) -> In (Tm c) (body p) -> In c (terms G)) ->
    build_slr fuel G ls = BuiltOk tbl ->
    exists lbl, table_ok G tbl lbl = true.
Proof.
  intros G fuel ls tbl Hvalid H.
  destruct (canonical fuel G) as [C|] eqn:EC.
  - exists (map lp C). exact (slr_table_ok G Hvalid fuel C EC ls tbl H).
  - unfold build_slr, slr_raw in H. rewrite EC in H. discriminate.
Qed.

Corollary C11_slr_parser_sound :
  forall (G : gram) (fuel : nat) (ls : levels) (tbl : table) (f : nat) (w : list nat) (evs : list event),
    (forall p c, In p (prods G) -> In (Tm c) (body p) -> In c (terms G)) ->
    build_slr fuel G ls = BuiltOk tbl ->
    parse f tbl w = Accepted evs ->
    L G w /\ rightmost_reverse G (prods_of evs) w /\
    yield (ast_of evs) = map Some w /\ postorder (ast_of evs) = prods_of evs.
Proof.
  intros G fuel ls tbl f w evs Hvalid Hb Hp.
  destruct (C11_slr_construction_ok G fuel ls tbl Hvalid Hb) as [lbl OK].
  destruct (C11_driver_sound G tbl lbl f w evs OK Hp) as [H1 [H2 [_ [_ [H3 H4]]]]]. auto.
Qed.

(** The same for the modelled canonical LR(1) construction (LR(1) closure with FIRST(beta a),
    GOTO, canonical collection, reduce on the item's lookahead, ResolveConflicts). *)
Theorem C11_clr_construction_ok :
  forall (G : gram) (fuel : nat) (ls : levels) (tbl : table),
    (forall p c, In p (prods G) -> In (Tm c) (body p) -> In c (terms G)) ->
    build_clr fuel G ls = BuiltOk tbl ->
    exists lbl, table_ok G tbl lbl = true.
Proof.
  intros G fuel ls tbl Hvalid H.
  destruct (canonical1 fuel G) as [C|] eqn:EC.
  - exists (map lp1 C). exact (clr_table_ok G Hvalid fuel C EC ls tbl H).
  - unfold build_clr, finish, clr_raw in H. rewrite EC in H. discriminate.
Qed.

Corollary C11_clr_parser_sound :
  forall (G : gram) (fuel : nat) (ls : levels) (tbl : table) (f : nat) (w : list nat) (evs : list event),
    (forall p c, In p (prods G) -> In (Tm c) (body p) -> In c (terms G)) ->
    build_clr fuel G ls = BuiltOk tbl ->
    parse f tbl w = Accepted evs ->
    L G w /\ rightmost_reverse G (prods_of evs) w /\
    yield (ast_of evs) = map Some w /\ postorder (ast_of evs) = prods_of evs.
Proof.
  intros G fuel ls tbl f w evs Hvalid Hb Hp.
  destruct (C11_clr_construction_ok G fuel ls tbl Hvalid Hb) as [lbl OK].
  destruct (C11_driver_sound G tbl lbl f w evs OK Hp) as [H1 [H2 [_ [_ [H3 H4]]]]]. auto.
Qed.

(** The same for the modelled LALR(1) construction: the canonical LR(1) states with equal
    cores are merged (a merged state is the union of its class; its GOTO is the class of the
    GOTO of the class representative).  Labels depend on cores only, so the merged state
    inherits the label of its members. *)
Theorem C11_lalr_construction_ok :
  forall (G : gram) (fuel : nat) (ls : levels) (tbl : table),
    (forall p c, In p (prods G) -> In (Tm c) (body p) -> In c (terms G)) ->
    build_lalr fuel G ls = BuiltOk tbl ->
    exists lbl, table_ok G tbl lbl = true.
Proof.
  intros G fuel ls tbl Hvalid H.
  destruct (canonical1 fuel G) as [C|] eqn:EC.
  - eexists. exact (lalr_table_ok G Hvalid fuel C EC ls tbl H).
  - unfold build_lalr, finish, lalr_raw in H. rewrite EC in H. discriminate.
Qed.

Corollary C11_lalr_parser_sound :
  forall (G : gram) (fuel : nat) (ls : levels) (tbl : table) (f : nat) (w : list nat) (evs : list event),
    (forall p c, In p (prods G) -> In (Tm c) (body p) -> In c (terms G)) ->
    build_lalr fuel G ls = BuiltOk tbl ->
    parse f tbl w = Accepted evs ->
    L G w /\ rightmost_reverse G (prods_of evs) w /\
    yield (ast_of evs) = map Some w /\ postorder (ast_of evs) = prods_of evs.
Proof.
  intros G fuel ls tbl f w evs Hvalid Hb Hp.
  destruct (C11_lalr_construction_ok G fuel ls tbl Hvalid Hb) as [lbl OK].
  destruct (C11_driver_sound G tbl lbl f w evs OK Hp) as [H1 [H2 [_ [_ [H3 H4]]]]]. auto.
Qed.

(** The chain, on the modelled constructions and without precedence declarations.
    LALR conflict-free implies canonical LR(1) conflict-free, for every grammar and fuel: the
    actions an LR(1) state enters into a cell are entered by its merged class into the same cell
    (up to the shift target), so a conflict in a member is a conflict in the class. *)
Theorem C11_lalr_ok_implies_clr_ok :
  forall (G : gram) (fuel : nat) (t : table),
    build_lalr fuel G [] = BuiltOk t -> exists t', build_clr fuel G [] = BuiltOk t'.
Proof.
  intros G fuel t H. destruct (canonical1 fuel G) as [C|] eqn:EC.
  - exact (lalr_ok_clr_ok G fuel C EC t H).
  - unfold build_lalr, finish, lalr_raw in H. rewrite EC in H. discriminate.
Qed.

(** SLR conflict-free implies LALR conflict-free (no precedence declarations), for every valid
    grammar ([valid_grammar], what CFG.Verify demands: body symbols and start symbol declared,
    every declared non-terminal has a production).  The only fuel premise left is that the LR(1)
    collection was completed within [fuel1] (the model takes that fuel as a parameter; otherwise
    the LALR construction answers BuiltNoFuel, not a conflict).  Discharged fuels: CLOSURE0 is
    closed, and the round-robin FIRST and FOLLOW iterations stop at fixpoints
    ([follow_fix_ok_aug]: the environments are bounded by |P|(|T|+2) entries).  Proof: every
    LR(1) state has its cores inside a state of the LR(0) collection, every item lookahead is in
    FOLLOW of the item's head (FOLLOW is closed under its rules at a fixpoint), so two different
    actions in a cell of a merged class are two different actions in a cell of that LR(0) state. *)
Theorem C11_follow_fuel_suffices :
  forall G : gram, valid_grammar G -> follow_fix_ok (augment G) = true.
Proof. exact follow_fix_ok_aug. Qed.

Theorem C11_slr_ok_implies_lalr_ok :
  forall (G : gram) (fuel0 fuel1 : nat) (t0 : table) (C1 : list (list item1)),
    valid_grammar G ->
    build_slr fuel0 G [] = BuiltOk t0 -> canonical1 fuel1 G = Some C1 ->
    exists t1, build_lalr fuel1 G [] = BuiltOk t1.
Proof.
  intros G fuel0 fuel1 t0 C1 Hv HS HC. pose proof (follow_fix_ok_aug G Hv) as Hf. apply Nat.eqb_eq in Hf.
  exact (slr_ok_lalr_ok G (proj1 Hv) Hf fuel0 fuel1 C1 HC t0 HS).
Qed.

(** The chain on the modelled constructions: SLR ok => LALR ok => canonical LR(1) ok. *)
Theorem C11_chain :
  forall (G : gram) (fuel0 fuel1 : nat) (t0 : table) (C1 : list (list item1)),
    valid_grammar G ->
    build_slr fuel0 G [] = BuiltOk t0 -> canonical1 fuel1 G = Some C1 ->
    (exists t1, build_lalr fuel1 G [] = BuiltOk t1) /\ (exists t2, build_clr fuel1 G [] = BuiltOk t2).
Proof.
  intros G fuel0 fuel1 t0 C1 Hv HS HC.
  destruct (C11_slr_ok_implies_lalr_ok G fuel0 fuel1 t0 C1 Hv HS HC) as [t1 H1].
  split; [eauto|]. exact (C11_lalr_ok_implies_clr_ok G fuel1 t1 H1).
Qed.

(** COMPLETENESS of the modelled canonical LR(1) construction (no precedence declarations): for
    every valid grammar, if [build_clr] returns a (conflict-free) table then the driver over that
    table accepts every sentence of the grammar.  Proof (ProofsComplete.v): big-step induction on
    the generation of the sentence — for an item [A -> alpha . X beta, a] of the state on top of
    the stack, X =>* u and a remaining input compatible with (beta, a), the driver consumes u and
    pushes GOTO(state, X): terminals are shifted; for X -> gamma the closure item [X -> . gamma, b]
    with b the next input token is in the state (the LR(1) CLOSURE is closed, its fuel is proved
    sufficient; b is in FIRST(beta a) because the computed nullable set and FIRST sets are
    complete), gamma is processed symbol by symbol, and the reduce entry on b is the only entry
    of its cell because the table is conflict-free.  With [C11_clr_parser_sound]: the accepted
    language is exactly L(G). *)
Theorem C11_clr_complete :
  forall (G : gram) (fuel : nat) (tbl : table) (w : list nat),
    valid_grammar G -> build_clr fuel G [] = BuiltOk tbl -> L G w ->
    exists f evs, parse f tbl w = Accepted evs.
Proof.
  intros G fuel tbl w Hv Hb HL. destruct (canonical1 fuel G) as [C|] eqn:EC.
  - exact (clr_complete G Hv fuel C EC tbl Hb w HL).
  - unfold build_clr, finish, clr_raw in Hb. rewrite EC in Hb. discriminate.
Qed.

Theorem C11_clr_recognises_exactly :
  forall (G : gram) (fuel : nat) (tbl : table) (w : list nat),
    valid_grammar G -> build_clr fuel G [] = BuiltOk tbl ->
    ((exists f evs, parse f tbl w = Accepted evs) <-> L G w).
Proof.
  intros G fuel tbl w Hv Hb. split.
  - intros [f [evs Hp]].
    destruct (C11_clr_parser_sound G fuel [] tbl f w evs (proj1 (proj1 Hv)) Hb Hp) as [HL _]. exact HL.
  - apply (C11_clr_complete G fuel tbl w Hv Hb).
Qed.

(** COMPLETENESS of the modelled SLR(1) construction, same statement: the reduce entries are found
    through FOLLOW (closed under its rules at the fixpoint, which its fuel is proved to reach), the
    LR(0) CLOSURE is closed, and the table is conflict-free. *)
Theorem C11_slr_complete :
  forall (G : gram) (fuel : nat) (tbl : table) (w : list nat),
    valid_grammar G -> build_slr fuel G [] = BuiltOk tbl -> L G w ->
    exists f evs, parse f tbl w = Accepted evs.
Proof.
  intros G fuel tbl w Hv Hb HL. destruct (canonical fuel G) as [C|] eqn:EC.
  - exact (slr_complete G Hv fuel C EC tbl Hb w HL).
  - unfold build_slr, slr_raw in Hb. rewrite EC in Hb. discriminate.
Qed.

Theorem C11_slr_recognises_exactly :
  forall (G : gram) (fuel : nat) (tbl : table) (w : list nat),
    valid_grammar G -> build_slr fuel G [] = BuiltOk tbl ->
    ((exists f evs, parse f tbl w = Accepted evs) <-> L G w).
Proof.
  intros G fuel tbl w Hv Hb. split.
  - intros [f [evs Hp]].
    destruct (C11_slr_parser_sound G fuel [] tbl f w evs (proj1 (proj1 Hv)) Hb Hp) as [HL _]. exact HL.
  - apply (C11_slr_complete G fuel tbl w Hv Hb).
Qed.

(** COMPLETENESS of the modelled LALR(1) construction (merge LR(1) states by core), same
    statement.  Extra ingredient: the cores of CLOSURE and GOTO do not depend on lookaheads
    (whether a closure item receives any lookahead is decided by its parent's core), so the GOTO
    of a merged class is the class of the GOTO of any member. *)
Theorem C11_lalr_complete :
  forall (G : gram) (fuel : nat) (tbl : table) (w : list nat),
    valid_grammar G -> build_lalr fuel G [] = BuiltOk tbl -> L G w ->
    exists f evs, parse f tbl w = Accepted evs.
Proof.
  intros G fuel tbl w Hv Hb HL. destruct (canonical1 fuel G) as [C|] eqn:EC.
  - exact (lalr_complete G Hv fuel C EC tbl Hb w HL).
  - unfold build_lalr, finish, lalr_raw in Hb. rewrite EC in Hb. discriminate.
Qed.

Theorem C11_lalr_recognises_exactly :
  forall (G : gram) (fuel : nat) (tbl : table) (w : list nat),
    valid_grammar G -> build_lalr fuel G [] = BuiltOk tbl ->
    ((exists f evs, parse f tbl w = Accepted evs) <-> L G w).
Proof.
  intros G fuel tbl w Hv Hb. split.
  - intros [f [evs Hp]].
    destruct (C11_lalr_parser_sound G fuel [] tbl f w evs (proj1 (proj1 Hv)) Hb Hp) as [HL _]. exact HL.
  - apply (C11_lalr_complete G fuel tbl w Hv Hb).
Qed.

(** All successful modelled constructions accept the same strings (namely L(G)). *)
Theorem C11_constructions_agree :
  forall (G : gram) (f0 f1 f2 : nat) (t0 t1 t2 : table) (w : list nat),
    valid_grammar G ->
    build_slr f0 G [] = BuiltOk t0 -> build_lalr f1 G [] = BuiltOk t1 -> build_clr f2 G [] = BuiltOk t2 ->
    ((exists f evs, parse f t0 w = Accepted evs) <-> (exists f evs, parse f t1 w = Accepted evs)) /\
    ((exists f evs, parse f t1 w = Accepted evs) <-> (exists f evs, parse f t2 w = Accepted evs)).
Proof.
  intros G f0 f1 f2 t0 t1 t2 w Hv H0 H1 H2.
  pose proof (C11_slr_recognises_exactly G f0 t0 w Hv H0) as E0.
  pose proof (C11_lalr_recognises_exactly G f1 t1 w Hv H1) as E1.
  pose proof (C11_clr_recognises_exactly G f2 t2 w Hv H2) as E2.
  split; [rewrite E0, E1|rewrite E1, E2]; reflexivity.
Qed.

(** TERMINATION ON EVERY INPUT over the tables of the modelled canonical LR(1) construction (no
    precedence declarations).  For every valid grammar all of whose declared non-terminals
    generate a terminal string ([generating], the second half of [reduced]), every conflict-free
    table returned by [build_clr] and EVERY token list [w] there is a fuel [F] for which [Parse]
    does not return [Hang] (it accepts or rejects), and more fuel never changes the result.
    Proof (ProofsTerm2.v): every item of a state on the driver's stack is semantically valid for
    the string spelled by the stack (CLOSURE and GOTO preserve "S' =>* delta A z with the lookahead
    at the head of z", by soundness of the computed nullable set and FIRST sets and because every
    non-terminal generates); hence the valid-prefix property: an ACTION entry for the current
    state and token means that the input read so far followed by that token can be completed to
    a sentence; the driver accepts that sentence ([C11_clr_complete]) and, until the token is
    shifted, makes the same moves on it as on the actual input; so every token is shifted, or the
    input rejected, after finitely many steps.  The bound is not given in closed form. *)
Theorem C11_clr_terminates :
  forall (G : gram) (fuel : nat) (tbl : table) (w : list nat),
    valid_grammar G -> generating G -> build_clr fuel G [] = BuiltOk tbl ->
    exists F, parse F tbl w <> Hang /\ forall f, F <= f -> parse f tbl w = parse F tbl w.
Proof.
  intros G fuel tbl w Hv Hg Hb. destruct (canonical1 fuel G) as [C|] eqn:EC.
  - destruct (clr_no_hang G Hv Hg fuel C EC tbl Hb w) as [F HF]. exists F. split; [exact HF|].
    intros f Hle. now apply parse_fuel_irrelevant.
  - unfold build_clr, finish, clr_raw in Hb. rewrite EC in Hb. discriminate.
Qed.

(** Hence the full [recognises] clause of the property for the modelled canonical LR(1)
    construction: for every input the driver stabilises on a verdict; "accepted" comes with a
    rightmost derivation in reverse and the AST, and "rejected" means that the input is not a
    sentence. *)
Theorem C11_clr_recognises :
  forall (G : gram) (fuel : nat) (tbl : table),
    valid_grammar G -> generating G -> build_clr fuel G [] = BuiltOk tbl -> recognises G tbl.
Proof.
  intros G fuel tbl Hv Hg Hb w.
  destruct (C11_clr_terminates G fuel tbl w Hv Hg Hb) as [F [HF Hm]]. exists F. split; [exact Hm|].
  destruct (parse F tbl w) as [evs|r e|] eqn:E; [| |congruence].
  - exact (C11_clr_parser_sound G fuel [] tbl F w evs (proj1 (proj1 Hv)) Hb E).
  - intros HL. destruct (C11_clr_complete G fuel tbl w Hv Hb HL) as [f [evs Hf]].
    assert (Hnh : parse f tbl w <> Hang) by (rewrite Hf; discriminate).
    pose proof (parse_fuel_irrelevant tbl w f (Nat.max F f) Hnh (Nat.le_max_r _ _)) as E1.
    pose proof (Hm (Nat.max F f) (Nat.le_max_l _ _)) as E2. congruence.
Qed.

(** The canonical-LR clause of [C11_full], for the modelled construction (a build function is the
    modelled construction at some fuel, returning a table only for [BuiltOk]). *)
Theorem C11_full_clr_clause :
  forall (G : gram) (fuel : nat) (t : table),
    valid_grammar G -> reduced G -> build_clr fuel G [] = BuiltOk t -> recognises G t.
Proof. intros G fuel t Hv [_ Hg]. exact (C11_clr_recognises G fuel t Hv Hg). Qed.

(** The hypothesis [generating] cannot be dropped: for S -> d C, C -> A Y M, Y -> a, M -> M c,
    A -> A | b (valid for CFG.Verify; M generates nothing, so FIRST(M) is empty and the item
    [C -> A . Y M, $] contributes no closure item for Y) the modelled canonical LR(1) and LALR(1)
    constructions return one and the same conflict-free table, over which the driver reduces
    A -> A forever on the input "d b a": [Parse] returns [Hang] for every fuel.  (The Go
    implementation behaves in the same way on this grammar: its canonical table is conflict-free
    and lr.Parser.Parse does not return on "d b a"; non-reduced grammars are outside the domain
    of [C11_full].) *)
Theorem C11_nongenerating_hangs_refuted :
  exists (G : gram) (tbl : table) (w : list nat),
    valid_grammar G /\ build_clr 50 G [] = BuiltOk tbl /\ build_lalr 50 G [] = BuiltOk tbl /\
    forall f, parse f tbl w = Hang.
Proof.
  exists hang_G, hang_tbl, [3; 1; 0]. split; [exact hang_G_valid|].
  split; [exact (proj1 hang_G_built)|]. split; [exact (proj2 hang_G_built)|]. exact hang_G_hangs.
Qed.

(** The same statement for the SLR and LALR tables.  The proof for the canonical tables does not
    transfer: it rests on the valid-prefix property (an ACTION entry for state and token implies
    that the consumed input followed by the token is a prefix of a sentence), which only the
    canonical LR(1) lookaheads have; SLR and LALR tables may perform reductions on a token that
    cannot follow and detect the error later.  What has to be shown is that a run of consecutive
    reductions of the driver on a fixed lookahead is finite. *)
Definition C11_slr_terminates_full : Prop :=
  forall (G : gram) (fuel : nat) (tbl : table) (w : list nat),
    valid_grammar G -> generating G -> build_slr fuel G [] = BuiltOk tbl ->
    exists F, parse F tbl w <> Hang /\ forall f, F <= f -> parse f tbl w = parse F tbl w.

Definition C11_lalr_terminates_full : Prop :=
  forall (G : gram) (fuel : nat) (tbl : table) (w : list nat),
    valid_grammar G -> generating G -> build_lalr fuel G [] = BuiltOk tbl ->
    exists F, parse F tbl w <> Hang /\ forall f, F <= f -> parse f tbl w = parse F tbl w.

(** TERMINATION ON EVERY INPUT over the tables of the modelled SLR(1) construction: THEOREM.
    Proof (ProofsTerm3.v – ProofsTerm5.v).  (1) Combinatorics, for any table: a run of
    reductions on a fixed lookahead that is longer than the number of stacks of bounded height
    never stops — either a stack repeats, or the stack has grown above a state that repeats on
    top of itself and the run between the two occurrences, which does not look below the lower
    one, can be replayed for ever ([long_infinite]).  (2) No such infinite run exists from a stack
    the driver can have ([no_infinite]): every stack of the run spells a viable prefix that
    derives the consumed input, with derivation forests growing by one node per reduction; every
    item of an LR(0) state is valid for the spelled prefix with some right context (the state is
    the closure of its kernel; every non-terminal generates), and the driver reconstructs every
    right-sentential form of a conflict-free table in exactly as many steps as the forest has
    nodes (big-step completeness with step counts); so each stack of the run is reached by the
    driver, arbitrarily late, on a sentence (consumed input)(right context); among these sentences
    infinitely many have the same next token, the moves up to that token do not depend on what
    follows it, and the accepting run on one of them ([C11_slr_complete]) is finite —
    contradiction.  (3) Hence every run of reductions stops within a bound, the next move
    shifts, accepts or rejects, and induction on the remaining input concludes.  The bound is not
    given in closed form. *)
Theorem C11_slr_terminates : C11_slr_terminates_full.
Proof.
  intros G fuel tbl w Hv Hg Hb. destruct (canonical fuel G) as [C|] eqn:EC.
  - destruct (slr_no_hang G Hv Hg fuel C EC tbl Hb w) as [F HF]. exists F. split; [exact HF|].
    intros f Hle. now apply parse_fuel_irrelevant.
  - unfold build_slr, slr_raw in Hb. rewrite EC in Hb. discriminate.
Qed.

(** Hence the full [recognises] clause for the modelled SLR(1) construction. *)
Theorem C11_slr_recognises :
  forall (G : gram) (fuel : nat) (tbl : table),
    valid_grammar G -> generating G -> build_slr fuel G [] = BuiltOk tbl -> recognises G tbl.
Proof.
  intros G fuel tbl Hv Hg Hb w.
  destruct (C11_slr_terminates G fuel tbl w Hv Hg Hb) as [F [HF Hm]]. exists F. split; [exact Hm|].
  destruct (parse F tbl w) as [evs|r e|] eqn:E; [| |congruence].
  - exact (C11_slr_parser_sound G fuel [] tbl F w evs (proj1 (proj1 Hv)) Hb E).
  - intros HL. destruct (C11_slr_complete G fuel tbl w Hv Hb HL) as [f [evs Hf]].
    assert (Hnh : parse f tbl w <> Hang) by (rewrite Hf; discriminate).
    pose proof (parse_fuel_irrelevant tbl w f (Nat.max F f) Hnh (Nat.le_max_r _ _)) as E1.
    pose proof (Hm (Nat.max F f) (Nat.le_max_l _ _)) as E2. congruence.
Qed.

Theorem C11_full_slr_clause :
  forall (G : gram) (fuel : nat) (t : table),
    valid_grammar G -> reduced G -> build_slr fuel G [] = BuiltOk t -> recognises G t.
Proof. intros G fuel t Hv [_ Hg]. exact (C11_slr_recognises G fuel t Hv Hg). Qed.

(** TERMINATION ON EVERY INPUT over the tables of the modelled LALR(1) construction: THEOREM, by
    the same argument (the interface of ProofsTerm4.v is instantiated with the merged states:
    an LR(0) item is in a merged state iff it is in the core of the class, and it carries a
    lookahead iff the LR(1) item is in some member of the class). *)
Theorem C11_lalr_terminates : C11_lalr_terminates_full.
Proof.
  intros G fuel tbl w Hv Hg Hb. destruct (canonical1 fuel G) as [C|] eqn:EC.
  - destruct (lalr_no_hang G Hv Hg fuel C EC tbl Hb w) as [F HF]. exists F. split; [exact HF|].
    intros f Hle. now apply parse_fuel_irrelevant.
  - unfold build_lalr, finish, lalr_raw in Hb. rewrite EC in Hb. discriminate.
Qed.

Theorem C11_lalr_recognises :
  forall (G : gram) (fuel : nat) (tbl : table),
    valid_grammar G -> generating G -> build_lalr fuel G [] = BuiltOk tbl -> recognises G tbl.
Proof.
  intros G fuel tbl Hv Hg Hb w.
  destruct (C11_lalr_terminates G fuel tbl w Hv Hg Hb) as [F [HF Hm]]. exists F. split; [exact Hm|].
  destruct (parse F tbl w) as [evs|r e|] eqn:E; [| |congruence].
  - exact (C11_lalr_parser_sound G fuel [] tbl F w evs (proj1 (proj1 Hv)) Hb E).
  - intros HL. destruct (C11_lalr_complete G fuel tbl w Hv Hb HL) as [f [evs Hf]].
    assert (Hnh : parse f tbl w <> Hang) by (rewrite Hf; discriminate).
    pose proof (parse_fuel_irrelevant tbl w f (Nat.max F f) Hnh (Nat.le_max_r _ _)) as E1.
    pose proof (Hm (Nat.max F f) (Nat.le_max_l _ _)) as E2. congruence.
Qed.

Theorem C11_full_lalr_clause :
  forall (G : gram) (fuel : nat) (t : table),
    valid_grammar G -> reduced G -> build_lalr fuel G [] = BuiltOk t -> recognises G t.
Proof. intros G fuel t Hv [_ Hg]. exact (C11_lalr_recognises G fuel t Hv Hg). Qed.

(** All five clauses of [C11_full] for the three modelled constructions at a common fuel (a
    build function returns a table only for [BuiltOk]; no precedence declarations), for every
    valid reduced grammar whose LR(1) collection is completed within the fuel. *)
Definition built (r : build_result) : option table := match r with BuiltOk t => Some t | _ => None end.

Theorem C11_full_modelled :
  forall (G : gram) (fuel : nat) (C1 : list (list item1)),
    valid_grammar G -> reduced G -> canonical1 fuel G = Some C1 ->
    (forall t, built (build_slr fuel G []) = Some t -> recognises G t) /\
    (forall t, built (build_lalr fuel G []) = Some t -> recognises G t) /\
    (forall t, built (build_clr fuel G []) = Some t -> recognises G t) /\
    (built (build_slr fuel G []) <> None -> built (build_lalr fuel G []) <> None) /\
    (built (build_lalr fuel G []) <> None -> built (build_clr fuel G []) <> None).
Proof.
  intros G fuel C1 Hv Hr HC.
  assert (Hb : forall r t, built r = Some t -> r = BuiltOk t).
  { intros r t H. destruct r; simpl in H; try discriminate. now inversion H. }
  split; [|split; [|split; [|split]]].
  - intros t H. exact (C11_full_slr_clause G fuel t Hv Hr (Hb _ _ H)).
  - intros t H. exact (C11_full_lalr_clause G fuel t Hv Hr (Hb _ _ H)).
  - intros t H. exact (C11_full_clr_clause G fuel t Hv Hr (Hb _ _ H)).
  - intros H. destruct (build_slr fuel G []) as [t| | |] eqn:E; simpl in H; try congruence.
    destruct (C11_slr_ok_implies_lalr_ok G fuel fuel t C1 Hv E HC) as [t1 E1]. rewrite E1. discriminate.
  - intros H. destruct (build_lalr fuel G []) as [t| | |] eqn:E; simpl in H; try congruence.
    destruct (C11_lalr_ok_implies_clr_ok G fuel t E) as [t2 E2]. rewrite E2. discriminate.
Qed.

(** Witness checker for long sentences: a production sequence accepted by [lm_check] is a
    leftmost derivation of the string. *)
Theorem C11_witness_sound :
  forall (G : gram) (ps : list prod) (w : list nat), lm_check G ps w = true -> L G w.
Proof. intros G ps w. apply lm_check_sound. Qed.

(** Non-vacuity: the SLR table that parser/lr/simple builds for S -> a b a | S S a
    (a = 0, b = 1, S = 18) accepts "aba" and "abaabaa" and rejects "abaa". *)
Definition ex_S : nat := 18.
Definition ex_p1 : prod := mkProd ex_S [Tm 0; Tm 1; Tm 0].
Definition ex_p2 : prod := mkProd ex_S [Nt ex_S; Nt ex_S; Tm 0].
Definition sh (s : Z) (a : nat) (t : Z) : Z * look * action := (s, Some a, Shift t).
Definition rd (s : Z) (a : look) (p : prod) : Z * look * action := (s, a, Reduce p).
Definition ex_tbl : table := mkTable
  [ sh 0 0 6; sh 1 0 6; (1%Z, None, Accept);
    rd 2 (Some 0) ex_p2; sh 2 1 5; rd 2 None ex_p2;
    rd 3 (Some 0) ex_p1; rd 3 None ex_p1; sh 4 0 2; sh 5 0 3; sh 6 1 5 ]
  [ (0%Z, ex_S, 1%Z); (1%Z, ex_S, 4%Z); (4%Z, ex_S, 4%Z) ].

Example C11_example :
  (match parse 100 ex_tbl [0;1;0] with Accepted evs => prods_of evs | _ => [] end) = [ex_p1] /\
  (match parse 100 ex_tbl [0;1;0;0] with Rejected _ _ => true | _ => false end) = true /\
  (match parse 100 ex_tbl [0;1;0;0;1;0;0] with Accepted evs => prods_of evs | _ => [] end) = [ex_p1; ex_p1; ex_p2].
Proof. vm_compute. repeat split. Qed.

(** The defect D11a, kept as a machine-checked witness (the Go code is repaired, see corpus):
    for S -> a b a | S S a the unrepaired LALR construction produced the table [d11a_tbl]
    (state 1 shifts [a] to state 2, whose kernel {S -> S S a . , S -> a . b a} strictly contains
    the goto kernel).  It has no conflict, fails the certificate, and the driver accepts
    "abaa", which is not a sentence. *)
Definition d11a_G : gram := mkGrammar [0; 1] [ex_S] [ex_p1; ex_p2] ex_S.
Definition d11a_tbl : table := mkTable
  [ sh 0 0 6; sh 1 0 2; (1%Z, None, Accept);
    rd 2 (Some 0) ex_p2; sh 2 1 5; rd 2 None ex_p2;
    rd 3 (Some 0) ex_p1; rd 3 None ex_p1; sh 4 0 2; sh 5 0 3; sh 6 1 5 ]
  [ (0%Z, ex_S, 1%Z); (1%Z, ex_S, 4%Z); (4%Z, ex_S, 4%Z) ].

Theorem C11_d11a_unrepaired_table_refuted :
  table_ok d11a_G d11a_tbl (infer_labels 7 d11a_tbl) = false /\
  (exists evs, parse 100 d11a_tbl [0; 1; 0; 0] = Accepted evs) /\
  ~ L d11a_G [0; 1; 0; 0] /\
  table_ok d11a_G ex_tbl (infer_labels 7 ex_tbl) = true.
Proof.
  split; [vm_compute; reflexivity|]. split; [eexists; vm_compute; reflexivity|]. split; [|vm_compute; reflexivity].
  intros HL.
  assert (E : exists l, lang_upto 50 d11a_G 4 = Some l /\ mem_str [0; 1; 0; 0] l = false).
  { eexists. split; vm_compute; reflexivity. }
  destruct E as [l [E1 E2]].
  pose proof (C11_oracle_complete d11a_G 50 4 l [0; 1; 0; 0] E1 HL (le_n 4)) as H.
  rewrite E2 in H. discriminate.
Qed.

(** Non-vacuity of the construction theorems: the modelled SLR, LALR and canonical LR
    constructions on S -> a b a | S S a build conflict-free tables with 11, 11 and 17 ACTION entries. *)
Example C11_example_constructions :
  (match build_slr 50 d11a_G [] with BuiltOk t => length (t_action t) | _ => 0 end,
   match build_lalr 50 d11a_G [] with BuiltOk t => length (t_action t) | _ => 0 end,
   match build_clr 50 d11a_G [] with BuiltOk t => length (t_action t) | _ => 0 end) = (11, 11, 17).
Proof. vm_compute. reflexivity. Qed.

Print Assumptions C11_driver_sound.
Print Assumptions C11_driver_terminates.
Print Assumptions C11_term_ok_exact.
Print Assumptions C11_term_ok_mono.
Print Assumptions C11_oracle_sound.
Print Assumptions C11_oracle_complete.
Print Assumptions C11_prec_resolve.
Print Assumptions C11_prec_resolve_any.
Print Assumptions C11_prec_resolve_order_independent.
Print Assumptions C11_prec.
Print Assumptions C11_recognises_partial.
Print Assumptions C11_lr0_closure.
Print Assumptions C11_lr0_access_strings.
Print Assumptions C11_witness_sound.
Print Assumptions C11_slr_construction_ok.
Print Assumptions C11_slr_parser_sound.
Print Assumptions C11_clr_construction_ok.
Print Assumptions C11_clr_parser_sound.
Print Assumptions C11_lalr_construction_ok.
Print Assumptions C11_lalr_parser_sound.
Print Assumptions C11_lalr_ok_implies_clr_ok.
Print Assumptions C11_follow_fuel_suffices.
Print Assumptions C11_slr_ok_implies_lalr_ok.
Print Assumptions C11_chain.
Print Assumptions C11_clr_complete.
Print Assumptions C11_clr_recognises_exactly.
Print Assumptions C11_slr_complete.
Print Assumptions C11_slr_recognises_exactly.
Print Assumptions C11_lalr_complete.
Print Assumptions C11_lalr_recognises_exactly.
Print Assumptions C11_constructions_agree.
Print Assumptions C11_d11a_unrepaired_table_refuted.
Print Assumptions C11_clr_terminates.
Print Assumptions C11_clr_recognises.
Print Assumptions C11_full_clr_clause.
Print Assumptions C11_nongenerating_hangs_refuted.
Print Assumptions C11_slr_terminates.
Print Assumptions C11_slr_recognises.
Print Assumptions C11_full_slr_clause.
Print Assumptions C11_lalr_terminates.
Print Assumptions C11_lalr_recognises.
Print Assumptions C11_full_lalr_clause.
Print Assumptions C11_full_modelled.
